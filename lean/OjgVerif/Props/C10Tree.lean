import OjgVerif.Props.C10Num
/-! # C10 on the tight writer model — whole trees

`C10_tree_partial`: for every option combination of the tight sen.Writer (OmitNil, OmitEmpty, HTML-safe or not) and
every array or object built from `null`, booleans, int64 and uint64 integers, floats (given by their strconv text), strings, arrays
and objects to any depth, `sen.Parser.Parse` of
the text `Sen.tightVal` produces (the model of `sen.String`/`sen.Bytes`/`sen.Write` with `Indent == 0`, compared byte
for byte with the Go writer by the correspondence run) is the one document `nvVal o v`. Excluded by `admVal`: strings
in value position that are one of the reserved words, strings and member names written bare with a leading sign (the
two known findings C10-reserved-word, C10-leading-sign), json.Number leaves. Integers: all int64 and uint64 — from
9223372036854775800 on the parser's integer fast loop answers json.Number (known finding C03sen-int19), with the same
digits: that is what `nvVal` says there (`nvInt`, `value_int_all`). Floats: any literal of the RFC 8259 number grammar
with a small integer part (`NumAdm`, Props/C10Num.lean) comes back as `Json.numConv` of its text (`value_flt`).
The indented writer: Props/C10Indent.lean; a scalar as the whole document (the end-of-input path): Props/C10Top.lean; any
white-space layout (pretty.SEN): Props/C10Layout.lean; sen.Write with WriteLimit: Props/C10Stream.lean.

Technique: the byte machine is run over the writer's output in an arbitrary context. `St.pushed` is the state after a
value has been completed in its context (array, member value, top of an empty parser); states are compared up to
scratch fields (`CoreEq`); a bare token or a number that is still pending when the value's text ends is completed by the
delimiter that follows (`step_tokenEnd`: the token-end fast path adds the token and reads the delimiter again in the
new mode; `step_numEnd` in the number modes `digit`, `zero`, `frac`, `exp`), so a value is "done" (`DoneV`) when it is
complete or pending, and `done_step` makes the two cases
indistinguishable at a delimiter. Three claims by induction on the size of the tree: values (`VClaim`), the
elements of an array up to and including `]` (`EClaim`), the members of an object up to and including `}`
(`MClaim`).

`C10_tree_valid`: when moreover the strings and member names are valid UTF-8, member names are pairwise different,
the writer passes over no member, integers are below the limit and float texts canonical (`plainVal`), the document
that comes back is the tree ITSELF. -/
set_option linter.unusedSimpArgs false
set_option linter.unusedVariables false
set_option linter.unusedSectionVars false
namespace OjgVerif.Sen
open OjgVerif
open OjgVerif.Writer (sanitize)
open OjgVerif.Json (Num BigLimit isDigitB dval natOf fmtNat)

/-! ## single steps in a general context (sen.Parser, default configuration, reference tables) -/

/-- a space in value mode is skipped -/
theorem step_space (st : St) (f : Fast) (l : Bool) (hm : st.mode = .value) (hf : f.nlSkipping = false) :
    step refTables {} st f 32 l = .ok (st, fS f, false) := by
  simp [step, stepCore, stepAct, stepActP, nextFast, refTables, expected, isSep, isBlank, hm, hf, fS]

/-- `[` in value mode at depth > 0 (or at the top with nothing pending) -/
theorem step_openArr (st : St) (f : Fast) (l : Bool) (hm : st.mode = .value) (hf : f.nlSkipping = false)
    (hd : st.starts ≠ [] ∨ st.stack = []) :
    step refTables {} st f 91 l =
      .ok ({ st with mode := .value, starts := some st.stack.length :: st.starts, stack := .arrMark :: st.stack },
           fS f, false) := by
  have hu : st.undelivered = st := by
    unfold St.undelivered
    rcases hd with h | h
    · have : st.starts.isEmpty = false := by cases hs : st.starts <;> simp_all
      simp [this]
    · simp [h]
  simp [step, stepCore, stepAct, stepActP, nextFast, refTables, expected, expectedFin, isSep, isBlank, isDigit19,
    St.flushP, hu, startP, hm, hf, fS, Functor.map, Except.map, Bind.bind, Except.bind, Pure.pure, Except.pure]

/-- `{` in value mode -/
theorem step_openObj (st : St) (f : Fast) (l : Bool) (hm : st.mode = .value) (hf : f.nlSkipping = false)
    (hd : st.starts ≠ [] ∨ st.stack = []) :
    step refTables {} st f 123 l =
      .ok ({ st with mode := .value, starts := none :: st.starts, stack := .obj [] :: st.stack }, fS f, false) := by
  have hu : st.undelivered = st := by
    unfold St.undelivered
    rcases hd with h | h
    · have : st.starts.isEmpty = false := by cases hs : st.starts <;> simp_all
      simp [this]
    · simp [h]
  simp [step, stepCore, stepAct, stepActP, nextFast, refTables, expected, expectedFin, isSep, isBlank, isDigit19,
    St.flushP, hu, hm, hf, fS, Functor.map, Except.map, Bind.bind, Except.bind, Pure.pure, Except.pure]

/-! ## completing a value in its context -/

/-- the state after the value `x` has been completed in the context of `s` -/
def St.pushed (s : St) (x : JV) : St :=
  match s.starts with
  | [] => { s with mode := .space, stack := [], docs := x :: s.docs }
  | none :: _ =>
    match s.stack with
    | .key k :: .obj kvs :: r => { s with mode := .value, stack := .obj (kvInsert k x kvs) :: r, lastKey := k }
    | _ => s
  | some _ :: _ => { s with mode := .value, stack := .val x :: s.stack }

/-- a value is expected here: the top of an empty parser, inside an array, or after a member name -/
def ValPos (s : St) : Prop :=
  (s.starts = [] ∧ s.stack = []) ∨ (∃ j o, s.starts = some j :: o) ∨
  (∃ o k kvs r, s.starts = none :: o ∧ s.stack = .key k :: .obj kvs :: r)

/-- inside a container -/
def Inner (s : St) : Prop :=
  (∃ j o, s.starts = some j :: o) ∨ (∃ o k kvs r, s.starts = none :: o ∧ s.stack = .key k :: .obj kvs :: r)

theorem Inner.valPos {s : St} (h : Inner s) : ValPos s := Or.inr h

/-- `addToken` completes the value (inside a container the end-of-document test does nothing) -/
theorem addTokenP_pushed (s : St) (t : Bytes) (h : Inner s) : s.addTokenP t = .ok (s.pushed (tokenValue t)) := by
  rcases h with ⟨j, o, h1⟩ | ⟨o, k, kvs, r, h1, h2⟩
  · simp [St.addTokenP, St.pushed, h1]
  · simp [St.addTokenP, St.setMember, St.pushed, h1, h2, topIsKey]

theorem addStringP_pushed (s : St) (t : Bytes) (h : Inner s) (hp : s.plus = false) :
    s.addStringP t = .ok (s.pushed (.str t)) := by
  rcases h with ⟨j, o, h1⟩ | ⟨o, k, kvs, r, h1, h2⟩
  · simp [St.addStringP, St.pushed, h1, hp]
  · simp [St.addStringP, St.setMember, St.pushed, h1, h2, hp, topIsKey]

theorem pushed_mode (s : St) (x : JV) (h : Inner s) : (s.pushed x).mode = .value := by
  rcases h with ⟨j, o, h1⟩ | ⟨o, k, kvs, r, h1, h2⟩
  · simp [St.pushed, h1]
  · simp [St.pushed, h1, h2]

theorem pushed_starts (s : St) (x : JV) : (s.pushed x).starts = s.starts := by
  unfold St.pushed
  split
  · rfl
  · split <;> rfl
  · rfl

theorem deliver_pushed (s : St) (x : JV) (h : Inner s) : deliver refTables {} (s.pushed x) = .ok (s.pushed x) := by
  have hs : (s.pushed x).starts ≠ [] := by
    rw [pushed_starts]
    rcases h with ⟨j, o, h1⟩ | ⟨o, k, kvs, r, h1, h2⟩ <;> rw [h1] <;> simp
  unfold deliver
  have : (s.pushed x).starts.isEmpty = false := by cases hh : (s.pushed x).starts <;> simp_all
  simp [this]

/-- `]` in value mode: the elements above the placeholder become an array, which is completed in the outer
context -/
theorem step_closeArr (st : St) (f : Fast) (l : Bool) (hm : st.mode = .value) (hf : f.nlSkipping = false)
    (i : Nat) (outer : List (Option Nat)) (hs : st.starts = some i :: outer)
    (elems : List JV) (mk : Item) (below : List Item) (hsp : splitStack st.stack i = some (elems, mk, below))
    (hv : ValPos ({ st with starts := outer, stack := below } : St)) :
    step refTables {} st f 93 l =
      .ok ((({ st with starts := outer, stack := below } : St).pushed (.arr elems)), fS f, false) := by
  rcases hv with ⟨h1, h2⟩ | ⟨j, o, h1⟩ | ⟨o, k, kvs, r, h1, h2⟩
  · simp only at h1 h2
    subst h1; subst h2
    simp [step, stepCore, stepAct, stepActP, nextFast, refTables, expected, expectedFin, isSep, isBlank, isDigit19,
      St.flushCloseP, hsp, St.add, St.pushed, deliver, deliverP, hm, hs, hf, fS, Item.toJV,
      Functor.map, Except.map, Bind.bind, Except.bind, Pure.pure, Except.pure]
  · simp only at h1
    subst h1
    simp [step, stepCore, stepAct, stepActP, nextFast, refTables, expected, expectedFin, isSep, isBlank, isDigit19,
      St.flushCloseP, hsp, St.add, St.pushed, deliver, deliverP, hm, hs, hf, fS, Item.toJV,
      Functor.map, Except.map, Bind.bind, Except.bind, Pure.pure, Except.pure]
  · simp only at h1 h2
    subst h1; subst h2
    simp [step, stepCore, stepAct, stepActP, nextFast, refTables, expected, expectedFin, isSep, isBlank, isDigit19,
      St.flushCloseP, hsp, St.add, St.setMember, topIsKey, St.pushed, deliver, deliverP, hm, hs, hf, fS, Item.toJV,
      Functor.map, Except.map, Bind.bind, Except.bind, Pure.pure, Except.pure]

/-- `}` in value mode with the map on top: the object is completed in the outer context -/
theorem step_closeObj (st : St) (f : Fast) (l : Bool) (hm : st.mode = .value) (hf : f.nlSkipping = false)
    (outer : List (Option Nat)) (hs : st.starts = none :: outer)
    (kvs : List (Bytes × JV)) (below : List Item) (hk : st.stack = .obj kvs :: below)
    (hv : ValPos ({ st with starts := outer, stack := below } : St)) :
    step refTables {} st f 125 l =
      .ok ((({ st with starts := outer, stack := below } : St).pushed (.obj kvs)), fS f, false) := by
  rcases hv with ⟨h1, h2⟩ | ⟨j, o, h1⟩ | ⟨o, k, kvs', r, h1, h2⟩
  · simp only at h1 h2
    subst h1; subst h2
    simp [step, stepCore, stepAct, stepActP, nextFast, refTables, expected, expectedFin, isSep, isBlank, isDigit19,
      St.flushP, hk, topIsKey, St.add, St.pushed, deliver, deliverP, hm, hs, hf, fS, Item.toJV,
      Functor.map, Except.map, Bind.bind, Except.bind, Pure.pure, Except.pure]
  · simp only at h1
    subst h1
    simp [step, stepCore, stepAct, stepActP, nextFast, refTables, expected, expectedFin, isSep, isBlank, isDigit19,
      St.flushP, hk, topIsKey, St.add, St.pushed, deliver, deliverP, hm, hs, hf, fS, Item.toJV,
      Functor.map, Except.map, Bind.bind, Except.bind, Pure.pure, Except.pure]
  · simp only at h1 h2
    subst h1; subst h2
    simp [step, stepCore, stepAct, stepActP, nextFast, refTables, expected, expectedFin, isSep, isBlank, isDigit19,
      St.flushP, hk, topIsKey, St.add, St.setMember, St.pushed, deliver, deliverP, hm, hs, hf, fS, Item.toJV,
      Functor.map, Except.map, Bind.bind, Except.bind, Pure.pure, Except.pure]

def fT (f : Fast) : Fast := { inFast := false, tokFast := false, nlSkipping := false }

/-- **a pending bare token is completed by the byte that ends it, which is then read in the new mode**: the
token-end fast path -/
theorem step_tokenEnd (st : St) (f : Fast) (d : UInt8) (l : Bool) (hm : st.mode = .token) (hf : f.nlSkipping = false)
    (hi : f.inFast = false) (ht : f.tokFast = true) (hin : Inner st) (hd : expected .token d ≠ .tokenOk) (h40 : d ≠ 40) :
    step refTables {} st f d l = step refTables {} (st.pushed (tokenValue st.tmp.reverse)) (fT f) d l := by
  have ha := addTokenP_pushed st st.tmp.reverse hin
  have hdl := deliver_pushed st (tokenValue st.tmp.reverse) hin
  have hm2 := pushed_mode st (tokenValue st.tmp.reverse) hin
  have hact : refTables.act .token d ≠ .tokenOk := hd
  have hf2 : ({ f with nlSkipping := false } : Fast) = f := by cases f; simp_all
  have hf3 : ({ f with tokFast := false } : Fast) = fT f := by cases f; simp_all [fT]
  have hf4 : ({ fT f with nlSkipping := false } : Fast) = fT f := rfl
  unfold step
  simp only [hf, Bool.false_and, Bool.false_eq_true, ↓reduceIte, hm, hm2, hact, ht, hf2, hf4, fT, ne_eq,
    not_false_eq_true, decide_true, Bool.true_and, Bool.or_true, Bool.true_or, Bool.and_true, decide_false,
    Bool.false_and, reduceCtorEq]
  unfold tokenEndFast
  simp only [h40, decide_false, Bool.false_and, Bool.false_eq_true, ↓reduceIte, ha, hdl, hi]

/-! ## states up to scratch fields -/

/-- the fields that matter between values: the rest (`tmp`, `ri`, `rn`, `num`, `quoteDelim`, `lastKey`, …) is
scratch that the next value overwrites before it reads it -/
def CoreEq (a b : St) : Prop :=
  a.mode = b.mode ∧ a.starts = b.starts ∧ a.stack = b.stack ∧ a.docs = b.docs ∧ a.plus = b.plus

theorem CoreEq.rfl' (a : St) : CoreEq a a := ⟨rfl, rfl, rfl, rfl, rfl⟩

theorem CoreEq.trans' {a b c : St} (h1 : CoreEq a b) (h2 : CoreEq b c) : CoreEq a c :=
  ⟨h1.1.trans h2.1, h1.2.1.trans h2.2.1, h1.2.2.1.trans h2.2.2.1, h1.2.2.2.1.trans h2.2.2.2.1, h1.2.2.2.2.trans h2.2.2.2.2⟩

theorem CoreEq.pushed {a b : St} (h : CoreEq a b) (x : JV) : CoreEq (a.pushed x) (b.pushed x) := by
  obtain ⟨m1, st1, sk1, d1, e1, x1, t1, ri1, rn1, n1, q1, p1, lk1, ls1, ft1⟩ := a
  obtain ⟨m2, st2, sk2, d2, e2, x2, t2, ri2, rn2, n2, q2, p2, lk2, ls2, ft2⟩ := b
  obtain ⟨h1, h2, h3, h4, h5⟩ := h
  simp only at h1 h2 h3 h4 h5
  subst h1; subst h2; subst h3; subst h4; subst h5
  unfold St.pushed CoreEq
  simp only
  split
  · simp
  · split <;> simp
  · simp

theorem CoreEq.inner {a b : St} (h : CoreEq a b) (hi : Inner a) : Inner b := by
  obtain ⟨_, h2, h3, _, _⟩ := h
  unfold Inner at hi ⊢
  rw [← h2, ← h3]; exact hi

/-- the fast-path record between values -/
def FOK (f : Fast) : Prop := f.nlSkipping = false ∧ f.inFast = false

theorem FOK_fS (f : Fast) (h : FOK f) : FOK (fS f) := ⟨rfl, rfl⟩
theorem FOK_fT (f : Fast) : FOK (fT f) := ⟨rfl, rfl⟩
theorem FOK_fS' (f : Fast) : FOK (fS f) := ⟨rfl, rfl⟩

/-- the delimiters the tight writer puts after a scalar -/
def isDelim (d : UInt8) : Prop := d = 32 ∨ d = 93 ∨ d = 125

/-! ## integers (single steps and `NumOK`: Props/C10Int.lean) -/

/-- a pending number is completed by the delimiter that follows it: the step is the step of the completed state -/
theorem step_numEnd (st : St) (f : Fast) (d : UInt8) (l : Bool) (hm : NumMode st.mode)
    (hin : Inner st) (hd : isDelim d) (hf : f.nlSkipping = false) :
    step refTables {} st f d l = step refTables {} (st.pushed st.num.asNum.toJV) f d l := by
  rcases hin with ⟨j, o, h1⟩ | ⟨o, k, kvs, r, h1, h2⟩
  · rcases hm with hm | hm | hm | hm <;> rcases hd with rfl | rfl | rfl <;>
      simp [step, stepCore, stepAct, stepActP, nextFast, refTables, expected, expectedNumEnd, expectedFin, isSep, isBlank,
        isDigit, isDigit19, isE, St.flushP, St.flushCloseP, St.add, St.addIgnore, St.pushed, deliver, hm, h1, hf,
        Functor.map, Except.map, Bind.bind, Except.bind, Pure.pure, Except.pure]
  · rcases hm with hm | hm | hm | hm <;> rcases hd with rfl | rfl | rfl <;>
      simp [step, stepCore, stepAct, stepActP, nextFast, refTables, expected, expectedNumEnd, expectedFin, isSep, isBlank,
        isDigit, isDigit19, isE, St.flushP, St.flushCloseP, St.add, St.addIgnore, St.setMember, topIsKey, St.pushed, deliver,
        hm, h1, h2, hf, Functor.map, Except.map, Bind.bind, Except.bind, Pure.pure, Except.pure]

/-! ## done -/

/-- the value is complete (`tgt` up to scratch), or it is a bare token or an integer that is still pending and
that the next delimiter will complete to `tgt` (a number: any of the modes `digit`, `zero`, `frac`, `exp`) -/
def DoneV (st : St) (f : Fast) (tgt : St) : Prop :=
  f.nlSkipping = false ∧ ((CoreEq st tgt ∧ f.inFast = false) ∨
    (st.mode = .token ∧ f.tokFast = true ∧ f.inFast = false ∧ Inner st ∧
      CoreEq (st.pushed (tokenValue st.tmp.reverse)) tgt) ∨
    (NumMode st.mode ∧ Inner st ∧ CoreEq (st.pushed st.num.asNum.toJV) tgt))

theorem delim_facts (d : UInt8) (h : isDelim d) : expected .token d ≠ .tokenOk ∧ d ≠ 40 := by
  rcases h with rfl | rfl | rfl <;> exact ⟨by decide +kernel, by decide⟩

/-- at a delimiter a value that is done behaves like the complete one -/
theorem done_step (st : St) (f : Fast) (tgt : St) (h : DoneV st f tgt) (d : UInt8) (hd : isDelim d) :
    ∃ s2 f2, CoreEq s2 tgt ∧ f2.nlSkipping = false ∧ ∀ l, step refTables {} st f d l = step refTables {} s2 f2 d l := by
  obtain ⟨hf, ⟨h, _⟩ | ⟨hm, ht, hi, hin, hc⟩ | ⟨hm, hin, hc⟩⟩ := h
  · exact ⟨st, f, h, hf, fun _ => rfl⟩
  · obtain ⟨e1, e2⟩ := delim_facts d hd
    exact ⟨_, fT f, hc, rfl, fun l => step_tokenEnd st f d l hm hf hi ht hin e1 e2⟩
  · exact ⟨_, f, hc, hf, fun l => step_numEnd st f d l hm hin hd hf⟩

/-- `pushed` overwrites the mode: states that agree on the context give the same core -/
theorem pushed_core (a b : St) (x : JV) (hin : Inner a) (h2 : a.starts = b.starts) (h3 : a.stack = b.stack)
    (h4 : a.docs = b.docs) (h5 : a.plus = b.plus) : CoreEq (a.pushed x) (b.pushed x) := by
  obtain ⟨m1, st1, sk1, d1, e1, x1, t1, ri1, rn1, n1, q1, p1, lk1, ls1, ft1⟩ := a
  obtain ⟨m2, st2, sk2, d2, e2, x2, t2, ri2, rn2, n2, q2, p2, lk2, ls2, ft2⟩ := b
  simp only at h2 h3 h4 h5
  subst h2; subst h3; subst h4; subst h5
  rcases hin with ⟨j, o, h1⟩ | ⟨o, k, kvs, r, h1, h2⟩
  · simp only at h1; subst h1
    simp [St.pushed, CoreEq]
  · simp only at h1 h2; subst h1; subst h2
    simp [St.pushed, CoreEq]

/-! ## scalars -/

section scalars
variable (html : Bool)

/-- a string value, bare or quoted -/
theorem value_str (s : Bytes) (st : St) (f : Fast) (p : Pos) (rest : Bytes) (hm : st.mode = .value)
    (hp : st.plus = false) (hin : Inner st) (hf : FOK f) (h1 : ¬ C10.reservedWord s) (h2 : ¬ C10.leadingSign s html) :
    ∃ st' f' p', runBytes refTables {} st f p (senString s html ++ rest) = runBytes refTables {} st' f' p' rest ∧
      DoneV st' f' (st.pushed (.str (sanitize s))) := by
  by_cases hq : s = [] ∨ senQuoted s html = true
  · -- quoted
    rw [C10.quoted_form s html hq]
    simp only [List.cons_append, List.append_assoc, List.nil_append]
    obtain ⟨ri, rn, p', h⟩ := C10.quoted_run s html st f p (34 :: rest) hm
    rw [h]
    let sq : St := { st with quoteDelim := 34, mode := .string, ri := ri, rn := rn, tmp := (sanitize s).reverse }
    have hinq : Inner sq := hin
    have hstep : ∀ l, step refTables {} sq (fS f) 34 l = .ok (sq.pushed (.str (sanitize s)), fS (fS f), false) := by
      intro l
      rw [step_quoteEnd {} rfl rfl sq (fS f) l rfl rfl rfl]
      have ha := addStringP_pushed sq sq.tmp.reverse hinq hp
      have e : sq.tmp.reverse = sanitize s := by simp [sq]
      rw [e] at ha ⊢
      rw [ha]
      simp only [deliver_pushed sq _ hinq]
    refine ⟨sq.pushed (.str (sanitize s)), fS (fS f), p'.next false, ?_, rfl, Or.inl ⟨?_, rfl⟩⟩
    · show runBytes refTables {} sq (fS f) p' (34 :: rest) = _
      rw [runBytes_cons_ok {} hstep]
    · exact pushed_core sq st _ hinq rfl rfl rfl rfl
  · -- bare
    have hne : s ≠ [] := fun h => hq (Or.inl h)
    have hqf : senQuoted s html = false := by
      cases h : senQuoted s html with
      | false => rfl
      | true => exact absurd (Or.inr h) hq
    obtain ⟨p', h⟩ := C10.bare_run s html st f p rest hm hne hqf h2
    refine ⟨{ st with mode := .token, tmp := s.reverse }, { inFast := false, tokFast := true, nlSkipping := false }, p', h,
      rfl, Or.inr (Or.inl ⟨rfl, rfl, rfl, hin, ?_⟩)⟩
    have e1 : tokenValue (({ st with mode := Mode.token, tmp := s.reverse } : St).tmp.reverse) = .str s := by
      simp only [List.reverse_reverse]
      exact C10.tokenValue_str s h1
    have e2 : sanitize s = s := (C10.bare_facts s html hne hqf).2.1
    rw [e1, e2]
    exact pushed_core _ st _ hin rfl rfl rfl rfl

/-- a bare word (`null`, `true`, `false`) -/
theorem value_word (b : UInt8) (t : Bytes) (st : St) (f : Fast) (p : Pos) (rest : Bytes) (hm : st.mode = .value)
    (hin : Inner st) (hf : FOK f) (hb : expected .value b = .tokenStart) (ht : expected .token b = .tokenOk)
    (hs : expected .space b ≠ .skipChar) (hr : ∀ x ∈ t, expected .token x = .tokenOk) :
    ∃ st' f' p', runBytes refTables {} st f p ((b :: t) ++ rest) = runBytes refTables {} st' f' p' rest ∧
      DoneV st' f' (st.pushed (tokenValue (b :: t))) := by
  rw [List.cons_append, runBytes_cons_ok {} (fun l => step_tokenStart {} rfl st f b l hm hb ht hs)]
  obtain ⟨p', h⟩ := token_run {} rfl t { st with tmp := [b], mode := .token }
    { inFast := false, tokFast := true, nlSkipping := false } (p.next false) rest rfl rfl rfl hr
  refine ⟨_, _, p', h, rfl, Or.inr (Or.inl ⟨rfl, rfl, rfl, hin, ?_⟩)⟩
  have e : (({ ({ st with tmp := [b], mode := Mode.token } : St) with tmp := t.reverse ++ [b] } : St).tmp.reverse) = b :: t := by
    simp
  rw [e]
  exact pushed_core _ st _ hin rfl rfl rfl rfl

theorem value_null (st : St) (f : Fast) (p : Pos) (rest : Bytes) (hm : st.mode = .value) (hin : Inner st) (hf : FOK f) :
    ∃ st' f' p', runBytes refTables {} st f p ([110, 117, 108, 108] ++ rest) = runBytes refTables {} st' f' p' rest ∧
      DoneV st' f' (st.pushed .null) :=
  value_word 110 [117, 108, 108] st f p rest hm hin hf (by decide +kernel) (by decide +kernel) (by decide +kernel)
    (by decide +kernel)

theorem value_true (st : St) (f : Fast) (p : Pos) (rest : Bytes) (hm : st.mode = .value) (hin : Inner st) (hf : FOK f) :
    ∃ st' f' p', runBytes refTables {} st f p ([116, 114, 117, 101] ++ rest) = runBytes refTables {} st' f' p' rest ∧
      DoneV st' f' (st.pushed (.bool true)) :=
  value_word 116 [114, 117, 101] st f p rest hm hin hf (by decide +kernel) (by decide +kernel) (by decide +kernel)
    (by decide +kernel)

theorem value_false (st : St) (f : Fast) (p : Pos) (rest : Bytes) (hm : st.mode = .value) (hin : Inner st) (hf : FOK f) :
    ∃ st' f' p', runBytes refTables {} st f p ([102, 97, 108, 115, 101] ++ rest) = runBytes refTables {} st' f' p' rest ∧
      DoneV st' f' (st.pushed (.bool false)) :=
  value_word 102 [97, 108, 115, 101] st f p rest hm hin hf (by decide +kernel) (by decide +kernel) (by decide +kernel)
    (by decide +kernel)

/-! ## integer values -/

theorem NumOK_asNum (n : Num) (neg : Bool) (v : Nat) (h : NumOK n neg v) (hv : v < 9223372036854775800) :
    n.asNum.toJV = .int (if neg then -(v : Int) else (v : Int)) := by
  obtain ⟨h1, h2, h3, h4, h5⟩ := h
  unfold Num.asNum
  have ht : Json.toInt64 n.i = (v : Int) := by
    unfold Json.toInt64
    rw [h2]
    have : v < 9223372036854775808 := by omega
    simp [this]
  simp only [h1, List.length_nil, Nat.lt_irrefl, ↓reduceIte, h3, h4, beq_self_eq_true, Bool.and_self, ht, h5,
    Json.NumRes.toJV]
  cases neg with
  | false => simp
  | true =>
    simp only [↓reduceIte]
    unfold Json.negInt64
    have : (v : Int) ≠ -9223372036854775808 := by omega
    simp [this]

theorem natOf_cons_foldl (d : UInt8) (ds : Bytes) :
    ds.foldl (fun a b => a * 10 + dval b) (dval d) = natOf (d :: ds) := by
  simp [natOf]

theorem all_digits (ds : Bytes) (h : (ds.all Json.Spec.isDigit) = true) : ∀ d ∈ ds, isDigitB d := by
  intro d hd
  simp only [List.all_eq_true] at h
  exact d_digit d (h d hd)

/-- an integer below the limit: after its digits the number is pending with exactly that value -/
theorem value_int (i : Int) (hi : -9223372036854775800 < i ∧ i < 9223372036854775800) (st : St) (f : Fast) (p : Pos)
    (rest : Bytes) (hm : st.mode = .value) (hin : Inner st) (hf : FOK f) :
    ∃ st' f' p', runBytes refTables {} st f p (fmtInt i ++ rest) = runBytes refTables {} st' f' p' rest ∧
      DoneV st' f' (st.pushed (.int i)) := by
  obtain ⟨d, ds, he, hds, h0, h19⟩ := Writer.fmtNat_shape i.natAbs
  rw [fmtNat_eq] at he
  have hnat : natOf (d :: ds) = i.natAbs := by rw [← he]; exact Json.natOf_fmtNat _
  have hbound : i.natAbs < 9223372036854775800 := by omega
  have hdsd := all_digits ds hds
  by_cases hneg : i < 0
  · -- negative
    have hpos : 0 < i.natAbs := by omega
    have hd19 := h19 hpos
    obtain ⟨hdd, hd1⟩ := d19_digit d hd19
    have hfmt : fmtInt i = 45 :: d :: ds := by simp [fmtInt, hneg, he]
    rw [hfmt]
    let s1 : St := { st with mode := .neg, num := { st.num.reset with neg := true } }
    let s2 : St := { s1 with num := s1.num.addDigit d, mode := .digit }
    have e1 : ∀ l, step refTables {} st f 45 l = .ok (s1, fS f, false) := fun l => step_valNeg st f l hm hf.1
    have e2 : ∀ l, step refTables {} s1 (fS f) d l = .ok (s2, fS (fS f), false) := fun l => step_negDigit s1 (fS f) d l rfl rfl hd19
    have hok1 : NumOK s1.num true 0 := ⟨rfl, rfl, rfl, rfl, rfl⟩
    obtain ⟨hok2, hadd, _⟩ := NumOK_digit s1.num true 0 d hok1 (by omega) hdd
    have hok2' : NumOK s2.num true (dval d) := by
      show NumOK (s1.num.addDigit d) true (dval d)
      rw [hadd]; simpa using hok2
    obtain ⟨n', f', p', hrun, hf', hn'⟩ := digits_run ds s2 (fS (fS f)) ((p.next false).next false) rest true (dval d) rfl rfl
      hdsd hok2' (by rw [natOf_cons_foldl, hnat]; exact hbound)
    rw [natOf_cons_foldl, hnat] at hn'
    refine ⟨{ s2 with num := n' }, f', p', ?_, hf', Or.inr (Or.inr ⟨Or.inl rfl, hin, ?_⟩)⟩
    · show runBytes refTables {} st f p (45 :: d :: (ds ++ rest)) = _
      rw [runBytes_cons_ok {} e1, runBytes_cons_ok {} e2]
      exact hrun
    · have ea : (({ s2 with num := n' } : St).num.asNum.toJV) = .int i := by
        show n'.asNum.toJV = _
        rw [NumOK_asNum n' true _ hn' hbound]
        simp only [↓reduceIte]
        congr 1; omega
      rw [ea]
      exact pushed_core _ st _ hin rfl rfl rfl rfl
  · -- zero or positive
    have hfmt : fmtInt i = d :: ds := by simp [fmtInt, hneg, he]
    rw [hfmt]
    by_cases hz : i.natAbs = 0
    · obtain ⟨rfl, rfl⟩ := h0 hz
      have hi0 : i = 0 := by omega
      subst hi0
      let s1 : St := { st with mode := .zero, num := st.num.reset }
      have e1 : ∀ l, step refTables {} st f 48 l = .ok (s1, fS f, false) := fun l => step_val0 st f l hm hf.1
      refine ⟨s1, fS f, p.next false, ?_, rfl, Or.inr (Or.inr ⟨Or.inr (Or.inl rfl), hin, ?_⟩)⟩
      · show runBytes refTables {} st f p (48 :: rest) = _
        exact runBytes_cons_ok {} e1
      · have ea : s1.num.asNum.toJV = .int 0 := by
          show st.num.reset.asNum.toJV = _
          rfl
        rw [ea]
        exact pushed_core _ st _ hin rfl rfl rfl rfl
    · have hpos : 0 < i.natAbs := by omega
      have hd19 := h19 hpos
      obtain ⟨hdd, hd1⟩ := d19_digit d hd19
      let s1 : St := { st with mode := .digit, num := { st.num.reset with i := (d - 48).toUInt64 } }
      have e1 : ∀ l, step refTables {} st f d l =
          .ok (s1, { inFast := true, tokFast := f.tokFast, nlSkipping := false }, false) :=
        fun l => step_valDigit st f d l hm hf.1 hd19
      have hok1 : NumOK s1.num false (dval d) := ⟨rfl, Json.digit_toUInt64 d hdd, rfl, rfl, rfl⟩
      obtain ⟨n', f', p', hrun, hf', hn'⟩ := digits_run ds s1 { inFast := true, tokFast := f.tokFast, nlSkipping := false }
        (p.next false) rest false (dval d) rfl rfl hdsd hok1 (by rw [natOf_cons_foldl, hnat]; exact hbound)
      rw [natOf_cons_foldl, hnat] at hn'
      refine ⟨{ s1 with num := n' }, f', p', ?_, hf', Or.inr (Or.inr ⟨Or.inl rfl, hin, ?_⟩)⟩
      · show runBytes refTables {} st f p (d :: (ds ++ rest)) = _
        rw [runBytes_cons_ok {} e1]
        exact hrun
      · have ea : (({ s1 with num := n' } : St).num.asNum.toJV) = .int i := by
          show n'.asNum.toJV = _
          rw [NumOK_asNum n' false _ hn' hbound]
          simp only [Bool.false_eq_true, ↓reduceIte]
          congr 1; omega
        rw [ea]
        exact pushed_core _ st _ hin rfl rfl rfl rfl

/-- every int64: below the limit the int64 itself (`value_int`), at the limit `nvInt` (a `json.Number` with the same
digits from 9223372036854775800 on and for -9223372036854775808; `edge_run_pos`, `edge_run_neg`) -/
theorem value_int_all (i : Int) (hi : -9223372036854775808 ≤ i ∧ i ≤ 18446744073709551615) (st : St) (f : Fast) (p : Pos)
    (rest : Bytes) (hm : st.mode = .value) (hin : Inner st) (hf : FOK f) :
    ∃ st' f' p', runBytes refTables {} st f p (fmtInt i ++ rest) = runBytes refTables {} st' f' p' rest ∧
      DoneV st' f' (st.pushed (nvInt i)) := by
  by_cases hmid : -9223372036854775800 < i ∧ i < 9223372036854775800
  · have e : nvInt i = .int i := by
      unfold nvInt; rw [if_pos ⟨by omega, hmid.2⟩]
    rw [e]
    exact value_int i hmid st f p rest hm hin hf
  · have hedge : ∀ (st' : St) (f' : Fast) (x : JV), st'.mode = .digit → st'.num.asNum.toJV = x → st'.starts = st.starts →
        st'.stack = st.stack → st'.docs = st.docs → st'.plus = st.plus → f'.nlSkipping = false →
        DoneV st' f' (st.pushed x) := by
      intro st' f' x m3 n3 a3 b3 c3 d3 e3
      have hin' : Inner st' := by unfold Inner; rw [a3, b3]; exact hin
      refine ⟨e3, Or.inr (Or.inr ⟨Or.inl m3, hin', ?_⟩)⟩
      rw [n3]
      exact pushed_core st' st x hin' a3 b3 c3 d3
    by_cases hpos : 0 ≤ i
    · have htxt : fmtInt i = fmtNat i.natAbs := by
        have : ¬ i < 0 := by omega
        simp [fmtInt, this]
      obtain ⟨st', f', p', hrun, m3, n3, a3, b3, c3, d3, e3⟩ := edge_run_posN i.natAbs (by omega) st f p rest hm hf.1
      refine ⟨st', f', p', by rw [htxt]; exact hrun, ?_⟩
      have e : nvInt i = .big (fmtNat i.natAbs) := by
        unfold nvInt; rw [if_neg (by omega), htxt]
      rw [e]
      exact hedge st' f' _ m3 n3 a3 b3 c3 d3 e3
    · obtain ⟨k, hk, hk1, hk2⟩ := edge_text i.natAbs (by omega)
      have hneg : i < 0 := by omega
      have htxt : fmtInt i = 45 :: (P18 ++ [UInt8.ofNat (48 + k)]) := by
        simp [fmtInt, hneg, hk2]
      have hi' : i = -(9223372036854775800 + (k : Int)) := by omega
      obtain ⟨st', f', p', hrun, m3, n3, a3, b3, c3, d3, e3⟩ := edge_run_neg k hk st f p rest hm hf.1
      refine ⟨st', f', p', by rw [htxt]; exact hrun, ?_⟩
      rw [hi']
      exact hedge st' f' _ m3 n3 a3 b3 c3 d3 e3

/-- a float (or any number literal of the grammar, `NumAdm`): after the literal the number is pending, and it is the
number the JSON machine reads from the same literal (`Json.numConv`; numeric clause: `numDoc_exact`) -/
theorem value_flt (t : Bytes) (hadm : NumAdm t) (st : St) (f : Fast) (p : Pos)
    (rest : Bytes) (hm : st.mode = .value) (hin : Inner st) (hf : FOK f) :
    ∃ st' f' p', runBytes refTables {} st f p (t ++ rest) = runBytes refTables {} st' f' p' rest ∧
      DoneV st' f' (st.pushed (Json.numConv t)) := by
  obtain ⟨q, hw, hl, hb, rfl⟩ := hadm
  obtain ⟨m, f', p', hrun, hm', hf'⟩ := num_run q hw hl hb st f p rest hm hf.1
  refine ⟨{ st with mode := m, num := Json.acc q }, f', p', hrun, hf', Or.inr (Or.inr ⟨hm', hin, ?_⟩)⟩
  rw [← numDoc_eq_numConv q hw hl]
  exact pushed_core _ st _ hin rfl rfl rfl rfl

/-! ## member names -/

/-- the closing quote of a member name -/
theorem quoteEnd_keyG (st : St) (f : Fast) (l : Bool) (hm : st.mode = .string) (hq : st.quoteDelim = 34)
    (o : List (Option Nat)) (hs : st.starts = none :: o) (kvs : List (Bytes × JV)) (r : List Item)
    (hk : st.stack = .obj kvs :: r) (hp : st.plus = false) (hf : f.nlSkipping = false) :
    step refTables {} st f 34 l =
      .ok ({ st with mode := .colon, stack := .key st.tmp.reverse :: .obj kvs :: r }, fS f, false) := by
  rw [step_quoteEnd {} rfl rfl st f l hm hq hf]
  simp [St.addStringP, topIsKey, deliver, hs, hk, hp]

/-- `:` directly after a bare member name that lies in the same buffer -/
theorem colon_tokenG (st : St) (f : Fast) (l : Bool) (hm : st.mode = .token) (o : List (Option Nat))
    (hs : st.starts = none :: o) (kvs : List (Bytes × JV)) (r : List Item) (hk : st.stack = .obj kvs :: r)
    (hf : f.nlSkipping = false) (ht : f.tokFast = true) :
    step refTables {} st f 58 l =
      .ok ({ st with mode := .value, stack := .key st.tmp.reverse :: .obj kvs :: r },
           { inFast := false, tokFast := false, nlSkipping := false }, false) := by
  simp [step, tokenEndFast, stepCore, stepAct, stepActP, nextFast, refTables, expected, expectedFin, isSep, isBlank,
    isDigit19, isTokenByte, isTokenStart, isAlpha, isDigit, St.addTokenP, topIsKey, deliver,
    hm, hs, hk, hf, ht, Functor.map, Except.map, Bind.bind, Except.bind, Pure.pure, Except.pure]

/-- a member name and its colon: the key (sanitised) lies on the map, a value is expected -/
theorem key_run (k : Bytes) (st : St) (f : Fast) (p : Pos) (rest : Bytes) (hm : st.mode = .value)
    (hp : st.plus = false) (o : List (Option Nat)) (hs : st.starts = none :: o) (kvs : List (Bytes × JV))
    (r : List Item) (hk : st.stack = .obj kvs :: r) (hf : FOK f) (h2 : ¬ C10.leadingSign k html) :
    ∃ st' f' p', runBytes refTables {} st f p (senString k html ++ 58 :: rest) = runBytes refTables {} st' f' p' rest ∧
      st'.mode = .value ∧ st'.starts = none :: o ∧ st'.stack = .key (sanitize k) :: .obj kvs :: r ∧
      st'.docs = st.docs ∧ st'.plus = false ∧ FOK f' := by
  by_cases hq : k = [] ∨ senQuoted k html = true
  · rw [C10.quoted_form k html hq]
    simp only [List.cons_append, List.append_assoc, List.nil_append]
    obtain ⟨ri, rn, p', h⟩ := C10.quoted_run k html st f p (34 :: 58 :: rest) hm
    rw [h]
    let sq : St := { st with quoteDelim := 34, mode := .string, ri := ri, rn := rn, tmp := (sanitize k).reverse }
    let sc : St := { sq with mode := .colon, stack := .key sq.tmp.reverse :: .obj kvs :: r }
    have e1 : ∀ l, step refTables {} sq (fS f) 34 l = .ok (sc, fS (fS f), false) :=
      fun l => quoteEnd_keyG sq (fS f) l rfl rfl o hs kvs r hk hp rfl
    have e2 : ∀ l, step refTables {} sc (fS (fS f)) 58 l = .ok ({ sc with mode := .value }, fS (fS (fS f)), false) :=
      fun l => C10.step_colon sc _ l rfl rfl
    refine ⟨{ sc with mode := .value }, fS (fS (fS f)), (p'.next false).next false, ?_, rfl, hs, ?_, rfl, hp, ⟨rfl, rfl⟩⟩
    · show runBytes refTables {} sq (fS f) p' (34 :: 58 :: rest) = _
      rw [runBytes_cons_ok {} e1, runBytes_cons_ok {} e2]
    · simp [sc, sq]
  · have hne : k ≠ [] := fun h => hq (Or.inl h)
    have hqf : senQuoted k html = false := by
      cases h : senQuoted k html with
      | false => rfl
      | true => exact absurd (Or.inr h) hq
    obtain ⟨p', h⟩ := C10.bare_run k html st f p (58 :: rest) hm hne hqf h2
    rw [h]
    let sb : St := { st with mode := .token, tmp := k.reverse }
    have e1 : ∀ l, step refTables {} sb { inFast := false, tokFast := true, nlSkipping := false } 58 l =
        .ok ({ sb with mode := .value, stack := .key sb.tmp.reverse :: .obj kvs :: r },
             { inFast := false, tokFast := false, nlSkipping := false }, false) :=
      fun l => colon_tokenG sb _ l rfl o hs kvs r hk rfl rfl
    have e2 : sanitize k = k := (C10.bare_facts k html hne hqf).2.1
    refine ⟨{ sb with mode := .value, stack := .key sb.tmp.reverse :: .obj kvs :: r },
      { inFast := false, tokFast := false, nlSkipping := false }, p'.next false, ?_, rfl, hs, ?_, rfl, hp, ⟨rfl, rfl⟩⟩
    · show runBytes refTables {} sb _ p' (58 :: rest) = _
      rw [runBytes_cons_ok {} e1]
    · simp [sb, e2]

end scalars

/-! ## trees -/

mutual
  /-- what comes back: strings and member names sanitised (invalid UTF-8 replaced by U+FFFD), a float as the number
  `Json.numConv` of its text (an int64 when the text has neither fraction nor exponent, else the float64 /
  json.Number of a text that denotes the same decimal number: `numDoc_exact`), the members
  `tightObject` passes over dropped, a repeated member name keeps its first position and its last value (the Go
  map) -/
  def nvVal (o : WOpts) : JV → JV
    | .str s => .str (sanitize s)
    | .arr xs => .arr (nvElems o xs)
    | .obj kvs => .obj (nvMembers o kvs [])
    | .int i => nvInt i             -- the int64 itself below the limit of the integer fast loop, else json.Number
    | .flt t => Json.numConv t      -- what `gen.Number` makes of the float text (also what `oj.Parse` reads from it)
    | v => v
  def nvElems (o : WOpts) : List JV → List JV
    | [] => []
    | x :: r => nvVal o x :: nvElems o r
  def nvMembers (o : WOpts) : List (Bytes × JV) → List (Bytes × JV) → List (Bytes × JV)
    | [], acc => acc
    | (k, v) :: r, acc =>
      if omitted o v then nvMembers o r acc else nvMembers o r (kvInsert (sanitize k) (nvVal o v) acc)
end

mutual
  /-- the trees of the theorem: `null`, booleans, integers, strings, arrays, objects; no string (in value position)
  is one of the reserved words, no string or member name is written bare with a leading sign (the two known
  findings); the integers are ALL int64 and uint64 (from 9223372036854775800 on the parser's integer fast loop answers
  json.Number — known finding C03sen-int19 — with the same digits: `nvInt`); a float is given by its text, any literal of
  the RFC 8259 number grammar (what strconv writes with format 'g' is one) whose integer part is below the same limit
  (`NumAdm`); json.Number leaves are not covered -/
  def admVal (o : WOpts) : JV → Prop
    | .null => True
    | .bool _ => True
    | .str s => ¬ C10.reservedWord s ∧ ¬ C10.leadingSign s o.html
    | .int i => -9223372036854775808 ≤ i ∧ i ≤ 18446744073709551615      -- int64 and uint64
    | .flt t => NumAdm t
    | .arr xs => admElems o xs
    | .obj kvs => admMembers o kvs
    | _ => False
  def admElems (o : WOpts) : List JV → Prop
    | [] => True
    | x :: r => admVal o x ∧ admElems o r
  def admMembers (o : WOpts) : List (Bytes × JV) → Prop
    | [] => True
    | (k, v) :: r => (omitted o v = true ∨ (¬ C10.leadingSign k o.html ∧ admVal o v)) ∧ admMembers o r
end

mutual
  def jsz : JV → Nat
    | .arr xs => 1 + jszE xs
    | .obj kvs => 1 + jszM kvs
    | _ => 1
  def jszE : List JV → Nat
    | [] => 0
    | x :: r => 1 + jsz x + jszE r
  def jszM : List (Bytes × JV) → Nat
    | [] => 0
    | (_, v) :: r => 1 + jsz v + jszM r
end

theorem splitStack_arr (acc : List JV) (below : List Item) :
    splitStack ((acc.reverse.map Item.val) ++ Item.arrMark :: below) below.length = some (acc, .arrMark, below) := by
  unfold splitStack
  have hl : ((acc.reverse.map Item.val) ++ Item.arrMark :: below).length = acc.length + (below.length + 1) := by simp
  have hsub : acc.length + (below.length + 1) - (below.length + 1) = acc.length := by omega
  have hlen : (List.map Item.val acc.reverse).length = acc.length := by simp
  simp only [hl, hsub]
  have h1 : ¬ acc.length + (below.length + 1) < below.length + 1 := by omega
  simp only [h1, ↓reduceIte]
  rw [List.drop_left' hlen, List.take_left' hlen]
  simp [Item.toJV, Function.comp_def]

def VClaim (o : WOpts) (v : JV) : Prop :=
  ∀ (st : St) (f : Fast) (p : Pos) (rest : Bytes), st.mode = .value → st.plus = false → Inner st → FOK f →
    ∃ st' f' p', runBytes refTables {} st f p (tightVal o v ++ rest) = runBytes refTables {} st' f' p' rest ∧
      DoneV st' f' (st.pushed (nvVal o v)) ∧ (needSep v = false → CoreEq st' (st.pushed (nvVal o v)) ∧ FOK f')

def EClaim (o : WOpts) (xs : List JV) : Prop :=
  ∀ (st : St) (f : Fast) (p : Pos) (rest : Bytes) (acc : List JV) (i : Nat) (outer : List (Option Nat)) (below : List Item),
    st.mode = .value → st.plus = false → st.starts = some i :: outer →
    st.stack = (acc.reverse.map Item.val) ++ Item.arrMark :: below → i = below.length →
    ValPos ({ st with starts := outer, stack := below } : St) → FOK f →
    ∃ st' f' p', runBytes refTables {} st f p (tightElems o xs ++ rest) = runBytes refTables {} st' f' p' rest ∧
      CoreEq st' (({ st with starts := outer, stack := below } : St).pushed (.arr (acc ++ nvElems o xs))) ∧ FOK f'

def MClaim (o : WOpts) (kvs : List (Bytes × JV)) : Prop :=
  ∀ (first : Bool) (st : St) (f : Fast) (p : Pos) (rest : Bytes) (acc : List (Bytes × JV)) (outer : List (Option Nat))
    (below : List Item) (tgt : St),
    DoneV st f tgt → (first = true → CoreEq st tgt ∧ FOK f) → tgt.mode = .value → tgt.plus = false →
    tgt.starts = none :: outer → tgt.stack = .obj acc :: below →
    ValPos ({ tgt with starts := outer, stack := below } : St) →
    ∃ st' f' p', runBytes refTables {} st f p (tightMembers o kvs first ++ rest) = runBytes refTables {} st' f' p' rest ∧
      CoreEq st' (({ tgt with starts := outer, stack := below } : St).pushed (.obj (nvMembers o kvs acc))) ∧ FOK f'

theorem ValPos.congr {a b : St} (h : ValPos a) (h2 : a.starts = b.starts) (h3 : a.stack = b.stack) : ValPos b := by
  unfold ValPos at h ⊢
  rw [← h2, ← h3]; exact h

/-- `pushed` for any value position: states that agree on the context give the same core -/
theorem pushed_coreV (a b : St) (x : JV) (hv : ValPos a) (h2 : a.starts = b.starts) (h3 : a.stack = b.stack)
    (h4 : a.docs = b.docs) (h5 : a.plus = b.plus) : CoreEq (a.pushed x) (b.pushed x) := by
  rcases hv with ⟨h1, h1'⟩ | hin
  · obtain ⟨m1, st1, sk1, d1, e1, x1, t1, ri1, rn1, n1, q1, p1, lk1, ls1, ft1⟩ := a
    obtain ⟨m2, st2, sk2, d2, e2, x2, t2, ri2, rn2, n2, q2, p2, lk2, ls2, ft2⟩ := b
    simp only at h1 h1' h2 h3 h4 h5
    subst h2; subst h3; subst h4; subst h5; subst h1; subst h1'
    simp [St.pushed, CoreEq]
  · exact pushed_core a b x hin h2 h3 h4 h5

theorem jsz_pos (v : JV) : 1 ≤ jsz v := by
  cases v <;> simp [jsz] <;> omega

theorem runBytes_step {st st' : St} {f f' : Fast} {p : Pos} {b : UInt8} {r : Bytes} {nl : Bool} (s2 : St) (f2 : Fast)
    (he : ∀ l, step refTables {} st f b l = step refTables {} s2 f2 b l)
    (h : ∀ l, step refTables {} s2 f2 b l = .ok (st', f', nl)) :
    runBytes refTables {} st f p (b :: r) = runBytes refTables {} st' f' (p.next nl) r :=
  runBytes_cons_ok {} (fun l => by rw [he l, h l])

section claims
variable (o : WOpts)

theorem E_nil : EClaim o [] := by
  intro st f p rest acc i outer below hm hp hs hk hi hv hf
  subst hi
  have hsp : splitStack st.stack below.length = some (acc, .arrMark, below) := by rw [hk]; exact splitStack_arr acc below
  have h := fun l => step_closeArr st f l hm hf.1 below.length outer hs acc .arrMark below hsp hv
  refine ⟨(({ st with starts := outer, stack := below } : St).pushed (.arr acc)), fS f, p.next false, ?_, ?_, FOK_fS f hf⟩
  · show runBytes refTables {} st f p (93 :: rest) = _
    exact runBytes_cons_ok {} h
  · simp [nvElems]; exact CoreEq.rfl' _

/-- the state after an element has been completed inside the array -/
theorem pushed_arr (st : St) (x : JV) (i : Nat) (outer : List (Option Nat)) (hs : st.starts = some i :: outer) :
    (st.pushed x).mode = .value ∧ (st.pushed x).starts = some i :: outer ∧ (st.pushed x).stack = .val x :: st.stack ∧
    (st.pushed x).docs = st.docs ∧ (st.pushed x).plus = st.plus := by
  simp [St.pushed, hs]

theorem E_cons (x : JV) (r : List JV) (hV : VClaim o x) (hE : r ≠ [] → EClaim o r) : EClaim o (x :: r) := by
  intro st f p rest acc i outer below hm hp hs hk hi hv hf
  have hin : Inner st := Or.inl ⟨i, outer, hs⟩
  obtain ⟨pm, pst, psk, pdc, ppl⟩ := pushed_arr st (nvVal o x) i outer hs
  -- the stack after the element
  have hk' : (st.pushed (nvVal o x)).stack = ((acc ++ [nvVal o x]).reverse.map Item.val) ++ Item.arrMark :: below := by
    rw [psk, hk]; simp
  cases r with
  | nil =>
    -- the last element, then `]`
    obtain ⟨st1, f1, p1, hrun, hdone, _⟩ := hV st f p (93 :: rest) hm hp hin hf
    obtain ⟨s2, f2, hc2, hf2, hstep⟩ := done_step st1 f1 _ hdone 93 (Or.inr (Or.inl rfl))
    obtain ⟨c1, c2, c3, c4, c5⟩ := hc2
    have hm2 : s2.mode = .value := by rw [c1, pm]
    have hs2 : s2.starts = some i :: outer := by rw [c2, pst]
    have hsp : splitStack s2.stack i = some (acc ++ [nvVal o x], .arrMark, below) := by
      rw [c3, hk', hi]; exact splitStack_arr _ below
    have hv2 : ValPos ({ s2 with starts := outer, stack := below } : St) := hv.congr rfl rfl
    have h := fun l => step_closeArr s2 f2 l hm2 hf2 i outer hs2 _ .arrMark below hsp hv2
    refine ⟨(({ s2 with starts := outer, stack := below } : St).pushed (.arr (acc ++ [nvVal o x]))), fS f2, p1.next false, ?_, ?_,
      FOK_fS' f2⟩
    · show runBytes refTables {} st f p (tightVal o x ++ [93] ++ rest) = _
      rw [List.append_assoc, show [93] ++ rest = 93 :: rest from rfl, hrun]
      exact runBytes_step s2 f2 hstep h
    · simp only [nvElems, List.append_nil]
      exact pushed_coreV _ _ _ hv2 rfl rfl (by show s2.docs = st.docs; rw [c4, pdc]) (by show s2.plus = st.plus; rw [c5, ppl])
  | cons y r' =>
    have hE' := hE (by simp)
    -- the element, the separator if it needs one, the remaining elements
    have hform : tightElems o (x :: y :: r') ++ rest =
        tightVal o x ++ ((if needSep x then [32] else []) ++ (tightElems o (y :: r') ++ rest)) := by
      simp [tightElems, List.append_assoc]
    rw [hform]
    obtain ⟨st1, f1, p1, hrun, hdone, hcomp⟩ := hV st f p _ hm hp hin hf
    rw [hrun]
    -- a complete state after the separator
    have hsep : ∃ s2 f2 p2, runBytes refTables {} st1 f1 p1 ((if needSep x then [32] else []) ++ (tightElems o (y :: r') ++ rest)) =
        runBytes refTables {} s2 f2 p2 (tightElems o (y :: r') ++ rest) ∧ CoreEq s2 (st.pushed (nvVal o x)) ∧ FOK f2 := by
      cases hn : needSep x with
      | true =>
        obtain ⟨s2, f2, hc2, hf2, hstep⟩ := done_step st1 f1 _ hdone 32 (Or.inl rfl)
        have hm2 : s2.mode = .value := by rw [hc2.1, pm]
        refine ⟨s2, fS f2, p1.next false, ?_, hc2, FOK_fS' f2⟩
        simp only [↓reduceIte, List.cons_append, List.nil_append]
        exact runBytes_step s2 f2 hstep (fun l => step_space s2 f2 l hm2 hf2)
      | false =>
        exact ⟨st1, f1, p1, by simp, (hcomp hn).1, (hcomp hn).2⟩
    obtain ⟨s2, f2, p2, hrun2, hc2, hf2⟩ := hsep
    rw [hrun2]
    obtain ⟨c1, c2, c3, c4, c5⟩ := hc2
    have hv2 : ValPos ({ s2 with starts := outer, stack := below } : St) := hv.congr rfl rfl
    obtain ⟨st3, f3, p3, hrun3, hc3, hf3⟩ := hE' s2 f2 p2 rest (acc ++ [nvVal o x]) i outer below (by rw [c1, pm])
      (by rw [c5, ppl, hp]) (by rw [c2, pst]) (by rw [c3, hk']) hi hv2 hf2
    refine ⟨st3, f3, p3, hrun3, ?_, hf3⟩
    refine hc3.trans' ?_
    have e : acc ++ [nvVal o x] ++ nvElems o (y :: r') = acc ++ nvElems o (x :: y :: r') := by
      simp [nvElems]
    rw [e]
    exact pushed_coreV _ _ _ hv2 rfl rfl (by show s2.docs = st.docs; rw [c4, pdc]) (by show s2.plus = st.plus; rw [c5, ppl])

theorem M_nil : MClaim o [] := by
  intro first st f p rest acc outer below tgt hdone hfirst tm tp ts tk hv
  obtain ⟨s2, f2, hc2, hf2, hstep⟩ := done_step st f _ hdone 125 (Or.inr (Or.inr rfl))
  obtain ⟨c1, c2, c3, c4, c5⟩ := hc2
  have hv2 : ValPos ({ s2 with starts := outer, stack := below } : St) := hv.congr rfl rfl
  have h := fun l => step_closeObj s2 f2 l (by rw [c1, tm]) hf2 outer (by rw [c2, ts]) acc below (by rw [c3, tk]) hv2
  refine ⟨(({ s2 with starts := outer, stack := below } : St).pushed (.obj acc)), fS f2, p.next false, ?_, ?_, FOK_fS' f2⟩
  · show runBytes refTables {} st f p (125 :: rest) = _
    exact runBytes_step s2 f2 hstep h
  · simp only [nvMembers]
    exact pushed_coreV _ _ _ hv2 rfl rfl c4 c5

/-- the state after a member value has been completed under its name -/
theorem pushed_objVal (st : St) (x : JV) (outer : List (Option Nat)) (k : Bytes) (kvs : List (Bytes × JV)) (r : List Item)
    (hs : st.starts = none :: outer) (hk : st.stack = .key k :: .obj kvs :: r) :
    (st.pushed x).mode = .value ∧ (st.pushed x).starts = none :: outer ∧
    (st.pushed x).stack = .obj (kvInsert k x kvs) :: r ∧ (st.pushed x).docs = st.docs ∧ (st.pushed x).plus = st.plus := by
  simp [St.pushed, hs, hk]

theorem M_cons (k : Bytes) (v : JV) (r : List (Bytes × JV)) (hM : MClaim o r)
    (hV : omitted o v = false → VClaim o v ∧ ¬ C10.leadingSign k o.html) : MClaim o ((k, v) :: r) := by
  intro first st f p rest acc outer below tgt hdone hfirst tm tp ts tk hv
  cases hom : omitted o v with
  | true =>
    have e1 : tightMembers o ((k, v) :: r) first = tightMembers o r first := by simp [tightMembers, hom]
    have e2 : nvMembers o ((k, v) :: r) acc = nvMembers o r acc := by simp [nvMembers, hom]
    rw [e1, e2]
    exact hM first st f p rest acc outer below tgt hdone hfirst tm tp ts tk hv
  | false =>
    obtain ⟨hVv, hkey⟩ := hV hom
    have e1 : tightMembers o ((k, v) :: r) first ++ rest =
        (if first then [] else [32]) ++ (senString k o.html ++ 58 :: (tightVal o v ++ (tightMembers o r false ++ rest))) := by
      simp [tightMembers, hom, List.append_assoc]
    have e2 : nvMembers o ((k, v) :: r) acc = nvMembers o r (kvInsert (sanitize k) (nvVal o v) acc) := by
      simp [nvMembers, hom]
    rw [e1, e2]
    -- a complete state in front of the member name
    have hA : ∃ sA fA pA, runBytes refTables {} st f p ((if first then [] else [32]) ++
          (senString k o.html ++ 58 :: (tightVal o v ++ (tightMembers o r false ++ rest)))) =
        runBytes refTables {} sA fA pA (senString k o.html ++ 58 :: (tightVal o v ++ (tightMembers o r false ++ rest))) ∧
        CoreEq sA tgt ∧ FOK fA := by
      cases first with
      | true => exact ⟨st, f, p, by simp, (hfirst rfl).1, (hfirst rfl).2⟩
      | false =>
        obtain ⟨s2, f2, hc2, hf2, hstep⟩ := done_step st f _ hdone 32 (Or.inl rfl)
        refine ⟨s2, fS f2, p.next false, ?_, hc2, FOK_fS' f2⟩
        simp only [Bool.false_eq_true, ↓reduceIte, List.cons_append, List.nil_append]
        exact runBytes_step s2 f2 hstep (fun l => step_space s2 f2 l (by rw [hc2.1, tm]) hf2)
    obtain ⟨sA, fA, pA, hrunA, hcA, hfA⟩ := hA
    rw [hrunA]
    obtain ⟨a1, a2, a3, a4, a5⟩ := hcA
    -- the member name
    obtain ⟨sB, fB, pB, hrunB, bm, bs, bk, bd, bp, hfB⟩ := key_run o.html k sA fA pA
      (tightVal o v ++ (tightMembers o r false ++ rest)) (by rw [a1, tm]) (by rw [a5, tp]) outer (by rw [a2, ts]) acc below
      (by rw [a3, tk]) hfA hkey
    rw [hrunB]
    -- the value
    have hinB : Inner sB := Or.inr ⟨outer, sanitize k, acc, below, bs, bk⟩
    obtain ⟨sC, fC, pC, hrunC, hdoneC, _⟩ := hVv sB fB pB (tightMembers o r false ++ rest) bm bp hinB hfB
    rw [hrunC]
    obtain ⟨qm, qs, qk, qd, qp⟩ := pushed_objVal sB (nvVal o v) outer (sanitize k) acc below bs bk
    -- the remaining members
    have hvB : ValPos ({ sB.pushed (nvVal o v) with starts := outer, stack := below } : St) := hv.congr rfl rfl
    obtain ⟨sD, fD, pD, hrunD, hcD, hfD⟩ := hM false sC fC pC rest (kvInsert (sanitize k) (nvVal o v) acc) outer below
      (sB.pushed (nvVal o v)) hdoneC (fun h => by cases h) qm (by rw [qp, bp]) qs qk hvB
    refine ⟨sD, fD, pD, hrunD, ?_, hfD⟩
    refine hcD.trans' ?_
    exact pushed_coreV _ _ _ hvB rfl rfl (by show (sB.pushed (nvVal o v)).docs = tgt.docs; rw [qd, bd, a4])
      (by show (sB.pushed (nvVal o v)).plus = tgt.plus; rw [qp, bp, tp])

theorem V_arr (xs : List JV) (hE : EClaim o xs) : VClaim o (.arr xs) := by
  intro st f p rest hm hp hin hf
  have hne : st.starts ≠ [] := by
    rcases hin with ⟨j, oo, h1⟩ | ⟨oo, k, kvs, r, h1, _⟩ <;> rw [h1] <;> simp
  have h := fun l => step_openArr st f l hm hf.1 (Or.inl hne)
  let s1 : St := { st with mode := .value, starts := some st.stack.length :: st.starts, stack := .arrMark :: st.stack }
  have hv : ValPos ({ s1 with starts := st.starts, stack := st.stack } : St) := hin.valPos.congr rfl rfl
  obtain ⟨st', f', p', hrun, hc, hf'⟩ := hE s1 (fS f) (p.next false) rest [] st.stack.length st.starts st.stack rfl hp rfl
    (by simp [s1]) rfl hv (FOK_fS f hf)
  have hcore : CoreEq st' (st.pushed (nvVal o (.arr xs))) := by
    refine hc.trans' ?_
    simp only [List.nil_append, nvVal]
    exact pushed_coreV _ _ _ hv rfl rfl rfl rfl
  refine ⟨st', f', p', ?_, ⟨hf'.1, Or.inl ⟨hcore, hf'.2⟩⟩, fun _ => ⟨hcore, hf'⟩⟩
  show runBytes refTables {} st f p (91 :: (tightElems o xs ++ rest)) = _
  rw [runBytes_cons_ok {} h]
  exact hrun

theorem V_obj (kvs : List (Bytes × JV)) (hM : MClaim o kvs) : VClaim o (.obj kvs) := by
  intro st f p rest hm hp hin hf
  have hne : st.starts ≠ [] := by
    rcases hin with ⟨j, oo, h1⟩ | ⟨oo, k, kvs', r, h1, _⟩ <;> rw [h1] <;> simp
  have h := fun l => step_openObj st f l hm hf.1 (Or.inl hne)
  let s1 : St := { st with mode := .value, starts := none :: st.starts, stack := .obj [] :: st.stack }
  have hv : ValPos ({ s1 with starts := st.starts, stack := st.stack } : St) := hin.valPos.congr rfl rfl
  obtain ⟨st', f', p', hrun, hc, hf'⟩ := hM true s1 (fS f) (p.next false) rest [] st.starts st.stack s1
    ⟨rfl, Or.inl ⟨CoreEq.rfl' s1, rfl⟩⟩ (fun _ => ⟨CoreEq.rfl' s1, FOK_fS' f⟩) rfl hp rfl rfl hv
  have hcore : CoreEq st' (st.pushed (nvVal o (.obj kvs))) := by
    refine hc.trans' ?_
    simp only [nvVal]
    exact pushed_coreV _ _ _ hv rfl rfl rfl rfl
  refine ⟨st', f', p', ?_, ⟨hf'.1, Or.inl ⟨hcore, hf'.2⟩⟩, fun _ => ⟨hcore, hf'⟩⟩
  show runBytes refTables {} st f p (123 :: (tightMembers o kvs true ++ rest)) = _
  rw [runBytes_cons_ok {} h]
  exact hrun

theorem V_scalar (v : JV) (hadm : admVal o v) (hs : needSep v = true) : VClaim o v := by
  intro st f p rest hm hp hin hf
  cases v with
  | null =>
    obtain ⟨st', f', p', h, hd⟩ := value_null st f p rest hm hin hf
    exact ⟨st', f', p', h, hd, fun h => by simp [needSep] at h⟩
  | bool b =>
    cases b with
    | true =>
      obtain ⟨st', f', p', h, hd⟩ := value_true st f p rest hm hin hf
      exact ⟨st', f', p', h, hd, fun h => by simp [needSep] at h⟩
    | false =>
      obtain ⟨st', f', p', h, hd⟩ := value_false st f p rest hm hin hf
      exact ⟨st', f', p', h, hd, fun h => by simp [needSep] at h⟩
  | str s =>
    obtain ⟨h1, h2⟩ : ¬ C10.reservedWord s ∧ ¬ C10.leadingSign s o.html := hadm
    obtain ⟨st', f', p', h, hd⟩ := value_str o.html s st f p rest hm hp hin hf h1 h2
    exact ⟨st', f', p', h, hd, fun h => by simp [needSep] at h⟩
  | arr xs => simp [needSep] at hs
  | obj kvs => simp [needSep] at hs
  | int i =>
    obtain ⟨st', f', p', h, hd⟩ := value_int_all i hadm st f p rest hm hin hf
    exact ⟨st', f', p', h, hd, fun h => by simp [needSep] at h⟩
  | flt t =>
    obtain ⟨st', f', p', h, hd⟩ := value_flt t hadm st f p rest hm hin hf
    exact ⟨st', f', p', h, hd, fun h => by simp [needSep] at h⟩
  | big t => exact absurd hadm (by simp [admVal])
  | num t => exact absurd hadm (by simp [admVal])

/-- the three claims, by induction on the size of the tree -/
theorem claims_all : ∀ n : Nat,
    (∀ v, jsz v ≤ n → admVal o v → VClaim o v) ∧
    (∀ xs, jszE xs ≤ n → admElems o xs → EClaim o xs) ∧
    (∀ kvs, jszM kvs ≤ n → admMembers o kvs → MClaim o kvs) := by
  intro n
  induction n with
  | zero =>
    refine ⟨fun v hv => ?_, fun xs hx _ => ?_, fun kvs hk _ => ?_⟩
    · have := jsz_pos v; omega
    · cases xs with
      | nil => exact E_nil o
      | cons x r => simp [jszE] at hx
    · cases kvs with
      | nil => exact M_nil o
      | cons kv r => obtain ⟨k, v⟩ := kv; simp [jszM] at hk
  | succ n ih =>
    obtain ⟨ihV, ihE, ihM⟩ := ih
    refine ⟨fun v hv hadm => ?_, fun xs hx hadm => ?_, fun kvs hk hadm => ?_⟩
    · cases v with
      | arr xs => exact V_arr o xs (ihE xs (by simp [jsz] at hv; omega) hadm)
      | obj kvs => exact V_obj o kvs (ihM kvs (by simp [jsz] at hv; omega) hadm)
      | null => exact V_scalar o _ hadm rfl
      | bool b => exact V_scalar o _ hadm rfl
      | str s => exact V_scalar o _ hadm rfl
      | int i => exact V_scalar o _ hadm rfl
      | flt t => exact V_scalar o _ hadm rfl
      | big t => exact absurd hadm (by simp [admVal])
      | num t => exact absurd hadm (by simp [admVal])
    · cases xs with
      | nil => exact E_nil o
      | cons x r =>
        obtain ⟨hx1, hx2⟩ : admVal o x ∧ admElems o r := hadm
        have hsz : 1 + jsz x + jszE r ≤ n + 1 := hx
        exact E_cons o x r (ihV x (by omega) hx1) (fun _ => ihE r (by omega) hx2)
    · cases kvs with
      | nil => exact M_nil o
      | cons kv r =>
        obtain ⟨k, v⟩ := kv
        obtain ⟨hk1, hk2⟩ : (omitted o v = true ∨ (¬ C10.leadingSign k o.html ∧ admVal o v)) ∧ admMembers o r := hadm
        have hsz : 1 + jsz v + jszM r ≤ n + 1 := hk
        refine M_cons o k v r (ihM r (by omega) hk2) (fun hom => ?_)
        rcases hk1 with h | ⟨h1, h2⟩
        · rw [hom] at h; cases h
        · exact ⟨ihV v (by omega) h2, h1⟩

end claims

/-! ## whole documents -/

/-- **C10 on the tight writer model, whole trees**: for every option combination of the tight writer
(OmitNil, OmitEmpty, HTML-safe or not) and every array or object `v` built from `null`, booleans, int64 integers,
floats (`NumAdm`), strings, arrays and objects to any depth — no string in value position one of the reserved words, no string or member name written
bare with a leading sign — `sen.Parser.Parse` of the text the tight writer produces is the one document
`nvVal o v`: the same tree with strings and member names sanitised (unchanged when they are valid UTF-8), the
members the writer passes over dropped, a repeated member name keeping its last value -/
theorem C10_tree_partial (o : WOpts) (v : JV) (hc : (∃ xs, v = .arr xs) ∨ (∃ kvs, v = .obj kvs)) (hadm : admVal o v) :
    C10.parsesTo (tightVal o v) (nvVal o v) := by
  obtain ⟨hV, hE, hM⟩ := claims_all o (jsz v)
  have hf0 : FOK ({} : Fast) := ⟨rfl, rfl⟩
  have hv0 : ValPos ({ ({ mode := .value, starts := [some 0], stack := [.arrMark] } : St) with starts := [], stack := [] } : St) :=
    Or.inl ⟨rfl, rfl⟩
  rcases hc with ⟨xs, rfl⟩ | ⟨kvs, rfl⟩
  · apply C10.parsesTo_of_run _ _ 91 (tightElems o xs) rfl (by decide)
    have hEx := hE xs (by simp [jsz]) hadm
    show ∃ st f p, runBytes refTables {} {} {} {} (91 :: tightElems o xs) = .ok (st, f, p) ∧ _
    rw [runBytes_cons_ok {} C10.open_arr]
    obtain ⟨st', f', p', hrun, hcore, _⟩ := hEx { mode := .value, starts := [some 0], stack := [.arrMark] } {} _ [] [] 0 [] []
      rfl rfl rfl rfl rfl hv0 hf0
    rw [List.append_nil] at hrun
    rw [hrun]
    obtain ⟨c1, c2, c3, c4, c5⟩ := hcore
    exact ⟨st', f', p', rfl, by rw [c1]; rfl, by rw [c2]; rfl, by rw [c4]; simp [St.pushed, nvVal]⟩
  · apply C10.parsesTo_of_run _ _ 123 (tightMembers o kvs true) rfl (by decide)
    have hMx := hM kvs (by simp [jsz]) hadm
    show ∃ st f p, runBytes refTables {} {} {} {} (123 :: tightMembers o kvs true) = .ok (st, f, p) ∧ _
    rw [runBytes_cons_ok {} C10.open_obj]
    let s1 : St := { mode := .value, starts := [none], stack := [.obj []] }
    have hv1 : ValPos ({ s1 with starts := [], stack := [] } : St) := Or.inl ⟨rfl, rfl⟩
    obtain ⟨st', f', p', hrun, hcore, _⟩ := hMx true s1 {} _ [] [] [] [] s1 ⟨rfl, Or.inl ⟨CoreEq.rfl' s1, rfl⟩⟩
      (fun _ => ⟨CoreEq.rfl' s1, hf0⟩) rfl rfl rfl rfl hv1
    rw [List.append_nil] at hrun
    rw [hrun]
    obtain ⟨c1, c2, c3, c4, c5⟩ := hcore
    exact ⟨st', f', p', rfl, by rw [c1]; rfl, by rw [c2]; rfl, by rw [c4]; simp [St.pushed, nvVal, s1]⟩

/-! ## trees that come back as themselves -/

mutual
  /-- trees that come back as THEMSELVES: strings and member names are well-formed UTF-8, the writer passes over no
  member, member names are pairwise different -/
  def plainVal (o : WOpts) : JV → Prop
    | .str s => WellFormedUtf8 s
    | .arr xs => plainElems o xs
    | .obj kvs => plainMembers o kvs ∧ (kvs.map Prod.fst).Nodup
    | .int i => -9223372036854775808 < i ∧ i < 9223372036854775800   -- the others come back as json.Number
    | .flt t => Json.numConv t = .flt t      -- `1.5` is; `3` comes back as the int64 3, `1e+06` as the float of `1e6`
    | _ => True
  def plainElems (o : WOpts) : List JV → Prop
    | [] => True
    | x :: r => plainVal o x ∧ plainElems o r
  def plainMembers (o : WOpts) : List (Bytes × JV) → Prop
    | [] => True
    | (k, v) :: r => (WellFormedUtf8 k ∧ omitted o v = false ∧ plainVal o v) ∧ plainMembers o r
end

theorem kvInsert_notin (k : Bytes) (x : JV) (acc : List (Bytes × JV)) (h : k ∉ acc.map Prod.fst) :
    kvInsert k x acc = acc ++ [(k, x)] := by
  induction acc with
  | nil => rfl
  | cons p r ih =>
    obtain ⟨k', v'⟩ := p
    simp only [List.map_cons, List.mem_cons, not_or] at h
    have hne : ¬ k' = k := fun e => h.1 e.symm
    simp [kvInsert, hne, ih h.2]

theorem plain_all : ∀ (o : WOpts) (n : Nat),
    (∀ v, jsz v ≤ n → plainVal o v → nvVal o v = v) ∧
    (∀ xs, jszE xs ≤ n → plainElems o xs → nvElems o xs = xs) ∧
    (∀ kvs acc, jszM kvs ≤ n → plainMembers o kvs → (kvs.map Prod.fst).Nodup →
      (∀ k ∈ kvs.map Prod.fst, k ∉ acc.map Prod.fst) → nvMembers o kvs acc = acc ++ kvs) := by
  intro o n
  induction n with
  | zero =>
    refine ⟨fun v hv => ?_, fun xs hx _ => ?_, fun kvs acc hk _ _ _ => ?_⟩
    · have := jsz_pos v; omega
    · cases xs with
      | nil => rfl
      | cons x r => simp [jszE] at hx
    · cases kvs with
      | nil => simp [nvMembers]
      | cons kv r => obtain ⟨k, v⟩ := kv; simp [jszM] at hk
  | succ n ih =>
    obtain ⟨ihV, ihE, ihM⟩ := ih
    refine ⟨fun v hv hp => ?_, fun xs hx hp => ?_, fun kvs acc hk hp hnd hdis => ?_⟩
    · cases v with
      | str s => simp only [nvVal]; rw [sanitize_valid s hp]
      | arr xs => simp only [nvVal]; rw [ihE xs (by simp [jsz] at hv; omega) hp]
      | obj kvs =>
        obtain ⟨h1, h2⟩ : plainMembers o kvs ∧ (kvs.map Prod.fst).Nodup := hp
        simp only [nvVal]
        rw [ihM kvs [] (by simp [jsz] at hv; omega) h1 h2 (by simp)]
        simp
      | null => rfl
      | bool b => rfl
      | int i =>
        obtain ⟨h1, h2⟩ : -9223372036854775808 < i ∧ i < 9223372036854775800 := hp
        simp only [nvVal, nvInt]
        rw [if_pos ⟨h1, h2⟩]
      | flt t => exact hp
      | big t => rfl
      | num t => rfl
    · cases xs with
      | nil => rfl
      | cons x r =>
        obtain ⟨h1, h2⟩ : plainVal o x ∧ plainElems o r := hp
        have hsz : 1 + jsz x + jszE r ≤ n + 1 := hx
        simp only [nvElems]
        rw [ihV x (by omega) h1, ihE r (by omega) h2]
    · cases kvs with
      | nil => simp [nvMembers]
      | cons kv r =>
        obtain ⟨k, v⟩ := kv
        obtain ⟨⟨h1, h2, h3⟩, h4⟩ : (WellFormedUtf8 k ∧ omitted o v = false ∧ plainVal o v) ∧ plainMembers o r := hp
        have hsz : 1 + jsz v + jszM r ≤ n + 1 := hk
        simp only [List.map_cons, List.nodup_cons] at hnd
        have hk0 : k ∉ acc.map Prod.fst := hdis k (by simp)
        simp only [nvMembers, h2, Bool.false_eq_true, ↓reduceIte]
        rw [sanitize_valid k h1, ihV v (by omega) h3, kvInsert_notin k v acc hk0]
        rw [ihM r (acc ++ [(k, v)]) (by omega) h4 hnd.2 ?_]
        · simp
        · intro k' hk'
          simp only [List.map_append, List.map_cons, List.map_nil, List.mem_append, List.mem_singleton, not_or]
          refine ⟨hdis k' (by simp [hk']), ?_⟩
          intro e; subst e; exact hnd.1 hk'

/-- a plain tree comes back as itself -/
theorem nvVal_plain (o : WOpts) (v : JV) (h : plainVal o v) : nvVal o v = v :=
  (plain_all o (jsz v)).1 v (Nat.le_refl _) h

/-- **C10 on the tight writer model: `sen.Parse(sen.String(v)) = v`** for every array or object `v` (any depth) of
`null`, booleans, integers below the limit, strings and containers whose strings and member names are valid UTF-8
(and not in the two known-finding classes), whose member names are pairwise different and none of whose members the
writer passes over (OmitNil / OmitEmpty) -/
theorem C10_tree_valid (o : WOpts) (v : JV) (hc : (∃ xs, v = .arr xs) ∨ (∃ kvs, v = .obj kvs)) (hadm : admVal o v)
    (hplain : plainVal o v) : C10.parsesTo (tightVal o v) v := by
  have h := C10_tree_partial o v hc hadm
  rwa [nvVal_plain o v hplain] at h

/-- non-vacuity: `[1 -20 "a b" {k:true n:null "":[x]} []]` meets the hypotheses -/
example : C10.parsesTo
    (tightVal {} (.arr [.int 1, .int (-20), .str [97, 32, 98], .obj [([107], .bool true), ([110], .null), ([], .arr [.str [120]])], .arr []]))
    (nvVal {} (.arr [.int 1, .int (-20), .str [97, 32, 98], .obj [([107], .bool true), ([110], .null), ([], .arr [.str [120]])], .arr []])) := by
  apply C10_tree_partial {} _ (Or.inl ⟨_, rfl⟩)
  simp only [admVal, admElems, admMembers, omitted, C10.reservedWord, C10.leadingSign]
  decide +kernel

/-- and the text is what one expects -/
example : tightVal {} (.arr [.int 1, .int (-20), .str [97, 32, 98], .obj [([107], .bool true), ([110], .null)], .arr []]) =
    "[1 -20 \"a b\" {k:true n:null}[]]".toUTF8.toList := by decide +kernel

end OjgVerif.Sen
