import OjgVerif.JPath.Arms
/-! # C05/C11 — the arms of the model are arms of the source (generated structural facts) -/
namespace OjgVerif.C11
open OjgVerif OjgVerif.JPath

/-! ## The arms of the model are arms of the source

`Gen.JpathArms` (tools/extract/jpath_arms.go) lists every switch of the evaluators of jp/ with its arms in source
order; `JPath/Arms.lean` says which arm each (fragment kind × container kind) of the model needs. Like
`pinned_is_source` these are **tripwires on the shape of the source** (`decide` over the generated table), not
proofs about what the arms do: dropping a container type from a `prev`/`data` switch, a kind from the list of
kinds that are handed on to the next fragment, a reflect kind from a helper, or a fragment case breaks them. -/

open OjgVerif.JPath.Arms in
/-- the fragment switch of each of the five stack machines has a case for every fragment kind of the model -/
theorem arms_fragment_cases :
    (machines ++ genMachines).all fragCases = true := by decide +kernel

open OjgVerif.JPath.Arms in
/-- **Get, FirstFound, Has: every (fragment kind × array kind × object kind) arm of the model is in the source**
(`[]any`, `gen.Array`, `Indexed`, `map[string]any`, `gen.Object`, `Keyed` by name, typed data by the `default:`
arm) -/
theorem arms_machines (a : AK) (o : OKind) : machineArms a o = true := by
  cases a <;> cases o <;> decide +kernel

open OjgVerif.JPath.Arms in
/-- Get, FirstFound, Has hand on every container kind: every `switch v.(type)` in a fragment case lists
`gen.Object, gen.Array`, those with a `default:` arm list `map[string]any, []any, gen.Object, gen.Array, Keyed,
Indexed`, and every reflect fallback lists `reflect.Ptr, reflect.Slice, reflect.Struct, reflect.Array,
reflect.Map` (a dropped kind — seeded C11-m3: no Child into a fixed-size array — breaks this) -/
theorem arms_push_kinds : machines.all pushKinds = true := by decide +kernel

open OjgVerif.JPath.Arms in
/-- GetNodes, FirstNode: every fragment case, `gen.Object`/`gen.Array` under wildcard and descent and in every
hand-on test -/
theorem arms_gen_machines : genMachines.all genArms = true := by decide +kernel

open OjgVerif.JPath.Arms in
/-- **the locate and Walk methods: every (fragment kind × container kind) arm of the model is in the source**,
and `locateNthChildHas`/`locateContinueFrag` continue into every container kind -/
theorem arms_recursive (a : AK) (o : OKind) : recursiveArms a o = true ∧ locateContinueKinds = true := by
  cases a <;> cases o <;> decide +kernel

open OjgVerif.JPath.Arms in
/-- **typed representations: the reflect kind is an arm of every helper it is reached through**
(reflectGetChild/Nth/Wild/WildOne/Slice, evalWithRoot, the reflect branches of the locate methods, wildWalk,
Filter.Walk) -/
theorem arms_reflect (a : AK) (o : OKind) : reflectArms a o = true := by
  cases a <;> cases o <;> decide +kernel

end OjgVerif.C11
