import OjgVerif.Props.C17
import OjgVerif.Match.LemmasTokChunks
import OjgVerif.Match.LemmasTokRef
import OjgVerif.Match.LemmasEventsInj
import OjgVerif.Match.LemmasNoRepeat
import OjgVerif.Gen.MatchFacts
/-! # C17 — chunk independence of the callbacks as a PROVED clause

`Match/Tokenizer.lean` defines the token-event sequence of `oj.Tokenizer` as a function of the run of
the JSON byte machine (Json/Machine.lean): `tokEvents T cfg chunks`, one event per action of
`tokenizeBuffer` that calls a handler method, also the calls made before an error. Over the
regenerated oj tables (`ojTables`, Gen/Oj.lean) and the configuration of `oj.TokenizeLoad`
(`tokCfg true`: reader entry with BOM top-up, several documents allowed, no integer fast loop):

* `tokEvents_chunk_independent` — the event sequence depends only on the bytes delivered, for every
  chunking (from the lemmas behind `C03.chunks_irrelevant`; before fix c109a1a an empty first read
  switched the BOM handling of the Go code off: `empty_first_read_bom_before_fix`);
* `tokEvents_accepted` — for an accepted input it is `events` of the trees AS WRITTEN (`raws`:
  members in the order of the text, repeated member names kept), and the documents the machine
  delivers are those trees with repeated names overwritten (`dd`); hence
  `tokEvents_eq_machineEvents`: when no object of the text repeats a member name, the token stream
  is the `machineEvents` of Props/C17.lean — the hypothesis `hC03`/`htok` of
  `callbacks_any_chunking_given_C03` is discharged;
* `C17_chunked` — for every JSON text the tokenizer accepts, every chunking of the reader and every
  FILTER-FREE target set, the callbacks of `jp.MatchHandler` behind `oj.Tokenizer.Load` are
  `expected` of the streamed reading of the targets on the parsed value (`C17_chunked_partial`:
  `expected targets doc` itself when no target deviates), provided the text does not repeat a member
  name inside one object; `C17_bytes` — the same for `oj.Match` / `oj.MatchString` on a byte slice.

What is NOT covered: texts that repeat a member name (the events show both members, a parser keeps
the last: `repeated_name_events`), the Go fast paths of the tokenizer (string scan, literal compare,
digit loops: tied to this byte-at-a-time model by the correspondence run), and the SEN tokenizer
(`sen.Match`/`sen.MatchLoad`): there is no proved chunk-independence of the SEN byte machine to
start from (C03sen is partial), so for SEN chunk independence of the callbacks stays with the
correspondence run; the handler side of the theorems (`matchRun` on an event list) is shared. -/
namespace OjgVerif.C17
open OjgVerif OjgVerif.Match OjgVerif.Json

/-- **Chunk independence of the token-event sequence** of `oj.Tokenizer.Load` (regenerated oj
tables, code as it is): every handler call, in order, with its argument, also before an error — for
EVERY chunking (since fix c109a1a also those with empty reads) -/
theorem tokEvents_chunk_independent (chunks : List Bytes) :
    tokEvents ojTables (tokCfg true) chunks = tokEvents ojTables (tokCfg true) [chunks.flatten] :=
  tokEvents_go_chunks_irrelevant ojTables (tokCfg true) rfl rfl chunks

/-- the same for any two chunkings of the same bytes -/
theorem tokEvents_same_bytes (c c' : List Bytes) (h : c.flatten = c'.flatten) :
    tokEvents ojTables (tokCfg true) c = tokEvents ojTables (tokCfg true) c' := by
  rw [tokEvents_chunk_independent c, tokEvents_chunk_independent c', h]

/-- **Accepted input: the events are those of the trees as written.** Any configuration, any
chunking, regenerated oj tables. -/
theorem tokEvents_accepted (cfg : Cfg) (chunks : List Bytes) (docs : List JV)
    (h : Json.run ojTables cfg chunks = .ok docs) :
    ∃ raws : List JV, raws.map dd = docs ∧ tokEvents ojTables cfg chunks = raws.flatMap events := by
  rw [C01.oj_is_reference] at h
  rw [tokEvents_eq_ideal_now, tokEvents_eq_ref C01.ojTables_ok]
  exact tokEvents_accepted_ref cfg chunks docs h

theorem map_dd_of_nodup (raws : List JV) (h : ∀ r ∈ raws, NoDupKeys r = true) : raws.map dd = raws := by
  induction raws with
  | nil => rfl
  | cons r rs ih =>
    simp only [List.map_cons, dd_of_nodup r (h r List.mem_cons_self),
      ih (fun x hx => h x (List.mem_cons_of_mem _ hx))]

/-- the trees as written are determined by the event sequence (`events` is injective): when they
have no repeated member name they ARE the documents the machine delivers, and the token stream of
the tokenizer model is the `machineEvents` of the byte machine's result — what
`callbacks_chunk_independent_machine` took as a definition is now a theorem about the tokenizer's
own event sequence -/
theorem tokEvents_eq_machineEvents (cfg : Cfg) (chunks : List Bytes) (docs : List JV)
    (h : Json.run ojTables cfg chunks = .ok docs) (raws : List JV)
    (hev : tokEvents ojTables cfg chunks = raws.flatMap events) (hnd : ∀ r ∈ raws, NoDupKeys r = true) :
    docs = raws ∧ tokEvents ojTables cfg chunks = machineEvents (Json.run ojTables cfg chunks) := by
  obtain ⟨raws', h1, h2⟩ := tokEvents_accepted cfg chunks docs h
  have : raws' = raws := flatMap_events_inj _ _ (h2.symm.trans hev)
  subst this
  rw [map_dd_of_nodup raws' hnd] at h1
  subst h1
  exact ⟨rfl, by rw [h]; exact hev⟩

/-- the text does not repeat a member name inside one object: the trees its token events spell
(unique: `flatMap_events_inj`) have pairwise different member names in every object -/
def NoRepeatedNames (cfg : Cfg) (chunks : List Bytes) : Prop :=
  ∃ raws : List JV, tokEventsIdeal ojTables cfg chunks = raws.flatMap events ∧ ∀ r ∈ raws, NoDupKeys r = true

/-- **Chunk independence of the callbacks, unconditionally**: every input (accepted or not), every
target set (filters included), every setting of the deviations of the matcher — the callbacks of the
handler behind `oj.Tokenizer.Load` are the same for any two chunkings of the same bytes. This
discharges the hypothesis `hC03` of `callbacks_chunk_independent_given_C03` for the tokenizer model. -/
theorem callbacks_chunk_independent (dv : Dev) (targets : List Target) (c c' : List Bytes)
    (h : c.flatten = c'.flatten) :
    matchRun dv targets (tokEvents ojTables (tokCfg true) c) = matchRun dv targets (tokEvents ojTables (tokCfg true) c') := by
  rw [tokEvents_same_bytes c c' h]

/-- the core of the `C17_chunked*` theorems: for an accepted text without a repeated member name the
token events under ANY chunking are the events of the parsed document -/
theorem tokEvents_of_text (text : Bytes) (doc : JV) (hacc : Json.run ojTables (tokCfg true) [text] = .ok [doc])
    (hnr : NoRepeatedNames (tokCfg true) [text]) (chunks : List Bytes) (hch : chunks.flatten = text) :
    tokEvents ojTables (tokCfg true) chunks = events doc ∧ NoDupKeys doc = true := by
  obtain ⟨raws, hev, hnd⟩ := hnr
  have hev' : tokEvents ojTables (tokCfg true) [text] = raws.flatMap events := by
    rw [tokEvents_eq_ideal_now]; exact hev
  obtain ⟨hd, _⟩ := tokEvents_eq_machineEvents _ _ _ hacc raws hev' hnd
  subst hd
  rw [tokEvents_same_bytes chunks [text] (by simp [hch]), hev']
  exact ⟨by simp, hnd doc (by simp)⟩

/-- **C17 with the chunking in the statement.** For every text the tokenizer accepts as ONE JSON
document `doc` (the parsed value) and that does not repeat a member name inside an object, every
chunking of the reader and every target set WITHOUT FILTERS: the callbacks of `jp.MatchHandler`
behind `oj.Tokenizer.Load` (code as it is now) are `expected` of the streamed reading of the targets
on `doc`. -/
theorem C17_chunked (text : Bytes) (doc : JV) (hacc : Json.run ojTables (tokCfg true) [text] = .ok [doc])
    (hnr : NoRepeatedNames (tokCfg true) [text]) (targets : List Target)
    (hnf : ∀ t ∈ targets, usesFilter t = false) (chunks : List Bytes) (hch : chunks.flatten = text) :
    matchRun Dev.cur targets (tokEvents ojTables (tokCfg true) chunks) = expected (targets.map asStreamed) doc := by
  obtain ⟨hev, hnd⟩ := tokEvents_of_text text doc hacc hnr chunks hch
  rw [hev]
  exact C17_streamed targets doc hnd hnf

/-- **`NoRepeatedNames` is executable on the text**: for an accepted input it says exactly that the
check `noRepeat` (a fold over the token events that keeps the names seen in each open object) passes -/
theorem noRepeatedNames_iff (cfg : Cfg) (chunks : List Bytes) (docs : List JV)
    (h : Json.run ojTables cfg chunks = .ok docs) :
    NoRepeatedNames cfg chunks ↔ noRepeat (tokEventsIdeal ojTables cfg chunks) = true := by
  rw [C01.oj_is_reference] at h
  obtain ⟨raws, _, hev⟩ := tokEvents_accepted_ref cfg chunks docs h
  rw [← tokEvents_eq_ref C01.ojTables_ok] at hev
  rw [hev, noRepeat_events]
  constructor
  · rintro ⟨raws', hev', hnd⟩
    have : raws' = raws := flatMap_events_inj _ _ (hev'.symm.trans hev)
    subst this
    simpa [List.all_eq_true] using hnd
  · intro hall
    exact ⟨raws, hev, by simpa [List.all_eq_true] using hall⟩

/-- `C17_chunked` with the executable hypothesis -/
theorem C17_chunked_exec (text : Bytes) (doc : JV) (hacc : Json.run ojTables (tokCfg true) [text] = .ok [doc])
    (hnr : noRepeat (tokEventsIdeal ojTables (tokCfg true) [text]) = true) (targets : List Target)
    (hnf : ∀ t ∈ targets, usesFilter t = false) (chunks : List Bytes) (hch : chunks.flatten = text) :
    matchRun Dev.cur targets (tokEvents ojTables (tokCfg true) chunks) = expected (targets.map asStreamed) doc :=
  C17_chunked text doc hacc ((noRepeatedNames_iff _ _ _ hacc).mpr hnr) targets hnf chunks hch

/-- the same with the specification itself on the right when no target deviates -/
theorem C17_chunked_partial (text : Bytes) (doc : JV) (hacc : Json.run ojTables (tokCfg true) [text] = .ok [doc])
    (hnr : NoRepeatedNames (tokCfg true) [text]) (targets : List Target)
    (hdev : ∀ t ∈ targets, deviates t = false) (chunks : List Bytes) (hch : chunks.flatten = text) :
    matchRun Dev.cur targets (tokEvents ojTables (tokCfg true) chunks) = expected targets doc := by
  have hnf : ∀ t ∈ targets, usesFilter t = false := by
    intro t ht
    have := hdev t ht
    simp only [deviates, Bool.or_eq_false_iff] at this
    exact this.2
  rw [C17_chunked text doc hacc hnr targets hnf chunks hch]
  have : targets.map asStreamed = targets := by
    conv => rhs; rw [← List.map_id targets]
    exact List.map_congr_left (fun t ht => asStreamed_id t (hdev t ht))
  rw [this]

/-- `oj.Match` / `oj.MatchString` on a byte slice (`Tokenizer.Parse`: one buffer, the `[]byte` BOM
rule) -/
theorem C17_bytes (text : Bytes) (doc : JV) (hacc : Json.run ojTables (tokCfg false) [text] = .ok [doc])
    (hnr : NoRepeatedNames (tokCfg false) [text]) (targets : List Target)
    (hnf : ∀ t ∈ targets, usesFilter t = false) :
    matchRun Dev.cur targets (tokEvents ojTables (tokCfg false) [text]) = expected (targets.map asStreamed) doc := by
  obtain ⟨raws, hev, hnd⟩ := hnr
  have hev' : tokEvents ojTables (tokCfg false) [text] = raws.flatMap events := by
    rw [tokEvents_eq_ideal_now]; exact hev
  obtain ⟨hd, _⟩ := tokEvents_eq_machineEvents _ _ _ hacc raws hev' hnd
  subst hd
  rw [hev']
  simp only [List.flatMap_cons, List.flatMap_nil, List.append_nil]
  exact C17_streamed targets doc (hnd doc (by simp)) hnf

/-! ## source tie of the emission function -/

/-- what the model `emit` assumes of the Go case of an action: (the case calls a method of
`t.handler` directly, the case calls `t.handleNum()`). `keyQuote`, `valQuote`, `valNull`, `valTrue`,
`valFalse` call the handler only on their fast paths (whole string / whole literal inside the read
buffer), which the byte-at-a-time model leaves to `strQuote` / `tokenOk` (`fastOnly`). -/
def handlerUse : Act → Bool × Bool
  | .openObject | .openArray | .strQuote | .tokenOk => (true, false)
  | .closeObject | .closeArray => (true, true)
  | .numComma | .numSpc | .numNewline => (false, true)
  | .keyQuote | .valQuote | .valNull | .valTrue | .valFalse => (true, false)
  | _ => (false, false)

def fastOnly : Act → Bool
  | .keyQuote | .valQuote | .valNull | .valTrue | .valFalse => true
  | _ => false

/-- the model emits events exactly on the actions whose Go case uses the handler off the fast paths -/
theorem emits_iff_handlerUse (a : Act) : a.emits = (((handlerUse a).1 || (handlerUse a).2) && !fastOnly a) := by
  cases a <;> rfl

/-- **Which action fires a handler call, read from the source**: for every `case` of the
`switch t.mode[b]` of `(*oj.Tokenizer).tokenizeBuffer` (regenerated on every run by
tools/extract/jsonswitch.go), whether it calls a `t.handler` method and whether it calls
`t.handleNum()` is what `emit` assumes. A handler call dropped from or added to a case breaks this
proof. (Which method, and with which argument, is tied by the correspondence stream `tok`.) -/
theorem emit_actions_match_source :
    Gen.JsonSwitch.ojTokenizer.map (fun c => (c.labels, c.calls.contains "handler", c.calls.contains "handleNum"))
      = decodeOrder.map (fun a => ([a.goName], (handlerUse a).1, (handlerUse a).2)) := by decide

/-! non-trivial instances -/

/-- `{"a":[1,2]}` -/
def sampleText : Bytes := [123, 34, 97, 34, 58, 91, 49, 44, 50, 93, 125]
def sampleDoc : JV := .obj [([97], .arr [.int 1, .int 2])]

/-- the hypotheses of `C17_chunked` are satisfiable -/
example : Json.run ojTables (tokCfg true) [sampleText] = .ok [sampleDoc] ∧
    tokEventsIdeal ojTables (tokCfg true) [sampleText] = [sampleDoc].flatMap events ∧
    (∀ r ∈ [sampleDoc], NoDupKeys r = true) := by
  refine ⟨by rw [C01.oj_is_reference]; rfl, by rw [tokEvents_eq_ref C01.ojTables_ok]; rfl, by decide⟩

/-- `{"a":1,"a":2}`: the events show both members, the parser keeps the last — a text outside
`NoRepeatedNames` (and outside the document class of the property's formalisation) -/
def repText : Bytes := [123, 34, 97, 34, 58, 49, 44, 34, 97, 34, 58, 50, 125]

theorem repeated_name_events :
    tokEventsIdeal ojTables (tokCfg true) [repText] = events (.obj [([97], .int 1), ([97], .int 2)]) ∧
    Json.run ojTables (tokCfg true) [repText] = .ok [.obj [([97], .int 2)]] := by
  refine ⟨by rw [tokEvents_eq_ref C01.ojTables_ok]; rfl, by rw [C01.oj_is_reference]; rfl⟩

/-- `EF BB BF [1]` -/
def bomText : Bytes := [0xEF, 0xBB, 0xBF, 91, 49, 93]

/-- **Finding C17-empty-first-read-bom (FIXED in /repo, c109a1a)**: before the fix (flag on) a first
`Read` of 0 bytes switched the byte-order-mark handling of `Tokenizer.Load` off — the same bytes gave
the events of `[1]` read in one piece and no event at all (a syntax error at the mark) when an empty
read came first; the code as it is gives the events of `[1]` either way. -/
theorem empty_first_read_bom_before_fix :
    tokEventsWith ojTables (tokCfg true) true [bomText] = events (.arr [.int 1]) ∧
    tokEventsWith ojTables (tokCfg true) true [[], bomText] = [] ∧
    tokEvents ojTables (tokCfg true) [[], bomText] = events (.arr [.int 1]) ∧
    [bomText].flatten = [[], bomText].flatten := by
  refine ⟨?_, ?_, ?_, rfl⟩
  · rw [tokEvents_eq_ideal ojTables (tokCfg true) true _ (by simp [bomText]), tokEvents_eq_ref C01.ojTables_ok]; rfl
  · have : tokEventsWith ojTables (tokCfg true) true [[], bomText] = evAfterBom ojTables (tokCfg true) [bomText] := rfl
    rw [this, evAfterBom_eq_ref C01.ojTables_ok]; rfl
  · rw [tokEvents_eq_ideal_now, tokEvents_eq_ref C01.ojTables_ok]; rfl

/-- Regression tripwire for the flag `emptyFirstReadNoBom` (as `dev_cur_matches_source`): the flag is
on exactly while the byte-order-mark top-up loop of `(*oj.Tokenizer).Load` demands `0 < cnt` (its
condition, regenerated from oj/tokenizer.go on every run by tools/extract/match.go). Fix c109a1a
changed the condition; the flag is off. Reverting the line without the flag breaks this proof. -/
theorem emptyFirstRead_matches_source :
    emptyFirstReadNoBom = (Gen.MatchFacts.ojLoadTopUpCond == "err == nil && 0 < cnt && cnt < 4 && buf[0] == 0xEF") := by
  decide

end OjgVerif.C17
