import OjgVerif.Props.C17
import OjgVerif.Match.LemmasTokChunks
import OjgVerif.Match.LemmasTokRef
import OjgVerif.Match.LemmasEventsInj
import OjgVerif.Gen.MatchFacts
/-! # C17 — chunk independence of the callbacks as a PROVED clause

`Match/Tokenizer.lean` defines the token-event sequence of `oj.Tokenizer` as a function of the run of
the JSON byte machine (Json/Machine.lean): `tokEvents T cfg chunks`, one event per action of
`tokenizeBuffer` that calls a handler method, also the calls made before an error. Over the
regenerated oj tables (`ojTables`, Gen/Oj.lean) and the configuration of `oj.TokenizeLoad`
(`tokCfg true`: reader entry with BOM top-up, several documents allowed, no integer fast loop):

* `tokEvents_chunk_independent` — the event sequence depends only on the bytes delivered, for every
  chunking whose first read is not empty (from the lemmas behind `C03.chunks_irrelevant`; an empty
  first read switches the BOM handling of the Go code off: `empty_first_read_bom`, known finding);
* `tokEvents_accepted` — for an accepted input it is `events` of the trees AS WRITTEN (`raws`:
  members in the order of the text, repeated member names kept), and the documents the machine
  delivers are those trees with repeated names overwritten (`dd`); hence
  `tokEvents_eq_machineEvents`: when no object of the text repeats a member name, the token stream
  is the `machineEvents` of Props/C17.lean — the hypothesis `hC03`/`htok` of
  `callbacks_any_chunking_given_C03` is discharged;
* `C17_chunked` — for every JSON text the tokenizer accepts, every chunking of the reader and every
  FILTER-FREE target set, the callbacks of `jp.MatchHandler` behind `oj.Tokenizer.Load` are
  `expected` of the streamed reading of the targets on the parsed value (`C17_chunked_partial`:
  `expected targets doc` itself when no target deviates), provided the text does not repeat a member
  name inside one object; `C17_bytes` — the same for `oj.Match` / `oj.MatchString` on a byte slice.

What is NOT covered: texts that repeat a member name (the events show both members, a parser keeps
the last: `repeated_name_events`), the Go fast paths of the tokenizer (string scan, literal compare,
digit loops: tied to this byte-at-a-time model by the correspondence run), and the SEN tokenizer
(`sen.Match`/`sen.MatchLoad`): there is no proved chunk-independence of the SEN byte machine to
start from (C03sen is partial), so for SEN chunk independence of the callbacks stays with the
correspondence run; the handler side of the theorems (`matchRun` on an event list) is shared. -/
namespace OjgVerif.C17
open OjgVerif OjgVerif.Match OjgVerif.Json

/-- **Chunk independence of the token-event sequence** of `oj.Tokenizer.Load` (regenerated oj
tables, code as it is): every handler call, in order, with its argument, also before an error — for
every chunking whose first read is not empty (known finding C17-empty-first-read-bom otherwise) -/
theorem tokEvents_chunk_independent (chunks : List Bytes) (hne : chunks.head? ≠ some []) :
    tokEvents ojTables (tokCfg true) chunks = tokEvents ojTables (tokCfg true) [chunks.flatten] :=
  tokEvents_go_chunks_irrelevant ojTables (tokCfg true) rfl rfl chunks hne

/-- the same for any two chunkings of the same bytes -/
theorem tokEvents_same_bytes (c c' : List Bytes) (hc : c.head? ≠ some []) (hc' : c'.head? ≠ some [])
    (h : c.flatten = c'.flatten) :
    tokEvents ojTables (tokCfg true) c = tokEvents ojTables (tokCfg true) c' := by
  rw [tokEvents_chunk_independent c hc, tokEvents_chunk_independent c' hc', h]

/-- **Accepted input: the events are those of the trees as written.** Any configuration, any
chunking (first read not empty, for the reader entry), regenerated oj tables. -/
theorem tokEvents_accepted (cfg : Cfg) (chunks : List Bytes) (docs : List JV)
    (hne : cfg.reader = false ∨ chunks.head? ≠ some [])
    (h : Json.run ojTables cfg chunks = .ok docs) :
    ∃ raws : List JV, raws.map dd = docs ∧ tokEvents ojTables cfg chunks = raws.flatMap events := by
  have he : tokEvents ojTables cfg chunks = tokEventsIdeal ojTables cfg chunks := by
    rcases hne with hr | hne
    · exact tokEvents_noreader ojTables cfg chunks hr
    · exact tokEvents_eq_ideal ojTables cfg chunks hne
  rw [C01.oj_is_reference] at h
  rw [he, tokEvents_eq_ref C01.ojTables_ok]
  exact tokEvents_accepted_ref cfg chunks docs h

theorem map_dd_of_nodup (raws : List JV) (h : ∀ r ∈ raws, NoDupKeys r = true) : raws.map dd = raws := by
  induction raws with
  | nil => rfl
  | cons r rs ih =>
    simp only [List.map_cons, dd_of_nodup r (h r List.mem_cons_self),
      ih (fun x hx => h x (List.mem_cons_of_mem _ hx))]

/-- the trees as written are determined by the event sequence (`events` is injective): when they
have no repeated member name they ARE the documents the machine delivers, and the token stream of
the tokenizer model is the `machineEvents` of the byte machine's result — what
`callbacks_chunk_independent_machine` took as a definition is now a theorem about the tokenizer's
own event sequence -/
theorem tokEvents_eq_machineEvents (cfg : Cfg) (chunks : List Bytes) (docs : List JV)
    (hne : cfg.reader = false ∨ chunks.head? ≠ some [])
    (h : Json.run ojTables cfg chunks = .ok docs) (raws : List JV)
    (hev : tokEvents ojTables cfg chunks = raws.flatMap events) (hnd : ∀ r ∈ raws, NoDupKeys r = true) :
    docs = raws ∧ tokEvents ojTables cfg chunks = machineEvents (Json.run ojTables cfg chunks) := by
  obtain ⟨raws', h1, h2⟩ := tokEvents_accepted cfg chunks docs hne h
  have : raws' = raws := flatMap_events_inj _ _ (h2.symm.trans hev)
  subst this
  rw [map_dd_of_nodup raws' hnd] at h1
  subst h1
  exact ⟨rfl, by rw [h]; exact hev⟩

/-- the text does not repeat a member name inside one object: the trees its token events spell
(unique: `flatMap_events_inj`) have pairwise different member names in every object -/
def NoRepeatedNames (cfg : Cfg) (chunks : List Bytes) : Prop :=
  ∃ raws : List JV, tokEventsIdeal ojTables cfg chunks = raws.flatMap events ∧ ∀ r ∈ raws, NoDupKeys r = true

/-- **Chunk independence of the callbacks**: every input (accepted or not), every target set
(filters included), every setting of the deviations of the matcher — the callbacks of the handler
behind `oj.Tokenizer.Load` are the same for any two chunkings of the same bytes whose first read is
not empty. This discharges the hypothesis `hC03` of `callbacks_chunk_independent_given_C03` for the
tokenizer model. -/
theorem callbacks_chunk_independent (dv : Dev) (targets : List Target) (c c' : List Bytes)
    (hc : c.head? ≠ some []) (hc' : c'.head? ≠ some []) (h : c.flatten = c'.flatten) :
    matchRun dv targets (tokEvents ojTables (tokCfg true) c) = matchRun dv targets (tokEvents ojTables (tokCfg true) c') := by
  rw [tokEvents_same_bytes c c' hc hc' h]

/-- **C17 with the chunking in the statement.** For every text the tokenizer accepts as ONE JSON
document `doc` (the parsed value) and that does not repeat a member name inside an object, every
chunking of the reader and every target set WITHOUT FILTERS: the callbacks of `jp.MatchHandler`
behind `oj.Tokenizer.Load` (code as it is now) are `expected` of the streamed reading of the targets
on `doc`. -/
theorem C17_chunked (text : Bytes) (doc : JV) (hacc : Json.run ojTables (tokCfg true) [text] = .ok [doc])
    (hnr : NoRepeatedNames (tokCfg true) [text]) (targets : List Target)
    (hnf : ∀ t ∈ targets, usesFilter t = false) (chunks : List Bytes) (hne : chunks.head? ≠ some [])
    (hch : chunks.flatten = text) :
    matchRun Dev.cur targets (tokEvents ojTables (tokCfg true) chunks) = expected (targets.map asStreamed) doc := by
  obtain ⟨raws, hev, hnd⟩ := hnr
  have hev' : tokEvents ojTables (tokCfg true) [text] = raws.flatMap events := by
    rw [tokEvents_single]; exact hev
  have hacc' : Json.run ojTables (tokCfg true) [chunks.flatten] = .ok [doc] := by rw [hch]; exact hacc
  rw [← C03.chunks_irrelevant ojTables (tokCfg true) rfl rfl chunks] at hacc'
  obtain ⟨hd, _⟩ := tokEvents_eq_machineEvents _ _ _ (Or.inr hne) hacc' raws
    (by rw [tokEvents_chunk_independent chunks hne, hch]; exact hev') hnd
  subst hd
  rw [tokEvents_chunk_independent chunks hne, hch, hev']
  simp only [List.flatMap_cons, List.flatMap_nil, List.append_nil]
  exact C17_streamed targets doc (hnd doc (by simp)) hnf

/-- the same with the specification itself on the right when no target deviates -/
theorem C17_chunked_partial (text : Bytes) (doc : JV) (hacc : Json.run ojTables (tokCfg true) [text] = .ok [doc])
    (hnr : NoRepeatedNames (tokCfg true) [text]) (targets : List Target)
    (hdev : ∀ t ∈ targets, deviates t = false) (chunks : List Bytes) (hne : chunks.head? ≠ some [])
    (hch : chunks.flatten = text) :
    matchRun Dev.cur targets (tokEvents ojTables (tokCfg true) chunks) = expected targets doc := by
  have hnf : ∀ t ∈ targets, usesFilter t = false := by
    intro t ht
    have := hdev t ht
    simp only [deviates, Bool.or_eq_false_iff] at this
    exact this.2
  rw [C17_chunked text doc hacc hnr targets hnf chunks hne hch]
  have : targets.map asStreamed = targets := by
    conv => rhs; rw [← List.map_id targets]
    exact List.map_congr_left (fun t ht => asStreamed_id t (hdev t ht))
  rw [this]

/-- `oj.Match` / `oj.MatchString` on a byte slice (`Tokenizer.Parse`: one buffer, the `[]byte` BOM
rule) -/
theorem C17_bytes (text : Bytes) (doc : JV) (hacc : Json.run ojTables (tokCfg false) [text] = .ok [doc])
    (hnr : NoRepeatedNames (tokCfg false) [text]) (targets : List Target)
    (hnf : ∀ t ∈ targets, usesFilter t = false) :
    matchRun Dev.cur targets (tokEvents ojTables (tokCfg false) [text]) = expected (targets.map asStreamed) doc := by
  obtain ⟨raws, hev, hnd⟩ := hnr
  have hev' : tokEvents ojTables (tokCfg false) [text] = raws.flatMap events := by
    rw [tokEvents_single]; exact hev
  obtain ⟨hd, _⟩ := tokEvents_eq_machineEvents _ _ _ (Or.inl rfl) hacc raws hev' hnd
  subst hd
  rw [hev']
  simp only [List.flatMap_cons, List.flatMap_nil, List.append_nil]
  exact C17_streamed targets doc (hnd doc (by simp)) hnf

/-! ## source tie of the emission function -/

/-- what the model `emit` assumes of the Go case of an action: (the case calls a method of
`t.handler` directly, the case calls `t.handleNum()`). `keyQuote`, `valQuote`, `valNull`, `valTrue`,
`valFalse` call the handler only on their fast paths (whole string / whole literal inside the read
buffer), which the byte-at-a-time model leaves to `strQuote` / `tokenOk` (`fastOnly`). -/
def handlerUse : Act → Bool × Bool
  | .openObject | .openArray | .strQuote | .tokenOk => (true, false)
  | .closeObject | .closeArray => (true, true)
  | .numComma | .numSpc | .numNewline => (false, true)
  | .keyQuote | .valQuote | .valNull | .valTrue | .valFalse => (true, false)
  | _ => (false, false)

def fastOnly : Act → Bool
  | .keyQuote | .valQuote | .valNull | .valTrue | .valFalse => true
  | _ => false

/-- the model emits events exactly on the actions whose Go case uses the handler off the fast paths -/
theorem emits_iff_handlerUse (a : Act) : a.emits = (((handlerUse a).1 || (handlerUse a).2) && !fastOnly a) := by
  cases a <;> rfl

/-- **Which action fires a handler call, read from the source**: for every `case` of the
`switch t.mode[b]` of `(*oj.Tokenizer).tokenizeBuffer` (regenerated on every run by
tools/extract/jsonswitch.go), whether it calls a `t.handler` method and whether it calls
`t.handleNum()` is what `emit` assumes. A handler call dropped from or added to a case breaks this
proof. (Which method, and with which argument, is tied by the correspondence stream `tok`.) -/
theorem emit_actions_match_source :
    Gen.JsonSwitch.ojTokenizer.map (fun c => (c.labels, c.calls.contains "handler", c.calls.contains "handleNum"))
      = decodeOrder.map (fun a => ([a.goName], (handlerUse a).1, (handlerUse a).2)) := by decide

/-! non-trivial instances -/

/-- `{"a":[1,2]}` -/
def sampleText : Bytes := [123, 34, 97, 34, 58, 91, 49, 44, 50, 93, 125]
def sampleDoc : JV := .obj [([97], .arr [.int 1, .int 2])]

/-- the hypotheses of `C17_chunked` are satisfiable -/
example : Json.run ojTables (tokCfg true) [sampleText] = .ok [sampleDoc] ∧
    tokEventsIdeal ojTables (tokCfg true) [sampleText] = [sampleDoc].flatMap events ∧
    (∀ r ∈ [sampleDoc], NoDupKeys r = true) := by
  refine ⟨by rw [C01.oj_is_reference]; rfl, by rw [tokEvents_eq_ref C01.ojTables_ok]; rfl, by decide⟩

/-- `{"a":1,"a":2}`: the events show both members, the parser keeps the last — a text outside
`NoRepeatedNames` (and outside the document class of the property's formalisation) -/
def repText : Bytes := [123, 34, 97, 34, 58, 49, 44, 34, 97, 34, 58, 50, 125]

theorem repeated_name_events :
    tokEventsIdeal ojTables (tokCfg true) [repText] = events (.obj [([97], .int 1), ([97], .int 2)]) ∧
    Json.run ojTables (tokCfg true) [repText] = .ok [.obj [([97], .int 2)]] := by
  refine ⟨by rw [tokEvents_eq_ref C01.ojTables_ok]; rfl, by rw [C01.oj_is_reference]; rfl⟩

/-- `EF BB BF [1]` -/
def bomText : Bytes := [0xEF, 0xBB, 0xBF, 91, 49, 93]

/-- **Known finding C17-empty-first-read-bom**: a first `Read` of 0 bytes switches the byte-order-mark
handling of `Tokenizer.Load` off — the same bytes give the events of `[1]` when read in one piece and
no event at all (a syntax error at the mark) when an empty read comes first; the machine model of
C03 (`Json.run`, which ignores empty reads) accepts both. This is why the chunk-independence
theorems above ask for a non-empty first read. -/
theorem empty_first_read_bom :
    tokEvents ojTables (tokCfg true) [bomText] = events (.arr [.int 1]) ∧
    tokEvents ojTables (tokCfg true) [[], bomText] = [] ∧
    [bomText].flatten = [[], bomText].flatten := by
  refine ⟨?_, ?_, rfl⟩
  · rw [tokEvents_single, tokEvents_eq_ref C01.ojTables_ok]; rfl
  · have : tokEvents ojTables (tokCfg true) [[], bomText] = evAfterBom ojTables (tokCfg true) [bomText] := rfl
    rw [this, evAfterBom_eq_ref C01.ojTables_ok]; rfl

/-- Regression tripwire for the flag `emptyFirstReadNoBom` (as `dev_cur_matches_source`): the flag is
on exactly while the byte-order-mark top-up loop of `(*oj.Tokenizer).Load` still demands `0 < cnt`
(its condition, regenerated from oj/tokenizer.go on every run by tools/extract/match.go). Applying
the proposed fix `C17_empty_first_read_bom` without switching the flag off breaks this proof. -/
theorem emptyFirstRead_matches_source :
    emptyFirstReadNoBom = (Gen.MatchFacts.ojLoadTopUpCond == "err == nil && 0 < cnt && cnt < 4 && buf[0] == 0xEF") := by
  decide

end OjgVerif.C17
