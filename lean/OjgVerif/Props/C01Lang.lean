import OjgVerif.Props.C01
import OjgVerif.Props.C03
import OjgVerif.Json.RefineSpec
import OjgVerif.Json.Erase
/-! # C01 — the language theorem

`Props/C01.lean` shows that the regenerated tables are the reference transition function and that the
machine over them is the reference automaton. This file adds the other half: the reference automaton
accepts exactly the language of the RFC 8259 specification (`Json/Spec.lean`) and returns the value
the grammar denotes (refinement proof in `Json/Refine*.lean`), so that the property holds of the
regenerated oj and gen tables for EVERY byte string. -/
namespace OjgVerif.C01
open OjgVerif OjgVerif.Json

/-- **C01 for oj** (`[]byte` entry, one document, no integer fast loop — oj.Validator, oj.Tokenizer):
a byte string is accepted iff it is blank or exactly one RFC 8259 JSON text behind an optional BOM. -/
theorem oj_accepts_spec (bs : Bytes) : (toOpt (run ojTables cfg1 [bs])).isSome = Spec.accepts bs := by
  rw [oj_is_reference]; exact run_accepts bs

/-- **C01 for gen** (same entry over the regenerated `gen` tables) -/
theorem gen_accepts_spec (bs : Bytes) : (toOpt (run genTables cfg1 [bs])).isSome = Spec.accepts bs := by
  rw [gen_is_reference]; exact run_accepts bs

/-- the value returned is the one the grammar denotes, with the machine's reading of the leaves
(escapes without surrogate pairing — known finding C02-surrogate —, numbers through the accumulator) -/
theorem oj_result_grammar (bs : Bytes) :
    toOpt (run ojTables cfg1 [bs]) = (parseTextM (Spec.stripBOM bs)).result := by
  rw [oj_is_reference]; exact run_eq_grammar bs

theorem gen_result_grammar (bs : Bytes) :
    toOpt (run genTables cfg1 [bs]) = (parseTextM (Spec.stripBOM bs)).result := by
  rw [gen_is_reference]; exact run_eq_grammar bs

/-- reader configuration without the integer fast loop -/
def cfgR : Cfg := { reader := true }

theorem bom_reader_cases (bs : Bytes) :
    (bomRuleReader bs = .keep ∧ Spec.stripBOM bs = bs) ∨
    (∃ r, bomRuleReader bs = .strip r ∧ Spec.stripBOM bs = r) := by
  match bs with
  | [] => left; exact ⟨rfl, rfl⟩
  | [a] =>
    left
    refine ⟨?_, ?_⟩
    · unfold bomRuleReader; split <;> simp_all
    · unfold Spec.stripBOM; split <;> simp_all
  | [a, b] =>
    left
    refine ⟨?_, ?_⟩
    · unfold bomRuleReader; split <;> simp_all
    · unfold Spec.stripBOM; split <;> simp_all
  | [a, b, c] =>
    left
    refine ⟨?_, ?_⟩
    · unfold bomRuleReader; split
      · rename_i h; simp only [List.cons.injEq] at h; simp [← h.2.2.2]
      · rfl
    · unfold Spec.stripBOM; split <;> simp_all
  | a :: b :: c :: d :: r =>
    by_cases h : a = 0xEF ∧ b = 0xBB ∧ c = 0xBF
    · right
      obtain ⟨rfl, rfl, rfl⟩ := h
      exact ⟨d :: r, rfl, rfl⟩
    · left
      refine ⟨?_, ?_⟩
      · unfold bomRuleReader; split
        · rename_i h'; simp only [List.cons.injEq] at h'; exact absurd ⟨h'.1, h'.2.1, h'.2.2.1⟩ h
        · rfl
      · unfold Spec.stripBOM; split
        · rename_i h'; simp only [List.cons.injEq] at h'; exact absurd ⟨h'.1, h'.2.1, h'.2.2.1⟩ h
        · rfl

/-- the reader entry point on a single read is `exec` behind `stripBOM` -/
theorem run_reader_single (bs : Bytes) :
    toOpt (run refTables cfgR [bs]) = (parseTextM (Spec.stripBOM bs)).result := by
  have key : ∀ c : Bytes, toOpt (match runChunks refTables cfgR {} [c] with
      | .error e => .error e
      | .ok s => finish refTables s) = exec {} c := by
    intro c
    unfold exec
    simp only [runChunks]
    have hstep : ∀ (s : St) (b : UInt8), step refTables cfgR s b = step refTables cfg1 s b := fun _ _ => rfl
    have hrb : ∀ (c : Bytes) (s : St), runBytes refTables cfgR s c = runBytes refTables cfg1 s c := by
      intro c
      induction c with
      | nil => intro s; rfl
      | cons b r ih =>
        intro s
        simp only [runBytes, hstep]
        cases step refTables cfg1 s b with
        | error e => rfl
        | ok s' => exact ih s'
    rw [hrb c {}]
    cases runBytes refTables cfg1 {} c with
    | error e => rfl
    | ok s' =>
      simp only [finish_inFast]
      cases finish refTables s' <;> rfl
  cases bs with
  | nil => rfl
  | cons b t =>
    have hcs : topUp ([b :: t].filter (!·.isEmpty)) = [b :: t] := by
      simp [topUp, topUpAux]
    unfold run
    simp only [cfgR, ↓reduceIte, hcs]
    rcases bom_reader_cases (b :: t) with ⟨h1, h2⟩ | ⟨r, h1, h2⟩
    · rw [h1, h2]; simp only; rw [← exec_text]; exact key (b :: t)
    · rw [h1, h2]; simp only; rw [← exec_text]; exact key r

/-- **C01 for the reader entry points** (oj.Validator/Tokenizer reading an io.Reader, any chunking):
the stream is accepted iff the bytes delivered are blank or one JSON text behind an optional BOM. -/
theorem oj_reader_accepts_spec (chunks : List Bytes) :
    (toOpt (run ojTables cfgR chunks)).isSome = Spec.accepts chunks.flatten := by
  rw [oj_is_reference, C03.chunks_irrelevant refTables cfgR rfl rfl chunks, run_reader_single]
  have hk := parseTextM_kind (Spec.stripBOM chunks.flatten)
  unfold Spec.accepts Spec.parseDoc
  cases h1 : parseTextM (Spec.stripBOM chunks.flatten) <;> cases h2 : Spec.parseText (Spec.stripBOM chunks.flatten) <;>
    simp [h1, h2, Spec.Doc.kind, Spec.Doc.result] at hk ⊢

theorem gen_reader_accepts_spec (chunks : List Bytes) :
    (toOpt (run genTables cfgR chunks)).isSome = Spec.accepts chunks.flatten := by
  rw [gen_is_reference, ← oj_is_reference]; exact oj_reader_accepts_spec chunks

theorem isSome_outcome (r : Except Err (List JV)) : (toOpt r).isSome = (toOpt (outcome r)).isSome := by
  cases r <;> rfl

/-- configuration of oj.Parser / gen.Parser on a `[]byte`: the pinned integer fast loop is on -/
def cfgP : Cfg := { fastInt := true }
/-- the same reading an io.Reader -/
def cfgPR : Cfg := { fastInt := true, reader := true }

/-- **C01 for the parsers** (`oj.Parse`, `gen.Parser.Parse`): the pinned integer loop changes how
some integers are represented (known finding C02-int19), never which texts are accepted. -/
theorem oj_parser_accepts_spec (bs : Bytes) : (toOpt (run ojTables cfgP [bs])).isSome = Spec.accepts bs := by
  rw [oj_is_reference, isSome_outcome, run_outcome_fastInt cfgP cfg1 rfl rfl, ← isSome_outcome]
  exact run_accepts bs

theorem gen_parser_accepts_spec (bs : Bytes) : (toOpt (run genTables cfgP [bs])).isSome = Spec.accepts bs := by
  rw [gen_is_reference, ← oj_is_reference]; exact oj_parser_accepts_spec bs

/-- the parsers reading an io.Reader, any chunking -/
theorem oj_parser_reader_accepts_spec (chunks : List Bytes) :
    (toOpt (run ojTables cfgPR chunks)).isSome = Spec.accepts chunks.flatten := by
  rw [oj_is_reference, isSome_outcome, run_outcome_fastInt cfgPR cfgR rfl rfl, ← isSome_outcome, ← oj_is_reference]
  exact oj_reader_accepts_spec chunks

theorem gen_parser_reader_accepts_spec (chunks : List Bytes) :
    (toOpt (run genTables cfgPR chunks)).isSome = Spec.accepts chunks.flatten := by
  rw [gen_is_reference, ← oj_is_reference]; exact oj_parser_reader_accepts_spec chunks

/-- front-ends with and without the integer loop report the same outcome but for the values:
same acceptance, same number of documents (also in multi-document mode), same error kind, line and
column — for every configuration pair that differs only in the loop, every input and chunking -/
theorem outcome_independent_of_fastInt (cfg : Cfg) (chunks : List Bytes) :
    outcome (run ojTables cfg chunks) = outcome (run ojTables { cfg with fastInt := !cfg.fastInt } chunks) := by
  rw [oj_is_reference, oj_is_reference]
  exact run_outcome_fastInt cfg { cfg with fastInt := !cfg.fastInt } rfl rfl chunks

/-- the hypotheses are not vacuous: a concrete text with every construct is accepted, a near miss is not -/
example : Spec.accepts [123, 34, 97, 34, 58, 91, 49, 44, 45, 50, 46, 53, 101, 51, 44, 116, 114, 117, 101, 44, 110, 117, 108, 108, 44, 34, 120, 92, 117, 48, 48, 101, 57, 34, 93, 125, 32] = true := by decide +kernel   -- {"a":[1,-2.5e3,true,null,"x\u00e9"]} and a blank
example : Spec.accepts [123, 34, 97, 34, 58, 91, 49, 44, 93, 125] = false := by decide +kernel  -- {"a":[1,]}

end OjgVerif.C01
