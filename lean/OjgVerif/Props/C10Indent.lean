import OjgVerif.Props.C10Tree
import OjgVerif.Sen.WriterIndent
/-! # C10 on the INDENTED writer model — whole trees, every `Indent`, `Tab`, every depth

`C10_indent_partial`: for every option combination of `sen.Writer` with `Tab` or `0 < Indent` (OmitNil, OmitEmpty,
HTML-safe or not, any `Indent`, `Tab` or not) and every array or object of the class `admVal` (the class of
`C10_tree_partial`), `sen.Parser.Parse` of the text `Sen.indentVal` produces (the model of `appendArray` /
`appendObject` / `appendSortObject` of sen/writer.go, compared byte for byte with the Go writer by the
correspondence run) is the one document `nvVal o v` — the SAME document the tight text denotes
(`C10_tree_partial`), at every nesting depth, past the clamp of the indentation against the length of the
`spaces` / `tabs` constants (the clamp only shortens a run of blanks).

What the proof uses about the separators is `indentSep_shape`: a separator is a newline followed by blanks or tabs,
whatever `Indent` and depth are — read off the REGENERATED constants `Gen.Sen.spaces`, `Gen.Sen.tabs`
(`spaces_shape`, `tabs_shape`: a changed constant breaks these). White space between tokens is skipped by the
machine in value mode (`ws_run`); a bare token or a number that is pending when the separator begins is completed
by its newline (`done_step_nl`: token-end fast path, `numNewline`), after which the newline is skipped
(`done_sep`). The three claims of C10Tree are re-proved for the indented text (`claimsI_all`), the scalar cases
are those of C10Tree (`VI_scalar`: the indented writer writes scalars like the tight one). -/
set_option linter.unusedSimpArgs false
set_option linter.unusedVariables false
set_option linter.unusedSectionVars false
namespace OjgVerif.Sen
open OjgVerif
open OjgVerif.Writer (sanitize)

/-! ## the separators -/

/-- `spaces` of sen/writer.go: a newline and 128 spaces -/
theorem spaces_shape : Gen.Sen.spaces.toList = 10 :: List.replicate 128 32 := by decide +kernel

/-- `tabs` of sen/writer.go: a newline and 30 tabs -/
theorem tabs_shape : Gen.Sen.tabs.toList = 10 :: List.replicate 30 9 := by decide +kernel

/-- every separator of the indented writer — `is` and `cs`, any `Indent`, `Tab`, any depth, clamped or not — is a
newline followed by blanks or tabs -/
theorem indentSep_shape (io : IOpts) (d : Nat) : ∃ t, indentSep io d = 10 :: t ∧ ∀ x ∈ t, x = 32 ∨ x = 9 := by
  unfold indentSep
  split
  · rw [tabs_shape, List.take_succ_cons]
    exact ⟨_, rfl, fun x hx => Or.inr (List.eq_of_mem_replicate (List.mem_of_mem_take hx))⟩
  · rw [spaces_shape, List.take_succ_cons]
    exact ⟨_, rfl, fun x hx => Or.inl (List.eq_of_mem_replicate (List.mem_of_mem_take hx))⟩

/-- the clamp: from `len(spaces) - 1` columns on the separator no longer grows -/
theorem indentSep_clamp (io : IOpts) (d : Nat) (h : io.tab = false) (hd : 128 ≤ d * io.indent) :
    indentSep io d = Gen.Sen.spaces.toList := by
  unfold indentSep
  simp only [h, Bool.false_eq_true, ↓reduceIte]
  apply List.take_of_length_le
  rw [spaces_shape]; simp; omega

/-! ## white space in value mode -/

theorem step_tab (st : St) (f : Fast) (l : Bool) (hm : st.mode = .value) (hf : f.nlSkipping = false) :
    step refTables {} st f 9 l = .ok (st, fS f, false) := by
  simp [step, stepCore, stepAct, stepActP, nextFast, refTables, expected, isSep, isBlank, hm, hf, fS]

theorem step_nl (st : St) (f : Fast) (l : Bool) (hm : st.mode = .value) (hf : f.nlSkipping = false) :
    step refTables {} st f 10 l = .ok (st, fS f, true) := by
  simp [step, stepCore, stepAct, stepActP, nextFast, refTables, expected, isSep, isBlank, hm, hf, fS]

/-- **white space between tokens is skipped** (value mode): blanks, tabs and newlines leave the state as it is -/
theorem ws_run (t : Bytes) : ∀ (st : St) (f : Fast) (p : Pos) (rest : Bytes), st.mode = .value → FOK f →
    (∀ x ∈ t, x = 32 ∨ x = 9 ∨ x = 10) →
    ∃ f' p', runBytes refTables {} st f p (t ++ rest) = runBytes refTables {} st f' p' rest ∧ FOK f' := by
  induction t with
  | nil => intro st f p rest _ hf _; exact ⟨f, p, rfl, hf⟩
  | cons b r ih =>
    intro st f p rest hm hf hb
    have hr : ∀ x ∈ r, x = 32 ∨ x = 9 ∨ x = 10 := fun x hx => hb x (List.mem_cons_of_mem _ hx)
    rcases hb b List.mem_cons_self with rfl | rfl | rfl
    · obtain ⟨f', p', h, hf'⟩ := ih st (fS f) (p.next false) rest hm (FOK_fS' f) hr
      exact ⟨f', p', by rw [List.cons_append, runBytes_cons_ok {} (fun l => step_space st f l hm hf.1)]; exact h, hf'⟩
    · obtain ⟨f', p', h, hf'⟩ := ih st (fS f) (p.next false) rest hm (FOK_fS' f) hr
      exact ⟨f', p', by rw [List.cons_append, runBytes_cons_ok {} (fun l => step_tab st f l hm hf.1)]; exact h, hf'⟩
    · obtain ⟨f', p', h, hf'⟩ := ih st (fS f) (p.next true) rest hm (FOK_fS' f) hr
      exact ⟨f', p', by rw [List.cons_append, runBytes_cons_ok {} (fun l => step_nl st f l hm hf.1)]; exact h, hf'⟩

/-! ## a pending value is completed by the newline of the separator -/

/-- a pending number is completed by a newline: the step is the step of the completed state -/
theorem step_numEnd_nl (st : St) (f : Fast) (l : Bool) (hm : NumMode st.mode)
    (hin : Inner st) (hf : f.nlSkipping = false) :
    step refTables {} st f 10 l = step refTables {} (st.pushed st.num.asNum.toJV) f 10 l := by
  rcases hin with ⟨j, o, h1⟩ | ⟨o, k, kvs, r, h1, h2⟩
  · rcases hm with hm | hm | hm | hm <;>
      simp [step, stepCore, stepAct, stepActP, nextFast, refTables, expected, expectedNumEnd, expectedFin, isSep, isBlank,
        isDigit, isDigit19, isE, St.flushP, St.flushCloseP, St.add, St.addIgnore, St.pushed, deliver, hm, h1, hf,
        Functor.map, Except.map, Bind.bind, Except.bind, Pure.pure, Except.pure]
  · rcases hm with hm | hm | hm | hm <;>
      simp [step, stepCore, stepAct, stepActP, nextFast, refTables, expected, expectedNumEnd, expectedFin, isSep, isBlank,
        isDigit, isDigit19, isE, St.flushP, St.flushCloseP, St.add, St.addIgnore, St.setMember, topIsKey, St.pushed, deliver,
        hm, h1, h2, hf, Functor.map, Except.map, Bind.bind, Except.bind, Pure.pure, Except.pure]

/-- at a newline a value that is done behaves like the complete one -/
theorem done_step_nl (st : St) (f : Fast) (tgt : St) (h : DoneV st f tgt) :
    ∃ s2 f2, CoreEq s2 tgt ∧ f2.nlSkipping = false ∧ ∀ l, step refTables {} st f 10 l = step refTables {} s2 f2 10 l := by
  obtain ⟨hf, ⟨h, _⟩ | ⟨hm, ht, hi, hin, hc⟩ | ⟨hm, hin, hc⟩⟩ := h
  · exact ⟨st, f, h, hf, fun _ => rfl⟩
  · exact ⟨_, fT f, hc, rfl, fun l => step_tokenEnd st f 10 l hm hf hi ht hin (by decide +kernel) (by decide)⟩
  · exact ⟨_, f, hc, hf, fun l => step_numEnd_nl st f l hm hin hf⟩

/-- **a separator of the indented writer after a value that is done**: the value is completed (if it was
pending), the separator is skipped, the machine stands in value mode in front of what follows -/
theorem done_sep (st : St) (f : Fast) (tgt : St) (h : DoneV st f tgt) (hm : tgt.mode = .value) (sep t : Bytes)
    (hs : sep = 10 :: t) (ht : ∀ x ∈ t, x = 32 ∨ x = 9) (p : Pos) (rest : Bytes) :
    ∃ s2 f2 p2, runBytes refTables {} st f p (sep ++ rest) = runBytes refTables {} s2 f2 p2 rest ∧
      CoreEq s2 tgt ∧ FOK f2 := by
  obtain ⟨s2, f2, hc2, hf2, hstep⟩ := done_step_nl st f tgt h
  have hm2 : s2.mode = .value := by rw [hc2.1, hm]
  obtain ⟨f3, p3, hrun, hf3⟩ := ws_run t s2 (fS f2) (p.next true) rest hm2 (FOK_fS' f2)
    (fun x hx => by rcases ht x hx with h | h <;> simp [h])
  refine ⟨s2, f3, p3, ?_, hc2, hf3⟩
  rw [hs, List.cons_append, runBytes_step s2 f2 hstep (fun l => step_nl s2 f2 l hm2 hf2)]
  exact hrun

/-! ## the three claims for the indented text -/

def VClaimI (o : WOpts) (io : IOpts) (v : JV) : Prop :=
  ∀ (depth : Nat) (st : St) (f : Fast) (p : Pos) (rest : Bytes), st.mode = .value → st.plus = false → Inner st → FOK f →
    ∃ st' f' p', runBytes refTables {} st f p (indentVal o io depth v ++ rest) = runBytes refTables {} st' f' p' rest ∧
      DoneV st' f' (st.pushed (nvVal o v))

def EClaimI (o : WOpts) (io : IOpts) (xs : List JV) : Prop :=
  ∀ (depth : Nat) (st : St) (f : Fast) (p : Pos) (rest : Bytes) (acc : List JV) (i : Nat) (outer : List (Option Nat))
    (below : List Item) (tgt : St),
    DoneV st f tgt → tgt.mode = .value → tgt.plus = false → tgt.starts = some i :: outer →
    tgt.stack = (acc.reverse.map Item.val) ++ Item.arrMark :: below → i = below.length →
    ValPos ({ tgt with starts := outer, stack := below } : St) →
    ∃ st' f' p', runBytes refTables {} st f p (indentElems o io depth xs ++ rest) = runBytes refTables {} st' f' p' rest ∧
      CoreEq st' (({ tgt with starts := outer, stack := below } : St).pushed (.arr (acc ++ nvElems o xs))) ∧ FOK f'

def MClaimI (o : WOpts) (io : IOpts) (kvs : List (Bytes × JV)) : Prop :=
  ∀ (depth : Nat) (st : St) (f : Fast) (p : Pos) (rest : Bytes) (acc : List (Bytes × JV)) (outer : List (Option Nat))
    (below : List Item) (tgt : St),
    DoneV st f tgt → tgt.mode = .value → tgt.plus = false →
    tgt.starts = none :: outer → tgt.stack = .obj acc :: below →
    ValPos ({ tgt with starts := outer, stack := below } : St) →
    ∃ st' f' p', runBytes refTables {} st f p (indentMembers o io depth kvs ++ rest) = runBytes refTables {} st' f' p' rest ∧
      CoreEq st' (({ tgt with starts := outer, stack := below } : St).pushed (.obj (nvMembers o kvs acc))) ∧ FOK f'

section claims
variable (o : WOpts) (io : IOpts)

theorem EI_nil : EClaimI o io [] := by
  intro depth st f p rest acc i outer below tgt hdone tm tp ts tk hi hv
  obtain ⟨t, hsep, ht⟩ := indentSep_shape io depth
  obtain ⟨s2, f2, p2, hrun, hc2, hf2⟩ := done_sep st f tgt hdone tm _ t hsep ht p (93 :: rest)
  obtain ⟨c1, c2, c3, c4, c5⟩ := hc2
  subst hi
  have hsp : splitStack s2.stack below.length = some (acc, .arrMark, below) := by
    rw [c3, tk]; exact splitStack_arr acc below
  have hv2 : ValPos ({ s2 with starts := outer, stack := below } : St) := hv.congr rfl rfl
  have h := fun l => step_closeArr s2 f2 l (by rw [c1, tm]) hf2.1 below.length outer (by rw [c2, ts]) acc .arrMark below hsp hv2
  refine ⟨(({ s2 with starts := outer, stack := below } : St).pushed (.arr acc)), fS f2, p2.next false, ?_, ?_, FOK_fS' f2⟩
  · have e : indentElems o io depth [] ++ rest = indentSep io depth ++ 93 :: rest := by simp [indentElems]
    rw [e, hrun]
    exact runBytes_cons_ok {} h
  · simp only [nvElems, List.append_nil]
    exact pushed_coreV _ _ _ hv2 rfl rfl c4 c5

theorem EI_cons (x : JV) (r : List JV) (hV : VClaimI o io x) (hE : EClaimI o io r) : EClaimI o io (x :: r) := by
  intro depth st f p rest acc i outer below tgt hdone tm tp ts tk hi hv
  obtain ⟨t, hsep, ht⟩ := indentSep_shape io (depth + 1)
  have hform : indentElems o io depth (x :: r) ++ rest =
      indentSep io (depth + 1) ++ (indentVal o io (depth + 1) x ++ (indentElems o io depth r ++ rest)) := by
    simp [indentElems, List.append_assoc]
  rw [hform]
  obtain ⟨s2, f2, p2, hrun, hc2, hf2⟩ := done_sep st f tgt hdone tm _ t hsep ht p
    (indentVal o io (depth + 1) x ++ (indentElems o io depth r ++ rest))
  rw [hrun]
  obtain ⟨c1, c2, c3, c4, c5⟩ := hc2
  have hs2 : s2.starts = some i :: outer := by rw [c2, ts]
  have hin : Inner s2 := Or.inl ⟨i, outer, hs2⟩
  obtain ⟨st1, f1, p1, hrun1, hdone1⟩ := hV (depth + 1) s2 f2 p2 (indentElems o io depth r ++ rest) (by rw [c1, tm])
    (by rw [c5, tp]) hin hf2
  rw [hrun1]
  obtain ⟨pm, pst, psk, pdc, ppl⟩ := pushed_arr s2 (nvVal o x) i outer hs2
  have hk' : (s2.pushed (nvVal o x)).stack = ((acc ++ [nvVal o x]).reverse.map Item.val) ++ Item.arrMark :: below := by
    rw [psk, c3, tk]; simp
  have hv2 : ValPos ({ s2.pushed (nvVal o x) with starts := outer, stack := below } : St) := hv.congr rfl rfl
  obtain ⟨st3, f3, p3, hrun3, hc3, hf3⟩ := hE depth st1 f1 p1 rest (acc ++ [nvVal o x]) i outer below (s2.pushed (nvVal o x))
    hdone1 pm (by rw [ppl, c5, tp]) pst hk' hi hv2
  refine ⟨st3, f3, p3, hrun3, hc3.trans' ?_, hf3⟩
  have e : acc ++ [nvVal o x] ++ nvElems o r = acc ++ nvElems o (x :: r) := by simp [nvElems]
  rw [e]
  exact pushed_coreV _ _ _ hv2 rfl rfl (by show (s2.pushed (nvVal o x)).docs = tgt.docs; rw [pdc, c4])
    (by show (s2.pushed (nvVal o x)).plus = tgt.plus; rw [ppl, c5])

theorem MI_nil : MClaimI o io [] := by
  intro depth st f p rest acc outer below tgt hdone tm tp ts tk hv
  obtain ⟨t, hsep, ht⟩ := indentSep_shape io depth
  obtain ⟨s2, f2, p2, hrun, hc2, hf2⟩ := done_sep st f tgt hdone tm _ t hsep ht p (125 :: rest)
  obtain ⟨c1, c2, c3, c4, c5⟩ := hc2
  have hv2 : ValPos ({ s2 with starts := outer, stack := below } : St) := hv.congr rfl rfl
  have h := fun l => step_closeObj s2 f2 l (by rw [c1, tm]) hf2.1 outer (by rw [c2, ts]) acc below (by rw [c3, tk]) hv2
  refine ⟨(({ s2 with starts := outer, stack := below } : St).pushed (.obj acc)), fS f2, p2.next false, ?_, ?_, FOK_fS' f2⟩
  · have e : indentMembers o io depth [] ++ rest = indentSep io depth ++ 125 :: rest := by simp [indentMembers]
    rw [e, hrun]
    exact runBytes_cons_ok {} h
  · simp only [nvMembers]
    exact pushed_coreV _ _ _ hv2 rfl rfl c4 c5

theorem MI_cons (k : Bytes) (v : JV) (r : List (Bytes × JV)) (hM : MClaimI o io r)
    (hV : omitted o v = false → VClaimI o io v ∧ ¬ C10.leadingSign k o.html) : MClaimI o io ((k, v) :: r) := by
  intro depth st f p rest acc outer below tgt hdone tm tp ts tk hv
  cases hom : omitted o v with
  | true =>
    have e1 : indentMembers o io depth ((k, v) :: r) = indentMembers o io depth r := by simp [indentMembers, hom]
    have e2 : nvMembers o ((k, v) :: r) acc = nvMembers o r acc := by simp [nvMembers, hom]
    rw [e1, e2]
    exact hM depth st f p rest acc outer below tgt hdone tm tp ts tk hv
  | false =>
    obtain ⟨hVv, hkey⟩ := hV hom
    obtain ⟨t, hsep, ht⟩ := indentSep_shape io (depth + 1)
    have e1 : indentMembers o io depth ((k, v) :: r) ++ rest =
        indentSep io (depth + 1) ++ (senString k o.html ++ 58 :: (32 :: (indentVal o io (depth + 1) v ++
          (indentMembers o io depth r ++ rest)))) := by
      simp [indentMembers, hom, List.append_assoc]
    have e2 : nvMembers o ((k, v) :: r) acc = nvMembers o r (kvInsert (sanitize k) (nvVal o v) acc) := by
      simp [nvMembers, hom]
    rw [e1, e2]
    -- the separator: a complete state in front of the member name
    obtain ⟨sA, fA, pA, hrunA, hcA, hfA⟩ := done_sep st f tgt hdone tm _ t hsep ht p
      (senString k o.html ++ 58 :: (32 :: (indentVal o io (depth + 1) v ++ (indentMembers o io depth r ++ rest))))
    rw [hrunA]
    obtain ⟨a1, a2, a3, a4, a5⟩ := hcA
    -- the member name and its colon
    obtain ⟨sB, fB, pB, hrunB, bm, bs, bk, bd, bp, hfB⟩ := key_run o.html k sA fA pA
      (32 :: (indentVal o io (depth + 1) v ++ (indentMembers o io depth r ++ rest))) (by rw [a1, tm]) (by rw [a5, tp]) outer
      (by rw [a2, ts]) acc below (by rw [a3, tk]) hfA hkey
    rw [hrunB]
    -- the blank after the colon
    rw [runBytes_cons_ok {} (fun l => step_space sB fB l bm hfB.1)]
    -- the value
    have hinB : Inner sB := Or.inr ⟨outer, sanitize k, acc, below, bs, bk⟩
    obtain ⟨sC, fC, pC, hrunC, hdoneC⟩ := hVv (depth + 1) sB (fS fB) (pB.next false) (indentMembers o io depth r ++ rest) bm bp
      hinB (FOK_fS' fB)
    rw [hrunC]
    obtain ⟨qm, qs, qk, qd, qp⟩ := pushed_objVal sB (nvVal o v) outer (sanitize k) acc below bs bk
    -- the remaining members
    have hvB : ValPos ({ sB.pushed (nvVal o v) with starts := outer, stack := below } : St) := hv.congr rfl rfl
    obtain ⟨sD, fD, pD, hrunD, hcD, hfD⟩ := hM depth sC fC pC rest (kvInsert (sanitize k) (nvVal o v) acc) outer below
      (sB.pushed (nvVal o v)) hdoneC qm (by rw [qp, bp]) qs qk hvB
    refine ⟨sD, fD, pD, hrunD, hcD.trans' ?_, hfD⟩
    exact pushed_coreV _ _ _ hvB rfl rfl (by show (sB.pushed (nvVal o v)).docs = tgt.docs; rw [qd, bd, a4])
      (by show (sB.pushed (nvVal o v)).plus = tgt.plus; rw [qp, bp, tp])

theorem VI_arr_nil : VClaimI o io (.arr []) := by
  intro depth st f p rest hm hp hin hf
  have hne : st.starts ≠ [] := by
    rcases hin with ⟨j, oo, h1⟩ | ⟨oo, k, kvs, r, h1, _⟩ <;> rw [h1] <;> simp
  have h := fun l => step_openArr st f l hm hf.1 (Or.inl hne)
  let s1 : St := { st with mode := .value, starts := some st.stack.length :: st.starts, stack := .arrMark :: st.stack }
  have hv : ValPos ({ s1 with starts := st.starts, stack := st.stack } : St) := hin.valPos.congr rfl rfl
  have hsp : splitStack s1.stack st.stack.length = some ([], .arrMark, st.stack) := splitStack_arr [] st.stack
  have h2 := fun l => step_closeArr s1 (fS f) l rfl rfl st.stack.length st.starts rfl [] .arrMark st.stack hsp hv
  refine ⟨(({ s1 with starts := st.starts, stack := st.stack } : St).pushed (.arr [])), fS (fS f), (p.next false).next false,
    ?_, rfl, Or.inl ⟨?_, rfl⟩⟩
  · show runBytes refTables {} st f p (91 :: 93 :: rest) = _
    rw [runBytes_cons_ok {} h, runBytes_cons_ok {} h2]
  · simp only [nvVal, nvElems]
    exact pushed_coreV _ _ _ hv rfl rfl rfl rfl

theorem VI_arr (x : JV) (r : List JV) (hE : EClaimI o io (x :: r)) : VClaimI o io (.arr (x :: r)) := by
  intro depth st f p rest hm hp hin hf
  have hne : st.starts ≠ [] := by
    rcases hin with ⟨j, oo, h1⟩ | ⟨oo, k, kvs, r, h1, _⟩ <;> rw [h1] <;> simp
  have h := fun l => step_openArr st f l hm hf.1 (Or.inl hne)
  let s1 : St := { st with mode := .value, starts := some st.stack.length :: st.starts, stack := .arrMark :: st.stack }
  have hv : ValPos ({ s1 with starts := st.starts, stack := st.stack } : St) := hin.valPos.congr rfl rfl
  obtain ⟨st', f', p', hrun, hc, hf'⟩ := hE depth s1 (fS f) (p.next false) rest [] st.stack.length st.starts st.stack s1
    ⟨rfl, Or.inl ⟨CoreEq.rfl' s1, rfl⟩⟩ rfl hp rfl (by simp [s1]) rfl hv
  have hcore : CoreEq st' (st.pushed (nvVal o (.arr (x :: r)))) := by
    refine hc.trans' ?_
    simp only [List.nil_append, nvVal]
    exact pushed_coreV _ _ _ hv rfl rfl rfl rfl
  refine ⟨st', f', p', ?_, hf'.1, Or.inl ⟨hcore, hf'.2⟩⟩
  have e : indentVal o io depth (.arr (x :: r)) ++ rest = 91 :: (indentElems o io depth (x :: r) ++ rest) := by
    simp [indentVal]
  rw [e, runBytes_cons_ok {} h]
  exact hrun

theorem VI_obj (kvs : List (Bytes × JV)) (hM : MClaimI o io kvs) : VClaimI o io (.obj kvs) := by
  intro depth st f p rest hm hp hin hf
  have hne : st.starts ≠ [] := by
    rcases hin with ⟨j, oo, h1⟩ | ⟨oo, k, kvs', r, h1, _⟩ <;> rw [h1] <;> simp
  have h := fun l => step_openObj st f l hm hf.1 (Or.inl hne)
  let s1 : St := { st with mode := .value, starts := none :: st.starts, stack := .obj [] :: st.stack }
  have hv : ValPos ({ s1 with starts := st.starts, stack := st.stack } : St) := hin.valPos.congr rfl rfl
  obtain ⟨st', f', p', hrun, hc, hf'⟩ := hM depth s1 (fS f) (p.next false) rest [] st.starts st.stack s1
    ⟨rfl, Or.inl ⟨CoreEq.rfl' s1, rfl⟩⟩ rfl hp rfl rfl hv
  have hcore : CoreEq st' (st.pushed (nvVal o (.obj kvs))) := by
    refine hc.trans' ?_
    simp only [nvVal]
    exact pushed_coreV _ _ _ hv rfl rfl rfl rfl
  refine ⟨st', f', p', ?_, hf'.1, Or.inl ⟨hcore, hf'.2⟩⟩
  have e : indentVal o io depth (.obj kvs) ++ rest = 123 :: (indentMembers o io depth kvs ++ rest) := by
    simp [indentVal]
  rw [e, runBytes_cons_ok {} h]
  exact hrun

/-- scalars are written like the tight writer writes them -/
theorem indentVal_scalar (depth : Nat) (v : JV) (hs : needSep v = true) : indentVal o io depth v = tightVal o v := by
  cases v with
  | arr xs => simp [needSep] at hs
  | obj kvs => simp [needSep] at hs
  | bool b => cases b <;> simp [indentVal, tightVal]
  | null => simp [indentVal, tightVal]
  | int i => simp [indentVal, tightVal]
  | flt t => simp [indentVal, tightVal]
  | big t => simp [indentVal, tightVal]
  | num t => simp [indentVal, tightVal]
  | str s => simp [indentVal, tightVal]

theorem VI_scalar (v : JV) (hadm : admVal o v) (hs : needSep v = true) : VClaimI o io v := by
  intro depth st f p rest hm hp hin hf
  rw [indentVal_scalar o io depth v hs]
  obtain ⟨st', f', p', h, hd, _⟩ := V_scalar o v hadm hs st f p rest hm hp hin hf
  exact ⟨st', f', p', h, hd⟩

/-- the three claims for the indented text, by induction on the size of the tree -/
theorem claimsI_all : ∀ n : Nat,
    (∀ v, jsz v ≤ n → admVal o v → VClaimI o io v) ∧
    (∀ xs, jszE xs ≤ n → admElems o xs → EClaimI o io xs) ∧
    (∀ kvs, jszM kvs ≤ n → admMembers o kvs → MClaimI o io kvs) := by
  intro n
  induction n with
  | zero =>
    refine ⟨fun v hv => ?_, fun xs hx _ => ?_, fun kvs hk _ => ?_⟩
    · have := jsz_pos v; omega
    · cases xs with
      | nil => exact EI_nil o io
      | cons x r => simp [jszE] at hx
    · cases kvs with
      | nil => exact MI_nil o io
      | cons kv r => obtain ⟨k, v⟩ := kv; simp [jszM] at hk
  | succ n ih =>
    obtain ⟨ihV, ihE, ihM⟩ := ih
    refine ⟨fun v hv hadm => ?_, fun xs hx hadm => ?_, fun kvs hk hadm => ?_⟩
    · cases v with
      | arr xs =>
        cases xs with
        | nil => exact VI_arr_nil o io
        | cons x r => exact VI_arr o io x r (ihE (x :: r) (by simp [jsz] at hv; omega) hadm)
      | obj kvs => exact VI_obj o io kvs (ihM kvs (by simp [jsz] at hv; omega) hadm)
      | null => exact VI_scalar o io _ hadm rfl
      | bool b => exact VI_scalar o io _ hadm rfl
      | str s => exact VI_scalar o io _ hadm rfl
      | int i => exact VI_scalar o io _ hadm rfl
      | flt t => exact VI_scalar o io _ hadm rfl
      | big t => exact absurd hadm (by simp [admVal])
      | num t => exact absurd hadm (by simp [admVal])
    · cases xs with
      | nil => exact EI_nil o io
      | cons x r =>
        obtain ⟨hx1, hx2⟩ : admVal o x ∧ admElems o r := hadm
        have hsz : 1 + jsz x + jszE r ≤ n + 1 := hx
        exact EI_cons o io x r (ihV x (by omega) hx1) (ihE r (by omega) hx2)
    · cases kvs with
      | nil => exact MI_nil o io
      | cons kv r =>
        obtain ⟨k, v⟩ := kv
        obtain ⟨hk1, hk2⟩ : (omitted o v = true ∨ (¬ C10.leadingSign k o.html ∧ admVal o v)) ∧ admMembers o r := hadm
        have hsz : 1 + jsz v + jszM r ≤ n + 1 := hk
        refine MI_cons o io k v r (ihM r (by omega) hk2) (fun hom => ?_)
        rcases hk1 with h | ⟨h1, h2⟩
        · rw [hom] at h; cases h
        · exact ⟨ihV v (by omega) h2, h1⟩

end claims

/-! ## whole documents -/

/-- **C10 on the indented writer model, whole trees**: for every `Indent`, `Tab` or not, every option combination
(OmitNil, OmitEmpty, HTML-safe or not) and every array or object `v` of the class `admVal` (as in
`C10_tree_partial`), to any depth and size, `sen.Parser.Parse` of the text the indented writer produces is the one
document `nvVal o v` — the document of the tight text -/
theorem C10_indent_partial (o : WOpts) (io : IOpts) (v : JV) (hc : (∃ xs, v = .arr xs) ∨ (∃ kvs, v = .obj kvs))
    (hadm : admVal o v) : C10.parsesTo (indentVal o io 0 v) (nvVal o v) := by
  obtain ⟨hV, hE, hM⟩ := claimsI_all o io (jsz v)
  have hf0 : FOK ({} : Fast) := ⟨rfl, rfl⟩
  rcases hc with ⟨xs, rfl⟩ | ⟨kvs, rfl⟩
  · cases xs with
    | nil =>
      apply C10.parsesTo_of_run _ _ 91 [93] (by simp [indentVal]) (by decide)
      have e : indentVal o io 0 (.arr []) = [91, 93] := by simp [indentVal]
      rw [e, runBytes_cons_ok {} C10.open_arr]
      let s1 : St := { mode := .value, starts := [some 0], stack := [.arrMark] }
      have hv0 : ValPos ({ s1 with starts := [], stack := [] } : St) := Or.inl ⟨rfl, rfl⟩
      have h2 := fun l => step_closeArr s1 {} l rfl rfl 0 [] rfl [] .arrMark [] (splitStack_arr [] []) hv0
      rw [runBytes_cons_ok {} h2]
      exact ⟨_, _, _, rfl, rfl, rfl, rfl⟩
    | cons x r =>
      apply C10.parsesTo_of_run _ _ 91 (indentElems o io 0 (x :: r)) (by simp [indentVal]) (by decide)
      have e : indentVal o io 0 (.arr (x :: r)) = 91 :: indentElems o io 0 (x :: r) := by simp [indentVal]
      have hEx := hE (x :: r) (by simp [jsz]) hadm
      rw [e, runBytes_cons_ok {} C10.open_arr]
      let s1 : St := { mode := .value, starts := [some 0], stack := [.arrMark] }
      have hv0 : ValPos ({ s1 with starts := [], stack := [] } : St) := Or.inl ⟨rfl, rfl⟩
      obtain ⟨st', f', p', hrun, hcore, _⟩ := hEx 0 s1 {} (({} : Pos).next false) [] [] 0 [] [] s1
        ⟨rfl, Or.inl ⟨CoreEq.rfl' s1, rfl⟩⟩ rfl rfl rfl rfl rfl hv0
      rw [List.append_nil] at hrun
      rw [hrun]
      obtain ⟨c1, c2, c3, c4, c5⟩ := hcore
      exact ⟨st', f', p', rfl, by rw [c1]; rfl, by rw [c2]; rfl, by rw [c4]; simp [St.pushed, nvVal, s1]⟩
  · apply C10.parsesTo_of_run _ _ 123 (indentMembers o io 0 kvs) (by simp [indentVal]) (by decide)
    have e : indentVal o io 0 (.obj kvs) = 123 :: indentMembers o io 0 kvs := by simp [indentVal]
    have hMx := hM kvs (by simp [jsz]) hadm
    rw [e, runBytes_cons_ok {} C10.open_obj]
    let s1 : St := { mode := .value, starts := [none], stack := [.obj []] }
    have hv1 : ValPos ({ s1 with starts := [], stack := [] } : St) := Or.inl ⟨rfl, rfl⟩
    obtain ⟨st', f', p', hrun, hcore, _⟩ := hMx 0 s1 {} (({} : Pos).next false) [] [] [] [] s1
      ⟨rfl, Or.inl ⟨CoreEq.rfl' s1, rfl⟩⟩ rfl rfl rfl rfl hv1
    rw [List.append_nil] at hrun
    rw [hrun]
    obtain ⟨c1, c2, c3, c4, c5⟩ := hcore
    exact ⟨st', f', p', rfl, by rw [c1]; rfl, by rw [c2]; rfl, by rw [c4]; simp [St.pushed, nvVal, s1]⟩

/-- **every `sen.Writer` layout denotes the same document**: whatever `Indent` and `Tab` are (tight or indented
writer, `senWrite` follows the dispatch of `MustSEN`), `sen.Parser.Parse` of the written text is `nvVal o v` -/
theorem C10_layout_partial (o : WOpts) (io : IOpts) (v : JV) (hc : (∃ xs, v = .arr xs) ∨ (∃ kvs, v = .obj kvs))
    (hadm : admVal o v) : C10.parsesTo (senWrite o io v) (nvVal o v) := by
  unfold senWrite
  split
  · exact C10_indent_partial o io v hc hadm
  · exact C10_tree_partial o v hc hadm

/-- **`sen.Parse(sen.String(v, &ojg.Options{Indent, Tab, …})) = v` on the model**: plain trees (valid UTF-8,
pairwise different member names, no member passed over) come back as themselves under every layout -/
theorem C10_layout_valid (o : WOpts) (io : IOpts) (v : JV) (hc : (∃ xs, v = .arr xs) ∨ (∃ kvs, v = .obj kvs))
    (hadm : admVal o v) (hplain : plainVal o v) : C10.parsesTo (senWrite o io v) v := by
  have h := C10_layout_partial o io v hc hadm
  rwa [nvVal_plain o v hplain] at h

/-- non-vacuity: `[1 -20 "a b" {k:true n:null "":[x]} [] {}]` meets the hypotheses, with `Indent: 2` and with `Tab` -/
example : C10.parsesTo
    (senWrite {} { indent := 2 } (.arr [.int 1, .int (-20), .str [97, 32, 98], .obj [([107], .bool true), ([110], .null), ([], .arr [.str [120]])], .arr [], .obj []]))
    (nvVal {} (.arr [.int 1, .int (-20), .str [97, 32, 98], .obj [([107], .bool true), ([110], .null), ([], .arr [.str [120]])], .arr [], .obj []])) := by
  apply C10_layout_partial {} _ _ (Or.inl ⟨_, rfl⟩)
  simp only [admVal, admElems, admMembers, omitted, C10.reservedWord, C10.leadingSign]
  decide +kernel

/-- and the text is what one expects: every element on its own line, `key: value`, the empty object over two lines -/
example : senWrite {} { indent := 2 } (.arr [.int 1, .obj [([107], .bool true)], .arr [], .obj []]) =
    "[\n  1\n  {\n    k: true\n  }\n  []\n  {\n  }\n]".toUTF8.toList := by decide +kernel

example : senWrite {} { tab := true } (.arr [.int 1, .obj [([107], .bool true)]]) =
    "[\n\t1\n\t{\n\t\tk: true\n\t}\n]".toUTF8.toList := by decide +kernel

/-- non-vacuity with floats: `[1.5 {k: 1e+06 z: -0}]`, `Indent: 2` -/
example : C10.parsesTo
    (senWrite {} { indent := 2 } (.arr [.flt "1.5".toUTF8.toList, .obj [([107], .flt "1e+06".toUTF8.toList), ([122], .flt "-0".toUTF8.toList)]]))
    (nvVal {} (.arr [.flt "1.5".toUTF8.toList, .obj [([107], .flt "1e+06".toUTF8.toList), ([122], .flt "-0".toUTF8.toList)]])) := by
  apply C10_layout_partial {} _ _ (Or.inl ⟨_, rfl⟩)
  simp only [admVal, admElems, admMembers, omitted]
  refine ⟨numAdm_text _ ⟨false, [49], some [53], none⟩ (by decide +kernel) (by decide +kernel),
    ⟨Or.inr ⟨fun h => absurd h.2 (by decide), numAdm_text _ ⟨false, [49], none, some ⟨101, [43], [48, 54]⟩⟩ (by decide +kernel) (by decide +kernel)⟩,
     Or.inr ⟨fun h => absurd h.2 (by decide), numAdm_text _ ⟨true, [48], none, none⟩ (by decide +kernel) (by decide +kernel)⟩, trivial⟩, trivial⟩

/-- … and what comes back there: `1.5` as the float of `1.5`, `1e+06` as the float of `1e6`, `-0` as the int64 0 -/
example : (nvVal {} (.arr [.flt "1.5".toUTF8.toList, .obj [([107], .flt "1e+06".toUTF8.toList), ([122], .flt "-0".toUTF8.toList)]])).render =
    "[F(312e35),{K(6b)F(316536),K(7a)I(0)}]" := by decide +kernel

/-- the int64 extremes: every int64 is in the class; 9223372036854775807 and -9223372036854775808 come back as
`json.Number` with the same digits (known finding C03sen-int19 on the positive side), -9223372036854775807 and
9223372036854775799 as int64 -/
example : C10.parsesTo
    (senWrite {} { tab := true } (.arr [.int 9223372036854775807, .int (-9223372036854775808), .int (-9223372036854775807), .int 9223372036854775799]))
    (nvVal {} (.arr [.int 9223372036854775807, .int (-9223372036854775808), .int (-9223372036854775807), .int 9223372036854775799])) := by
  apply C10_layout_partial {} _ _ (Or.inl ⟨_, rfl⟩)
  simp only [admVal, admElems]
  decide

example : (nvVal {} (.arr [.int 9223372036854775807, .int (-9223372036854775808), .int (-9223372036854775807), .int 9223372036854775799])).render =
    "[B(39323233333732303336383534373735383037),B(2d39323233333732303336383534373735383038),I(-9223372036854775807),I(9223372036854775799)]" := by
  decide +kernel

end OjgVerif.Sen
