import OjgVerif.Reflect.Lemmas
/-! # C15 — all encoders agree on how a Go value is encoded (PARTIAL: plan logic on a model)

Go types are data (`Reflect/Model.lean`). Proved here, for every type, value, option combination
(with `OmitEmpty` off; `OmitNil`/`OmitEmpty` are not modelled: known finding `C15-omit-options`) and
every fuel:

* `mask_constants`, `mask_wiring_oj`, `mask_wiring_alt`, `findex_in_table`: over the REGENERATED mask
  constants of oj, sen and alt, the table entry `calcFieldsIndex`/`getFields` select is the plan of
  the builder the options name;
* `same_plan`: with the deviations repaired the three packages execute the same plan;
* `encoders_agree_with_reference` (`C15_partial`): with the six deviations of `Dev` repaired, the plan
  interpreters of oj, sen and alt describe exactly the tree of the reference `refEncode`, which reads
  like the option documentation; `encoders_agree` follows;
* `C15_full_false`: on the unchanged code (`Dev.current`) the full statement is false (witness: the
  `omitempty` leak); `dev_*_observable`: each of the six deviations alone is observable.

`reflect`, `unsafe` offsets, the type caches and the written text are below the model; the tie to
the Go code is the correspondence run of `harness/cmd/reflect`. -/
namespace OjgVerif.C15
open OjgVerif OjgVerif.Reflect

/-! ## mask wiring over the regenerated constants -/

/-- the plan-table masks are distinct single bits below the table size; sen's are oj's; the masks
that index the 8-entry append/value function tables are the three low bits -/
theorem mask_constants :
    (Gen.Oj.maskByTag_int = 1 ∧ Gen.Oj.maskExact_int = 2 ∧ Gen.Oj.maskNested_int = 4 ∧ Gen.Oj.maskPretty_int = 8 ∧
      Gen.Oj.maskMax_int = 16) ∧
    (Gen.Sen.maskByTag_int = Gen.Oj.maskByTag_int ∧ Gen.Sen.maskExact_int = Gen.Oj.maskExact_int ∧
      Gen.Sen.maskNested_int = Gen.Oj.maskNested_int ∧ Gen.Sen.maskPretty_int = Gen.Oj.maskPretty_int ∧
      Gen.Sen.maskMax_int = Gen.Oj.maskMax_int) ∧
    (Gen.Alt.maskByTag_int = 1 ∧ Gen.Alt.maskExact_int = 2 ∧ Gen.Alt.maskNested_int = 4 ∧ Gen.Alt.maskSet_int = 8) ∧
    (Gen.Oj.strMask_int = 1 ∧ Gen.Oj.omitMask_int = 2 ∧ Gen.Oj.embedMask_int = 4) ∧
    (Gen.Sen.strMask_int = 1 ∧ Gen.Sen.omitMask_int = 2 ∧ Gen.Sen.embedMask_int = 4) ∧
    (Gen.Alt.strMask_int = 1 ∧ Gen.Alt.omitMask_int = 2 ∧ Gen.Alt.embedMask_int = 4) := by decide

/-- oj, sen: `sinfo.fields[calcFieldsIndex()]` is the tag plan iff `UseTags`, else the exact plan iff
`KeyExact`, else the lower-case plan; flattened iff not `NestEmbed` -/
theorem mask_wiring_oj (o : Opts) (d : Dev) (om0 : Bool) (tf : Nat) (fs : List (FieldHdr × GoType)) :
    ojPlanForMask d o.keyExact om0 tf fs (ojFindex o) =
      if o.useTags then ojTagFields d.leak d.tagExact o.keyExact o.nestEmbed tf fs om0
      else plainFields o.keyExact o.nestEmbed om0 tf fs := ojFindex_cases o d om0 tf fs

/-- alt: the same for `getFields` (whose builders take the flag inverted: `(maskNested&u) == 0`) -/
theorem mask_wiring_alt (o : Opts) (d : Dev) (om0 : Bool) (tf : Nat) (fs : List (FieldHdr × GoType)) :
    altPlanForMask d o.keyExact om0 tf fs (altFindex o) =
      if o.useTags then altTagFields d.tagExact o.keyExact o.nestEmbed tf fs
      else plainFields o.keyExact o.nestEmbed om0 tf fs := altFindex_cases o d om0 tf fs

/-- the computed index is inside the table (`[16][]*finfo`, `[8][]*finfo`) -/
theorem findex_in_table (o : Opts) : ojFindex o < ojMaskMax ∧ altFindex o < altMaskSet := by
  obtain ⟨ut, ke, ne, _, _, _, ind, _, _, _⟩ := o
  obtain ⟨h1, h2, h3, h4, h5⟩ := ojMasks
  obtain ⟨a1, a2, a3, a4⟩ := altMasks
  cases ut <;> cases ke <;> cases ne <;> cases ind <;> simp [ojFindex, altFindex, h1, h2, h3, h4, h5, a1, a2, a3, a4]

/-! ## agreement -/

/-- with the deviations repaired the three packages execute one and the same plan -/
theorem same_plan (e₁ e₂ : Enc) (o : Opts) (ho : o.omitEmpty = false) (tf : Nat) (fs : List (FieldHdr × GoType)) :
    planOf e₁ Dev.fixed o tf fs = planOf e₂ Dev.fixed o tf fs := by
  rw [planOf_fixed e₁ o ho, planOf_fixed e₂ o ho]

/-- **C15, partial.** With the six listed deviations repaired, every encoder describes the tree the
option documentation prescribes: for every struct type (field kinds, order, tags, embedding,
nesting), every value of it and every option combination (`OmitEmpty` off). -/
theorem encoders_agree_with_reference (e : Enc) (o : Opts) (ho : o.omitEmpty = false) (tf vf : Nat)
    (t : GoType) (v : GoVal) :
    encode e Dev.fixed o tf vf t v = refEncode o tf vf t v := by
  unfold encode refEncode
  rw [quirksOf_fixed]
  have hp : planOf e Dev.fixed o tf = planFixed o tf := by funext fs; exact planOf_fixed e o ho tf fs
  rw [hp]
  exact encVal_fixed_eq_ref o tf vf true false t v

theorem C15_partial (e : Enc) (o : Opts) (ho : o.omitEmpty = false) (tf vf : Nat) (t : GoType) (v : GoVal) :
    encode e Dev.fixed o tf vf t v = refEncode o tf vf t v := encoders_agree_with_reference e o ho tf vf t v

/-- the hypothesis is not vacuous: the Go-compatible options -/
def goOpts : Opts := ⟨true, true, false, false, false, false, false, false, Gen.Root.BytesAsBase64_int.toNat, []⟩
example : goOpts.omitEmpty = false := rfl

/-- oj.JSON/Marshal/Write, sen.String, pretty.JSON and alt.Decompose describe the same tree -/
theorem encoders_agree (e₁ e₂ : Enc) (o : Opts) (ho : o.omitEmpty = false) (tf vf : Nat) (t : GoType) (v : GoVal) :
    encode e₁ Dev.fixed o tf vf t v = encode e₂ Dev.fixed o tf vf t v := by
  rw [encoders_agree_with_reference e₁ o ho, encoders_agree_with_reference e₂ o ho]

/-- a nil pointer anywhere is null, never a failure: in a struct field, as an element, at top level -/
theorem nil_pointer_is_null (e : Enc) (o : Opts) (ho : o.omitEmpty = false) (tf vf : Nat) (t : GoType) :
    encode e Dev.fixed o tf (vf + 1) (.ptr t) .nilPtr = .null := by
  rw [encoders_agree_with_reference e o ho]; rfl

/-! ## the unchanged code -/

/-- **C15 about the code as it is, excluding exactly the named triggers.** A run of an encoder of the
UNCHANGED code (`Dev.current`) that meets none of the six triggers (`untriggered`, executable: an
`omitempty` tag in a struct written in tag mode by oj/sen, `UseTags` without `KeyExact`, a `[]byte`
outside the `appendJSON` type switch in oj/sen, a nil embedded pointer being flattened, a nil pointer
element under oj's tight writer, a nil container as a map value in alt) describes the reference tree. -/
theorem untriggered_current_eq_reference (e : Enc) (o : Opts) (ho : o.omitEmpty = false) (tf vf : Nat)
    (t : GoType) (v : GoVal)
    (hU : untriggered e Dev.current o tf (planFixed o tf) vf true false t v = true) :
    encode e Dev.current o tf vf t v = refEncode o tf vf t v := by
  unfold encode refEncode
  rw [encVal_untriggered e Dev.current o ho tf vf true false t v hU]
  exact encVal_fixed_eq_ref o tf vf true false t v

/-- a non-trivial instance of the hypothesis: `T1{A: 1, B: 2, C: 3}` has an `omitempty` tag, so the leak
trigger is met and the instance is NOT covered; the same struct without the tag is -/
example : untriggered .oj Dev.current goOpts 4 (planFixed goOpts 4) 4 true false
    (.struct [] [] [(⟨[65], [], false⟩, .int 0), (⟨[66], [98], false⟩, .ptr (.int 0))])
    (.struct [.int 1, .nilPtr]) = true := by decide +kernel

/-- C15 at full strength, about the code as it is -/
def C15_full : Prop :=
  ∀ (e : Enc) (o : Opts) (tf vf : Nat) (t : GoType) (v : GoVal), o.omitNil = false → o.omitEmpty = false →
    encode e Dev.current o tf vf t v = refEncode o tf vf t v

def fld (name : String) (tag : String := "") (emb : Bool := false) : FieldHdr :=
  ⟨name.toUTF8.toList, tag.toUTF8.toList, emb⟩

/-- `type T1 struct { A int; B int `json:"b,omitempty"`; C int }` -/
def T1 : GoType := .struct "T1".toUTF8.toList [] [(fld "A", .int 0), (fld "B" "b,omitempty", .int 0), (fld "C", .int 0)]
def T1zero : GoVal := .struct [.int 0, .int 0, .int 0]

/-- `oj.JSON(T1{})` is `{"C":0}`: the `omitempty` of `B` leaks to `A`, declared before it -/
theorem leak_witness :
    jvBeq (encode .oj Dev.current goOpts 4 4 T1 T1zero) (.obj [([67], .int 0)]) = true ∧
    jvBeq (refEncode goOpts 4 4 T1 T1zero) (.obj [([67], .int 0), ([65], .int 0)]) = true := by
  decide +kernel

theorem C15_full_false : ¬ C15_full := by
  intro h
  have h1 := h .oj goOpts 4 4 T1 T1zero rfl rfl
  have hw := leak_witness
  rw [h1] at hw
  have : jvBeq (refEncode goOpts 4 4 T1 T1zero) (.obj [([67], .int 0)]) = false := by decide +kernel
  rw [this] at hw
  exact absurd hw.1 (by decide)

/-! ### each listed deviation alone is observable -/

def only (l x y e n m : Bool) : Dev := ⟨l, x, y, e, n, m⟩

theorem dev_leak_observable :
    encode .oj (only true false false false false false) goOpts 4 4 T1 T1zero ≠ refEncode goOpts 4 4 T1 T1zero :=
  ne_of_jvBeq (lit := .obj [([67], .int 0), ([65], .int 0)]) (by decide +kernel) (by decide +kernel)

/-- `struct{ Body int }` with `UseTags` and not `KeyExact`: `Body` instead of `body` -/
theorem dev_tagExact_observable :
    encode .alt (only false true false false false false) { goOpts with keyExact := false } 4 4
        (.struct [] [] [(fld "Body", .int 0)]) (.struct [.int 1]) ≠
      refEncode { goOpts with keyExact := false } 4 4 (.struct [] [] [(fld "Body", .int 0)]) (.struct [.int 1]) :=
  ne_of_jvBeq (lit := .obj [("body".toUTF8.toList, .int 1)]) (by decide +kernel) (by decide +kernel)

/-- `struct{ B []byte }{[]byte("ab")}` under the Go options: `[97,98]` instead of `"YWI="` -/
theorem dev_bytes_observable :
    encode .sen (only false false true false false false) goOpts 4 4
        (.struct [] [] [(fld "B", .bytes)]) (.struct [.bytes [97, 98]]) ≠
      refEncode goOpts 4 4 (.struct [] [] [(fld "B", .bytes)]) (.struct [.bytes [97, 98]]) :=
  ne_of_jvBeq (lit := .obj [([66], .str "YWI=".toUTF8.toList)]) (by decide +kernel) (by decide +kernel)

/-- `type E struct{ Q int }; type W struct{ *E; Z int }`, `W{Z: 1}`: a panic instead of `{"Z":1}` -/
theorem dev_embNil_observable :
    encode .oj (only false false false true false false) goOpts 4 4
        (.struct [] [] [(fld "E" "" true, .ptr (.struct [] [] [(fld "Q", .int 0)])), (fld "Z", .int 0)])
        (.struct [.nilPtr, .int 1]) ≠
      refEncode goOpts 4 4
        (.struct [] [] [(fld "E" "" true, .ptr (.struct [] [] [(fld "Q", .int 0)])), (fld "Z", .int 0)])
        (.struct [.nilPtr, .int 1]) :=
  ne_of_jvBeq (lit := .obj [([90], .int 1)]) (by decide +kernel) (by decide +kernel)

/-- `[]*T{nil}` through the tight writer: a panic instead of `[null]` -/
theorem dev_tightNil_observable :
    encode .oj (only false false false false true false) goOpts 4 4
        (.slice (.ptr (.struct [] [] []))) (.slice [.nilPtr]) ≠
      refEncode goOpts 4 4 (.slice (.ptr (.struct [] [] []))) (.slice [.nilPtr]) :=
  ne_of_jvBeq (lit := .arr [.null]) (by decide +kernel) (by decide +kernel)

/-- `map[string][]int{"a": nil}` through alt: `{"a":null}` instead of `{"a":[]}` -/
theorem dev_mapNil_observable :
    encode .alt (only false false false false false true) goOpts 4 4
        (.map (.slice (.int 0))) (.map [([97], .nilSlice)]) ≠
      refEncode goOpts 4 4 (.map (.slice (.int 0))) (.map [([97], .nilSlice)]) :=
  ne_of_jvBeq (lit := .obj [([97], .arr [])]) (by decide +kernel) (by decide +kernel)

end OjgVerif.C15
