import OjgVerif.Json.NumValueScan
import OjgVerif.Json.NumValueTree
import OjgVerif.Props.C02Tree
/-! # C02 — numeric clause as a theorem: no digit, sign or exponent is lost or invented

`numConv lit` is what the machine puts at a number leaf (`C02.oj_structure`, `exec_number_conv`). For
every RFC 8259 number literal `lit` — every shape: sign, integer part of any length, fraction of any
length with leading and trailing zeros, exponent with `e`/`E`, sign and leading zeros, on either side of
every threshold at which the accumulator of `gen/number.go` switches to text form — the result is

* an int64 `v` with `lit` denoting exactly `v` (then `lit` has no fraction and exponent value 0), or
* a float64 or `json.Number`/`gen.Big` given by a decimal text `t` (handed to `strconv.ParseFloat`,
  resp. kept as is) that is a well-formed decimal text and denotes exactly the number `lit` denotes.

The denotation `decVal` (Json/NumValue.lean) is repo-independent and executable: text ↦ (mantissa built
from the sign and ALL digits of integer and fraction part, power of ten). `numConv_exact` is the strong
form: mantissa and power of ten are both preserved literally (trailing zeros of the fraction included);
`numConv_value` is the statement with `SameNumber` (equality of `m · 10^e`). Nothing is excluded.

Trusted beyond this file: `strconv.ParseFloat` on the text of a `.flt` result (e.g. `1E400` is the text
`1e400`, for which Go returns +Inf and an error the code discards) and `strconv.FormatUint` = `fmtNat`. -/
namespace OjgVerif.C02
open OjgVerif OjgVerif.Json

/-- **Numeric clause, strong form.** `lit` is the literal the specification reads at the head of `bs`
(for a stand-alone literal take `bs = lit`, `rest = []`). The literal is a decimal text denoting
`m · 10^e`; an int64 result is `m` with `e = 0` and lies within int64; the text of a float or big result
denotes the same mantissa and the same power of ten. -/
theorem numConv_exact_at (bs lit rest : Bytes) (h : Spec.pNumber bs = some (lit, rest)) :
    ∃ m e, decVal lit = some (m, e) ∧
      match numConv lit with
      | .int v => v = m ∧ e = 0 ∧ -9223372036854775807 ≤ v ∧ v ≤ 9223372036854775807
      | .flt t => decVal t = some (m, e)
      | .big t => decVal t = some (m, e)
      | _ => False := by
  obtain ⟨p, hw, hl, rfl⟩ := pNumber_parts bs lit rest h
  refine ⟨(pval p).1, (pval p).2, decVal_render p hw, ?_⟩
  have ht := tracks_asNum (acc p) p (tracks_acc p hw) hw
  unfold numConv
  rw [numScan_render p hw hl]
  cases hres : (acc p).asNum with
  | int v =>
    rw [hres] at ht
    simp only [NumRes.toJV]
    exact ⟨by rw [ht.1], by rw [ht.1], ht.2.1, ht.2.2⟩
  | flt t => rw [hres] at ht; exact ht
  | big t => rw [hres] at ht; exact ht

theorem numConv_exact (lit : Bytes) (h : Spec.pNumber lit = some (lit, [])) :
    ∃ m e, decVal lit = some (m, e) ∧
      match numConv lit with
      | .int v => v = m ∧ e = 0 ∧ -9223372036854775807 ≤ v ∧ v ≤ 9223372036854775807
      | .flt t => decVal t = some (m, e)
      | .big t => decVal t = some (m, e)
      | _ => False :=
  numConv_exact_at lit lit [] h

/-- **Numeric clause (C02)** at a number leaf: `lit` is the literal the specification reads at the head
of `bs`. It comes back as an int64 equal to it, or as a float64 / `json.Number` / `gen.Big` whose decimal
text denotes the same number. -/
theorem numConv_value_at (bs lit rest : Bytes) (h : Spec.pNumber bs = some (lit, rest)) :
    match numConv lit with
    | .int v => SameNumberO (decVal lit) (some (v, 0))
    | .flt t | .big t => SameNumberO (decVal lit) (decVal t)
    | _ => False := by
  obtain ⟨m, e, hd, hr⟩ := numConv_exact_at bs lit rest h
  cases hc : numConv lit with
  | int v =>
    rw [hc] at hr
    simp only at hr ⊢
    obtain ⟨rfl, rfl, _, _⟩ := hr
    exact SameNumberO.of_eq hd rfl
  | flt t => rw [hc] at hr; exact SameNumberO.of_eq hd hr
  | big t => rw [hc] at hr; exact SameNumberO.of_eq hd hr
  | null => rw [hc] at hr; exact hr
  | bool _ => rw [hc] at hr; exact hr
  | num _ => rw [hc] at hr; exact hr
  | str _ => rw [hc] at hr; exact hr
  | arr _ => rw [hc] at hr; exact hr
  | obj _ => rw [hc] at hr; exact hr

/-- **Numeric clause (C02).** Every complete RFC 8259 number literal comes back as an int64 equal to it,
or as a float64 / `json.Number` / `gen.Big` whose decimal text denotes the same number. -/
theorem numConv_value (lit : Bytes) (h : Spec.pNumber lit = some (lit, [])) :
    match numConv lit with
    | .int v => SameNumberO (decVal lit) (some (v, 0))
    | .flt t | .big t => SameNumberO (decVal lit) (decVal t)
    | _ => False :=
  numConv_value_at lit lit [] h

/-! ## Every number of every document -/

/-- the numeric clause for one literal -/
def NumClause (lit : Bytes) : Prop :=
  match numConv lit with
  | .int v => SameNumberO (decVal lit) (some (v, 0))
  | .flt t | .big t => SameNumberO (decVal lit) (decVal t)
  | _ => False

/-- every number literal of the specification tree of a document satisfies the numeric clause -/
theorem document_numbers (bs : Bytes) (v : JV) (h : parseTextS (Spec.stripBOM bs) = .one v) :
    JV.NumsAll NumClause v :=
  parseTextS_numsAll NumClause (fun bs lit rest h => numConv_value_at bs lit rest h) _ v h

/-- **C02, structure and numeric clause together** (regenerated oj tables, one document): when the text
is a JSON document with specification tree `v` (numbers kept as literals), the parser returns `v` with
each literal replaced by `numConv` of it, and at every one of these literals the replacement is an
int64 equal to the literal or a float64 / `json.Number` text denoting the same number. -/
theorem oj_numbers (bs : Bytes) (v : JV) (h : parseTextS (Spec.stripBOM bs) = .one v) :
    toOpt (run ojTables cfg1 [bs]) = some [JV.mapNum numConv v] ∧ JV.NumsAll NumClause v := by
  refine ⟨?_, document_numbers bs v h⟩
  rw [oj_structure, h]; rfl

/-- the same for the gen tables (`gen.Int` / `gen.Float` / `gen.Big`) -/
theorem gen_numbers (bs : Bytes) (v : JV) (h : parseTextS (Spec.stripBOM bs) = .one v) :
    toOpt (run genTables cfg1 [bs]) = some [JV.mapNum numConv v] ∧ JV.NumsAll NumClause v := by
  refine ⟨?_, document_numbers bs v h⟩
  rw [gen_structure, h]; rfl

/-! ## Instances: the hypothesis is met by literals of every shape, on both sides of every threshold -/

private abbrev asc (s : String) : Bytes := s.toUTF8.toList

private def complete (s : String) : Bool := Spec.pNumber (asc s) == some (asc s, [])

private def isFlt (s t : String) : Bool := match numConv (asc s) with | .flt x => x == asc t | _ => false
private def isBig (s t : String) : Bool := match numConv (asc s) with | .big x => x == asc t | _ => false
private def isInt (s : String) (v : Int) : Bool := match numConv (asc s) with | .int x => x == v | _ => false

/-- fraction with leading and trailing zero, `e+07` with sign and leading zero: float64 from the text
`-12.0340e7`, which denotes −120340 · 10^3 as the literal does -/
example : complete "-12.0340e+07" = true ∧ isFlt "-12.0340e+07" "-12.0340e7" = true ∧
    decVal (asc "-12.0340e+07") = some (-120340, 3) ∧ decVal (asc "-12.0340e7") = some (-120340, 3) := by
  decide +kernel

example : complete "0.5" = true ∧ isFlt "0.5" "0.5" = true := by decide +kernel

/-- upper-case `E`, exponent beyond float64 but below the text threshold 1022: the text `1e400` -/
example : complete "1E400" = true ∧ isFlt "1E400" "1e400" = true ∧
    SameNumberO (decVal (asc "1E400")) (decVal (asc "1e400")) := by decide +kernel

/-- integer part beyond int64: switched to text in the middle of the digits, all 30 digits kept -/
example : complete "123456789012345678901234567890" = true ∧
    isBig "123456789012345678901234567890" "123456789012345678901234567890" = true := by decide +kernel

/-- 21 fraction digits, 20 leading zeros: switched to text after 18 fraction digits, every zero kept -/
example : complete "0.000000000000000000001" = true ∧
    isBig "0.000000000000000000001" "0.000000000000000000001" = true ∧
    decVal (asc "0.000000000000000000001") = some (1, -21) := by decide +kernel

/-- exponent thresholds: 1022 is still a float text, 1023 switches to text form; leading zeros of the
exponent are dropped, its value is not -/
example : isFlt "1e1022" "1e1022" = true ∧ isBig "1e1023" "1e1023" = true ∧ isBig "1e00001023" "1e1023" = true ∧
    isBig "2E-10234" "2e-10234" = true := by decide +kernel

/-- integer results: only without fraction and with exponent value 0; the int64 bounds -/
example : isInt "1e0" 1 = true ∧ isInt "-0" 0 = true ∧ isInt "12E-000" 12 = true ∧
    isInt "9223372036854775807" 9223372036854775807 = true ∧ isInt "-9223372036854775807" (-9223372036854775807) = true ∧
    isBig "9223372036854775808" "9223372036854775808" = true ∧ isBig "-9223372036854775808" "-9223372036854775808" = true ∧
    isFlt "1.0" "1.0" = true ∧ isFlt "-0.0e-0" "-0.0" = true := by decide +kernel

/-- switch to text in the integer part, then fraction, `E`, `+` and exponent passed through verbatim;
switch in the fraction part with an exponent following -/
example : isBig "12345678901234567890.5E+3" "12345678901234567890.5E+3" = true ∧
    isBig "0.0000000000000000001e5" "0.0000000000000000001e5" = true ∧
    isFlt "1.000000000000000000" "1.000000000000000000" = true ∧
    isBig "1.0000000000000000001" "1.0000000000000000001" = true := by decide +kernel

private def isOne : Spec.Doc → Bool
  | .one _ => true
  | _ => false

/-- a document with numbers at several depths meets the hypothesis of `oj_numbers` (`isOne d = true` is
`∃ v, d = .one v`) -/
example : isOne (parseTextS (Spec.stripBOM (asc "[1.50, {\"a\": -2E+3, \"b\": [0, 1e999999]}] "))) = true := by
  decide +kernel

/-- `decVal` rejects what is not a decimal text, so `decVal t = some _` in the theorems says the result
text is well formed -/
example : decVal (asc "1.") = none ∧ decVal (asc "1e") = none ∧ decVal (asc "-") = none ∧ decVal (asc "") = none ∧
    decVal (asc "1.5x") = none ∧ decVal (asc ".5") = none ∧ decVal (asc "1e+") = none ∧ decVal (asc "1 ") = none := by
  decide +kernel

/-- `SameNumber` separates numbers -/
example : ¬ SameNumber (15, -1) (15, 0) ∧ ¬ SameNumber (15, -1) (-15, -1) ∧ ¬ SameNumber (1, 400) (1, 401) ∧
    SameNumber (15, -1) (1500, -3) := by decide

end OjgVerif.C02
