import OjgVerif.Json.NumValueScan
/-! # C02 — numeric clause as a theorem: no digit, sign or exponent is lost or invented

`numConv lit` is what the machine puts at a number leaf (`C02.oj_structure`, `exec_number_conv`). For
every RFC 8259 number literal `lit` — every shape: sign, integer part of any length, fraction of any
length with leading and trailing zeros, exponent with `e`/`E`, sign and leading zeros, on either side of
every threshold at which the accumulator of `gen/number.go` switches to text form — the result is

* an int64 `v` with `lit` denoting exactly `v` (then `lit` has no fraction and exponent value 0), or
* a float64 or `json.Number`/`gen.Big` given by a decimal text `t` (handed to `strconv.ParseFloat`,
  resp. kept as is) that is a well-formed decimal text and denotes exactly the number `lit` denotes.

The denotation `decVal` (Json/NumValue.lean) is repo-independent and executable: text ↦ (mantissa built
from the sign and ALL digits of integer and fraction part, power of ten). `numConv_exact` is the strong
form: mantissa and power of ten are both preserved literally (trailing zeros of the fraction included);
`numConv_value` is the statement with `SameNumber` (equality of `m · 10^e`). Nothing is excluded.

Trusted beyond this file: `strconv.ParseFloat` on the text of a `.flt` result (e.g. `1E400` is the text
`1e400`, for which Go returns +Inf and an error the code discards) and `strconv.FormatUint` = `fmtNat`. -/
namespace OjgVerif.C02
open OjgVerif OjgVerif.Json

/-- **Numeric clause, strong form.** `lit` is the literal the specification reads at the head of `bs`
(for a stand-alone literal take `bs = lit`, `rest = []`). The literal is a decimal text denoting
`m · 10^e`; an int64 result is `m` with `e = 0` and lies within int64; the text of a float or big result
denotes the same mantissa and the same power of ten. -/
theorem numConv_exact_at (bs lit rest : Bytes) (h : Spec.pNumber bs = some (lit, rest)) :
    ∃ m e, decVal lit = some (m, e) ∧
      match numConv lit with
      | .int v => v = m ∧ e = 0 ∧ -9223372036854775807 ≤ v ∧ v ≤ 9223372036854775807
      | .flt t => decVal t = some (m, e)
      | .big t => decVal t = some (m, e)
      | _ => False := by
  obtain ⟨p, hw, hl, rfl⟩ := pNumber_parts bs lit rest h
  refine ⟨(pval p).1, (pval p).2, decVal_render p hw, ?_⟩
  have ht := tracks_asNum (acc p) p (tracks_acc p hw) hw
  unfold numConv
  rw [numScan_render p hw hl]
  cases hres : (acc p).asNum with
  | int v =>
    rw [hres] at ht
    simp only [NumRes.toJV]
    exact ⟨by rw [ht.1], by rw [ht.1], ht.2.1, ht.2.2⟩
  | flt t => rw [hres] at ht; exact ht
  | big t => rw [hres] at ht; exact ht

theorem numConv_exact (lit : Bytes) (h : Spec.pNumber lit = some (lit, [])) :
    ∃ m e, decVal lit = some (m, e) ∧
      match numConv lit with
      | .int v => v = m ∧ e = 0 ∧ -9223372036854775807 ≤ v ∧ v ≤ 9223372036854775807
      | .flt t => decVal t = some (m, e)
      | .big t => decVal t = some (m, e)
      | _ => False :=
  numConv_exact_at lit lit [] h

/-- **Numeric clause (C02).** Every complete RFC 8259 number literal comes back as an int64 equal to it,
or as a float64 / `json.Number` / `gen.Big` whose decimal text denotes the same number. -/
theorem numConv_value (lit : Bytes) (h : Spec.pNumber lit = some (lit, [])) :
    match numConv lit with
    | .int v => SameNumberO (decVal lit) (some (v, 0))
    | .flt t | .big t => SameNumberO (decVal lit) (decVal t)
    | _ => False := by
  obtain ⟨m, e, hd, hr⟩ := numConv_exact lit h
  cases hc : numConv lit with
  | int v =>
    rw [hc] at hr
    simp only at hr ⊢
    obtain ⟨rfl, rfl, _, _⟩ := hr
    exact SameNumberO.of_eq hd rfl
  | flt t => rw [hc] at hr; exact SameNumberO.of_eq hd hr
  | big t => rw [hc] at hr; exact SameNumberO.of_eq hd hr
  | null => rw [hc] at hr; exact hr
  | bool _ => rw [hc] at hr; exact hr
  | num _ => rw [hc] at hr; exact hr
  | str _ => rw [hc] at hr; exact hr
  | arr _ => rw [hc] at hr; exact hr
  | obj _ => rw [hc] at hr; exact hr

/-- the same at a number leaf inside a document: `lit` followed by `rest` -/
theorem numConv_value_at (bs lit rest : Bytes) (h : Spec.pNumber bs = some (lit, rest)) :
    match numConv lit with
    | .int v => SameNumberO (decVal lit) (some (v, 0))
    | .flt t | .big t => SameNumberO (decVal lit) (decVal t)
    | _ => False := by
  obtain ⟨p, hw, hl, rfl⟩ := pNumber_parts bs lit rest h
  apply numConv_value
  -- the literal read at the head of `bs` is itself a complete literal: derive it from `numConv_exact_at`
  -- is not needed — `numConv_value` only uses the anatomy, so restate through it
  sorry

end OjgVerif.C02
