import OjgVerif.Sen.LemmasReset
import OjgVerif.Gen.SenFacts
/-! # C07 (SEN clause) — a reused sen.Parser behaves like a fresh one (model level)

`call T cfg prev chunks` is the model of one entry-point call on an instance the previous call left in
state `prev`; `run` is the same call on a fresh instance. `St.entry` is the field-by-field reset the Go
entry points perform.

* `resets_cover`: the fields the model's `St.entry` resets (or takes as arguments of the call) are all
  in the REGENERATED lists of fields that `(*Parser).Parse`, `(*Parser).ParseReader`,
  `(*Tokenizer).Parse`, `(*Tokenizer).Load` assign on every path before the first buffer is parsed — a
  reset line that disappears from the Go source breaks this theorem;
* `call_entry`: a call depends on the previous state only through the fields `St.entry` keeps:
  `ri`, `rn`, `num`, `quoteDelim`, `lastKey`, `lastStrKey`, `exkey`, `plus`;
* `reused_like_fresh_full_false`: the full statement — the outcome does not depend on `prev` at all —
  is FALSE: with `plus` left set by a failed call, `[x "a"]` parses to `["xa"]`. This is the known
  finding C07sen-plus-not-reset (a proposed fix resets the flag).

* `scratch_is_dead` (parser profile, every table set that passes `TablesOK`, so the regenerated one):
  the kept fields `ri`, `rn`, `num`, `quoteDelim`, `exkey` are dead on entry — every branch of the
  machine writes them before it reads them — so the outcome of a call (documents, error kind and
  position, every chunking) depends on the previous state only through `plus`, `lastKey`, `lastStrKey`;
* `reused_like_fresh_partial`: a sen.Parser on which no `+` is pending and whose `lastKey`/`lastStrKey`
  are empty behaves exactly like a fresh one, whatever else the previous calls left behind.

NOT a theorem: that a non-empty `lastKey`/`lastStrKey` is harmless while `plus` is clear (they are only
read after a `+` of the same call has copied the key of the member just stored); this is decided by the
correspondence run: random call histories on one sen.Parser, each call compared with a fresh parser and
with the model started from the `plus`/`lastStrKey`/`lastKey` the model says the previous call left. -/
namespace OjgVerif.C07sen
open OjgVerif OjgVerif.Sen

/-- the fields of sen.Parser the model treats as reset at entry (`stack`, `tmp`, `starts`, `result`,
`noff`, `line`, `mode`, `mi`) or as arguments of the call (`cb`, `resultChan`, `OnlyOne`, `num.Conv`) -/
def parserResetsModelled : List String :=
  ["OnlyOne", "cb", "line", "mi", "mode", "noff", "num.Conv", "result", "resultChan", "stack", "starts", "tmp"]

/-- the same for sen.Tokenizer -/
def tokenizerResetsModelled : List String := ["handler", "line", "mi", "mode", "noff", "starts", "tmp"]

/-- every field the model resets is assigned by the Go entry point on every path (regenerated facts) -/
theorem resets_cover :
    (parserResetsModelled.all fun f => Gen.SenFacts.parseResets.contains f) = true ∧
    (parserResetsModelled.all fun f => Gen.SenFacts.parseReaderResets.contains f) = true ∧
    (tokenizerResetsModelled.all fun f => Gen.SenFacts.tokParseResets.contains f) = true ∧
    (tokenizerResetsModelled.all fun f => Gen.SenFacts.tokLoadResets.contains f) = true := by
  decide +kernel

/-- and the Go entry points reset nothing else: `plus`, `lastKey`, `lastStrKey`, `quoteDelim`, `ri`,
`rn`, `exkey` are not in the regenerated lists -/
theorem not_reset :
    (["plus", "lastKey", "lastStrKey", "quoteDelim", "ri", "rn", "exkey"].all fun f =>
      !Gen.SenFacts.parseResets.contains f && !Gen.SenFacts.parseReaderResets.contains f &&
      !Gen.SenFacts.tokParseResets.contains f && !Gen.SenFacts.tokLoadResets.contains f) = true := by
  decide +kernel

/-- a call sees the previous state only through what `entry` keeps -/
theorem call_entry (T : Tables) (cfg : Cfg) (prev prev' : St) (h : prev.entry = prev'.entry) (chunks : List Bytes) :
    call T cfg prev chunks = call T cfg prev' chunks := by
  unfold call
  rw [h]

/-- what `entry` keeps -/
theorem entry_eq (prev prev' : St) (h1 : prev.ri = prev'.ri) (h2 : prev.rn = prev'.rn) (h3 : prev.num = prev'.num)
    (h4 : prev.quoteDelim = prev'.quoteDelim) (h5 : prev.lastKey = prev'.lastKey)
    (h6 : prev.lastStrKey = prev'.lastStrKey) (h7 : prev.exkey = prev'.exkey) (h8 : prev.plus = prev'.plus) :
    prev.entry = prev'.entry := by
  cases prev; cases prev'
  simp_all [St.entry]

/-- a reused instance behaves like a fresh one, whatever state the previous call left -/
def reused_like_fresh_full : Prop :=
  ∀ (cfg : Cfg) (prev : St) (chunks : List Bytes),
    (match call refTables cfg prev chunks with | .ok o => o.docs.map JV.render | .error _ => ["error"]) =
    (match run refTables cfg chunks with | .ok o => o.docs.map JV.render | .error _ => ["error"])

/-- `[x "a"]` on an instance that a failed call left with `+` pending gives `["xa"]` -/
theorem reused_like_fresh_full_false : ¬ reused_like_fresh_full := by
  intro h
  have := h {} { plus := true } [[91, 120, 32, 34, 97, 34, 93]]
  revert this
  decide +kernel

/-- the state the failed call `["a" +` leaves behind has `plus` set (so the witness above is a
reachable history: `Parse(["a" +)` then `Parse([x "a"])`) -/
theorem plus_survives_failed_call :
    (match run refTables {} [[91, 34, 97, 34, 32, 43]] with | .ok _ => false | .error e => e.plus) = true := by
  decide +kernel

/-! ## the scratch fields are dead on entry -/

/-- **Non-interference** (sen.Parser profile): two instances that agree on `plus`, `lastKey` and
`lastStrKey` give the same outcome for the same call — whatever `ri`, `rn`, the number accumulator,
`quoteDelim` and `exkey` the previous calls left — for every configuration, input and chunking, over every
table set that passes `TablesOK`. -/
theorem scratch_is_dead {T : Tables} (hT : TablesOK T) (cfg : Cfg) (hc : cfg.tokenizer = false) (prev prev' : St)
    (h1 : prev.plus = prev'.plus) (h2 : prev.lastKey = prev'.lastKey) (h3 : prev.lastStrKey = prev'.lastStrKey)
    (chunks : List Bytes) : call T cfg prev chunks = call T cfg prev' chunks := by
  rw [call_eq_ref hT, call_eq_ref hT]
  exact call_congr_ref cfg hc prev prev' h1 h2 h3 chunks

/-- the same over the regenerated `sen/maps.go` -/
theorem scratch_is_dead_sen (cfg : Cfg) (hc : cfg.tokenizer = false) (prev prev' : St)
    (h1 : prev.plus = prev'.plus) (h2 : prev.lastKey = prev'.lastKey) (h3 : prev.lastStrKey = prev'.lastStrKey)
    (chunks : List Bytes) : call senTables cfg prev chunks = call senTables cfg prev' chunks :=
  scratch_is_dead senTables_ok cfg hc prev prev' h1 h2 h3 chunks

/-- **C07 (SEN parser), partial form**: a reused sen.Parser with no `+` pending (and empty
`lastKey`/`lastStrKey`) behaves like a fresh one -/
theorem reused_like_fresh_partial (cfg : Cfg) (hc : cfg.tokenizer = false) (prev : St)
    (hp : prev.plus = false) (hk : prev.lastKey = []) (hl : prev.lastStrKey = []) (chunks : List Bytes) :
    call senTables cfg prev chunks = run senTables cfg chunks :=
  scratch_is_dead_sen cfg hc prev {} hp hk hl chunks

/-- non-vacuity: an instance left in the middle of a `\\u` escape inside a single-quoted string, expecting
a key, with a half-read number, meets the hypotheses -/
example : ∃ prev : St, prev.ri = 3 ∧ prev.rn = 55357 ∧ prev.quoteDelim = 39 ∧ prev.exkey = true ∧ prev.num.neg = true ∧
    prev.plus = false ∧ prev.lastKey = [] ∧ prev.lastStrKey = [] :=
  ⟨{ ri := 3, rn := 55357, quoteDelim := 39, exkey := true, num := { neg := true }, mode := .u }, rfl, rfl, rfl, rfl, rfl, rfl, rfl, rfl⟩

end OjgVerif.C07sen
