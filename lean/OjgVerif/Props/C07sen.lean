import OjgVerif.Sen.LemmasReset
import OjgVerif.Sen.LemmasKey
import OjgVerif.Sen.LemmasTokReuse
import OjgVerif.Gen.SenFacts
/-! # C07 (SEN clause) — a reused sen.Parser behaves like a fresh one (model level)

`call T cfg prev chunks` is the model of one entry-point call on an instance the previous call left in
state `prev`; `run` is the same call on a fresh instance. `St.entry` is the field-by-field reset the Go
entry points perform.

* `resets_cover`: the fields the model's `St.entry` resets (or takes as arguments of the call) are all
  in the REGENERATED lists of fields that `(*Parser).Parse`, `(*Parser).ParseReader`,
  `(*Tokenizer).Parse`, `(*Tokenizer).Load` assign on every path before the first buffer is parsed — a
  reset line that disappears from the Go source breaks this theorem. Since ece2934 the parser lists
  contain `plus` and `lastStrKey`, and the model resets them (undoing ece2934 breaks `resets_cover`);
* `call_entry`: a call depends on the previous state only through the fields `St.entry` keeps:
  `ri`, `rn`, `num`, `quoteDelim`, `lastKey`, `exkey`;
* `scratch_is_dead` (parser profile, every table set that passes `TablesOK`, so the regenerated one):
  the kept fields `ri`, `rn`, `num`, `quoteDelim`, `exkey` are dead on entry — every branch of the
  machine writes them before it reads them — so the outcome of a call (documents, error kind and
  position, every chunking) depends on the previous state only through `lastKey`;
* `reused_like_fresh_partial`: a sen.Parser whose `lastKey` is empty behaves exactly like a fresh one,
  whatever else the previous calls left behind (including a pending `+`).
* `reused_like_fresh` (`_sen`, `reused_like_fresh_full_current`): **the full statement for the code as it
  is** — a stale `lastKey` is harmless too (`Sen.call_lastKey_ref`, a simulation: `lastKey` is dead while
  every open map on the build stack is empty, and storing a member overwrites it), so a call on a reused
  sen.Parser ANSWERS what a call on a fresh one answers (documents, error kind, line, column), whatever
  the previous calls left. What differs is only the `lastKey` / `lastStrKey` the instance is left with.
* BEFORE ece2934 (`keepPlus := true`): `reused_like_fresh_before_false` — with `plus` left set by a
  failed call, `[x "a"]` parsed to `["xa"]` (finding C07sen-plus-not-reset), and `plus_survived_before`.

`tokenizer_reused_like_fresh` (`_sen`, `tokenizer_reused_like_fresh_full_current`): the same FULL statement for the
sen.Tokenizer profile as it is (`exkey` reset at entry since f540857): the fields `Tokenizer.Parse`/`Load` do not
reset — `ri`, `rn`, the number accumulator, `quoteDelim` — are dead on entry (`Sen.call_tokenizer_ref`, a simulation
with the relation `SameT`).

NOT a theorem: the Reuse map recycling, that
the Go code behaves like the model. These are decided by the correspondence run: random call histories on
one sen.Parser / one sen.Tokenizer, each call compared with a fresh instance and with the model. -/
namespace OjgVerif.C07sen
open OjgVerif OjgVerif.Sen

/-- the fields of sen.Parser the model treats as reset at entry (`stack`, `tmp`, `starts`, `result`,
`noff`, `line`, `mode`, `mi`) or as arguments of the call (`cb`, `resultChan`, `OnlyOne`, `num.Conv`) -/
def parserResetsModelled : List String :=
  ["OnlyOne", "cb", "lastStrKey", "line", "mi", "mode", "noff", "num.Conv", "plus", "result", "resultChan", "stack",
   "starts", "tmp"]

/-- the same for sen.Tokenizer -/
def tokenizerResetsModelled : List String := ["exkey", "handler", "line", "mi", "mode", "noff", "starts", "tmp"]

/-- every field the model resets is assigned by the Go entry point on every path (regenerated facts) -/
theorem resets_cover :
    (parserResetsModelled.all fun f => Gen.SenFacts.parseResets.contains f) = true ∧
    (parserResetsModelled.all fun f => Gen.SenFacts.parseReaderResets.contains f) = true ∧
    (tokenizerResetsModelled.all fun f => Gen.SenFacts.tokParseResets.contains f) = true ∧
    (tokenizerResetsModelled.all fun f => Gen.SenFacts.tokLoadResets.contains f) = true := by
  decide +kernel

/-- and the Go entry points reset nothing else: `lastKey`, `quoteDelim`, `ri`, `rn` are not in the
regenerated lists (`exkey` is reset by `Tokenizer.Parse`/`Load` since f540857: `resets_cover`) -/
theorem not_reset :
    (["lastKey", "quoteDelim", "ri", "rn"].all fun f =>
      !Gen.SenFacts.parseResets.contains f && !Gen.SenFacts.parseReaderResets.contains f &&
      !Gen.SenFacts.tokParseResets.contains f && !Gen.SenFacts.tokLoadResets.contains f) = true := by
  decide +kernel

/-- a call sees the previous state only through what `entry` keeps -/
theorem call_entry (T : Tables) (cfg : Cfg) (prev prev' : St) (h : prev.entry cfg = prev'.entry cfg) (chunks : List Bytes) :
    call T cfg prev chunks = call T cfg prev' chunks := by
  unfold call callWith
  rw [h]

/-- what `entry` keeps (the code as it is) -/
theorem entry_eq (cfg : Cfg) (hk : cfg.keepPlus = false) (prev prev' : St) (h1 : prev.ri = prev'.ri) (h2 : prev.rn = prev'.rn)
    (h3 : prev.num = prev'.num) (h4 : prev.quoteDelim = prev'.quoteDelim) (h5 : prev.lastKey = prev'.lastKey)
    (h7 : prev.exkey = prev'.exkey) : prev.entry cfg = prev'.entry cfg := by
  cases prev; cases prev'
  simp_all [St.entry]

/-- the code as it is: `plus` and `lastStrKey` are reset at entry (ece2934), `addString` checks (285bbf9),
`}` after a member name is an error (546d576) -/
def Current (cfg : Cfg) : Prop := cfg.keepPlus = false ∧ cfg.plusFault = false ∧ cfg.missingValue = false

/-- a reused instance behaves like a fresh one, whatever state the previous call left -/
def reused_like_fresh_full (cfg : Cfg) : Prop :=
  ∀ (prev : St) (chunks : List Bytes),
    (match call refTables cfg prev chunks with | .ok o => o.docs.map JV.render | .error _ => ["error"]) =
    (match run refTables cfg chunks with | .ok o => o.docs.map JV.render | .error _ => ["error"])

/-- BEFORE ece2934: `[x "a"]` on an instance that a failed call left with `+` pending gave `["xa"]` -/
theorem reused_like_fresh_before_false : ¬ reused_like_fresh_full { keepPlus := true } := by
  intro h
  have := h { plus := true } [[91, 120, 32, 34, 97, 34, 93]]
  revert this
  decide +kernel

/-- BEFORE ece2934 the state the failed call `["a" +` left behind had `plus` set (so the witness above
was a reachable history: `Parse(["a" +)` then `Parse([x "a"])`) -/
theorem plus_survived_before :
    (match run refTables { keepPlus := true } [[91, 34, 97, 34, 32, 43]] with | .ok _ => false | .error e => e.plus) = true := by
  decide +kernel

/-- the same history on the code as it is: the second call gives `["x" "a"]`, like a fresh parser -/
example : (match call refTables {} { plus := true } [[91, 120, 32, 34, 97, 34, 93]] with
    | .ok o => o.docs.map JV.render | .error _ => ["error"]) =
    (match run refTables {} [[91, 120, 32, 34, 97, 34, 93]] with | .ok o => o.docs.map JV.render | .error _ => ["error"]) := by
  decide +kernel

/-! ## the scratch fields are dead on entry -/

/-- **Non-interference** (sen.Parser profile, the code as it is): two instances that agree on `lastKey`
give the same outcome for the same call — whatever `plus`, `lastStrKey`, `ri`, `rn`, the number
accumulator, `quoteDelim` and `exkey` the previous calls left — for every configuration, input and
chunking, over every table set that passes `TablesOK`. -/
theorem scratch_is_dead {T : Tables} (hT : TablesOK T) (cfg : Cfg) (hc : cfg.tokenizer = false) (hcur : Current cfg)
    (prev prev' : St) (h2 : prev.lastKey = prev'.lastKey) (chunks : List Bytes) :
    call T cfg prev chunks = call T cfg prev' chunks := by
  rw [call_eq_ref hT, call_eq_ref hT]
  exact call_congr_ref cfg hc hcur.2.1 hcur.2.2 prev prev' (fun hk => by rw [hcur.1] at hk; cases hk) h2
    (fun hk => by rw [hcur.1] at hk; cases hk) chunks

/-- the same over the regenerated `sen/maps.go` -/
theorem scratch_is_dead_sen (cfg : Cfg) (hc : cfg.tokenizer = false) (hcur : Current cfg) (prev prev' : St)
    (h2 : prev.lastKey = prev'.lastKey) (chunks : List Bytes) :
    call senTables cfg prev chunks = call senTables cfg prev' chunks :=
  scratch_is_dead senTables_ok cfg hc hcur prev prev' h2 chunks

/-- **C07 (SEN parser), partial form**: a reused sen.Parser whose `lastKey` is empty behaves like a fresh
one — same documents, same error, same position, for every input and chunking. (Excluded: a stale
non-empty `lastKey`; see the header.) -/
theorem reused_like_fresh_partial (cfg : Cfg) (hc : cfg.tokenizer = false) (hcur : Current cfg) (prev : St)
    (hk : prev.lastKey = []) (chunks : List Bytes) :
    call senTables cfg prev chunks = run senTables cfg chunks :=
  scratch_is_dead_sen cfg hc hcur prev {} hk chunks

/-- non-vacuity: an instance left with `+` pending, in the middle of a `\\u` escape inside a single-quoted
string, expecting a key, with a half-read number, meets the hypotheses -/
example : ∃ prev : St, prev.ri = 3 ∧ prev.rn = 55357 ∧ prev.quoteDelim = 39 ∧ prev.exkey = true ∧ prev.num.neg = true ∧
    prev.plus = true ∧ prev.lastStrKey = [97] ∧ prev.lastKey = [] :=
  ⟨{ ri := 3, rn := 55357, quoteDelim := 39, exkey := true, num := { neg := true }, mode := .u, plus := true,
     lastStrKey := [97] }, rfl, rfl, rfl, rfl, rfl, rfl, rfl, rfl⟩

example : Current {} := ⟨rfl, rfl, rfl⟩

/-! ## the full statement for the code as it is -/

/-- what a call answers: documents / callbacks, error kind and position, deviation marks — without the
`lastKey` / `lastStrKey` the instance is left with -/
theorem answer_docs (r : Except Err Out) :
    (match answer r with | .ok o => o.docs.map JV.render | .error _ => ["error"]) =
    (match r with | .ok o => o.docs.map JV.render | .error _ => ["error"]) := by
  cases r <;> rfl

/-- **C07 (SEN parser), full form for the code as it is**: a call on a reused sen.Parser answers exactly what
the same call on a fresh one answers — same documents, same error kind, line and column — whatever state
(`plus`, `lastStrKey`, `lastKey`, `ri`, `rn`, number accumulator, `quoteDelim`) the previous calls left,
for every configuration, input and chunking, over every table set that passes `TablesOK` -/
theorem reused_like_fresh {T : Tables} (hT : TablesOK T) (cfg : Cfg) (hc : cfg.tokenizer = false) (hcur : Current cfg)
    (prev : St) (chunks : List Bytes) : answer (call T cfg prev chunks) = answer (run T cfg chunks) := by
  unfold run
  rw [call_eq_ref hT, call_eq_ref hT]
  rw [call_lastKey_ref cfg hc hcur.2.1 hcur.2.2 hcur.1 prev [] chunks]
  rw [call_congr_ref cfg hc hcur.2.1 hcur.2.2 { prev with lastKey := [] } {}
    (fun hk => by rw [hcur.1] at hk; cases hk) rfl (fun hk => by rw [hcur.1] at hk; cases hk) chunks]

/-- the same over the regenerated `sen/maps.go` -/
theorem reused_like_fresh_sen (cfg : Cfg) (hc : cfg.tokenizer = false) (hcur : Current cfg) (prev : St)
    (chunks : List Bytes) : answer (call senTables cfg prev chunks) = answer (run senTables cfg chunks) :=
  reused_like_fresh senTables_ok cfg hc hcur prev chunks

/-- the full statement holds for the code as it is -/
theorem reused_like_fresh_full_current : reused_like_fresh_full {} := by
  intro prev chunks
  have hT : TablesOK refTables := ⟨fun _ _ => rfl, fun _ => rfl, fun _ _ => rfl, rfl, rfl⟩
  have h := reused_like_fresh hT {} rfl ⟨rfl, rfl, rfl⟩ prev chunks
  have e1 := answer_docs (call refTables {} prev chunks)
  have e2 := answer_docs (run refTables {} chunks)
  rw [h] at e1
  exact e1.symm.trans e2

/-! ## sen.Tokenizer -/

/-- a reused sen.Tokenizer accepts what a fresh one accepts (the weakest reading of C07 for it) -/
def tokenizer_reused_like_fresh_full (cfg : Cfg) : Prop :=
  ∀ (prev : St) (chunks : List Bytes),
    (match call refTables cfg prev chunks with | .ok _ => true | .error _ => false) =
    (match run refTables cfg chunks with | .ok _ => true | .error _ => false)

/-- BEFORE f540857 (`keepExkey := true`) it was **false** (finding C07sen-tokenizer-exkey-not-reset):
`Tokenizer.Parse`/`Load` did not reset `exkey`, so on an instance that a failed call (`{`) left expecting a
member name `[a b]` was "expected a key" -/
theorem tokenizer_reused_like_fresh_before_false :
    ¬ tokenizer_reused_like_fresh_full { tokenizer := true, keepExkey := true } := by
  intro h
  have := h { exkey := true } [[91, 97, 32, 98, 93]]
  revert this
  decide +kernel

/-- the reused outcome of that witness was the `expectedKey` error, and the token `a` was reported as a KEY -/
example : (match call refTables { tokenizer := true, keepExkey := true } { exkey := true } [[91, 97, 32, 98, 93]] with
    | .error e => e.kind == .expectedKey | .ok _ => false) = true := by decide +kernel

example : (match call refTables { tokenizer := true, keepExkey := true } { exkey := true } [[97]] with
    | .ok o => (match o.evs with | [.key k] => k == [97] | _ => false) | .error _ => false) = true := by decide +kernel

/-- the code as it is (`exkey` reset at entry): the witness behaves like on a fresh tokenizer -/
theorem tokenizer_exkey_witness_current :
    (match call refTables { tokenizer := true } { exkey := true } [[91, 97, 32, 98, 93]] with
      | .ok _ => true | .error _ => false) =
    (match run refTables { tokenizer := true } [[91, 97, 32, 98, 93]] with | .ok _ => true | .error _ => false) := by
  decide +kernel

/-- the tokenizer as it is: `exkey` reset at entry (f540857), the switch of f233b47, `}` after a member name an
error (546d576) -/
def CurrentT (cfg : Cfg) : Prop :=
  cfg.tokenizer = true ∧ cfg.tkOld = false ∧ cfg.missingValue = false ∧ cfg.keepExkey = false ∧ cfg.keepPlus = false

/-- **C07 (SEN tokenizer), full form for the code as it is**: a call on a reused sen.Tokenizer answers exactly what
the same call on a fresh one answers — same callbacks, same error kind, line and column — whatever state (`ri`, `rn`,
number accumulator, `quoteDelim`, and before the entry reset `exkey`) the previous calls left, for every
configuration, input and chunking, over every table set that passes `TablesOK` -/
theorem tokenizer_reused_like_fresh {T : Tables} (hT : TablesOK T) (cfg : Cfg) (hcur : CurrentT cfg) (prev : St)
    (chunks : List Bytes) : answer (call T cfg prev chunks) = answer (run T cfg chunks) := by
  unfold run
  rw [call_eq_ref hT, call_eq_ref hT]
  exact call_tokenizer_ref cfg hcur.1 hcur.2.1 hcur.2.2.1 hcur.2.2.2.1 hcur.2.2.2.2 prev chunks

/-- the same over the regenerated `sen/maps.go` -/
theorem tokenizer_reused_like_fresh_sen (cfg : Cfg) (hcur : CurrentT cfg) (prev : St) (chunks : List Bytes) :
    answer (call senTables cfg prev chunks) = answer (run senTables cfg chunks) :=
  tokenizer_reused_like_fresh senTables_ok cfg hcur prev chunks

/-- the full statement holds for the tokenizer as it is -/
theorem tokenizer_reused_like_fresh_full_current : tokenizer_reused_like_fresh_full { tokenizer := true } := by
  intro prev chunks
  have hT : TablesOK refTables := ⟨fun _ _ => rfl, fun _ => rfl, fun _ _ => rfl, rfl, rfl⟩
  have h := tokenizer_reused_like_fresh hT { tokenizer := true } ⟨rfl, rfl, rfl, rfl, rfl⟩ prev chunks
  have e : ∀ r : Except Err Out, (match answer r with | .ok _ => true | .error _ => false) =
      (match r with | .ok _ => true | .error _ => false) := by intro r; cases r <;> rfl
  have e1 := e (call refTables { tokenizer := true } prev chunks)
  have e2 := e (run refTables { tokenizer := true } chunks)
  rw [h] at e1
  exact e1.symm.trans e2

end OjgVerif.C07sen
