import OjgVerif.Sen.Lemmas
import OjgVerif.Gen.SenFacts
/-! # C07 (SEN clause) — a reused sen.Parser behaves like a fresh one (model level)

`call T cfg prev chunks` is the model of one entry-point call on an instance the previous call left in
state `prev`; `run` is the same call on a fresh instance. `St.entry` is the field-by-field reset the Go
entry points perform.

* `resets_cover`: the fields the model's `St.entry` resets (or takes as arguments of the call) are all
  in the REGENERATED lists of fields that `(*Parser).Parse`, `(*Parser).ParseReader`,
  `(*Tokenizer).Parse`, `(*Tokenizer).Load` assign on every path before the first buffer is parsed — a
  reset line that disappears from the Go source breaks this theorem;
* `call_entry`: a call depends on the previous state only through the fields `St.entry` keeps:
  `ri`, `rn`, `num`, `quoteDelim`, `lastKey`, `lastStrKey`, `exkey`, `plus`;
* `reused_like_fresh_full_false`: the full statement — the outcome does not depend on `prev` at all —
  is FALSE: with `plus` left set by a failed call, `[x "a"]` parses to `["xa"]`. This is the known
  finding C07sen-plus-not-reset (a proposed fix resets the flag).

That the remaining kept fields (`ri`, `rn`, `num`, `quoteDelim`) are dead on entry — written before
they are read — is NOT yet a theorem; it is decided by the correspondence run: random call histories on
one sen.Parser, each call compared with a fresh parser and with the model started from the state the
model says the previous call left (`plus`, `lastStrKey` carried, everything else fresh). -/
namespace OjgVerif.C07sen
open OjgVerif OjgVerif.Sen

/-- the fields of sen.Parser the model treats as reset at entry (`stack`, `tmp`, `starts`, `result`,
`noff`, `line`, `mode`, `mi`) or as arguments of the call (`cb`, `resultChan`, `OnlyOne`, `num.Conv`) -/
def parserResetsModelled : List String :=
  ["OnlyOne", "cb", "line", "mi", "mode", "noff", "num.Conv", "result", "resultChan", "stack", "starts", "tmp"]

/-- the same for sen.Tokenizer -/
def tokenizerResetsModelled : List String := ["handler", "line", "mi", "mode", "noff", "starts", "tmp"]

/-- every field the model resets is assigned by the Go entry point on every path (regenerated facts) -/
theorem resets_cover :
    (parserResetsModelled.all fun f => Gen.SenFacts.parseResets.contains f) = true ∧
    (parserResetsModelled.all fun f => Gen.SenFacts.parseReaderResets.contains f) = true ∧
    (tokenizerResetsModelled.all fun f => Gen.SenFacts.tokParseResets.contains f) = true ∧
    (tokenizerResetsModelled.all fun f => Gen.SenFacts.tokLoadResets.contains f) = true := by
  decide +kernel

/-- and the Go entry points reset nothing else: `plus`, `lastKey`, `lastStrKey`, `quoteDelim`, `ri`,
`rn`, `exkey` are not in the regenerated lists -/
theorem not_reset :
    (["plus", "lastKey", "lastStrKey", "quoteDelim", "ri", "rn", "exkey"].all fun f =>
      !Gen.SenFacts.parseResets.contains f && !Gen.SenFacts.parseReaderResets.contains f &&
      !Gen.SenFacts.tokParseResets.contains f && !Gen.SenFacts.tokLoadResets.contains f) = true := by
  decide +kernel

/-- a call sees the previous state only through what `entry` keeps -/
theorem call_entry (T : Tables) (cfg : Cfg) (prev prev' : St) (h : prev.entry = prev'.entry) (chunks : List Bytes) :
    call T cfg prev chunks = call T cfg prev' chunks := by
  unfold call
  rw [h]

/-- what `entry` keeps -/
theorem entry_eq (prev prev' : St) (h1 : prev.ri = prev'.ri) (h2 : prev.rn = prev'.rn) (h3 : prev.num = prev'.num)
    (h4 : prev.quoteDelim = prev'.quoteDelim) (h5 : prev.lastKey = prev'.lastKey)
    (h6 : prev.lastStrKey = prev'.lastStrKey) (h7 : prev.exkey = prev'.exkey) (h8 : prev.plus = prev'.plus) :
    prev.entry = prev'.entry := by
  cases prev; cases prev'
  simp_all [St.entry]

/-- a reused instance behaves like a fresh one, whatever state the previous call left -/
def reused_like_fresh_full : Prop :=
  ∀ (cfg : Cfg) (prev : St) (chunks : List Bytes),
    (match call refTables cfg prev chunks with | .ok o => o.docs.map JV.render | .error _ => ["error"]) =
    (match run refTables cfg chunks with | .ok o => o.docs.map JV.render | .error _ => ["error"])

/-- `[x "a"]` on an instance that a failed call left with `+` pending gives `["xa"]` -/
theorem reused_like_fresh_full_false : ¬ reused_like_fresh_full := by
  intro h
  have := h {} { plus := true } [[91, 120, 32, 34, 97, 34, 93]]
  revert this
  decide +kernel

/-- the state the failed call `["a" +` leaves behind has `plus` set (so the witness above is a
reachable history: `Parse(["a" +)` then `Parse([x "a"])`) -/
theorem plus_survives_failed_call :
    (match run refTables {} [[91, 34, 97, 34, 32, 43]] with | .ok _ => false | .error e => e.plus) = true := by
  decide +kernel

end OjgVerif.C07sen
