import OjgVerif.Props.C10Indent
import OjgVerif.Sen.WriterStream
/-! # C10 — `sen.Write` with any `WriteLimit` writes the text of `sen.String`

`C10_stream`: for every tree, every option combination (tight or indented) and every `WriteLimit`, the chunks the
model of `sen.Write` hands to the `io.Writer` (`Sen.senWriteTo`, Sen/WriterStream.lean: the buffer, the flush at the end
of every `appendSEN`, the overwrite `wr.buf[len(wr.buf)-1] = ']'` of the tight functions) joined together are exactly
`Sen.senWrite o io v`, and no index goes out of range (the byte the tight functions overwrite is the blank appended
after the last `appendSEN`, i.e. after the last possible flush). With it every theorem about `senWrite`
(`C10_layout_partial`, `C10_top_partial`) is a theorem about what `sen.Write` writes. No restriction on the tree
(all leaf kinds, no `admVal`). -/
set_option linter.unusedSimpArgs false
set_option linter.unusedVariables false
set_option linter.unusedSectionVars false
namespace OjgVerif.Sen
open OjgVerif

theorem total_push (s : WS) (bs : Bytes) : (s.push bs).total = s.total ++ bs := by
  simp [WS.push, WS.total, List.append_assoc]

theorem bad_push (s : WS) (bs : Bytes) : (s.push bs).bad = s.bad := rfl

theorem total_flush (lim : Nat) (s : WS) : (s.flush lim).total = s.total := by
  unfold WS.flush
  split
  · simp [WS.total]
  · rfl

theorem bad_flush (lim : Nat) (s : WS) : (s.flush lim).bad = s.bad := by
  unfold WS.flush
  split <;> rfl

/-- overwriting the blank that was just appended -/
theorem setLast_push (s : WS) (c : UInt8) : ((s.push [32]).setLast c).total = s.total ++ [c] ∧
    ((s.push [32]).setLast c).bad = s.bad := by
  have hne : (s.buf ++ [32]).isEmpty = false := by simp
  simp [WS.setLast, WS.push, WS.total, hne, List.dropLast_concat, List.append_assoc]

/-! ## the text the loops of the tight functions are about to write -/

/-- the elements that follow and the closing bracket; `space` = the last element written was followed by a blank
(which the closing bracket overwrites) -/
def tailE (o : WOpts) : List JV → Bool → Bytes
  | [], _ => [93]
  | x :: r, space => (if space then [32] else []) ++ (tightVal o x ++ tailE o r (needSep x))

def tailM (o : WOpts) : List (Bytes × JV) → Bool → Bytes
  | [], _ => [125]
  | (k, v) :: r, comma =>
    if omitted o v then tailM o r comma
    else (if comma then [32] else []) ++ (senString k o.html ++ (58 :: (tightVal o v ++ tailM o r true)))

theorem tailE_space (o : WOpts) (x : JV) (r : List JV) (sp : Bool) :
    tailE o (x :: r) sp = (if sp then [32] else []) ++ tailE o (x :: r) false := by
  cases sp <;> simp [tailE]

theorem tightElems_tail (o : WOpts) : ∀ xs : List JV, tightElems o xs = tailE o xs false := by
  intro xs
  induction xs with
  | nil => simp [tightElems, tailE]
  | cons x r ih =>
    cases r with
    | nil => simp [tightElems, tailE]
    | cons y r' =>
      rw [show tailE o (x :: y :: r') false = tightVal o x ++ tailE o (y :: r') (needSep x) by simp [tailE]]
      rw [tailE_space o y r' (needSep x), ← ih]
      simp [tightElems, List.append_assoc]

theorem tightMembers_tail (o : WOpts) : ∀ (kvs : List (Bytes × JV)) (first : Bool),
    tightMembers o kvs first = tailM o kvs (!first) := by
  intro kvs
  induction kvs with
  | nil => intro first; simp [tightMembers, tailM]
  | cons kv r ih =>
    intro first
    obtain ⟨k, v⟩ := kv
    cases hom : omitted o v with
    | true => simp [tightMembers, tailM, hom, ih]
    | false =>
      simp only [tightMembers, tailM, hom, Bool.false_eq_true, ↓reduceIte, ih, Bool.not_false]
      cases first <;> simp [List.append_assoc]

/-! ## the claims -/

/-- the text of `sen.String` at depth `d` -/
def senText (o : WOpts) (io : IOpts) (d : Nat) (v : JV) : Bytes :=
  if usesIndented io then indentVal o io d v else tightVal o v

def SV (o : WOpts) (io : IOpts) (lim : Nat) (v : JV) : Prop :=
  ∀ (d : Nat) (s : WS), s.bad = false →
    (wVal o io lim d v s).bad = false ∧ (wVal o io lim d v s).total = s.total ++ senText o io d v

/-- tight elements: `s0` is the state before the pending blank -/
def STE (o : WOpts) (io : IOpts) (lim : Nat) (xs : List JV) : Prop :=
  usesIndented io = false → ∀ (s0 : WS) (space : Bool), s0.bad = false →
    (wTElems o io lim xs (if space then s0.push [32] else s0) space).bad = false ∧
    (wTElems o io lim xs (if space then s0.push [32] else s0) space).total = s0.total ++ tailE o xs space

def STM (o : WOpts) (io : IOpts) (lim : Nat) (kvs : List (Bytes × JV)) : Prop :=
  usesIndented io = false → ∀ (s0 : WS) (comma : Bool), s0.bad = false →
    (wTMembers o io lim kvs (if comma then s0.push [32] else s0) comma).bad = false ∧
    (wTMembers o io lim kvs (if comma then s0.push [32] else s0) comma).total = s0.total ++ tailM o kvs comma

def SIE (o : WOpts) (io : IOpts) (lim : Nat) (xs : List JV) : Prop :=
  usesIndented io = true → ∀ (d : Nat) (s : WS), s.bad = false →
    (wIElems o io lim d xs s).bad = false ∧ (wIElems o io lim d xs s).total = s.total ++ indentElems o io d xs

def SIM (o : WOpts) (io : IOpts) (lim : Nat) (kvs : List (Bytes × JV)) : Prop :=
  usesIndented io = true → ∀ (d : Nat) (s : WS), s.bad = false →
    (wIMembers o io lim d kvs s).bad = false ∧ (wIMembers o io lim d kvs s).total = s.total ++ indentMembers o io d kvs

section claims
variable (o : WOpts) (io : IOpts) (lim : Nat)

theorem SV_scalar (v : JV) (hs : needSep v = true) : SV o io lim v := by
  intro d s hb
  have ht : senText o io d v = tightVal o v := by
    unfold senText
    split
    · exact indentVal_scalar o io d v hs
    · rfl
  rw [ht]
  cases v with
  | arr xs => simp [needSep] at hs
  | obj kvs => simp [needSep] at hs
  | bool b => cases b <;> simp [wVal, tightVal, bad_flush, bad_push, total_flush, total_push, hb]
  | null => simp [wVal, tightVal, bad_flush, bad_push, total_flush, total_push, hb]
  | int i => simp [wVal, tightVal, bad_flush, bad_push, total_flush, total_push, hb]
  | flt t => simp [wVal, tightVal, bad_flush, bad_push, total_flush, total_push, hb]
  | big t => simp [wVal, tightVal, bad_flush, bad_push, total_flush, total_push, hb]
  | num t => simp [wVal, tightVal, bad_flush, bad_push, total_flush, total_push, hb]
  | str x => simp [wVal, tightVal, bad_flush, bad_push, total_flush, total_push, hb]

theorem STE_nil : STE o io lim [] := by
  intro _ s0 space hb
  cases space with
  | true =>
    obtain ⟨h1, h2⟩ := setLast_push s0 93
    simp only [wTElems, ↓reduceIte, tailE]
    exact ⟨by rw [h2, hb], h1⟩
  | false => simp [wTElems, tailE, bad_push, total_push, hb]

theorem STE_cons (x : JV) (r : List JV) (hV : SV o io lim x) (hE : STE o io lim r) : STE o io lim (x :: r) := by
  intro hio s0 space hb
  -- the state the element is written from
  have hs : ((if space then s0.push [32] else s0) : WS).bad = false ∧
      ((if space then s0.push [32] else s0) : WS).total = s0.total ++ (if space then [32] else []) := by
    cases space <;> simp [bad_push, total_push, hb]
  obtain ⟨hv1, hv2⟩ := hV 0 _ hs.1
  have htx : senText o io 0 x = tightVal o x := by simp [senText, hio]
  cases hn : needSep x with
  | true =>
    obtain ⟨he1, he2⟩ := hE hio (wVal o io lim 0 x (if space then s0.push [32] else s0)) true hv1
    simp only [↓reduceIte] at he1 he2
    simp only [wTElems, hn, ↓reduceIte, tailE]
    refine ⟨he1, ?_⟩
    rw [he2, hv2, hs.2, htx]
    simp [List.append_assoc]
  | false =>
    obtain ⟨he1, he2⟩ := hE hio (wVal o io lim 0 x (if space then s0.push [32] else s0)) false hv1
    simp only [Bool.false_eq_true, ↓reduceIte] at he1 he2
    simp only [wTElems, hn, Bool.false_eq_true, ↓reduceIte, tailE]
    refine ⟨he1, ?_⟩
    rw [he2, hv2, hs.2, htx]
    simp [List.append_assoc]

theorem STM_nil : STM o io lim [] := by
  intro _ s0 comma hb
  cases comma with
  | true =>
    obtain ⟨h1, h2⟩ := setLast_push s0 125
    simp only [wTMembers, ↓reduceIte, tailM]
    exact ⟨by rw [h2, hb], h1⟩
  | false => simp [wTMembers, tailM, bad_push, total_push, hb]

theorem STM_cons (k : Bytes) (v : JV) (r : List (Bytes × JV)) (hV : SV o io lim v) (hM : STM o io lim r) :
    STM o io lim ((k, v) :: r) := by
  intro hio s0 comma hb
  cases hom : omitted o v with
  | true =>
    simp only [wTMembers, tailM, hom, ↓reduceIte]
    exact hM hio s0 comma hb
  | false =>
    have hs : ((if comma then s0.push [32] else s0) : WS).bad = false ∧
        ((if comma then s0.push [32] else s0) : WS).total = s0.total ++ (if comma then [32] else []) := by
      cases comma <;> simp [bad_push, total_push, hb]
    obtain ⟨hv1, hv2⟩ := hV 0 (((if comma then s0.push [32] else s0).push (senString k o.html)).push [58])
      (by simp [bad_push, hs.1])
    have htx : senText o io 0 v = tightVal o v := by simp [senText, hio]
    obtain ⟨he1, he2⟩ := hM hio _ true hv1
    simp only [↓reduceIte] at he1 he2
    simp only [wTMembers, hom, Bool.false_eq_true, ↓reduceIte, tailM]
    refine ⟨he1, ?_⟩
    rw [he2, hv2, total_push, total_push, hs.2, htx]
    simp [List.append_assoc]

theorem SIE_nil : SIE o io lim [] := by
  intro _ d s hb
  simp [wIElems, indentElems, bad_push, total_push, hb, List.append_assoc]

theorem SIE_cons (x : JV) (r : List JV) (hV : SV o io lim x) (hE : SIE o io lim r) : SIE o io lim (x :: r) := by
  intro hio d s hb
  obtain ⟨hv1, hv2⟩ := hV (d + 1) (s.push (indentSep io (d + 1))) (by simp [bad_push, hb])
  have htx : senText o io (d + 1) x = indentVal o io (d + 1) x := by simp [senText, hio]
  obtain ⟨he1, he2⟩ := hE hio d _ hv1
  simp only [wIElems, indentElems]
  refine ⟨he1, ?_⟩
  rw [he2, hv2, total_push, htx]
  simp [List.append_assoc]

theorem SIM_nil : SIM o io lim [] := by
  intro _ d s hb
  simp [wIMembers, indentMembers, bad_push, total_push, hb, List.append_assoc]

theorem SIM_cons (k : Bytes) (v : JV) (r : List (Bytes × JV)) (hV : SV o io lim v) (hM : SIM o io lim r) :
    SIM o io lim ((k, v) :: r) := by
  intro hio d s hb
  cases hom : omitted o v with
  | true =>
    simp only [wIMembers, indentMembers, hom, ↓reduceIte]
    exact hM hio d s hb
  | false =>
    obtain ⟨hv1, hv2⟩ := hV (d + 1) (((s.push (indentSep io (d + 1))).push (senString k o.html)).push [58, 32])
      (by simp [bad_push, hb])
    have htx : senText o io (d + 1) v = indentVal o io (d + 1) v := by simp [senText, hio]
    obtain ⟨he1, he2⟩ := hM hio d _ hv1
    simp only [wIMembers, indentMembers, hom, Bool.false_eq_true, ↓reduceIte]
    refine ⟨he1, ?_⟩
    rw [he2, hv2, total_push, total_push, total_push, htx]
    simp [List.append_assoc]

theorem SV_arr (xs : List JV) (hT : STE o io lim xs) (hI : SIE o io lim xs) : SV o io lim (.arr xs) := by
  intro d s hb
  cases xs with
  | nil =>
    have : senText o io d (.arr []) = [91, 93] := by unfold senText; split <;> simp [indentVal, tightVal, tightElems]
    rw [this]
    simp [wVal, bad_flush, bad_push, total_flush, total_push, hb]
  | cons x r =>
    cases hio : usesIndented io with
    | true =>
      obtain ⟨h1, h2⟩ := hI hio d (s.push [91]) (by simp [bad_push, hb])
      have : senText o io d (.arr (x :: r)) = 91 :: indentElems o io d (x :: r) := by simp [senText, hio, indentVal]
      rw [this]
      simp only [wVal, hio, ↓reduceIte, bad_flush, total_flush]
      refine ⟨h1, ?_⟩
      rw [h2, total_push]; simp [List.append_assoc]
    | false =>
      obtain ⟨h1, h2⟩ := hT hio (s.push [91]) false (by simp [bad_push, hb])
      simp only [Bool.false_eq_true, ↓reduceIte] at h1 h2
      have : senText o io d (.arr (x :: r)) = 91 :: tailE o (x :: r) false := by
        simp [senText, hio, tightVal, tightElems_tail]
      rw [this]
      simp only [wVal, hio, Bool.false_eq_true, ↓reduceIte, bad_flush, total_flush]
      refine ⟨h1, ?_⟩
      rw [h2, total_push]; simp [List.append_assoc]

theorem SV_obj (kvs : List (Bytes × JV)) (hT : STM o io lim kvs) (hI : SIM o io lim kvs) : SV o io lim (.obj kvs) := by
  intro d s hb
  cases hio : usesIndented io with
  | true =>
    obtain ⟨h1, h2⟩ := hI hio d (s.push [123]) (by simp [bad_push, hb])
    have : senText o io d (.obj kvs) = 123 :: indentMembers o io d kvs := by simp [senText, hio, indentVal]
    rw [this]
    simp only [wVal, hio, ↓reduceIte, bad_flush, total_flush]
    refine ⟨h1, ?_⟩
    rw [h2, total_push]; simp [List.append_assoc]
  | false =>
    obtain ⟨h1, h2⟩ := hT hio (s.push [123]) false (by simp [bad_push, hb])
    simp only [Bool.false_eq_true, ↓reduceIte] at h1 h2
    have : senText o io d (.obj kvs) = 123 :: tailM o kvs false := by
      simp [senText, hio, tightVal, tightMembers_tail]
    rw [this]
    simp only [wVal, hio, Bool.false_eq_true, ↓reduceIte, bad_flush, total_flush]
    refine ⟨h1, ?_⟩
    rw [h2, total_push]; simp [List.append_assoc]

/-- all claims, by induction on the size of the tree -/
theorem claimsS_all : ∀ n : Nat,
    (∀ v, jsz v ≤ n → SV o io lim v) ∧
    (∀ xs, jszE xs ≤ n → STE o io lim xs ∧ SIE o io lim xs) ∧
    (∀ kvs, jszM kvs ≤ n → STM o io lim kvs ∧ SIM o io lim kvs) := by
  intro n
  induction n with
  | zero =>
    refine ⟨fun v hv => ?_, fun xs hx => ?_, fun kvs hk => ?_⟩
    · have := jsz_pos v; omega
    · cases xs with
      | nil => exact ⟨STE_nil o io lim, SIE_nil o io lim⟩
      | cons x r => simp [jszE] at hx
    · cases kvs with
      | nil => exact ⟨STM_nil o io lim, SIM_nil o io lim⟩
      | cons kv r => obtain ⟨k, v⟩ := kv; simp [jszM] at hk
  | succ n ih =>
    obtain ⟨ihV, ihE, ihM⟩ := ih
    refine ⟨fun v hv => ?_, fun xs hx => ?_, fun kvs hk => ?_⟩
    · cases v with
      | arr xs =>
        obtain ⟨h1, h2⟩ := ihE xs (by simp [jsz] at hv; omega)
        exact SV_arr o io lim xs h1 h2
      | obj kvs =>
        obtain ⟨h1, h2⟩ := ihM kvs (by simp [jsz] at hv; omega)
        exact SV_obj o io lim kvs h1 h2
      | null => exact SV_scalar o io lim _ rfl
      | bool b => exact SV_scalar o io lim _ rfl
      | str s => exact SV_scalar o io lim _ rfl
      | int i => exact SV_scalar o io lim _ rfl
      | flt t => exact SV_scalar o io lim _ rfl
      | big t => exact SV_scalar o io lim _ rfl
      | num t => exact SV_scalar o io lim _ rfl
    · cases xs with
      | nil => exact ⟨STE_nil o io lim, SIE_nil o io lim⟩
      | cons x r =>
        have hsz : 1 + jsz x + jszE r ≤ n + 1 := hx
        obtain ⟨h1, h2⟩ := ihE r (by omega)
        have hx' := ihV x (by omega)
        exact ⟨STE_cons o io lim x r hx' h1, SIE_cons o io lim x r hx' h2⟩
    · cases kvs with
      | nil => exact ⟨STM_nil o io lim, SIM_nil o io lim⟩
      | cons kv r =>
        obtain ⟨k, v⟩ := kv
        have hsz : 1 + jsz v + jszM r ≤ n + 1 := hk
        obtain ⟨h1, h2⟩ := ihM r (by omega)
        have hv' := ihV v (by omega)
        exact ⟨STM_cons o io lim k v r hv' h1, SIM_cons o io lim k v r hv' h2⟩

end claims

/-- **C10, `sen.Write` for every `WriteLimit`**: the chunks handed to the `io.Writer`, joined, are the text of
`sen.String` (`senWrite`), and no index of the buffer goes out of range -/
theorem C10_stream (o : WOpts) (io : IOpts) (lim : Nat) (v : JV) :
    ∃ chunks, senWriteTo o io lim v = some chunks ∧ chunks.flatten = senWrite o io v := by
  obtain ⟨h1, h2⟩ := (claimsS_all o io lim (jsz v)).1 v (Nat.le_refl _) 0 {} rfl
  have ht : senText o io 0 v = senWrite o io v := rfl
  rw [ht] at h2
  unfold senWriteTo
  simp only [h1, Bool.false_eq_true, ↓reduceIte]
  refine ⟨_, rfl, ?_⟩
  have h0 : ({} : WS).total = [] := rfl
  rw [h0, List.nil_append] at h2
  rw [← h2]
  unfold WS.total
  split
  · rename_i he
    have : (wVal o io lim 0 v {}).buf = [] := by
      cases hb : (wVal o io lim 0 v {}).buf with
      | nil => rfl
      | cons _ _ => rw [hb] at he; simp at he
    simp [this]
  · simp

end OjgVerif.Sen
