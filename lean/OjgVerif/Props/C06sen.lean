import OjgVerif.Sen.Lemmas
import OjgVerif.Gen.SenFacts
/-! # C06 (SEN clause) — no SEN input makes sen.Parse / ParseReader / Tokenize panic or hang
(what is PROVED about the machine model; the crash search itself is the harness run)

The model (`Sen.step`) is a total function: one call per input byte, structural recursion over the
input (`runBytes`), so a run of the model always ends. Two things could make the Go loop differ from
that, and both are excluded by facts about the regenerated tables:

* the token fast path re-reads the ending byte (`off--`); if a byte started a token in `valueMap`
  without being a token byte in `tokenMap` the empty token would be added and the same byte read
  again for ever. `tokenStart_progress`: in the regenerated tables every `tokenStart` byte is a
  `tokenOk` byte, so the model's `hang` outcome is unreachable;
* `closeArray` and `closeParen` read `p.mode[256]` without a length test. `closers_have_endmark`: every
  mode table that has one of these codes is 257 bytes long.

`switch_cases`: the case labels of the two `switch` statements (regenerated from the source) are
exactly the ones the model has a branch for — the parser has all 43 codes, the tokenizer lacks
`valPlus`, `openParen`, `closeParen` and the four C-comment codes (known findings of C03sen).

NOT proved: that the model never answers `fault` outside the `+` branch (the stack-shape invariant of
`add`/`closeArray`); the run-time faults the model does predict for `+` (`[1 + "x"]`, `+"x"`) are the
known finding C06sen-plus-panic. That the Go code behaves like the model on malformed input is the
correspondence run (every call under `recover` and a watchdog). -/
namespace OjgVerif.C06sen
open OjgVerif OjgVerif.Sen

/-- the regenerated tables are the reference tables -/
theorem tables_ok : TablesOK senTables := senTables_ok

/-- a byte that starts a token (in whatever mode) continues one: the fast path always makes progress -/
theorem tokenStart_progress_ref (m : Mode) (b : UInt8) (h : expected m b = .tokenStart) :
    expected .token b = .tokenOk ∧ m = .value := by
  have := forall_mode_byte (fun m b => !(expected m b == .tokenStart) || (expected .token b == .tokenOk && m == .value))
    (by decide +kernel) m b
  simpa [h] using this

theorem tokenStart_progress {T : Tables} (hT : TablesOK T) (m : Mode) (b : UInt8) (h : T.act m b = .tokenStart) :
    T.act .token b = .tokenOk := by
  rw [hT.act] at h ⊢
  exact (tokenStart_progress_ref m b h).1

/-- the same for the regenerated `sen/maps.go` -/
theorem tokenStart_progress_sen (m : Mode) (b : UInt8) (h : senTables.act m b = .tokenStart) :
    senTables.act .token b = .tokenOk := tokenStart_progress senTables_ok m b h

/-- the `tokenStart` case of both switches never takes the no-progress branch -/
theorem tokenStart_case_parser {T : Tables} (hT : TablesOK T) (cfg : Cfg) (s : St) (i : Bool) (b : UInt8)
    (h : T.act s.mode b = .tokenStart) :
    stepActP T cfg s i b = .ok ({ s with tmp := [b], mode := .token }, true, false) := by
  unfold stepActP
  simp [h, tokenStart_progress hT s.mode b h]

theorem tokenStart_case_tokenizer {T : Tables} (hT : TablesOK T) (cfg : Cfg) (s : St) (b : UInt8)
    (h : T.act s.mode b = .tokenStart) :
    stepActT T cfg s b = .ok ({ s with tmp := [b], mode := .token }, true, false) := by
  unfold stepActT
  simp [h, tokenStart_progress hT s.mode b h]

/-- `p.mode[256]` is in range wherever `closeArray` / `closeParen` read it without a length test -/
theorem closers_have_endmark_ref (m : Mode) (b : UInt8)
    (h : expected m b = .closeArray ∨ expected m b = .closeParen) : expectedFin m ≠ .absent := by
  have := forall_mode_byte (fun m b => !(expected m b == .closeArray || expected m b == .closeParen) ||
      expectedFin m != .absent) (by decide +kernel) m b
  simp only [Bool.or_eq_true, Bool.not_eq_true', beq_iff_eq, bne_iff_ne, ne_eq, Bool.or_eq_false_iff,
    beq_eq_false_iff_ne] at this
  rcases this with h1 | h2
  · rcases h with h | h
    · exact absurd h h1.1
    · exact absurd h h1.2
  · exact h2

theorem closers_have_endmark {T : Tables} (hT : TablesOK T) (m : Mode) (b : UInt8)
    (h : T.act m b = .closeArray ∨ T.act m b = .closeParen) : T.fin m ≠ .absent := by
  rw [hT.act] at h
  rw [hT.fin]
  exact closers_have_endmark_ref m b h

/-! ## the `switch` statements are the ones the model follows -/

/-- the table codes the parser model has a branch for: all of them -/
def modelParserCases : List String :=
  ["skipNewline", "cskipNewline", "tokenStart", "strOk", "colonColon", "skipChar", "cskipChar", "openObject",
   "closeObject", "valDigit", "valQuote", "numSpc", "strSlash", "escOk", "val0", "valNeg", "escU", "openArray",
   "closeArray", "numDot", "numFrac", "fracE", "tokenOk", "tokenSpc", "tokenColon", "tokenNlColon", "valPlus",
   "strQuote", "numZero", "numDigit", "negDigit", "numNewline", "expSign", "expDigit", "uOk", "valSlash",
   "commentStart", "commentEnd", "ccommentStart", "ccommentEnd", "openParen", "closeParen", "charErr"]

/-- the codes `sen.Tokenizer.tokenizeBuffer` has no `case` for (they fall through the switch) -/
def tokenizerMissing : List String :=
  ["cskipNewline", "cskipChar", "valPlus", "ccommentStart", "ccommentEnd", "openParen", "closeParen"]

/-- the regenerated case labels are exactly what the model assumes -/
theorem switch_cases :
    Gen.SenFacts.parserCases = modelParserCases ∧
    Gen.SenFacts.tokenizerCases = modelParserCases.filter (fun c => !tokenizerMissing.contains c) := by
  decide +kernel

/-- the model names 43 codes, one per Go constant of `sen/maps.go`, pairwise distinct -/
theorem codes_complete : modelParserCases.length = codeList.length ∧ codeList.Nodup :=
  ⟨by decide, codes_distinct⟩

end OjgVerif.C06sen
