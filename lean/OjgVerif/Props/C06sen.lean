import OjgVerif.Sen.LemmasSafe
import OjgVerif.Gen.SenFacts
/-! # C06 (SEN clause) — no SEN input makes sen.Parse / ParseReader / Tokenize panic or hang
(what is PROVED about the machine model; the crash search itself is the harness run)

The model (`Sen.step`) is a total function: one call per input byte, structural recursion over the
input (`runBytes`), so a run of the model always ends. Two things could make the Go loop differ from
that, and both are excluded by facts about the regenerated tables:

* the token fast path re-reads the ending byte (`off--`); if a byte started a token in `valueMap`
  without being a token byte in `tokenMap` the empty token would be added and the same byte read
  again for ever. `tokenStart_progress`: in the regenerated tables every `tokenStart` byte is a
  `tokenOk` byte, so the model's `hang` outcome is unreachable;
* `closeArray` and `closeParen` read `p.mode[256]` without a length test. `closers_have_endmark`: every
  mode table that has one of these codes is 257 bytes long.

`switch_cases`: the case labels of the two `switch` statements (regenerated from the source) are
exactly the ones the model has a branch for — the parser has all 43 codes, the tokenizer lacks
`valPlus`, `openParen`, `closeParen` and the four C-comment codes (known findings of C03sen).

`no_fault_without_plus` (sen.Parser profile): **every run-time fault of the machine is preceded by a `+`
read in value position** — on an instance without a pending `+`, for every configuration, input and
chunking, if a call ends in a fault (failed type assertion, index out of range, nil-map write, slice
bounds) then the run went through the `valPlus` case before. Proof: the stack-shape invariant
(`Sen.wf`: under every key lies a map; `starts` and the build stack agree; only finished values above an
array placeholder and at depth 0) is kept by every case of the switch. `no_hang`: the no-progress
outcome is unreachable. `never_faults_full_false`: without the exclusion the statement is false:
`[1 + "x"]` faults (known finding C06sen-plus-panic; a proposed fix turns the faults into errors).

That the Go code behaves like the model on malformed input is the correspondence run (every call under
`recover` and a watchdog; the model's fault predictions are compared with the actual panics). The
tokenizer profile is not covered by `no_fault_without_plus` (it has no build stack; its run-time faults,
if any, would surface as error results through its `recover`, which the run checks for). -/
namespace OjgVerif.C06sen
open OjgVerif OjgVerif.Sen

/-- the regenerated tables are the reference tables -/
theorem tables_ok : TablesOK senTables := senTables_ok

/-- a byte that starts a token (in whatever mode) continues one: the fast path always makes progress -/
theorem tokenStart_progress_ref (m : Mode) (b : UInt8) (h : expected m b = .tokenStart) :
    expected .token b = .tokenOk ∧ m = .value := by
  have := forall_mode_byte (fun m b => !(expected m b == .tokenStart) || (expected .token b == .tokenOk && m == .value))
    (by decide +kernel) m b
  simpa [h] using this

theorem tokenStart_progress {T : Tables} (hT : TablesOK T) (m : Mode) (b : UInt8) (h : T.act m b = .tokenStart) :
    T.act .token b = .tokenOk := by
  rw [hT.act] at h ⊢
  exact (tokenStart_progress_ref m b h).1

/-- the same for the regenerated `sen/maps.go` -/
theorem tokenStart_progress_sen (m : Mode) (b : UInt8) (h : senTables.act m b = .tokenStart) :
    senTables.act .token b = .tokenOk := tokenStart_progress senTables_ok m b h

/-- the `tokenStart` case of both switches never takes the no-progress branch -/
theorem tokenStart_case_parser {T : Tables} (hT : TablesOK T) (cfg : Cfg) (s : St) (i : Bool) (b : UInt8)
    (h : T.act s.mode b = .tokenStart) :
    stepActP T cfg s i b = .ok ({ s with tmp := [b], mode := .token }, true, false) := by
  unfold stepActP
  simp [h, tokenStart_progress hT s.mode b h]

theorem tokenStart_case_tokenizer {T : Tables} (hT : TablesOK T) (cfg : Cfg) (s : St) (b : UInt8)
    (h : T.act s.mode b = .tokenStart) :
    stepActT T cfg s b = .ok ({ s with tmp := [b], mode := .token }, true, false) := by
  unfold stepActT
  simp [h, tokenStart_progress hT s.mode b h]

/-- `p.mode[256]` is in range wherever `closeArray` / `closeParen` read it without a length test -/
theorem closers_have_endmark_ref (m : Mode) (b : UInt8)
    (h : expected m b = .closeArray ∨ expected m b = .closeParen) : expectedFin m ≠ .absent := by
  have := forall_mode_byte (fun m b => !(expected m b == .closeArray || expected m b == .closeParen) ||
      expectedFin m != .absent) (by decide +kernel) m b
  simp only [Bool.or_eq_true, Bool.not_eq_true', beq_iff_eq, bne_iff_ne, ne_eq, Bool.or_eq_false_iff,
    beq_eq_false_iff_ne] at this
  rcases this with h1 | h2
  · rcases h with h | h
    · exact absurd h h1.1
    · exact absurd h h1.2
  · exact h2

theorem closers_have_endmark {T : Tables} (hT : TablesOK T) (m : Mode) (b : UInt8)
    (h : T.act m b = .closeArray ∨ T.act m b = .closeParen) : T.fin m ≠ .absent := by
  rw [hT.act] at h
  rw [hT.fin]
  exact closers_have_endmark_ref m b h

/-! ## the `switch` statements are the ones the model follows -/

/-- the table codes the parser model has a branch for: all of them -/
def modelParserCases : List String :=
  ["skipNewline", "cskipNewline", "tokenStart", "strOk", "colonColon", "skipChar", "cskipChar", "openObject",
   "closeObject", "valDigit", "valQuote", "numSpc", "strSlash", "escOk", "val0", "valNeg", "escU", "openArray",
   "closeArray", "numDot", "numFrac", "fracE", "tokenOk", "tokenSpc", "tokenColon", "tokenNlColon", "valPlus",
   "strQuote", "numZero", "numDigit", "negDigit", "numNewline", "expSign", "expDigit", "uOk", "valSlash",
   "commentStart", "commentEnd", "ccommentStart", "ccommentEnd", "openParen", "closeParen", "charErr"]

/-- the codes `sen.Tokenizer.tokenizeBuffer` has no `case` for (they fall through the switch) -/
def tokenizerMissing : List String :=
  ["cskipNewline", "cskipChar", "valPlus", "ccommentStart", "ccommentEnd", "openParen", "closeParen"]

/-- the regenerated case labels are exactly what the model assumes -/
theorem switch_cases :
    Gen.SenFacts.parserCases = modelParserCases ∧
    Gen.SenFacts.tokenizerCases = modelParserCases.filter (fun c => !tokenizerMissing.contains c) := by
  decide +kernel

/-- the model names 43 codes, one per Go constant of `sen/maps.go`, pairwise distinct -/
theorem codes_complete : modelParserCases.length = codeList.length ∧ codeList.Nodup :=
  ⟨by decide, codes_distinct⟩

/-! ## no run-time fault without `+`, no hang -/

/-- **C06 (SEN parser), partial form**: on an instance without a pending `+`, a call that ends in a
run-time fault has read a `+` in value position before (mark `p`) — over every table set that passes
`TablesOK`, every configuration, input and chunking -/
theorem no_fault_without_plus {T : Tables} (hT : TablesOK T) (cfg : Cfg) (hc : cfg.tokenizer = false)
    (prev : St) (hp : prev.plus = false) (chunks : List Bytes) (e : Err)
    (h : call T cfg prev chunks = .error e) (w : String) (hw : e.kind = .fault w) : 'p' ∈ e.feat := by
  rw [call_eq_ref hT] at h
  exact call_safe_ref cfg hc prev hp chunks e h w hw

/-- the same over the regenerated `sen/maps.go`, for a fresh parser -/
theorem no_fault_without_plus_sen (cfg : Cfg) (hc : cfg.tokenizer = false) (chunks : List Bytes) (e : Err)
    (h : run senTables cfg chunks = .error e) (w : String) (hw : e.kind = .fault w) : 'p' ∈ e.feat :=
  no_fault_without_plus senTables_ok cfg hc {} rfl chunks e h w hw

/-- the parser machine never reaches the no-progress state -/
theorem no_hang {T : Tables} (hT : TablesOK T) (cfg : Cfg) (hc : cfg.tokenizer = false)
    (prev : St) (chunks : List Bytes) (e : Err) (h : call T cfg prev chunks = .error e) : e.kind ≠ .hang := by
  rw [call_eq_ref hT] at h
  exact call_noHang_ref cfg hc prev chunks e h

/-- the model never faults, on any input -/
def never_faults_full : Prop :=
  ∀ (cfg : Cfg) (chunks : List Bytes),
    (match run refTables cfg chunks with | .error e => e.kind.isFault | .ok _ => false) = false

/-- `[1 + "x"]`: the `+` branch of `addString` asserts that the previous value is a string -/
theorem never_faults_full_false : ¬ never_faults_full := by
  intro h
  have := h {} [[91, 49, 32, 43, 32, 34, 120, 34, 93]]
  revert this
  decide +kernel

/-- non-vacuity of `no_fault_without_plus`: the run on `[1 + "x"]` does end in a fault, and carries the mark -/
example : (match run senTables {} [[91, 49, 32, 43, 32, 34, 120, 34, 93]] with
    | .error e => e.kind.isFault && e.feat.contains 'p' | .ok _ => false) = true := by decide +kernel

end OjgVerif.C06sen
