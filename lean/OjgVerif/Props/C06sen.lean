import OjgVerif.Sen.LemmasSafe
import OjgVerif.Sen.LemmasTok
import OjgVerif.Gen.SenFacts
/-! # C06 (SEN clause) — no SEN input makes sen.Parse / ParseReader / Tokenize panic or hang
(what is PROVED about the machine model; the crash search itself is the harness run)

The model (`Sen.step`) is a total function: one call per input byte, structural recursion over the
input (`runBytes`), so a run of the model always ends. Two things could make the Go loop differ from
that, and both are excluded by facts about the regenerated tables:

* the token fast path re-reads the ending byte (`off--`); if a byte started a token in `valueMap`
  without being a token byte in `tokenMap` the empty token would be added and the same byte read
  again for ever. `tokenStart_progress`: in the regenerated tables every `tokenStart` byte is a
  `tokenOk` byte, so the model's `hang` outcome is unreachable;
* `closeArray` and `closeParen` read `p.mode[256]` without a length test. `closers_have_endmark`: every
  mode table that has one of these codes is 257 bytes long.

`switch_cases`: the case labels of the two `switch` statements (regenerated from the source) are
exactly the ones the model has a branch for — the parser has all 43 codes, the tokenizer lacks only
`valPlus`, `openParen`, `closeParen` (the four C-comment codes have a case since f233b47).

`never_faults_current` (sen.Parser profile, the code as it is since 285bbf9 and ece2934): **the parser
machine never ends in a run-time fault** — for every table set that passes `TablesOK`, every
configuration, every state a previous call may have left, every input and chunking, a call never ends
in a failed type assertion, an index out of range, a nil-map write or a slice-bounds fault. Proof: the
stack-shape invariant (`Sen.wf`: under every key lies a map; `starts` and the build stack agree; only
finished values above an array placeholder and at depth 0) is kept by every case of the switch, and
`addString` after a `+` now answers "expected a string before '+'" where it used to assert.
`addString_checked`: the regenerated count of one-valued type assertions in `(*Parser).addString` is 0
(undoing 285bbf9 breaks this). `no_hang`: the no-progress outcome is unreachable.

BEFORE the repair (`plusFault := true`, the old `addString` kept as `St.addStringPOld`):
`no_fault_without_plus_before`: every fault is preceded by a `+` read in value position, and
`never_faults_before_false`: `[1 + "x"]` does fault (finding C06sen-plus-panic, fixed by 285bbf9).

That the Go code behaves like the model on malformed input is the correspondence run (every call under
`recover` and a watchdog; the model predicts no panic at all now).

`tokenizer_never_faults` (`_sen`): the same for the sen.Tokenizer profile — the tokenizer machine never ends
in a run-time fault or in the no-progress state, for every prior instance state, configuration, input and
chunking (it has no build stack: the only fault of its switch is `t.mode[256]` read without a length test in
`closeArray`, excluded by `closers_have_endmark`; the only no-progress outcome by `tokenStart_progress`). -/
namespace OjgVerif.C06sen
open OjgVerif OjgVerif.Sen

/-- the regenerated tables are the reference tables -/
theorem tables_ok : TablesOK senTables := senTables_ok

/-- a byte that starts a token (in whatever mode) continues one: the fast path always makes progress -/
theorem tokenStart_progress_ref (m : Mode) (b : UInt8) (h : expected m b = .tokenStart) :
    expected .token b = .tokenOk ∧ m = .value := by
  have := forall_mode_byte (fun m b => !(expected m b == .tokenStart) || (expected .token b == .tokenOk && m == .value))
    (by decide +kernel) m b
  simpa [h] using this

theorem tokenStart_progress {T : Tables} (hT : TablesOK T) (m : Mode) (b : UInt8) (h : T.act m b = .tokenStart) :
    T.act .token b = .tokenOk := by
  rw [hT.act] at h ⊢
  exact (tokenStart_progress_ref m b h).1

/-- the same for the regenerated `sen/maps.go` -/
theorem tokenStart_progress_sen (m : Mode) (b : UInt8) (h : senTables.act m b = .tokenStart) :
    senTables.act .token b = .tokenOk := tokenStart_progress senTables_ok m b h

/-- the `tokenStart` case of both switches never takes the no-progress branch -/
theorem tokenStart_case_parser {T : Tables} (hT : TablesOK T) (cfg : Cfg) (s : St) (i : Bool) (b : UInt8)
    (h : T.act s.mode b = .tokenStart) :
    stepActP T cfg s i b = .ok ({ s with tmp := [b], mode := .token }, true, false) := by
  unfold stepActP
  simp [h, tokenStart_progress hT s.mode b h]

theorem tokenStart_case_tokenizer {T : Tables} (hT : TablesOK T) (cfg : Cfg) (s : St) (b : UInt8)
    (h : T.act s.mode b = .tokenStart) :
    stepActT T cfg s b = .ok ({ s with tmp := [b], mode := .token }, true, false) := by
  unfold stepActT
  simp [h, tokenStart_progress hT s.mode b h]

/-- `p.mode[256]` is in range wherever `closeArray` / `closeParen` read it without a length test -/
theorem closers_have_endmark_ref (m : Mode) (b : UInt8)
    (h : expected m b = .closeArray ∨ expected m b = .closeParen) : expectedFin m ≠ .absent := by
  have := forall_mode_byte (fun m b => !(expected m b == .closeArray || expected m b == .closeParen) ||
      expectedFin m != .absent) (by decide +kernel) m b
  simp only [Bool.or_eq_true, Bool.not_eq_true', beq_iff_eq, bne_iff_ne, ne_eq, Bool.or_eq_false_iff,
    beq_eq_false_iff_ne] at this
  rcases this with h1 | h2
  · rcases h with h | h
    · exact absurd h h1.1
    · exact absurd h h1.2
  · exact h2

theorem closers_have_endmark {T : Tables} (hT : TablesOK T) (m : Mode) (b : UInt8)
    (h : T.act m b = .closeArray ∨ T.act m b = .closeParen) : T.fin m ≠ .absent := by
  rw [hT.act] at h
  rw [hT.fin]
  exact closers_have_endmark_ref m b h

/-! ## the `switch` statements are the ones the model follows -/

/-- the table codes the parser model has a branch for: all of them -/
def modelParserCases : List String :=
  ["skipNewline", "cskipNewline", "tokenStart", "strOk", "colonColon", "skipChar", "cskipChar", "openObject",
   "closeObject", "valDigit", "valQuote", "numSpc", "strSlash", "escOk", "val0", "valNeg", "escU", "openArray",
   "closeArray", "numDot", "numFrac", "fracE", "tokenOk", "tokenSpc", "tokenColon", "tokenNlColon", "valPlus",
   "strQuote", "numZero", "numDigit", "negDigit", "numNewline", "expSign", "expDigit", "uOk", "valSlash",
   "commentStart", "commentEnd", "ccommentStart", "ccommentEnd", "openParen", "closeParen", "charErr"]

/-- the codes `sen.Tokenizer.tokenizeBuffer` has no `case` for (they fall through the switch) -/
def tokenizerMissing : List String := ["valPlus", "openParen", "closeParen"]

/-- the regenerated case labels are exactly what the model assumes (the tokenizer's in any order: the
C-comment cases were appended by f233b47; before it they were missing and this theorem fails) -/
theorem switch_cases :
    Gen.SenFacts.parserCases = modelParserCases ∧
    Gen.SenFacts.tokenizerCases.Nodup ∧
    (Gen.SenFacts.tokenizerCases.all fun c => modelParserCases.contains c) = true ∧
    (modelParserCases.all fun c => Gen.SenFacts.tokenizerCases.contains c != tokenizerMissing.contains c) = true := by
  decide +kernel

/-- `(*Parser).addString` has no panicking type assertion left (285bbf9) -/
theorem addString_checked : Gen.SenFacts.addStringUnchecked = 0 := by decide

/-- the model names 43 codes, one per Go constant of `sen/maps.go`, pairwise distinct -/
theorem codes_complete : modelParserCases.length = codeList.length ∧ codeList.Nodup :=
  ⟨by decide, codes_distinct⟩

/-! ## no run-time fault, no hang -/

/-- the code as it is: `addString` checks what precedes a `+` (285bbf9), `plus` is reset at entry (ece2934) -/
def Current (cfg : Cfg) : Prop := cfg.plusFault = false ∧ cfg.keepPlus = false

theorem current_default : Current {} := ⟨rfl, rfl⟩

/-- **C06 (SEN parser)**: the parser machine never ends in a run-time fault — over every table set that
passes `TablesOK`, every configuration of the current code, every prior instance state, input and chunking -/
theorem never_faults_current {T : Tables} (hT : TablesOK T) (cfg : Cfg) (hc : cfg.tokenizer = false)
    (hcur : Current cfg) (prev : St) (chunks : List Bytes) (e : Err)
    (h : call T cfg prev chunks = .error e) (w : String) : e.kind ≠ .fault w := by
  rw [call_eq_ref hT] at h
  intro hw
  have := call_safe_ref cfg hc prev (fun hk => by rw [hcur.2] at hk; cases hk) chunks e h w hw
  have h1 : cfg.plusFault = true := this.1
  rw [hcur.1] at h1
  cases h1

/-- the same over the regenerated `sen/maps.go` -/
theorem never_faults_current_sen (cfg : Cfg) (hc : cfg.tokenizer = false) (hcur : Current cfg) (prev : St)
    (chunks : List Bytes) (e : Err) (h : call senTables cfg prev chunks = .error e) (w : String) :
    e.kind ≠ .fault w :=
  never_faults_current senTables_ok cfg hc hcur prev chunks e h w

/-- the parser machine never reaches the no-progress state -/
theorem no_hang {T : Tables} (hT : TablesOK T) (cfg : Cfg) (hc : cfg.tokenizer = false)
    (prev : St) (chunks : List Bytes) (e : Err) (h : call T cfg prev chunks = .error e) : e.kind ≠ .hang := by
  rw [call_eq_ref hT] at h
  exact call_noHang_ref cfg hc prev chunks e h

/-- the model never faults or hangs, on any input (stated for a configuration) -/
def never_faults_full (cfg : Cfg) : Prop :=
  ∀ (chunks : List Bytes),
    (match run refTables cfg chunks with | .error e => e.kind.isFault | .ok _ => false) = false

/-- the full statement holds for the code as it is -/
theorem never_faults_full_current : never_faults_full {} := by
  intro chunks
  cases h : run refTables {} chunks with
  | ok o => rfl
  | error e =>
    simp only []
    cases hk : e.kind with
    | fault w => exact absurd hk (never_faults_current ⟨fun _ _ => rfl, fun _ => rfl, fun _ _ => rfl, rfl, rfl⟩ {} rfl current_default {} chunks e h w)
    | hang => exact absurd hk (call_noHang_ref {} rfl {} chunks e h)
    | _ => simp [ErrKind.isFault]

/-- the witness of the old finding is an ordinary error now -/
example : (match run senTables {} [[91, 49, 32, 43, 32, 34, 120, 34, 93]] with
    | .error e => e.kind == .plusNoString | .ok _ => false) = true := by decide +kernel

/-! ### sen.Tokenizer -/

/-- **C06 (SEN tokenizer)**: the sen.Tokenizer machine never ends in a run-time fault or in the no-progress
state — over every table set that passes `TablesOK`, every configuration of the tokenizer profile, every
prior instance state, input and chunking -/
theorem tokenizer_never_faults {T : Tables} (hT : TablesOK T) (cfg : Cfg) (ht : cfg.tokenizer = true)
    (prev : St) (chunks : List Bytes) (e : Err) (h : call T cfg prev chunks = .error e) : e.kind.isFault = false := by
  rw [call_eq_ref hT] at h
  exact call_quiet_tok_ref cfg ht prev chunks e h

/-- the same over the regenerated `sen/maps.go` -/
theorem tokenizer_never_faults_sen (cfg : Cfg) (ht : cfg.tokenizer = true) (prev : St) (chunks : List Bytes)
    (e : Err) (h : call senTables cfg prev chunks = .error e) : e.kind.isFault = false :=
  tokenizer_never_faults senTables_ok cfg ht prev chunks e h

/-! ### before 285bbf9 -/

/-- BEFORE 285bbf9 (any configuration): on an instance without a pending `+`, a call that ends in a
run-time fault has read a `+` in value position before (mark `p`) -/
theorem no_fault_without_plus_before {T : Tables} (hT : TablesOK T) (cfg : Cfg) (hc : cfg.tokenizer = false)
    (prev : St) (hp : prev.plus = false) (chunks : List Bytes) (e : Err)
    (h : call T cfg prev chunks = .error e) (w : String) (hw : e.kind = .fault w) : 'p' ∈ e.feat := by
  rw [call_eq_ref hT] at h
  exact (call_safe_ref cfg hc prev (fun _ => hp) chunks e h w hw).2

/-- BEFORE 285bbf9 `[1 + "x"]` faulted: the `+` branch of `addString` asserted that the previous value
is a string (finding C06sen-plus-panic) -/
theorem never_faults_before_false : ¬ never_faults_full { plusFault := true } := by
  intro h
  have := h [[91, 49, 32, 43, 32, 34, 120, 34, 93]]
  revert this
  decide +kernel

/-- and that run carried the mark -/
example : (match run senTables { plusFault := true } [[91, 49, 32, 43, 32, 34, 120, 34, 93]] with
    | .error e => e.kind.isFault && e.feat.contains 'p' | .ok _ => false) = true := by decide +kernel

end OjgVerif.C06sen
