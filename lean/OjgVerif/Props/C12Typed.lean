import OjgVerif.Props.C12
/-! # C12, round 3 — typed Go operands, the comparability test of `sameValue`, the bare/multi/normal decision

The operand kinds of the model were extended by `Val.ext` (typed Go values as the script code sees them: a
dynamic type, whether that type is comparable, the value's `==` class, and what normalisation makes of it —
`Script/Num.lean`). Every theorem of `Props/C12.lean` is stated for ALL `Val` and therefore now covers typed
containers (`[]int`, `map[string]int`, a struct with a slice field, `gen.Array`, …), comparable typed scalars
(named int/string types, arrays, pointers) and the normalised kinds (int8 … uint64, float32, gen scalars).
This file adds what is specific to them:

* `sameValue` as the code has it (reflect `Comparable()` on the left operand's type, then raw `==`), with the
  raw `==` fault as an explicit outcome, proved unreachable; the general statement that a guard is safe
  EXACTLY when it catches every uncomparable kind (a fixed type list does not: `type_list_guard_faults`);
* `==`/`!=`/`in` on typed containers and typed scalars; normalisation;
* the bare → multi → normal order of `evalWithRoot`'s verdict, the existence rule for a filter that is only a
  path (`bare_filter_keeps`), and that testing multi first (seeded change C12-m8) gives a different verdict;
* two source ties: `verdict_order_ok`, `same_value_shape_ok`. -/
namespace OjgVerif.C12
open OjgVerif OjgVerif.Script

/-! ## source ties -/

/-- `evalWithRoot` decides the verdict by `if bare {existence} else if multi {expansion} else {evalStack}`, in
this order (regenerated from jp/script.go; an if-chain or a tagless switch is read alike) — the order
`matchElem` has -/
theorem verdict_order_ok :
    Gen.Script.verdictBranches = [("bare", "existence"), ("multi", "expand"), ("else", "eval")] := by decide

/-- `sameValue` tests `!lt.Comparable()` on `lt := reflect.TypeOf(left)` (→ `return false`), contains no type
switch or type assertion (no list of types), and a raw `left == right` after the guard — the shape of
`Script.sameValue` -/
theorem same_value_shape_ok :
    Gen.Script.svReflectGuard = true ∧ Gen.Script.svTypeTests = 0 ∧ 1 ≤ Gen.Script.svRawEq := by decide

/-- which constructor of `Script.Core` a Go type of the normalisation switch corresponds to -/
def coreOfType : String × String → Option String
  | ("int", "int64") | ("int8", "int64") | ("int16", "int64") | ("int32", "int64") => some "sint"
  | ("uint", "int64") | ("uint8", "int64") | ("uint16", "int64") | ("uint32", "int64") | ("uint64", "int64") => some "uint"
  | ("float32", "float64") => some "f32"
  | ("gen.Bool", "bool") => some "gbool"
  | ("gen.String", "string") => some "gstr"
  | ("gen.Int", "int64") => some "gint"
  | ("gen.Float", "float64") => some "gflt"
  | _ => none

/-- the `Normalize:` switch of `evalWithRoot` and the function `normalize` convert the same fourteen types in
the same way, each is a constructor of `Core` with the conversion `Val.norm` has (`int64(x)` for every integer
width incl. the wrapping unsigned ones, `float64(x)`, `bool(x)`, `string(x)`), and every constructor occurs -/
theorem normalize_types_ok :
    Gen.Script.normSwitch = Gen.Script.normFn ∧
    (Gen.Script.normSwitch.map coreOfType).all Option.isSome = true ∧
    (Gen.Script.normSwitch.map coreOfType).eraseDups =
      [some "sint", some "uint", some "f32", some "gbool", some "gstr", some "gint", some "gflt"] ∧
    Gen.Script.normSwitch.length = 14 := by decide

/-! ## `sameValue`: the comparable-test as the code has it -/

/-- a typed value is well formed when "`==` is safe on it" implies "its type is comparable" (true of every Go
value) -/
def wfExt : Val → Bool
  | .ext e => !e.cmp || e.tcmp
  | _ => true

/-- the model's interface comparison IS raw `==` before 0a3fd2c, `sameValue` (reflect guard on the TYPE of the
left operand, then raw `==`) in the current code, and `sameValueFix` with the proposed repair of
C12-iface-field-panic -/
theorem ifaceEq_eq_sameValue (d : Dev) (l r : Val) (hl : wfExt l = true) :
    ifaceEq d l r = if d.uncmp then goEq l r else if d.ifaceTrap then sameValue l r else sameValueFix l r := by
  cases hu : d.uncmp <;> cases ht : d.ifaceTrap <;> cases l <;> cases r <;>
    simp [ifaceEq, goEq, sameValue, sameValueFix, comparable, eqSafe, hu, ht]
  all_goals (rename_i a b; simp only [wfExt] at hl; by_cases h1 : a.ty = b.ty <;> cases h2 : a.cmp <;> cases h3 : a.tcmp <;> simp_all)

/-- raw Go `==` faults exactly on two operands of the same uncomparable dynamic type — two `[]any`, two
`map[string]any`, two typed values of one kind on which `==` is unsafe -/
theorem goEq_fault_iff (l r : Val) : (∃ f, goEq l r = .error f) ↔ sameContainer l r = true := by
  cases l <;> cases r <;> simp [goEq, sameContainer, isArr, isObj, sameUExt]
  case ext.ext a b => by_cases h1 : a.ty = b.ty <;> cases h2 : a.cmp <;> simp [h1]

/-- a guarded comparison with an arbitrary guard -/
def sameValueBy (guard : Val → Bool) (l r : Val) : Except Fault Bool :=
  if guard l then .ok false else goEq l r

theorem sameValue_eq_by : sameValue = sameValueBy (fun v => !comparable v) := rfl
theorem sameValueFix_eq_by : sameValueFix = sameValueBy (fun v => !comparable v || !eqSafe v) := rfl

/-- A guard makes the comparison total EXACTLY when it catches every kind of left operand on which `==` is
unsafe. -/
theorem guard_total_iff (guard : Val → Bool) :
    (∀ l r, ∃ b, sameValueBy guard l r = .ok b) ↔ ∀ l, isContainer l = true → guard l = true := by
  constructor
  · intro h l hl
    cases hg : guard l
    · exfalso
      obtain ⟨b, hb⟩ := h l l
      have hs : sameContainer l l = true := by
        cases l <;> simp_all [isContainer, isArr, isObj, isUExt, sameContainer, sameUExt]
      obtain ⟨f, hf⟩ := (goEq_fault_iff l l).2 hs
      simp [sameValueBy, hg, hf] at hb
    · rfl
  · intro h l r
    cases hg : guard l
    · have hl : isContainer l = false := by
        cases hc : isContainer l
        · rfl
        · rw [h l hc] at hg; cases hg
      cases hq : goEq l r with
      | ok b => exact ⟨b, by simp [sameValueBy, hg, hq]⟩
      | error f =>
        have := (goEq_fault_iff l r).1 ⟨f, hq⟩
        rw [sameContainer_noncontainer l r hl] at this
        cases this
    · exact ⟨false, by simp [sameValueBy, hg]⟩

theorem eqSafe_eq (v : Val) : eqSafe v = !isContainer v := by
  cases v <;> simp [eqSafe, isContainer, isArr, isObj, isUExt]

def sameValue_total_full : Prop := ∀ l r, ∃ b, sameValue l r = .ok b

/-- finding C12-iface-field-panic: the reflect guard looks at the TYPE; a value whose type is comparable
although `==` on it is unsafe (`struct{X any}{[]int{1}}`) reaches the raw `==` -/
theorem sameValue_total_full_false : ¬ sameValue_total_full := by
  intro h
  rw [sameValue_total_full, sameValue_eq_by, guard_total_iff] at h
  have := h trapVal rfl
  simp [comparable, trapVal] at this

/-- behind the reflect guard the fault of the raw `==` is unreachable for every left operand whose type
comparability tells the truth about `==` (everything but the values of that finding): JSON-like values, typed
containers, typed scalars, pointers, arrays and structs without interface-typed fields -/
theorem sameValue_total_partial (l r : Val) (hl : isContainer l = true → comparable l = false) :
    ∃ b, sameValue l r = .ok b := by
  cases hq : goEq l r with
  | ok b =>
    unfold sameValue
    split
    · exact ⟨false, rfl⟩
    · exact ⟨b, hq⟩
  | error f =>
    have hs := (goEq_fault_iff l r).1 ⟨f, hq⟩
    have hc : isContainer l = true := by
      cases hc : isContainer l
      · rw [sameContainer_noncontainer l r hc] at hs; cases hs
      · rfl
    exact ⟨false, by simp [sameValue, hl hc]⟩

example : isContainer (.ext ⟨40, false, 0, .none, false⟩) = true → comparable (.ext ⟨40, false, 0, .none, false⟩) = false := fun _ => rfl

/-- with the proposed fix the comparison is total for ALL operands -/
theorem sameValueFix_total (l r : Val) : ∃ b, sameValueFix l r = .ok b := by
  rw [sameValueFix_eq_by]
  exact (guard_total_iff _).2 (fun l hl => by simp [eqSafe_eq, hl]) l r

/-- and it computes the specified same-kind equality -/
theorem sameValueFix_spec (l r : Val) (hl : wfExt l = true) : sameValueFix l r = .ok (Spec.same l r) := by
  have := ifaceEq_eq_sameValue Dev.fixed l r hl
  rw [ifaceEq_fixed] at this
  simpa [Dev.fixed] using this.symm

/-- so does the current `sameValue` outside the finding's class -/
theorem sameValue_spec (l r : Val) (hl : wfExt l = true) (ht : isContainer l = true → comparable l = false) :
    sameValue l r = .ok (Spec.same l r) := by
  rw [← sameValueFix_spec l r hl]
  unfold sameValue sameValueFix
  cases hc : comparable l
  · rfl
  · have : isContainer l = false := by
      cases hi : isContainer l
      · rfl
      · rw [ht hi] at hc; cases hc
    simp [eqSafe_eq, this]

/-- the guard of the seeded change C12-m7: a fixed list of container types (`[]any`, `map[string]any`; the
`gen` containers are typed values here) -/
def typeListGuard (v : Val) : Bool := isArr v || isObj v

/-- … is not total: two values of one uncomparable typed kind (two `[]int`) reach the raw `==` -/
theorem type_list_guard_faults :
    ¬ ∀ l r, ∃ b, sameValueBy typeListGuard l r = .ok b := by
  rw [guard_total_iff]
  intro h
  have := h (.ext ⟨40, false, 0, .none, false⟩) rfl
  simp [typeListGuard, isArr, isObj] at this

/-! ## operators on typed operands -/

/-- `==` on a container of any kind — in particular a typed container against itself — is `false`, `!=` is
`true`, for the current code (since 6d0c31a also for a struct/array holding a slice in an interface field);
never a fault -/
theorem eq_neq_container (rx : RxEngine) (l r : Val) (hl : isContainer l = true) :
    evalOp Dev.current rx .eq l r = .ok (.bool false) ∧ evalOp Dev.current rx .neq l r = .ok (.bool true) := by
  rw [evalOp_current rx .eq l r, evalOp_current rx .neq l r]
  cases l <;> simp_all [isContainer, isArr, isObj, isUExt, Spec.evalOp, Spec.eqv, Spec.num?]
  case ext a => cases r <;> simp_all [Spec.sameExt]

example : isContainer (.ext ⟨40, false, 0, .none, false⟩) = true ∧ isContainer trapVal = true := ⟨rfl, rfl⟩

/-- two typed values are equal exactly when they are the same value of the same type on which `==` is safe -/
theorem eq_typed (rx : RxEngine) (a b : Ext) :
    evalOp Dev.current rx .eq (.ext a) (.ext b) = .ok (.bool (a.ty == b.ty && a.cmp && a.id == b.id)) := by
  rw [evalOp_current rx .eq (.ext a) (.ext b)]
  rfl

/-- a typed value never equals a JSON-like value (`myInt(1) == 1` is false), in either order -/
theorem eq_typed_plain (rx : RxEngine) (a : Ext) (r : Val) (hr : ∀ b, r ≠ .ext b) :
    evalOp Dev.current rx .eq (.ext a) r = .ok (.bool false) ∧ evalOp Dev.current rx .eq r (.ext a) = .ok (.bool false) := by
  rw [evalOp_current rx .eq _ _, evalOp_current rx .eq _ _]
  cases r <;> simp_all [Spec.evalOp, Spec.eqv, Spec.num?]

example : ∀ b, Val.int 1 ≠ .ext b := by intro b h; cases h

/-- ordering, size, truth of an un-normalised typed value: always the "other kind" answer -/
theorem typed_other_kind (rx : RxEngine) (a : Ext) (r : Val) :
    evalOp Dev.current rx .lt (.ext a) r = .ok (.bool false) ∧
    evalOp Dev.current rx .lte (.ext a) r = .ok (.bool false) ∧
    evalOp Dev.current rx .gt (.ext a) r = .ok (.bool false) ∧
    evalOp Dev.current rx .gte (.ext a) r = .ok (.bool false) ∧
    evalOp Dev.current rx .length (.ext a) r = .ok .nothing ∧
    evalOp Dev.current rx .not (.ext a) r = .ok (.bool true) ∧
    evalOp Dev.current rx .exists (.ext a) (.bool true) = .ok (.bool true) := by
  simp [evalOp, ordering, asBool]

/-- normalisation: what a path operand of a sized number type or a gen scalar is compared as -/
theorem norm_cases (ty id : Nat) (c : Bool) :
    (Val.ext ⟨ty, c, id, .sint 5, c⟩).norm = .int 5 ∧
    (Val.ext ⟨ty, c, id, .uint 9223372036854775808, c⟩).norm = .int (-9223372036854775808) ∧
    (Val.ext ⟨ty, c, id, .f32 (.fin 3 (-1)), c⟩).norm = .flt (.fin 3 (-1)) ∧
    (Val.ext ⟨ty, c, id, .gbool true, c⟩).norm = .bool true ∧
    (Val.ext ⟨ty, c, id, .gstr [97], c⟩).norm = .str [97] ∧
    (Val.ext ⟨ty, c, id, .none, c⟩).norm = .ext ⟨ty, c, id, .none, c⟩ := by
  refine ⟨rfl, ?_, rfl, rfl, rfl, rfl⟩
  simp [Val.norm, wrap64]

/-- normalisation is idempotent and leaves JSON-like values alone -/
theorem norm_idem (v : Val) : v.norm.norm = v.norm := by
  cases v <;> try rfl
  case ext e =>
    simp only [Val.norm]
    cases h : e.core <;> simp [h]

/-! ## the bare → multi → normal decision -/

/-- A filter that is only a path keeps an element exactly when the path selects at least one value on it —
whatever the values are (`false`, `null`, several values none of which is `true`, typed values …). The only
hypothesis: the data does not hold the `Nothing` marker itself. -/
theorem bare_verdict (d : Dev) (rx : RxEngine) (p : Path) (elem root : Val) (h : NoNothing (Spec.sel p elem root)) :
    matchElem d rx [.path p] elem root = .ok (!(Spec.sel p elem root).isEmpty) := by
  simp only [matchElem, resolveItem, Bool.false_eq_true, ↓reduceIte]
  unfold NoNothing at h
  cases hn : Spec.Path.normal p
  · cases hs : Spec.sel p elem root with
    | nil => simp
    | cons v r =>
      rw [hs] at h
      have hv' := (norm_present v).trans (h v (by simp))
      cases r with
      | nil =>
        simp only [List.isEmpty_cons, Bool.not_false]
        generalize v.norm = x at hv'
        cases x <;> simp_all
      | cons w r' => simp
  · cases hs : Spec.sel p elem root with
    | nil => simp
    | cons v r =>
      rw [hs] at h
      have hv' := (norm_present v).trans (h v (by simp))
      simp only [↓reduceIte, List.isEmpty_cons, Bool.not_false]
      generalize v.norm = x at hv'
      cases x <;> simp_all

/-- … so `$[?(path)]` returns, in order, exactly the elements on which the path selects something -/
theorem bare_filter_keeps (d : Dev) (rx : RxEngine) (p : Path) (root : Val) (xs : List Val)
    (h : ∀ e ∈ xs, NoNothing (Spec.sel p e root)) :
    filterList d rx [.path p] root xs = .ok (xs.filter fun e => !(Spec.sel p e root).isEmpty) := by
  induction xs with
  | nil => rfl
  | cons e rest ih =>
    have ih' := ih (fun e' he' => h e' (by simp [he']))
    simp only [filterList, ih', bare_verdict d rx p e root (h e (by simp)), List.filter_cons]

/-- non-trivial instance: `@.a[*]` on `{"a":[false,null]}` selects two values, neither of them `true` -/
example : NoNothing (Spec.sel ⟨false, [.child [97], .wild]⟩ (.obj [([97], .arr [.bool false, .null])]) .null) ∧
    matchElem Dev.current rx0 [.path ⟨false, [.child [97], .wild]⟩] (.obj [([97], .arr [.bool false, .null])]) .null = .ok true := by
  refine ⟨?_, rfl⟩
  intro v hv
  have : Spec.sel ⟨false, [.child [97], .wild]⟩ (.obj [([97], .arr [.bool false, .null])]) .null = [.bool false, .null] := rfl
  rw [this] at hv
  simp at hv
  rcases hv with rfl | rfl <;> rfl

/-- the per-element verdict with the two tests in the OTHER order (seeded change C12-m8): multi-valued
operands first, the bare test second -/
def matchElemMultiFirst (d : Dev) (rx : RxEngine) (prog : List Item) (elem root : Val) : Except Fault Bool :=
  let st := resolve elem root false prog
  if hasMulti st then tryCombos d rx st (combos st) 0
  else matchElem d rx prog elem root

/-- the order matters: on `{"a":[1,2]}` the bare filter `@.a[*]` keeps the element, the multi-first variant
drops it (no combination evaluates to `true`) -/
theorem multi_first_differs :
    ∃ prog elem, matchElem Dev.current rx0 prog elem .null = .ok true ∧
      matchElemMultiFirst Dev.current rx0 prog elem .null = .ok false :=
  ⟨[.path ⟨false, [.child [97], .wild]⟩], .obj [([97], .arr [.int 1, .int 2])], rfl, rfl⟩

/-- the two orders agree whenever the template is not a bare path, or the bare path is not multi-valued on
the element -/
theorem multi_first_same (d : Dev) (rx : RxEngine) (prog : List Item) (elem root : Val)
    (h : hasMulti (resolve elem root false prog) = false) :
    matchElemMultiFirst d rx prog elem root = matchElem d rx prog elem root := by
  simp [matchElemMultiFirst, h]

/-! ## before 6d0c31a: a sufficient condition on the data for `TrapFree` -/

/-- a value of the finding's class: its type is comparable, `==` on it is not safe -/
def isTrap (v : Val) : Bool := passesGuard v && isContainer v

theorem devHit_before_6d0c31a (o : Op) (l r : Val) (h : isTrap l = false) : devHit Dev.before6d0c31a o l r = false := by
  have hu : (passesGuard l && uncomparablePair o l r) = false := by
    cases hp : passesGuard l
    · rfl
    · have hc : isContainer l = false := by simpa [isTrap, hp] using h
      have hs : ∀ y, sameContainer l y = false := fun y => sameContainer_noncontainer l y hc
      cases o <;> simp [uncomparablePair, hs]
      cases r <;> simp [hs]
  simp [devHit, Dev.faultFlag, Dev.before6d0c31a, hu]

theorem evalOp_not_trap (rx : RxEngine) (o : Op) (l r : Val) (h : isTrap l = false) :
    isTrap (Spec.evalOp rx o l r) = false := by
  have nt : ∀ v : Val, (∀ e, v ≠ .ext e) → isTrap v = false := by
    intro v hv; cases v <;> simp_all [isTrap, passesGuard]
  cases o <;> simp only [Spec.evalOp] <;> try exact h
  all_goals first
    | rfl
    | (apply nt; intro e he; revert he
       first
        | (simp only [Spec.arith]; repeat' split) <;> simp [Spec.arithInt, Spec.arithFlt] <;> (repeat' split) <;> simp
        | (repeat' split) <;> simp)


def noTrapTm : Tm → Bool
  | .const v => !isTrap v
  | .path _ => true
  | .app1 _ a => noTrapTm a
  | .app2 _ a b => noTrapTm a && noTrapTm b

theorem eval_not_trap (rx : RxEngine) (t : Tm) : noTrapTm t = true → isTrap (Spec.eval rx t) = false := by
  induction t with
  | const v => intro h; simpa [noTrapTm, Spec.eval] using h
  | path p => intro _; rfl
  | app1 o a iha => intro h; exact evalOp_not_trap rx o _ _ (iha h)
  | app2 o a b iha _ => intro h; simp only [noTrapTm, Bool.and_eq_true] at h; exact evalOp_not_trap rx o _ _ (iha h.1)

theorem clean_of_noTrapTm (rx : RxEngine) (t : Tm) : noTrapTm t = true → Clean Dev.before6d0c31a rx t = true := by
  induction t with
  | const v => intro _; rfl
  | path p => intro _; rfl
  | app1 o a iha =>
    intro h
    simp only [Clean, Bool.and_eq_true, Bool.not_eq_eq_eq_not, Bool.not_true]
    exact ⟨iha h, devHit_before_6d0c31a o _ _ (eval_not_trap rx a h)⟩
  | app2 o a b iha ihb =>
    intro h
    simp only [noTrapTm, Bool.and_eq_true] at h
    by_cases hc : o.cnt = 1
    · simp only [Clean, hc, ↓reduceIte, Bool.and_eq_true, Bool.not_eq_eq_eq_not, Bool.not_true]
      exact ⟨iha h.1, devHit_before_6d0c31a o _ _ (eval_not_trap rx a h.1)⟩
    · simp only [Clean, hc, ↓reduceIte, Bool.and_eq_true, Bool.not_eq_eq_eq_not, Bool.not_true]
      exact ⟨⟨iha h.1, ihb h.2⟩, devHit_before_6d0c31a o _ _ (eval_not_trap rx a h.1)⟩

theorem norm_not_trap (v : Val) (h : isTrap v = false) : isTrap v.norm = false := by
  cases v <;> try exact h
  case ext e =>
    simp only [Val.norm]
    cases hc : e.core <;> first | rfl | (simpa [hc] using h)

/-- the data in play: no constant of the script and no value one of its paths selects is of the finding's
class (a struct/array value of comparable type holding a slice or map in an interface-typed field) -/
def noTrapIn (elem root : Val) : Tm → Prop
  | .const v => isTrap v = false
  | .path p => ∀ v ∈ Spec.sel p elem root, isTrap v = false
  | .app1 _ a => noTrapIn elem root a
  | .app2 _ a b => noTrapIn elem root a ∧ noTrapIn elem root b

theorem choices_noTrap (elem root : Val) (t : Tm) :
    noTrapIn elem root t → ∀ c ∈ Spec.choices elem root t, noTrapTm c = true := by
  induction t with
  | const v =>
    intro h c hc
    simp only [Spec.choices, List.mem_singleton] at hc
    subst hc
    simpa [noTrapTm, noTrapIn] using h
  | path p =>
    intro h c hc
    simp only [Spec.choices, List.mem_map] at hc
    obtain ⟨v, hv, rfl⟩ := hc
    simp only [noTrapTm, Bool.not_eq_eq_eq_not, Bool.not_true]
    simp only [noTrapIn] at h
    unfold Spec.candidates at hv
    cases hs : Spec.sel p elem root with
    | nil => rw [hs] at hv; simp at hv; subst hv; rfl
    | cons w r =>
      rw [hs] at hv h
      by_cases hn : Spec.Path.normal p = true
      · simp only [hn, ↓reduceIte, List.mem_singleton] at hv
        subst hv
        exact norm_not_trap w (h w (by simp))
      · simp only [hn, Bool.false_eq_true, ↓reduceIte, List.mem_map] at hv
        obtain ⟨u, hu, rfl⟩ := hv
        exact norm_not_trap u (h u hu)
  | app1 o a iha =>
    intro h c hc
    simp only [Spec.choices] at hc
    by_cases hco : o = .count
    · subst hco
      simp only [↓reduceIte] at hc
      cases a with
      | path p => simp only [List.mem_singleton] at hc; subst hc; rfl
      | const v => simp only [List.mem_singleton] at hc; subst hc; rfl
      | app1 o' a' => simp only [List.mem_singleton] at hc; subst hc; rfl
      | app2 o' a' b' => simp only [List.mem_singleton] at hc; subst hc; rfl
    · simp only [hco, ↓reduceIte, List.mem_map] at hc
      obtain ⟨c', hc', rfl⟩ := hc
      exact iha h c' hc'
  | app2 o a b iha ihb =>
    intro h c hc
    simp only [Spec.choices, List.mem_flatMap, List.mem_map] at hc
    obtain ⟨a', ha', b', hb', rfl⟩ := hc
    simp only [noTrapTm, Bool.and_eq_true]
    exact ⟨iha h.1 a' ha', ihb h.2 b' hb'⟩

theorem noTrapIn_normalise (elem root : Val) (t : Tm) (h : noTrapIn elem root t) :
    noTrapIn elem root (Spec.normalise t) := by
  cases t with
  | path p => exact ⟨h, rfl⟩
  | const v => exact h
  | app1 o a => exact h
  | app2 o a b => exact h

/-- sufficient condition on the DATA for the hypothesis `TrapFree`: no constant of the script and no value one
of its paths selects is of the finding's class -/
theorem trapFree_of_data (rx : RxEngine) (t : Tm) (elem root : Val) (h : noTrapIn elem root t) :
    TrapFree rx t elem root :=
  fun c hc => clean_of_noTrapTm rx c (choices_noTrap elem root _ (noTrapIn_normalise elem root t h) c hc)

/-- hence: on data without such values Script.Match of every well-formed script is the specified verdict -/
theorem script_spec_before_6d0c31a_of_data (rx : RxEngine) (t : Tm) (hwf : t.wf = true) (elem root : Val)
    (h : noTrapIn elem root t) :
    matchElem Dev.before6d0c31a rx (compile true t) elem root = .ok (Spec.matches rx t elem root) :=
  script_spec_before_6d0c31a_partial rx t hwf elem root (trapFree_of_data rx t elem root h)

/-- non-trivial instance: `@.a == @.b` where both members are `[]int` (typed containers are not of the class) -/
example : noTrapIn (.obj [([97], .ext ⟨40, false, 0, .none, false⟩), ([98], .ext ⟨40, false, 1, .none, false⟩)]) .null
    (.app2 .eq (.path ⟨false, [.child [97]]⟩) (.path ⟨false, [.child [98]]⟩)) := by
  refine ⟨?_, ?_⟩ <;> intro v hv
  · have : Spec.sel ⟨false, [.child [97]]⟩ (.obj [([97], .ext ⟨40, false, 0, .none, false⟩), ([98], .ext ⟨40, false, 1, .none, false⟩)]) .null
        = [.ext ⟨40, false, 0, .none, false⟩] := rfl
    rw [this] at hv; simp at hv; subst hv; rfl
  · have : Spec.sel ⟨false, [.child [98]]⟩ (.obj [([97], .ext ⟨40, false, 0, .none, false⟩), ([98], .ext ⟨40, false, 1, .none, false⟩)]) .null
        = [.ext ⟨40, false, 1, .none, false⟩] := rfl
    rw [this] at hv; simp at hv; subst hv; rfl

end OjgVerif.C12
