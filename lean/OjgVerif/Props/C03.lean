import OjgVerif.Json.Lemmas
import OjgVerif.Json.Driver
import OjgVerif.Props.C01
/-! # C03 — all parsing front-ends agree, however the input is chunked (model level)

`run T cfg chunks` is the model of one entry-point call whose reader delivers `chunks`.
* `chunks_irrelevant`: for a front-end without the parsers' integer fast loop (oj.Tokenizer,
  oj.Validator) the outcome depends only on the concatenation of the chunks — including the BOM
  top-up rule of the reader entry points.
* `frontends_agree`: the oj and gen table sets give the same outcome.
* `fastloop_chunk_dependent`: with the parsers' pinned integer fast loop the statement is FALSE
  (known findings C02-int19 / C03-int19); the witness is replayed against the Go code by the check. -/
namespace OjgVerif.C03
open OjgVerif OjgVerif.Json

variable (T : Tables) (cfg : Cfg)

theorem runBytes_append (s : St) (a b : Bytes) :
    runBytes T cfg s (a ++ b) =
      match runBytes T cfg s a with
      | .error e => .error e
      | .ok s' => runBytes T cfg s' b := by
  induction a generalizing s with
  | nil => rfl
  | cons x r ih =>
    simp only [List.cons_append, runBytes]
    split
    · rfl
    · exact ih _

/-- without the fast loop the flag `inFast` is never set -/
theorem step_inFast (h : cfg.fastInt = false) (s s' : St) (b : UInt8) (hs : s.inFast = false)
    (hst : step T cfg s b = .ok s') : s'.inFast = false := by
  unfold step at hst
  split at hst
  · cases hst
  · rename_i s1 cont h1
    simp only [Except.ok.injEq] at hst
    subst hst
    simp only
    have hd : ∀ x : St, (deliver T cfg x).inFast = x.inFast := by
      intro x; unfold deliver; split <;> rfl
    unfold stepAct at h1
    split <;> rename_i hact
    · -- numDigit
      rw [hact] at h1
      simp only [Except.ok.injEq, Prod.mk.injEq] at h1
      obtain ⟨rfl, rfl⟩ := h1
      simp [hd, hs]
    · -- valDigit
      rw [hact] at h1
      simp only [Except.ok.injEq, Prod.mk.injEq] at h1
      obtain ⟨rfl, rfl⟩ := h1
      simp [hd, h]
    · rfl

theorem runBytes_inFast (h : cfg.fastInt = false) (bs : Bytes) (s s' : St) (hs : s.inFast = false)
    (hst : runBytes T cfg s bs = .ok s') : s'.inFast = false := by
  induction bs generalizing s with
  | nil => cases hst; exact hs
  | cons b r ih =>
    simp only [runBytes] at hst
    split at hst
    · cases hst
    · rename_i s1 h1
      exact ih s1 (step_inFast T cfg h s s1 b hs h1) hst

theorem runChunks_eq_join (h : cfg.fastInt = false) (cs : List Bytes) (s : St) (hs : s.inFast = false) :
    runChunks T cfg s cs = runBytes T cfg s cs.flatten := by
  induction cs generalizing s with
  | nil => rfl
  | cons c r ih =>
    simp only [runChunks, List.flatten_cons, runBytes_append]
    cases h1 : runBytes T cfg s c with
    | error e => rfl
    | ok s1 =>
      simp only
      have h2 := runBytes_inFast T cfg h c s s1 hs h1
      have : ({ s1 with inFast := false } : St) = s1 := by
        cases s1; simp_all
      rw [this]
      exact ih s1 h2

theorem topUpAux_flatten (acc : Bytes) (cs : List Bytes) : (topUpAux acc cs).flatten = acc ++ cs.flatten := by
  induction cs generalizing acc with
  | nil => simp [topUpAux]
  | cons d r ih =>
    simp only [topUpAux]
    split
    · rw [ih]; simp
    · simp

/-- the first buffer after the top-up is the whole input, or is long enough for the BOM test, or does
not start with 0xEF -/
theorem topUpAux_head (acc : Bytes) (hacc : acc ≠ []) (cs : List Bytes) :
    ∃ c rest, topUpAux acc cs = c :: rest ∧ c ≠ [] ∧ (rest = [] ∨ 4 ≤ c.length ∨ c.head? ≠ some 0xEF) := by
  induction cs generalizing acc with
  | nil => exact ⟨acc, [], rfl, hacc, Or.inl rfl⟩
  | cons d r ih =>
    simp only [topUpAux]
    split
    · exact ih _ (by simp [hacc])
    · rename_i hc
      refine ⟨acc, d :: r, rfl, hacc, Or.inr ?_⟩
      simp only [Bool.and_eq_true, decide_eq_true_eq, not_and] at hc
      by_cases hl : acc.length < 4
      · exact Or.inr (hc hl)
      · exact Or.inl (by omega)

/-- the reader BOM rule only looks at the first four bytes -/
theorem bomRuleReader_append (c d : Bytes) (hne : c ≠ []) (h : 4 ≤ c.length ∨ c.head? ≠ some 0xEF) :
    (match bomRuleReader c with
      | .strip r => BomRes.strip (r ++ d)
      | .keep => BomRes.keep
      | .bad => BomRes.bad) = bomRuleReader (c ++ d) := by
  match c, hne, h with
  | [], hne, _ => exact absurd rfl hne
  | [b0], _, h =>
    rcases h with h | h
    · simp at h
    · have : b0 ≠ 0xEF := by simpa using h
      unfold bomRuleReader
      split <;> simp_all
  | [b0, b1], _, h =>
    rcases h with h | h
    · simp at h
    · have : b0 ≠ 0xEF := by simpa using h
      unfold bomRuleReader
      split <;> simp_all
  | [b0, b1, b2], _, h =>
    rcases h with h | h
    · simp at h
    · have : b0 ≠ 0xEF := by simpa using h
      unfold bomRuleReader
      split <;> simp_all
  | b0 :: b1 :: b2 :: b3 :: r, _, _ =>
    by_cases hb : b0 = 0xEF ∧ b1 = 0xBB ∧ b2 = 0xBF
    · obtain ⟨rfl, rfl, rfl⟩ := hb
      simp [bomRuleReader]
    · have h1 : bomRuleReader (b0 :: b1 :: b2 :: b3 :: r) = .keep := by
        unfold bomRuleReader
        split
        · rename_i heq; simp only [List.cons.injEq] at heq; exact absurd ⟨heq.1, heq.2.1, heq.2.2.1⟩ hb
        · rfl
      have h2 : bomRuleReader (b0 :: b1 :: b2 :: b3 :: r ++ d) = .keep := by
        unfold bomRuleReader
        split
        · rename_i heq; simp only [List.cons_append, List.cons.injEq] at heq; exact absurd ⟨heq.1, heq.2.1, heq.2.2.1⟩ hb
        · rfl
      rw [h1, h2]

theorem flatten_filter_nonempty (cs : List Bytes) : (cs.filter (!·.isEmpty)).flatten = cs.flatten := by
  induction cs with
  | nil => rfl
  | cons c r ih =>
    cases c with
    | nil => simpa using ih
    | cons b t => simp [ih]

theorem filter_nonempty_mem (cs : List Bytes) : ∀ c ∈ cs.filter (!·.isEmpty), c ≠ [] := by
  intro c hc
  have := (List.mem_filter.mp hc).2
  intro h; subst h; simp at this

/-- tail of an entry-point call once the BOM decision is made -/
def afterBom (T : Tables) (cfg : Cfg) (cs : List Bytes) : Except Err (List JV) :=
  match runChunks T cfg {} cs with
  | .error e => .error e
  | .ok s => finish T s

theorem afterBom_eq (h : cfg.fastInt = false) (cs : List Bytes) :
    afterBom T cfg cs = afterBom T cfg [cs.flatten] := by
  unfold afterBom
  rw [runChunks_eq_join T cfg h cs {} rfl, runChunks_eq_join T cfg h [cs.flatten] {} rfl]
  simp

/-- **Chunk independence** (reader entry points, front-ends without the parsers' integer fast loop):
the outcome — documents, values, error line/column/kind — depends only on the bytes delivered, not
on how the reader splits them (1-byte reads, splits inside tokens, a BOM spread over several reads). -/
theorem chunks_irrelevant (h : cfg.fastInt = false) (hr : cfg.reader = true) (chunks : List Bytes) :
    run T cfg chunks = run T cfg [chunks.flatten] := by
  have hrun : ∀ cs, run T cfg cs =
      match topUp (cs.filter (!·.isEmpty)) with
      | [] => finish T {}
      | c :: rest =>
        match bomRuleReader c with
        | .bad => .error { line := 1, col := 3, kind := .byte }
        | .strip r => afterBom T cfg (r :: rest)
        | .keep => afterBom T cfg (c :: rest) := by
    intro cs
    unfold run afterBom
    simp only [hr, ↓reduceIte]
    cases topUp (cs.filter (!·.isEmpty)) with
    | nil => rfl
    | cons c rest =>
      simp only
      cases bomRuleReader c <;> rfl
  rw [hrun, hrun]
  cases hf : chunks.filter (!·.isEmpty) with
  | nil =>
    have : chunks.flatten = [] := by rw [← flatten_filter_nonempty, hf]; rfl
    simp [this, topUp]
  | cons c0 cs0 =>
    have hc0 : c0 ≠ [] := filter_nonempty_mem chunks c0 (by rw [hf]; exact List.mem_cons_self)
    have hfl : chunks.flatten = c0 ++ cs0.flatten := by rw [← flatten_filter_nonempty, hf]; rfl
    obtain ⟨c, rest, htop, hcne, hprop⟩ := topUpAux_head c0 hc0 cs0
    have hjoin : c ++ rest.flatten = chunks.flatten := by
      have := topUpAux_flatten c0 cs0
      rw [htop] at this
      simpa [hfl] using this
    have hne : chunks.flatten ≠ [] := by rw [← hjoin]; simp [hcne]
    have hsingle : [chunks.flatten].filter (!·.isEmpty) = [chunks.flatten] := by
      cases hx : chunks.flatten with
      | nil => exact absurd hx hne
      | cons _ _ => rfl
    simp only [hsingle, topUp, topUpAux, htop]
    rcases hprop with hrest | hprop
    · subst hrest
      simp only [List.flatten_nil, List.append_nil] at hjoin
      rw [hjoin]
    · have hb := bomRuleReader_append c rest.flatten hcne hprop
      rw [hjoin] at hb
      rw [← hb]
      cases hbr : bomRuleReader c with
      | bad => rfl
      | keep =>
        simp only
        rw [afterBom_eq T cfg h (c :: rest), afterBom_eq T cfg h [chunks.flatten]]
        simp [hjoin]
      | strip r =>
        simp only
        rw [afterBom_eq T cfg h (r :: rest), afterBom_eq T cfg h [r ++ rest.flatten]]
        simp

/-- the oj and gen machines give the same outcome on every input and chunking -/
theorem frontends_agree (cfg : Cfg) (chunks : List Bytes) :
    run ojTables cfg chunks = run genTables cfg chunks := C01.oj_eq_gen cfg chunks

/-! ## The full statement is false for the parsers (known finding C03-int19) -/

/-- chunk independence for every configuration, including the parsers' integer fast loop -/
def chunks_irrelevant_full : Prop :=
  ∀ (cfg : Cfg) (chunks : List Bytes), cfg.reader = true →
    renderRun (run refTables cfg chunks) = renderRun (run refTables cfg [chunks.flatten])

/-- `9223372036854775807` -/
def lit19 : Bytes := [57, 50, 50, 51, 51, 55, 50, 48, 51, 54, 56, 53, 52, 55, 55, 53, 56, 48, 55]

/-- Witness: read in one piece the parser model returns the big-number text, read as `9` followed by
the other 18 digits it returns the int64. The check replays this input against oj.ParseReader. -/
theorem chunks_irrelevant_full_false : ¬ chunks_irrelevant_full := by
  intro h
  have := h { fastInt := true, reader := true } [[57], lit19.tail] rfl
  revert this
  decide +kernel

/-- non-vacuity of `chunks_irrelevant`: a configuration that meets its hypotheses (oj.Tokenizer.Load) -/
example : ({ reader := true } : Cfg).fastInt = false ∧ ({ reader := true } : Cfg).reader = true := ⟨rfl, rfl⟩

end OjgVerif.C03
