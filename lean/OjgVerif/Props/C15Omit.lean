import OjgVerif.Reflect.Lemmas
import OjgVerif.Props.C15
import OjgVerif.Reflect.EncOmit
import OjgVerif.Reflect.EncOmitAlt
import OjgVerif.Gen.ReflectEnc
/-! # C15 — OmitNil / OmitEmpty in the writers of oj and sen (model `Reflect/EncOmit.lean`)

The statements of `Props/C15.lean` have `OmitNil = OmitEmpty = false` as hypotheses. Here the two
options are READ by the model (`encodeO`), for the four plan-interpreting writers (oj tight and
indented, sen tight and indented; `oj.Marshal` and `oj.Write` are the tight/indented oj writer):

* `omit_tests_match_source`: every omit test of the model is the test REGENERATED from the source
  (`tools/extract/reflect_enc.go`): the kind switch and the nil-pointer prelude of `appendMap` /
  `tightMap`, the member type switch of the four object writers, the key take-back tests of
  `appendStruct` / `tightStruct`; sen's are oj's;
* `encodeO_off_eq_encode`: with both options off `encodeO` IS `encode` (so every theorem of
  `Props/C15.lean` speaks about `encodeO` too);
* `writers_oj_sen_agree_omit`: under EVERY option combination, the omit options included, oj and sen
  describe the same tree (code as it is, `Dev.current`);
* `tight_indent_agree_omit_current` (= `omit_tight_indent_full`, the FULL statement, true since /repo
  d7a5508): the tight and the indented writer describe the same tree under every option combination;
  `tight_indent_agree_omit_repaired` is the same about `encodeOWith false`; before d7a5508
  (`encodeOWith true`, finding `C15-omitnil-tight-empty-string`, fixed):
  `tight_indent_agree_omit_partial_before_d7a5508` (agreement except under `OmitNil` without
  `OmitEmpty`), `tight_indent_differ_witness_before_d7a5508`, `omit_tight_indent_full_before_d7a5508_false`
  (`map[string]string{"a": ""}`: the tight writer gave `{}`, the indented one `{"a":""}`);
  `tight_indent_agree_omit_partial` (the round-3 statement about `encodeO`) still holds.

* `alt_omitNil_is_dropNulls`, `alt_omitNil_eq_pruned_reference`: under `OmitNil` without `OmitEmpty`
  alt.Decompose (model `Reflect/EncOmitAlt.lean`) describes the tree it describes without the option —
  on untriggered runs the documented reference tree — less every object member whose value is null,
  hereditarily; `encodeA_off_eq_encode`, the witnesses `omit_oj_alt_differ_witness`,
  `omit_pretty_alt_differ_witness`, and `omit_tests_alt_pretty_match_source` are about the alt and
  pretty models; `pretty_alt_agree_omitNil`: under `OmitNil` without `OmitEmpty` pretty.JSON and
  alt.Decompose describe the same tree (under `OmitEmpty` they differ: the witness).

* `oj_omitNil_is_dropNulls_partial`: under `OmitNil` (not strict) the oj/sen writers describe the tree
  they describe without the option less its null members on every run that is `omitNilAligned` (meets
  no map, no pointer or interface whose content is written as null);
  `encoders_agree_current_omitNil_partial`: on such runs that are also `untriggered`, oj, sen,
  alt.Decompose and pretty.JSON ALL describe the reference tree less its null members.

Under `OmitEmpty`, and under `OmitNil` inside maps, the encoders differ (known finding
`C15-omit-options`, witnesses above) and no agreement is proved; the run compares `encodeO` with the six oj/sen entry points under all four
combinations of the two options (`harness/cmd/reflect/c15_omit.go`). -/
namespace OjgVerif.C15
open OjgVerif OjgVerif.Reflect

/-- the omit tests of the writers, as regenerated from the source -/
theorem omit_tests_match_source :
    Gen.ReflectEnc.ojAppendMapKinds =
      [("reflect.Struct", "-"), ("reflect.Slice, reflect.Array", "(wr.OmitNil || wr.OmitEmpty) && rm.Len() == 0"),
       ("reflect.Map", "(wr.OmitNil || wr.OmitEmpty) && rm.Len() == 0"), ("reflect.String", "(wr.OmitEmpty) && rm.Len() == 0"),
       ("default", "-")] ∧
    Gen.ReflectEnc.ojTightMapKinds =
      [("reflect.Struct", "-"), ("reflect.Slice, reflect.Array", "(wr.OmitNil || wr.OmitEmpty) && rm.Len() == 0"),
       ("reflect.Map", "(wr.OmitNil || wr.OmitEmpty) && rm.Len() == 0"),
       ("reflect.String", if omitTightNilCurrent then "(wr.OmitNil || wr.OmitEmpty) && rm.Len() == 0" else "wr.OmitEmpty && rm.Len() == 0"),
       ("default", "-")] ∧
    Gen.ReflectEnc.ojAppendMapPtr = ["rm.IsNil() | else { rm = rm.Elem() }", "wr.OmitNil -> continue"] ∧
    Gen.ReflectEnc.ojTightMapPtr = Gen.ReflectEnc.ojAppendMapPtr ∧
    Gen.ReflectEnc.ojAppendObjectCases =
      [("nil", "wr.OmitNil"), ("string", "wr.OmitEmpty && len(tm) == 0"), ("map[string]any", "wr.OmitEmpty && len(tm) == 0"),
       ("[]any", "wr.OmitEmpty && len(tm) == 0")] ∧
    Gen.ReflectEnc.ojAppendSortObjectCases = Gen.ReflectEnc.ojAppendObjectCases ∧
    Gen.ReflectEnc.ojTightObjectCases = Gen.ReflectEnc.ojAppendObjectCases ∧
    Gen.ReflectEnc.ojTightSortObjectCases = Gen.ReflectEnc.ojAppendObjectCases ∧
    Gen.ReflectEnc.ojAppendStructKinds =
      [("reflect.Ptr", "wr.OmitNil"), ("reflect.Interface", "wr.OmitNil && (*[2]uintptr)(unsafe.Pointer(&v))[1] == 0"),
       ("reflect.Struct", "-"), ("reflect.Slice, reflect.Array", "-"), ("reflect.Map", "-"), ("default", "-")] ∧
    Gen.ReflectEnc.ojTightStructKinds = Gen.ReflectEnc.ojAppendStructKinds ∧
    Gen.ReflectEnc.senAppendMapKinds = Gen.ReflectEnc.ojAppendMapKinds ∧
    Gen.ReflectEnc.senTightMapKinds = Gen.ReflectEnc.ojTightMapKinds ∧
    Gen.ReflectEnc.senAppendMapPtr = Gen.ReflectEnc.ojAppendMapPtr ∧
    Gen.ReflectEnc.senTightMapPtr = Gen.ReflectEnc.ojAppendMapPtr ∧
    Gen.ReflectEnc.senAppendObjectCases = Gen.ReflectEnc.ojAppendObjectCases ∧
    Gen.ReflectEnc.senAppendSortObjectCases = Gen.ReflectEnc.ojAppendObjectCases ∧
    Gen.ReflectEnc.senTightObjectCases = Gen.ReflectEnc.ojAppendObjectCases ∧
    Gen.ReflectEnc.senTightSortObjectCases = Gen.ReflectEnc.ojAppendObjectCases ∧
    Gen.ReflectEnc.senAppendStructKinds = Gen.ReflectEnc.ojAppendStructKinds ∧
    Gen.ReflectEnc.senTightStructKinds = Gen.ReflectEnc.ojAppendStructKinds := by
  decide +kernel

/-! ## with both options off the omit model is the model of `Props/C15.lean` -/

theorem fieldMemberO_off (q : Quirks) (o : Opts) (hn : o.omitNil = false) (enc : Bool → GoType → GoVal → JV)
    (sv : GoVal) (fi : Finfo) : fieldMemberO q o enc sv fi = fieldMember q enc sv fi := by
  unfold fieldMemberO fieldMember fieldNilDropped
  simp only [hn, Bool.false_and, Bool.false_eq_true, ↓reduceIte]
  rfl

theorem mapValDropped_off (o : Opts) (hn : o.omitNil = false) (he : o.omitEmpty = false) (v : GoVal) :
    mapValDropped o false v = false := by
  cases v <;> simp [mapValDropped, mapKindDropped, hn, he]

theorem objMemberDropped_off (o : Opts) (hn : o.omitNil = false) (he : o.omitEmpty = false) (v : GoVal) :
    objMemberDropped o v = false := by
  unfold objMemberDropped
  split <;> simp [hn, he]

theorem encValO_off (q : Quirks) (o : Opts) (hn : o.omitNil = false) (he : o.omitEmpty = false)
    (plan : Bool → List (FieldHdr × GoType) → List Finfo) :
    ∀ (vf : Nat) (vi ie oe : Bool) (t : GoType) (v : GoVal),
      encValO q o false plan vf vi ie oe t v = encVal q o plan vf vi ie oe t v := by
  intro vf
  induction vf with
  | zero => intro vi ie oe t v; rfl
  | succ n ih =>
    intro vi ie oe t v
    have ihf : ∀ (a b c : Bool) (e : GoType), encValO q o false plan n a b c e = encVal q o plan n a b c e := by
      intro a b c e; funext x; exact ih a b c e x
    have hcond : ∀ (e : GoType) (x : GoVal),
        (if isAnyMap vi e = true then objMemberDropped o x else mapValDropped o false x) = false := by
      intro e x
      split
      · exact objMemberDropped_off o hn he x
      · exact mapValDropped_off o hn he x
    cases t <;> cases v <;>
      simp only [encValO, encVal, ih, ihf, hcond, fieldMemberO_off q o hn, Bool.false_eq_true, ↓reduceIte,
        List.filterMap_eq_map']
    all_goals rfl

/-- with `OmitNil` and `OmitEmpty` off, `encodeO` is `encode` -/
theorem encodeO_off_eq_encode (e : Enc) (d : Dev) (o : Opts) (hn : o.omitNil = false) (he : o.omitEmpty = false)
    (tf vf : Nat) (t : GoType) (v : GoVal) : encodeO e d o tf vf t v = encode e d o tf vf t v := by
  have hs : strDropOf omitTightNilCurrent o = false := by simp [strDropOf, hn, he]
  unfold encodeO encodeOWith encode
  rw [hs]
  exact encValO_off _ o hn he _ vf true false false t v

/-! ## oj and sen agree under every option combination -/

/-- the code as it is: under every option combination — `OmitNil` and `OmitEmpty` included — the
writers of oj and sen (same indentation) describe the same tree -/
theorem writers_oj_sen_agree_omit (o : Opts) (tf vf : Nat) (t : GoType) (v : GoVal) :
    encodeO .oj Dev.current o tf vf t v = encodeO .sen Dev.current o tf vf t v := by
  have hp : planOf .oj Dev.current o tf = planOf .sen Dev.current o tf := by funext om0 fs; rfl
  have hq : quirksOf .oj Dev.current o = quirksOf .sen Dev.current o := by simp [quirksOf, Dev.current]
  unfold encodeO encodeOWith
  rw [hp, hq]

/-! ## the walker asks for nested plans under the caller's flag only -/

/-- Code as it is (no quirk hands an `omitempty` flag down: `nestedOmit = false`): the walker only
ever executes `plan false …`, the plan of a struct type built with the CALLER's `OmitEmpty` (`planOf`
adds `o.omitEmpty`), at every depth. This is the walker's side of `cache_history_independent`
(`Props/C15Cache.lean`): there, every node of the plan tree a lookup returns carries the caller's
flag; here, the tree written depends on the plan function only through that flag. -/
theorem walker_uses_callers_flag (q : Quirks) (hq : q.nestedOmit = false) (o : Opts) (sd : Bool)
    (plan plan' : Bool → List (FieldHdr × GoType) → List Finfo) (hp : ∀ fs, plan false fs = plan' false fs) :
    ∀ (vf : Nat) (vi ie : Bool) (t : GoType) (v : GoVal),
      encValO q o sd plan vf vi ie false t v = encValO q o sd plan' vf vi ie false t v := by
  intro vf
  induction vf with
  | zero => intro vi ie t v; rfl
  | succ n ih =>
    intro vi ie t v
    have ihf : ∀ (a b : Bool) (e : GoType), encValO q o sd plan n a b false e = encValO q o sd plan' n a b false e := by
      intro a b e; funext x; exact ih a b e x
    have hc : ∀ fi, childOE q fi = false := by intro fi; simp [childOE, hq]
    cases t <;> cases v <;> simp only [encValO, ih, ihf, hc, hp, Bool.false_and]

/-! ## the tight and the indented writer -/

/-- the options the walker reads (everything but `indent`, which only selects the writer) -/
def sameBut (o o' : Opts) : Prop :=
  o.omitNil = o'.omitNil ∧ o.omitEmpty = o'.omitEmpty ∧ o.fullTypePath = o'.fullTypePath ∧ o.strict = o'.strict ∧
    o.bytesAs = o'.bytesAs ∧ o.createKey = o'.createKey

theorem mapValDropped_congr {o o' : Opts} (h : sameBut o o') (sd : Bool) (v : GoVal) :
    mapValDropped o sd v = mapValDropped o' sd v := by
  cases v <;> simp [mapValDropped, mapKindDropped, h.1, h.2.1]

theorem objMemberDropped_congr {o o' : Opts} (h : sameBut o o') (v : GoVal) :
    objMemberDropped o v = objMemberDropped o' v := by
  unfold objMemberDropped
  split <;> simp [h.1, h.2.1]

theorem fieldMemberO_congr {o o' : Opts} (h : sameBut o o') (q : Quirks) (enc : Bool → GoType → GoVal → JV)
    (sv : GoVal) (fi : Finfo) : fieldMemberO q o enc sv fi = fieldMemberO q o' enc sv fi := by
  unfold fieldMemberO fieldNilDropped
  simp only [h.1]

theorem createMember_congr {o o' : Opts} (h : sameBut o o') (name pkg : Bytes) :
    createMember o name pkg = createMember o' name pkg := by
  simp [createMember, h.2.2.1, h.2.2.2.2.2]

theorem encValO_congr {o o' : Opts} (h : sameBut o o') (q : Quirks) (sd : Bool)
    (plan : Bool → List (FieldHdr × GoType) → List Finfo) :
    ∀ (vf : Nat) (vi ie oe : Bool) (t : GoType) (v : GoVal),
      encValO q o sd plan vf vi ie oe t v = encValO q o' sd plan vf vi ie oe t v := by
  intro vf
  induction vf with
  | zero => intro vi ie oe t v; rfl
  | succ n ih =>
    intro vi ie oe t v
    have ihf : ∀ (a b c : Bool) (e : GoType), encValO q o sd plan n a b c e = encValO q o' sd plan n a b c e := by
      intro a b c e; funext x; exact ih a b c e x
    cases t <;> cases v <;>
      simp only [encValO, ih, ihf, mapValDropped_congr h, objMemberDropped_congr h, fieldMemberO_congr h,
        createMember_congr h, h.2.2.2.1, h.2.2.2.2.1]

theorem quirks_current_indent (e : Enc) (o : Opts) (b : Bool) :
    quirksOf e Dev.current { o with indent := b } = quirksOf e Dev.current o := by
  cases e <;> simp [quirksOf, Dev.current]

theorem planOf_indent (e : Enc) (d : Dev) (o : Opts) (b : Bool) (tf : Nat) (om0 : Bool) (fs : List (FieldHdr × GoType)) :
    planOf e d { o with indent := b } tf om0 fs = planOf e d o tf om0 fs := by
  cases e
  · simp only [planOf]
    rw [ojFindex_cases { o with indent := b } d _ tf fs, ojFindex_cases o d _ tf fs]
  · simp only [planOf]
    rw [ojFindex_cases { o with indent := b } d _ tf fs, ojFindex_cases o d _ tf fs]
  · simp only [planOf, altFindex]

theorem encodeOWith_indent (tn : Bool) (e : Enc) (o : Opts) (b : Bool) (tf vf : Nat) (t : GoType) (v : GoVal) :
    encodeOWith tn e Dev.current { o with indent := b } tf vf t v =
      encValO (quirksOf e Dev.current o) o (strDropOf tn { o with indent := b }) (planOf e Dev.current o tf) vf true false false t v := by
  unfold encodeOWith
  rw [quirks_current_indent]
  have hp : planOf e Dev.current { o with indent := b } tf = planOf e Dev.current o tf := by
    funext om0 fs; exact planOf_indent e Dev.current o b tf om0 fs
  rw [hp]
  exact encValO_congr (o := { o with indent := b }) (o' := o) ⟨rfl, rfl, rfl, rfl, rfl, rfl⟩ _ _ _ vf true false false t v

/-- FULL statement: the tight and the indented writer of a package describe the same tree under the
same options -/
def omit_tight_indent_full : Prop :=
  ∀ (e : Enc) (o : Opts) (tf vf : Nat) (t : GoType) (v : GoVal),
    encodeO e Dev.current { o with indent := false } tf vf t v = encodeO e Dev.current { o with indent := true } tf vf t v

/-- the round-3 PARTIAL statement about `encodeO` (excluded: `OmitNil` without `OmitEmpty`, finding
`C15-omitnil-tight-empty-string`); since /repo d7a5508 the exclusion is no longer needed
(`tight_indent_agree_omit_current`), the statement still holds -/
theorem tight_indent_agree_omit_partial (e : Enc) (o : Opts) (h : o.omitNil = true → o.omitEmpty = true)
    (tf vf : Nat) (t : GoType) (v : GoVal) :
    encodeO e Dev.current { o with indent := false } tf vf t v = encodeO e Dev.current { o with indent := true } tf vf t v := by
  unfold encodeO
  rw [encodeOWith_indent, encodeOWith_indent]
  have hs : strDropOf omitTightNilCurrent { o with indent := false } = strDropOf omitTightNilCurrent { o with indent := true } := by
    cases hn : o.omitNil <;> cases he : o.omitEmpty <;> simp_all [strDropOf, omitTightNilCurrent]
  rw [hs]

/-- the hypothesis is satisfiable (three of the four combinations of the two options) -/
example : ∃ o : Opts, o.omitNil = true ∧ (o.omitNil = true → o.omitEmpty = true) :=
  ⟨⟨false, false, false, true, true, false, false, false, 0, []⟩, rfl, fun _ => rfl⟩

/-- with the string test of `tightMap` repaired (`wr.OmitEmpty`) the two writers agree always -/
theorem tight_indent_agree_omit_repaired (e : Enc) (o : Opts) (tf vf : Nat) (t : GoType) (v : GoVal) :
    encodeOWith false e Dev.current { o with indent := false } tf vf t v =
      encodeOWith false e Dev.current { o with indent := true } tf vf t v := by
  rw [encodeOWith_indent, encodeOWith_indent]
  have hs : strDropOf false { o with indent := false } = strDropOf false { o with indent := true } := by
    simp [strDropOf]
  rw [hs]

def omitNilOnly : Opts := ⟨false, false, false, true, false, false, false, false, 0, []⟩
def mapStrStr : GoType := .map .str
def mapEmptyStr : GoVal := .map [("a".toUTF8.toList, .str [])]

/-- PARTIAL, the code before /repo d7a5508 (`encodeOWith true`): excluded is exactly `OmitNil` without
`OmitEmpty` (finding `C15-omitnil-tight-empty-string`, fixed by d7a5508) -/
theorem tight_indent_agree_omit_partial_before_d7a5508 (e : Enc) (o : Opts) (h : o.omitNil = true → o.omitEmpty = true)
    (tf vf : Nat) (t : GoType) (v : GoVal) :
    encodeOWith true e Dev.current { o with indent := false } tf vf t v =
      encodeOWith true e Dev.current { o with indent := true } tf vf t v := by
  rw [encodeOWith_indent, encodeOWith_indent]
  have hs : strDropOf true { o with indent := false } = strDropOf true { o with indent := true } := by
    cases hn : o.omitNil <;> cases he : o.omitEmpty <;> simp_all [strDropOf]
  rw [hs]

/-- the code as it is (/repo d7a5508): the FULL statement holds — the tight and the indented writer of
a package describe the same tree under every option combination -/
theorem tight_indent_agree_omit_current : omit_tight_indent_full := by
  intro e o tf vf t v
  exact tight_indent_agree_omit_repaired e o tf vf t v

/-- the full statement about the code before /repo d7a5508 -/
def omit_tight_indent_full_before_d7a5508 : Prop :=
  ∀ (e : Enc) (o : Opts) (tf vf : Nat) (t : GoType) (v : GoVal),
    encodeOWith true e Dev.current { o with indent := false } tf vf t v =
      encodeOWith true e Dev.current { o with indent := true } tf vf t v

/-- before /repo d7a5508: `oj.JSON(map[string]string{"a": ""}, &ojg.Options{OmitNil: true})` was `{}`; with
`Indent: 2` it was `{"a":""}` (an empty string is not nil: the indented writer was right) -/
theorem tight_indent_differ_witness_before_d7a5508 :
    jvBeq (encodeOWith true .oj Dev.current { omitNilOnly with indent := false } 4 4 mapStrStr mapEmptyStr) (.obj []) = true ∧
    jvBeq (encodeOWith true .oj Dev.current { omitNilOnly with indent := true } 4 4 mapStrStr mapEmptyStr) (.obj []) = false ∧
    jvBeq (encodeOWith true .oj Dev.current { omitNilOnly with indent := true } 4 4 mapStrStr mapEmptyStr)
      (.obj [("a".toUTF8.toList, .str [])]) = true := by
  decide +kernel

theorem omit_tight_indent_full_before_d7a5508_false : ¬ omit_tight_indent_full_before_d7a5508 := by
  intro h
  have h1 := h .oj omitNilOnly 4 4 mapStrStr mapEmptyStr
  have hw := tight_indent_differ_witness_before_d7a5508
  rw [h1] at hw
  rw [hw.2.1] at hw
  exact absurd hw.1 (by decide)

/-- the tight writer now keeps the empty string: both writers give `{"a":""}` -/
theorem tight_omitnil_repaired :
    jvBeq (encodeO .oj Dev.current { omitNilOnly with indent := false } 4 4 mapStrStr mapEmptyStr)
      (.obj [("a".toUTF8.toList, .str [])]) = true := by
  decide +kernel

/-! ## alt.Decompose under the omit options (model `Reflect/EncOmitAlt.lean`) -/

theorem altMemberDropped_off (o : Opts) (hn : o.omitNil = false) (he : o.omitEmpty = false) (b : Bool) (j : JV) :
    altMemberDropped o b j = false := by
  cases j <;> simp [altMemberDropped, hn, he]

theorem fieldMemberA_off (q : Quirks) (o : Opts) (hn : o.omitNil = false) (he : o.omitEmpty = false)
    (enc : Bool → GoType → GoVal → JV) (sv : GoVal) (fi : Finfo) : fieldMemberA q o enc sv fi = fieldMember q enc sv fi := by
  unfold fieldMemberA
  cases h : fieldMember q enc sv fi with
  | none => rfl
  | some m =>
    cases fieldByIndex sv fi.index with
    | none => rfl
    | some x => simp [keepA, altMemberDropped_off o hn he]

theorem encValA_off (q : Quirks) (o : Opts) (hn : o.omitNil = false) (he : o.omitEmpty = false)
    (plan : Bool → List (FieldHdr × GoType) → List Finfo) :
    ∀ (vf : Nat) (vi ie oe : Bool) (t : GoType) (v : GoVal),
      encValA q o plan vf vi ie oe t v = encVal q o plan vf vi ie oe t v := by
  intro vf
  induction vf with
  | zero => intro vi ie oe t v; rfl
  | succ n ih =>
    intro vi ie oe t v
    have ihf : ∀ (a b c : Bool) (e : GoType), encValA q o plan n a b c e = encVal q o plan n a b c e := by
      intro a b c e; funext x; exact ih a b c e x
    cases t <;> cases v <;>
      simp only [encValA, encVal, ih, ihf, keepA, altMemberDropped_off o hn he, fieldMemberA_off q o hn he,
        Bool.false_eq_true, ↓reduceIte, List.filterMap_eq_map']
    all_goals rfl

/-- with `OmitNil` and `OmitEmpty` off, the omit model of alt.Decompose is `encode .alt` -/
theorem encodeA_off_eq_encode (d : Dev) (o : Opts) (hn : o.omitNil = false) (he : o.omitEmpty = false)
    (tf vf : Nat) (t : GoType) (v : GoVal) : encodeA d o tf vf t v = encode .alt d o tf vf t v := by
  unfold encodeA encode
  exact encValA_off _ o hn he _ vf true false false t v

def omitEmptyOnly : Opts := ⟨false, false, false, false, true, false, false, false, 0, []⟩
def mapStrInt : GoType := .map (.int 0)
def mapZeroInt : GoVal := .map [("k".toUTF8.toList, .int 0)]

/-- A current, machine-checked instance of known finding `C15-omit-options`:
`map[string]int{"k": 0}` under `OmitEmpty` is `{"k":0}` for oj and sen (the reflective map walker keeps
zero numbers) and `{}` for alt.Decompose (`condMapSet` drops an `int64` 0). -/
theorem omit_oj_alt_differ_witness :
    jvBeq (encodeO .oj Dev.current omitEmptyOnly 4 4 mapStrInt mapZeroInt) (.obj [("k".toUTF8.toList, .int 0)]) = true ∧
    jvBeq (encodeO .sen Dev.current omitEmptyOnly 4 4 mapStrInt mapZeroInt) (.obj [("k".toUTF8.toList, .int 0)]) = true ∧
    jvBeq (encodeA Dev.current omitEmptyOnly 4 4 mapStrInt mapZeroInt) (.obj []) = true := by
  decide +kernel

/-- the omit tests of alt.Decompose (`condMapSet`) and of pretty's node builder, as regenerated from
the source: exactly the cases of `altMemberDropped` and `prettySkip` -/
theorem omit_tests_alt_pretty_match_source :
    Gen.ReflectEnc.altCondMapSetCases =
      [("nil", "opt.OmitNil || opt.OmitEmpty"), ("string", "opt.OmitEmpty && len(tv) == 0"),
       ("[]any", "opt.OmitEmpty && len(tv) == 0"), ("map[string]any", "opt.OmitEmpty && len(tv) == 0"),
       ("bool", "opt.OmitEmpty && !tv"), ("int64", "opt.OmitEmpty && tv == 0")] ∧
    Gen.ReflectEnc.prettySkips =
      [("buildNull", "w.OmitNil"), ("buildStringNode", "w.OmitEmpty && len(v) == 0"),
       ("buildArrayNode", "w.OmitEmpty && len(v) == 0"), ("buildGenArrayNode", "w.OmitEmpty && len(v) == 0"),
       ("buildMapNode", "w.OmitEmpty && len(v) == 0"), ("buildGenMapNode", "w.OmitEmpty && len(v) == 0")] := by
  decide +kernel

def mapStrAny : GoType := .map .iface
def mapFalse : GoVal := .map [("f".toUTF8.toList, .iface .bool (.bool false))]

/-- pretty.JSON and alt.Decompose differ under `OmitEmpty` although pretty decomposes with the same
options: `map[string]any{"f": false}` is walked as it is by pretty's builder (false is kept: `{"f":false}`)
and filtered by `condMapSet` in alt.Decompose (`{}`) -/
theorem omit_pretty_alt_differ_witness :
    jvBeq (encodeP Dev.current omitEmptyOnly 4 4 mapStrAny mapFalse) (.obj [("f".toUTF8.toList, .bool false)]) = true ∧
    jvBeq (encodeA Dev.current omitEmptyOnly 4 4 mapStrAny mapFalse) (.obj []) = true := by
  decide +kernel

/-! ## alt.Decompose under OmitNil alone: the documented tree less its null members -/

def isNullJ : JV → Bool
  | .null => true
  | _ => false

mutual
  /-- remove every object member whose value is null, hereditarily: what the documentation of
  `OmitNil` prescribes for a tree -/
  def dropNulls : JV → JV
    | .arr xs => .arr (dropNullsL xs)
    | .obj kvs => .obj (dropNullsK kvs)
    | j => j
  def dropNullsL : List JV → List JV
    | [] => []
    | x :: r => dropNulls x :: dropNullsL r
  def dropNullsK : List (Bytes × JV) → List (Bytes × JV)
    | [] => []
    | (k, x) :: r => if isNullJ x then dropNullsK r else (k, dropNulls x) :: dropNullsK r
end

theorem dropNullsL_eq_map : ∀ xs : List JV, dropNullsL xs = xs.map dropNulls
  | [] => rfl
  | x :: r => by simp [dropNullsL, dropNullsL_eq_map r]

def keepN (m : Bytes × JV) : Option (Bytes × JV) := if isNullJ m.2 then none else some (m.1, dropNulls m.2)

theorem dropNullsK_eq_filterMap : ∀ kvs : List (Bytes × JV), dropNullsK kvs = kvs.filterMap keepN
  | [] => rfl
  | (k, x) :: r => by
    cases h : isNullJ x <;> simp [dropNullsK, keepN, h, dropNullsK_eq_filterMap r]

theorem isNullJ_dropNulls (j : JV) : isNullJ (dropNulls j) = isNullJ j := by
  cases j <;> simp [dropNulls, isNullJ]

theorem altMemberDropped_nilOnly (o : Opts) (hn : o.omitNil = true) (he : o.omitEmpty = false) (b : Bool) (j : JV) :
    altMemberDropped o b j = isNullJ j := by
  cases j <;> simp [altMemberDropped, isNullJ, hn, he]

theorem dropNulls_panicMark : dropNulls panicMark = panicMark := rfl

theorem dropNulls_bytesAsNumbers (b : Bytes) : dropNulls (bytesAsNumbers b) = bytesAsNumbers b := by
  simp only [bytesAsNumbers, dropNulls, dropNullsL_eq_map, List.map_map]
  congr 1

theorem dropNulls_bytesAsJV (n : Nat) (b : Bytes) : dropNulls (bytesAsJV n b) = bytesAsJV n b := by
  unfold bytesAsJV
  split
  · rfl
  · split
    · simp only [dropNulls, dropNullsL_eq_map, List.map_map]; congr 1
    · rfl

theorem fieldMember_dropNulls (q : Quirks) (enc : Bool → GoType → GoVal → JV) (sv : GoVal) (fi : Finfo) :
    fieldMember q (fun a b c => dropNulls (enc a b c)) sv fi =
      (fieldMember q enc sv fi).map (fun m => (m.1, dropNulls m.2)) := by
  unfold fieldMember
  cases fieldByIndex sv fi.index with
  | none => by_cases h : q.embNilPanic = true <;> simp [h, dropNulls_panicMark]
  | some x =>
    by_cases h1 : (fi.omitE && isEmptyVal x) = true
    · simp [h1]
    · simp only [h1]
      cases h2 : (if fi.asStr = true then scalarText x else none) with
      | some t => simp [dropNulls]
      | none => cases fi.ty <;> simp

theorem fieldMemberA_nilOnly (q : Quirks) (o : Opts) (hn : o.omitNil = true) (he : o.omitEmpty = false)
    (enc : Bool → GoType → GoVal → JV) (sv : GoVal) (fi : Finfo) :
    fieldMemberA q o (fun a b c => dropNulls (enc a b c)) sv fi = (fieldMember q enc sv fi).bind keepN := by
  unfold fieldMemberA
  rw [fieldMember_dropNulls]
  cases hm : fieldMember q enc sv fi with
  | none => rfl
  | some m =>
    simp only [Option.map_some, Option.bind_some]
    cases hx : fieldByIndex sv fi.index with
    | none =>
      -- only the panic marker can come from a failed lookup
      unfold fieldMember at hm
      rw [hx] at hm
      by_cases h : q.embNilPanic = true
      · simp [h] at hm; subst hm; simp [keepN, isNullJ, panicMark, dropNulls]
      · simp [h] at hm
    | some x =>
      simp only [keepA, keepN, altMemberDropped_nilOnly o hn he, isNullJ_dropNulls]

theorem encValA_nilOnly (q : Quirks) (o : Opts) (hn : o.omitNil = true) (he : o.omitEmpty = false)
    (plan : Bool → List (FieldHdr × GoType) → List Finfo) :
    ∀ (vf : Nat) (vi ie oe : Bool) (t : GoType) (v : GoVal),
      encValA q o plan vf vi ie oe t v = dropNulls (encVal q o plan vf vi ie oe t v) := by
  intro vf
  induction vf with
  | zero => intro vi ie oe t v; rfl
  | succ n ih =>
    intro vi ie oe t v
    have ihf : ∀ (a b c : Bool) (e : GoType),
        encValA q o plan n a b c e = fun x => dropNulls (encVal q o plan n a b c e x) := by
      intro a b c e; funext x; exact ih a b c e x
    cases t <;> cases v <;>
      simp only [encValA, encVal, ih, ihf, dropNulls, dropNulls_panicMark, dropNulls_bytesAsNumbers, dropNulls_bytesAsJV,
        apply_ite dropNulls, dropNullsK]
    case slice.nilSlice e => cases e <;> simp [dropNulls, dropNullsL, apply_ite dropNulls]
    case slice.slice e xs => simp only [dropNullsL_eq_map, List.map_map]; rfl
    case array.arr k e xs => simp only [dropNullsL_eq_map, List.map_map]; rfl
    case map.map e kvs =>
      simp only [dropNullsK_eq_filterMap, List.filterMap_map]
      congr 1
      apply filterMap_congr'
      intro kv _
      simp only [Function.comp, keepA, keepN, altMemberDropped_nilOnly o hn he]
      by_cases h : (q.mapNilNull && isNilContainer kv.2) = true
      · simp [h, isNullJ]
      · simp [h, isNullJ_dropNulls]
    case struct.struct name pkg fs vs =>
      simp only [dropNullsK_eq_filterMap, List.filterMap_append]
      congr 1
      congr 1
      · unfold createMember
        split <;> simp [keepN, isNullJ, dropNulls]
      · rw [List.filterMap_filterMap]
        apply filterMap_congr'
        intro fi _
        exact fieldMemberA_nilOnly q o hn he _ (.struct vs) fi

/-- alt.Decompose under `OmitNil` (without `OmitEmpty`) describes the tree it describes without the
option, less every object member whose value is null, hereditarily -/
theorem alt_omitNil_is_dropNulls (d : Dev) (o : Opts) (hn : o.omitNil = true) (he : o.omitEmpty = false)
    (tf vf : Nat) (t : GoType) (v : GoVal) : encodeA d o tf vf t v = dropNulls (encode .alt d o tf vf t v) := by
  unfold encodeA encode
  exact encValA_nilOnly _ o hn he _ vf true false false t v

theorem encVal_omitNil_irrelevant (q : Quirks) (o : Opts) (b : Bool) (plan : Bool → List (FieldHdr × GoType) → List Finfo) :
    ∀ (vf : Nat) (vi ie oe : Bool) (t : GoType) (v : GoVal),
      encVal q { o with omitNil := b } plan vf vi ie oe t v = encVal q o plan vf vi ie oe t v := by
  intro vf
  induction vf with
  | zero => intro vi ie oe t v; rfl
  | succ n ih =>
    intro vi ie oe t v
    have ihf : ∀ (a c e : Bool) (ty : GoType),
        encVal q { o with omitNil := b } plan n a c e ty = encVal q o plan n a c e ty := by
      intro a c e ty; funext x; exact ih a c e ty x
    have hc : ∀ name pkg, createMember { o with omitNil := b } name pkg = createMember o name pkg := by
      intro name pkg; rfl
    cases t <;> cases v <;> simp only [encVal, ih, ihf, hc]

theorem encode_omitNil_irrelevant (e : Enc) (d : Dev) (o : Opts) (b : Bool) (tf vf : Nat) (t : GoType) (v : GoVal) :
    encode e d { o with omitNil := b } tf vf t v = encode e d o tf vf t v := by
  unfold encode
  have hq : quirksOf e d { o with omitNil := b } = quirksOf e d o := by cases e <;> rfl
  have hp : planOf e d { o with omitNil := b } tf = planOf e d o tf := by funext om0 fs; cases e <;> rfl
  rw [hq, hp]
  exact encVal_omitNil_irrelevant _ o b _ vf true false false t v

/-- **alt.Decompose under `OmitNil` is the documented tree less its null members.** Code as it is,
every type, value and option combination with `OmitEmpty` off on which the run without `OmitNil`
meets none of the live exclusions (`untriggered`): with `OmitNil` set, alt.Decompose describes the
reference tree (`refEncode`, the option documentation) from which every object member whose value is
null has been removed, hereditarily — "OmitNil skips the writing of nil values in an object". -/
theorem alt_omitNil_eq_pruned_reference (o : Opts) (hn : o.omitNil = false) (ho : o.omitEmpty = false) (tf vf : Nat)
    (t : GoType) (v : GoVal)
    (hU : untriggered .alt Dev.current o tf (planFixed o tf) vf true false t v = true) :
    encodeA Dev.current { o with omitNil := true } tf vf t v = dropNulls (refEncode o tf vf t v) := by
  rw [alt_omitNil_is_dropNulls Dev.current { o with omitNil := true } rfl ho,
    encode_omitNil_irrelevant, untriggered_current_eq_reference .alt o hn ho tf vf t v hU]

def plainOpts : Opts := ⟨false, false, false, false, false, false, false, false, 0, []⟩
def TPN : GoType := .struct [] [] [(fld "P", .ptr (.int 0)), (fld "N", .int 0)]
def VPN : GoVal := .struct [.nilPtr, .int 1]

/-- the hypotheses of `alt_omitNil_eq_pruned_reference` are satisfiable, and the statement is not
vacuous: `struct{P *int; N int}{nil, 1}` is `{"n":1}` under `OmitNil` -/
example : untriggered .alt Dev.current plainOpts 4 (planFixed plainOpts 4) 4 true false TPN VPN = true ∧
    jvBeq (encodeA Dev.current { plainOpts with omitNil := true } 4 4 TPN VPN) (.obj [("n".toUTF8.toList, .int 1)]) = true ∧
    jvBeq (refEncode plainOpts 4 4 TPN VPN) (.obj [("n".toUTF8.toList, .int 1), ("p".toUTF8.toList, .null)]) = true := by
  decide +kernel

/-! ## pretty.JSON = alt.Decompose under OmitNil alone -/

theorem prettySkip_nilOnly (o : Opts) (hn : o.omitNil = true) (he : o.omitEmpty = false) (j : JV) :
    prettySkip o j = isNullJ j := by
  cases j <;> simp [prettySkip, isNullJ, hn, he]

mutual
  theorem prettyJ_nilOnly (o : Opts) (hn : o.omitNil = true) (he : o.omitEmpty = false) : ∀ j : JV, prettyJ o j = dropNulls j
    | .arr xs => by simp only [prettyJ, dropNulls, prettyJList_nilOnly o hn he xs]
    | .obj kvs => by simp only [prettyJ, dropNulls, prettyJKvs_nilOnly o hn he kvs]
    | .null => rfl
    | .bool _ => rfl
    | .int _ => rfl
    | .flt _ => rfl
    | .big _ => rfl
    | .num _ => rfl
    | .str _ => rfl
  theorem prettyJList_nilOnly (o : Opts) (hn : o.omitNil = true) (he : o.omitEmpty = false) :
      ∀ xs : List JV, prettyJList o xs = dropNullsL xs
    | [] => rfl
    | x :: r => by simp only [prettyJList, dropNullsL, prettyJ_nilOnly o hn he x, prettyJList_nilOnly o hn he r]
  theorem prettyJKvs_nilOnly (o : Opts) (hn : o.omitNil = true) (he : o.omitEmpty = false) :
      ∀ kvs : List (Bytes × JV), prettyJKvs o kvs = dropNullsK kvs
    | [] => rfl
    | (k, x) :: r => by
      simp only [prettyJKvs, dropNullsK, prettySkip_nilOnly o hn he, prettyJ_nilOnly o hn he x, prettyJKvs_nilOnly o hn he r]
end

mutual
  theorem dropNulls_idem : ∀ j : JV, dropNulls (dropNulls j) = dropNulls j
    | .arr xs => by simp only [dropNulls, dropNullsL_idem xs]
    | .obj kvs => by simp only [dropNulls, dropNullsK_idem kvs]
    | .null => rfl
    | .bool _ => rfl
    | .int _ => rfl
    | .flt _ => rfl
    | .big _ => rfl
    | .num _ => rfl
    | .str _ => rfl
  theorem dropNullsL_idem : ∀ xs : List JV, dropNullsL (dropNullsL xs) = dropNullsL xs
    | [] => rfl
    | x :: r => by simp only [dropNullsL, dropNulls_idem x, dropNullsL_idem r]
  theorem dropNullsK_idem : ∀ kvs : List (Bytes × JV), dropNullsK (dropNullsK kvs) = dropNullsK kvs
    | [] => rfl
    | (k, x) :: r => by
      cases h : isNullJ x
      · simp only [dropNullsK, h, Bool.false_eq_true, ↓reduceIte, isNullJ_dropNulls, dropNulls_idem x, dropNullsK_idem r]
      · simp only [dropNullsK, h, ↓reduceIte, dropNullsK_idem r]
end

theorem encVal_iface_flags (q : Quirks) (o : Opts) (plan : Bool → List (FieldHdr × GoType) → List Finfo) (n : Nat)
    (a b c : Bool) (x : GoVal) :
    encVal q o plan n a b c .iface x = encVal q o plan n true false false .iface x := by
  cases n with
  | zero => rfl
  | succ m => cases x <;> simp only [encVal]

theorem keepN_congr {k : Bytes} {x y : JV} (h : dropNulls x = dropNulls y) : keepN (k, x) = keepN (k, y) := by
  have hn : isNullJ x = isNullJ y := by rw [← isNullJ_dropNulls x, ← isNullJ_dropNulls y, h]
  simp only [keepN, hn, h]

theorem encValP_nilOnly (q : Quirks) (hq : q.mapNilNull = false) (o : Opts) (hn : o.omitNil = true) (he : o.omitEmpty = false)
    (hs : o.strict = false) (plan : Bool → List (FieldHdr × GoType) → List Finfo) :
    ∀ (vf : Nat) (t : GoType) (v : GoVal),
      dropNulls (encValP q o plan vf t v) = dropNulls (encVal q o plan vf true false false t v) := by
  intro vf
  induction vf with
  | zero => intro t v; rfl
  | succ n ih =>
    intro t v
    unfold encValP
    split
    · simp only [encVal]
    · simp only [encVal]; exact ih _ _
    · simp only [encVal]
    · rename_i kvs
      simp only [encVal, hq, Bool.false_and, Bool.false_eq_true, ↓reduceIte, dropNulls, dropNullsK_eq_filterMap, List.filterMap_map]
      congr 1
      apply filterMap_congr'
      intro kv _
      simp only [Function.comp]
      apply keepN_congr
      rw [ih, encVal_iface_flags q o plan n false true false kv.2]
    · simp only [encVal, hs, Bool.and_false, Bool.false_eq_true, ↓reduceIte]
    · rename_i xs
      simp only [encVal, dropNulls, dropNullsL_eq_map, List.map_map]
      congr 1
      apply List.map_congr_left
      intro x _
      simp only [Function.comp, isPtrT, Bool.and_true, Bool.not_false, Bool.or_true]
      rw [ih, encVal_iface_flags q o plan n false true _ x]
    · rw [encValA_nilOnly q o hn he, dropNulls_idem]

/-- pretty.JSON and alt.Decompose agree under `OmitNil` without `OmitEmpty` (code as it is; models
`encodeP`, `encodeA`): both describe the tree of `encode .alt` less its null members -/
theorem pretty_alt_agree_omitNil (o : Opts) (hn : o.omitNil = true) (he : o.omitEmpty = false) (hs : o.strict = false)
    (tf vf : Nat) (t : GoType) (v : GoVal) :
    encodeP Dev.current o tf vf t v = encodeA Dev.current o tf vf t v := by
  rw [alt_omitNil_is_dropNulls Dev.current o hn he]
  unfold encodeP encode
  rw [prettyJ_nilOnly o hn he]
  exact encValP_nilOnly _ (by simp [quirksOf, Dev.current]) o hn he hs _ vf t v

/-- the hypotheses are satisfiable (and the two sides are not trivially equal to a failure):
`map[string]any{"n": nil, "f": false}` under `OmitNil` is `{"f":false}` for both -/
example : jvBeq (encodeP Dev.current { plainOpts with omitNil := true } 4 4 mapStrAny
      (.map [("n".toUTF8.toList, .nilIface), ("f".toUTF8.toList, .iface .bool (.bool false))]))
      (.obj [("f".toUTF8.toList, .bool false)]) = true := by
  decide +kernel

/-! ## oj / sen under OmitNil away from maps, and the agreement of all encoders there -/

/-- the value is written as null: a nil pointer or a nil interface -/
def directNil : GoType → GoVal → Bool
  | .ptr _, .nilPtr => true
  | .iface, .nilIface => true
  | _, _ => false

/-- The run of the oj/sen walker on `(t, v)` stays where `OmitNil` means "drop the nil members":
it meets no map (the reflective map walker and the object writers have rules of their own: they
also drop empty containers, and keep a nil interface in a typed map), and no pointer or interface
whose CONTENT is written as null (outside the fragment of the run anyway). Follows the plan like
`untriggered`. -/
def omitNilAligned (q : Quirks) (plan : Bool → List (FieldHdr × GoType) → List Finfo) : Nat → Bool → GoType → GoVal → Bool
  | 0, _, _, _ => true
  | n + 1, oe, t, v =>
    match t, v with
    | .map _, .map _ => false
    | .iface, .iface dt dv => !directNil dt dv && omitNilAligned q plan n false dt dv
    | .ptr e, .ptr x => !directNil e x && omitNilAligned q plan n oe e x
    | .slice e, .slice xs => xs.all (omitNilAligned q plan n (oe && (q.slicePtrPlan || !isPtrT e)) e)
    | .array _ e, .arr xs => xs.all (omitNilAligned q plan n (oe && (q.slicePtrPlan || !isPtrT e)) e)
    | .struct _ _ fs, .struct vs =>
      decide (0 < n) && (plan oe fs).all fun fi =>
        match fieldByIndex (.struct vs) fi.index with
        | none => true
        | some x => omitNilAligned q plan n (childOE q fi) fi.ty x
    | _, _ => true

theorem bytesAsJV_notNull (n : Nat) (b : Bytes) : isNullJ (bytesAsJV n b) = false := by
  unfold bytesAsJV
  split
  · rfl
  · split <;> rfl

theorem bytesAsNumbers_notNull (b : Bytes) : isNullJ (bytesAsNumbers b) = false := rfl

/-- on an aligned run, only a nil pointer or nil interface is written as null -/
theorem null_only_directNil (q : Quirks) (o : Opts) (hs : o.strict = false)
    (plan : Bool → List (FieldHdr × GoType) → List Finfo) :
    ∀ (n : Nat) (vi ie oe : Bool) (t : GoType) (v : GoVal), omitNilAligned q plan n oe t v = true →
      isNullJ (encVal q o plan n vi ie oe t v) = true → directNil t v = true := by
  intro n
  induction n with
  | zero => intro vi ie oe t v _ h; simp [encVal, isNullJ, panicMark] at h
  | succ m ih =>
    intro vi ie oe t v ha h
    cases t <;> cases v <;> simp only [encVal, directNil, apply_ite isNullJ, bytesAsJV_notNull, bytesAsNumbers_notNull] at h ⊢ <;>
      simp only [omitNilAligned, Bool.and_eq_true, Bool.not_eq_true'] at ha
    all_goals first
      | rfl
      | (exfalso; revert h; simp [isNullJ, panicMark]; done)
      | skip
    case iface.iface dt dv =>
      have := ih true false false dt dv ha.2 h
      rw [ha.1] at this; exact this
    case slice.nilSlice e =>
      exfalso; revert h
      cases e <;> simp [hs, isNullJ]
    case ptr.ptr e x =>
      have := ih false false oe e x ha.2 h
      rw [ha.1] at this; exact this

theorem fieldNilDropped_eq (o : Opts) (hn : o.omitNil = true) (fi : Finfo) (x : GoVal) :
    fieldNilDropped o fi x = directNil fi.ty x := by
  unfold fieldNilDropped directNil
  simp only [hn, Bool.true_and]
  split <;> simp_all

theorem fieldMemberO_aligned (q : Quirks) (o : Opts) (hn : o.omitNil = true)
    (encO enc : Bool → GoType → GoVal → JV) (sv : GoVal) (fi : Finfo)
    (hx : ∀ x, fieldByIndex sv fi.index = some x →
      (directNil fi.ty x = true → ∀ vi, enc vi fi.ty x = .null) ∧
      (directNil fi.ty x = false → ∀ vi, isNullJ (enc vi fi.ty x) = false ∧ encO vi fi.ty x = dropNulls (enc vi fi.ty x))) :
    fieldMemberO q o encO sv fi = (fieldMember q enc sv fi).bind keepN := by
  unfold fieldMemberO fieldMember
  cases hl : fieldByIndex sv fi.index with
  | none => by_cases h : q.embNilPanic = true <;> simp [h, keepN, isNullJ, panicMark, dropNulls]
  | some x =>
    have hx' := hx x hl
    by_cases h1 : (fi.omitE && isEmptyVal x) = true
    · simp [h1]
    · simp only [h1, Bool.false_eq_true, ↓reduceIte]
      cases h2 : (if fi.asStr = true then scalarText x else none) with
      | some t => simp [keepN, isNullJ, dropNulls]
      | none =>
        simp only [fieldNilDropped_eq o hn]
        cases hd : directNil fi.ty x with
        | true =>
          have e := hx'.1 hd
          cases hty : fi.ty <;> simp [hty ▸ e, keepN, isNullJ]
        | false =>
          have e := hx'.2 hd
          cases hty : fi.ty <;> simp [keepN, (hty ▸ e _).1, (hty ▸ e _).2]

theorem encVal_directNil (q : Quirks) (o : Opts) (plan : Bool → List (FieldHdr × GoType) → List Finfo) (m : Nat)
    (vi oe : Bool) (t : GoType) (x : GoVal) (hd : directNil t x = true) :
    encVal q o plan (m + 1) vi false oe t x = .null := by
  cases t <;> cases x <;> simp_all [directNil, encVal]

theorem encValO_nilOnly_aligned (q : Quirks) (o : Opts) (hn : o.omitNil = true) (hs : o.strict = false) (sd : Bool)
    (plan : Bool → List (FieldHdr × GoType) → List Finfo) :
    ∀ (vf : Nat) (vi ie oe : Bool) (t : GoType) (v : GoVal), omitNilAligned q plan vf oe t v = true →
      encValO q o sd plan vf vi ie oe t v = dropNulls (encVal q o plan vf vi ie oe t v) := by
  intro vf
  induction vf with
  | zero => intro vi ie oe t v _; rfl
  | succ n ih =>
    intro vi ie oe t v ha
    cases t <;> cases v <;>
      simp only [encValO, encVal, dropNulls, dropNulls_panicMark, dropNulls_bytesAsNumbers, dropNulls_bytesAsJV,
        apply_ite dropNulls, dropNullsK] <;>
      simp only [omitNilAligned, Bool.and_eq_true, Bool.not_eq_true', List.all_eq_true, decide_eq_true_eq] at ha
    case map.map e kvs => cases ha
    case iface.iface dt dv => exact ih true false false dt dv ha.2
    case ptr.ptr e x => exact ih false false oe e x ha.2
    case slice.nilSlice e => cases e <;> simp [dropNulls, dropNullsL, apply_ite dropNulls]
    case slice.slice e xs =>
      simp only [dropNullsL_eq_map, List.map_map]
      congr 1
      apply List.map_congr_left
      intro x hx
      exact ih false true _ e x (ha x hx)
    case array.arr k e xs =>
      simp only [dropNullsL_eq_map, List.map_map]
      congr 1
      apply List.map_congr_left
      intro x hx
      exact ih false true _ e x (ha x hx)
    case struct.struct name pkg fs vs =>
      obtain ⟨hpos, hall⟩ := ha
      obtain ⟨m, rfl⟩ : ∃ m, n = m + 1 := ⟨n - 1, by omega⟩
      simp only [dropNullsK_eq_filterMap, List.filterMap_append]
      congr 1
      congr 1
      · unfold createMember
        split <;> simp [keepN, isNullJ, dropNulls]
      · rw [List.filterMap_filterMap]
        apply filterMap_congr'
        intro fi hfi
        apply fieldMemberO_aligned q o hn
        intro x hl
        have hal := hall fi hfi
        rw [hl] at hal
        constructor
        · intro hd vi'
          exact encVal_directNil q o plan m vi' _ fi.ty x hd
        · intro hd vi'
          constructor
          · cases hnull : isNullJ (encVal q o plan (m + 1) vi' false (childOE q fi) fi.ty x) with
            | false => rfl
            | true =>
              have := null_only_directNil q o hs plan (m + 1) vi' false (childOE q fi) fi.ty x hal hnull
              rw [hd] at this; cases this
          · exact ih vi' false (childOE q fi) fi.ty x hal

/-- **oj and sen under `OmitNil` alone, away from maps**: code as it is (any quirks), `OmitNil` on (whatever
`OmitEmpty` says: the plan-level omission is in `encode` already), not `oj.Marshal`: on every run that is `omitNilAligned` (no map is met, no pointer or
interface whose content is written as null) the oj/sen writers describe the tree they describe without
the option, less every object member whose value is null, hereditarily — tight and indented alike. -/
theorem oj_omitNil_is_dropNulls_partial (e : Enc) (d : Dev) (o : Opts) (hn : o.omitNil = true)
    (hs : o.strict = false) (tf vf : Nat) (t : GoType) (v : GoVal)
    (ha : omitNilAligned (quirksOf e d o) (planOf e d o tf) vf false t v = true) :
    encodeO e d o tf vf t v = dropNulls (encode e d o tf vf t v) := by
  unfold encodeO encodeOWith encode
  exact encValO_nilOnly_aligned _ o hn hs _ _ vf true false false t v ha

/-- **All encoders agree under `OmitNil`** (code as it is; `OmitEmpty` off, not strict) on every run
that meets none of the live exclusions of `encoders_agree_current` (`untriggered`, for the writer and
for alt) and on which the oj/sen walker meets no map and no pointer or interface whose content is
written as null (`omitNilAligned`, the named exclusion: in maps the oj/sen writers also drop empty
containers and keep nil interfaces — part of known finding `C15-omit-options`): oj / sen (tight and
indented), alt.Decompose and pretty.JSON all describe the documented reference tree less its null
members. -/
theorem encoders_agree_current_omitNil_partial (e : Enc) (o : Opts) (hn : o.omitNil = false) (ho : o.omitEmpty = false)
    (hs : o.strict = false) (tf vf : Nat) (t : GoType) (v : GoVal)
    (hU : untriggered e Dev.current o tf (planFixed o tf) vf true false t v = true)
    (hA : untriggered .alt Dev.current o tf (planFixed o tf) vf true false t v = true)
    (ha : omitNilAligned (quirksOf e Dev.current { o with omitNil := true }) (planOf e Dev.current { o with omitNil := true } tf)
      vf false t v = true) :
    encodeO e Dev.current { o with omitNil := true } tf vf t v = dropNulls (refEncode o tf vf t v) ∧
    encodeA Dev.current { o with omitNil := true } tf vf t v = dropNulls (refEncode o tf vf t v) ∧
    encodeP Dev.current { o with omitNil := true } tf vf t v = dropNulls (refEncode o tf vf t v) := by
  have h2 := alt_omitNil_eq_pruned_reference o hn ho tf vf t v hA
  refine ⟨?_, h2, ?_⟩
  · rw [oj_omitNil_is_dropNulls_partial e Dev.current { o with omitNil := true } rfl hs tf vf t v ha,
      encode_omitNil_irrelevant, untriggered_current_eq_reference e o hn ho tf vf t v hU]
  · rw [pretty_alt_agree_omitNil { o with omitNil := true } rfl ho hs, h2]

/-- the hypotheses are satisfiable: `struct{P *int; N int}{nil, 1}` — every encoder gives `{"n":1}` -/
example : untriggered .oj Dev.current plainOpts 4 (planFixed plainOpts 4) 4 true false TPN VPN = true ∧
    untriggered .alt Dev.current plainOpts 4 (planFixed plainOpts 4) 4 true false TPN VPN = true ∧
    omitNilAligned (quirksOf .oj Dev.current { plainOpts with omitNil := true })
      (planOf .oj Dev.current { plainOpts with omitNil := true } 4) 4 false TPN VPN = true ∧
    jvBeq (encodeO .oj Dev.current { plainOpts with omitNil := true } 4 4 TPN VPN) (.obj [("n".toUTF8.toList, .int 1)]) = true := by
  decide +kernel

end OjgVerif.C15
