import OjgVerif.Reflect.Lemmas
import OjgVerif.Reflect.EncOmit
import OjgVerif.Reflect.EncOmitAlt
import OjgVerif.Gen.ReflectEnc
/-! # C15 — OmitNil / OmitEmpty in the writers of oj and sen (model `Reflect/EncOmit.lean`)

The statements of `Props/C15.lean` have `OmitNil = OmitEmpty = false` as hypotheses. Here the two
options are READ by the model (`encodeO`), for the four plan-interpreting writers (oj tight and
indented, sen tight and indented; `oj.Marshal` and `oj.Write` are the tight/indented oj writer):

* `omit_tests_match_source`: every omit test of the model is the test REGENERATED from the source
  (`tools/extract/reflect_enc.go`): the kind switch and the nil-pointer prelude of `appendMap` /
  `tightMap`, the member type switch of the four object writers, the key take-back tests of
  `appendStruct` / `tightStruct`; sen's are oj's;
* `encodeO_off_eq_encode`: with both options off `encodeO` IS `encode` (so every theorem of
  `Props/C15.lean` speaks about `encodeO` too);
* `writers_oj_sen_agree_omit`: under EVERY option combination, the omit options included, oj and sen
  describe the same tree (code as it is, `Dev.current`);
* `tight_indent_agree_omit_partial`: the tight and the indented writer describe the same tree under
  every option combination EXCEPT `OmitNil` without `OmitEmpty`; `tight_indent_differ_witness`,
  `omit_tight_indent_full_false`: there they differ (`map[string]string{"a": ""}`: the tight
  writer gives `{}`, the indented one `{"a":""}` — finding `C15-omitnil-tight-empty-string`);
  `tight_indent_agree_omit_repaired`: with the tight string test repaired they agree always.

alt.Decompose and pretty under the omit options are not modelled (known finding
`C15-omit-options`); the run compares `encodeO` with the six oj/sen entry points under all four
combinations of the two options (`harness/cmd/reflect/c15_omit.go`). -/
namespace OjgVerif.C15
open OjgVerif OjgVerif.Reflect

/-- the omit tests of the writers, as regenerated from the source -/
theorem omit_tests_match_source :
    Gen.ReflectEnc.ojAppendMapKinds =
      [("reflect.Struct", "-"), ("reflect.Slice, reflect.Array", "(wr.OmitNil || wr.OmitEmpty) && rm.Len() == 0"),
       ("reflect.Map", "(wr.OmitNil || wr.OmitEmpty) && rm.Len() == 0"), ("reflect.String", "(wr.OmitEmpty) && rm.Len() == 0"),
       ("default", "-")] ∧
    Gen.ReflectEnc.ojTightMapKinds =
      [("reflect.Struct", "-"), ("reflect.Slice, reflect.Array", "(wr.OmitNil || wr.OmitEmpty) && rm.Len() == 0"),
       ("reflect.Map", "(wr.OmitNil || wr.OmitEmpty) && rm.Len() == 0"),
       ("reflect.String", if omitTightNilCurrent then "(wr.OmitNil || wr.OmitEmpty) && rm.Len() == 0" else "wr.OmitEmpty && rm.Len() == 0"),
       ("default", "-")] ∧
    Gen.ReflectEnc.ojAppendMapPtr = ["rm.IsNil() | else { rm = rm.Elem() }", "wr.OmitNil -> continue"] ∧
    Gen.ReflectEnc.ojTightMapPtr = Gen.ReflectEnc.ojAppendMapPtr ∧
    Gen.ReflectEnc.ojAppendObjectCases =
      [("nil", "wr.OmitNil"), ("string", "wr.OmitEmpty && len(tm) == 0"), ("map[string]any", "wr.OmitEmpty && len(tm) == 0"),
       ("[]any", "wr.OmitEmpty && len(tm) == 0")] ∧
    Gen.ReflectEnc.ojAppendSortObjectCases = Gen.ReflectEnc.ojAppendObjectCases ∧
    Gen.ReflectEnc.ojTightObjectCases = Gen.ReflectEnc.ojAppendObjectCases ∧
    Gen.ReflectEnc.ojTightSortObjectCases = Gen.ReflectEnc.ojAppendObjectCases ∧
    Gen.ReflectEnc.ojAppendStructKinds =
      [("reflect.Ptr", "wr.OmitNil"), ("reflect.Interface", "wr.OmitNil && (*[2]uintptr)(unsafe.Pointer(&v))[1] == 0"),
       ("reflect.Struct", "-"), ("reflect.Slice, reflect.Array", "-"), ("reflect.Map", "-"), ("default", "-")] ∧
    Gen.ReflectEnc.ojTightStructKinds = Gen.ReflectEnc.ojAppendStructKinds ∧
    Gen.ReflectEnc.senAppendMapKinds = Gen.ReflectEnc.ojAppendMapKinds ∧
    Gen.ReflectEnc.senTightMapKinds = Gen.ReflectEnc.ojTightMapKinds ∧
    Gen.ReflectEnc.senAppendMapPtr = Gen.ReflectEnc.ojAppendMapPtr ∧
    Gen.ReflectEnc.senTightMapPtr = Gen.ReflectEnc.ojAppendMapPtr ∧
    Gen.ReflectEnc.senAppendObjectCases = Gen.ReflectEnc.ojAppendObjectCases ∧
    Gen.ReflectEnc.senAppendSortObjectCases = Gen.ReflectEnc.ojAppendObjectCases ∧
    Gen.ReflectEnc.senTightObjectCases = Gen.ReflectEnc.ojAppendObjectCases ∧
    Gen.ReflectEnc.senTightSortObjectCases = Gen.ReflectEnc.ojAppendObjectCases ∧
    Gen.ReflectEnc.senAppendStructKinds = Gen.ReflectEnc.ojAppendStructKinds ∧
    Gen.ReflectEnc.senTightStructKinds = Gen.ReflectEnc.ojAppendStructKinds := by
  decide +kernel

/-! ## with both options off the omit model is the model of `Props/C15.lean` -/

theorem fieldMemberO_off (q : Quirks) (o : Opts) (hn : o.omitNil = false) (enc : Bool → GoType → GoVal → JV)
    (sv : GoVal) (fi : Finfo) : fieldMemberO q o enc sv fi = fieldMember q enc sv fi := by
  unfold fieldMemberO fieldMember fieldNilDropped
  simp only [hn, Bool.false_and, Bool.false_eq_true, ↓reduceIte]
  rfl

theorem mapValDropped_off (o : Opts) (hn : o.omitNil = false) (he : o.omitEmpty = false) (v : GoVal) :
    mapValDropped o false v = false := by
  cases v <;> simp [mapValDropped, mapKindDropped, hn, he]

theorem objMemberDropped_off (o : Opts) (hn : o.omitNil = false) (he : o.omitEmpty = false) (v : GoVal) :
    objMemberDropped o v = false := by
  unfold objMemberDropped
  split <;> simp [hn, he]

theorem encValO_off (q : Quirks) (o : Opts) (hn : o.omitNil = false) (he : o.omitEmpty = false)
    (plan : Bool → List (FieldHdr × GoType) → List Finfo) :
    ∀ (vf : Nat) (vi ie oe : Bool) (t : GoType) (v : GoVal),
      encValO q o false plan vf vi ie oe t v = encVal q o plan vf vi ie oe t v := by
  intro vf
  induction vf with
  | zero => intro vi ie oe t v; rfl
  | succ n ih =>
    intro vi ie oe t v
    have ihf : ∀ (a b c : Bool) (e : GoType), encValO q o false plan n a b c e = encVal q o plan n a b c e := by
      intro a b c e; funext x; exact ih a b c e x
    have hcond : ∀ (e : GoType) (x : GoVal),
        (if isAnyMap vi e = true then objMemberDropped o x else mapValDropped o false x) = false := by
      intro e x
      split
      · exact objMemberDropped_off o hn he x
      · exact mapValDropped_off o hn he x
    cases t <;> cases v <;>
      simp only [encValO, encVal, ih, ihf, hcond, fieldMemberO_off q o hn, Bool.false_eq_true, ↓reduceIte,
        List.filterMap_eq_map']
    all_goals rfl

/-- with `OmitNil` and `OmitEmpty` off, `encodeO` is `encode` -/
theorem encodeO_off_eq_encode (e : Enc) (d : Dev) (o : Opts) (hn : o.omitNil = false) (he : o.omitEmpty = false)
    (tf vf : Nat) (t : GoType) (v : GoVal) : encodeO e d o tf vf t v = encode e d o tf vf t v := by
  have hs : strDropOf omitTightNilCurrent o = false := by simp [strDropOf, hn, he]
  unfold encodeO encodeOWith encode
  rw [hs]
  exact encValO_off _ o hn he _ vf true false false t v

/-! ## oj and sen agree under every option combination -/

/-- the code as it is: under every option combination — `OmitNil` and `OmitEmpty` included — the
writers of oj and sen (same indentation) describe the same tree -/
theorem writers_oj_sen_agree_omit (o : Opts) (tf vf : Nat) (t : GoType) (v : GoVal) :
    encodeO .oj Dev.current o tf vf t v = encodeO .sen Dev.current o tf vf t v := by
  have hp : planOf .oj Dev.current o tf = planOf .sen Dev.current o tf := by funext om0 fs; rfl
  have hq : quirksOf .oj Dev.current o = quirksOf .sen Dev.current o := by simp [quirksOf, Dev.current]
  unfold encodeO encodeOWith
  rw [hp, hq]

/-! ## the walker asks for nested plans under the caller's flag only -/

/-- Code as it is (no quirk hands an `omitempty` flag down: `nestedOmit = false`): the walker only
ever executes `plan false …`, the plan of a struct type built with the CALLER's `OmitEmpty` (`planOf`
adds `o.omitEmpty`), at every depth. This is the walker's side of `cache_history_independent`
(`Props/C15Cache.lean`): there, every node of the plan tree a lookup returns carries the caller's
flag; here, the tree written depends on the plan function only through that flag. -/
theorem walker_uses_callers_flag (q : Quirks) (hq : q.nestedOmit = false) (o : Opts) (sd : Bool)
    (plan plan' : Bool → List (FieldHdr × GoType) → List Finfo) (hp : ∀ fs, plan false fs = plan' false fs) :
    ∀ (vf : Nat) (vi ie : Bool) (t : GoType) (v : GoVal),
      encValO q o sd plan vf vi ie false t v = encValO q o sd plan' vf vi ie false t v := by
  intro vf
  induction vf with
  | zero => intro vi ie t v; rfl
  | succ n ih =>
    intro vi ie t v
    have ihf : ∀ (a b : Bool) (e : GoType), encValO q o sd plan n a b false e = encValO q o sd plan' n a b false e := by
      intro a b e; funext x; exact ih a b e x
    have hc : ∀ fi, childOE q fi = false := by intro fi; simp [childOE, hq]
    cases t <;> cases v <;> simp only [encValO, ih, ihf, hc, hp, Bool.false_and]

/-! ## the tight and the indented writer -/

/-- the options the walker reads (everything but `indent`, which only selects the writer) -/
def sameBut (o o' : Opts) : Prop :=
  o.omitNil = o'.omitNil ∧ o.omitEmpty = o'.omitEmpty ∧ o.fullTypePath = o'.fullTypePath ∧ o.strict = o'.strict ∧
    o.bytesAs = o'.bytesAs ∧ o.createKey = o'.createKey

theorem mapValDropped_congr {o o' : Opts} (h : sameBut o o') (sd : Bool) (v : GoVal) :
    mapValDropped o sd v = mapValDropped o' sd v := by
  cases v <;> simp [mapValDropped, mapKindDropped, h.1, h.2.1]

theorem objMemberDropped_congr {o o' : Opts} (h : sameBut o o') (v : GoVal) :
    objMemberDropped o v = objMemberDropped o' v := by
  unfold objMemberDropped
  split <;> simp [h.1, h.2.1]

theorem fieldMemberO_congr {o o' : Opts} (h : sameBut o o') (q : Quirks) (enc : Bool → GoType → GoVal → JV)
    (sv : GoVal) (fi : Finfo) : fieldMemberO q o enc sv fi = fieldMemberO q o' enc sv fi := by
  unfold fieldMemberO fieldNilDropped
  simp only [h.1]

theorem createMember_congr {o o' : Opts} (h : sameBut o o') (name pkg : Bytes) :
    createMember o name pkg = createMember o' name pkg := by
  simp [createMember, h.2.2.1, h.2.2.2.2.2]

theorem encValO_congr {o o' : Opts} (h : sameBut o o') (q : Quirks) (sd : Bool)
    (plan : Bool → List (FieldHdr × GoType) → List Finfo) :
    ∀ (vf : Nat) (vi ie oe : Bool) (t : GoType) (v : GoVal),
      encValO q o sd plan vf vi ie oe t v = encValO q o' sd plan vf vi ie oe t v := by
  intro vf
  induction vf with
  | zero => intro vi ie oe t v; rfl
  | succ n ih =>
    intro vi ie oe t v
    have ihf : ∀ (a b c : Bool) (e : GoType), encValO q o sd plan n a b c e = encValO q o' sd plan n a b c e := by
      intro a b c e; funext x; exact ih a b c e x
    cases t <;> cases v <;>
      simp only [encValO, ih, ihf, mapValDropped_congr h, objMemberDropped_congr h, fieldMemberO_congr h,
        createMember_congr h, h.2.2.2.1, h.2.2.2.2.1]

theorem quirks_current_indent (e : Enc) (o : Opts) (b : Bool) :
    quirksOf e Dev.current { o with indent := b } = quirksOf e Dev.current o := by
  cases e <;> simp [quirksOf, Dev.current]

theorem planOf_indent (e : Enc) (d : Dev) (o : Opts) (b : Bool) (tf : Nat) (om0 : Bool) (fs : List (FieldHdr × GoType)) :
    planOf e d { o with indent := b } tf om0 fs = planOf e d o tf om0 fs := by
  cases e
  · simp only [planOf]
    rw [ojFindex_cases { o with indent := b } d _ tf fs, ojFindex_cases o d _ tf fs]
  · simp only [planOf]
    rw [ojFindex_cases { o with indent := b } d _ tf fs, ojFindex_cases o d _ tf fs]
  · simp only [planOf, altFindex]

theorem encodeOWith_indent (tn : Bool) (e : Enc) (o : Opts) (b : Bool) (tf vf : Nat) (t : GoType) (v : GoVal) :
    encodeOWith tn e Dev.current { o with indent := b } tf vf t v =
      encValO (quirksOf e Dev.current o) o (strDropOf tn { o with indent := b }) (planOf e Dev.current o tf) vf true false false t v := by
  unfold encodeOWith
  rw [quirks_current_indent]
  have hp : planOf e Dev.current { o with indent := b } tf = planOf e Dev.current o tf := by
    funext om0 fs; exact planOf_indent e Dev.current o b tf om0 fs
  rw [hp]
  exact encValO_congr (o := { o with indent := b }) (o' := o) ⟨rfl, rfl, rfl, rfl, rfl, rfl⟩ _ _ _ vf true false false t v

/-- FULL statement: the tight and the indented writer of a package describe the same tree under the
same options -/
def omit_tight_indent_full : Prop :=
  ∀ (e : Enc) (o : Opts) (tf vf : Nat) (t : GoType) (v : GoVal),
    encodeO e Dev.current { o with indent := false } tf vf t v = encodeO e Dev.current { o with indent := true } tf vf t v

/-- PARTIAL (code as it is): excluded is exactly `OmitNil` without `OmitEmpty`
(finding `C15-omitnil-tight-empty-string`) -/
theorem tight_indent_agree_omit_partial (e : Enc) (o : Opts) (h : o.omitNil = true → o.omitEmpty = true)
    (tf vf : Nat) (t : GoType) (v : GoVal) :
    encodeO e Dev.current { o with indent := false } tf vf t v = encodeO e Dev.current { o with indent := true } tf vf t v := by
  unfold encodeO
  rw [encodeOWith_indent, encodeOWith_indent]
  have hs : strDropOf omitTightNilCurrent { o with indent := false } = strDropOf omitTightNilCurrent { o with indent := true } := by
    cases hn : o.omitNil <;> cases he : o.omitEmpty <;> simp_all [strDropOf, omitTightNilCurrent]
  rw [hs]

/-- the hypothesis is satisfiable (three of the four combinations of the two options) -/
example : ∃ o : Opts, o.omitNil = true ∧ (o.omitNil = true → o.omitEmpty = true) :=
  ⟨⟨false, false, false, true, true, false, false, false, 0, []⟩, rfl, fun _ => rfl⟩

/-- with the string test of `tightMap` repaired (`wr.OmitEmpty`) the two writers agree always -/
theorem tight_indent_agree_omit_repaired (e : Enc) (o : Opts) (tf vf : Nat) (t : GoType) (v : GoVal) :
    encodeOWith false e Dev.current { o with indent := false } tf vf t v =
      encodeOWith false e Dev.current { o with indent := true } tf vf t v := by
  rw [encodeOWith_indent, encodeOWith_indent]
  have hs : strDropOf false { o with indent := false } = strDropOf false { o with indent := true } := by
    simp [strDropOf]
  rw [hs]

def omitNilOnly : Opts := ⟨false, false, false, true, false, false, false, false, 0, []⟩
def mapStrStr : GoType := .map .str
def mapEmptyStr : GoVal := .map [("a".toUTF8.toList, .str [])]

/-- `oj.JSON(map[string]string{"a": ""}, &ojg.Options{OmitNil: true})` is `{}`; with `Indent: 2` it is
`{"a":""}` (an empty string is not nil: the indented writer is right) -/
theorem tight_indent_differ_witness :
    jvBeq (encodeO .oj Dev.current { omitNilOnly with indent := false } 4 4 mapStrStr mapEmptyStr) (.obj []) = true ∧
    jvBeq (encodeO .oj Dev.current { omitNilOnly with indent := true } 4 4 mapStrStr mapEmptyStr) (.obj []) = false ∧
    jvBeq (encodeO .oj Dev.current { omitNilOnly with indent := true } 4 4 mapStrStr mapEmptyStr)
      (.obj [("a".toUTF8.toList, .str [])]) = true := by
  decide +kernel

theorem omit_tight_indent_full_false : ¬ omit_tight_indent_full := by
  intro h
  have h1 := h .oj omitNilOnly 4 4 mapStrStr mapEmptyStr
  have hw := tight_indent_differ_witness
  rw [h1] at hw
  rw [hw.2.1] at hw
  exact absurd hw.1 (by decide)

/-! ## alt.Decompose under the omit options (model `Reflect/EncOmitAlt.lean`) -/

theorem altMemberDropped_off (o : Opts) (hn : o.omitNil = false) (he : o.omitEmpty = false) (b : Bool) (j : JV) :
    altMemberDropped o b j = false := by
  cases j <;> simp [altMemberDropped, hn, he]

theorem fieldMemberA_off (q : Quirks) (o : Opts) (hn : o.omitNil = false) (he : o.omitEmpty = false)
    (enc : Bool → GoType → GoVal → JV) (sv : GoVal) (fi : Finfo) : fieldMemberA q o enc sv fi = fieldMember q enc sv fi := by
  unfold fieldMemberA
  cases h : fieldMember q enc sv fi with
  | none => rfl
  | some m =>
    cases fieldByIndex sv fi.index with
    | none => rfl
    | some x => simp [keepA, altMemberDropped_off o hn he]

theorem encValA_off (q : Quirks) (o : Opts) (hn : o.omitNil = false) (he : o.omitEmpty = false)
    (plan : Bool → List (FieldHdr × GoType) → List Finfo) :
    ∀ (vf : Nat) (vi ie oe : Bool) (t : GoType) (v : GoVal),
      encValA q o plan vf vi ie oe t v = encVal q o plan vf vi ie oe t v := by
  intro vf
  induction vf with
  | zero => intro vi ie oe t v; rfl
  | succ n ih =>
    intro vi ie oe t v
    have ihf : ∀ (a b c : Bool) (e : GoType), encValA q o plan n a b c e = encVal q o plan n a b c e := by
      intro a b c e; funext x; exact ih a b c e x
    cases t <;> cases v <;>
      simp only [encValA, encVal, ih, ihf, keepA, altMemberDropped_off o hn he, fieldMemberA_off q o hn he,
        Bool.false_eq_true, ↓reduceIte, List.filterMap_eq_map']
    all_goals rfl

/-- with `OmitNil` and `OmitEmpty` off, the omit model of alt.Decompose is `encode .alt` -/
theorem encodeA_off_eq_encode (d : Dev) (o : Opts) (hn : o.omitNil = false) (he : o.omitEmpty = false)
    (tf vf : Nat) (t : GoType) (v : GoVal) : encodeA d o tf vf t v = encode .alt d o tf vf t v := by
  unfold encodeA encode
  exact encValA_off _ o hn he _ vf true false false t v

def omitEmptyOnly : Opts := ⟨false, false, false, false, true, false, false, false, 0, []⟩
def mapStrInt : GoType := .map (.int 0)
def mapZeroInt : GoVal := .map [("k".toUTF8.toList, .int 0)]

/-- A current, machine-checked instance of known finding `C15-omit-options`:
`map[string]int{"k": 0}` under `OmitEmpty` is `{"k":0}` for oj and sen (the reflective map walker keeps
zero numbers) and `{}` for alt.Decompose (`condMapSet` drops an `int64` 0). -/
theorem omit_oj_alt_differ_witness :
    jvBeq (encodeO .oj Dev.current omitEmptyOnly 4 4 mapStrInt mapZeroInt) (.obj [("k".toUTF8.toList, .int 0)]) = true ∧
    jvBeq (encodeO .sen Dev.current omitEmptyOnly 4 4 mapStrInt mapZeroInt) (.obj [("k".toUTF8.toList, .int 0)]) = true ∧
    jvBeq (encodeA Dev.current omitEmptyOnly 4 4 mapStrInt mapZeroInt) (.obj []) = true := by
  decide +kernel

/-- the omit tests of alt.Decompose (`condMapSet`) and of pretty's node builder, as regenerated from
the source: exactly the cases of `altMemberDropped` and `prettySkip` -/
theorem omit_tests_alt_pretty_match_source :
    Gen.ReflectEnc.altCondMapSetCases =
      [("nil", "opt.OmitNil || opt.OmitEmpty"), ("string", "opt.OmitEmpty && len(tv) == 0"),
       ("[]any", "opt.OmitEmpty && len(tv) == 0"), ("map[string]any", "opt.OmitEmpty && len(tv) == 0"),
       ("bool", "opt.OmitEmpty && !tv"), ("int64", "opt.OmitEmpty && tv == 0")] ∧
    Gen.ReflectEnc.prettySkips =
      [("buildNull", "w.OmitNil"), ("buildStringNode", "w.OmitEmpty && len(v) == 0"),
       ("buildArrayNode", "w.OmitEmpty && len(v) == 0"), ("buildGenArrayNode", "w.OmitEmpty && len(v) == 0"),
       ("buildMapNode", "w.OmitEmpty && len(v) == 0"), ("buildGenMapNode", "w.OmitEmpty && len(v) == 0")] := by
  decide +kernel

def mapStrAny : GoType := .map .iface
def mapFalse : GoVal := .map [("f".toUTF8.toList, .iface .bool (.bool false))]

/-- pretty.JSON and alt.Decompose differ under `OmitEmpty` although pretty decomposes with the same
options: `map[string]any{"f": false}` is walked as it is by pretty's builder (false is kept: `{"f":false}`)
and filtered by `condMapSet` in alt.Decompose (`{}`) -/
theorem omit_pretty_alt_differ_witness :
    jvBeq (encodeP Dev.current omitEmptyOnly 4 4 mapStrAny mapFalse) (.obj [("f".toUTF8.toList, .bool false)]) = true ∧
    jvBeq (encodeA Dev.current omitEmptyOnly 4 4 mapStrAny mapFalse) (.obj []) = true := by
  decide +kernel

end OjgVerif.C15
