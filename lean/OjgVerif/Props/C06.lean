import OjgVerif.Json.Wf
import OjgVerif.Props.C01
/-! # C06 — no input makes a parser panic or fail to terminate (strict-JSON machines)

Every Go operation of `parseBuffer` / `validateBuffer` / `tokenizeBuffer` that can fault at run time
is an explicit `fault` outcome of the model (`Json/Machine.lean`: nil-map write in `add`, empty-stack
index in close-object, slice bounds in close-array; `"true"[ri]` is covered by `List.getD` returning
a byte that never matches). Termination is by construction: `run` is a structurally recursive total
function that consumes one byte per step. The SEN machine, the JSONPath/script parser and the
recover-wrapped entry points are separate checks (C06sen, …). -/
namespace OjgVerif.C06
open OjgVerif OjgVerif.Json

/-- oj.Parser / oj.Tokenizer / oj.Validator model: for every configuration, input and chunking an
error outcome is an ordinary parse error, never a runtime fault -/
theorem oj_no_fault (cfg : Cfg) (chunks : List Bytes) (e : Err)
    (h : run ojTables cfg chunks = .error e) : e.kind.isFault = false := by
  rw [C01.oj_is_reference] at h
  exact run_no_fault cfg chunks e h

/-- gen.Parser model: the same (this is the theorem the pinned tree's `colonMap` cell broke:
`{"a""b":1}` pushed a second key and wrote into a nil map) -/
theorem gen_no_fault (cfg : Cfg) (chunks : List Bytes) (e : Err)
    (h : run genTables cfg chunks = .error e) : e.kind.isFault = false := by
  rw [C01.gen_is_reference] at h
  exact run_no_fault cfg chunks e h

/-- any table set that passes `TablesOK` -/
theorem no_fault_of_tablesOK {T : Tables} (hT : TablesOK T) (cfg : Cfg) (chunks : List Bytes) (e : Err)
    (h : run T cfg chunks = .error e) : e.kind.isFault = false := by
  rw [run_eq_ref hT] at h
  exact run_no_fault cfg chunks e h

/-- non-vacuity: an input on which the machine does return an error (`[}` at 1:2) -/
example : ∃ e, run refTables {} [[91, 125]] = .error e ∧ e.kind.isFault = false :=
  ⟨{ line := 1, col := 2, kind := .objClose }, by rfl, rfl⟩

end OjgVerif.C06
