import OjgVerif.JPMut.Model
import OjgVerif.Gen.JpMutArms
/-! # C13, the tie to the source beyond the patched lines: the type-switch skeleton of the mutators

tools/extract/jpmut_arms.go reads, on every run, which fragment kinds `Expr.set` / `Expr.modify` switch over, which
container types each fragment arm handles (`switch tv := prev.(type)`), which type lists guard a push (`switch v.(type)`,
with how many clauses carry each list) and the container arms of every `remove` / `removeOne` method.

* `arms_are_source` — the skeleton is the one the model (JPMut/Model.lean) was written against: the tables below. A case
  list that loses or gains a type (seeded change: `gen.Array` dropped from ONE followable-type list of set.go), a
  fragment arm or a container arm that disappears, breaks this theorem — before any input is run.
* `model_acts_as_arms` — and the model agrees with that skeleton about WHICH simple containers a fragment kind acts on:
  for every fragment kind and for a map and a slice witness, the model's Modify (fragment in last position) and Set
  (Child, Nth, Wildcard, Union in last position; every kind in inner position) change the witness exactly when the
  fragment's arm lists that container type (`map[string]any` / `[]any`; a Filter reaches a map through the `default`
  arm's reflection branch in modify.go and through `evalWithRoot` in set.go; since /repo d792e9c the Filter arm of modify.go
  also has a `Keyed` case — former known finding C13-modify-filter-keyed-untouched).
This is still a tie of shape, not of behaviour: what the arms DO is tied by the correspondence run. -/
namespace OjgVerif.C13
open OjgVerif OjgVerif.JPath OjgVerif.JPMut

/-- fragment kinds `Expr.set` switches over (jp/set.go) -/
def setFragArmsModel : List String := ["Child", "Nth", "Wildcard", "Descent", "Union", "Slice", "*Filter", "Root", "At,Bracket"]

/-- container arms per fragment arm of `Expr.set` -/
def setContArmsModel : List (String × List String) := [
  ("Child", ["map[string]any", "Keyed", "gen.Object", "default"]),
  ("Nth", ["[]any", "Indexed", "gen.Array", "default"]),
  ("Wildcard", ["map[string]any", "[]any", "Keyed", "Indexed", "gen.Object", "gen.Array", "default"]),
  ("Descent", ["map[string]any", "[]any", "Keyed", "Indexed", "gen.Object", "gen.Array"]),
  ("Union/string", ["map[string]any", "Keyed", "gen.Object", "default"]),
  ("Union/int64", ["[]any", "Indexed", "gen.Array", "default"]),
  ("Slice", ["[]any", "Indexed", "gen.Array", "default"])]

/-- the type lists that guard a push in `Expr.set`, with the number of clauses that carry each -/
def setValueListsModel : List (String × Nat) := [
  ("bool,string,float64,float32,int,uint,int8,int16,int32,int64,uint8,uint16,uint32,uint64,nil,gen.Bool,gen.Int,gen.Float,gen.String", 3),
  ("default", 28),
  ("gen.Object,gen.Array", 4),
  ("map[string]any,[]any,gen.Object,gen.Array,Keyed,Indexed", 32),
  ("nil,gen.Bool,gen.Int,gen.Float,gen.String,bool,string,float64,float32,int,uint,int8,int16,int32,int64,uint8,uint16,uint32,uint64", 23)]

def modifyFragArmsModel : List String := ["Child", "Nth", "Wildcard", "Union", "Slice", "*Filter", "Descent", "Root", "At,Bracket"]

def modifyContArmsModel : List (String × List String) := [
  ("Child", ["map[string]any", "Keyed", "gen.Object", "default"]),
  ("Nth", ["[]any", "Indexed", "gen.Array", "default"]),
  ("Wildcard", ["map[string]any", "[]any", "Keyed", "Indexed", "gen.Object", "gen.Array", "default"]),
  ("Union/string", ["map[string]any", "Keyed", "gen.Object", "default"]),
  ("Union/int64", ["[]any", "Indexed", "gen.Array", "default"]),
  ("Slice", ["[]any", "Indexed", "gen.Array", "default"]),
  ("*Filter", ["[]any", "Indexed", "gen.Array", "Keyed", "default"]),
  ("Descent", ["map[string]any", "[]any", "Keyed", "Indexed", "gen.Object", "gen.Array"])]

def modifyValueListsModel : List (String × Nat) := [
  ("gen.Object,gen.Array", 8),
  ("map[string]any,[]any,gen.Object,gen.Array,Keyed,Indexed", 6)]

/-- container arms of the `remove` / `removeOne` methods (child.go, nth.go, wildcard.go, union.go, slice.go, filter.go) -/
def removeArmsModel : List (String × List String) := [
  ("Child.remove", ["map[string]any", "gen.Object", "Keyed", "default"]),
  ("Nth.remove", ["[]any", "gen.Array", "RemovableIndexed", "default"]),
  ("Wildcard.remove", ["[]any", "map[string]any", "gen.Array", "gen.Object", "RemovableIndexed", "Keyed", "default"]),
  ("Wildcard.removeOne", ["[]any", "map[string]any", "gen.Array", "gen.Object", "RemovableIndexed", "Keyed", "default"]),
  ("Union.remove", ["[]any", "map[string]any", "gen.Array", "gen.Object", "RemovableIndexed", "Keyed", "default"]),
  ("Union.removeOne", ["[]any", "map[string]any", "gen.Array", "gen.Object", "RemovableIndexed", "Keyed", "default"]),
  ("Slice.remove", ["[]any", "gen.Array", "RemovableIndexed", "default"]),
  ("Slice.removeOne", ["[]any", "gen.Array", "RemovableIndexed", "default"]),
  ("Filter.remove", ["[]any", "map[string]any", "gen.Array", "gen.Object", "RemovableIndexed", "Keyed", "default"]),
  ("Filter.removeOne", ["[]any", "map[string]any", "gen.Array", "gen.Object", "RemovableIndexed", "Keyed", "default"])]

/-- the type-switch skeleton of jp/set.go, modify.go and the remove methods is the one the model was written against -/
theorem arms_are_source :
    Gen.JpMutArms.setFragArms = setFragArmsModel ∧ Gen.JpMutArms.setContArms = setContArmsModel ∧
    Gen.JpMutArms.setValueLists = setValueListsModel ∧
    Gen.JpMutArms.modifyFragArms = modifyFragArmsModel ∧ Gen.JpMutArms.modifyContArms = modifyContArmsModel ∧
    Gen.JpMutArms.modifyValueLists = modifyValueListsModel ∧
    Gen.JpMutArms.removeArms = removeArmsModel := ⟨rfl, rfl, rfl, rfl, rfl, rfl, rfl⟩

/-- regression tripwire for the repair 0367e03 (former known finding C13-nth-remove-shared-list): Nth.remove collects the
survivors in a NEW list in both list arms (`make`, no `append(tv[:i], …)`), like every other remover — a second reference
to the list it was given is left alone. Undoing the repair flips the generated fact. (The behaviour itself is checked by
the alias stream of the run.) -/
theorem nth_remove_allocates : Gen.JpMutArms.nthRemoveAllocates = true := rfl

/-! ## the model acts on the containers the arms name -/

/-- the arm of fragment kind `frag` lists the container type `cont` -/
def armHas (arms : List (String × List String)) (frag cont : String) : Bool :=
  arms.any fun e => e.1 == frag && e.2.contains cont

def kA' : Bytes := [97]
def wObj : JV := .obj [(kA', .int 1)]
def wArr : JV := .arr [.int 1]
def wObj2 : JV := .obj [(kA', .obj [(kA', .int 1)])]
def wArr2 : JV := .arr [.obj [(kA', .int 1)]]

/-- the outcome carries a 9 where the witness had 1 -/
def hit : Out → Bool
  | .ok (.arr [.int i]) => i == 9
  | .ok (.obj [(_, .int i)]) => i == 9
  | .ok (.arr [.obj [(_, .int i)]]) => i == 9
  | .ok (.obj [(_, .obj [(_, .int i)])]) => i == 9
  | _ => false

def nine : Modifier := fun _ => (.int 9, true)

/-- the fragment kinds with the name of their arm, and whether a map is reached outside the `prev` switch (Filter:
reflection in modify.go's `default` arm, `evalWithRoot` in set.go) -/
def kinds : List (Frag × String × Bool) := [
  (.child kA', "Child", false), (.nth 0, "Nth", false), (.wild, "Wildcard", false),
  (.union [.key kA'], "Union/string", false), (.union [.idx 0], "Union/int64", false),
  (.slice none none none, "Slice", false)]

/-- Modify, fragment in last position; Set, fragment in last position (the four kinds set.go accepts there) and in inner
position before `.a` (all kinds): the model changes the map witness iff the arm lists `map[string]any`, the slice
witness iff it lists `[]any` -/
theorem model_acts_as_arms :
    (kinds.all fun k =>
      hit (modifyM false Dev.current false nine [k.1] wObj) == armHas Gen.JpMutArms.modifyContArms k.2.1 "map[string]any" &&
      hit (modifyM false Dev.current false nine [k.1] wArr) == armHas Gen.JpMutArms.modifyContArms k.2.1 "[]any" &&
      hit (setM false Dev.current false (.val (.int 9)) [k.1, .child kA'] wObj2) == armHas Gen.JpMutArms.setContArms k.2.1 "map[string]any" &&
      hit (setM false Dev.current false (.val (.int 9)) [k.1, .child kA'] wArr2) == armHas Gen.JpMutArms.setContArms k.2.1 "[]any") = true ∧
    ((kinds.take 5).all fun k =>
      hit (setM false Dev.current false (.val (.int 9)) [k.1] wObj) == armHas Gen.JpMutArms.setContArms k.2.1 "map[string]any" &&
      hit (setM false Dev.current false (.val (.int 9)) [k.1] wArr) == armHas Gen.JpMutArms.setContArms k.2.1 "[]any") = true := by
  constructor <;> decide

end OjgVerif.C13
