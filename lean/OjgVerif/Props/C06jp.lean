import OjgVerif.JPText.LemmasExpr
import OjgVerif.Gen.JpFacts
/-! # C06jp — the JSONPath and script parsers on malformed text (sub-check of C06)

C06 for `jp.ParseString`/`jp.Parse`/`jp.NewScript`/`jp.NewFilter` and their `Must*` variants: termination on
arbitrary input, malformed input reported through the error result, no runtime fault.

What is decided where. The statement about the GO code (no escaped panic, no runtime fault as error or
panic value, no hang, `Must*` = plain) is decided by the run of `harness/cmd/jptext -prop C06jp` over the
malformed streams. This file states what the MODEL (`JPText/Parse.lean`, tied to the Go parser by the same
run: accept/reject and the printed form of what was read) gives:

* the model parser is a total function by construction (structural recursion on explicit fuel and on the
  input; Lean accepts no other definition): every text has exactly one outcome, a value or the error result
  `none` — there is no third, faulting outcome in the model, because every partial operation of the Go code
  (`p.buf[p.pos]`, `p.buf[a:b]`, `opMap[…]` of a missing key, a nil right operand) is a pattern match whose
  missing case IS the error result (`*_error_or_value`);
* on the five kinds of text on which the Go code before a3a42a0 reported the error through a runtime fault
  (finding C06jp-fault-as-error, fixed) the model gives the error result (`fault_inputs_are_errors`), and the
  five bounds checks of that commit are in the regenerated source (`guards_present`, read from the syntax
  tree of jp/parse.go by tools/extract/jptext.go);
* a text printed from a constructible filter-free expression is accepted, and so is the text printed from
  what was read (`reprint_accepted`, from the C14 theorems); the fuel the entry points start with is enough
  on such texts (it is part of that proof: `readExprLoop_clean`). -/
namespace OjgVerif.C06jp
open OjgVerif OjgVerif.JPText

theorem parseExpr_error_or_value (bs : Bytes) : parseExpr bs = none ∨ ∃ x, parseExpr bs = some x := by
  cases h : parseExpr bs with
  | none => exact Or.inl rfl
  | some x => exact Or.inr ⟨x, rfl⟩

theorem parseEquation_error_or_value (bs : Bytes) : parseEquation bs = none ∨ ∃ e, parseEquation bs = some e := by
  cases h : parseEquation bs with
  | none => exact Or.inl rfl
  | some e => exact Or.inr ⟨e, rfl⟩

theorem parseScript_error_or_value (bs : Bytes) : parseScript bs = none ∨ ∃ t, parseScript bs = some t := by
  cases h : parseScript bs with
  | none => exact Or.inl rfl
  | some t => exact Or.inr ⟨t, rfl⟩

theorem parseFilter_error_or_value (bs : Bytes) : parseFilter bs = none ∨ ∃ t, parseFilter bs = some t := by
  cases h : parseFilter bs with
  | none => exact Or.inl rfl
  | some t => exact Or.inr ⟨t, rfl⟩

/-- `NewScript` accepts exactly what `MustParseEquation` accepts (`Script()` cannot fail) -/
theorem parseScript_accepts_iff (bs : Bytes) : (parseScript bs).isSome = (parseEquation bs).isSome := by
  simp [parseScript]

/-- the model's outcome on the witnesses of C06jp-fault-as-error (fixed in a3a42a0) is the error result:
`$['` (readStr), `/` (readRegex), `'\` (readEscStr), `length` (readOpArgs), `$[?(1)][(` (readProc) -/
theorem fault_inputs_are_errors :
    parseExpr [36, 91, 39] = none ∧ parseEquation [47] = none ∧ parseEquation [39, 92] = none ∧
      parseEquation [108, 101, 110, 103, 116, 104] = none ∧
      parseExpr [36, 91, 63, 40, 49, 41, 93, 91, 40] = none ∧ parseFilter [91, 63, 39, 93] = none := by
  decide +kernel

/-- the bounds checks of a3a42a0 are present in jp/parse.go as it is now: `readStr` and `readRegex` raise when
nothing was read, `readEscStr` fails on a backslash at the end, `readOpArgs` tests the length before the byte,
`readProc` searches for `)]` from the current position -/
theorem guards_present :
    Gen.JpFacts.readStrGuard = true ∧ Gen.JpFacts.readRegexGuard = true ∧ Gen.JpFacts.readEscStrGuard = true ∧
      Gen.JpFacts.readOpArgsGuard = true ∧ Gen.JpFacts.readProcFromPos = true := by
  decide

/-- the empty text is the empty expression; a lone quote inside a filter is an error, not a value -/
example : (parseExpr []).map Frag.encL = some [] ∧ parseFilter [91, 63, 40, 39, 41, 93] = none := by decide +kernel

/-- a text printed from a constructible filter-free expression without a named deviation is accepted, and
the text printed from what was read is accepted again (to the same expression) -/
theorem reprint_accepted (br : Bool) (x : Expr) (hok : Frag.okL x = true) (hnf : noFilter x = true)
    (hdev : devsExpr br x = []) :
    ∃ y, parseExpr (exprPrint br x) = some y ∧ parseExpr (exprPrint br y) = some y := by
  have hc := cleanExpr_of_spec br x hok hnf hdev
  refine ⟨imgL br x, parseExpr_print br x hc, ?_⟩
  rw [exprPrint_imgL br x hc]
  exact parseExpr_print br x hc

end OjgVerif.C06jp
