import OjgVerif.Props.C17
import OjgVerif.Match.LemmasFilterSpec
import OjgVerif.Match.LemmasFilterOne
import OjgVerif.Props.C17Chunks
/-! # C17 — target sets WITH filter targets

Until now a set containing a filter target was covered by correspondence only. Here:

* `C17_filter_sets` — for every document and every target set whose targets are supported up to
  their trailing filter (`deviates (stripFilter t) = false`), the callbacks of the current matcher
  are, in document order, the reports `reportAt` of the OUTERMOST locations that the targets WITHOUT
  their filters select: a leaf only if a filter-free target selects it; a container as it is when
  the first target (in the order given) whose stripped part selects it has no filter; otherwise
  `checkRest`'s ONE callback — path of the LAST element the filter accepts, value of the FIRST —
  or none. This is the documented behaviour of the handler, stated on the specification's terms
  (`selects`, `expected`), for any `Dev` (`C17_filter_sets_general`).
* `expected_split` — the specification splits along the same skeleton: `expected targets doc` is the
  concatenation, over those outermost locations `(q, u)`, of the locations at or below `q` that
  `expected` keeps (`specAt`).
* `C17_filter_iff` (`C17_filter_local` is its sufficient half) — hence the callbacks ARE the
  specification's IF AND ONLY IF at every such location the handler's report equals the
  specification's piece (`agreesAt`): the excluded class is a predicate on (targets, document), local
  to the collected containers;
* `C17_filter_single` — for ONE target `pre[?p]` with a descent-free, non-deviating `pre` this is
  exactly "the filter accepts at most one element of every location `pre` selects" (`atMostOne`,
  executable) — the complement is where known finding C17-filter-first-only shows. -/
namespace OjgVerif.C17
open OjgVerif OjgVerif.Match

/-- the documented behaviour, any setting of the deviations -/
theorem C17_filter_sets_general (dv : Dev) (targets : List Target) (doc : JV) (hdoc : NoDupKeys doc = true)
    (hok : ∀ t ∈ targets, okTarget dv (stripFilter t) = true) :
    matchRun dv targets (events doc) =
      (expected (targets.map stripFilter) doc).flatMap (reportAt dv targets doc) := by
  rw [run_events dv targets doc hdoc]
  exact found_reportAt dv targets doc hok hdoc

/-- **Target sets with filters, code as it is**: the callbacks are the handler's reports at the
outermost locations the targets without their filters select, in document order. -/
theorem C17_filter_sets (targets : List Target) (doc : JV) (hdoc : NoDupKeys doc = true)
    (hdev : ∀ t ∈ targets, deviates (stripFilter t) = false) :
    matchRun Dev.cur targets (events doc) =
      (expected (targets.map stripFilter) doc).flatMap (reportAt Dev.cur targets doc) :=
  C17_filter_sets_general Dev.cur targets doc hdoc (fun t ht => by simp [okTarget_cur, hdev t ht])

/-- the specification's piece at an outermost location of the stripped targets -/
def specAt (targets : List Target) (doc : JV) (qu : NPath × JV) : List (NPath × JV) :=
  (locs qu.1 qu.2).filter fun pv =>
    selectedBy targets doc pv.1 && !(properPrefixes pv.1).any (selectedBy targets doc)

theorem expected_split (targets : List Target) (doc : JV) :
    expected targets doc = (expected (targets.map stripFilter) doc).flatMap (specAt targets doc) :=
  expected_decompose targets doc

/-- the handler's report at `qu` is the specification's piece there -/
def agreesAt (dv : Dev) (targets : List Target) (doc : JV) (qu : NPath × JV) : Prop :=
  reportAt dv targets doc qu = specAt targets doc qu

/-- **Local criterion**: the callbacks are the specification's if at every outermost location the
stripped targets select the handler's report is the specification's piece. -/
theorem C17_filter_local (targets : List Target) (doc : JV) (hdoc : NoDupKeys doc = true)
    (hdev : ∀ t ∈ targets, deviates (stripFilter t) = false)
    (hag : ∀ qu ∈ expected (targets.map stripFilter) doc, agreesAt Dev.cur targets doc qu) :
    matchRun Dev.cur targets (events doc) = expected targets doc := by
  rw [C17_filter_sets targets doc hdoc hdev, expected_split targets doc]
  exact flatMap_congr_mem _ _ _ hag

theorem filterAll_prefix (p : JV → Bool) (q : NPath) (u : JV) : ∀ x ∈ filterAll p q u, q <+: x.1 := by
  intro x hx
  cases u <;> simp only [filterAll, List.not_mem_nil] at hx
  · simp only [List.mem_filterMap, List.mem_range] at hx
    obtain ⟨i, _, hi⟩ := hx
    split at hi
    · split at hi
      · simp only [Option.some.injEq] at hi; subst hi; exact List.prefix_append _ _
      · cases hi
    · cases hi
  · simp only [List.mem_map, List.mem_filter] at hx
    obtain ⟨kv, _, rfl⟩ := hx
    exact List.prefix_append _ _

theorem reportAt_prefix (dv : Dev) (targets : List Target) (doc : JV) (qu : NPath × JV) :
    ∀ x ∈ reportAt dv targets doc qu, qu.1 <+: x.1 := by
  intro x hx
  unfold reportAt at hx
  split at hx
  · split at hx
    · simp only [List.mem_singleton] at hx; subst hx; exact List.prefix_refl _
    · simp at hx
  · split at hx
    · simp only [List.mem_singleton] at hx; subst hx; exact List.prefix_refl _
    · split at hx
      · simp only [List.mem_singleton] at hx; subst hx; exact List.prefix_refl _
      · split at hx
        · split at hx
          · simp at hx
          · simp only [List.mem_singleton] at hx; subst hx; exact List.prefix_append _ _
        · exact filterAll_prefix _ _ _ x hx

theorem specAt_prefix (targets : List Target) (doc : JV) (qu : NPath × JV) :
    ∀ x ∈ specAt targets doc qu, qu.1 <+: x.1 := by
  intro x hx
  obtain ⟨r, hr⟩ := locs_prefix qu.2 qu.1 x (List.mem_filter.mp hx).1
  rw [hr]; exact List.prefix_append _ _

/-- **The excluded class of filter targets as a predicate on (targets, document)**: for target sets
supported up to their filters, the callbacks of the current matcher are the specification's IF AND
ONLY IF the handler's report equals the specification's piece at EVERY outermost location the
stripped targets select. -/
theorem C17_filter_iff (targets : List Target) (doc : JV) (hdoc : NoDupKeys doc = true)
    (hdev : ∀ t ∈ targets, deviates (stripFilter t) = false) :
    matchRun Dev.cur targets (events doc) = expected targets doc ↔
      ∀ qu ∈ expected (targets.map stripFilter) doc, agreesAt Dev.cur targets doc qu := by
  constructor
  · intro h a ha
    rw [C17_filter_sets targets doc hdoc hdev, expected_split targets doc] at h
    have hnd := expected_nodup (targets.map stripFilter) doc hdoc
    have hinc : ∀ c ∈ expected (targets.map stripFilter) doc, c.1 ≠ a.1 → ¬ (c.1 <+: a.1 ∨ a.1 <+: c.1) :=
      fun c hc hne => expected_incomparable _ doc hdoc a c ha hc hne
    have h1 := filter_pieces a (reportAt Dev.cur targets doc) _ hnd ha
      (fun c _ => reportAt_prefix Dev.cur targets doc c) hinc
    have h2 := filter_pieces a (specAt targets doc) _ hnd ha
      (fun c _ => specAt_prefix targets doc c) hinc
    unfold agreesAt
    rw [← h1, ← h2, h]
  · exact C17_filter_local targets doc hdoc hdev

/-- **Filter target sets under any chunking**: `C17_filter_sets` behind `oj.Tokenizer.Load` — for every
text the tokenizer accepts as one document `doc` without a repeated member name, every chunking and
every target set non-deviating up to its trailing filters, the callbacks
are the handler's reports at the outermost locations the stripped targets select on `doc`. -/
theorem C17_filter_sets_chunked (text : Bytes) (doc : JV)
    (hacc : Json.run Json.ojTables (tokCfg true) [text] = .ok [doc])
    (hnr : NoRepeatedNames (tokCfg true) [text]) (targets : List Target)
    (hdev : ∀ t ∈ targets, deviates (stripFilter t) = false)
    (chunks : List Bytes) (hch : chunks.flatten = text) :
    matchRun Dev.cur targets (tokEvents Json.ojTables (tokCfg true) chunks) =
      (expected (targets.map stripFilter) doc).flatMap (reportAt Dev.cur targets doc) := by
  obtain ⟨hev, hnd⟩ := tokEvents_of_text text doc hacc hnr chunks hch
  rw [hev]
  exact C17_filter_sets targets doc hnd hdev

/-- the filter accepts at most one element (member) of the container -/
def atMostOne (p : JV → Bool) (u : JV) : Bool := decide ((accepted p u).length ≤ 1)

/-- **One filter target `pre[?p]`, `pre` without a descent and without a deviating construct**:
the callbacks of the current matcher are the specification's IF AND ONLY IF the filter accepts at
most one element of every location `pre` selects. The complement — some selected container holds two
accepted elements — is exactly where known finding C17-filter-first-only shows for such a target. -/
theorem C17_filter_single (pre : Target) (p : JV → Bool) (doc : JV) (hdoc : NoDupKeys doc = true)
    (hn : noDescent pre = true) (hdev : deviates pre = false) :
    matchRun Dev.cur [pre ++ [.filter p]] (events doc) = expected [pre ++ [.filter p]] doc ↔
      ∀ qu ∈ expected [pre] doc, atMostOne p qu.2 = true := by
  have hnf : pre.any isFilterFrag = false := by
    simp only [deviates, Bool.or_eq_false_iff, usesFilter] at hdev
    exact hdev.2
  obtain ⟨hst, p', hrest, hp'⟩ := splitTarget_snoc_filter p pre hnf
  subst hp'
  have hstrip : stripFilter (pre ++ [Frag.filter p']) = pre := hst
  have hmap : [pre ++ [Frag.filter p']].map stripFilter = [pre] := by simp [hstrip]
  refine Iff.trans (C17_filter_iff [pre ++ [Frag.filter p']] doc hdoc (by
    intro t ht
    simp only [List.mem_singleton] at ht
    subst ht
    rw [hstrip]; exact hdev)) ?_
  rw [hmap]
  apply forall_congr'
  intro qu
  apply imp_congr_right
  intro hqu
  obtain ⟨q, u⟩ := qu
  have hmem := (mem_expected_iff [pre] doc hdoc q u).mp hqu
  have hsel : selects pre doc q = true := by simpa [selectedBy] using hmem.2.1
  have hu := nodup_nav q doc u hdoc hmem.1
  have hspec : specAt [pre ++ [Frag.filter p']] doc (q, u) = filterAll p' q u :=
    spec_single p' pre doc q u hn hsel hmem.1 hu
  have hrep : reportAt Dev.cur [pre ++ [Frag.filter p']] doc (q, u) =
      if isLeafJV u then [] else
        match filterLocs p' u with
        | [] => []
        | s :: _ => [(q ++ [s], (filterFirst p' u).getD .null)] := by
    unfold reportAt
    have hplain : plainTargets [pre ++ [Frag.filter p']] = [] := by
      simp [plainTargets, hasRest, hrest]
    simp only [hplain, selectedBy, List.any_nil, Bool.false_eq_true, if_false, List.find?_cons, hstrip, hsel, hrest]
    rfl
  unfold agreesAt atMostOne
  rw [hspec, hrep, decide_eq_true_eq]
  cases hl : isLeafJV u
  · simp only [Bool.false_eq_true, if_false]
    exact firstOnly_eq_all_iff p' q u
  · have : accepted p' u = [] := by cases u <;> simp [isLeafJV] at hl <;> rfl
    simp [filterAll_eq, this]

/-- the two sides of `C17_filter_single` on concrete documents: `$[?(@ == 2)]` is right on `[1,2,3]`
(one accepted element) and wrong on `[2,1,2]` (two) -/
example : (∀ qu ∈ expected [[]] (.arr [.int 1, .int 2, .int 3]),
      atMostOne (fun v => match v with | .int 2 => true | _ => false) qu.2 = true) ∧
    ¬ (∀ qu ∈ expected [[]] (.arr [.int 2, .int 1, .int 2]),
      atMostOne (fun v => match v with | .int 2 => true | _ => false) qu.2 = true) := by
  constructor
  · intro qu hqu
    have : qu = ([], .arr [.int 1, .int 2, .int 3]) := by simpa [expected, locs, locsList, selectedBy, selects, properPrefixes] using hqu
    subst this; decide
  · intro h
    have := h ([], .arr [.int 2, .int 1, .int 2]) (by simp [expected, locs, locsList, selectedBy, selects, properPrefixes])
    revert this; decide

/-- non-vacuity: `$[?(@ == 2)]` and `$[0]`: supported up to the filter -/
example : ∀ t ∈ [[Frag.filter fun v => match v with | .int 2 => true | _ => false], [.index 0]],
    deviates (stripFilter t) = false := by decide

/-- `C17_filter_sets` at work on the witness of known finding C17-filter-first-only: one callback,
path of the last match with the value of the first -/
example : ((expected ([[Frag.filter xIs1]].map stripFilter)
      (.arr [.obj [([120], .int 1), ([121], .int 1)], .obj [([120], .int 1), ([121], .int 2)]])).flatMap
      (reportAt Dev.cur [[Frag.filter xIs1]]
        (.arr [.obj [([120], .int 1), ([121], .int 1)], .obj [([120], .int 1), ([121], .int 2)]]))).map
      (fun c => (c.1, c.2.render)) = [([.idx 1], "{K(78)I(1),K(79)I(1)}")] := by
  rfl

end OjgVerif.C17
