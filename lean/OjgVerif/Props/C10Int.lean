import OjgVerif.Props.C10
import OjgVerif.Writer.LemmasNum
import OjgVerif.Json.NumLemmas
/-! # C10 — the integer loop of `sen.Parser`: single steps and the accumulator invariant `NumOK`

(moved out of Props/C10Tree.lean so that Props/C10Num.lean — number literals in general — can use it and
C10Tree can use C10Num) -/
set_option linter.unusedSimpArgs false
set_option linter.unusedVariables false
set_option linter.unusedSectionVars false
namespace OjgVerif.Sen
open OjgVerif
open OjgVerif.Writer (sanitize)
open OjgVerif.Json (Num BigLimit isDigitB dval natOf fmtNat)

/-! ## integers -/

/-- the accumulator holds the integer `v` exactly (sign apart), not in text form -/
def NumOK (n : Num) (neg : Bool) (v : Nat) : Prop :=
  n.big = [] ∧ n.i.toNat = v ∧ n.div = 1 ∧ n.exp = 0 ∧ n.neg = neg

theorem NumOK_digit (n : Num) (neg : Bool) (v : Nat) (d : UInt8) (h : NumOK n neg v) (hv : v < 922337203685477580)
    (hd : isDigitB d) :
    NumOK ({ n with i := n.i * 10 + (d - 48).toUInt64 } : Num) neg (v * 10 + dval d) ∧
    n.addDigit d = ({ n with i := n.i * 10 + (d - 48).toUInt64 } : Num) ∧ ¬ BigLimit ≤ n.i := by
  obtain ⟨h1, h2, h3, h4, h5⟩ := h
  have hdv : dval d ≤ 9 := by unfold dval; have := hd.2; omega
  have hBL : BigLimit.toNat = 922337203685477580 := rfl
  have hval : (n.i * 10 + (d - 48).toUInt64).toNat = v * 10 + dval d := by
    simp only [UInt64.toNat_add, UInt64.toNat_mul, Json.digit_toUInt64 d hd, h2]
    have : (10 : UInt64).toNat = 10 := rfl
    rw [this]; omega
  have hnle : ¬ BigLimit ≤ n.i := by rw [UInt64.le_iff_toNat_le, hBL, h2]; omega
  have hle : n.i ≤ BigLimit := by rw [UInt64.le_iff_toNat_le, hBL, h2]; omega
  refine ⟨⟨h1, hval, h3, h4, h5⟩, ?_, hnle⟩
  unfold Num.addDigit
  have hmax : ¬ Json.MaxInt64 < n.i * 10 + (d - 48).toUInt64 := by
    rw [UInt64.lt_iff_toNat_lt, hval]
    have hm : Json.MaxInt64.toNat = 9223372036854775807 := rfl
    omega
  simp only [h1, List.length_nil, Nat.lt_irrefl, ↓reduceIte, hle, hmax]

theorem digit_numDigit (d : UInt8) (h : isDigitB d) : expected .digit d = .numDigit := by
  have := forall_byte (fun b => !(48 ≤ b && b ≤ 57) || expected .digit b == .numDigit) (by decide +kernel) d
  have h1 : (48 : UInt8) ≤ d := by rw [UInt8.le_iff_toNat_le]; exact h.1
  have h2 : d ≤ (57 : UInt8) := by rw [UInt8.le_iff_toNat_le]; exact h.2
  simpa [h1, h2] using this

/-- one more digit of an integer that stays below the limit -/
theorem step_numDigit (st : St) (f : Fast) (d : UInt8) (l : Bool) (neg : Bool) (v : Nat) (hm : st.mode = .digit)
    (hf : f.nlSkipping = false) (hd : isDigitB d) (hn : NumOK st.num neg v) (hv : v < 922337203685477580) :
    ∃ f', f'.nlSkipping = false ∧
      step refTables {} st f d l = .ok ({ st with num := { st.num with i := st.num.i * 10 + (d - 48).toUInt64 } }, f', false) := by
  obtain ⟨hok, hadd, hnle⟩ := NumOK_digit st.num neg v d hn hv hd
  have hact := digit_numDigit d hd
  refine ⟨{ inFast := f.inFast && !(BigLimit ≤ st.num.i), tokFast := f.tokFast, nlSkipping := false }, rfl, ?_⟩
  simp [step, stepCore, stepAct, stepActP, nextFast, deliver, refTables, expectedFin, hm, hf, hact, hadd, hnle]

/-- the same with the fast-path record spelled out: below the limit the integer loop stays in the state it is in -/
theorem step_numDigitF (st : St) (f : Fast) (d : UInt8) (l : Bool) (neg : Bool) (v : Nat) (hm : st.mode = .digit)
    (hf : f.nlSkipping = false) (hd : isDigitB d) (hn : NumOK st.num neg v) (hv : v < 922337203685477580) :
    step refTables {} st f d l = .ok ({ st with num := st.num.addDigit d },
      { inFast := f.inFast, tokFast := f.tokFast, nlSkipping := false }, false) := by
  obtain ⟨hok, hadd, hnle⟩ := NumOK_digit st.num neg v d hn hv hd
  have hact := digit_numDigit d hd
  rw [hadd]
  simp [step, stepCore, stepAct, stepActP, nextFast, deliver, refTables, expectedFin, hm, hf, hact, hadd, hnle]

theorem d19_digit (d : UInt8) (h : Json.Spec.isDigit19 d = true) : isDigitB d ∧ 1 ≤ dval d := by
  simp only [Json.Spec.isDigit19, Bool.and_eq_true, decide_eq_true_eq, UInt8.le_iff_toNat_le] at h
  have h1 : (49 : UInt8).toNat = 49 := rfl
  have h2 : (57 : UInt8).toNat = 57 := rfl
  rw [h1, h2] at h
  exact ⟨⟨by omega, by omega⟩, by unfold dval; omega⟩

theorem d_digit (d : UInt8) (h : Json.Spec.isDigit d = true) : isDigitB d := by
  simp only [Json.Spec.isDigit, Bool.and_eq_true, decide_eq_true_eq, UInt8.le_iff_toNat_le] at h
  have h1 : (48 : UInt8).toNat = 48 := rfl
  have h2 : (57 : UInt8).toNat = 57 := rfl
  rw [h1, h2] at h
  exact ⟨by omega, by omega⟩

theorem value_d19 (d : UInt8) (h : Json.Spec.isDigit19 d = true) :
    expected .value d = .valDigit ∧ expected .neg d = .negDigit := by
  have := forall_byte (fun b => !(49 ≤ b && b ≤ 57) || (expected .value b == .valDigit && expected .neg b == .negDigit))
    (by decide +kernel) d
  simp only [Json.Spec.isDigit19] at h
  simpa [h] using this

/-- the first digit (1..9) of a positive integer -/
theorem step_valDigit (st : St) (f : Fast) (d : UInt8) (l : Bool) (hm : st.mode = .value) (hf : f.nlSkipping = false)
    (hd : Json.Spec.isDigit19 d = true) :
    step refTables {} st f d l =
      .ok ({ st with mode := .digit, num := { st.num.reset with i := (d - 48).toUInt64 } },
           { inFast := true, tokFast := f.tokFast, nlSkipping := false }, false) := by
  have ha := (value_d19 d hd).1
  simp [step, stepCore, stepAct, stepActP, nextFast, deliver, refTables, expectedFin, hm, hf, ha]

/-- `0` -/
theorem step_val0 (st : St) (f : Fast) (l : Bool) (hm : st.mode = .value) (hf : f.nlSkipping = false) :
    step refTables {} st f 48 l = .ok ({ st with mode := .zero, num := st.num.reset }, fS f, false) := by
  simp [step, stepCore, stepAct, stepActP, nextFast, deliver, refTables, expected, expectedFin, isSep, isBlank, isDigit19,
    hm, hf, fS]

/-- `-` -/
theorem step_valNeg (st : St) (f : Fast) (l : Bool) (hm : st.mode = .value) (hf : f.nlSkipping = false) :
    step refTables {} st f 45 l = .ok ({ st with mode := .neg, num := { st.num.reset with neg := true } }, fS f, false) := by
  simp [step, stepCore, stepAct, stepActP, nextFast, refTables, expected, isSep, isBlank, isDigit19, hm, hf, fS]

/-- the first digit (1..9) after `-` -/
theorem step_negDigit (st : St) (f : Fast) (d : UInt8) (l : Bool) (hm : st.mode = .neg) (hf : f.nlSkipping = false)
    (hd : Json.Spec.isDigit19 d = true) :
    step refTables {} st f d l = .ok ({ st with num := st.num.addDigit d, mode := .digit }, fS f, false) := by
  have ha := (value_d19 d hd).2
  simp [step, stepCore, stepAct, stepActP, nextFast, deliver, refTables, expectedFin, hm, hf, ha, fS]

theorem foldl_ge (ds : Bytes) (a : Nat) : a ≤ ds.foldl (fun a b => a * 10 + dval b) a := by
  induction ds generalizing a with
  | nil => exact Nat.le_refl _
  | cons d r ih =>
    simp only [List.foldl_cons]
    have := ih (a * 10 + dval d)
    omega

/-- the remaining digits of an integer below the limit -/
theorem digits_run (ds : Bytes) : ∀ (st : St) (f : Fast) (p : Pos) (rest : Bytes) (neg : Bool) (v : Nat),
    st.mode = .digit → f.nlSkipping = false → (∀ d ∈ ds, isDigitB d) → NumOK st.num neg v →
    ds.foldl (fun a b => a * 10 + dval b) v < 9223372036854775800 →
    ∃ n' f' p', runBytes refTables {} st f p (ds ++ rest) = runBytes refTables {} { st with num := n' } f' p' rest ∧
      f'.nlSkipping = false ∧ NumOK n' neg (ds.foldl (fun a b => a * 10 + dval b) v) := by
  induction ds with
  | nil => intro st f p rest neg v hm hf _ hn _; exact ⟨st.num, f, p, rfl, hf, hn⟩
  | cons d r ih =>
    intro st f p rest neg v hm hf hds hn hv
    have hd := hds d List.mem_cons_self
    simp only [List.foldl_cons] at hv ⊢
    have hge := foldl_ge r (v * 10 + dval d)
    have hvs : v < 922337203685477580 := by omega
    obtain ⟨f1, hf1, hstep⟩ := step_numDigit st f d true neg v hm hf hd hn hvs
    have hstep' : ∀ l, step refTables {} st f d l =
        .ok ({ st with num := { st.num with i := st.num.i * 10 + (d - 48).toUInt64 } }, f1, false) := by
      intro l
      obtain ⟨f2, _, h2⟩ := step_numDigit st f d l neg v hm hf hd hn hvs
      -- the fast-path record does not depend on `l`
      have : step refTables {} st f d l = step refTables {} st f d true := by
        simp [step, hf]
      rw [this, hstep]
    obtain ⟨hok, _, _⟩ := NumOK_digit st.num neg v d hn hvs hd
    obtain ⟨n', f', p', hrun, hf', hn'⟩ := ih { st with num := { st.num with i := st.num.i * 10 + (d - 48).toUInt64 } } f1
      (p.next false) rest neg (v * 10 + dval d) hm hf1 (fun x hx => hds x (List.mem_cons_of_mem _ hx)) hok hv
    refine ⟨n', f', p', ?_, hf', hn'⟩
    rw [List.cons_append, runBytes_cons_ok {} hstep']
    exact hrun

theorem fmtNatAux_eq (fuel : Nat) : ∀ (n : Nat) (acc : Bytes), Writer.fmtNatAux fuel n acc = Json.fmtNatAux fuel n acc := by
  induction fuel with
  | zero => intro n acc; rfl
  | succ k ih => intro n acc; simp only [Writer.fmtNatAux, Json.fmtNatAux, ih]

theorem fmtNat_eq (n : Nat) : Writer.fmtNat n = Json.fmtNat n := fmtNatAux_eq _ _ _

end OjgVerif.Sen
