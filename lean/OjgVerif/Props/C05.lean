import OjgVerif.JPath.LemmasSel
/-! # C05 — Expr.Get returns exactly the elements the path denotes

`getM` is the model of `Expr.Get` (jp/get.go): a work-list machine with separate last-fragment and inner
branches, reverse pushes, the truncated-division slice arithmetic, `maxEnd` and the flag masks from
the regenerated `Gen.Jp`. `Spec.eval` is the documented denotation (iterated `flatMap` of `sel`).

* `machine_eq_skeleton` — the machine computes the recursive evaluation over its selection functions, for
  every path, every tree and every configuration (termination: `Get.cost` is a proved fuel bound).
* `C05_general` — for every configuration of the deviation flags, the machine returns exactly the
  denotation (same elements, same order) whenever the hypotheses keep the flagged branches out.
* `C05_fixed` — with every flag off (the code after the proposed fixes) this is every path that does not
  end in a bare descent and every tree of at most `maxEnd` nodes.
* `C05_partial` — the pinned code: additionally no descent directly after another fragment
  (`descentSiblings`) and no inner slice with |step| > 1 (`innerEmptySlice`).
* `C05_full_false` — the full-strength statement is false for the pinned code (three witnesses, one per
  deviation class).
* `C05_position` — a fragment selects the same elements in the last and in an inner position. -/
namespace OjgVerif.C05
open OjgVerif OjgVerif.JPath

/-- the flag bits sit above the fragment-index mask and are distinct; `maxEnd` is positive -/
theorem masks_ok :
    Gen.Jp.descentFlag_int = Gen.Jp.fragIndexMask_int + 1 ∧
    Gen.Jp.descentChildFlag_int = 2 * Gen.Jp.descentFlag_int ∧
    0 < Gen.Jp.maxEnd_int := by decide

/-- the Get machine computes the shared skeleton over Get's selection functions (values) -/
theorem machine_eq_skeleton (cfg : Cfg) (rep : Rep)
    (hcut : (cfg.typedMapWild && decide (rep.ok = OKind.rmap)) = false) (x : List Frag) (d : JV) :
    getM cfg rep x d = (getS cfg rep x d).map (·.2) := by
  cases x with
  | nil => simp [getM, getS, evalSel]
  | cons f r =>
    simp only [getM, getS]
    rw [run_eq_denV _ _ _ f r d _ (Nat.le_succ _)]
    exact denV_eq_evalSel _ cfg rep hcut (f :: r) d

theorem simple_not_cut (cfg : Cfg) : (cfg.typedMapWild && decide (Rep.simple.ok = OKind.rmap)) = false := by
  cases cfg.typedMapWild <;> rfl

/-- **C05**, parametric in the deviation flags -/
theorem C05_general (cfg : Cfg) (x : List Frag) (d : JV)
    (hs : cfg.descentSiblings = false ∨ noDescAfter x = true)
    (he : cfg.innerEmptySlice = false ∨ x.dropLast.all narrow = true)
    (ht : endsInDescent x = false) (hz : (jsize d : Int) ≤ maxEnd) :
    getM cfg Rep.simple x d = evalV x d := by
  rw [machine_eq_skeleton cfg Rep.simple (simple_not_cut cfg), getS, getS_eq_eval cfg x d hs he ht hz, evalV]

/-- the locations too: the skeleton over Get's selection functions is the denotation -/
theorem C05_located (cfg : Cfg) (x : List Frag) (d : JV)
    (hs : cfg.descentSiblings = false ∨ noDescAfter x = true)
    (he : cfg.innerEmptySlice = false ∨ x.dropLast.all narrow = true)
    (ht : endsInDescent x = false) (hz : (jsize d : Int) ≤ maxEnd) :
    getS cfg Rep.simple x d = eval x d :=
  getS_eq_eval cfg x d hs he ht hz

/-- after the proposed fixes: every path that does not end in a bare descent, every tree -/
theorem C05_fixed (x : List Frag) (d : JV) (ht : endsInDescent x = false) (hz : (jsize d : Int) ≤ maxEnd) :
    getM Cfg.fixed Rep.simple x d = evalV x d :=
  C05_general Cfg.fixed x d (Or.inl rfl) (Or.inl rfl) ht hz

/-- the pinned code, outside the two listed deviation classes -/
theorem C05_partial (x : List Frag) (d : JV)
    (hs : Cfg.pinned.descentSiblings = false ∨ noDescAfter x = true)
    (he : Cfg.pinned.innerEmptySlice = false ∨ x.dropLast.all narrow = true)
    (ht : endsInDescent x = false) (hz : (jsize d : Int) ≤ maxEnd) :
    getM Cfg.pinned Rep.simple x d = evalV x d :=
  C05_general Cfg.pinned x d hs he ht hz

/-- the statement at full strength (trees of at most `maxEnd` nodes) -/
def C05_full : Prop :=
  ∀ (x : List Frag) (d : JV), (jsize d : Int) ≤ maxEnd → getM Cfg.pinned Rep.simple x d = evalV x d

/-- `$[3:2:5].x` on `[0,1,2,{"x":1},4]` -/
def w1path : List Frag := [.slice (some 3) (some 2) (some 5), .child [120]]
def w1data : JV := .arr [.int 0, .int 1, .int 2, .obj [([120], .int 1)], .int 4]
/-- `$[*]..a` on `[[1],[{"a":5}]]` -/
def w2path : List Frag := [.wild, .descent, .child [97]]
def w2data : JV := .arr [.arr [.int 1], .arr [.obj [([97], .int 5)]]]
/-- `$[0]..` on `[5]` -/
def w3path : List Frag := [.nth 0, .descent]
def w3data : JV := .arr [.int 5]

theorem witness_inner_slice :
    (getM Cfg.pinned Rep.simple w1path w1data).length = 1 ∧ (evalV w1path w1data).length = 0 := by decide

theorem witness_siblings :
    (getM Cfg.pinned Rep.simple w2path w2data).length = 0 ∧ (evalV w2path w2data).length = 1 := by decide

theorem witness_trailing_descent :
    (getM Cfg.pinned Rep.simple w3path w3data).length = 0 ∧ (evalV w3path w3data).length = 1 := by decide

theorem C05_full_false : ¬ C05_full := by
  intro h
  have h1 := h w1path w1data (by decide)
  have h2 := witness_inner_slice
  rw [h1] at h2
  omega

/-- non-trivial instance of the hypotheses of `C05_partial`: `$.a[1:3:1][0]..b[?]` style path -/
example : noDescAfter [.descent, .child [97], .slice (some 1) (some 3) none, .nth (-1)] = true ∧
    [Frag.descent, .child [97], .slice (some 1) (some 3) none, .nth (-1)].dropLast.all narrow = true ∧
    endsInDescent [.descent, .child [97], .slice (some 1) (some 3) none, .nth (-1)] = false := by decide

/-- **a fragment selects the same elements whether it is last or in the middle of the path**: what an
inner branch pushes, popped, is what the last branch appends — all of it for a filter, the containers
among it for every other fragment (nothing else can be continued) -/
theorem C05_position (cfg : Cfg) (f : Frag) (v : JV) (hf : isDescent f = false)
    (hok : cfg.innerEmptySlice = false ∨ narrow f = true)
    (hlen : ∀ xs, v = .arr xs → (xs.length : Int) ≤ maxEnd) :
    (Get.push cfg Rep.simple f v).reverse =
      if isFilter f then Get.last cfg Rep.simple f v else contOnly (Get.last cfg Rep.simple f v) := by
  rw [inner_eq cfg f v hf hok hlen, last_eq_sel cfg f v hf hlen]

/-- for the descent: the nodes an inner descent continues on are the containers among those a last
descent reports (and the node itself) -/
theorem C05_position_descent (v : JV) :
    nodesInner v = if isContainer v then contOnly (desc v) else desc v := nodesInner_eq v

/-- **no index fault**: every index the slice code of get.go visits in the last position is an index of
the array (`tv[i]` cannot panic); the inner position visits the same indexes (`innerIdx_rev`) or, with
the `innerEmptySlice` deviation, the in-range index `start` -/
theorem C05_no_index_fault (n : Nat) (s e t : Option Int) :
    ∀ i ∈ modelIdx true n s e t, 0 ≤ i ∧ i < (n : Int) :=
  fun i hi => ⟨modelIdx_nonneg true n s e t i hi, modelIdx_lt n s e t i hi⟩

end OjgVerif.C05
