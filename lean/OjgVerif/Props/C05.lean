import OjgVerif.JPath.LemmasRfc
/-! # C05 — Expr.Get returns exactly the elements the path denotes

**What is and is not in these theorems, up front.**
* `getM` is a hand-written model of `Expr.Get` (jp/get.go): a work-list machine with separate last-fragment and
  inner branches, reverse pushes, the truncated-division slice arithmetic, `maxEnd` and the flag masks from the
  regenerated `Gen.Jp`. It is tied to the Go code by the correspondence run, not by a proof.
* **Filters are an abstract predicate** `p : JV → Bool` inside `Frag.filter p`: the theorems hold for every
  predicate and say nothing about what a script means. What a script means is `JPath/FilterSpec.lean` (the
  documented script semantics, evaluated in Lean: exact int/float comparison, a bare path is an existence
  test, `$` is the query argument wherever it stands); that Get keeps exactly the elements on which the script
  is true in that sense is decided by the run (harness + driver), not by a theorem here. (Before 22c4424 there
  was one place where it did not: a `$` inside a filter nested in a script's own path, repaired finding
  C05-nested-filter-root; the old and the documented reading are the last example of FilterSpec.lean.)
* Two denotations: `evalRfc` — the **documented** semantics (slices per RFC 9535 §2.3.4.2, transcribed in
  `Spec.lean` from the RFC) — and `eval`, the reading the code implements, which differs from it only for
  slices with a negative step outside `sliceIdx_eq_rfc_neg` (absent start or end, start outside `-n ≤ · < n`).

* `machine_eq_skeleton` — the machine computes the recursive evaluation over its selection functions, for
  every path, every tree and every configuration (termination: `Get.cost` is a proved fuel bound).
* `C05_current_rfc` — **the code as it is now against the documented semantics**: Get returns exactly what the
  path denotes (same elements, same order) for every path without a negative-step slice that does not end in
  a bare descent, every tree of at most `maxEnd` nodes. `C05_slice_step` is the index-level statement behind
  it, including the negative-step cases that do agree. `witness_negative_step`: `$[::-1]` on `[1,2,3]` — the
  RFC reverses, Get returns nothing (known finding C05-slice-negative-step).
* `C05_current` — the same against `eval` (no restriction on steps); `C05_general`: parametric in the
  deviation flags; `C05_fixed`: every flag off.
* `C05_full_false` — without the restriction on the last fragment the statement is still false
  (`witness_trailing_descent`, known finding C05-trailing-descent-leaf).
* `C05_original_partial`, `witness_inner_slice` (before 0e0caaf), `witness_siblings` (before baff053):
  what held and what failed for the code before those two fixes (`Cfg.original`).
* `C05_position` — a fragment selects the same elements in the last and in an inner position. -/
namespace OjgVerif.C05
open OjgVerif OjgVerif.JPath

/-- the flag bits sit above the fragment-index mask and are distinct; `maxEnd` is positive -/
theorem masks_ok :
    Gen.Jp.descentFlag_int = Gen.Jp.fragIndexMask_int + 1 ∧
    Gen.Jp.descentChildFlag_int = 2 * Gen.Jp.descentFlag_int ∧
    0 < Gen.Jp.maxEnd_int := by decide

/-- the Get machine computes the shared skeleton over Get's selection functions (values) -/
theorem machine_eq_skeleton (cfg : Cfg) (rep : Rep)
    (hcut : (cfg.typedMapWild && decide (rep.ok = OKind.rmap)) = false) (x : List Frag) (d : JV) :
    getM cfg rep x d = (getS cfg rep x d).map (·.2) := by
  cases x with
  | nil => simp [getM, getS, evalSel]
  | cons f r =>
    simp only [getM, getS]
    rw [run_eq_denV _ _ _ f r d _ (Nat.le_succ _)]
    exact denV_eq_evalSel _ cfg rep hcut (f :: r) d

theorem simple_not_cut (cfg : Cfg) : (cfg.typedMapWild && decide (Rep.simple.ok = OKind.rmap)) = false := by
  cases cfg.typedMapWild <;> rfl

/-- **C05**, parametric in the deviation flags -/
theorem C05_general (cfg : Cfg) (x : List Frag) (d : JV)
    (hs : cfg.descentSiblings = false ∨ noDescAfter x = true)
    (he : cfg.innerEmptySlice = false ∨ x.dropLast.all narrow = true)
    (ht : endsInDescent x = false) (hz : (jsize d : Int) ≤ maxEnd) :
    getM cfg Rep.simple x d = evalV x d := by
  rw [machine_eq_skeleton cfg Rep.simple (simple_not_cut cfg), getS, getS_eq_eval cfg x d hs he ht hz, evalV]

/-- the locations too: the skeleton over Get's selection functions is the denotation -/
theorem C05_located (cfg : Cfg) (x : List Frag) (d : JV)
    (hs : cfg.descentSiblings = false ∨ noDescAfter x = true)
    (he : cfg.innerEmptySlice = false ∨ x.dropLast.all narrow = true)
    (ht : endsInDescent x = false) (hz : (jsize d : Int) ≤ maxEnd) :
    getS cfg Rep.simple x d = eval x d :=
  getS_eq_eval cfg x d hs he ht hz

/-- **C05 for the code as it is now**: Get returns exactly the elements the path denotes, in the same order,
for every path that does not end in a bare descent and every tree -/
theorem C05_current (x : List Frag) (d : JV) (ht : endsInDescent x = false) (hz : (jsize d : Int) ≤ maxEnd) :
    getM Cfg.pinned Rep.simple x d = evalV x d :=
  C05_general Cfg.pinned x d (Or.inl rfl) (Or.inl rfl) ht hz

/-- … with the locations -/
theorem C05_current_located (x : List Frag) (d : JV) (ht : endsInDescent x = false)
    (hz : (jsize d : Int) ≤ maxEnd) : getS Cfg.pinned Rep.simple x d = eval x d :=
  C05_located Cfg.pinned x d (Or.inl rfl) (Or.inl rfl) ht hz

/-- **C05 for the code as it is now, against the documented semantics** (RFC 9535 slices): every path
without a negative-step slice that does not end in a bare descent, every tree -/
theorem C05_current_rfc (x : List Frag) (d : JV) (hp : x.all posStep = true)
    (ht : endsInDescent x = false) (hz : (jsize d : Int) ≤ maxEnd) :
    getM Cfg.pinned Rep.simple x d = evalVRfc x d := by
  rw [C05_current x d ht hz, evalV, evalVRfc, evalRfc_eq_eval x d hp]

/-- non-trivial instance of the hypotheses: `$..a[1:-1:2][?]` (a filter, a descent, a stepped slice) -/
example : [Frag.descent, .child [97], .slice (some 1) (some (-1)) (some 2), .filter (fun _ => true)].all posStep = true ∧
    endsInDescent [Frag.descent, .child [97], .slice (some 1) (some (-1)) (some 2), .filter (fun _ => true)] = false := by
  decide

/-- the slice indexes of the code's reading are the RFC's: for every positive step; for a negative step when
start and end are written and `-n ≤ start < n` -/
theorem C05_slice_step (n : Nat) (s e t : Option Int) :
    (0 < t.getD 1 → sliceIdx n s e t = rfcSliceIdx n s e t) ∧
    (∀ s0 e0, s = some s0 → e = some e0 → t.getD 1 < 0 → -(n : Int) ≤ s0 → s0 < n →
      sliceIdx n s e t = rfcSliceIdx n s e t) :=
  ⟨sliceIdx_eq_rfc_pos n s e t, fun s0 e0 hs he ht hlo hhi => by subst hs he; exact sliceIdx_eq_rfc_neg n s0 e0 t ht hlo hhi⟩

/-- `$[::-1]` on `[1,2,3]`: the documented semantics reverses the array, Get returns nothing; `$[5:0:-1]`:
documented `[3,2]`, Get nothing (known finding C05-slice-negative-step) -/
theorem witness_negative_step :
    (getM Cfg.pinned Rep.simple [.slice none none (some (-1))] (.arr [.int 1, .int 2, .int 3])).length = 0 ∧
    (evalVRfc [.slice none none (some (-1))] (.arr [.int 1, .int 2, .int 3])).length = 3 ∧
    (getM Cfg.pinned Rep.simple [.slice (some 5) (some 0) (some (-1))] (.arr [.int 1, .int 2, .int 3])).length = 0 ∧
    (evalVRfc [.slice (some 5) (some 0) (some (-1))] (.arr [.int 1, .int 2, .int 3])).length = 2 := by decide

/-- every flag off -/
theorem C05_fixed (x : List Frag) (d : JV) (ht : endsInDescent x = false) (hz : (jsize d : Int) ≤ maxEnd) :
    getM Cfg.fixed Rep.simple x d = evalV x d :=
  C05_general Cfg.fixed x d (Or.inl rfl) (Or.inl rfl) ht hz

/-- the code before baff053 and 0e0caaf, outside the two deviation classes -/
theorem C05_original_partial (x : List Frag) (d : JV)
    (hs : noDescAfter x = true) (he : x.dropLast.all narrow = true)
    (ht : endsInDescent x = false) (hz : (jsize d : Int) ≤ maxEnd) :
    getM Cfg.original Rep.simple x d = evalV x d :=
  C05_general Cfg.original x d (Or.inr hs) (Or.inr he) ht hz

/-- the statement at full strength (trees of at most `maxEnd` nodes, every path) -/
def C05_full : Prop :=
  ∀ (x : List Frag) (d : JV), (jsize d : Int) ≤ maxEnd → getM Cfg.pinned Rep.simple x d = evalV x d

/-- `$[3:2:5].x` on `[0,1,2,{"x":1},4]` -/
def w1path : List Frag := [.slice (some 3) (some 2) (some 5), .child [120]]
def w1data : JV := .arr [.int 0, .int 1, .int 2, .obj [([120], .int 1)], .int 4]
/-- `$[*]..a` on `[[1],[{"a":5}]]` -/
def w2path : List Frag := [.wild, .descent, .child [97]]
def w2data : JV := .arr [.arr [.int 1], .arr [.obj [([97], .int 5)]]]
/-- `$[0]..` on `[5]` -/
def w3path : List Frag := [.nth 0, .descent]
def w3data : JV := .arr [.int 5]

/-- before 0e0caaf: an empty slice range with |step| > 1 selected one element in an inner position;
now it selects none -/
theorem witness_inner_slice :
    (getM Cfg.original Rep.simple w1path w1data).length = 1 ∧ (evalV w1path w1data).length = 0 ∧
    (getM Cfg.pinned Rep.simple w1path w1data).length = 0 := by decide

/-- before baff053: a descent after a fragment that hands on several containers descended into the first
only; now into all -/
theorem witness_siblings :
    (getM Cfg.original Rep.simple w2path w2data).length = 0 ∧ (evalV w2path w2data).length = 1 ∧
    (getM Cfg.pinned Rep.simple w2path w2data).length = 1 := by decide

/-- still so: a non-container selected before a trailing bare descent is not reported -/
theorem witness_trailing_descent :
    (getM Cfg.pinned Rep.simple w3path w3data).length = 0 ∧ (evalV w3path w3data).length = 1 := by decide

theorem C05_full_false : ¬ C05_full := by
  intro h
  have h1 := h w3path w3data (by decide)
  have h2 := witness_trailing_descent
  rw [h1] at h2
  omega

/-- non-trivial instance of the hypotheses of `C05_original_partial` (and of `C05_current`): `$..a[1:3][-1]` -/
example : noDescAfter [.descent, .child [97], .slice (some 1) (some 3) none, .nth (-1)] = true ∧
    [Frag.descent, .child [97], .slice (some 1) (some 3) none, .nth (-1)].dropLast.all narrow = true ∧
    endsInDescent [.descent, .child [97], .slice (some 1) (some 3) none, .nth (-1)] = false := by decide

/-- **a fragment selects the same elements whether it is last or in the middle of the path**: what an
inner branch pushes, popped, is what the last branch appends — all of it for a filter, the containers
among it for every other fragment (nothing else can be continued) -/
theorem C05_position (cfg : Cfg) (f : Frag) (v : JV) (hf : isDescent f = false)
    (hok : cfg.innerEmptySlice = false ∨ narrow f = true)
    (hlen : ∀ xs, v = .arr xs → (xs.length : Int) ≤ maxEnd) :
    (Get.push cfg Rep.simple f v).reverse =
      if isFilter f then Get.last cfg Rep.simple f v else contOnly (Get.last cfg Rep.simple f v) := by
  rw [inner_eq cfg f v hf hok hlen, last_eq_sel cfg f v hf hlen]

/-- for the descent: the nodes an inner descent continues on are the containers among those a last
descent reports (and the node itself) -/
theorem C05_position_descent (v : JV) :
    nodesInner v = if isContainer v then contOnly (desc v) else desc v := nodesInner_eq v

/-- **no index fault**: every index the slice code of get.go visits in the last position is an index of
the array (`tv[i]` cannot panic); the inner position visits the same indexes (`innerIdx_rev`) or, with
the `innerEmptySlice` deviation, the in-range index `start` -/
theorem C05_no_index_fault (n : Nat) (s e t : Option Int) :
    ∀ i ∈ modelIdx true n s e t, 0 ≤ i ∧ i < (n : Int) :=
  fun i hi => ⟨modelIdx_nonneg true n s e t i hi, modelIdx_lt n s e t i hi⟩

end OjgVerif.C05
