import OjgVerif.Reflect.RegLemmas
/-! # C16 — Recompose is independent of the history (PARTIAL: registry logic on a model)

Go types are data; `Reflect/Registry.lean` models `alt/recomposer.go` (`registerComposer`,
`indexType`, `recomp`, `setValue`, `recompAny`) with the registry keyed as the code keys it: bare
type name AND `pkgpath/name`. Proved here, for every datum, fuel and create key:

* `history_independent_current`: for the code AS IT IS, the outcome of recomposing a type does not
  depend on the history — PROVIDED no two struct types that are met share a bare or full name
  (`NameInj` over a universe `U` closed under components), no struct embeds a pointer (`goodT`) and
  the target has no `interface{}` slot (`noIface`: create-key names are resolved against the
  registry by design). Under these hypotheses the outcome is `recomposePure`: every struct decoded
  with its own field index (`recompose_current_eq_pure`).
* `history_independent_repaired`: with the proposed repair (a composer found under a name is used only
  if it was made for this very type) the same holds WITHOUT the name hypothesis.
* `C16_history_full_false`: at full strength the statement is false for the code as it is — a second
  struct literal type is decoded with the first one's index; `nested_anonymous_loses_fields`: a
  struct literal nested in a struct literal loses its fields without any history, and
  `repair_fixes_witnesses`: the repaired lookup decodes both correctly.

Not proved (checked by the oracle of the harness only): that `recomposePure` inverts `Decompose`
and `Unmarshal` inverts `Marshal` on the value level. `reflect` is below the model. -/
namespace OjgVerif.C16
open OjgVerif OjgVerif.Reflect

/-! ## the repaired lookup: no hypothesis on names -/

theorem lookupOK_repaired : LookupOK (fun _ _ => True) (fun t => goodT t = true) false := by
  intro k n p fs T' _ _ _ _ hb; cases hb

/-- with the repair, after ANY two histories of good types a good type without interface slots is
recomposed in the same way — as with the ideal registry -/
theorem recompose_repaired_eq_pure (ck : Bytes) (h : List Event)
    (hev : ∀ e ∈ h, EventOK (fun t => goodT t = true) e) (t : GoType) (hg : goodT t = true) (hn : noIface t = true) (j : JV) :
    recompose false ck (regAfter false ck h) t j = recomposePure ck t j :=
  recompose_eq_pure (fun _ _ => True) (fun t => goodT t = true) false goodT_her (fun _ h => h)
    (fun _ _ _ _ => ⟨trivial, trivial⟩) lookupOK_repaired ck h hev t hg hn j

theorem history_independent_repaired (ck : Bytes) (h₁ h₂ : List Event)
    (hev₁ : ∀ e ∈ h₁, EventOK (fun t => goodT t = true) e) (hev₂ : ∀ e ∈ h₂, EventOK (fun t => goodT t = true) e)
    (t : GoType) (hg : goodT t = true) (hn : noIface t = true) (j : JV) :
    recompose false ck (regAfter false ck h₁) t j = recompose false ck (regAfter false ck h₂) t j := by
  rw [recompose_repaired_eq_pure ck h₁ hev₁ t hg hn, recompose_repaired_eq_pure ck h₂ hev₂ t hg hn]

/-! ## the code as it is: names must determine types -/

/-- among the types of `U`, a bare or full name belongs to one struct type only -/
def NameInj (U : GoType → Prop) : Prop :=
  ∀ (n p : Bytes) (fs : List (FieldHdr × GoType)) (n' p' : Bytes) (fs' : List (FieldHdr × GoType)),
    U (.struct n p fs) → U (.struct n' p' fs') →
    (n' = n ∨ n' = fullName n p ∨ fullName n' p' = n ∨ fullName n' p' = fullName n p) →
    GoType.struct n' p' fs' = GoType.struct n p fs

/-- the key a composer is filed under is one of the two names of its type -/
def KName (k : Bytes) (T : GoType) : Prop := ∃ n p fs, T = .struct n p fs ∧ (k = n ∨ k = fullName n p)

def QU (U : GoType → Prop) (t : GoType) : Prop := goodT t = true ∧ U t

theorem qu_her {U : GoType → Prop} (hU : Her U) : Her (QU U) := by
  constructor
  · intro e h; exact ⟨goodT_her.slice e h.1, hU.slice e h.2⟩
  · intro n e h; exact ⟨goodT_her.array n e h.1, hU.array n e h.2⟩
  · intro e h; exact ⟨goodT_her.map e h.1, hU.map e h.2⟩
  · intro e h; exact ⟨goodT_her.ptr e h.1, hU.ptr e h.2⟩
  · intro n p fs i ht h hi; exact ⟨goodT_her.field n p fs i ht h.1 hi, hU.field n p fs i ht h.2 hi⟩

theorem lookupOK_current {U : GoType → Prop} (hinj : NameInj U) : LookupOK KName (QU U) true := by
  intro k n p fs T' hk hq hq' hK _
  obtain ⟨n', p', fs', rfl, hk'⟩ := hK
  apply hinj n p fs n' p' fs' hq.2 hq'.2
  rcases hk with rfl | rfl <;> rcases hk' with h | h
  · exact Or.inl h.symm
  · exact Or.inr (Or.inr (Or.inl h.symm))
  · exact Or.inr (Or.inl h.symm)
  · exact Or.inr (Or.inr (Or.inr h.symm))

/-- **C16 (history), for the code as it is, excluding exactly the name collisions.** -/
theorem recompose_current_eq_pure (U : GoType → Prop) (hU : Her U) (hinj : NameInj U) (ck : Bytes) (h : List Event)
    (hev : ∀ e ∈ h, EventOK (QU U) e) (t : GoType) (hq : QU U t) (hn : noIface t = true) (j : JV) :
    recompose true ck (regAfter true ck h) t j = recomposePure ck t j :=
  recompose_eq_pure KName (QU U) true (qu_her hU) (fun _ h => h.1)
    (fun n p fs _ => ⟨⟨n, p, fs, rfl, Or.inl rfl⟩, ⟨n, p, fs, rfl, Or.inr rfl⟩⟩) (lookupOK_current hinj) ck h hev t hq hn j

theorem history_independent_current (U : GoType → Prop) (hU : Her U) (hinj : NameInj U) (ck : Bytes) (h₁ h₂ : List Event)
    (hev₁ : ∀ e ∈ h₁, EventOK (QU U) e) (hev₂ : ∀ e ∈ h₂, EventOK (QU U) e)
    (t : GoType) (hq : QU U t) (hn : noIface t = true) (j : JV) :
    recompose true ck (regAfter true ck h₁) t j = recompose true ck (regAfter true ck h₂) t j := by
  rw [recompose_current_eq_pure U hU hinj ck h₁ hev₁ t hq hn, recompose_current_eq_pure U hU hinj ck h₂ hev₂ t hq hn]

/-! ### the hypotheses are not vacuous: two named types of one package -/

def sT : GoType := .struct "T".toUTF8.toList "pa".toUTF8.toList [(⟨"Alpha".toUTF8.toList, [], false⟩, .str), (⟨"Count".toUTF8.toList, [], false⟩, .int 0)]
def sLeaf : GoType := .struct "Leaf".toUTF8.toList "pa".toUTF8.toList [(⟨"Flag".toUTF8.toList, [], false⟩, .bool)]

example : goodT sT = true ∧ noIface sT = true ∧ goodT sLeaf = true := by decide +kernel

/-- a universe: the two named types and the types of their fields -/
def Uex (t : GoType) : Prop := t = sT ∨ t = sLeaf ∨ t = .str ∨ t = .int 0 ∨ t = .bool

theorem uex_her : Her Uex := by
  constructor
  · intro e h; rcases h with h | h | h | h | h <;> simp [sT, sLeaf] at h
  · intro n e h; rcases h with h | h | h | h | h <;> simp [sT, sLeaf] at h
  · intro e h; rcases h with h | h | h | h | h <;> simp [sT, sLeaf] at h
  · intro e h; rcases h with h | h | h | h | h <;> simp [sT, sLeaf] at h
  · intro n p fs i ht h hi
    rcases h with h | h | h | h | h
    · simp only [sT, GoType.struct.injEq] at h
      obtain ⟨_, _, rfl⟩ := h
      match i, hi with
      | 0, hi => simp at hi; subst hi; exact Or.inr (Or.inr (Or.inl rfl))
      | 1, hi => simp at hi; subst hi; exact Or.inr (Or.inr (Or.inr (Or.inl rfl)))
      | k + 2, hi => simp at hi
    · simp only [sLeaf, GoType.struct.injEq] at h
      obtain ⟨_, _, rfl⟩ := h
      match i, hi with
      | 0, hi => simp at hi; subst hi; exact Or.inr (Or.inr (Or.inr (Or.inr rfl)))
      | k + 1, hi => simp at hi
    · cases h
    · cases h
    · cases h

theorem uex_inj : NameInj Uex := by
  intro n p fs n' p' fs' h h' hk
  rcases h with h | h | h | h | h <;> rcases h' with h' | h' | h' | h' | h' <;>
    first
    | (rw [h', h]; done)
    | (simp [sT, sLeaf] at h h'; done)
    | (exfalso
       simp only [sT, sLeaf, GoType.struct.injEq] at h h'
       obtain ⟨rfl, rfl, rfl⟩ := h
       obtain ⟨rfl, rfl, rfl⟩ := h'
       revert hk
       decide +kernel)

/-- the theorem about the code as it is applies: `pa.T` after `pa.Leaf` was registered -/
example (j : JV) : recompose true [] (regAfter true [] [.register sLeaf]) sT j = recompose true [] (regAfter true [] []) sT j :=
  history_independent_current Uex uex_her uex_inj [] [.register sLeaf] []
    (by
      intro e he
      simp only [List.mem_singleton] at he
      subst he
      intro n p fs heq
      simp only [derefT, sLeaf, GoType.struct.injEq] at heq
      obtain ⟨rfl, rfl, rfl⟩ := heq
      exact ⟨by decide +kernel, Or.inr (Or.inl rfl)⟩)
    (by intro e he; cases he)
    sT ⟨by decide +kernel, Or.inl rfl⟩ (by decide +kernel) j

/-! ## the code as it is, at full strength -/

/-- C16's second sentence at full strength -/
def C16_history_full : Prop :=
  ∀ (ck : Bytes) (h₁ h₂ : List Event) (t : GoType) (j : JV),
    recompose true ck (regAfter true ck h₁) t j = recompose true ck (regAfter true ck h₂) t j

/-- `struct{ Alpha string }` and `struct{ Beta int }`: two struct literal types, both named "" -/
def anonA : GoType := .struct [] [] [(⟨"Alpha".toUTF8.toList, [], false⟩, .str)]
def anonB : GoType := .struct [] [] [(⟨"Beta".toUTF8.toList, [], false⟩, .int 0)]
def datumB : JV := .obj [("beta".toUTF8.toList, .int 5)]

/-- on a fresh recomposer `{"beta":5}` gives `struct{Beta int}{5}`; after `struct{Alpha string}` was
registered the same call gives `{0}`: the composer filed under "" is the other type's -/
theorem history_witness :
    slotIs (recompose true [] (regAfter true [] []) anonB datumB) (.struct [.int 5]) = true ∧
    slotIs (recompose true [] (regAfter true [] [.register anonA]) anonB datumB) (.struct [.int 0]) = true := by
  decide +kernel

theorem C16_history_full_false : ¬ C16_history_full := by
  intro h
  have h1 := h [] [] [.register anonA] anonB datumB
  have hw := history_witness
  rw [h1] at hw
  have : slotIs (recompose true [] (regAfter true [] [.register anonA]) anonB datumB) (.struct [.int 5]) = false := by
    decide +kernel
  rw [this] at hw
  exact absurd hw.1 (by decide)

/-- `struct{ URL struct{ Alpha string; Delta uint16 } }`: the inner struct literal shares the name ""
with the outer one -/
def anonNested : GoType :=
  .struct [] [] [(⟨"URL".toUTF8.toList, [], false⟩,
    .struct [] [] [(⟨"Alpha".toUTF8.toList, [], false⟩, .str), (⟨"Delta".toUTF8.toList, [], false⟩, .int 7)])]
def datumNested : JV := .obj [("url".toUTF8.toList, .obj [("alpha".toUTF8.toList, .str [120]), ("delta".toUTF8.toList, .int 3)])]

/-- without any history the inner fields are lost (Recompose(Decompose(v)) ≠ v), where the ideal
registry gives them back -/
theorem nested_anonymous_loses_fields :
    slotIs (recompose true [] [] anonNested datumNested) (.struct [.struct [.str [], .int 0]]) = true ∧
    slotIs (recomposePure [] anonNested datumNested) (.struct [.struct [.str [120], .int 3]]) = true := by
  decide +kernel

/-- the repaired lookup decodes both witnesses correctly -/
theorem repair_fixes_witnesses :
    slotIs (recompose false [] (regAfter false [] [.register anonA]) anonB datumB) (.struct [.int 5]) = true ∧
    slotIs (recompose false [] [] anonNested datumNested) (.struct [.struct [.str [120], .int 3]]) = true := by
  decide +kernel

end OjgVerif.C16
