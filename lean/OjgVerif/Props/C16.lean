import OjgVerif.Reflect.RegLemmas
import OjgVerif.Gen.Reflect
/-! # C16 — Recompose is independent of the history (PARTIAL: registry logic on a model)

In one sentence: the title clause (Decompose/Recompose and Marshal/Unmarshal are inverse on values) is
NOT proved in THIS file — since round 3 it is proved, for a named fragment, in `Props/C16inv.lean` —;
what is proved here is the history clause, and only for target types WITHOUT an
`interface{}` slot (`noIface`) — which excludes exactly the case where a create-key name in the data
is resolved against the registry, the one place where the history matters by design. Recursive struct
types are not values of `GoType` (a finite tree).

Go types are data; `Reflect/Registry.lean` models `alt/recomposer.go` (`registerComposer`,
`indexType`, `recomp`, `setValue`, `recompAny`) with the registry keyed as the code keys it: bare
type name AND `pkgpath/name`. The flag `bareName` of the model is `false` for the code as it is NOW
(since /repo a720b7c: a composer found under a name is used only for the type it was made for — 6d5fecb —
and the field walk of `registerComposer` unwraps containers completely — a720b7c;
`current_lookup_in_source` ties that to the source) and `true` for the code BEFORE 6d5fecb (lookup by
bare name, one level of unwrapping; the trees between the two commits are not modelled).
Proved here, for every datum, fuel and create key:

* `history_independent_current` (`C16_history_partial`), `recompose_current_eq_pure`: for the code as it
  is now the outcome of recomposing a type does not depend on the history and equals
  `recomposePure` (every struct decoded with its own field index) — for every type without
  `interface{}` slot (`noIface`: create-key names are resolved against the registry by design). No
  condition on names, and since /repo b19f06c none on embedded pointers (`goodT_true`).
* `C16_history_full_false`: at full strength the history clause is false only because of that design:
  `history_witness` — what an interface slot holding `{"^":"T",…}` comes back as depends on whether `T`
  was registered. `embedded_pointer_repaired`, `nil_elements_kept`: the repairs b19f06c, 4344ad7,
  f1da31f on the model; `current_values_in_source` ties them to the source.
* `history_independent_before`, `recompose_before_eq_pure`: the code before 6d5fecb needed in
  addition that no two struct types met share a bare or full name (`NameInj` over a universe closed
  under components; instance `uex_her`, `uex_inj`); `history_witness_before`,
  `C16_history_full_before_false`, `nested_anonymous_lost_fields_before`: it decoded a second struct
  literal type with the first one's index and lost the fields of a nested struct literal without
  any history; `current_decodes_witnesses`: the code as it is now decodes both correctly.

That `recomposePure` inverts `Decompose` on the value level (and the tree of `Marshal`) is the subject
of `Props/C16inv.lean` (fragment `rtOK`); outside that fragment it is checked by the oracle of the
harness only. `reflect` is below the model. -/
namespace OjgVerif.C16
open OjgVerif OjgVerif.Reflect

/-! ## the code as it is now (lookup guarded by the type): no hypothesis on names -/

theorem lookupOK_current_guard : LookupOK (fun _ _ => True) (fun t => goodT t = true) false := by
  intro k n p fs T' _ _ _ _ hb; cases hb

/-- after ANY history a type without interface slots is recomposed as with the ideal registry
(since /repo b19f06c no struct type makes `indexType` panic: `goodT_true`) -/
theorem recompose_current_eq_pure (ck : Bytes) (h : List Event) (t : GoType) (hn : noIface t = true) (j : JV) :
    recompose false ck (regAfter false ck h) t j = recomposePure ck t j :=
  recompose_eq_pure (fun _ _ => True) (fun t => goodT t = true) false goodT_her (fun _ h => h)
    (fun _ _ _ _ => ⟨trivial, trivial⟩) lookupOK_current_guard ck h (fun e _ => eventOK_good e) t (goodT_true t) hn j

theorem history_independent_current (ck : Bytes) (h₁ h₂ : List Event) (t : GoType) (hn : noIface t = true) (j : JV) :
    recompose false ck (regAfter false ck h₁) t j = recompose false ck (regAfter false ck h₂) t j := by
  rw [recompose_current_eq_pure ck h₁ t hn, recompose_current_eq_pure ck h₂ t hn]

/-! ## the code before 6d5fecb (lookup by bare name): names had to determine types -/

/-- among the types of `U`, a bare or full name belongs to one struct type only -/
def NameInj (U : GoType → Prop) : Prop :=
  ∀ (n p : Bytes) (fs : List (FieldHdr × GoType)) (n' p' : Bytes) (fs' : List (FieldHdr × GoType)),
    U (.struct n p fs) → U (.struct n' p' fs') →
    (n' = n ∨ n' = fullName n p ∨ fullName n' p' = n ∨ fullName n' p' = fullName n p) →
    GoType.struct n' p' fs' = GoType.struct n p fs

/-- the key a composer is filed under is one of the two names of its type -/
def KName (k : Bytes) (T : GoType) : Prop := ∃ n p fs, T = .struct n p fs ∧ (k = n ∨ k = fullName n p)

def QU (U : GoType → Prop) (t : GoType) : Prop := goodT t = true ∧ U t

theorem qu_her {U : GoType → Prop} (hU : Her U) : Her (QU U) := by
  constructor
  · intro e h; exact ⟨goodT_her.slice e h.1, hU.slice e h.2⟩
  · intro n e h; exact ⟨goodT_her.array n e h.1, hU.array n e h.2⟩
  · intro e h; exact ⟨goodT_her.map e h.1, hU.map e h.2⟩
  · intro e h; exact ⟨goodT_her.ptr e h.1, hU.ptr e h.2⟩
  · intro n p fs i ht h hi; exact ⟨goodT_her.field n p fs i ht h.1 hi, hU.field n p fs i ht h.2 hi⟩

theorem lookupOK_before {U : GoType → Prop} (hinj : NameInj U) : LookupOK KName (QU U) true := by
  intro k n p fs T' hk hq hq' hK _
  obtain ⟨n', p', fs', rfl, hk'⟩ := hK
  apply hinj n p fs n' p' fs' hq.2 hq'.2
  rcases hk with rfl | rfl <;> rcases hk' with h | h
  · exact Or.inl h.symm
  · exact Or.inr (Or.inr (Or.inl h.symm))
  · exact Or.inr (Or.inl h.symm)
  · exact Or.inr (Or.inr (Or.inr h.symm))

/-- C16 (history) for the code before 6d5fecb, excluding exactly the name collisions -/
theorem recompose_before_eq_pure (U : GoType → Prop) (hU : Her U) (hinj : NameInj U) (ck : Bytes) (h : List Event)
    (hev : ∀ e ∈ h, EventOK (QU U) e) (t : GoType) (hq : QU U t) (hn : noIface t = true) (j : JV) :
    recompose true ck (regAfter true ck h) t j = recomposePure ck t j :=
  recompose_eq_pure KName (QU U) true (qu_her hU) (fun _ h => h.1)
    (fun n p fs _ => ⟨⟨n, p, fs, rfl, Or.inl rfl⟩, ⟨n, p, fs, rfl, Or.inr rfl⟩⟩) (lookupOK_before hinj) ck h hev t hq hn j

theorem history_independent_before (U : GoType → Prop) (hU : Her U) (hinj : NameInj U) (ck : Bytes) (h₁ h₂ : List Event)
    (hev₁ : ∀ e ∈ h₁, EventOK (QU U) e) (hev₂ : ∀ e ∈ h₂, EventOK (QU U) e)
    (t : GoType) (hq : QU U t) (hn : noIface t = true) (j : JV) :
    recompose true ck (regAfter true ck h₁) t j = recompose true ck (regAfter true ck h₂) t j := by
  rw [recompose_before_eq_pure U hU hinj ck h₁ hev₁ t hq hn, recompose_before_eq_pure U hU hinj ck h₂ hev₂ t hq hn]

/-! ### the hypotheses are not vacuous: two named types of one package -/

def sT : GoType := .struct "T".toUTF8.toList "pa".toUTF8.toList [(⟨"Alpha".toUTF8.toList, [], false⟩, .str), (⟨"Count".toUTF8.toList, [], false⟩, .int 0)]
def sLeaf : GoType := .struct "Leaf".toUTF8.toList "pa".toUTF8.toList [(⟨"Flag".toUTF8.toList, [], false⟩, .bool)]

example : goodT sT = true ∧ noIface sT = true ∧ goodT sLeaf = true := by decide +kernel

/-- a universe: the two named types and the types of their fields -/
def Uex (t : GoType) : Prop := t = sT ∨ t = sLeaf ∨ t = .str ∨ t = .int 0 ∨ t = .bool

theorem uex_her : Her Uex := by
  constructor
  · intro e h; rcases h with h | h | h | h | h <;> simp [sT, sLeaf] at h
  · intro n e h; rcases h with h | h | h | h | h <;> simp [sT, sLeaf] at h
  · intro e h; rcases h with h | h | h | h | h <;> simp [sT, sLeaf] at h
  · intro e h; rcases h with h | h | h | h | h <;> simp [sT, sLeaf] at h
  · intro n p fs i ht h hi
    rcases h with h | h | h | h | h
    · simp only [sT, GoType.struct.injEq] at h
      obtain ⟨_, _, rfl⟩ := h
      match i, hi with
      | 0, hi => simp at hi; subst hi; exact Or.inr (Or.inr (Or.inl rfl))
      | 1, hi => simp at hi; subst hi; exact Or.inr (Or.inr (Or.inr (Or.inl rfl)))
      | k + 2, hi => simp at hi
    · simp only [sLeaf, GoType.struct.injEq] at h
      obtain ⟨_, _, rfl⟩ := h
      match i, hi with
      | 0, hi => simp at hi; subst hi; exact Or.inr (Or.inr (Or.inr (Or.inr rfl)))
      | k + 1, hi => simp at hi
    · cases h
    · cases h
    · cases h

theorem uex_inj : NameInj Uex := by
  intro n p fs n' p' fs' h h' hk
  rcases h with h | h | h | h | h <;> rcases h' with h' | h' | h' | h' | h' <;>
    first
    | (rw [h', h]; done)
    | (simp [sT, sLeaf] at h h'; done)
    | (exfalso
       simp only [sT, sLeaf, GoType.struct.injEq] at h h'
       obtain ⟨rfl, rfl, rfl⟩ := h
       obtain ⟨rfl, rfl, rfl⟩ := h'
       revert hk
       decide +kernel)

/-- the theorem about the code before 6d5fecb applies: `pa.T` after `pa.Leaf` was registered -/
example (j : JV) : recompose true [] (regAfter true [] [.register sLeaf]) sT j = recompose true [] (regAfter true [] []) sT j :=
  history_independent_before Uex uex_her uex_inj [] [.register sLeaf] []
    (by
      intro e he
      simp only [List.mem_singleton] at he
      subst he
      intro n p fs heq
      simp only [derefT, sLeaf, GoType.struct.injEq] at heq
      obtain ⟨rfl, rfl, rfl⟩ := heq
      exact ⟨by decide +kernel, Or.inr (Or.inl rfl)⟩)
    (by intro e he; cases he)
    sT ⟨by decide +kernel, Or.inl rfl⟩ (by decide +kernel) j

/-! ## full strength -/

/-- C16's second sentence at full strength, for the lookup `b` (`false`: the code as it is now) -/
def C16_history_full_for (b : Bool) : Prop :=
  ∀ (ck : Bytes) (h₁ h₂ : List Event) (t : GoType) (j : JV),
    recompose b ck (regAfter b ck h₁) t j = recompose b ck (regAfter b ck h₂) t j

def C16_history_full : Prop := C16_history_full_for false
def C16_history_full_before : Prop := C16_history_full_for true

/-- **C16 (history), partial, for the code as it is now**: excluded are exactly the interface slots
(`noIface`: create-key names in the data are resolved against the registry by design) -/
theorem C16_history_partial (ck : Bytes) (h₁ h₂ : List Event) (t : GoType) (hn : noIface t = true) (j : JV) :
    recompose false ck (regAfter false ck h₁) t j = recompose false ck (regAfter false ck h₂) t j :=
  history_independent_current ck h₁ h₂ t hn j

/-- `struct{ A any }` and the named type `pa.T` -/
def anyHolder : GoType := .struct [] [] [(⟨"A".toUTF8.toList, [], false⟩, .iface)]
def datumAny : JV := .obj [("a".toUTF8.toList, .obj [([94], .str "T".toUTF8.toList), ("alpha".toUTF8.toList, .str [120])])]

/-- with the create key "^", `{"a":{"^":"T","alpha":"x"}}` into `struct{A any}`: on a fresh recomposer the
interface holds the map; after `pa.T` was registered it holds a `*pa.T` — by design, the data names
the type -/
theorem history_witness :
    slotIs (recompose false [94] (regAfter false [94] []) anyHolder datumAny)
      (.struct [.iface (.map .iface) (.map [([94], .iface .str (.str "T".toUTF8.toList)),
        ("alpha".toUTF8.toList, .iface .str (.str [120]))])]) = true ∧
    slotIs (recompose false [94] (regAfter false [94] [.register sT]) anyHolder datumAny)
      (.struct [.iface (.ptr sT) (.ptr (.struct [.str [120], .int 0]))]) = true := by
  decide +kernel

theorem C16_history_full_false : ¬ C16_history_full := by
  intro h
  have h1 := h [94] [] [.register sT] anyHolder datumAny
  have hw := history_witness
  rw [h1] at hw
  have : slotIs (recompose false [94] (regAfter false [94] [.register sT]) anyHolder datumAny)
      (.struct [.iface (.map .iface) (.map [([94], .iface .str (.str "T".toUTF8.toList)),
        ("alpha".toUTF8.toList, .iface .str (.str [120]))])]) = false := by decide +kernel
  rw [this] at hw
  exact absurd hw.1 (by decide)

/-- `type E struct{ Q int }; type U struct{ *E }; type T struct{ A int; P *U }` -/
def embU : GoType := .struct "U".toUTF8.toList [] [(⟨"E".toUTF8.toList, [], true⟩, .ptr (.struct "E".toUTF8.toList [] [(⟨"Q".toUTF8.toList, [], false⟩, .int 0)]))]
def embT : GoType := .struct "T".toUTF8.toList [] [(⟨"A".toUTF8.toList, [], false⟩, .int 0), (⟨"P".toUTF8.toList, [], false⟩, .ptr embU)]
def datumT : JV := .obj [("a".toUTF8.toList, .int 1)]
def datumU : JV := .obj [("q".toUTF8.toList, .int 2)]

/-- the witness of the embedded-pointer history dependence (before b19f06c registering `T` panicked at
`U` on a fresh recomposer and succeeded on one that had tried before) is gone: both give `T{1, nil}`;
and `U{*E}` is recomposed from `{"q":2}`, the embedded pointer being allocated -/
theorem embedded_pointer_repaired :
    slotIs (recompose false [] (regAfter false [] []) embT datumT) (.struct [.int 1, .nilPtr]) = true ∧
    slotIs (recompose false [] (regAfter false [] [.register embT]) embT datumT) (.struct [.int 1, .nilPtr]) = true ∧
    slotIs (recompose false [] [] embU datumU) (.struct [.ptr (.struct [.int 2])]) = true := by
  decide +kernel

/-- nil elements stay nil (4344ad7, f1da31f): `{"l":[null],"i":[null],"n":{"k":null}}` into
`struct{ L []*E; I []any; N map[string]any }` -/
theorem nil_elements_kept :
    slotIs (recompose false [] []
        (.struct [] [] [(⟨"L".toUTF8.toList, [], false⟩, .slice (.ptr (.struct "E".toUTF8.toList [] []))),
          (⟨"I".toUTF8.toList, [], false⟩, .slice .iface), (⟨"N".toUTF8.toList, [], false⟩, .map .iface)])
        (.obj [("l".toUTF8.toList, .arr [.null]), ("i".toUTF8.toList, .arr [.null]),
          ("n".toUTF8.toList, .obj [([107], .null)])]))
      (.struct [.slice [.nilPtr], .slice [.nilIface], .map [([107], .nilIface)]]) = true := by
  decide +kernel

/-- the value handling of the model is what the source has (regenerated facts; each fails on the
source before its commit) -/
theorem current_values_in_source :
    Gen.Reflect.altNilPtrElemKept = true ∧ Gen.Reflect.altNilIfaceKept = true ∧
    Gen.Reflect.altEmbeddedPtrIndexed = true := by
  decide +kernel

/-- the source has the guards and the complete unwrapping of containers in the field walk that the
model's `bareName = false` stands for (regenerated by `tools/extract/reflect.go`; on the source before
6d5fecb or before a720b7c this fails) -/
theorem current_lookup_in_source :
    Gen.Reflect.altRegisterWalkUnwrapsAll = true ∧
    Gen.Reflect.altRegisterNewCond = "c == nil || c.rtype != rt" ∧
    Gen.Reflect.altRecompLookups =
      ["c := r.composers[rv.Type().Name()]; c != nil && c.rtype == rv.Type() && c.any != nil",
       "c := r.composers[rv.Type().Name()]; c != nil && c.rtype == rv.Type()"] := by
  decide +kernel

/-! ### the code before 6d5fecb -/

/-- `struct{ Alpha string }` and `struct{ Beta int }`: two struct literal types, both named "" -/
def anonA : GoType := .struct [] [] [(⟨"Alpha".toUTF8.toList, [], false⟩, .str)]
def anonB : GoType := .struct [] [] [(⟨"Beta".toUTF8.toList, [], false⟩, .int 0)]
def datumB : JV := .obj [("beta".toUTF8.toList, .int 5)]

/-- on a fresh recomposer `{"beta":5}` gave `struct{Beta int}{5}`; after `struct{Alpha string}` was
registered the same call gave `{0}`: the composer filed under "" was the other type's -/
theorem history_witness_before :
    slotIs (recompose true [] (regAfter true [] []) anonB datumB) (.struct [.int 5]) = true ∧
    slotIs (recompose true [] (regAfter true [] [.register anonA]) anonB datumB) (.struct [.int 0]) = true := by
  decide +kernel

theorem C16_history_full_before_false : ¬ C16_history_full_before := by
  intro h
  have h1 := h [] [] [.register anonA] anonB datumB
  have hw := history_witness_before
  rw [h1] at hw
  have : slotIs (recompose true [] (regAfter true [] [.register anonA]) anonB datumB) (.struct [.int 5]) = false := by
    decide +kernel
  rw [this] at hw
  exact absurd hw.1 (by decide)

/-- `struct{ URL struct{ Alpha string; Delta uint16 } }`: the inner struct literal shares the name ""
with the outer one -/
def anonNested : GoType :=
  .struct [] [] [(⟨"URL".toUTF8.toList, [], false⟩,
    .struct [] [] [(⟨"Alpha".toUTF8.toList, [], false⟩, .str), (⟨"Delta".toUTF8.toList, [], false⟩, .int 7)])]
def datumNested : JV := .obj [("url".toUTF8.toList, .obj [("alpha".toUTF8.toList, .str [120]), ("delta".toUTF8.toList, .int 3)])]

/-- without any history the inner fields were lost (Recompose(Decompose(v)) ≠ v), where the ideal
registry gives them back -/
theorem nested_anonymous_lost_fields_before :
    slotIs (recompose true [] [] anonNested datumNested) (.struct [.struct [.str [], .int 0]]) = true ∧
    slotIs (recomposePure [] anonNested datumNested) (.struct [.struct [.str [120], .int 3]]) = true := by
  decide +kernel

/-- the code as it is now decodes both witnesses correctly -/
theorem current_decodes_witnesses :
    slotIs (recompose false [] (regAfter false [] [.register anonA]) anonB datumB) (.struct [.int 5]) = true ∧
    slotIs (recompose false [] [] anonNested datumNested) (.struct [.struct [.str [120], .int 3]]) = true := by
  decide +kernel

end OjgVerif.C16
