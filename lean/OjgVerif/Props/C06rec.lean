import OjgVerif.Props.C16
import OjgVerif.Gen.Reflect
import OjgVerif.Reflect.UnwrapWalk
/-! # C06rec — Unmarshal and Recompose into user types: no fault escapes (sub-check of C06)

What is DECIDED BY THE RUN (`harness/cmd/reflect/run06.go`): that the Go entry points — `oj.Unmarshal`,
`oj.Parser.Unmarshal`, `sen.Unmarshal`, `alt.Recompose`, `alt.Recomposer.Recompose`/`MustRecompose`,
`alt.NewRecomposer` — return on arbitrary data for arbitrary target types, that no panic leaves a
non-Must entry point, and which failures are recovered runtime faults handed out as the error.
Termination and fault freedom of the Go code are NOT proved.

The level of this sub-check is EXPLORATION. The theorems below are about the MODEL's registry (Go types
as finite trees, no user composer functions; Lean functions are total by construction) — they say
that the model has no panic case left in registration, not that the Go code terminates or is free
of faults:

* `registration_never_faults`: in the model of the code as it is now, registering ANY type on a
  recomposer with ANY history does not panic (since /repo b19f06c `indexType` has a case for every
  embedded field) — for Go types that are finite trees: a type that EMBEDS ITSELF through a pointer
  is not a value of `GoType`; there the Go code recursed for ever until /repo 25154ae (finding
  `C06rec-self-embedding`, fixed; `self_embedding_guarded_in_source` pins the repaired source fact and
  fails on the source before the commit);
* `index_total`: every struct type of the model has a field index (little more than unfolding the
  definition of the model's `indexType`, which has a case for every field);
* `failure_is_history_independent`: whether recomposing a datum into a type without interface slots
  fails does not depend on what the recomposer has seen before (C16);
* `entry_points_recover`: `(*Recomposer).Recompose` and `NewRecomposer` carry the deferred recover that
  turns a panic into the error result (regenerated from the source);
* `any_composer_guarded_in_source`: since /repo fd0bfc5 `registerAnyComposer` has the type test of
  `registerComposer` (finding `C06rec-any-composer-unguarded`, fixed; fails on the source before);
* `selfcontaining_container_guarded_in_source`: since /repo 041b92d the unwrap loop of the field walk of
  `registerComposer` stops at a NAMED container type met a second time (finding
  `C06-recompose-selfcontaining-container`, fixed: `type Tree map[string]Tree` as a field type made
  registration spin for ever). Such types are not values of the model's `GoType` (a finite tree);
  `Reflect/UnwrapWalk.lean` models the loop over a type GRAPH (a table of named types):
  `unwrap_walk_terminates` — with the seen-list the loop ends on every table and start type, within an
  explicit bound (lexicographic measure: named types not yet seen, size of the unnamed term);
  `unwrap_walk_unguarded_spins` — without it it never ends on `type Tree map[string]Tree`. That the Go
  loop is that walk is tied by the source fact and the run (a stream of such types under the watchdog).

The model is total by construction (Lean functions, fuel-bounded): every model run ends in a value, a
`panic` (a Go panic, recovered by `Recompose` into its error) or `outside`; it does not tell an error
of the library's own from a recovered reflect fault — that distinction is the run's. -/
namespace OjgVerif.C06rec
open OjgVerif OjgVerif.Reflect

private theorem regAfter_inv_current (ck : Bytes) (h : List Event) :
    InvG (fun _ _ => True) (fun t => goodT t = true) (regAfter false ck h) :=
  regAfter_inv (fun _ _ => True) (fun t => goodT t = true) false goodT_her (fun _ h => h)
    (fun _ _ _ _ => ⟨trivial, trivial⟩) C16.lookupOK_current_guard ck h [] (invG_nil _ _) (fun e _ => eventOK_good e)

/-- registering any type after any history does not panic (model of the code as it is now) -/
theorem registration_never_faults (ck : Bytes) (h : List Event) (f : Nat) (t : GoType) :
    (registerT true f (regAfter false ck h) t).panicked = false :=
  (registerT_inv (fun _ _ => True) (fun t => goodT t = true) false goodT_her (fun _ h => h)
    (fun _ _ _ _ => ⟨trivial, trivial⟩) C16.lookupOK_current_guard f (regAfter false ck h) t
    (regAfter_inv_current ck h) (fun n p fs _ => goodT_true (.struct n p fs))).2.1

/-- every struct type has a field index (`indexType` has a case for every field) -/
theorem index_total (n p : Bytes) (fs : List (FieldHdr × GoType)) :
    ∃ im, indexType fuelI (.struct n p fs) = some im := by
  have h := (registerT_inv (fun _ _ => True) (fun t => goodT t = true) false goodT_her (fun _ h => h)
    (fun _ _ _ _ => ⟨trivial, trivial⟩) C16.lookupOK_current_guard 1 [] (.struct n p fs)
    (invG_nil _ _) (fun n' p' fs' _ => goodT_true (.struct n' p' fs'))).2.2 n p fs rfl
  obtain ⟨c, _, hc⟩ := h
  exact ⟨c.indexes, hc⟩

/-- the outcome of a recomposition — in particular whether it fails — does not depend on the history,
for types without interface slots -/
theorem failure_is_history_independent (ck : Bytes) (h₁ h₂ : List Event) (t : GoType) (hn : noIface t = true) (j : JV) :
    recompose false ck (regAfter false ck h₁) t j = recompose false ck (regAfter false ck h₂) t j :=
  C16.C16_history_partial ck h₁ h₂ t hn j

/-- the entry points that promise an error result carry the deferred recover -/
theorem entry_points_recover :
    Gen.Reflect.altRecomposeRecovers = true ∧ Gen.Reflect.altNewRecomposerRecovers = true := by
  decide +kernel

/-- the source as it is (since /repo 25154ae): the field index builder remembers the embedded types it
is inside of and does not enter one again — a type that embeds (a pointer to) itself no longer makes
it recurse for ever (`C06rec-self-embedding`, fixed). On the source before 25154ae the regenerated
fact is `false` and this theorem fails (there `indexType` called itself for every embedded type). -/
theorem self_embedding_guarded_in_source : Gen.Reflect.altIndexTypeGuardsCycles = true := by
  decide +kernel

/-- the source as it is (since /repo fd0bfc5): `registerAnyComposer` builds a new composer unless the one
filed under the name was made for this very type, like `registerComposer` since 6d5fecb
(`C06rec-any-composer-unguarded`, fixed). On the source before fd0bfc5 the regenerated condition is
`"c == nil"` and this theorem fails. -/
theorem any_composer_guarded_in_source :
    Gen.Reflect.altRegisterAnyNewCond = "c == nil || c.rtype != rt" ∧
    Gen.Reflect.altRegisterAnyNewCond = Gen.Reflect.altRegisterNewCond := by
  decide +kernel

/-- the source as it is (since /repo 041b92d): inside the labelled unwrap loop of `registerComposer`, before
`ft = ft.Elem()`, an `if ft.Name() != ""` ranges over the list of named container types met so far,
leaves the loop on a hit and appends the type otherwise (`C06-recompose-selfcontaining-container`,
fixed). On the source before 041b92d the regenerated fact is `false` and this theorem fails (there the
loop followed `Elem()` of `type Tree map[string]Tree` for ever). -/
theorem selfcontaining_container_guarded_in_source :
    Gen.Reflect.altRegisterWalkSeenGuard = true ∧ Gen.Reflect.altRegisterWalkUnwrapsAll = true := by
  decide +kernel

/-- the unwrap loop with the seen-list (the code since 041b92d) terminates on EVERY table of named types
and every start type, self-containing container types included -/
theorem unwrap_walk_terminates (tbl : Walk.Table) (ft : Walk.WT) :
    (Walk.walk true tbl ((tbl.length + 1) * (Walk.maxBody tbl + 2) + Walk.size ft + 1) ft []).isSome = true :=
  Walk.walk_terminates tbl ft

/-- the loop without it (the code before 041b92d) runs out of ANY fuel on `type Tree map[string]Tree` -/
theorem unwrap_walk_unguarded_spins (f : Nat) : Walk.walk false Walk.treeTbl f (.named 0) [] = none :=
  Walk.walk_unguarded_spins f []

end OjgVerif.C06rec
