import OjgVerif.Script.LemmasClean
import OjgVerif.Gen.Script
/-! # C12 — filter scripts are total and follow typed comparison semantics

Everything here is about the MODEL (`OjgVerif.Script.Model`, one Lean branch per Go `case` of
jp/script.go) and the SPECIFICATION (`OjgVerif.Script.Spec`); the model is tied to the Go code by the
correspondence run of harness/cmd/script and, for the operator table, by `opTable_ok` over the
regenerated `Gen.Script`.

`Dev.pinned` is the tree as first pinned. It violated the property in three operator-level ways and one
script-level way (C12-uncomparable-panic, repaired by 0a3fd2c; C12-neq-float, repaired by 21415f8;
C12-int-via-float64, repaired by 24fcf54; C12-bare-path, repaired by fe63c88 and 6b93c2a); for each the full-strength
statement is kept as a `def …_full : Prop`, refuted by a concrete witness ("before <commit>" where the
defect is repaired), and proved in `_partial` form outside a named predicate. Statements with a `Dev`
hypothesis (`d.uncmp = false` …) are about the code with the corresponding fix applied; section 11 states
the strongest results for `Dev.current`, the code as it is now. -/
namespace OjgVerif.C12
open OjgVerif OjgVerif.Script

/-- an engine for witnesses: no pattern compiles -/
def rx0 : RxEngine := fun _ _ => none

/-! ## 1. The operator table of jp/script.go is the one the model dispatches on -/

def allOps : List Op :=
  [.eq, .neq, .lt, .gt, .lte, .gte, .or, .and, .not, .add, .sub, .mult, .divide,
   .in, .empty, .rx, .has, .exists, .length, .count, .match, .search, .group]

/-- name of the Go variable holding the operator -/
def goIdent : Op → String
  | .eq => "eq" | .neq => "neq" | .lt => "lt" | .gt => "gt" | .lte => "lte" | .gte => "gte"
  | .or => "or" | .and => "and" | .not => "not" | .add => "add" | .sub => "sub" | .mult => "mult"
  | .divide => "divide" | .in => "in" | .empty => "empty" | .rx => "rx" | .has => "has"
  | .exists => "exists" | .length => "length" | .count => "count" | .match => "match"
  | .search => "search" | .group => "group"

/-- the labels of the `case` of evalStack's `switch o.code` that the model's branch for `o` transcribes -/
def goClause : Op → List String
  | .has => ["has", "exists"]
  | .exists => ["has", "exists"]
  | o => [goIdent o]

def rowOf (ident : String) : Option Gen.Script.OpRow := Gen.Script.ops.find? (·.ident == ident)

/-- Go's `switch o.code`: the first clause one of whose labels has that code -/
def dispatch (code : Nat) : Option (List String) :=
  Gen.Script.evalCases.find? fun labels => labels.any fun l => (rowOf l).any (·.code == code)

/-- for every operator of the model: the Go variable exists, has the model's operand count and
`getLeft` flag, and `switch o.code` sends its code to the clause the model's branch was written from
(so no two operators share a code, except the two spellings of the regex operator) -/
def opRowsOK : Bool :=
  allOps.all fun o =>
    match rowOf (goIdent o) with
    | none => false
    | some r => r.cnt == o.cnt && r.getLeft == o.getLeft && !r.getRight && dispatch r.code == some (goClause o)

/-- script spellings and precedences (what the parser's `opMap` resolves, what the harness prints):
"lower precedence is evaluated first" -/
def expectedNames : List (String × String × Nat) :=
  [("eq", "==", 3), ("neq", "!=", 3), ("lt", "<", 3), ("gt", ">", 3), ("lte", "<=", 3), ("gte", ">=", 3),
   ("or", "||", 4), ("and", "&&", 4), ("not", "!", 0), ("add", "+", 2), ("sub", "-", 2), ("mult", "*", 1),
   ("divide", "/", 1), ("get", "get", 0), ("in", "in", 3), ("empty", "empty", 3), ("rx", "~=", 3), ("rxa", "=~", 3),
   ("has", "has", 3), ("exists", "exists", 3), ("length", "length", 0), ("count", "count", 0),
   ("match", "match", 0), ("search", "search", 0), ("group", "(", 0)]

def namesOK : Bool := Gen.Script.ops.map (fun r => (r.ident, r.name, r.prec)) == expectedNames

/-- `opMap` maps every spelling to its own operator, `=~` to the `~=` operator -/
def opMapOK : Bool :=
  (Gen.Script.opMap.all fun e => e.2 == (if e.1 == "rxa" then "rx" else e.1) && e.1 != "get" && e.1 != "group")
    && (expectedNames.all fun e => e.1 == "get" || e.1 == "group" || Gen.Script.opMap.any (·.1 == e.1))

/-- the exported builder functions install the operator the harness assumes -/
def buildersOK : Bool :=
  Gen.Script.builders ==
    [("Get", "get"), ("Eq", "eq"), ("Neq", "neq"), ("Lt", "lt"), ("Gt", "gt"), ("Lte", "lte"), ("Gte", "gte"),
     ("Or", "or"), ("And", "and"), ("Not", "not"), ("Add", "add"), ("Sub", "sub"), ("Multiply", "mult"),
     ("Divide", "divide"), ("In", "in"), ("Empty", "empty"), ("Has", "has"), ("Exists", "exists"),
     ("Regex", "rx"), ("Length", "length"), ("Count", "count"), ("Match", "match"), ("Search", "search")]

/-- `buildScript` lays out one operand exactly for the operators with `cnt = 1` (and drops `get`) -/
def buildOK : Bool :=
  Gen.Script.buildCases.length == 2 && Gen.Script.buildCases[0]! == ["get"] &&
    allOps.all fun o => (Gen.Script.buildCases[1]!).contains (goIdent o) == (o.cnt == 1)

theorem opTable_ok : opRowsOK = true ∧ namesOK = true ∧ opMapOK = true ∧ buildersOK = true ∧ buildOK = true := by
  refine ⟨?_, ?_, ?_, ?_, ?_⟩ <;> decide +kernel

/-! ## 2. Totality -/

theorem resolve_length (elem root : Val) : ∀ (prog : List Item) (g : Bool), (resolve elem root g prog).length = prog.length := by
  intro prog
  induction prog with
  | nil => intro g; rfl
  | cons it r ih => intro g; simp [resolve, ih]

/-- with the comparison repaired, evaluating ANY non-empty program (well-formed or not, any operand
kinds, any number of multi-valued operands) on any element never faults -/
theorem total_fixed (d : Dev) (h : d.uncmp = false) (h' : d.ifaceTrap = false) (rx : RxEngine) (prog : List Item) (hne : prog ≠ [])
    (elem root : Val) : ∃ b, matchElem d rx prog elem root = .ok b := by
  unfold matchElem
  split
  · split <;> exact ⟨_, rfl⟩
  unfold matchGeneral
  have : resolve elem root false prog ≠ [] := by
    intro h0
    have := resolve_length elem root prog false
    rw [h0] at this
    exact hne (List.eq_nil_of_length_eq_zero this.symm)
  exact ⟨_, matchResolved_any d h h' rx _ this⟩

/-- the property's first clause for the unchanged code -/
def total_full : Prop :=
  ∀ (rx : RxEngine) (prog : List Item), prog ≠ [] → ∀ elem root, ∃ b, matchElem Dev.pinned rx prog elem root = .ok b

/-- before 0a3fd2c: `[1] == [1]` panics -/
theorem total_full_false : ¬ total_full := by
  intro h
  obtain ⟨b, hb⟩ := h rx0 [.op .eq, .val (.arr [.int 1]), .val (.arr [.int 1])] (by simp) .null .null
  have : matchElem Dev.pinned rx0 [.op .eq, .val (.arr [.int 1]), .val (.arr [.int 1])] .null .null = .error .uncomparable := rfl
  rw [this] at hb
  cases hb

/-- some operator application of the stack meets two slices or two maps (or two typed values of one
uncomparable kind) under `==`, `!=` or `in` and the code variant lets the left one through to Go `==`
(`Dev.faultFlag`: every left operand before 0a3fd2c; since then only a value whose TYPE is comparable) -/
def hitsUncomparable (d : Dev) (rx : RxEngine) : List SItem → Bool
  | [] => false
  | .val _ :: rest => hitsUncomparable d rx rest
  | .op o :: rest =>
    hitsUncomparable d rx rest ||
      (match evalStack d rx rest with
       | .ok t => d.faultFlag (t.getD 0 .null) && uncomparablePair o (t.getD 0 .null) (t.getD 1 .null)
       | .error _ => false)

/-- `evalStack` — of EVERY code variant (round 3: no hypothesis on `d` any more) — faults exactly on the
stacks that meet an uncomparable pair the variant does not guard -/
theorem evalStack_fault_iff (d : Dev) (rx : RxEngine) (st : List SItem) :
    (∃ f, evalStack d rx st = .error f) ↔ hitsUncomparable d rx st = true := by
  induction st with
  | nil => simp [evalStack, hitsUncomparable]
  | cons it rest ih =>
    cases it with
    | val v =>
      simp only [hitsUncomparable, ← ih]
      cases hr : evalStack d rx rest with
      | error f => simp [evalStack_cons_err d rx _ rest f hr]
      | ok t => simp [evalStack_val d rx v rest t hr]
    | op o =>
      cases hr : evalStack d rx rest with
      | error f =>
        have : hitsUncomparable d rx rest = true := ih.1 ⟨f, hr⟩
        simp [hitsUncomparable, this, evalStack_cons_err d rx _ rest f hr]
      | ok t =>
        have hno : hitsUncomparable d rx rest = false := by
          cases hh : hitsUncomparable d rx rest
          · rfl
          · obtain ⟨f, hf⟩ := ih.2 hh
            rw [hr] at hf; cases hf
        simp only [hitsUncomparable, hno, hr, Bool.false_or]
        rw [Bool.and_eq_true, ← evalOp_error_iff d rx o]
        cases ho : evalOp d rx o (t.getD 0 .null) (t.getD 1 .null) with
        | error f => simp [evalStack_step_err d rx o rest t f hr ho]
        | ok v => simp [evalStack_step_ok d rx o rest t v hr ho]

/-- the unchanged code never faults on a stack that meets no uncomparable pair -/
theorem total_partial (rx : RxEngine) (st : List SItem) (h : hitsUncomparable Dev.pinned rx st = false) :
    ∃ vs, evalStack Dev.pinned rx st = .ok vs := by
  cases hs : evalStack Dev.pinned rx st with
  | ok vs => exact ⟨vs, rfl⟩
  | error f =>
    have := (evalStack_fault_iff Dev.pinned rx st).1 ⟨f, hs⟩
    rw [h] at this; cases this

/-- a non-trivial instance: `[1] == 1 || "a" < "b"` with containers present but never paired -/
example : hitsUncomparable Dev.pinned rx0
    [.op .or, .op .eq, .val (.arr [.int 1]), .val (.int 1), .op .lt, .val (.str [97]), .val (.str [98])] = false := by
  decide +kernel

/-- exact operator-level characterisation: an operator application faults iff the code still has the
deviation and the operands are an uncomparable pair -/
theorem evalOp_fault_iff (d : Dev) (rx : RxEngine) (o : Op) (l r : Val) :
    (∃ f, evalOp d rx o l r = .error f) ↔ (d.faultFlag l = true ∧ uncomparablePair o l r = true) :=
  evalOp_error_iff d rx o l r

/-! ## 3. `!=` is the complement of `==` -/

/-- with the two repairs, for ALL operand kinds on both sides (containers and mismatched kinds
included) `==` and `!=` return complementary booleans -/
theorem eq_neq_complement (d : Dev) (hu : d.uncmp = false) (ht : d.ifaceTrap = false) (hq : d.neqFlt = false) (rx : RxEngine) (l r : Val) :
    ∃ b, evalOp d rx .eq l r = .ok (.bool b) ∧ evalOp d rx .neq l r = .ok (.bool (!b)) := by
  obtain ⟨e, he⟩ := ifaceEq_ok d hu ht l r
  simp only [evalOp, he]
  cases e
  · cases l <;> cases r <;> simp [hq]
  · exact ⟨true, by simp⟩

def eq_neq_complement_full : Prop :=
  ∀ (rx : RxEngine) (l r : Val), ∃ b, evalOp Dev.pinned rx .eq l r = .ok (.bool b) ∧ evalOp Dev.pinned rx .neq l r = .ok (.bool (!b))

/-- before 21415f8: `1.5 == 2.5` and `1.5 != 2.5` are both false -/
theorem eq_neq_complement_full_false : ¬ eq_neq_complement_full := by
  intro h
  obtain ⟨b, h1, h2⟩ := h rx0 (.flt (.fin 3 (-1))) (.flt (.fin 5 (-1)))
  have e1 : evalOp Dev.pinned rx0 .eq (.flt (.fin 3 (-1))) (.flt (.fin 5 (-1))) = .ok (.bool false) := rfl
  have e2 : evalOp Dev.pinned rx0 .neq (.flt (.fin 3 (-1))) (.flt (.fin 5 (-1))) = .ok (.bool false) := rfl
  rw [e1] at h1
  rw [e2] at h2
  cases b <;> simp at h1 h2

/-- the unchanged code: complement holds outside the uncomparable pairs and the float-on-the-left case -/
theorem eq_neq_complement_partial (rx : RxEngine) (l r : Val)
    (h1 : sameContainer l r = false) (h2 : neqFloatCase .neq l r = false) :
    ∃ b, evalOp Dev.pinned rx .eq l r = .ok (.bool b) ∧ evalOp Dev.pinned rx .neq l r = .ok (.bool (!b)) := by
  have he := ifaceEq_eq_fixed Dev.pinned l r (fun _ => h1)
  rw [ifaceEq_fixed] at he
  simp only [evalOp, he]
  cases hs : Spec.same l r
  · cases l <;> cases r <;> simp_all [neqFloatCase, Dev.pinned, Spec.same]
  · exact ⟨true, by simp⟩

example : sameContainer (.flt (.fin 3 (-1))) (.int 2) = false ∧ neqFloatCase .neq (.flt (.fin 3 (-1))) (.int 2) = false := by
  decide

/-- and inside the float-on-the-left case the unchanged code always answers false to both -/
theorem neq_float_always_false (rx : RxEngine) (l r : Val) (h : neqFloatCase .neq l r = true) :
    evalOp Dev.pinned rx .neq l r = .ok (.bool false) ∧ evalOp Dev.pinned rx .eq l r = .ok (.bool false) := by
  cases l <;> cases r <;> simp_all [neqFloatCase, evalOp, ifaceEq, Dev.pinned]

/-! ## 4. The numeric comparison matrix: by exact value across int and float -/

/-- the six comparison results on two exact numbers -/
def cmpNum (o : Op) (x y : Flt) : Bool :=
  match o with
  | .eq => Flt.eq x y
  | .neq => !Flt.eq x y
  | .lt => Flt.lt x y
  | .gt => Flt.lt y x
  | .lte => Flt.le x y
  | .gte => Flt.le y x
  | _ => false

/-- all 6 × 4 cells: with the repairs, a comparison of two numbers of either kind is the comparison of
their exact values -/
theorem num_matrix (d : Dev) (hq : d.neqFlt = false) (hv : d.viaF64 = false) (rx : RxEngine) (o : Op) (ho : isCmp o = true)
    (l r : Val) (x y : Flt) (hl : Spec.num? l = some x) (hr : Spec.num? r = some y) :
    evalOp d rx o l r = .ok (.bool (cmpNum o x y)) := by
  have hs : evalOp d rx o l r = .ok (Spec.evalOp rx o l r) := by
    apply evalOp_eq_spec_of
    · intro _; cases o <;> cases l <;> cases r <;> simp_all [uncomparablePair, sameContainer, isArr, isObj, sameUExt, Spec.num?, isCmp]
    · intro h; rw [hq] at h; cases h
    · intro h; rw [hv] at h; cases h
  rw [hs]
  cases o <;> simp [isCmp] at ho <;>
    simp [Spec.evalOp, Spec.eqv, Spec.ltv, Spec.lev, hl, hr, cmpNum]

/-- on two ints the exact-value comparisons are the integer comparisons -/
theorem cmpNum_int (a b : Int) :
    cmpNum .eq (.fin a 0) (.fin b 0) = decide (a = b) ∧ cmpNum .neq (.fin a 0) (.fin b 0) = !decide (a = b) ∧
    cmpNum .lt (.fin a 0) (.fin b 0) = decide (a < b) ∧ cmpNum .gt (.fin a 0) (.fin b 0) = decide (b < a) ∧
    cmpNum .lte (.fin a 0) (.fin b 0) = decide (a ≤ b) ∧ cmpNum .gte (.fin a 0) (.fin b 0) = decide (b ≤ a) := by
  simp [cmpNum]

def num_matrix_full : Prop :=
  ∀ (rx : RxEngine) (o : Op), isCmp o = true → ∀ (l r : Val) (x y : Flt), Spec.num? l = some x → Spec.num? r = some y →
    evalOp Dev.pinned rx o l r = .ok (.bool (cmpNum o x y))

/-- `9007199254740993 == 9007199254740992.0` is true in the pinned code (until 24fcf54: `num_matrix_before_24fcf54_false`) -/
theorem num_matrix_full_false : ¬ num_matrix_full := by
  intro h
  have := h rx0 .eq rfl (.int 9007199254740993) (.flt (.fin 9007199254740992 0)) _ _ rfl rfl
  have e : evalOp Dev.pinned rx0 .eq (.int 9007199254740993) (.flt (.fin 9007199254740992 0)) = .ok (.bool true) := rfl
  rw [e] at this
  have c : cmpNum .eq (.fin 9007199254740993 0) (.fin 9007199254740992 0) = false := by decide +kernel
  rw [c] at this
  cases this

/-- the unchanged code: exact-value comparison unless an int of magnitude ≥ 2^53 meets a float, or it is
`float != float` -/
theorem num_matrix_partial (rx : RxEngine) (o : Op) (ho : isCmp o = true)
    (l r : Val) (x y : Flt) (hl : Spec.num? l = some x) (hr : Spec.num? r = some y)
    (h1 : bigMixed o l r = false) (h2 : neqFloatCase o l r = false) :
    evalOp Dev.pinned rx o l r = .ok (.bool (cmpNum o x y)) := by
  have hs : evalOp Dev.pinned rx o l r = .ok (Spec.evalOp rx o l r) := by
    apply evalOp_eq_spec_of
    · intro _; cases o <;> cases l <;> cases r <;> simp_all [uncomparablePair, sameContainer, isArr, isObj, sameUExt, Spec.num?, isCmp]
    · intro _; exact h2
    · intro _; exact h1
  rw [hs]
  cases o <;> simp [isCmp] at ho <;>
    simp [Spec.evalOp, Spec.eqv, Spec.ltv, Spec.lev, hl, hr, cmpNum]

example : bigMixed .lt (.int 9007199254740991) (.flt (.fin 1 60)) = false ∧
    neqFloatCase .lt (.int 9007199254740991) (.flt (.fin 1 60)) = false := by decide +kernel

/-! ## 5. Ordering between different kinds is false -/

inductive OrdKind where | number | string | other
  deriving DecidableEq

def ordKind : Val → OrdKind
  | .int _ => .number
  | .flt _ => .number
  | .str _ => .string
  | _ => .other

def isOrdering : Op → Bool
  | .lt | .gt | .lte | .gte => true
  | _ => false

/-- any code variant: `<  >  <=  >=` between operands that are not two numbers or two strings give
false (never a fault, never true) -/
theorem ordering_cross_kind (d : Dev) (rx : RxEngine) (o : Op) (ho : isOrdering o = true) (l r : Val)
    (h : ordKind l ≠ ordKind r ∨ ordKind l = .other) : evalOp d rx o l r = .ok (.bool false) := by
  cases o <;> simp [isOrdering] at ho <;> cases l <;> cases r <;> simp_all [ordKind, evalOp, ordering]

example : ordKind (.int 1) ≠ ordKind (.str [49]) ∨ ordKind (.int 1) = .other := by decide

/-- strings compare byte-lexically -/
theorem ordering_strings (d : Dev) (rx : RxEngine) (a b : Bytes) :
    evalOp d rx .lt (.str a) (.str b) = .ok (.bool (bytesLt a b)) ∧
    evalOp d rx .gt (.str a) (.str b) = .ok (.bool (bytesLt b a)) ∧
    evalOp d rx .lte (.str a) (.str b) = .ok (.bool (!bytesLt b a)) ∧
    evalOp d rx .gte (.str a) (.str b) = .ok (.bool (!bytesLt a b)) := by
  simp [evalOp, ordering]

/-! ## 6. `&&`, `||`, `!` and the program layout -/

theorem logic (d : Dev) (rx : RxEngine) (a b : Bool) (r : Val) :
    evalOp d rx .and (.bool a) (.bool b) = .ok (.bool (a && b)) ∧
    evalOp d rx .or (.bool a) (.bool b) = .ok (.bool (a || b)) ∧
    evalOp d rx .not (.bool a) r = .ok (.bool (!a)) := by
  simp [evalOp, asBool]

/-- an operand that is not a boolean counts as false -/
theorem logic_non_bool (d : Dev) (rx : RxEngine) (l r : Val) :
    evalOp d rx .and l r = .ok (.bool (Spec.truth l && Spec.truth r)) ∧
    evalOp d rx .or l r = .ok (.bool (Spec.truth l || Spec.truth r)) ∧
    evalOp d rx .not l r = .ok (.bool (!Spec.truth l)) := by
  cases l <;> cases r <;> simp [evalOp, asBool, Spec.truth]

/-- the prefix program `buildScript` lays out for a tree, run by `evalStack`, leaves in cell 0 the value
obtained by applying the operators along the tree: nesting (parentheses) is honoured exactly -/
theorem program_is_tree (d : Dev) (rx : RxEngine) (t : Tm) :
    (evalStack d rx (flattenS t)).map (·.headD .null) = evalTm d rx t :=
  evalStack_flattenS_head d rx t

/-! ## 7. A missing path is `Nothing` for `exists` / `has` -/

theorem missing_is_nothing (elem root : Val) (p : Path) (h : Spec.sel p elem root = []) :
    resolveItem elem root false (.path p) = .val .nothing := by
  unfold resolveItem
  simp only [Bool.false_eq_true, ↓reduceIte, h]
  split <;> rfl

theorem exists_has (d : Dev) (rx : RxEngine) (b : Bool) (v : Val) :
    evalOp d rx .exists .nothing (.bool b) = .ok (.bool (!b)) ∧
    evalOp d rx .has .nothing (.bool b) = .ok (.bool (!b)) ∧
    (v ≠ .nothing → evalOp d rx .exists v (.bool b) = .ok (.bool b) ∧ evalOp d rx .has v (.bool b) = .ok (.bool b)) := by
  refine ⟨by cases b <;> rfl, by cases b <;> rfl, fun hv => ?_⟩
  cases v <;> simp_all [evalOp]

example : Spec.sel ⟨false, [.child [122]]⟩ (.obj [([97], .int 1)]) .null = [] := rfl

/-! ## 8. Multi-valued operands: some combination -/

/-- with the comparison repaired the per-element verdict is: some way of picking one value for each
multi-valued operand makes the program true -/
theorem multi_any (d : Dev) (h : d.uncmp = false) (h' : d.ifaceTrap = false) (rx : RxEngine) (st : List RItem) (hne : st ≠ []) :
    matchResolved d rx st = .ok ((prod st).any (stackTrue d rx)) :=
  matchResolved_any d h h' rx st hne

/-- `expandStack`'s mixed-radix enumeration visits exactly the combinations -/
theorem expand_enumerates (st : List RItem) :
    (∀ mi, mi < combos st → expand st mi ∈ prod st) ∧ (∀ x ∈ prod st, ∃ mi, mi < combos st ∧ expand st mi = x) :=
  ⟨expand_mem_prod st, prod_mem_expand st⟩

/-! ## 9. The script verdict is the specified one -/

theorem compile_true (t : Tm) : compile true t = flatten (Spec.normalise t) := by
  cases t <;> simp [compile, Spec.normalise, flatten, Op.cnt]

theorem wf_normalise (t : Tm) (h : t.wf = true) : (Spec.normalise t).wf = true := by
  cases t <;> simp_all [Spec.normalise, Tm.wf, Op.cnt]

/-- a template that is not a single path takes the general path of the loop -/
theorem matchElem_general (d : Dev) (rx : RxEngine) (prog : List Item) (elem root : Val)
    (h : ∀ p, prog ≠ [.path p]) : matchElem d rx prog elem root = matchGeneral d rx prog elem root := by
  unfold matchElem
  split
  · exact absurd rfl (h _)
  · rfl

theorem flatten_not_bare (t : Tm) (h : isPath t = false) : ∀ p, flatten t ≠ [.path p] := by
  intro p
  cases t with
  | const v => simp [flatten]
  | path q => simp [isPath] at h
  | app1 o a => simp only [flatten]; split <;> simp
  | app2 o a b => simp only [flatten]; split <;> simp

theorem isPath_normalise (t : Tm) : isPath (Spec.normalise t) = false := by
  cases t <;> rfl

/-- with the three repairs: for every well-formed script tree, every element and root, Script.Match
(the route that turns a bare path into an existence test) gives exactly the specified verdict -/
theorem script_spec (rx : RxEngine) (t : Tm) (hwf : t.wf = true) (elem root : Val) :
    matchElem Dev.fixed rx (compile true t) elem root = .ok (Spec.matches rx t elem root) := by
  rw [compile_true, matchElem_general _ _ _ _ _ (flatten_not_bare _ (isPath_normalise t)),
    matchElem_flatten rx _ (wf_normalise t hwf) elem root]
  rfl

def script_spec_full : Prop :=
  ∀ (rx : RxEngine) (t : Tm), t.wf = true → ∀ elem root,
    matchElem Dev.pinned rx (compile true t) elem root = .ok (Spec.matches rx t elem root)

/-- before 21415f8: `1.5 != 2.5` -/
theorem script_spec_full_false : ¬ script_spec_full := by
  intro h
  have := h rx0 (.app2 .neq (.const (.flt (.fin 3 (-1)))) (.const (.flt (.fin 5 (-1))))) rfl .null .null
  have e : matchElem Dev.pinned rx0 (compile true (.app2 .neq (.const (.flt (.fin 3 (-1)))) (.const (.flt (.fin 5 (-1)))))) .null .null
      = .ok false := rfl
  have s : Spec.matches rx0 (.app2 .neq (.const (.flt (.fin 3 (-1)))) (.const (.flt (.fin 5 (-1))))) .null .null = true := by
    decide +kernel
  rw [e, s] at this
  cases this

/-- the unchanged code gives the specified verdict on every script none of whose operator applications
(for any choice of the multi-valued operands) falls into one of the three named classes -/
theorem script_spec_partial (rx : RxEngine) (t : Tm) (hwf : t.wf = true) (elem root : Val)
    (hclean : ∀ c ∈ Spec.choices elem root (Spec.normalise t), Clean Dev.pinned rx c = true) :
    matchElem Dev.pinned rx (compile true t) elem root = .ok (Spec.matches rx t elem root) := by
  rw [compile_true, matchElem_general _ _ _ _ _ (flatten_not_bare _ (isPath_normalise t)),
    matchElem_flatten_clean Dev.pinned rx _ (wf_normalise t hwf) elem root hclean]
  rfl

/-- a non-trivial instance: `@.a < 2.5 && @.m[*] == "x"` on `{"a": 1, "m": ["y", "x"]}` -/
example : ∀ c ∈ Spec.choices (.obj [([97], .int 1), ([109], .arr [.str [121], .str [120]])]) .null
    (Spec.normalise (.app2 .and (.app2 .lt (.path ⟨false, [.child [97]]⟩) (.const (.flt (.fin 5 (-1)))))
      (.app2 .eq (.path ⟨false, [.child [109], .wild]⟩) (.const (.str [120]))))),
    Clean Dev.pinned rx0 c = true := by decide +kernel

/-! ## 10. Script.Match against the filter fragment -/

/-- `Equation.Filter()` lays out the same program as `Script()` unless the script is a bare path -/
theorem match_filter (t : Tm) (h : isPath t = false) : compile false t = compile true t := by
  cases t <;> simp_all [compile, isPath]

/-- before 6b93c2a every template took the general path of the loop (`matchGeneral`), also the one-cell
template `Filter()` lays out for a bare path -/
def match_filter_before_6b93c2a : Prop :=
  ∀ (rx : RxEngine) (t : Tm) (elem : Val),
    matchGeneral Dev.fixed rx (compile false t) elem elem = matchGeneral Dev.fixed rx (compile true t) elem elem

/-- before 6b93c2a: for the bare path `@.a` on `{"a": 1}` Match said true (existence) while the filter
route wanted the value to be `true` (former known finding C12-bare-path) -/
theorem match_filter_before_6b93c2a_false : ¬ match_filter_before_6b93c2a := by
  intro h
  have := h rx0 (.path ⟨false, [.child [97]]⟩) (.obj [([97], .int 1)])
  have e1 : matchGeneral Dev.fixed rx0 (compile false (.path ⟨false, [.child [97]]⟩)) (.obj [([97], .int 1)]) (.obj [([97], .int 1)])
      = .ok false := rfl
  have e2 : matchGeneral Dev.fixed rx0 (compile true (.path ⟨false, [.child [97]]⟩)) (.obj [([97], .int 1)]) (.obj [([97], .int 1)])
      = .ok true := rfl
  rw [e1, e2] at this
  cases this

/-- the regenerated source has the `bare` branch that `matchElem` transcribes (false before 6b93c2a) -/
theorem bare_test_ok : Gen.Script.bareExistence = true := by decide

/-- the selected nodes do not hold the `Nothing` marker itself (true of all JSON-like data; a Go caller
could put `jp.Nothing` into the data) -/
def NoNothing (vs : List Val) : Prop := ∀ v ∈ vs, (match v with | .nothing => false | _ => true) = true

/-- normalisation never produces or removes the `Nothing` marker -/
theorem norm_present (v : Val) :
    (match v.norm with | .nothing => false | _ => true) = (match v with | .nothing => false | _ => true) := by
  cases v <;> try rfl
  case ext e =>
    simp only [Val.norm]
    cases e.core <;> rfl

/-- since 6b93c2a: the one-cell template of a bare path is the specified existence test, for every code
variant -/
theorem bare_path_spec (d : Dev) (rx : RxEngine) (p : Path) (elem root : Val) (h : NoNothing (Spec.sel p elem root)) :
    matchElem d rx (compile false (.path p)) elem root = .ok (Spec.matches rx (.path p) elem root) := by
  have key : ∀ l : List Val,
      (List.flatMap (fun a => [Tm.app2 Op.exists (.const a) (.const (.bool true))]) l).any
          (fun t' => Spec.isTrue (Spec.eval rx t')) =
        l.any fun c => (match c with | .nothing => false | _ => true) := by
    intro l
    induction l with
    | nil => rfl
    | cons c l ih =>
      simp only [List.flatMap_cons, List.singleton_append, List.any_cons, ih]
      congr 1
      cases c <;> rfl
  have hm : Spec.matches rx (.path p) elem root =
      (Spec.candidates p elem root).any fun c => (match c with | .nothing => false | _ => true) := by
    simp only [Spec.matches, Spec.normalise, Spec.choices, List.flatMap_map, List.map_cons, List.map_nil]
    exact key _
  rw [hm]
  simp only [compile, Bool.false_eq_true, ↓reduceIte, matchElem, resolveItem, Spec.candidates]
  unfold NoNothing at h
  cases hn : Spec.Path.normal p
  · cases hs : Spec.sel p elem root with
    | nil => simp
    | cons v r =>
      rw [hs] at h
      have hv := h v (by simp)
      have hv' := (norm_present v).trans hv
      cases r with
      | nil =>
        simp only [List.map_cons, List.map_nil]
        generalize v.norm = x at hv'
        cases x <;> simp_all
      | cons w r' => simp [hv']
  · cases hs : Spec.sel p elem root with
    | nil => simp
    | cons v r =>
      rw [hs] at h
      have hv := h v (by simp)
      have hv' := (norm_present v).trans hv
      simp only [↓reduceIte, List.any_cons, List.any_nil, Bool.or_false, hv']
      generalize v.norm = x at hv'
      cases x <;> simp_all

example : NoNothing (Spec.sel ⟨false, [.child [97], .wild]⟩ (.obj [([97], .arr [.int 1, .null])]) .null) := by
  intro v hv
  have : Spec.sel ⟨false, [.child [97], .wild]⟩ (.obj [([97], .arr [.int 1, .null])]) .null = [.int 1, .null] := rfl
  rw [this] at hv
  simp at hv
  rcases hv with rfl | rfl <;> rfl

/-- hence, with the operator repairs, the filter route also gives the specified verdict on everything
but bare paths -/
theorem filter_spec (rx : RxEngine) (t : Tm) (hwf : t.wf = true) (h : isPath t = false) (elem root : Val) :
    matchElem Dev.fixed rx (compile false t) elem root = .ok (Spec.matches rx t elem root) := by
  rw [match_filter t h]
  exact script_spec rx t hwf elem root

example : isPath (.app2 .eq (.path ⟨false, []⟩) (.const (.int 1))) = false := rfl

/-! ## 11. The code as it is now (`Dev.current`: after 0a3fd2c, 21415f8, fe63c88, cd355fe, 6b93c2a,
24fcf54 — no deviation left) -/

/-- the regenerated source compares an int64 with a float64 through `cmpIntFloat` at all twelve sites of
the six comparison clauses and nowhere through `float64(…)` (before 24fcf54: 0 and 2 per clause) -/
theorem int_float_exact_ok : Gen.Script.hasCmpIntFloat = true ∧
    Gen.Script.cmpSites = [("eq", 2, 0), ("neq", 2, 0), ("lt", 2, 0), ("gt", 2, 0), ("lte", 2, 0), ("gte", 2, 0)] := by
  decide

/-- regression tripwire over the lines patched by 0a3fd2c: `==`, `!=` and `in` compare through `sameValue`
(which answers false for an uncomparable left operand before using Go `==`) and nowhere with a raw `==`
between the operands (before: 0 and 1 per clause) — the `uncmp = false` of `Dev.current` -/
theorem iface_eq_fix_ok : Gen.Script.sameValueGuard = true ∧
    Gen.Script.ifaceEqSites = [("eq", 1, 0), ("neq", 1, 0), ("in", 1, 0)] := by
  decide

/-- regression tripwire over the lines patched by 21415f8: the `float64` branch of `!=` only acts when the
right operand is an int64 — the `neqFlt = false` of `Dev.current` -/
theorem neq_float_fix_ok : Gen.Script.neqFloatGuarded = true := by decide

/-- regression tripwire over the helper of 24fcf54 itself: its declaration, as go/printer writes it, is
the reviewed text (any edit of `cmpIntFloat` — a guard turned from `<` to `<=`, say — breaks this until the
new text has been reviewed against the exact comparison `Flt.lt`/`Flt.eq` of the model and re-pinned; the
run over the boundary pairs around 0, ±2^53, ±2^63 is what checks its behaviour) -/
theorem cmp_int_float_src_ok : Gen.Script.cmpIntFloatSrc =
    "func cmpIntFloat(i int64, f float64) int {\n\tswitch {\n\tcase f != f:\n\t\treturn 2\n\tcase 9223372036854775808.0 <= f:\n\t\treturn -1\n\tcase f < -9223372036854775808.0:\n\t\treturn 1\n\t}\n\tt := math.Trunc(f)\n\tswitch ti := int64(t); {\n\tcase i < ti:\n\t\treturn -1\n\tcase ti < i:\n\t\treturn 1\n\tcase t < f:\n\t\treturn -1\n\tcase f < t:\n\t\treturn 1\n\t}\n\treturn 0\n}" := by
  decide +kernel

/-- since 6d0c31a again: no deviation left (between round 3's finding and that commit this read
`Dev.current = { Dev.fixed with ifaceTrap := true }`) -/
theorem current_vs_fixed : Dev.current = Dev.fixed := rfl
theorem current_eq_fixed : Dev.current = Dev.fixed := rfl

/-- before 6d0c31a a left operand reached Go `==` unguarded exactly when its TYPE is reported comparable
(`passesGuard`); it then faulted iff `==` is unsafe on it -/
theorem before_6d0c31a_fault_flag (l : Val) : Dev.before6d0c31a.faultFlag l = passesGuard l := by
  simp [Dev.faultFlag, Dev.before6d0c31a]

/-- regression tripwire over 6d0c31a: `sameHolder` with its deferred recover exists, sameValue and sameHolder
hold one raw `left == right` each -/
theorem iface_field_fix_ok : Gen.Script.svHolderRecover = true ∧ Gen.Script.svRawEq = 2 := by decide

/-! ### No stack underflow on compiled templates

`evalStack` reads a missing operand as nil (`getD … .null`), exactly as the Go loop does
(`if 1 < len(sstack)-i { left = sstack[i+1] }`), so `total_current` holds for ANY cell sequence. For
the templates `Equation.buildScript` lays out that default is never taken: -/

/-- at every operator cell the evaluated tail holds at least as many cells as the operator has operands -/
def noUnderflow (d : Dev) (rx : RxEngine) : List SItem → Bool
  | [] => true
  | .val _ :: rest => noUnderflow d rx rest
  | .op o :: rest =>
    noUnderflow d rx rest &&
      (match evalStack d rx rest with
       | .ok t => decide (o.cnt ≤ t.length)
       | .error _ => true)

theorem flattenS_length_pos (c : Tm) : 1 ≤ (flattenS c).length := by
  cases c <;> simp [flattenS] <;> split <;> simp

theorem noUnderflow_op (d : Dev) (rx : RxEngine) (o : Op) (X : List SItem)
    (h1 : noUnderflow d rx X = true) (h2 : o.cnt ≤ X.length) : noUnderflow d rx (.op o :: X) = true := by
  simp only [noUnderflow, h1, Bool.true_and]
  cases hs : evalStack d rx X with
  | error f => rfl
  | ok t =>
    have := evalStack_length d rx X t hs
    simp only [decide_eq_true_eq]
    omega

/-- the prefix program of ANY expression tree (operand padding as `buildScript` does it) in front of
cells that do not underflow does not underflow -/
theorem noUnderflow_flattenS (d : Dev) (rx : RxEngine) (c : Tm) :
    ∀ rest, noUnderflow d rx rest = true → noUnderflow d rx (flattenS c ++ rest) = true := by
  induction c with
  | const v => intro rest h; simpa [flattenS, noUnderflow] using h
  | path p => intro rest h; simpa [flattenS, noUnderflow] using h
  | app1 o a iha =>
    intro rest h
    have hpos := flattenS_length_pos a
    rcases Op.cnt_cases o with hc | hc
    · have hf : flattenS (.app1 o a) ++ rest = .op o :: (flattenS a ++ rest) := by simp [flattenS, hc]
      rw [hf]
      exact noUnderflow_op d rx o _ (iha rest h) (by simp only [List.length_append]; omega)
    · have hne : ¬ o.cnt = 1 := by omega
      have hf : flattenS (.app1 o a) ++ rest = .op o :: (flattenS a ++ (.val .null :: rest)) := by
        simp [flattenS, hne]
      rw [hf]
      exact noUnderflow_op d rx o _ (iha _ (by simpa [noUnderflow] using h))
        (by simp only [List.length_append, List.length_cons]; omega)
  | app2 o a b iha ihb =>
    intro rest h
    have hpa := flattenS_length_pos a
    have hpb := flattenS_length_pos b
    rcases Op.cnt_cases o with hc | hc
    · have hf : flattenS (.app2 o a b) ++ rest = .op o :: (flattenS a ++ rest) := by simp [flattenS, hc]
      rw [hf]
      exact noUnderflow_op d rx o _ (iha rest h) (by simp only [List.length_append]; omega)
    · have hne : ¬ o.cnt = 1 := by omega
      have hf : flattenS (.app2 o a b) ++ rest = .op o :: (flattenS a ++ (flattenS b ++ rest)) := by
        simp [flattenS, hne]
      rw [hf]
      exact noUnderflow_op d rx o _ (iha _ (ihb rest h))
        (by simp only [List.length_append]; omega)

/-- for every well-formed script tree, on either route (`Script()` / `Filter()`), every stack the element
loop hands to `evalStack` — one per combination of the multi-valued operands — never underflows: the
`getD` default of the model (the nil of a missing operand in Go) is never taken -/
theorem no_underflow (d : Dev) (rx : RxEngine) (t : Tm) (hwf : t.wf = true) (wrap : Bool) (elem root : Val) :
    ∀ x ∈ prod (resolve elem root false (compile wrap t)), noUnderflow d rx x = true := by
  have main : ∀ x ∈ prod (resolve elem root false (compile true t)), noUnderflow d rx x = true := by
    intro x hx
    have hr := resolve_flatten elem root _ (wf_normalise t hwf) []
    simp only [List.append_nil, resolve] at hr
    rw [compile_true, hr, prod_rflat elem root _ (wf_normalise t hwf), List.mem_map] at hx
    obtain ⟨c, _, rfl⟩ := hx
    simpa using noUnderflow_flattenS d rx c [] rfl
  cases wrap
  · cases hb : isPath t
    · rw [match_filter t hb]; exact main
    · cases t with
      | path p =>
        intro x hx
        simp only [compile, Bool.false_eq_true, ↓reduceIte, resolve] at hx
        rw [prod_path, List.mem_map] at hx
        obtain ⟨v, _, rfl⟩ := hx
        rfl
      | const v => simp [isPath] at hb
      | app1 o a => simp [isPath] at hb
      | app2 o a b => simp [isPath] at hb
  · exact main

/-- a malformed cell sequence does underflow (and still evaluates, the missing operand reading as nil) -/
example : noUnderflow Dev.current rx0 [.op .eq, .val (.int 1)] = false := by decide +kernel


/-- evaluation of any non-empty program on any element never faults — for ANY cell sequence, well-formed
or not: a missing operand reads as nil, as in the Go loop; `no_underflow` shows that this default is
never taken on the templates `compile` produces -/
theorem total_current (rx : RxEngine) (prog : List Item) (hne : prog ≠ []) (elem root : Val) :
    ∃ b, matchElem Dev.current rx prog elem root = .ok b :=
  total_fixed Dev.current rfl rfl rx prog hne elem root

/-- `==` and `!=` are complements for all operand kinds on both sides -/
theorem eq_neq_complement_current (rx : RxEngine) (l r : Val) :
    ∃ b, evalOp Dev.current rx .eq l r = .ok (.bool b) ∧ evalOp Dev.current rx .neq l r = .ok (.bool (!b)) :=
  eq_neq_complement Dev.current rfl rfl rfl rx l r

/-- EVERY operator application — all 23 operators, all operand kinds on both sides (typed Go values included) —
computes the specified value -/
theorem evalOp_current (rx : RxEngine) (o : Op) (l r : Val) :
    evalOp Dev.current rx o l r = .ok (Spec.evalOp rx o l r) :=
  evalOp_fixed_eq_spec rx o l r

/-! #### before 6d0c31a (finding C12-iface-field-panic, round 3): witnesses and the partial forms -/

/-- a value of a comparable struct type that holds a slice in an interface-typed field
(`struct{X any}{[]int{1}}`): the type is comparable, `==` on two such values is not safe -/
def trapVal : Val := .ext ⟨90, false, 0, .none, true⟩

def total_before_6d0c31a : Prop :=
  ∀ (rx : RxEngine) (prog : List Item), prog ≠ [] → ∀ elem root, ∃ b, matchElem Dev.before6d0c31a rx prog elem root = .ok b

/-- round 3, finding C12-iface-field-panic: before 6d0c31a `struct{X any}{[]int{1}} == struct{X any}{[]int{1}}`
panicked -/
theorem total_before_6d0c31a_false : ¬ total_before_6d0c31a := by
  intro h
  obtain ⟨b, hb⟩ := h rx0 [.op .eq, .val trapVal, .val trapVal] (by simp) .null .null
  have : matchElem Dev.before6d0c31a rx0 [.op .eq, .val trapVal, .val trapVal] .null .null = .error .uncomparable := rfl
  rw [this] at hb
  cases hb

/-- the code before 6d0c31a: evaluation of ANY non-empty program (well-formed or not) on any element never faults
unless, for some choice of the multi-valued operands, an operator application `==`, `!=`, `in` has on its left
a value whose type is comparable but whose `==` is unsafe, and on its right (or in the list) a value of the same
kind (`hitsUncomparable Dev.before6d0c31a`); without such typed data in play nothing is excluded -/
theorem total_before_6d0c31a_partial (rx : RxEngine) (prog : List Item) (hne : prog ≠ []) (elem root : Val)
    (h : ∀ x ∈ prod (resolve elem root false prog), hitsUncomparable Dev.before6d0c31a rx x = false) :
    ∃ b, matchElem Dev.before6d0c31a rx prog elem root = .ok b := by
  unfold matchElem
  split
  · split <;> exact ⟨_, rfl⟩
  unfold matchGeneral
  have hr : resolve elem root false prog ≠ [] := by
    intro h0
    have := resolve_length elem root prog false
    rw [h0] at this
    exact hne (List.eq_nil_of_length_eq_zero this.symm)
  refine ⟨_, matchResolved_any_of_ok Dev.before6d0c31a rx _ hr (fun x hx => ?_)⟩
  cases hs : evalStack Dev.before6d0c31a rx x with
  | ok vs => exact ⟨vs, rfl⟩
  | error f =>
    have := (evalStack_fault_iff Dev.before6d0c31a rx x).1 ⟨f, hs⟩
    rw [h x hx] at this; cases this

/-- non-trivial instance: `@.a == @.b` on an element holding two `[]int` (typed containers, which the reflect
guard catches) stays outside the excluded class -/
example : ∀ x ∈ prod (resolve (.obj [([97], .ext ⟨40, false, 0, .none, false⟩), ([98], .ext ⟨40, false, 1, .none, false⟩)]) .null false
      [.op .eq, .path ⟨false, [.child [97]]⟩, .path ⟨false, [.child [98]]⟩]),
    hitsUncomparable Dev.before6d0c31a rx0 x = false := by decide +kernel

def eq_neq_complement_before_6d0c31a : Prop :=
  ∀ (rx : RxEngine) (l r : Val), ∃ b, evalOp Dev.before6d0c31a rx .eq l r = .ok (.bool b) ∧ evalOp Dev.before6d0c31a rx .neq l r = .ok (.bool (!b))

theorem eq_neq_complement_before_6d0c31a_false : ¬ eq_neq_complement_before_6d0c31a := by
  intro h
  obtain ⟨b, hb, _⟩ := h rx0 trapVal trapVal
  have : evalOp Dev.before6d0c31a rx0 .eq trapVal trapVal = .error .uncomparable := rfl
  rw [this] at hb
  cases hb

/-- `==` and `!=` are complements for all operand kinds on both sides, except a left operand whose type is
comparable while `==` on it is unsafe, against a right operand of the same kind -/
theorem eq_neq_complement_before_6d0c31a_partial (rx : RxEngine) (l r : Val)
    (h : (passesGuard l && sameContainer l r) = false) :
    ∃ b, evalOp Dev.before6d0c31a rx .eq l r = .ok (.bool b) ∧ evalOp Dev.before6d0c31a rx .neq l r = .ok (.bool (!b)) := by
  have he : ifaceEq Dev.before6d0c31a l r = ifaceEq Dev.fixed l r := by
    apply ifaceEq_eq_fixed
    intro hf
    rw [before_6d0c31a_fault_flag] at hf
    simpa [hf] using h
  obtain ⟨e, he'⟩ := ifaceEq_ok Dev.fixed rfl rfl l r
  simp only [evalOp, he, he']
  cases e
  · cases l <;> cases r <;> simp [Dev.before6d0c31a]
  · exact ⟨true, by simp⟩

example : (passesGuard (.ext ⟨40, false, 0, .none, false⟩) && sameContainer (.ext ⟨40, false, 0, .none, false⟩) (.ext ⟨40, false, 0, .none, false⟩)) = false := rfl

def evalOp_before_6d0c31a : Prop :=
  ∀ (rx : RxEngine) (o : Op) (l r : Val), evalOp Dev.before6d0c31a rx o l r = .ok (Spec.evalOp rx o l r)

theorem evalOp_before_6d0c31a_false : ¬ evalOp_before_6d0c31a := by
  intro h
  have := h rx0 .eq trapVal trapVal
  have e : evalOp Dev.before6d0c31a rx0 .eq trapVal trapVal = .error .uncomparable := rfl
  rw [e] at this
  cases this

/-- EVERY operator application — all 23 operators, all operand kinds on both sides — computes the
specified value, except `==`, `!=`, `in` with a left operand whose type is comparable while `==` on it is
unsafe, against a value of the same kind -/
theorem evalOp_before_6d0c31a_partial (rx : RxEngine) (o : Op) (l r : Val)
    (h : (passesGuard l && uncomparablePair o l r) = false) :
    evalOp Dev.before6d0c31a rx o l r = .ok (Spec.evalOp rx o l r) := by
  apply evalOp_eq_spec_of
  · intro hf
    rw [before_6d0c31a_fault_flag] at hf
    simpa [hf] using h
  · intro hq; cases hq
  · intro hv; cases hv

example : (passesGuard (.arr []) && uncomparablePair .eq (.arr []) (.arr [])) = false := rfl

/-- all 6 × 4 numeric cells compare exact values, without exception -/
theorem num_matrix_current (rx : RxEngine) (o : Op) (ho : isCmp o = true)
    (l r : Val) (x y : Flt) (hl : Spec.num? l = some x) (hr : Spec.num? r = some y) :
    evalOp Dev.current rx o l r = .ok (.bool (cmpNum o x y)) :=
  num_matrix Dev.current rfl rfl rx o ho l r x y hl hr

/-- the former witness: `9007199254740993 == 9007199254740992.0` is now false, `>` true -/
example : evalOp Dev.current rx0 .eq (.int 9007199254740993) (.flt (.fin 9007199254740992 0)) = .ok (.bool false) ∧
    evalOp Dev.current rx0 .gt (.int 9007199254740993) (.flt (.fin 9007199254740992 0)) = .ok (.bool true) := ⟨rfl, rfl⟩

def num_matrix_before_24fcf54 : Prop :=
  ∀ (rx : RxEngine) (o : Op), isCmp o = true → ∀ (l r : Val) (x y : Flt), Spec.num? l = some x → Spec.num? r = some y →
    evalOp Dev.before24fcf54 rx o l r = .ok (.bool (cmpNum o x y))

/-- before 24fcf54: `9007199254740993 == 9007199254740992.0` was true -/
theorem num_matrix_before_24fcf54_false : ¬ num_matrix_before_24fcf54 := by
  intro h
  have := h rx0 .eq rfl (.int 9007199254740993) (.flt (.fin 9007199254740992 0)) _ _ rfl rfl
  have e : evalOp Dev.before24fcf54 rx0 .eq (.int 9007199254740993) (.flt (.fin 9007199254740992 0)) = .ok (.bool true) := rfl
  rw [e] at this
  have c : cmpNum .eq (.fin 9007199254740993 0) (.fin 9007199254740992 0) = false := by decide +kernel
  rw [c] at this
  cases this

/-- Script.Match (every Script() route) gives the specified verdict on EVERY well-formed script, every
element and root -/
theorem script_spec_current (rx : RxEngine) (t : Tm) (hwf : t.wf = true) (elem root : Val) :
    matchElem Dev.current rx (compile true t) elem root = .ok (Spec.matches rx t elem root) :=
  script_spec rx t hwf elem root

/-- no operator application of the script, for any choice of its multi-valued operands, is `==`/`!=`/`in`
with a left operand whose type is comparable while `==` on it is unsafe against a value of the same kind — the
one class in which the current code leaves the specification (true of every script on data without such
struct/array values) -/
def TrapFree (rx : RxEngine) (t : Tm) (elem root : Val) : Prop :=
  ∀ c ∈ Spec.choices elem root (Spec.normalise t), Clean Dev.before6d0c31a rx c = true

def script_spec_before_6d0c31a : Prop :=
  ∀ (rx : RxEngine) (t : Tm), t.wf = true → ∀ elem root,
    matchElem Dev.before6d0c31a rx (compile true t) elem root = .ok (Spec.matches rx t elem root)

theorem script_spec_before_6d0c31a_false : ¬ script_spec_before_6d0c31a := by
  intro h
  have := h rx0 (.app2 .eq (.const trapVal) (.const trapVal)) rfl .null .null
  have e : matchElem Dev.before6d0c31a rx0 (compile true (.app2 .eq (.const trapVal) (.const trapVal))) .null .null
      = .error .uncomparable := rfl
  rw [e] at this
  cases this

/-- Script.Match (every Script() route) gives the specified verdict on every well-formed script, every
element and root, outside the class of finding C12-iface-field-panic (`TrapFree`) -/
theorem script_spec_before_6d0c31a_partial (rx : RxEngine) (t : Tm) (hwf : t.wf = true) (elem root : Val)
    (hclean : TrapFree rx t elem root) :
    matchElem Dev.before6d0c31a rx (compile true t) elem root = .ok (Spec.matches rx t elem root) := by
  rw [compile_true, matchElem_general _ _ _ _ _ (flatten_not_bare _ (isPath_normalise t)),
    matchElem_flatten_clean Dev.before6d0c31a rx _ (wf_normalise t hwf) elem root hclean]
  rfl

/-- non-trivial instance: `@.a == @.m[*]` where `a` is a typed container and `m` holds typed containers and
typed scalars -/
example : TrapFree rx0 (.app2 .eq (.path ⟨false, [.child [97]]⟩) (.path ⟨false, [.child [109], .wild]⟩))
    (.obj [([97], .ext ⟨40, false, 0, .none, false⟩), ([109], .arr [.ext ⟨40, false, 1, .none, false⟩, .ext ⟨20, true, 2, .none, true⟩])]) .null := by
  unfold TrapFree; decide +kernel

def script_spec_before_24fcf54 : Prop :=
  ∀ (rx : RxEngine) (t : Tm), t.wf = true → ∀ elem root,
    matchElem Dev.before24fcf54 rx (compile true t) elem root = .ok (Spec.matches rx t elem root)

/-- before 24fcf54: the script `9007199254740993 == 9007199254740992.0` matched -/
theorem script_spec_before_24fcf54_false : ¬ script_spec_before_24fcf54 := by
  intro h
  have := h rx0 (.app2 .eq (.const (.int 9007199254740993)) (.const (.flt (.fin 9007199254740992 0)))) rfl .null .null
  have e : matchElem Dev.before24fcf54 rx0 (compile true (.app2 .eq (.const (.int 9007199254740993)) (.const (.flt (.fin 9007199254740992 0))))) .null .null
      = .ok true := rfl
  have s : Spec.matches rx0 (.app2 .eq (.const (.int 9007199254740993)) (.const (.flt (.fin 9007199254740992 0)))) .null .null = false := by
    decide +kernel
  rw [e, s] at this
  cases this

/-- the filter route (`Equation.Filter()` inside `Expr.Get`/`First`) gives the specified verdict on EVERY
well-formed script; the only hypothesis concerns a bare path: the data it selects must not hold the
`jp.Nothing` marker itself (`bare_path_spec`) -/
theorem filter_spec_current (rx : RxEngine) (t : Tm) (hwf : t.wf = true) (elem root : Val)
    (hdata : ∀ p, t = .path p → NoNothing (Spec.sel p elem root)) :
    matchElem Dev.current rx (compile false t) elem root = .ok (Spec.matches rx t elem root) := by
  cases hb : isPath t
  · rw [match_filter t hb]
    exact script_spec_current rx t hwf elem root
  · cases t with
    | path p => exact bare_path_spec Dev.current rx p elem root (hdata p rfl)
    | const v => simp [isPath] at hb
    | app1 o a => simp [isPath] at hb
    | app2 o a b => simp [isPath] at hb

example : ∀ p, (Tm.app2 .eq (.path ⟨false, []⟩) (.const (.int 1))) = .path p → NoNothing (Spec.sel p .null .null) := by
  intro p h; cases h

/-- an `exists` application is in no deviation class (used for the code before 24fcf54) -/
theorem clean_bare (d : Dev) (rx : RxEngine) (p : Path) (elem root : Val) :
    ∀ c ∈ Spec.choices elem root (Spec.normalise (.path p)), Clean d rx c = true := by
  intro c hc
  simp only [Spec.normalise, Spec.choices, List.flatMap_map, List.map_cons, List.map_nil,
    List.mem_flatMap, List.mem_singleton] at hc
  obtain ⟨v, _, rfl⟩ := hc
  simp [Clean, Op.cnt, devHit, uncomparablePair, neqFloatCase, bigMixed, isCmp]

/-- WEAK form (per element, same root on both sides): on one element with one root the program `Script()` lays
out and the program `Filter()` lays out give the same verdict. This is NOT yet the property's clause — it does
not speak about `Get`'s result; `match_iff_in_filter` below does. -/
theorem match_filter_current_weak (rx : RxEngine) (t : Tm) (hwf : t.wf = true) (elem : Val)
    (hdata : ∀ p, t = .path p → NoNothing (Spec.sel p elem elem)) :
    matchElem Dev.current rx (compile true t) elem elem = matchElem Dev.current rx (compile false t) elem elem := by
  rw [script_spec_current rx t hwf elem elem, filter_spec_current rx t hwf elem elem hdata]

/-! ### Script.Match(v) ⇔ v is in the result of the corresponding filter

`Script.Match(v)` binds `$` to `v` itself, `Expr.Get` binds `$` inside a filter to the document it was given;
the clause is therefore about scripts without a `$` path (`rootFree`; the harness oracle has the same scope —
with a `$` path the two are different questions by design). -/

def rootFree : Tm → Bool
  | .const _ => true
  | .path p => !p.root
  | .app1 _ a => rootFree a
  | .app2 _ a b => rootFree a && rootFree b

theorem sel_root_irrel (p : Path) (h : p.root = false) (e r1 r2 : Val) : Spec.sel p e r1 = Spec.sel p e r2 := by
  simp [Spec.sel, h]

theorem choices_root_irrel (e r1 r2 : Val) (t : Tm) : rootFree t = true → Spec.choices e r1 t = Spec.choices e r2 t := by
  induction t with
  | const v => intro _; rfl
  | path p =>
    intro h
    have hp : p.root = false := by simpa [rootFree] using h
    simp only [Spec.choices, Spec.candidates, sel_root_irrel p hp e r1 r2]
  | app1 o a iha =>
    intro h
    simp only [Spec.choices, iha (by simpa [rootFree] using h)]
  | app2 o a b iha ihb =>
    intro h
    simp only [rootFree, Bool.and_eq_true] at h
    simp only [Spec.choices, iha h.1, ihb h.2]

theorem matches_root_irrel (rx : RxEngine) (t : Tm) (h : rootFree t = true) (e r1 r2 : Val) :
    Spec.matches rx t e r1 = Spec.matches rx t e r2 := by
  have hn : rootFree (Spec.normalise t) = true := by
    cases t <;> simp_all [Spec.normalise, rootFree]
  simp only [Spec.matches, choices_root_irrel e r1 r2 _ hn]

/-- the model of the filter fragment selects, in order, exactly the elements the specification matches -/
theorem filterList_spec (rx : RxEngine) (t : Tm) (hwf : t.wf = true) (root : Val) (xs : List Val)
    (hdata : ∀ v ∈ xs, ∀ p, t = .path p → NoNothing (Spec.sel p v root)) :
    filterList Dev.current rx (compile false t) root xs = .ok (xs.filter fun v => Spec.matches rx t v root) := by
  induction xs with
  | nil => rfl
  | cons v r ih =>
    have ih' := ih (fun w hw => hdata w (List.mem_cons_of_mem _ hw))
    simp only [filterList, ih', filter_spec_current rx t hwf v root (hdata v (by simp)), List.filter_cons]

def isOkTrue : Except Fault Bool → Bool
  | .ok true => true
  | _ => false

theorem isOkTrue_iff (x : Except Fault Bool) : isOkTrue x = true ↔ x = .ok true := by
  cases x with
  | error f => simp [isOkTrue]
  | ok b => cases b <;> simp [isOkTrue]

/-- THE CLAUSE: for every well-formed script without a `$` path and every list `xs`, `$[?script]` applied to
`xs` (model of the filter fragment in `Get`, `$` = `xs`) returns, in order and with multiplicity, exactly the
elements `v` of `xs` on which `Script.Match(v)` (`$` = `v`) is true; in particular `v` is in the result iff it
is in `xs` and `Match(v)`. Only hypothesis besides well-formedness: for a bare-path script the selected data
does not hold the `jp.Nothing` marker. -/
theorem match_iff_in_filter (rx : RxEngine) (t : Tm) (hwf : t.wf = true) (hrf : rootFree t = true) (xs : List Val)
    (hdata : ∀ v ∈ xs, ∀ p, t = .path p → NoNothing (Spec.sel p v v)) :
    filterGet Dev.current rx (compile false t) (.arr xs) =
        .ok (xs.filter fun v => isOkTrue (matchElem Dev.current rx (compile true t) v v)) ∧
    ∀ res, filterGet Dev.current rx (compile false t) (.arr xs) = .ok res →
      ∀ v, v ∈ res ↔ (v ∈ xs ∧ matchElem Dev.current rx (compile true t) v v = .ok true) := by
  have hd : ∀ v ∈ xs, ∀ p, t = .path p → NoNothing (Spec.sel p v (.arr xs)) := by
    intro v hv p hp
    have hpr : p.root = false := by subst hp; simpa [rootFree] using hrf
    rw [sel_root_irrel p hpr v (.arr xs) v]
    exact hdata v hv p hp
  have h1 : filterGet Dev.current rx (compile false t) (.arr xs) =
      .ok (xs.filter fun v => isOkTrue (matchElem Dev.current rx (compile true t) v v)) := by
    unfold filterGet
    rw [filterList_spec rx t hwf (.arr xs) xs hd]
    congr 1
    apply List.filter_congr
    intro v _
    rw [script_spec_current rx t hwf v v, matches_root_irrel rx t hrf v (.arr xs) v]
    cases Spec.matches rx t v v <;> rfl
  refine ⟨h1, ?_⟩
  intro res hres v
  rw [h1] at hres
  cases hres
  simp only [List.mem_filter, isOkTrue_iff]

/-- the property's wording on a one-element list: `Match(v)` ⇔ `v ∈ $[?script]([v])` -/
theorem match_iff_in_filter_singleton (rx : RxEngine) (t : Tm) (hwf : t.wf = true) (hrf : rootFree t = true) (v : Val)
    (hdata : ∀ p, t = .path p → NoNothing (Spec.sel p v v)) :
    matchElem Dev.current rx (compile true t) v v = .ok true ↔
      ∃ res, filterGet Dev.current rx (compile false t) (.arr [v]) = .ok res ∧ v ∈ res := by
  obtain ⟨h1, h2⟩ := match_iff_in_filter rx t hwf hrf [v] (fun w hw p hp => by
    have : w = v := by simpa using hw
    subst this; exact hdata p hp)
  constructor
  · intro hm
    exact ⟨_, h1, (h2 _ h1 v).2 ⟨by simp, hm⟩⟩
  · rintro ⟨res, hres, hv⟩
    exact ((h2 res hres v).1 hv).2

/-- a non-trivial instance: `@.a > 1 && @.m[*] == 2` is well-formed and has no `$` path -/
example : rootFree (Tm.app2 .and (.app2 .gt (.path ⟨false, [.child [97]]⟩) (.const (.int 1)))
    (.app2 .eq (.path ⟨false, [.child [109], .wild]⟩) (.const (.int 2)))) = true := rfl

end OjgVerif.C12
