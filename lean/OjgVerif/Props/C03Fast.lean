import OjgVerif.Json.FastChunks
import OjgVerif.Props.C02Fast
/-! # C03 for the parsers (oj.ParseReader, gen.Parser.ParseReader: pinned integer fast loop on)

`C03.chunks_irrelevant` is chunk independence for the front-ends without the integer fast loop, and
`C03.chunks_irrelevant_full_false` shows the statement false for the parsers (known finding
C03-int19). This file closes the gap between the two: for the PARSERS the outcome — documents with
their values, or the error with its position — is independent of the chunking on every input and
chunking on which no digit reaches the fast loop while the accumulator equals `BigLimit` exactly,
i.e. everywhere except where the known finding shows. The hypothesis is executable (`noHitCallB`). -/
namespace OjgVerif.C03
open OjgVerif OjgVerif.Json

/-- the parser under any chunking is the byte-at-a-time machine on the same chunking -/
theorem oj_parser_is_bytewise (rd : Bool) (chunks : List Bytes) (h : NoHitCall rd chunks) :
    run ojTables (cfgParser rd) chunks = run ojTables (cfgBytewise rd) chunks := by
  rw [C01.oj_is_reference, C01.oj_is_reference]; exact run_fast_eq_slow rd chunks h

theorem gen_parser_is_bytewise (rd : Bool) (chunks : List Bytes) (h : NoHitCall rd chunks) :
    run genTables (cfgParser rd) chunks = run genTables (cfgBytewise rd) chunks := by
  rw [C01.gen_is_reference, C01.gen_is_reference]; exact run_fast_eq_slow rd chunks h

/-- **Chunk independence for the parsers**, with the exact exclusion of known finding C03-int19. -/
theorem oj_parser_chunks_irrelevant (chunks : List Bytes)
    (h1 : NoHitCall true chunks) (h2 : NoHitCall true [chunks.flatten]) :
    run ojTables (cfgParser true) chunks = run ojTables (cfgParser true) [chunks.flatten] := by
  rw [oj_parser_is_bytewise true chunks h1, oj_parser_is_bytewise true [chunks.flatten] h2]
  exact chunks_irrelevant ojTables (cfgBytewise true) rfl rfl chunks

theorem gen_parser_chunks_irrelevant (chunks : List Bytes)
    (h1 : NoHitCall true chunks) (h2 : NoHitCall true [chunks.flatten]) :
    run genTables (cfgParser true) chunks = run genTables (cfgParser true) [chunks.flatten] := by
  rw [gen_parser_is_bytewise true chunks h1, gen_parser_is_bytewise true [chunks.flatten] h2]
  exact chunks_irrelevant genTables (cfgBytewise true) rfl rfl chunks

/-- non-vacuity: a document with 19- and 22-digit numbers cut inside tokens and inside the BOM meets
both hypotheses -/
example : NoHitCall true [[0xEF], [0xBB, 0xBF, 91, 49], "23,-4.5e".toUTF8.toList,
      "3,92233720368547757".toUTF8.toList, "99,1234567890123456789012]".toUTF8.toList] ∧
    NoHitCall true [([[0xEF], [0xBB, 0xBF, 91, 49], "23,-4.5e".toUTF8.toList,
      "3,92233720368547757".toUTF8.toList, "99,1234567890123456789012]".toUTF8.toList] : List Bytes).flatten] :=
  ⟨noHitCall_of_B _ _ (by decide +kernel), noHitCall_of_B _ _ (by decide +kernel)⟩

/-- … and the known finding's witness does not: `9223372036854775807` in one piece is a hit -/
example : noHitCallB true [lit19] = false := by decide +kernel

/-- … while cut after the first digit it is not (the loop ends at the buffer boundary), which is why
the two chunkings differ (`chunks_irrelevant_full_false`) -/
example : noHitCallB true [[57], lit19.tail] = true := by decide +kernel

end OjgVerif.C03
