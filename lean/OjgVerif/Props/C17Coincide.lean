import OjgVerif.Props.C17
/-! # C17 — when the streamed reading of from-the-end indexes and slices IS the specification

`C17_streamed` says what the current matcher reports for a filter-free target set: `expected` of
the targets in their streamed reading (`asStreamed`: a from-the-end index or union member selects
nothing, a slice selects every index). This module turns the excluded class of `C17_partial` from a
predicate on the TARGET alone (`deviates`) into a predicate on (targets, document):

* `C17_cur_iff_coincides` — for every filter-free target set and every document the callbacks equal
  the specification's `expected targets doc` IF AND ONLY IF `streamedCoincides targets doc`, an
  executable predicate: both readings keep the same locations of the document;
* `fromEnd_alone_iff` — a lone `$[i]` with `i < 0` on an array: right exactly when the index is out
  of range (the array is shorter than `-i`), so NEVER on a non-empty array for `$[-1]`;
* `slice_alone_iff` — a lone slice on an array: right exactly when the slice selects every index; -/
namespace OjgVerif.C17
open OjgVerif OjgVerif.Match

/-- the filter of `expected` -/
def keeps (targets : List Target) (doc : JV) (pv : NPath × JV) : Bool :=
  selectedBy targets doc pv.1 && !(properPrefixes pv.1).any (selectedBy targets doc)

theorem expected_eq_filter (targets : List Target) (doc : JV) :
    expected targets doc = (locs [] doc).filter (keeps targets doc) := rfl

/-- the streamed reading and the specification keep the same locations of this document -/
def streamedCoincides (targets : List Target) (doc : JV) : Bool :=
  (locs [] doc).all fun pv => keeps (targets.map asStreamed) doc pv == keeps targets doc pv

theorem filter_eq_filter_iff {α : Type} (l : List α) (p q : α → Bool) :
    l.filter p = l.filter q ↔ ∀ x ∈ l, p x = q x := by
  constructor
  · intro h x hx
    have h1 : x ∈ l.filter p ↔ x ∈ l.filter q := by rw [h]
    simp only [List.mem_filter, hx, true_and] at h1
    cases hp : p x <;> cases hq : q x <;> simp [hp, hq] at h1 <;> rfl
  · intro h
    exact List.filter_congr h

theorem streamedCoincides_iff (targets : List Target) (doc : JV) :
    streamedCoincides targets doc = true ↔ expected (targets.map asStreamed) doc = expected targets doc := by
  rw [expected_eq_filter, expected_eq_filter, filter_eq_filter_iff]
  simp [streamedCoincides, List.all_eq_true]

/-- **The excluded class as a predicate on (targets, document).** For the code as it is now, every
document and every target set without filters: the callbacks are the specification's exactly when
the streamed reading of the targets keeps the same locations of THIS document as the targets
themselves (`streamedCoincides`, executable). -/
theorem C17_cur_iff_coincides (targets : List Target) (doc : JV) (hdoc : NoDupKeys doc = true)
    (hnf : ∀ t ∈ targets, usesFilter t = false) :
    matchRun Dev.cur targets (events doc) = expected targets doc ↔ streamedCoincides targets doc = true := by
  rw [C17_streamed targets doc hdoc hnf, streamedCoincides_iff]

/-! ## lone from-the-end index, lone slice -/

/-- the elements of an array document a one-fragment target selects -/
def elemSel (f : Frag) (xs : List JV) : NPath → Bool
  | [.idx j] => (match xs[j]? with | some c => fragSel f (.arr xs) (.idx j) c | none => false)
  | _ => false

theorem selectedBy_single_arr (f : Frag) (hd : isDescent f = false) (xs : List JV) (q : NPath) :
    selectedBy [[f]] (.arr xs) q = elemSel f xs q := by
  simp only [selectedBy, List.any_cons, List.any_nil, Bool.or_false]
  cases f <;> simp [isDescent] at hd <;>
  (match q with
   | [] => simp [selects, elemSel]
   | [.key k] => simp [selects, child?, elemSel]
   | [.idx j] =>
     simp only [selects, child?, elemSel]
     cases xs[j]? <;> simp [selects]
   | a :: b :: r =>
     simp only [selects, elemSel]
     cases child? (JV.arr xs) a <;> simp [selects])

/-- what a one-fragment target (no descent, no filter) keeps of an array document: the elements the
fragment selects -/
theorem keeps_single_arr (f : Frag) (hd : isDescent f = false) (xs : List JV) (pv : NPath × JV) :
    keeps [[f]] (.arr xs) pv = elemSel f xs pv.1 := by
  have hfun : selectedBy [[f]] (.arr xs) = elemSel f xs := funext (selectedBy_single_arr f hd xs)
  simp only [keeps, hfun]
  match pv.1 with
  | [] => simp [elemSel]
  | [.key k] => simp [elemSel]
  | [.idx j] => simp [properPrefixes, List.range_succ, elemSel]
  | a :: b :: r => simp [elemSel]

theorem locs_arr_elem (xs : List JV) (j : Nat) (c : JV) (h : xs[j]? = some c) :
    ([Seg.idx j], c) ∈ locs [] (.arr xs) := by
  have := locs_complete [.idx j] (.arr xs) [] c (by simp [nav, child?, h])
  simpa using this

/-- one-fragment targets `f`, `g` (no descent, no filter) keep the same locations of an array
document iff they select the same elements -/
theorem coincide_single_arr (f g : Frag) (hf : isDescent f = false) (hg : isDescent g = false) (xs : List JV) :
    expected [[g]] (.arr xs) = expected [[f]] (.arr xs) ↔
      ∀ j c, xs[j]? = some c → fragSel g (.arr xs) (.idx j) c = fragSel f (.arr xs) (.idx j) c := by
  rw [expected_eq_filter, expected_eq_filter, filter_eq_filter_iff]
  constructor
  · intro h j c hj
    have := h ([.idx j], c) (locs_arr_elem xs j c hj)
    rw [keeps_single_arr g hg xs, keeps_single_arr f hf xs] at this
    simpa [elemSel, hj] using this
  · intro h pv _
    rw [keeps_single_arr g hg xs pv, keeps_single_arr f hf xs pv]
    match pv.1 with
    | [] => rfl
    | [.key k] => rfl
    | [.idx j] =>
      simp only [elemSel]
      cases hj : xs[j]? with
      | none => rfl
      | some c => exact h j c hj
    | a :: b :: r => simp [elemSel]

/-- **A lone from-the-end index is right only when it is out of range.** `$[i]` with `i < 0` on an
array of `n` elements: the matcher reports nothing, the specification the element `n + i` — so the
callbacks are the specification's iff `n < -i`; for `$[-1]`: iff the array is empty. -/
theorem fromEnd_alone_iff (i : Int) (hi : i < 0) (xs : List JV) (hdoc : NoDupKeys (.arr xs) = true) :
    matchRun Dev.cur [[.index i]] (events (.arr xs)) = expected [[.index i]] (.arr xs) ↔
      (xs.length : Int) + i < 0 := by
  rw [C17_streamed _ _ hdoc (by simp [usesFilter, isFilterFrag])]
  have hs : [[Frag.index i]].map asStreamed = [[.union []]] := by simp [asStreamed, streamedFrag, hi]
  rw [hs, coincide_single_arr (.index i) (.union []) rfl rfl]
  constructor
  · intro h
    by_cases hlt : (xs.length : Int) + i < 0
    · exact hlt
    · exfalso
      have hj : (xs.length : Int) + i = ((xs.length + i).toNat : Nat) := by omega
      have hlen : (xs.length + i).toNat < xs.length := by omega
      have := h (xs.length + i).toNat xs[(xs.length + i).toNat] (by simp [hlen])
      simp only [fragSel, List.any_nil, indexSel, hi, ↓reduceIte] at this
      have h2 : decide ((((xs.length : Int) + i).toNat : Int) = (xs.length : Int) + i) = true := by
        simp; omega
      rw [h2] at this
      cases this
  · intro hlt j c hj
    have hjl : j < xs.length := by
      rcases Nat.lt_or_ge j xs.length with h | h
      · exact h
      · simp [List.getElem?_eq_none h] at hj
    simp only [fragSel, List.any_nil, indexSel, hi, ↓reduceIte]
    have : ¬ ((j : Int) = (xs.length : Int) + i) := by omega
    simp [this]

/-- `$[-1]` is right on no non-empty array -/
theorem fromEnd_last_never (x : JV) (xs : List JV) (hdoc : NoDupKeys (.arr (x :: xs)) = true) :
    matchRun Dev.cur [[.index (-1)]] (events (.arr (x :: xs))) ≠ expected [[.index (-1)]] (.arr (x :: xs)) := by
  intro h
  have := (fromEnd_alone_iff (-1) (by decide) (x :: xs) hdoc).mp h
  simp only [List.length_cons] at this
  omega

/-- **A lone slice is right only when it selects everything.** `$[a:b:st]` on an array: the matcher
reports every element, so the callbacks are the specification's iff the slice selects every index
of THIS array. -/
theorem slice_alone_iff (a : Int) (b : Option Int) (st : Int) (xs : List JV) (hdoc : NoDupKeys (.arr xs) = true) :
    matchRun Dev.cur [[.slice a b st]] (events (.arr xs)) = expected [[.slice a b st]] (.arr xs) ↔
      ∀ j, j < xs.length → sliceSel a b st xs.length j = true := by
  rw [C17_streamed _ _ hdoc (by simp [usesFilter, isFilterFrag])]
  have hs : [[Frag.slice a b st]].map asStreamed = [[.slice 0 none 1]] := by simp [asStreamed, streamedFrag]
  rw [hs, coincide_single_arr (.slice a b st) (.slice 0 none 1) rfl rfl]
  constructor
  · intro h j hj
    have := h j xs[j] (by simp [hj])
    simp only [fragSel] at this
    rw [sliceSel_full _ _ hj] at this
    exact this.symm
  · intro h j c hj
    have hjl : j < xs.length := by
      rcases Nat.lt_or_ge j xs.length with h' | h'
      · exact h'
      · simp [List.getElem?_eq_none h'] at hj
    simp only [fragSel]
    rw [sliceSel_full _ _ hjl, h j hjl]

/-- the hypotheses are satisfiable either way: `$[-2]` is right on `[7]` and wrong on `[7,8]`;
`$[0:5]` is right on `[7,8]`, `$[1:]` wrong -/
example : ((([JV.int 7].length : Nat) : Int) + (-2) < 0) ∧ ¬ ((([JV.int 7, .int 8].length : Nat) : Int) + (-2) < 0) := by
  decide
example : (∀ j, j < [JV.int 7, .int 8].length → sliceSel 0 (some 5) 1 [JV.int 7, .int 8].length j = true) ∧
    ¬ (∀ j, j < [JV.int 7, .int 8].length → sliceSel 1 none 1 [JV.int 7, .int 8].length j = true) := by
  constructor
  · intro j hj
    have : j = 0 ∨ j = 1 := by simp at hj; omega
    rcases this with rfl | rfl <;> decide
  · intro h
    have := h 0 (by decide)
    revert this
    decide

end OjgVerif.C17
