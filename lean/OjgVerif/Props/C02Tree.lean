import OjgVerif.Props.C01
import OjgVerif.Json.RefineTree
import OjgVerif.Json.NumConv
/-! # C02 — structure clause as a theorem

For every byte string the tree returned over the regenerated oj / gen tables is the tree of the text:
same nesting, element order, member names (last duplicate wins, first position kept), strings
decoded escape by escape (`pCharsM`: every RFC 8259 escape; a surrogate PAIR is decoded as two
U+FFFD — known finding C02-surrogate, witness `C02.surrogate_pair_deviation`), and each number
literal replaced by the conversion of exactly that literal (`numConv`: what the accumulator of
`gen/number.go` makes of its digits — `Json.int_exact`, `addFrac_inv`, `addExp_inv` say what that is).
Nothing is lost, reordered or invented. Configuration: one document, no integer fast loop; the
parsers' loop changes values only (`C01.outcome_independent_of_fastInt`, known finding C02-int19). -/
namespace OjgVerif.C02
open OjgVerif OjgVerif.Json

theorem oj_structure (bs : Bytes) :
    toOpt (run ojTables cfg1 [bs]) = ((parseTextS (Spec.stripBOM bs)).mapVal (JV.mapNum numConv)).result := by
  rw [C01.oj_is_reference]; exact run_structure bs

theorem gen_structure (bs : Bytes) :
    toOpt (run genTables cfg1 [bs]) = ((parseTextS (Spec.stripBOM bs)).mapVal (JV.mapNum numConv)).result := by
  rw [C01.gen_is_reference]; exact run_structure bs

/-- the conversion at the number leaves of `oj_structure`, for plain integer literals
`-? [1-9][0-9]*` whose magnitude fits int64: the int64 equal to the literal (always so, as the
property demands; for the parsers' fast loop see known finding C02-int19) -/
theorem plain_int_leaf (d : UInt8) (ds : Bytes) (hd : Spec.isDigit19 d = true)
    (hds : ∀ x ∈ ds, Spec.isDigit x = true) (hfit : natOf (d :: ds) ≤ 9223372036854775807) :
    numConv (d :: ds) = .int (natOf (d :: ds)) ∧ numConv (45 :: d :: ds) = .int (-(natOf (d :: ds) : Int)) :=
  ⟨numConv_nat d ds hd hds hfit, numConv_neg d ds hd hds hfit⟩

/-- non-vacuity: `9223372036854775807` and `-9223372036854775807` -/
example : numConv [57,50,50,51,51,55,50,48,51,54,56,53,52,55,55,53,56,48,55] = .int 9223372036854775807 :=
  (plain_int_leaf 57 [50,50,51,51,55,50,48,51,54,56,53,52,55,55,53,56,48,55] (by decide) (by decide) (by decide)).1

/-- non-vacuity: on `{"b":[1,"x"],"b":2}` the grammar denotes one member, the last duplicate -/
example : parseTextS [123,34,98,34,58,91,49,44,34,120,34,93,44,34,98,34,58,50,125] =
    .one (.obj [([98], .num [50])]) := by rfl

end OjgVerif.C02
