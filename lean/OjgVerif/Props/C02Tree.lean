import OjgVerif.Props.C01
import OjgVerif.Json.RefineTree
/-! # C02 — structure clause as a theorem

For every byte string the tree returned over the regenerated oj / gen tables is the tree of the text:
same nesting, element order, member names (last duplicate wins, first position kept), strings
decoded escape by escape (`pCharsM`: every RFC 8259 escape; a surrogate PAIR is decoded as two
U+FFFD — known finding C02-surrogate, witness `C02.surrogate_pair_deviation`), and each number
literal replaced by the conversion of exactly that literal (`numConv`: what the accumulator of
`gen/number.go` makes of its digits — `Json.int_exact`, `addFrac_inv`, `addExp_inv` say what that is).
Nothing is lost, reordered or invented. Configuration: one document, no integer fast loop; the
parsers' loop changes values only (`C01.outcome_independent_of_fastInt`, known finding C02-int19). -/
namespace OjgVerif.C02
open OjgVerif OjgVerif.Json

theorem oj_structure (bs : Bytes) :
    toOpt (run ojTables cfg1 [bs]) = ((parseTextS (Spec.stripBOM bs)).mapVal (JV.mapNum numConv)).result := by
  rw [C01.oj_is_reference]; exact run_structure bs

theorem gen_structure (bs : Bytes) :
    toOpt (run genTables cfg1 [bs]) = ((parseTextS (Spec.stripBOM bs)).mapVal (JV.mapNum numConv)).result := by
  rw [C01.gen_is_reference]; exact run_structure bs

/-- non-vacuity: on `{"b":[1,"x"],"b":2}` the grammar denotes one member, the last duplicate -/
example : parseTextS [123,34,98,34,58,91,49,44,34,120,34,93,44,34,98,34,58,50,125] =
    .one (.obj [([98], .num [50])]) := by rfl

end OjgVerif.C02
