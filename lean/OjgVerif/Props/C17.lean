import OjgVerif.Match.LemmasSel
import OjgVerif.Match.LemmasSpec
import OjgVerif.Match.LemmasStream
import OjgVerif.Gen.MatchFacts
import OjgVerif.Props.C03
/-! # C17 — streaming Match equals parse-then-locate

`matchRun dv targets (events doc)` are the callbacks of the `MatchHandler` model (Match/Model.lean)
on the token events of a document, `expected targets doc` the outermost locations the targets
select, in document order, with their values (Match/Spec.lean). Chunking does not appear: the
handler sits behind oj.Tokenizer / sen.Tokenizer and sees token events only; that the token-event
sequence does not depend on the chunking of the reader is property C03 (`chunks_irrelevant` for the
JSON machine, partial for SEN), and the handler is a function of the event sequence (the event
list is an explicit argument of `matchRun`). Chunk independence of the callbacks is therefore NOT a
proved clause of this module: `callbacks_chunk_independent_given_C03` is conditional on C03 as an
undischarged hypothesis, `callbacks_chunk_independent_machine` discharges it only for a token
stream defined from the result of C03's byte machine; for the Go code it is tied by correspondence.
(Round 3: Props/C17Chunks.lean defines the tokenizer's event sequence from the run of the byte machine
and proves the clause — `C17_chunked`, `callbacks_chunk_independent`; Props/C17Filter.lean covers target
sets with filters, Props/C17Coincide.lean characterises the excluded from-the-end/slice class.)

SCOPE: `C17_partial` holds for target SETS in which NO target uses a slice (other than `[:]`), a
filter or a from-the-end index/union member anywhere. `C17_streamed` weakens that for slices and
from-the-end indexes: in a set without filters such a target does not disturb the others (it is
read as `asStreamed`: from-the-end selects nothing, a slice is `[:]`); only a FILTER target masks
other targets (`dev_filter_masks_other_target`).

The full statement is false for the code as it is (`C17_full_false` and one witness per recorded
deviation); `C17_partial` proves it for every document and every target set that avoids exactly
the named constructs (`deviates`: from-the-end indexes/union members, slices, filters; trailing
descents are repaired in /repo and covered), and `C17_general` for any setting of the repairable deviations
(`Dev`), so that the same theorem covers the patched matcher. -/
namespace OjgVerif.C17
open OjgVerif OjgVerif.Match

/-- the property at full strength, for the matcher as it is (`Dev.cur`) -/
def C17_full : Prop :=
  ∀ (targets : List Target) (doc : JV), NoDupKeys doc = true →
    matchRun Dev.cur targets (events doc) = expected targets doc

/-! ## the named constructs on which the current code deviates -/

def memFromEnd : UMem → Bool
  | .index i => decide (i < 0)
  | .name _ => false

/-- an index or union member counted from the end -/
def fragFromEnd : Frag → Bool
  | .index i => decide (i < 0)
  | .union ms => ms.any memFromEnd
  | _ => false

/-- a slice other than `[:]` (start 0, no end, step 1): the matcher ignores bounds and step -/
def isPartialSlice : Frag → Bool
  | .slice a b st => !(decide (a = 0) && b.isNone && decide (st = 1))
  | _ => false

def usesFromEnd (t : Target) : Bool := t.any fragFromEnd
def usesSlice (t : Target) : Bool := t.any isPartialSlice
def usesFilter (t : Target) : Bool := t.any isFilterFrag

/-- the target uses one of the constructs with a recorded deviation, ANYWHERE in it
(known_findings.json: C17-from-end-index, C17-slice-bounds — a slice other than `[:]` —,
C17-filter-first-only). A target that
ends in a descent is no longer among them (repaired in /repo, ba8abfd: `Dev.cur.descentNoSelf`
is off). -/
def deviates (t : Target) : Bool :=
  usesFromEnd t || usesSlice t || usesFilter t

theorem memOK_iff (m : UMem) : memOK m = !memFromEnd m := by
  cases m with
  | name k => rfl
  | index i =>
    simp only [memOK, memFromEnd]
    by_cases h : 0 ≤ i
    · have : ¬ i < 0 := by omega
      simp [h, this]
    · have : i < 0 := by omega
      simp [h, this]

theorem all_memOK (ms : List UMem) : ms.all memOK = !ms.any memFromEnd := by
  induction ms with
  | nil => rfl
  | cons m r ih => simp [List.all_cons, List.any_cons, ih, memOK_iff, Bool.not_or]

theorem fragOK_cur (f : Frag) :
    fragOK Dev.cur f = !(fragFromEnd f || isPartialSlice f || isFilterFrag f) := by
  cases f with
  | child k => rfl
  | index i =>
    simp only [fragOK, fragFromEnd, isPartialSlice, isFilterFrag, Bool.or_false]
    by_cases h : 0 ≤ i
    · have : ¬ i < 0 := by omega
      simp [h, this]
    · have : i < 0 := by omega
      simp [h, this]
  | wildcard => rfl
  | union ms => simp [fragOK, fragFromEnd, isPartialSlice, isFilterFrag, all_memOK]
  | slice a b st => simp [fragOK, Dev.cur, fragFromEnd, isPartialSlice, isFilterFrag]
  | descent => rfl
  | filter p => rfl

/-- the targets the current matcher is claimed correct on are exactly those that avoid the named
constructs -/
theorem okTarget_cur : ∀ (t : Target), okTarget Dev.cur t = !deviates t
  | [] => rfl
  | f :: fs => by
    have ih := okTarget_cur fs
    have hf := fragOK_cur f
    have hd : Dev.cur.descentNoSelf = false := rfl
    simp only [okTarget, ih, hf, hd, Bool.false_and, Bool.not_false, Bool.and_true]
    simp only [deviates, usesFromEnd, usesSlice, usesFilter, List.any_cons]
    cases fragFromEnd f <;> cases isPartialSlice f <;> cases isFilterFrag f <;>
      cases fs.any fragFromEnd <;> cases fs.any isPartialSlice <;> cases fs.any isFilterFrag <;> rfl

/-! ## what is proved -/

/-- For EVERY target set (deviating constructs included) the handler model on the events of a
document is the top-down traversal that reports a node when `PathMatch` accepts its path and looks
at the children otherwise: path bookkeeping (`incNth`, push/pop, `Key`), collection of a matched
element on the stack with its two-step stores, and "outermost only" are right whatever `PathMatch`
answers. -/
theorem transducer_is_traversal (dv : Dev) (targets : List Target) (doc : JV) (h : NoDupKeys doc = true) :
    matchRun dv targets (events doc) = found dv (targets.map splitTarget) [] doc :=
  run_events dv targets doc h

/-- `PathMatch` on a path that exists in the document says "the target selects the path or one of
its prefixes" (for targets without a deviating construct) -/
theorem pathMatch_is_prefix_selection (dv : Dev) (t : Target) (ht : okTarget dv t = true)
    (doc : JV) (q : NPath) (u : JV) (hq : nav doc q = some u) :
    pathMatch dv t q = (selects t doc q || (properPrefixes q).any (selects t doc)) := by
  rw [pathMatch_prefixes dv t ht doc q u hq]
  simp [prefixesIncl, Bool.or_comm]

/-- C17 for any setting of the repairable deviations (`Dev`: slice bounds, descent matching the
node itself, filter reporting): all documents, all target sets of supported targets (`okTarget dv`;
filters are never among them) -/
theorem C17_general (dv : Dev) (targets : List Target) (doc : JV) (hdoc : NoDupKeys doc = true)
    (hok : ∀ t ∈ targets, okTarget dv t = true) :
    matchRun dv targets (events doc) = expected targets doc := by
  rw [run_events dv targets doc hdoc, found_expected dv targets doc hdoc hok]

/-- C17 for the code as it is now (trailing descents repaired): every document, every set of
targets none of which uses a from-the-end index or union member, a slice or a filter; targets
ending in a descent (`$..`, `$.a..`) are covered. One deviating target puts the whole SET outside
the theorem: while a container is collected for a filter target no other target is looked at. -/
theorem C17_partial (targets : List Target) (doc : JV) (hdoc : NoDupKeys doc = true)
    (hdev : ∀ t ∈ targets, deviates t = false) :
    matchRun Dev.cur targets (events doc) = expected targets doc :=
  C17_general Dev.cur targets doc hdoc (fun t ht => by simp [okTarget_cur, hdev t ht])

/-- on a target without a deviating construct the streamed reading is the target itself -/
theorem asStreamed_id (t : Target) (h : deviates t = false) : asStreamed t = t :=
  asStreamed_ok Dev.cur rfl t (by simp [okTarget_cur, h])

/-- C17 for the code as it is now, for every target set WITHOUT FILTERS: the callbacks are the
specification's for the targets read the way the streaming matcher reads them — a from-the-end
index or union member selects nothing, a slice selects every index, and every target without such
a construct keeps its meaning (`asStreamed_id`). So a from-the-end or slice target does not mask
or disturb the other targets of the set: they are judged as if it stood alone in its streamed
reading. (A filter target does mask the others: `dev_filter_masks_other_target`.) -/
theorem C17_streamed (targets : List Target) (doc : JV) (hdoc : NoDupKeys doc = true)
    (hnf : ∀ t ∈ targets, usesFilter t = false) :
    matchRun Dev.cur targets (events doc) = expected (targets.map asStreamed) doc := by
  rw [run_events Dev.cur targets doc hdoc]
  exact found_streamed Dev.cur rfl rfl targets doc hdoc hnf

/-- in particular: deviating non-filter targets `bad` next to non-deviating `good` ones give the
outermost locations of `good` together with the streamed readings of `bad` -/
theorem C17_mixed (good bad : List Target) (doc : JV) (hdoc : NoDupKeys doc = true)
    (hg : ∀ t ∈ good, deviates t = false) (hb : ∀ t ∈ bad, usesFilter t = false) :
    matchRun Dev.cur (good ++ bad) (events doc) = expected (good ++ bad.map asStreamed) doc := by
  rw [C17_streamed (good ++ bad) doc hdoc (by
    intro t ht
    rcases List.mem_append.mp ht with h | h
    · have := hg t h
      simp only [deviates, Bool.or_eq_false_iff] at this
      exact this.2
    · exact hb t h)]
  have : good.map asStreamed = good := by
    conv => rhs; rw [← List.map_id good]
    exact List.map_congr_left (fun t ht => asStreamed_id t (hg t ht))
  rw [List.map_append, this]

/-- CONDITIONAL on a hypothesis that is NOT proved here and NOT connected to this token model: IF a
tokenizer `tok` delivers the same event sequence for every chunking `c` (`hC03`), THEN the callbacks
do not depend on the chunking. The proof is one rewrite: all it records is that the handler is a
function of the event sequence (`evs` is an explicit argument of `matchRun`). `hC03` is property
C03; `OjgVerif.C03.chunks_irrelevant` proves it for the RESULT of the JSON byte machine, which
delivers documents, not token events (see `callbacks_chunk_independent_machine` for what that
gives); for the Go tokenizers' event sequences it is tied by the correspondence runs of C03 and of
this harness (chunkings of MatchLoad) only. -/
theorem callbacks_chunk_independent_given_C03 {C : Type} (tok : C → Bytes → List Event)
    (hC03 : ∀ (c c' : C) (text : Bytes), tok c text = tok c' text)
    (dv : Dev) (targets : List Target) (c c' : C) (text : Bytes) :
    matchRun dv targets (tok c text) = matchRun dv targets (tok c' text) := by
  rw [hC03 c c' text]

/-- the same with `C17_partial` behind it; conditional on `hC03` and `htok` in the same way -/
theorem callbacks_any_chunking_given_C03 {C : Type} (tok : C → Bytes → List Event)
    (hC03 : ∀ (c c' : C) (text : Bytes), tok c text = tok c' text)
    (targets : List Target) (doc : JV) (hdoc : NoDupKeys doc = true)
    (hdev : ∀ t ∈ targets, deviates t = false)
    (c₀ : C) (text : Bytes) (htok : tok c₀ text = events doc) (c : C) :
    matchRun Dev.cur targets (tok c text) = expected targets doc := by
  rw [hC03 c c₀ text, htok]
  exact C17_partial targets doc hdoc hdev

/-- the token events of the documents a run of the JSON byte machine delivers (none on an error:
the events a tokenizer hands over BEFORE an error are not in this model) -/
def machineEvents : Except Json.Err (List JV) → List Event
  | .ok docs => docs.flatMap events
  | .error _ => []

/-- The hypothesis discharged where it can be: for the token stream DEFINED as the events of the
documents that the C03 byte machine delivers in the configuration of oj.Tokenizer.Load (reader entry
point, no integer fast loop), the callbacks are the same for every chunking — by
`C03.chunks_irrelevant`, BOM top-up included. What stays untied by a theorem: that the Go
tokenizer's event sequence IS `machineEvents` of that run (it calls the handler token by token,
also before an error), and the SEN tokenizer (C03 is partial for SEN). -/
theorem callbacks_chunk_independent_machine (T : Json.Tables) (cfg : Json.Cfg)
    (h : cfg.fastInt = false) (hr : cfg.reader = true) (dv : Dev) (targets : List Target)
    (chunks : List Bytes) :
    matchRun dv targets (machineEvents (Json.run T cfg chunks))
      = matchRun dv targets (machineEvents (Json.run T cfg [chunks.flatten])) := by
  rw [C03.chunks_irrelevant T cfg h hr chunks]

/-- Regression tripwire over the patched lines (NOT a proof that the Go code is the model; that tie
is the correspondence run): the deviation flags of `Dev.cur` agree with syntactic facts regenerated
from jp/match.go and jp/matchhandler.go on every run (tools/extract/match.go) — `case Slice` of
PathMatch calls nothing (every index matches), the descent is tested in front of the
`len(path) == 0` return with an endless loop (repair ba8abfd), `checkRest` asks `Locate` for one
location and takes the value from `First`. Changing one of these lines without `Dev.cur` breaks
this theorem. -/
theorem dev_cur_matches_source :
    Dev.cur.sliceAll = Gen.MatchFacts.sliceCaseCalls.isEmpty ∧
    Dev.cur.descentNoSelf = !Gen.MatchFacts.descentBeforeLenCheck ∧
    Dev.cur.filterFirstOnly =
      (decide (Gen.MatchFacts.checkRestLocateMax = 1) && Gen.MatchFacts.checkRestCallsFirst) := by decide

/-- with the remaining proposed fix of `PathMatch` (slice bounds) the theorem also covers slices
with bounds from the start and a forward step -/
theorem C17_fixed (targets : List Target) (doc : JV) (hdoc : NoDupKeys doc = true)
    (hok : ∀ t ∈ targets, okTarget Dev.fixed t = true) :
    matchRun Dev.fixed targets (events doc) = expected targets doc :=
  C17_general Dev.fixed targets doc hdoc hok

/-- what the right-hand side says, without the enumeration: (path, value) is expected iff the path
exists in the document with that value, some target selects it, and no target selects a proper
prefix of it -/
theorem expected_characterised (targets : List Target) (doc : JV) (h : NoDupKeys doc = true) (q : NPath) (u : JV) :
    (q, u) ∈ expected targets doc ↔
      nav doc q = some u ∧ selectedBy targets doc q = true ∧
        ∀ q' ∈ properPrefixes q, selectedBy targets doc q' = false :=
  mem_expected_iff targets doc h q u

/-- "once": no location is expected twice -/
theorem expected_once (targets : List Target) (doc : JV) (h : NoDupKeys doc = true) :
    ((expected targets doc).map (·.1)).Nodup :=
  expected_nodup targets doc h

/-- hence, for supported targets, the handler calls back once per outermost selected location -/
theorem callbacks_once (dv : Dev) (targets : List Target) (doc : JV) (hdoc : NoDupKeys doc = true)
    (hok : ∀ t ∈ targets, okTarget dv t = true) :
    ((matchRun dv targets (events doc)).map (·.1)).Nodup := by
  rw [C17_general dv targets doc hdoc hok]
  exact expected_once targets doc hdoc

/-! non-trivial instances of the hypotheses -/

/-- `$..a[*]['b',0][2]`, `$.a`, and the trailing descents `$..`, `$.a..` -/
example : ∀ t ∈ [[Frag.descent, .child [97], .wildcard, .union [.name [98], .index 0], .index 2], [.child [97]],
    [.descent], [.child [97], .descent]], deviates t = false := by decide

/-- an INCLUDED target set of `C17_partial`: `$.*`, `$.a[0]`, `$..b`, `$[:]`; an EXCLUDED one: the
same with `$[-1]` added (one such target puts the whole set outside `C17_partial`) — which
`C17_streamed` still covers, with `$[-1]` read as "selects nothing"; and a set neither covers:
`$.*` with the filter target `$[?…]` -/
example : (∀ t ∈ [[Frag.wildcard], [.child [97], .index 0], [.descent, .child [98]], [.slice 0 none 1]],
      deviates t = false) ∧
    (∃ t ∈ [[Frag.wildcard], [.child [97], .index 0], [.descent, .child [98]], [.slice 0 none 1], [.index (-1)]],
      deviates t = true) ∧
    (∀ t ∈ [[Frag.wildcard], [.child [97], .index 0], [.descent, .child [98]], [.slice 0 none 1], [.index (-1)]],
      usesFilter t = false) ∧
    (∃ t ∈ [[Frag.wildcard], [.filter fun _ => true]], usesFilter t = true) := by decide

example : [[Frag.wildcard], [.index (-1)], [.slice 1 (some 2) 1]].map asStreamed
    = [[.wildcard], [.union []], [.slice 0 none 1]] := by simp [asStreamed, streamedFrag]

/-- `C17_streamed` at work: `$[-1]` and `$[1:2]` next to `$[0]` on `[5,6,7]`: the slice reports every
element, `$[-1]` nothing, `$[0]` is undisturbed -/
example : (matchRun Dev.cur [[.index (-1)], [.index 0]] (events (.arr [.int 5, .int 6, .int 7]))).map (·.1)
      = [[.idx 0]] ∧
    (matchRun Dev.cur [[.slice 1 (some 2) 1], [.index 0]] (events (.arr [.int 5, .int 6, .int 7]))).map (·.1)
      = [[.idx 0], [.idx 1], [.idx 2]] := by decide

/-- `{"a":[{"b":[0,1,2]},3],"c":null}` -/
example : NoDupKeys (.obj [([97], .arr [.obj [([98], .arr [.int 0, .int 1, .int 2])], .int 3]), ([99], .null)]) = true := by
  decide

/-- with the slice fix: `$.a[1:5:2]` (and `$.a..`) -/
example : ∀ t ∈ [[Frag.child [97], .slice 1 (some 5) 2], [.child [97], .descent]], okTarget Dev.fixed t = true := by
  decide

/-- the theorem is not vacuous: nested targets `$.*` and `$.a[0]` on `{"a":[1],"b":2}` give the two
outermost locations `$.a` and `$.b` in document order -/
example : (expected [[.wildcard], [.child [97], .index 0]] (.obj [([97], .arr [.int 1]), ([98], .int 2)])).map (·.1)
    = [[.key [97]], [.key [98]]] := by decide

/-! ## the full statement is false: one witness per recorded deviation -/

theorem ne_of_paths {a b : List (NPath × JV)} (h : a.map (·.1) ≠ b.map (·.1)) : a ≠ b :=
  fun e => h (by rw [e])

/-- C17-from-end-index: `$[-1]` on `[1,2]` — no callback, expected `$[1]` -/
theorem dev_fromEnd_index :
    (matchRun Dev.cur [[.index (-1)]] (events (.arr [.int 1, .int 2]))).map (·.1) = [] ∧
    (expected [[.index (-1)]] (.arr [.int 1, .int 2])).map (·.1) = [[.idx 1]] := by decide

/-- C17-from-end-index: `$[0,-1]` on `[1,2]` — only `$[0]` -/
theorem dev_fromEnd_union :
    (matchRun Dev.cur [[.union [.index 0, .index (-1)]]] (events (.arr [.int 1, .int 2]))).map (·.1) = [[.idx 0]] ∧
    (expected [[.union [.index 0, .index (-1)]]] (.arr [.int 1, .int 2])).map (·.1) = [[.idx 0], [.idx 1]] := by decide

/-- C17-slice-bounds: `$[1:2]` on `[0,1,2]` — every element is reported -/
theorem dev_slice :
    (matchRun Dev.cur [[.slice 1 (some 2) 1]] (events (.arr [.int 0, .int 1, .int 2]))).map (·.1)
      = [[.idx 0], [.idx 1], [.idx 2]] ∧
    (expected [[.slice 1 (some 2) 1]] (.arr [.int 0, .int 1, .int 2])).map (·.1) = [[.idx 1]] := by decide

/-- C17-trailing-descent (FIXED in /repo, ba8abfd): before the fix (`descentNoSelf` on) `$..` on
`[1]` reported the element instead of the document; the current matcher reports the document -/
theorem dev_trailing_descent_before_fix :
    (matchRun ⟨true, true, true⟩ [[.descent]] (events (.arr [.int 1]))).map (·.1) = [[.idx 0]] ∧
    (matchRun Dev.cur [[.descent]] (events (.arr [.int 1]))).map (·.1) = [[]] ∧
    (expected [[.descent]] (.arr [.int 1])).map (·.1) = [[]] := by decide

/-- the still-known deviations in front of a now-working descent: `$[-1]..` on `[1]` reports
nothing (expected `$[0]`), `$[1:]..` on `[1]` reports `$[0]` (expected nothing) -/
theorem dev_before_descent :
    (matchRun Dev.cur [[.index (-1), .descent]] (events (.arr [.int 1]))).map (·.1) = [] ∧
    (expected [[.index (-1), .descent]] (.arr [.int 1])).map (·.1) = [[.idx 0]] ∧
    (matchRun Dev.cur [[.slice 1 none 1, .descent]] (events (.arr [.int 1]))).map (·.1) = [[.idx 0]] ∧
    (expected [[.slice 1 none 1, .descent]] (.arr [.int 1])).map (·.1) = [] := by decide

/-- a filter target spoils the whole set: with `$.[?(@ == 2)]` and `$..` on `[2]` the document is
collected for the filter target and `$..` is not looked at (expected: the document) -/
theorem dev_filter_masks_other_target :
    (matchRun Dev.cur [[.descent, .filter fun v => match v with | .int 2 => true | _ => false], [.descent]]
        (events (.arr [.int 2]))).map (·.1) = [[.idx 0]] ∧
    (expected [[.descent, .filter fun v => match v with | .int 2 => true | _ => false], [.descent]]
        (.arr [.int 2])).map (·.1) = [[]] := by decide

/-- the filter `(@.x == 1)` on objects whose first member is `x` -/
def xIs1 : JV → Bool
  | .obj ((_, .int 1) :: _) => true
  | _ => false

/-- C17-filter-first-only: `$[?(@.x == 1)]` on `[{"x":1,"y":1},{"x":1,"y":2}]` — one callback, the
path of the last match with the value of the first -/
theorem dev_filter :
    (matchRun Dev.cur [[.filter xIs1]]
        (events (.arr [.obj [([120], .int 1), ([121], .int 1)], .obj [([120], .int 1), ([121], .int 2)]]))).map
        (fun c => (c.1, c.2.render))
      = [([.idx 1], "{K(78)I(1),K(79)I(1)}")] ∧
    (expected [[.filter xIs1]]
        (.arr [.obj [([120], .int 1), ([121], .int 1)], .obj [([120], .int 1), ([121], .int 2)]])).map (·.1)
      = [[.idx 0], [.idx 1]] := by
  constructor
  · rfl
  · decide

theorem C17_full_false : ¬ C17_full := by
  intro h
  have := h [[.index (-1)]] (.arr [.int 1, .int 2]) (by decide)
  exact ne_of_paths (by rw [dev_fromEnd_index.1, dev_fromEnd_index.2]; decide) this

end OjgVerif.C17
