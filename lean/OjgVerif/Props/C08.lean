import OjgVerif.Reuse.Pool
import OjgVerif.Reuse.Registry
import OjgVerif.Props.C07
import OjgVerif.Gen.SharedState
import OjgVerif.Gen.ReadOnly
import OjgVerif.Reuse.Shared
import OjgVerif.Gen.SharedObj
/-! # C08 — concurrent use of the package-level APIs (PARTIAL: the ownership protocol only)

The theorems here are about a hand-written ATOMIC-STEP model of the pools and caches
(`Reuse/Pool.lean`): each step of the transition system is indivisible and writes only the instance
its goroutine holds, so the model cannot race by construction. Whether the COMPILED code has data
races is decided by the `-race` stress run and the deterministic oracles of the harness, not here.
A Lean model cannot exhibit Go data races. What is logic is modelled in `Reuse/Pool.lean`: any
number of goroutines running `get; reset; work…; finish; [copy]; put; return`, `sync.Pool` as a
multiset of idle instances that may also drop or create instances at any time, arbitrary
interleaving. Proved for every reachable state / every interleaving:

* `C08_owner`: no instance is held by two goroutines, and a held instance is not in the pool;
* `C08_return`: if the API copies out, no later step of any goroutine writes a location that was
  returned to a caller;
* `C08_alias_witness`: if it does not, two goroutines suffice to overwrite a returned buffer;
* `C08_results`: every result equals the result of the same call on a fresh instance run alone,
  given non-interference for the instance type; `C08_results_parsers` discharges that hypothesis
  for the JSON machine with C07.

Tied to the source by the regenerated facts (`Gen.ReuseFacts`): which pooled API returns a copy,
deferred `Put`, every access to the struct-info caches under `structMut`, `Script.template`
never assigned after construction. NOT covered: data races inside a step, `sync.Pool` internals,
the Go memory model, shared `jp.Expr` values, `alt.Recomposer` beyond the closure of registration
under the field walk (`C08_registry_closed`): the `-race` stress run
of the harness is the (supporting, not conclusive) evidence for those. -/
namespace OjgVerif.C08
open OjgVerif OjgVerif.Reuse OjgVerif.Reuse.Pool

section
variable {X S R : Type} (resetf : S → S) (stepf : S → X → S) (outf : S → R) (new : S) (copies : Bool)

/-- no instance is held by two goroutines in any reachable state; a held instance is not idle -/
theorem C08_owner {σ : State X S R} (h : Reachable resetf stepf outf new copies σ) :
    (∀ g1 g2 i, (σ.pcs g1).inst? = some i → (σ.pcs g2).inst? = some i → g1 = g2) ∧
    (∀ g i, (σ.pcs g).inst? = some i → i ∉ σ.pool) :=
  owner_exclusive resetf stepf outf new copies h

/-- copying out: a returned buffer is never written by any later step of any goroutine -/
theorem C08_return (hc : copies = true) {σ σ' : State X S R} {l : Loc}
    (hr : Reachable resetf stepf outf new copies σ) (hs : Step resetf stepf outf new copies σ (.write l) σ') :
    l ∉ σ.held :=
  no_write_after_return resetf stepf outf new copies hc hr hs

/-- per-goroutine results equal the sequential ones -/
theorem C08_results (hH : ∀ (s : S) (inp : List X), outf (inp.foldl stepf (resetf s)) = outf (inp.foldl stepf (resetf new)))
    {σ : State X S R} (h : Reachable resetf stepf outf new copies σ) (g : Nat) :
    σ.res g = (σ.calls g).map (seq resetf stepf outf new) :=
  results_sequential resetf stepf outf new copies hH h g

end

/-- **Not copying out: a schedule of two goroutines in which a buffer that was returned to one
caller is overwritten by the other's call.** Goroutine 0: get (new instance 0), finish, put,
return instance 0's buffer. Goroutine 1: get instance 0 from the pool, work — a write to the
buffer goroutine 0's caller holds. -/
theorem C08_alias_witness :
    ∃ (σ σ' : State Unit Unit Unit) (l : Loc),
      Reachable (fun s => s) (fun s _ => s) (fun s => s) () false σ ∧
      Step (fun s => s) (fun s _ => s) (fun s => s) () false σ (.write l) σ' ∧ l ∈ σ.held ∧
      (∀ g, 2 ≤ g → σ.pcs g = .idle ∧ σ.res g = []) := by
  have r0 : Reachable (X := Unit) (S := Unit) (R := Unit) (fun s => s) (fun s _ => s) (fun s => s) () false (init ()) := .init
  have r1 := Reachable.step r0 (Step.getNew _ 0 [] rfl)
  have r2 := Reachable.step r1 (Step.finish _ 0 0 [] rfl)
  have r3 := Reachable.step r2 (Step.putAlias _ 0 0 [] () rfl rfl)
  have r4 := Reachable.step r3 (Step.ret _ 0 (.inst 0) [] () rfl)
  have r5 := Reachable.step r4 (Step.getPool _ 1 0 [()] rfl (by simp))
  refine ⟨_, _, .inst 0, r5, Step.work _ 1 0 [] [] () rfl, by simp, ?_⟩
  intro g hg
  have h0 : g ≠ 0 := by omega
  have h1 : g ≠ 1 := by omega
  simp [upd, init, h0, h1]

/- The witness respects `C08_owner`: at the time of the write instance 0 is held by goroutine 1
alone — goroutine 0's caller holds the BUFFER, not the instance. -/

/-- the hypotheses of `C08_return` are met by real runs: with copying, goroutine 0 has returned its
private copy (so `held` is not empty) and goroutine 1, handed the same instance, writes its buffer -/
example :
    ∃ (σ σ' : State Unit Unit Unit) (l : Loc),
      Reachable (fun s => s) (fun s _ => s) (fun s => s) () true σ ∧
      Step (fun s => s) (fun s _ => s) (fun s => s) () true σ (.write l) σ' ∧ σ.held = [.priv 0] := by
  have r0 : Reachable (X := Unit) (S := Unit) (R := Unit) (fun s => s) (fun s _ => s) (fun s => s) () true (init ()) := .init
  have r1 := Reachable.step r0 (Step.getNew _ 0 [] rfl)
  have r2 := Reachable.step r1 (Step.finish _ 0 0 [] rfl)
  have r3 := Reachable.step r2 (Step.copy _ 0 0 [] () rfl rfl)
  have r4 := Reachable.step r3 (Step.putCopied _ 0 0 0 [] () rfl)
  have r5 := Reachable.step r4 (Step.ret _ 0 (.priv 0) [] () rfl)
  have r6 := Reachable.step r5 (Step.getPool _ 1 0 [()] rfl (by simp))
  exact ⟨_, _, .inst 0, r6, Step.work _ 1 0 [] [] () rfl, rfl⟩

/-! ## Results of the pooled parser functions: C07 discharges the hypothesis of `C08_results`

A "work" step is one entry-point call (`entryReset` of the generated fields, then the machine over
the call's chunks); what the call leaves in the instance is an arbitrary function `left`. -/

section
open OjgVerif.Json

variable (T : Tables) (cfg : Cfg) (fs : List Field) (left : St → List Bytes → St)

abbrev PSt := St × Option (Except Err (List JV))

def pstep (s : PSt) (chunks : List Bytes) : PSt :=
  (left s.1 chunks, some (runFrom T cfg (entryReset fs s.1) chunks))

theorem pstep_indep (hT : TablesOK T) (hfs : C07.covers fs = true) (s : PSt) (inp : List (List Bytes)) :
    (inp.foldl (pstep T cfg fs left) (s.1, none)).2 = (inp.foldl (pstep T cfg fs left) (({} : St), none)).2 := by
  rcases List.eq_nil_or_concat inp with h | ⟨init, x, h⟩
  · subst h; rfl
  · subst h
    simp only [List.concat_eq_append, List.foldl_append, List.foldl_cons, List.foldl_nil, pstep]
    rw [C07.noninterference hT cfg fs hfs, C07.noninterference hT cfg fs hfs]

/-- (general lemma; instantiated below for the regenerated tables and reset lists)
**Every result a goroutine receives from a pooled parser call is `Json.run` of its own input**
(the last call made while holding the instance), whatever the other goroutines do and whatever
earlier calls left in the instance. -/
theorem C08_results_parsers (hT : TablesOK T) (hfs : C07.covers fs = true) (copies : Bool)
    {σ : State (List Bytes) PSt (Option (Except Err (List JV)))}
    (h : Reachable (fun s => (s.1, none)) (pstep T cfg fs left) (·.2) (({} : St), none) copies σ) (g : Nat) :
    σ.res g = (σ.calls g).map fun inp => (inp.getLast?).map (run T cfg) := by
  rw [results_sequential _ _ _ _ copies (fun s inp => pstep_indep T cfg fs left hT hfs s inp) h g]
  apply List.map_congr_left
  intro inp _
  unfold seq
  rcases List.eq_nil_or_concat inp with h | ⟨init, x, h⟩
  · subst h; rfl
  · subst h
    simp only [List.concat_eq_append, List.foldl_append, List.foldl_cons, List.foldl_nil, pstep,
      List.getLast?_append, List.getLast?_singleton, Option.some_or, Option.map_some]
    rw [C07.noninterference hT cfg fs hfs]


/-! The hypotheses of `C08_results_parsers` instantiated: the regenerated oj and gen tables
(`C01.ojTables_ok`, `C01.genTables_ok`) and the regenerated reset lists (`C07.entries_cover`). -/

/-- oj tables (oj.Parse, oj.Load, …: the pooled oj.Parser), any covering reset list -/
theorem C08_results_ojTables (cfg : Json.Cfg) (fs : List Field) (left : Json.St → List Bytes → Json.St)
    (hfs : C07.covers fs = true) (copies : Bool)
    {σ : State (List Bytes) PSt (Option (Except Json.Err (List JV)))}
    (h : Reachable (fun s => (s.1, none)) (pstep Json.ojTables cfg fs left) (·.2) (({} : Json.St), none) copies σ) (g : Nat) :
    σ.res g = (σ.calls g).map fun inp => (inp.getLast?).map (Json.run Json.ojTables cfg) :=
  C08_results_parsers Json.ojTables cfg fs left C01.ojTables_ok hfs copies h g

/-- gen tables (gen.Parser) -/
theorem C08_results_genTables (cfg : Json.Cfg) (fs : List Field) (left : Json.St → List Bytes → Json.St)
    (hfs : C07.covers fs = true) (copies : Bool)
    {σ : State (List Bytes) PSt (Option (Except Json.Err (List JV)))}
    (h : Reachable (fun s => (s.1, none)) (pstep Json.genTables cfg fs left) (·.2) (({} : Json.St), none) copies σ) (g : Nat) :
    σ.res g = (σ.calls g).map fun inp => (inp.getLast?).map (Json.run Json.genTables cfg) :=
  C08_results_parsers Json.genTables cfg fs left C01.genTables_ok hfs copies h g

/-- **no hypothesis left**: for every generated entry point of the strict-JSON front-ends and every
call site of its buffer function, with the tables of its package and the fields the source resets
there — every result a goroutine receives through the pool protocol is `Json.run` of its own input -/
theorem C08_results_entries (e : Gen.ReuseFacts.Entry) (he : e ∈ C07.parserEntries)
    (st : Gen.ReuseFacts.Site) (hst : st ∈ e.sites)
    (cfg : Json.Cfg) (left : Json.St → List Bytes → Json.St) (copies : Bool)
    {σ : State (List Bytes) PSt (Option (Except Json.Err (List JV)))}
    (h : Reachable (fun s => (s.1, none))
      (pstep (C07.tablesOf e.recv) cfg (resetFields e.recv st.assigned) left) (·.2) (({} : Json.St), none) copies σ)
    (g : Nat) :
    σ.res g = (σ.calls g).map fun inp => (inp.getLast?).map (Json.run (C07.tablesOf e.recv) cfg) := by
  have hc := C07.entries_cover
  simp only [List.all_eq_true, Bool.and_eq_true] at hc
  exact C08_results_parsers _ cfg _ left (C07.tablesOf_ok e.recv) (hc e he st hst).2 copies h g

end

/-! ## The generated facts -/

open OjgVerif.Gen.ReuseFacts

/-- the API hands out a copy (or no buffer at all), not the pooled instance's own buffer -/
def copiesOut (p : Pooled) : Bool := p.result != "alias"

/-- the pooled functions we claim are all there, every one of them puts its instance back in a
deferred call (also when the call panics), and each result was classified -/
theorem pooled_present :
    (["oj.Parse", "oj.MustParse", "oj.ParseString", "oj.MustParseString", "oj.Load", "oj.MustLoad",
      "oj.JSON", "oj.Marshal", "oj.Write", "sen.Parse", "sen.MustParse", "sen.ParseReader",
      "sen.MustParseReader", "sen.String", "sen.Bytes", "sen.Write"].all (pooled.map (·.name)).contains &&
     pooled.all (·.deferredPut) &&
     pooled.all fun p => ["copy", "alias", "value"].contains p.result) = true := by decide

/-- the source as it is (fix 8ba4b2d: `sen.Bytes` copies on the pooled path): every pooled function
hands out a copy or no buffer at all. Re-evaluated over the regenerated list; on the source before
the fix `sen.Bytes` is classified "alias" and this proof fails. -/
theorem pooled_all_copy_out : pooled.all copiesOut = true := by decide

/-- **C08 per pooled API** (repaired code): whatever the interleaving, no step of any goroutine
writes a location that one of these functions returned to a caller. -/
theorem C08_pooled_apis (p : Pooled) (hp : p ∈ pooled)
    {X S R : Type} (resetf : S → S) (stepf : S → X → S) (outf : S → R) (new : S) {σ σ' : State X S R} {l : Loc}
    (hr : Reachable resetf stepf outf new (copiesOut p) σ)
    (hs : Step resetf stepf outf new (copiesOut p) σ (.write l) σ') : l ∉ σ.held := by
  have h := pooled_all_copy_out
  simp only [List.all_eq_true] at h
  exact no_write_after_return resetf stepf outf new _ (h p hp) hr hs

/-- the code before 8ba4b2d (known finding C08-sen-bytes-pooled, now fixed): an API that returns the
pooled instance's own buffer — two goroutines overwrite it (`C08_alias_witness`) -/
theorem C08_pooled_apis_before :
    ∃ (σ σ' : State Unit Unit Unit) (l : Loc),
      Reachable (fun s => s) (fun s _ => s) (fun s => s) () false σ ∧
      Step (fun s => s) (fun s _ => s) (fun s => s) () false σ (.write l) σ' ∧ l ∈ σ.held := by
  obtain ⟨σ, σ', l, h1, h2, h3, _⟩ := C08_alias_witness
  exact ⟨σ, σ', l, h1, h2, h3⟩

/-- the string-returning pooled APIs (`oj.JSON`, `sen.String`) and `oj.Marshal` copy out -/
theorem string_apis_copy :
    (pooled.filter fun p => ["oj.JSON", "oj.Marshal", "sen.String"].contains p.name).all (fun p => p.result == "copy") = true := by
  decide

/-- **Struct-info caches** (oj, sen, alt): every function that touches `structMap`/`structEmptyMap`
is reachable only through a function that takes `structMut` first (`getTypeStruct`, the "non-locking
version", is only called while a plan is being built under `getSinfo`'s lock); what is touched
before the `Lock` call only copies the map variable; the map variables are never reassigned. -/
theorem caches_locked :
    (caches.map (·.pkg) == ["oj", "sen", "alt"] &&
     caches.all fun c => c.unlockedRoots.isEmpty && c.reassigned.isEmpty && c.beforeLockPlain &&
       c.lockers == ["getSinfo"]) = true := by decide

/-- **Struct-info caches and "what it returns when run alone"** (fix 8169704): the plan a write uses
for a nested struct field is the one for this call's OmitEmpty flag whatever the caches hold, i.e.
whichever goroutine cached what first (`C07.C07_struct_cache` over the regenerated
`typeStructEmpty`; before the fix: `C07.C07_struct_cache_before`). -/
theorem caches_order_free (c1 c2 : Reuse.Cache) (h1 : c1.wf) (h2 : c2.wf) (t : Nat) (om : Bool) :
    (Reuse.getTypeStruct C07.cacheSelectsByFlag c1 t om).1 = (Reuse.getTypeStruct C07.cacheSelectsByFlag c2 t om).1 :=
  C07.C07_struct_cache c1 c2 h1 h2 t om

/-! ## The protocol assumption "one Get, one Put" and shared values that are not package variables -/

/-- **every pooled function takes ONE instance and gives it back exactly ONCE on every path**: one
`Get`; one `defer pool.Put(inst)` directly after it in the same block (it runs on return, on an
error return and on a panic alike); no other `Put` anywhere in the function — and nobody else calls
`Get`/`Put` on a pool (cross-checked with the shared-state inventory). This is the assumption
`Reuse/Pool.lean` builds in (`put` moves the instance from the goroutine to the pool);
`C08_double_put_shares_instance` shows what a second `Put` does. -/
theorem pooled_put_once :
    (pooled.all (fun p => p.gets == 1 && p.putsDefer == 1 && p.putsOther == 0) &&
     Gen.SharedState.vars.all fun v =>
       v.shape != "pool" ||
       v.writers.all fun w => (pooled.map (·.name)).contains (v.pkg ++ "." ++ w.2.1)) = true := by decide

/-- an instance that is in the pool twice (a second `Put` on some path) is handed to two goroutines:
ownership is gone after two steps -/
theorem C08_double_put_shares_instance :
    ∃ (σ1 σ2 σ3 : State Unit Unit Unit),
      σ1.pool = [0, 0] ∧ (∀ g, σ1.pcs g = .idle) ∧
      Step (fun s => s) (fun s _ => s) (fun s => s) () true σ1 .none σ2 ∧
      Step (fun s => s) (fun s _ => s) (fun s => s) () true σ2 .none σ3 ∧
      (σ3.pcs 0).inst? = some 0 ∧ (σ3.pcs 1).inst? = some 0 := by
  let σ1 : State Unit Unit Unit := { (init () : State Unit Unit Unit) with pool := [0, 0], fresh := 1 }
  refine ⟨σ1, _, _, rfl, fun _ => rfl, Step.getPool σ1 0 0 [] rfl (by simp [σ1]), Step.getPool _ 1 0 [] rfl (by simp [σ1]), rfl, rfl⟩

/-- **a shared Expr / Script / Filter is read-only during evaluation**: in the methods of package jp
reached from the exported methods of Expr, Script, Filter and the fragment types (call graph by
name; the path/script parsers and the Match token handler are private to a call) there is NO
assignment through the receiver — no `s.f = …`, `s.f[i] = …`, `x[i] = …`, `copy(s.f, …)`,
`append(s.f, …)` (generated, syntactic: a write through a local ALIAS of a receiver field is not
seen; the stress run and `-race` look for those) -/
theorem shared_expr_read_only :
    (Gen.ReadOnly.jpReceiverWrites.isEmpty && decide (40 ≤ Gen.ReadOnly.jpReached)) = true := by decide

/-- **options handed in by the caller are read-only**: no function of the root package, alt, oj, sen,
pretty, gen, jp, asm assigns through a `*Options` parameter, through the receiver of a method of
`ojg.Options`, through an element of a variadic `...*Options` or through a local alias of one of
those (or of `&DefaultOptions`); the writers copy the options (`Options: *ta`) before they set
`InitSize`/`WriteLimit` defaults (generated, syntactic) -/
theorem shared_options_read_only :
    (Gen.ReadOnly.optionsPointerWrites.isEmpty && decide (10 ≤ Gen.ReadOnly.optionsHolders)) = true := by decide

/-! ## The inventory of shared state (generated)

`Gen.SharedState.vars` lists EVERY package-level `var` of oj, gen, sen, jp, alt, asm, pretty and the
root package with the functions that write it outside `init` (assignment through it, its address
taken, a method called on it). The table below says what each written variable is; a variable that
is written at run time and is not in the table — a new one, or a new writer of a listed one —
breaks `shared_state_classified`. Variables nobody writes after `init` are immutable as far as the
library goes; the exported ones among them (`DefaultOptions`, `gen.Sort`, `ojg.ErrorWithStack`,
`ojg.DefaultNumConvMethod` …) are configuration the CALLER may assign: doing so while other
goroutines run is outside the property. -/

inductive SharedClass where
  /-- a `sync.Pool`: only `Get`/`Put` are called on it -/
  | pool
  /-- a `sync.Mutex`: only `Lock`/`Unlock` -/
  | mutex
  /-- written only by the listed functions, all of which run under the named mutex (`caches_locked`) -/
  | guarded (mutex : String) (writers : List String)
  /-- its address is handed to functions that only read through it (hand-checked: no assignment
  through the options pointer in package alt; not a generated fact) -/
  | readOnlyAddr (fns : List String)
  /-- a registry written by registration functions, unguarded BY DESIGN: `documented` says whether the
  doc comment tells the caller to register before sharing. Not among the calls C08 quantifies over. -/
  | registration (writers : List String) (documented : Bool)
  deriving DecidableEq, Repr

/-- what every run-time-written package variable is -/
def sharedTable : List ((String × String) × SharedClass) := [
  (("oj", "parserPool"), .pool), (("oj", "writerPool"), .pool), (("oj", "marshalPool"), .pool),
  (("sen", "parserPool"), .pool), (("sen", "writerPool"), .pool),
  (("oj", "structMut"), .mutex), (("sen", "structMut"), .mutex), (("alt", "structMut"), .mutex),
  (("oj", "structMap"), .guarded "structMut" ["buildStruct"]), (("oj", "structEmptyMap"), .guarded "structMut" ["buildStruct"]),
  (("sen", "structMap"), .guarded "structMut" ["buildStruct"]), (("sen", "structEmptyMap"), .guarded "structMut" ["buildStruct"]),
  (("alt", "structMap"), .guarded "structMut" ["buildStruct"]), (("alt", "structEmptyMap"), .guarded "structMut" ["buildStruct"]),
  (("alt", "DefaultOptions"), .readOnlyAddr ["Alter", "Decompose", "GenAlter", "Generify"]),
  -- "Note that this should not be shared across go routines unless all types that will be used are
  -- registered first" (alt/recomposer.go): Recompose registers unknown types on the fly
  (("alt", "DefaultRecomposer"), .registration ["Recompose", "MustRecompose"] true),
  -- jp.RegisterUnaryFunction / RegisterBinaryFunction write the operator table the script parser reads;
  -- the doc comments do not say "register before use" (observation, reported; not a C08 call)
  (("jp", "opMap"), .registration ["RegisterUnaryFunction", "RegisterBinaryFunction"] false),
  -- asm.Define: same, package asm is not in C08's scope
  (("asm", "fnMap"), .registration ["Define"] false)
]

def classOK (v : Gen.SharedState.PkgVar) : SharedClass → Bool
  | .pool => v.shape == "pool" && v.writers.all fun w => w.1 == "call" && (w.2.2 == "Get" || w.2.2 == "Put")
  | .mutex => v.shape == "mutex" && v.writers.all fun w => w.1 == "call" && (w.2.2 == "Lock" || w.2.2 == "Unlock")
  | .guarded m ws =>
    v.writers.all (fun w => w.1 == "assign" && ws.contains w.2.1) &&
    Gen.SharedState.vars.any (fun u => u.pkg == v.pkg && u.name == m && u.shape == "mutex")
  | .readOnlyAddr fns => v.writers.all fun w => w.1 == "addr" && fns.contains w.2.1
  | .registration ws _ => v.writers.all fun w => ws.contains w.2.1

/-- **every package-level variable that is written at run time is accounted for**: a pool, a mutex,
a cache written only under its mutex, an options value only read through its address, or one of
the three registries that are unguarded by design (kernel-evaluated over the regenerated
inventory) -/
theorem shared_state_classified :
    (Gen.SharedState.vars.all fun v =>
      v.writers.isEmpty ||
      match sharedTable.lookup (v.pkg, v.name) with
      | some c => classOK v c
      | none => false) = true := by decide

/-- the eight packages are all there and the inventory is not empty-handed: the pools, caches and
registries named in the property are found by it -/
theorem shared_state_present :
    (["oj", "gen", "sen", "jp", "alt", "asm", "pretty", "ojg"].all (fun p => p == "pretty" || Gen.SharedState.vars.any (·.pkg == p)) &&
     sharedTable.all fun e => Gen.SharedState.vars.any fun v => (v.pkg, v.name) == e.1 && !v.writers.isEmpty) = true := by
  decide

/-! ## The recomposer: "a recomposer whose types were registered beforehand"

Registering a struct type registers the struct types its fields hold as well; `Recompose` on a
shared Recomposer then only reads the registry. The container kinds the field walk of
`registerComposer` follows (`recomposerWalkKinds`, the case labels of its `switch ft.Kind()`) and
whether the step is repeated for containers of containers (`recomposerWalkLoops`) are read from the
source. -/

/-- the walk follows this container kind (generated) -/
def walkFollows (k : Reuse.Reg.CKind) : Bool := recomposerWalkKinds.contains k.goName

/-- **every container kind — pointer, slice, map, ARRAY — is followed by the field walk**
(kernel-evaluated over the regenerated case labels; dropping a kind from the
`case reflect.Array, reflect.Slice, reflect.Map, reflect.Ptr:` line breaks this proof), the only
writers of the registry are the register functions, and the only place that registers on the fly
is `recomp` (which is why an unreached type means a write during `Recompose`) -/
theorem recomposer_walk_kinds :
    (Reuse.Reg.CKind.all.all walkFollows &&
     recomposerWriters.all (fun w => ["alt.Recomposer.RegisterUnmarshalerComposer", "alt.Recomposer.registerAnyComposer",
       "alt.Recomposer.registerComposer"].contains w) &&
     recomposerLazyCallers == ["alt.Recomposer.recomp"]) = true := by decide

theorem walkFollows_all (k : Reuse.Reg.CKind) : walkFollows k = true := by
  have h := recomposer_walk_kinds
  simp only [Bool.and_eq_true, List.all_eq_true] at h
  exact h.1.1 k (by cases k <;> decide)

/-- fields that hold struct types directly or behind ONE container: no registry write on `Recompose`,
for the single-step walk (the code before a720b7c) and for the repeated one alike -/
theorem C08_registry_closed (reg : List Nat) (t : Reuse.Reg.TyDecl) (ht : ∀ f ∈ t.fields, f.1.length ≤ 1) :
    Reuse.Reg.lazyWrites (Reuse.Reg.register walkFollows recomposerWalkLoops reg t) t = [] :=
  Reuse.Reg.closed_one_level walkFollows walkFollows_all _ reg t ht

/-- the walk repeats its step until the type is no container (generated; fix a720b7c). On the source
before the fix (a single `switch` step) the fact is `false` and this proof fails. -/
theorem walk_loops : recomposerWalkLoops = true := by decide

/-- the repeated walk: closed for every struct type -/
theorem C08_registry_closed_repaired (reg : List Nat) (t : Reuse.Reg.TyDecl) :
    Reuse.Reg.lazyWrites (Reuse.Reg.register walkFollows true reg t) t = [] :=
  Reuse.Reg.closed_loop walkFollows walkFollows_all reg t

/-- **The full statement of the model, for the code as it is**: after a struct type has been registered,
recomposing a value of it performs no registry write. Quantified over every `TyDecl` of
`Reuse/Registry.lean`, i.e. any number of fields, each holding a struct type behind ANY path of
container kinds (any depth, any mix of pointer / slice / map / array: `[][]T`, `map[string][]T`,
`*[2]T`, `***T` …). It is NOT a statement over Go types: the model has one application of the walk
(the struct types held by the fields have no struct fields of their own — the recursion of
`registerComposer` over nested structs is exercised by the harness only, types `RMid`/`RLeaf*`),
and map KEY types, embedded and unexported fields, interface-typed fields and anonymous struct types
are outside it. -/
theorem C08_registry_full (reg : List Nat) (t : Reuse.Reg.TyDecl) :
    Reuse.Reg.lazyWrites (Reuse.Reg.register walkFollows recomposerWalkLoops reg t) t = [] := by
  rw [walk_loops]
  exact C08_registry_closed_repaired reg t

/-- the code before a720b7c (known finding C08-registry-nested-containers, now fixed): with a single
step the statement is false — a field `LL [][]T`: `T` was registered by the first `Recompose`
calls, a write to `r.composers` other goroutines read -/
theorem C08_registry_full_before :
    ¬ ∀ (reg : List Nat) (t : Reuse.Reg.TyDecl),
      Reuse.Reg.lazyWrites (Reuse.Reg.register walkFollows false reg t) t = [] := by
  intro h
  have := h [] ⟨0, [([.slice, .slice], 1)]⟩
  rw [Reuse.Reg.one_level_not_closed walkFollows walkFollows_all] at this
  cases this

/-- and each kind is needed: a walk that skips one leaves a type whose first `Recompose` calls
write the registry (for `array`: the seeded change C08-m2) -/
theorem C08_registry_needs_kind (follows : Reuse.Reg.CKind → Bool) (loops : Bool) (k : Reuse.Reg.CKind)
    (h : follows k = false) :
    Reuse.Reg.lazyWrites (Reuse.Reg.register follows loops [] ⟨0, [(Reuse.Reg.needs k, 1)]⟩)
      ⟨0, [(Reuse.Reg.needs k, 1)]⟩ = [1] :=
  Reuse.Reg.not_closed_of_skips follows loops k h

/-- instances of the hypothesis of `C08_registry_closed`: `{D T; P *T; S []T; M map[string]T; A [2]T}` -/
example : ∀ f ∈ (⟨0, [([], 1), ([.ptr], 2), ([.slice], 3), ([.map], 4), ([.array], 5)]⟩ : Reuse.Reg.TyDecl).fields,
    f.1.length ≤ 1 := by decide

/-- **Shared scripts**: no function of package jp assigns to `Script.template` or an element of it
after construction (evaluation copies the template into a per-call stack) -/
theorem script_template_immutable : scriptTemplateWriters = [] := by decide

/-! ## Shared read-only objects (round 3)

The clause "evaluate and mutate through shared jp.Expr, Filter and Script values on their own data, and
recompose with a recomposer whose types were registered beforehand … each call returns exactly what
it returns when run alone", as a property of the atomic-step model (`Reuse/Shared.lean`): an
evaluator step reads the shared object and writes only goroutine-local state. The tie to the source
is the GENERATED write inventory `Gen.SharedObj` (tools/extract/reuse_sharedobj.go): in every
function reached from the read-only entry points, every write through the receiver or through a
local that may alias memory reachable from it, with the conditions it stands under. That an entry
point whose inventory is empty IS a read-only `Entry` of the model is the trusted reading of that
inventory (syntactic, flow-insensitive, call graph by name; writes through a struct field that was
assigned an alias are not followed) — the harness' shared-object inventory stream (every ordered
pair of entry points on different data against the call on an unused object, fingerprints, all at
once under the race detector) is the run-time side of the same clause. -/

/-- **shared objects are unwritten, and every result is the result of the run alone**: for every
schedule (any interleaving of any goroutines' calls, any data) of read-only entry points of a shared
object — the object is afterwards what it was, and each goroutine's state (its results) is what its
own calls give on an object nobody else has used -/
theorem C08_shared_objects_unwritten {O D L : Type} (cs : List (Reuse.Shared.Call O D L))
    (h : ∀ c ∈ cs, c.e.ReadOnly) (σ : Reuse.Shared.St O L) :
    (Reuse.Shared.exec σ cs).obj = σ.obj ∧
    ∀ g, (Reuse.Shared.exec σ cs).loc g = (Reuse.Shared.exec σ (cs.filter fun c => c.g = g)).loc g :=
  ⟨Reuse.Shared.shared_unwritten cs h σ, fun g => Reuse.Shared.results_alone cs h σ g⟩

/-- the hypothesis is satisfiable by a non-trivial schedule: Locate by goroutine 0, Get by goroutine 1, Get by 0 -/
example : ∀ c ∈ ([⟨0, Reuse.Shared.locate, 1⟩, ⟨1, Reuse.Shared.get, 2⟩, ⟨0, Reuse.Shared.get, 3⟩] :
    List (Reuse.Shared.Call (Option Nat) Nat (Option Nat))), c.e.ReadOnly := by
  intro c hc
  simp only [List.mem_cons, List.mem_nil_iff, or_false] at hc
  rcases hc with rfl | rfl | rfl
  · exact Reuse.Shared.locate_readOnly
  · exact Reuse.Shared.get_readOnly
  · exact Reuse.Shared.get_readOnly

/-- an entry point that is NOT read-only breaks both conclusions: Locate that roots the filter of the
shared path in place (seeded change C08-m7) — goroutine 1's Get evaluates `$` against goroutine 0's
document (`some 1`), alone against its own (`some 2`) -/
theorem C08_shared_writer_witness :
    ¬ Reuse.Shared.locateInPlace.ReadOnly ∧
    (Reuse.Shared.exec ⟨none, fun _ => none⟩ [⟨0, Reuse.Shared.locateInPlace, 1⟩, ⟨1, Reuse.Shared.get, 2⟩]).loc 1 = some 1 ∧
    (Reuse.Shared.exec ⟨none, fun _ => none⟩
      ([⟨0, Reuse.Shared.locateInPlace, 1⟩, ⟨1, Reuse.Shared.get, 2⟩].filter fun c => c.g = 1)).loc 1 = some 2 :=
  ⟨Reuse.Shared.locateInPlace_not_readOnly, Reuse.Shared.rooting_writer_breaks⟩

/-- **why the rooted path must be a copy** (Go slice level, for every path, capacity and document): building the
rooted path with `rx := x[:i]` + `append` RETURNS exactly what `make` + `copy` returns — a caller looking
at its own result cannot tell — and leaves the caller-shared path itself rooted at this caller's
document; that is a change of the shared object whenever the path holds a filter not already bound to
that document -/
theorem C08_rooted_path_must_be_copied (d : Nat) (mem : List Reuse.Shared.Frag) (n : Nat) (h : n ≤ mem.length) :
    (Reuse.Shared.rootedInPlace d mem n).1 = Reuse.Shared.rootedCopy d (mem.take n) ∧
    (Reuse.Shared.rootedInPlace d mem n).2 = Reuse.Shared.rootedCopy d (mem.take n) ++ mem.drop n ∧
    (∀ r, r ≠ some d → Reuse.Shared.Frag.filter r ∈ mem.take n →
      ((Reuse.Shared.rootedInPlace d mem n).2).take n ≠ mem.take n) :=
  ⟨Reuse.Shared.rootedInPlace_result d mem n h, Reuse.Shared.rootedInPlace_mem d mem n,
   fun r hr hf => Reuse.Shared.rootedInPlace_writes_shared d mem n h r hr hf⟩

/-- the hypotheses are satisfiable: `$.items[?(@.v == $.want)].name` as parsed (length 4 = capacity), document 7 -/
example : (4 : Nat) ≤ ([.child 0, .child 1, .filter none, .child 2] : List Reuse.Shared.Frag).length ∧
    (none : Option Nat) ≠ some 7 ∧
    Reuse.Shared.Frag.filter none ∈ ([.child 0, .child 1, .filter none, .child 2] : List Reuse.Shared.Frag).take 4 := by decide

/-- the construction API of `jp.Expr` (`x.C("a").N(1)`: `return append(x, frag)`), which is not among the
read-only entry points -/
def jpBuildersExpected : List String :=
  ["A", "At", "B", "C", "Child", "D", "Descent", "F", "Filter", "N", "Nth", "R", "Root", "S", "Slice", "U", "Union", "W", "Wildcard"]

/-- **write inventory of the shared jp values** (generated): in the 100+ functions of package jp reached
from EVERY exported method of Expr, Filter, Script and the fragment types other than the path
builders (Get, First, Has, Locate, Walk, Set, Del, Remove, Modify, GetNodes, String, Match, Eval … are
among them) there is NO write through the receiver, through a parameter of a shared type (the
remaining fragments `rest Expr`, a `*Filter`, a `Frag` …; not the location paths `pp` / `path` / `cp`
a Locate / Walk call builds for its own caller) or through a local that may alias one of them —
`rx := x[:i]; rx = append(rx, f)` (C08-m7), `x[i] = …`, `f.root = …`, `copy(s.template, …)`.
`rootedFilters` builds its rooted copy with `make` + `copy` (a fresh slice) and `withRoot` returns a new
`Filter`: both are reached, and contribute nothing -/
theorem shared_jp_write_inventory :
    (Gen.SharedObj.jpSharedWrites.isEmpty && decide (100 ≤ Gen.SharedObj.jpReached) &&
     Gen.SharedObj.jpNamedEntries.all (·.2) && (Gen.SharedObj.jpBuilders == jpBuildersExpected) &&
     decide (20 ≤ Gen.SharedObj.jpSharedParams) && (Gen.SharedObj.jpPrivatePathParams == ["cp", "path", "pp"])) = true := by decide

/-- the entry points the harness' shared-object inventory runs (`harness/reuse/inventory.go`, table `invCovered`;
the harness compares that table with the method sets of the tree under test by reflection) -/
def inventoryRuns : List String :=
  ["Expr.Append", "Expr.BracketString", "Expr.Del", "Expr.DelOne", "Expr.First", "Expr.FirstFound", "Expr.FirstNode", "Expr.Get",
   "Expr.GetNodes", "Expr.Has", "Expr.Locate", "Expr.Modify", "Expr.ModifyOne", "Expr.MustDel", "Expr.MustDelOne", "Expr.MustModify",
   "Expr.MustModifyOne", "Expr.MustRemove", "Expr.MustRemoveOne", "Expr.MustSet", "Expr.MustSetOne", "Expr.Normal", "Expr.Remove",
   "Expr.RemoveOne", "Expr.Set", "Expr.SetOne", "Expr.String", "Expr.Walk", "Filter.Append", "Filter.String", "Filter.Walk",
   "Script.Append", "Script.Eval", "Script.Inspect", "Script.Match", "Script.String"]

/-- **the run-time inventory covers the entry points of the write inventory** (generated): the exported methods of
Expr, Script and Filter other than the path builders are exactly the ones the harness stream runs — a new
exported method is an entry point nobody runs until it is added to both -/
theorem shared_inventory_covers_entries : (Gen.SharedObj.jpSharedTypeEntries == inventoryRuns) = true := by decide

/-- the condition under which `registerComposer` takes its NOT-yet-registered branch -/
def freshRegistration : String := "c == nil || c.rtype != rt"

/-- a write of the recomposer inventory is accounted for: it stands in the not-yet-registered branch
(excluded by "types were registered beforehand": `C08_registry_full`), or under `if fun != nil` -/
def recomposerWriteOk (w : String × String × List String) : Bool :=
  w.1 == "alt.Recomposer.registerComposer" && (w.2.2.contains freshRegistration || w.2.2.contains "fun != nil")

/-- **write inventory of a shared Recomposer** (generated): in the methods reached from
`Recompose` / `MustRecompose` the only writes through the receiver or a registry entry
(`c := r.composers[full]`) are those of `registerComposer`; each stands in the not-yet-registered
branch or under `if fun != nil`; and every call of a register function from the reached functions
(`recomp`, the recursive field walk) passes `nil` as the function. Seeded change C08-m8 (`c.fun = fun`
unconditionally in the already-registered branch) leaves a write that is neither -/
theorem shared_recomposer_write_inventory :
    (Gen.SharedObj.recomposerSharedWrites.all recomposerWriteOk &&
     !Gen.SharedObj.recomposerSharedWrites.isEmpty &&
     Gen.SharedObj.recomposerRegisterCalls.all (fun c => c.2.1 == "registerComposer" && c.2.2.getLast? == some "nil") &&
     !Gen.SharedObj.recomposerRegisterCalls.isEmpty && decide (10 ≤ Gen.SharedObj.recomposerReached)) = true := by decide

/-- the already-registered branch of the source is the GUARDED one of the model: some write under
`fun != nil` exists outside the fresh-registration branch and none without it -/
def reRegisterGuarded : Bool :=
  (Gen.SharedObj.recomposerSharedWrites.filter fun w => !w.2.2.contains freshRegistration).all
    fun w => w.2.2.contains "fun != nil"

theorem reRegister_is_guarded : reRegisterGuarded = true := by decide

/-- **looking a registered type up does not write its entry**: what `recomp` does for a type found by
its full name (`registerComposer(rv.Type(), nil)`, the only shape the reached calls have) leaves the
entry — the registered RecomposeFunc included — as it was, so Recompose into such a value is a
read-only entry point of the model and `C08_shared_objects_unwritten` applies -/
theorem C08_registered_lookup_read_only {F : Type} (c : Reuse.Shared.Comp F) :
    Reuse.Shared.reRegister reRegisterGuarded none c = c ∧
    (Reuse.Shared.recompInto (F := F) reRegisterGuarded).ReadOnly := by
  rw [reRegister_is_guarded]
  exact ⟨rfl, Reuse.Shared.recompInto_readOnly⟩

/-- **filling a value of a type registered beforehand writes neither the registry map nor any entry**, for every
registry and whoever owns the type's short name (nobody, the type itself, a same-named type of another
package registered later): the look-up `recomp` makes, with the already-registered branch as the source
has it (`reRegisterGuarded`, generated) -/
theorem C08_registered_fill_no_write (r : Reuse.Shared.Regy) (t : Reuse.Shared.Ty) (h : r.Registered t) :
    (Reuse.Shared.lookup reRegisterGuarded r t).1 = r := by
  rw [reRegister_is_guarded]
  exact Reuse.Shared.lookup_registered r t h

/-- satisfiable, with the short name owned by the other twin -/
example : Reuse.Shared.twins.Registered ⟨0, "RTwin", "reuse/RTwin"⟩ := ⟨0, ⟨0, some 9⟩, by decide, by decide, rfl⟩

/-- **"registered beforehand" is needed** (for every registry): filling a value of a struct type the registry does not
hold — neither under its full name nor, as this type, under its short name — WRITES the registry (a new entry,
two keys), whichever form the already-registered branch has: the clause of the property is not decoration -/
theorem C08_unregistered_fill_writes (g : Bool) (r : Reuse.Shared.Regy) (t : Reuse.Shared.Ty) (h : r.Unregistered t)
    (hs : ∀ i c, r.find t.short = some i → r.ents[i]? = some c → c.rtype ≠ t.id) :
    (Reuse.Shared.lookup g r t).1.ents.length = r.ents.length + 1 ∧ (Reuse.Shared.lookup g r t).1 ≠ r :=
  Reuse.Shared.lookup_unregistered_writes g r t h hs

/-- satisfiable: a type the twins registry has never seen -/
example : Reuse.Shared.twins.Unregistered ⟨7, "Other", "pkg/Other"⟩ ∧
    (∀ i c, Reuse.Shared.twins.find "Other" = some i → Reuse.Shared.twins.ents[i]? = some c → c.rtype ≠ 7) := by
  constructor <;> (intro i c hf; simp [Reuse.Shared.Regy.find, Reuse.Shared.twins, List.lookup] at hf)

/-- seeded change C08-m8 at this level: the same look-up without the guard wipes the shadowed type's function -/
theorem C08_registered_fill_unguarded_witness :
    (Reuse.Shared.lookup false Reuse.Shared.twins ⟨0, "RTwin", "reuse/RTwin"⟩).1.ents = [⟨0, none⟩, ⟨1, none⟩] ∧
    (Reuse.Shared.lookup true Reuse.Shared.twins ⟨0, "RTwin", "reuse/RTwin"⟩).1 = Reuse.Shared.twins :=
  Reuse.Shared.lookup_unguarded_loses_fn

/-- without the guard (seeded change C08-m8) the registered function is lost: after goroutine 0's
Recompose into its own value goroutine 1's create-keyed map is no longer built by it -/
theorem C08_reregister_unguarded_witness :
    Reuse.Shared.reRegister false none (Reuse.Shared.Comp.mk (some ())) = Reuse.Shared.Comp.mk none ∧
    (Reuse.Shared.exec ⟨Reuse.Shared.Comp.mk (some ()), fun _ => none⟩
      [⟨0, Reuse.Shared.recompInto false, 1⟩, ⟨1, Reuse.Shared.recompCreate, 2⟩]).loc 1 = some (2, false) ∧
    (Reuse.Shared.exec ⟨Reuse.Shared.Comp.mk (some ()), fun _ => none⟩
      ([⟨0, Reuse.Shared.recompInto false, 1⟩, ⟨1, Reuse.Shared.recompCreate, 2⟩].filter fun c => c.g = 1)).loc 1 = some (2, true) :=
  ⟨rfl, Reuse.Shared.unguarded_reRegister_breaks⟩

/-- **write inventory of a shared Converter** (generated): `(*Converter).Convert` and what it reaches write nothing
through the receiver (the conversion functions are only ranged over; the caller's own data is converted in place) -/
theorem shared_converter_write_inventory :
    (Gen.SharedObj.converterSharedWrites.isEmpty && decide (2 ≤ Gen.SharedObj.converterReached)) = true := by decide

/-- finding C08-asm-plan-lazy-compile: present in the source up to 4f445c7 (`true`), FIXED by 4f445c7
(notes/proposed_fixes/C08_asm_plan_lazy_compile.md, applied): `false` — the lists below must be empty -/
def planLazyCompile : Bool := false

/-- **a compiled asm.Plan** (generated; asm.Plan is not named in C08's statement; regression tripwire for fix 4f445c7,
written for both states of the flag `planLazyCompile`, which is `false` now: NO write into an executing plan).
Before the fix: `(*Fn).compile` is
called by the constructor `NewPlan`, by itself, and — DURING evaluation — by `evalValue`; the
functions other than `NewPlan` that give a Fn an argument list that is a SLICE of somebody else's list
instead of a copy are exactly `evalValue` (`af.Args = tv[1:]`) and `(*Fn).compile` (`af.Args = list[1:]`):
the compile that follows writes into the plan being executed (the finding). With the fix both lists are
copies and the list of aliases outside `NewPlan` is empty. The same finding from the general write inventory
(`asmSharedWrites`): in the 60+ functions reached from the `Eval` functions and `(*Plan).Execute` the ONLY write into
the plan — through the argument parameters `args` / `arg` / `value`, an alias of them, or a receiver-writing method
called on a local that holds such an alias in a field — is `af.compile()` in `evalValue` -/
theorem shared_plan_lazy_compile :
    ((Gen.SharedObj.asmCompileCallers == ["Fn.compile", "NewPlan", "evalValue"]) &&
     ((Gen.SharedObj.asmArgsAliases.filter fun a => a.1 != "NewPlan") ==
        (if planLazyCompile then [("Fn.compile", "af.Args", "list[1:]"), ("evalValue", "af.Args", "tv[1:]")] else [])) &&
     decide (40 ≤ Gen.SharedObj.asmEvalReached) &&
     (Gen.SharedObj.asmSharedWrites ==
        (if planLazyCompile then [("asm.evalValue", "af.compile() with af.Args an alias of the plan's list", [])] else []))) = true := by
  decide

end OjgVerif.C08
