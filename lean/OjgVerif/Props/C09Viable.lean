import OjgVerif.Props.C09
import OjgVerif.Props.C01Lang
import OjgVerif.Json.Viable
/-! # C09 — the reported position is the first byte after which the input cannot be completed

`Props/C09.lean` shows that a rejected input is rejected at a byte all of whose predecessors were
accepted, and that the error carries that byte's line and column. This file adds what makes that
byte "the first byte after which the input can no longer be extended to a valid JSON text":

* `accepted_prefix_viable` — every prefix the machine has accepted can be extended to a text of the
  specification's language (viable prefix property; `Json/Viable.lean`: control abstraction of the
  machine, invariants of reachable states, an explicit completion for each of the 21 modes and for
  every container stack);
* `rejected_byte_final` — once a byte is rejected no continuation is in the language;
* `error_position_first_unextendable` — both, with the position, for every rejected input.

"In the language" is `Spec.parseText … ≠ bad`: blank, or exactly one RFC 8259 text (C01). -/
namespace OjgVerif.C09
open OjgVerif OjgVerif.Json

/-- the text is in the specification's language (blank or exactly one JSON text) -/
def InLang (bs : Bytes) : Prop := (Spec.parseText bs).kind ≠ 2

theorem inLang_iff_exec (bs : Bytes) : InLang bs ↔ (exec {} bs).isSome = true := by
  unfold InLang
  rw [exec_text, ← parseTextM_kind]
  cases parseTextM bs <;> simp [Spec.Doc.kind, Spec.Doc.result]

/-- **Viable prefix.** Every prefix the reference automaton has accepted can be extended to a text of
the language. -/
theorem accepted_prefix_viable (p : Bytes) (s : St) (h : runBytes refTables cfg1 {} p = .ok s) :
    ∃ q, InLang (p ++ q) := by
  obtain ⟨hw, hr⟩ := reach_inv p {} s WF.init RInv.init h
  obtain ⟨q, docs, hq⟩ := viable_state s hw hr
  refine ⟨q, (inLang_iff_exec _).mpr ?_⟩
  rw [exec_append, h]
  simp only [hq, Option.isSome_some]

/-- **A rejected byte is final.** After a byte the automaton rejects, no continuation is in the language. -/
theorem rejected_byte_final (p : Bytes) (b : UInt8) (s : St) (e : Err)
    (h1 : runBytes refTables cfg1 {} p = .ok s) (h2 : step refTables cfg1 s b = .error e) (q : Bytes) :
    ¬ InLang (p ++ b :: q) := by
  rw [inLang_iff_exec, exec_append, h1]
  simp only [exec_cons, h2, Option.isSome_none, Bool.false_eq_true, not_false_eq_true]

/-- **C09.** When the strict-JSON machine over the regenerated oj tables rejects an input, the
reported line and column designate a byte `b` such that the input up to `b` can still be extended to
a text of the language, and the input up to and including `b` cannot. -/
theorem error_position_first_unextendable (bs : Bytes) (e : Err)
    (h : runBytes ojTables cfg1 {} bs = .error e) :
    ∃ pre b post, bs = pre ++ b :: post ∧ (e.line, e.col) = lineColOf pre ∧
      (∃ q, InLang (pre ++ q)) ∧ ∀ q, ¬ InLang (pre ++ b :: q) := by
  obtain ⟨pre, b, post, hbs, ⟨s1, hrun, hstep⟩, hpos⟩ := error_position C01.ojTables_ok cfg1 bs e h
  rw [Json.runBytes_eq_ref C01.ojTables_ok] at hrun
  rw [Json.step_eq_ref C01.ojTables_ok] at hstep
  exact ⟨pre, b, post, hbs, hpos, accepted_prefix_viable pre s1 hrun, rejected_byte_final pre b s1 e hrun hstep⟩

/-- the same over the regenerated gen tables -/
theorem error_position_first_unextendable_gen (bs : Bytes) (e : Err)
    (h : runBytes genTables cfg1 {} bs = .error e) :
    ∃ pre b post, bs = pre ++ b :: post ∧ (e.line, e.col) = lineColOf pre ∧
      (∃ q, InLang (pre ++ q)) ∧ ∀ q, ¬ InLang (pre ++ b :: q) := by
  obtain ⟨pre, b, post, hbs, ⟨s1, hrun, hstep⟩, hpos⟩ := error_position C01.genTables_ok cfg1 bs e h
  rw [Json.runBytes_eq_ref C01.genTables_ok] at hrun
  rw [Json.step_eq_ref C01.genTables_ok] at hstep
  exact ⟨pre, b, post, hbs, hpos, accepted_prefix_viable pre s1 hrun, rejected_byte_final pre b s1 e hrun hstep⟩

/-- an input that is only incomplete is a viable prefix: it can be extended to a text of the language -/
theorem incomplete_is_viable (bs : Bytes) (s : St) (h : runBytes ojTables cfg1 {} bs = .ok s) :
    ∃ q, InLang (bs ++ q) := by
  rw [Json.runBytes_eq_ref C01.ojTables_ok] at h
  exact accepted_prefix_viable bs s h

theorem skipWs_eq_nil_append (bs : Bytes) (h : Spec.skipWs bs = []) (t : Bytes) :
    Spec.skipWs (bs ++ t) = Spec.skipWs t := by
  induction bs with
  | nil => rfl
  | cons b r ih =>
    simp only [Spec.skipWs] at h
    by_cases hb : Spec.isWs b = true
    · simp only [hb, ↓reduceIte] at h
      simp only [List.cons_append, Spec.skipWs, hb, ↓reduceIte]
      exact ih h
    · simp only [hb, Bool.false_eq_true, ↓reduceIte] at h; cases h

/-- a blank text followed by `0` is a JSON text -/
theorem blank_then_zero (bs : Bytes) (h : Spec.skipWs bs = []) : (Spec.parseText (bs ++ [48])).kind = 1 := by
  unfold Spec.parseText
  rw [skipWs_eq_nil_append bs h [48]]
  have : Spec.skipWs [48] = [48] := rfl
  rw [this]
  simp only
  have hp : ∀ n, Spec.pValue (n + 1) [48] = some (.num [48], []) := by intro n; rfl
  rw [hp]
  rfl

/-- **Viable prefix, strong form.** Every prefix the reference automaton has accepted can be extended
to exactly one valid JSON text (not merely to a blank text). -/
theorem accepted_prefix_extends_to_text (p : Bytes) (s : St) (h : runBytes refTables cfg1 {} p = .ok s) :
    ∃ q, (Spec.parseText (p ++ q)).kind = 1 := by
  obtain ⟨q, hq⟩ := accepted_prefix_viable p s h
  unfold InLang at hq
  cases hk : Spec.parseText (p ++ q) with
  | bad => rw [hk] at hq; exact absurd rfl hq
  | one v => exact ⟨q, by rw [hk]; rfl⟩
  | none =>
    -- blank so far: append a zero
    have hblank : Spec.skipWs (p ++ q) = [] := by
      unfold Spec.parseText at hk
      cases hs : Spec.skipWs (p ++ q) with
      | nil => rfl
      | cons b r =>
        rw [hs] at hk
        simp only at hk
        split at hk
        · split at hk <;> cases hk
        · cases hk
    refine ⟨q ++ [48], ?_⟩
    rw [← List.append_assoc]
    exact blank_then_zero (p ++ q) hblank


/-- **C09, strong reading.** The input up to the reported byte can still be extended to exactly one
valid JSON text; up to and including it, to nothing in the language. -/
theorem error_position_first_unextendable_text (bs : Bytes) (e : Err)
    (h : runBytes ojTables cfg1 {} bs = .error e) :
    ∃ pre b post, bs = pre ++ b :: post ∧ (e.line, e.col) = lineColOf pre ∧
      (∃ q, (Spec.parseText (pre ++ q)).kind = 1) ∧ ∀ q, ¬ InLang (pre ++ b :: q) := by
  obtain ⟨pre, b, post, hbs, ⟨s1, hrun, hstep⟩, hpos⟩ := error_position C01.ojTables_ok cfg1 bs e h
  rw [Json.runBytes_eq_ref C01.ojTables_ok] at hrun
  rw [Json.step_eq_ref C01.ojTables_ok] at hstep
  exact ⟨pre, b, post, hbs, hpos, accepted_prefix_extends_to_text pre s1 hrun,
    rejected_byte_final pre b s1 e hrun hstep⟩

end OjgVerif.C09
