import OjgVerif.Props.C18
import OjgVerif.Conv.LemmasPrune
/-! Property C18, the value clause under the omit options (OmitNil and/or OmitEmpty set).

`T.prune k opt t` (Conv/LemmasPrune.lean) is the input `t` written in the target form of `k` less
exactly the object members the options name: for `alt.Generify` a member whose value is nil when
OmitNil is set (OmitEmpty is not looked at); for `alt.Decompose` = `alt.Dup` what `condMapSet` leaves
out — nil with OmitNil or OmitEmpty; with OmitEmpty also `""`, `false`, `int64(0)`, nil/empty slices and
maps (not `float64(0)`), tested on the converted member and therefore hereditarily (an object that
loses all members is empty and goes too). Elements of slices are never left out. The theorems below
have NO hypothesis on the options. -/
namespace OjgVerif.C18
open OjgVerif.Conv OjgVerif.Gen.Conv

/-! ## the omit tests of the model against the source -/

/-- The switch of `alt.condMapSet` (used by decompose = Dup) and the switch in the map clause of
`alt.alter` have, clause for clause, the types and conditions of the model's `condOmit`
(= `T.isEmptyFor` on values, `condOmit_eq`), and the map clauses of `Generify` / `GenAlter` store the
converted member under `x != nil || !opt.OmitNil` (the model's `omits`: left out iff nil and OmitNil).
Read from alt/decompose.go and alt/generifier.go by tools/extract/conv.go; a clause added (say for
`float64`), removed or with another condition makes this stop checking. A comparison of tables, not a
semantics of Go expressions. -/
theorem omit_tables_match_source :
    omitRowsOf "condMapSet" = condOmitRows ∧ omitRowsOf "alter" = condOmitRows ∧
    omitRowsOf "Generify" = [("keep", "x != nil || !opt.OmitNil")] ∧
    omitRowsOf "GenAlter" = [("keep", "x != nil || !opt.OmitNil")] := by decide

/-! ## conversions without options: `prune` is `toForm` -/

mutual
  theorem prune_noOmit {k : Kind} (hk : ∀ o y, T.omitted k o y = false) (opt : Opt) :
      ∀ t : T, t.prune k opt = t.toForm k.dst k.fillsNil
    | .null => rfl
    | .bool _ _ => rfl
    | .int _ _ => rfl
    | .flt _ _ => rfl
    | .str _ _ => rfl
    | .big _ _ => rfl
    | .nilArr _ => rfl
    | .nilObj _ => rfl
    | .arr _ xs => by simp [T.prune, T.toForm, pruneList_noOmit hk (k.arrOpt opt) xs]
    | .obj _ kvs => by simp [T.prune, T.toForm, pruneKvs_noOmit hk opt kvs]
  theorem pruneList_noOmit {k : Kind} (hk : ∀ o y, T.omitted k o y = false) (opt : Opt) :
      ∀ xs : List T, T.pruneList k opt xs = T.toFormList k.dst k.fillsNil xs
    | [] => rfl
    | x :: xs => by simp [T.pruneList, T.toFormList, prune_noOmit hk opt x, pruneList_noOmit hk opt xs]
  theorem pruneKvs_noOmit {k : Kind} (hk : ∀ o y, T.omitted k o y = false) (opt : Opt) :
      ∀ xs : List (String × T), T.pruneKvs k opt xs = T.toFormKvs k.dst k.fillsNil xs
    | [] => rfl
    | (key, x) :: xs => by
      simp [T.pruneKvs, T.toFormKvs, hk, prune_noOmit hk (k.mapOpt opt) x, pruneKvs_noOmit hk opt xs]
end

mutual
  /-- the pruned value is written in the target form -/
  theorem pure_prune (k : Kind) (opt : Opt) : ∀ t : T, t.pure k.src = true → (t.prune k opt).pure k.dst = true
    | .null, _ => rfl
    | .bool _ _, _ => by simp [T.prune, T.pure]
    | .int _ _, _ => by simp [T.prune, T.pure]
    | .flt _ _, _ => by simp [T.prune, T.pure]
    | .str _ _, _ => by simp [T.prune, T.pure]
    | .big _ _, h => by simp [T.pure] at h
    | .nilArr _, _ => by cases hf : k.fillsNil <;> simp [T.prune, T.pure, T.pureList, hf]
    | .nilObj _, _ => by cases hf : k.fillsNil <;> simp [T.prune, T.pure, T.pureKvs, hf]
    | .arr _ xs, h => by
      simp [T.pure] at h
      simp [T.prune, T.pure, pureList_prune k (k.arrOpt opt) xs h.2]
    | .obj _ kvs, h => by
      simp [T.pure] at h
      simp [T.prune, T.pure, pureKvs_prune k opt kvs h.2]
  theorem pureList_prune (k : Kind) (opt : Opt) :
      ∀ xs : List T, T.pureList k.src xs = true → T.pureList k.dst (T.pruneList k opt xs) = true
    | [], _ => rfl
    | x :: xs, h => by
      simp [T.pureList] at h
      simp [T.pruneList, T.pureList, pure_prune k opt x h.1, pureList_prune k opt xs h.2]
  theorem pureKvs_prune (k : Kind) (opt : Opt) :
      ∀ xs : List (String × T), T.pureKvs k.src xs = true → T.pureKvs k.dst (T.pruneKvs k opt xs) = true
    | [], _ => rfl
    | (key, x) :: xs, h => by
      simp [T.pureKvs] at h
      simp only [T.pruneKvs]
      split
      · exact pureKvs_prune k opt xs h.2
      · simp [T.pureKvs, pure_prune k (k.mapOpt opt) x h.1, pureKvs_prune k opt xs h.2]
end

/-! ## the four copying conversions under every option setting -/

/-- `alt.Generify(v, opt)` is `v` in the generic form less the nil members if OmitNil -/
theorem generify_value_omit (n : Nat) (opt : Opt) (H : Heap) (r : Ref) (t : T)
    (hd : denote n H r = some t) (hs : t.Simple) :
    ∃ H' r', conv .generify n opt H r = some (H', r') ∧ denote n H' r' = some (t.prune .generify opt) := by
  obtain ⟨H1, r1, hc1, _, hd1⟩ := prune_spec .generify rfl n opt H r t hd hs
  exact ⟨H1, r1, hc1, hd1⟩

/-- `alt.Decompose(v, opt)` = `alt.Dup(v, opt)` is `v` less what `condMapSet` leaves out -/
theorem decompose_value_omit (n : Nat) (opt : Opt) (H : Heap) (r : Ref) (t : T)
    (hd : denote n H r = some t) (hs : t.Simple) :
    ∃ H' r', conv .decompose n opt H r = some (H', r') ∧ denote n H' r' = some (t.prune .decompose opt) := by
  obtain ⟨H1, r1, hc1, _, hd1⟩ := prune_spec .decompose rfl n opt H r t hd hs
  exact ⟨H1, r1, hc1, hd1⟩

/-- `n.Simplify()` has no options: the value in the simple form, whatever `opt` (this is
`simplify_value` without its hypothesis on the options) -/
theorem simplify_value_anyOpt (n : Nat) (opt : Opt) (H : Heap) (r : Ref) (t : T)
    (hd : denote n H r = some t) (hs : t.pure .gen = true) :
    ∃ H' r', conv .simplify n opt H r = some (H', r') ∧ denote n H' r' = some (t.toForm .simple false) := by
  obtain ⟨H1, r1, hc1, _, hd1⟩ := prune_spec .simplify rfl n opt H r t hd hs
  rw [prune_noOmit (k := .simplify) (fun _ _ => rfl)] at hd1
  exact ⟨H1, r1, hc1, hd1⟩

/-- `n.Dup()` has no options: the same value, whatever `opt` -/
theorem genDup_value_anyOpt (n : Nat) (opt : Opt) (H : Heap) (r : Ref) (t : T)
    (hd : denote n H r = some t) (hs : t.pure .gen = true) :
    ∃ H' r', conv .genDup n opt H r = some (H', r') ∧ denote n H' r' = some t := by
  obtain ⟨H1, r1, hc1, _, hd1⟩ := prune_spec .genDup rfl n opt H r t hd hs
  rw [prune_noOmit (k := .genDup) (fun _ _ => rfl)] at hd1
  refine ⟨H1, r1, hc1, ?_⟩
  rw [hd1]
  simp only [Kind.dst, Kind.fillsNil]
  rw [toForm_of_pure .gen _ t hs (Or.inl rfl)]

/-- `Simplify(Generify(v, opt))` is the pruned value read back in the simple form: the round trip
under the omit options gives `prune`, not `v` -/
theorem generify_simplify_omit (n : Nat) (opt : Opt) (H : Heap) (r : Ref) (t : T)
    (hd : denote n H r = some t) (hs : t.Simple) :
    roundTrip .generify .simplify n opt H r = some ((t.prune .generify opt).toForm .simple false) := by
  obtain ⟨H1, r1, hc1, _, hd1⟩ := prune_spec .generify rfl n opt H r t hd hs
  obtain ⟨H2, r2, hc2, hd2⟩ := simplify_value_anyOpt n opt H1 r1 _ hd1 (pure_prune .generify opt t hs)
  simp only [roundTrip, pipeline, hc1, hc2]
  exact hd2

mutual
  /-- if an invariant `P` of the options rules out leaving members out and survives the recursive
  calls, nothing is pruned -/
  theorem prune_of_inv {k : Kind} {P : Opt → Prop} (hom : ∀ o y, P o → T.omitted k o y = false)
      (harr : ∀ o, P o → P (k.arrOpt o)) (hmap : ∀ o, P o → P (k.mapOpt o)) :
      ∀ (t : T) (o : Opt), P o → t.prune k o = t.toForm k.dst k.fillsNil
    | .null, _, _ => rfl
    | .bool _ _, _, _ => rfl
    | .int _ _, _, _ => rfl
    | .flt _ _, _, _ => rfl
    | .str _ _, _, _ => rfl
    | .big _ _, _, _ => rfl
    | .nilArr _, _, _ => rfl
    | .nilObj _, _, _ => rfl
    | .arr _ xs, o, h => by simp [T.prune, T.toForm, pruneList_of_inv hom harr hmap xs _ (harr o h)]
    | .obj _ kvs, o, h => by simp [T.prune, T.toForm, pruneKvs_of_inv hom harr hmap kvs o h]
  theorem pruneList_of_inv {k : Kind} {P : Opt → Prop} (hom : ∀ o y, P o → T.omitted k o y = false)
      (harr : ∀ o, P o → P (k.arrOpt o)) (hmap : ∀ o, P o → P (k.mapOpt o)) :
      ∀ (xs : List T) (o : Opt), P o → T.pruneList k o xs = T.toFormList k.dst k.fillsNil xs
    | [], _, _ => rfl
    | x :: xs, o, h => by
      simp [T.pruneList, T.toFormList, prune_of_inv hom harr hmap x o h, pruneList_of_inv hom harr hmap xs o h]
  theorem pruneKvs_of_inv {k : Kind} {P : Opt → Prop} (hom : ∀ o y, P o → T.omitted k o y = false)
      (harr : ∀ o, P o → P (k.arrOpt o)) (hmap : ∀ o, P o → P (k.mapOpt o)) :
      ∀ (xs : List (String × T)) (o : Opt), P o → T.pruneKvs k o xs = T.toFormKvs k.dst k.fillsNil xs
    | [], _, _ => rfl
    | (key, x) :: xs, o, h => by
      simp [T.pruneKvs, T.toFormKvs, hom o _ h, prune_of_inv hom harr hmap x _ (hmap o h),
        pruneKvs_of_inv hom harr hmap xs o h]
end

/-- with OmitNil off nothing is pruned by Generify, whatever OmitEmpty (Generify never looks at it;
the option flow is the one read from the source) -/
theorem prune_generify_keepsNil (t : T) (opt : Opt) (ho : opt.omitNil = false) :
    t.prune .generify opt = t.toForm .gen true :=
  prune_of_inv (k := .generify) (P := fun o => o.omitNil = false)
    (fun o y h => by simp [T.omitted, h]) keepInv_generify.arr keepInv_generify.map t opt ho

/-- with both options off nothing is pruned by Decompose / Dup -/
theorem prune_decompose_keepsNulls (t : T) (opt : Opt) (ho : KeepsNulls opt) :
    t.prune .decompose opt = t.toForm .simple true :=
  prune_of_inv (k := .decompose) (P := KeepsNulls)
    (fun o y h => by
      obtain ⟨h1, h2⟩ := h
      cases y <;> simp only [T.omitted] <;>
        first
        | (simp [T.isEmptyFor, h1, h2]; done)
        | (rename_i f; cases f <;> simp [T.isEmptyFor, h1, h2]; done)
        | (rename_i f _; cases f <;> simp [T.isEmptyFor, h2]; done))
    (fun _ h => h) (fun _ h => h) t opt ho

/-- `generify_value` for OmitEmpty = true as well: only OmitNil matters to Generify -/
theorem generify_value_omitEmpty (n : Nat) (opt : Opt) (H : Heap) (r : Ref) (t : T)
    (ho : opt.omitNil = false) (hd : denote n H r = some t) (hs : t.Simple) :
    ∃ H' r', conv .generify n opt H r = some (H', r') ∧ denote n H' r' = some (t.toForm .gen true) := by
  obtain ⟨H1, r1, hc1, hd1⟩ := generify_value_omit n opt H r t hd hs
  rw [prune_generify_keepsNil t opt ho] at hd1
  exact ⟨H1, r1, hc1, hd1⟩

/-- `Simplify(Generify(v, opt)) = v` whenever OmitNil is off, OmitEmpty on or off -/
theorem generify_simplify_omitEmpty (n : Nat) (opt : Opt) (H : Heap) (r : Ref) (t : T)
    (ho : opt.omitNil = false) (hd : denote n H r = some t) (hs : t.JsonLike) :
    roundTrip .generify .simplify n opt H r = some t := by
  rw [generify_simplify_omit n opt H r t hd hs.1, prune_generify_keepsNil t opt ho]
  simp [toForm_toForm]
  rw [toForm_of_pure .simple _ t hs.1 (Or.inr hs.2)]

/-! ## the in-place conversions under every option setting

`owns n H r = some S ∧ S.Nodup` (no shared cell) as for every in-place statement. -/

/-- `alt.GenAlter(v, opt)`: the pruned value in the generic form, in the cell it was given; the
result owns a subset of the cells of the input, still unshared -/
theorem genAlter_value_omit (n : Nat) (opt : Opt) (H : Heap) (r : Ref) (t : T) (S : List Addr)
    (hd : denote n H r = some t) (hS : owns n H r = some S) (hnd : S.Nodup) (hs : t.Simple) :
    ∃ H' r', conv .genAlter n opt H r = some (H', r') ∧ denote n H' r' = some (t.prune .genAlter opt) ∧
      r'.addr? = r.addr? ∧ H'.length = H.length ∧
      ∃ S', owns n H' r' = some S' ∧ S'.Nodup ∧ ∀ a, a ∈ S' → a ∈ S := by
  obtain ⟨H1, r1, hc, hl, _, hd1, had, hS'⟩ := alterPrune_spec .genAlter rfl n opt H r t S hd hS hnd hs
  exact ⟨H1, r1, hc, hd1, had, hl, hS'⟩

/-- `alt.Alter(v, opt)`: `v` less what the `condMapSet`-like switch of `alter` leaves out, in the
same cells -/
theorem altAlter_value_omit (n : Nat) (opt : Opt) (H : Heap) (r : Ref) (t : T) (S : List Addr)
    (hd : denote n H r = some t) (hS : owns n H r = some S) (hnd : S.Nodup) (hs : t.Simple) :
    ∃ H' r', conv .altAlter n opt H r = some (H', r') ∧ denote n H' r' = some (t.prune .altAlter opt) ∧
      r'.addr? = r.addr? ∧ H'.length = H.length := by
  obtain ⟨H1, r1, hc, hl, _, hd1, had, _⟩ := alterPrune_spec .altAlter rfl n opt H r t S hd hS hnd hs
  exact ⟨H1, r1, hc, hd1, had, hl⟩

/-- `n.Alter()` has no options: the value in the simple form, whatever `opt` -/
theorem nodeAlter_value_anyOpt (n : Nat) (opt : Opt) (H : Heap) (r : Ref) (t : T) (S : List Addr)
    (hd : denote n H r = some t) (hS : owns n H r = some S) (hnd : S.Nodup) (hs : t.pure .gen = true) :
    ∃ H' r', conv .nodeAlter n opt H r = some (H', r') ∧ denote n H' r' = some (t.toForm .simple false) ∧
      r'.addr? = r.addr? := by
  obtain ⟨H1, r1, hc, _, _, hd1, had, _⟩ := alterPrune_spec .nodeAlter rfl n opt H r t S hd hS hnd hs
  rw [prune_noOmit (k := .nodeAlter) (fun _ _ => rfl)] at hd1
  exact ⟨H1, r1, hc, hd1, had⟩

/-- `GenAlter(v, opt).Alter()` is the pruned value read back in the simple form -/
theorem genAlter_nodeAlter_omit (n : Nat) (opt : Opt) (H : Heap) (r : Ref) (t : T) (S : List Addr)
    (hd : denote n H r = some t) (hS : owns n H r = some S) (hnd : S.Nodup) (hs : t.Simple) :
    roundTrip .genAlter .nodeAlter n opt H r = some ((t.prune .genAlter opt).toForm .simple false) := by
  obtain ⟨H1, r1, hc1, hd1, _, _, S', hS', hnd', _⟩ := genAlter_value_omit n opt H r t S hd hS hnd hs
  obtain ⟨H2, r2, hc2, hd2, _⟩ := nodeAlter_value_anyOpt n opt H1 r1 _ S' hd1 hS' hnd'
    (pure_prune .genAlter opt t hs)
  simp only [roundTrip, pipeline, hc1, hc2]
  exact hd2

/-- `Simplify(GenAlter(v, opt))` is the pruned value read back in the simple form -/
theorem genAlter_simplify_omit (n : Nat) (opt : Opt) (H : Heap) (r : Ref) (t : T) (S : List Addr)
    (hd : denote n H r = some t) (hS : owns n H r = some S) (hnd : S.Nodup) (hs : t.Simple) :
    roundTrip .genAlter .simplify n opt H r = some ((t.prune .genAlter opt).toForm .simple false) := by
  obtain ⟨H1, r1, hc1, hd1, _⟩ := genAlter_value_omit n opt H r t S hd hS hnd hs
  obtain ⟨H2, r2, hc2, hd2⟩ := simplify_value_anyOpt n opt H1 r1 _ hd1 (pure_prune .genAlter opt t hs)
  simp only [roundTrip, pipeline, hc1, hc2]
  exact hd2

/-- `Generify(v, opt).Alter()` is the pruned value read back in the simple form -/
theorem generify_nodeAlter_omit (n : Nat) (opt : Opt) (H : Heap) (r : Ref) (t : T)
    (hd : denote n H r = some t) (hs : t.Simple) :
    roundTrip .generify .nodeAlter n opt H r = some ((t.prune .generify opt).toForm .simple false) := by
  obtain ⟨H1, r1, hc1, _, hd1⟩ := prune_spec .generify rfl n opt H r t hd hs
  obtain ⟨H1', r1', hc1', _, S', hS', hnd', _⟩ := fresh_spec .generify rfl n opt H r t hd hs
  rw [hc1] at hc1'; cases hc1'
  obtain ⟨H2, r2, hc2, hd2, _⟩ := nodeAlter_value_anyOpt n opt H1 r1 _ S' hd1 hS' hnd'
    (pure_prune .generify opt t hs)
  simp only [roundTrip, pipeline, hc1, hc2]
  exact hd2

/-- with OmitNil off nothing is pruned by GenAlter, whatever OmitEmpty -/
theorem prune_genAlter_keepsNil (t : T) (opt : Opt) (ho : opt.omitNil = false) :
    t.prune .genAlter opt = t.toForm .gen false :=
  prune_of_inv (k := .genAlter) (P := fun o => o.omitNil = false)
    (fun o y h => by simp [T.omitted, h]) keepInv_genAlter.arr keepInv_genAlter.map t opt ho

/-- `GenAlter(v, opt).Alter() = v` whenever OmitNil is off, OmitEmpty on or off (`genAlter_full`
without its hypothesis on OmitEmpty) -/
theorem genAlter_nodeAlter_omitEmpty (n : Nat) (opt : Opt) (H : Heap) (r : Ref) (t : T) (S : List Addr)
    (ho : opt.omitNil = false) (hd : denote n H r = some t) (hS : owns n H r = some S) (hnd : S.Nodup)
    (hs : t.Simple) : roundTrip .genAlter .nodeAlter n opt H r = some t := by
  rw [genAlter_nodeAlter_omit n opt H r t S hd hS hnd hs, prune_genAlter_keepsNil t opt ho]
  simp [toForm_toForm]
  rw [toForm_of_pure .simple _ t hs (Or.inl rfl)]

/-! ## the round trips as a pruning of `v` itself

`T.prune .decompose ⟨b, false⟩ v` is `v` in the simple form (nil containers filled) less, if `b`, the
members whose value is nil — nothing else, at every depth below objects and slices alike. -/

theorem omitted_decompose_nilOnly (n : Bool) (y : T) :
    T.omitted .decompose ⟨n, false⟩ y = (y.isNull && n) := by
  cases y <;> simp only [T.omitted, T.isNull] <;>
    first
    | (simp [T.isEmptyFor]; done)
    | (rename_i f; cases f <;> simp [T.isEmptyFor]; done)
    | (rename_i f _; cases f <;> simp [T.isEmptyFor]; done)

theorem generify_arrOpt (o : Opt) : Kind.generify.arrOpt o = o := by
  simp [Kind.arrOpt, generifyArrPassesOpt]
theorem generify_mapOpt (o : Opt) : Kind.generify.mapOpt o = o := by
  simp [Kind.mapOpt, generifyMapPassesOpt]

mutual
  theorem prune_generify_simple (o : Opt) :
      ∀ t : T, (t.prune .generify o).toForm .simple false = t.prune .decompose ⟨o.omitNil, false⟩
    | .null => rfl
    | .bool _ _ => rfl
    | .int _ _ => rfl
    | .flt _ _ => rfl
    | .str _ _ => rfl
    | .big _ _ => rfl
    | .nilArr _ => by simp [T.prune, Kind.fillsNil, T.toForm, T.toFormList, Kind.dst]
    | .nilObj _ => by simp [T.prune, Kind.fillsNil, T.toForm, T.toFormKvs, Kind.dst]
    | .arr _ xs => by
      simp only [T.prune, T.toForm, Kind.dst]
      rw [generify_arrOpt, pruneList_generify_simple o xs]
      rfl
    | .obj _ kvs => by
      simp only [T.prune, T.toForm, Kind.dst]
      rw [pruneKvs_generify_simple o kvs]
  theorem pruneList_generify_simple (o : Opt) :
      ∀ xs : List T, T.toFormList .simple false (T.pruneList .generify o xs) =
        T.pruneList .decompose ⟨o.omitNil, false⟩ xs
    | [] => rfl
    | x :: xs => by
      simp only [T.pruneList, T.toFormList]
      rw [prune_generify_simple o x, pruneList_generify_simple o xs]
  theorem pruneKvs_generify_simple (o : Opt) :
      ∀ xs : List (String × T), T.toFormKvs .simple false (T.pruneKvs .generify o xs) =
        T.pruneKvs .decompose ⟨o.omitNil, false⟩ xs
    | [] => rfl
    | (key, x) :: xs => by
      have hx := prune_generify_simple o x
      have hxs := pruneKvs_generify_simple o xs
      have hm : Kind.decompose.mapOpt ⟨o.omitNil, false⟩ = ⟨o.omitNil, false⟩ := rfl
      have hom : T.omitted .decompose ⟨o.omitNil, false⟩ (T.prune .decompose ⟨o.omitNil, false⟩ x) =
          T.omitted .generify o (T.prune .generify o x) := by
        rw [← hx, omitted_decompose_nilOnly, toForm_isNull]; rfl
      simp only [T.pruneKvs]
      rw [generify_mapOpt, hm, hom]
      cases T.omitted .generify o (T.prune .generify o x) with
      | true => simpa using hxs
      | false => simp [T.toFormKvs, hx, hxs]
end

/-- `Simplify(Generify(v, opt))` = `v` less its nil members if OmitNil (OmitEmpty is immaterial) -/
theorem generify_simplify_prune (n : Nat) (opt : Opt) (H : Heap) (r : Ref) (t : T)
    (hd : denote n H r = some t) (hs : t.Simple) :
    roundTrip .generify .simplify n opt H r = some (t.prune .decompose ⟨opt.omitNil, false⟩) := by
  rw [generify_simplify_omit n opt H r t hd hs, prune_generify_simple]

/-- `Generify(v, opt).Alter()` = `v` less its nil members if OmitNil -/
theorem generify_nodeAlter_prune (n : Nat) (opt : Opt) (H : Heap) (r : Ref) (t : T)
    (hd : denote n H r = some t) (hs : t.Simple) :
    roundTrip .generify .nodeAlter n opt H r = some (t.prune .decompose ⟨opt.omitNil, false⟩) := by
  rw [generify_nodeAlter_omit n opt H r t hd hs, prune_generify_simple]

example : (roundTrip .generify .simplify 3 ⟨true, true⟩ exHeap exRoot).map T.render =
    some "{61:[i1,n,[]],62:[i1,n,[]],63:{64:s78}}" := by decide

/-! ## the hypotheses are satisfiable, and pruning is not the identity

`exTree` = `{"a":[1,null,[]],"b":<same>,"c":{"d":"x","e":null}}` (Props/C18.lean). -/

example : exTree.Simple := rfl
-- Generify, OmitNil: the nil member "e" goes, the nil ELEMENT of the slice stays
example : exTree.prune .generify ⟨true, false⟩ =
    .obj .gen
      [("61", .arr .gen [.int .gen 1, .null, .arr .gen []]),
       ("62", .arr .gen [.int .gen 1, .null, .arr .gen []]),
       ("63", .obj .gen [("64", .str .gen "78")])] := by
  simp [exTree, T.prune, T.pruneList, T.pruneKvs, T.omitted, T.isNull, Kind.mapOpt,
    generifyMapPassesOpt, Kind.dst]
-- the model computes the same thing on the heap
example : (conv .generify 3 ⟨true, false⟩ exHeap exRoot).bind (fun p => (denote 3 p.1 p.2).map T.render) =
    some ((exTree.prune .generify ⟨true, false⟩).render) := by decide
-- Decompose, OmitEmpty: hereditary — {"a":{"b":null,"c":""},"d":0,"e":0.0,"f":[[]]} becomes {"e":0.0,"f":[[]]}
def omitTree : T :=
  .obj .simple
    [("61", .obj .simple [("62", .null), ("63", .str .simple "")]),
     ("64", .int .simple 0), ("65", .flt .simple "30"), ("66", .arr .simple [.arr .simple []])]
example : omitTree.JsonLike := ⟨rfl, rfl⟩
example : (omitTree.prune .decompose ⟨false, true⟩).render = "{65:d30,66:[[]]}" := by decide
example : (omitTree.prune .decompose ⟨false, false⟩).render = omitTree.render := by decide
example : (omitTree.prune .decompose ⟨true, false⟩).render = "{61:{63:s},64:i0,65:d30,66:[[]]}" := by decide

-- in place: alt.Alter under OmitEmpty on the heap of `omitTree` rewrites the root cell (address 3) and
-- leaves the cells of the dropped member behind, unreferenced
def omitHeap : Heap :=
  [.obj [("62", .null), ("63", .str .simple "")], .arr [], .arr [.arr .simple 1],
   .obj [("61", .obj .simple 0), ("64", .int .simple 0), ("65", .flt .simple "30"), ("66", .arr .simple 2)]]
example : (denote 3 omitHeap (.obj .simple 3)).map T.render = some omitTree.render := by decide
example : owns 3 omitHeap (.obj .simple 3) = some [3, 0, 2, 1] := rfl
example : (conv .altAlter 3 ⟨false, true⟩ omitHeap (.obj .simple 3)).map (·.2) = some (.obj .simple 3) := by decide
example : (conv .altAlter 3 ⟨false, true⟩ omitHeap (.obj .simple 3)).bind
    (fun p => (denote 3 p.1 p.2).map T.render) = some "{65:d30,66:[[]]}" := by decide
example : (conv .altAlter 3 ⟨false, true⟩ omitHeap (.obj .simple 3)).bind (fun p => owns 3 p.1 p.2) =
    some [3, 2, 1] := by decide

end OjgVerif.C18
