import OjgVerif.Props.C10Top
import OjgVerif.Sen.Layout
/-! # C10 for ANY white-space layout of the writer's tokens (pretty.SEN, and every other layout)

`C10_anylayout_partial`: whenever a text `t` is a layout of the array or object `v` in the sense of `Sen.isLayout`
(Sen/Layout.lean: the writer's tokens in order, any white space — blank, tab, newline, carriage return, comma — after
`[`, `{`, `:` and after every element or member, at least one between a scalar and what follows it), `sen.Parser.Parse`
of `t` is the one document `nvVal o v`, for every tree of the class `admVal` of `C10_tree_partial`.

The tight and the indented `sen.Writer` are such layouts (and have their own theorems, with a modelled writer);
`pretty.SEN` / `pretty.WriteSEN` choose white space by width, depth and alignment rules that are NOT modelled: the
correspondence run asks, for every text they wrote, whether it is a layout of the tree that was written (driver op
`laycheck` = `Sen.isLayout`), and this theorem turns each positive answer into "that text parses back to
`nvVal o v`". So for `pretty.SEN` the layout algorithm is replaced by a CHECKED relation per case, not by a model. -/
set_option linter.unusedSimpArgs false
set_option linter.unusedVariables false
set_option linter.unusedSectionVars false
namespace OjgVerif.Sen
open OjgVerif
open OjgVerif.Writer (sanitize)

/-! ## text facts -/

theorem stripPrefix_some : ∀ (pre t r : Bytes), stripPrefix pre t = some r → t = pre ++ r := by
  intro pre
  induction pre with
  | nil => intro t r h; simp [stripPrefix] at h; simp [h]
  | cons a p ih =>
    intro t r h
    cases t with
    | nil => simp [stripPrefix] at h
    | cons b t' =>
      simp only [stripPrefix] at h
      split at h
      · rename_i hab; subst hab
        rw [ih t' r h]; rfl
      · cases h

theorem skipWs_of_not_head (t : Bytes) (h : headWs t = false) : skipWs t = t := by
  cases t with
  | nil => rfl
  | cons b r => simp only [headWs] at h; simp [skipWs, h]

/-! ## white space in value mode, after a value that is done -/

theorem isWsB_cases (b : UInt8) (h : isWsB b = true) : b = 32 ∨ b = 9 ∨ b = 13 ∨ b = 44 ∨ b = 10 := by
  simp only [isWsB, Bool.or_eq_true, decide_eq_true_eq] at h
  rcases h with (((h | h) | h) | h) | h
  · exact Or.inl h
  · exact Or.inr (Or.inl h)
  · exact Or.inr (Or.inr (Or.inl h))
  · exact Or.inr (Or.inr (Or.inr (Or.inl h)))
  · exact Or.inr (Or.inr (Or.inr (Or.inr h)))

/-- a byte `valueMap` skips -/
theorem step_ws (st : St) (f : Fast) (b : UInt8) (l : Bool) (hm : st.mode = .value) (hf : f.nlSkipping = false)
    (hb : isWsB b = true) : step refTables {} st f b l = .ok (st, fS f, decide (b = 10)) := by
  rcases isWsB_cases b hb with rfl | rfl | rfl | rfl | rfl <;>
    simp [step, stepCore, stepAct, stepActP, nextFast, refTables, expected, isSep, isBlank, hm, hf, fS]

/-- **white space is skipped in value mode** -/
theorem skipWs_run (t : Bytes) : ∀ (st : St) (f : Fast) (p : Pos), st.mode = .value → FOK f →
    ∃ f' p', runBytes refTables {} st f p t = runBytes refTables {} st f' p' (skipWs t) ∧ FOK f' := by
  induction t with
  | nil => intro st f p _ hf; exact ⟨f, p, rfl, hf⟩
  | cons b r ih =>
    intro st f p hm hf
    by_cases hb : isWsB b = true
    · obtain ⟨f', p', h, hf'⟩ := ih st (fS f) (p.next (decide (b = 10))) hm (FOK_fS' f)
      refine ⟨f', p', ?_, hf'⟩
      rw [runBytes_cons_ok {} (fun l => step_ws st f b l hm hf.1 hb)]
      simp only [skipWs, hb, ↓reduceIte]
      exact h
    · refine ⟨f, p, ?_, hf⟩
      simp [skipWs, hb]

/-- a pending number is completed by any white-space byte -/
theorem step_numEnd_ws (st : St) (f : Fast) (b : UInt8) (l : Bool) (hm : NumMode st.mode) (hin : Inner st)
    (hb : isWsB b = true) (hf : f.nlSkipping = false) :
    step refTables {} st f b l = step refTables {} (st.pushed st.num.asNum.toJV) f b l := by
  rcases isWsB_cases b hb with rfl | rfl | rfl | rfl | rfl
  · exact step_numEnd st f 32 l hm hin (Or.inl rfl) hf
  · rcases hin with ⟨j, o, h1⟩ | ⟨o, k, kvs, r, h1, h2⟩
    · rcases hm with hm | hm | hm | hm <;>
        simp [step, stepCore, stepAct, stepActP, nextFast, refTables, expected, expectedNumEnd, expectedFin, isSep, isBlank,
          isDigit, isDigit19, isE, St.flushP, St.flushCloseP, St.add, St.addIgnore, St.pushed, deliver, hm, h1, hf,
          Functor.map, Except.map, Bind.bind, Except.bind, Pure.pure, Except.pure]
    · rcases hm with hm | hm | hm | hm <;>
        simp [step, stepCore, stepAct, stepActP, nextFast, refTables, expected, expectedNumEnd, expectedFin, isSep, isBlank,
          isDigit, isDigit19, isE, St.flushP, St.flushCloseP, St.add, St.addIgnore, St.setMember, topIsKey, St.pushed, deliver,
          hm, h1, h2, hf, Functor.map, Except.map, Bind.bind, Except.bind, Pure.pure, Except.pure]
  · rcases hin with ⟨j, o, h1⟩ | ⟨o, k, kvs, r, h1, h2⟩
    · rcases hm with hm | hm | hm | hm <;>
        simp [step, stepCore, stepAct, stepActP, nextFast, refTables, expected, expectedNumEnd, expectedFin, isSep, isBlank,
          isDigit, isDigit19, isE, St.flushP, St.flushCloseP, St.add, St.addIgnore, St.pushed, deliver, hm, h1, hf,
          Functor.map, Except.map, Bind.bind, Except.bind, Pure.pure, Except.pure]
    · rcases hm with hm | hm | hm | hm <;>
        simp [step, stepCore, stepAct, stepActP, nextFast, refTables, expected, expectedNumEnd, expectedFin, isSep, isBlank,
          isDigit, isDigit19, isE, St.flushP, St.flushCloseP, St.add, St.addIgnore, St.setMember, topIsKey, St.pushed, deliver,
          hm, h1, h2, hf, Functor.map, Except.map, Bind.bind, Except.bind, Pure.pure, Except.pure]
  · rcases hin with ⟨j, o, h1⟩ | ⟨o, k, kvs, r, h1, h2⟩
    · rcases hm with hm | hm | hm | hm <;>
        simp [step, stepCore, stepAct, stepActP, nextFast, refTables, expected, expectedNumEnd, expectedFin, isSep, isBlank,
          isDigit, isDigit19, isE, St.flushP, St.flushCloseP, St.add, St.addIgnore, St.pushed, deliver, hm, h1, hf,
          Functor.map, Except.map, Bind.bind, Except.bind, Pure.pure, Except.pure]
    · rcases hm with hm | hm | hm | hm <;>
        simp [step, stepCore, stepAct, stepActP, nextFast, refTables, expected, expectedNumEnd, expectedFin, isSep, isBlank,
          isDigit, isDigit19, isE, St.flushP, St.flushCloseP, St.add, St.addIgnore, St.setMember, topIsKey, St.pushed, deliver,
          hm, h1, h2, hf, Functor.map, Except.map, Bind.bind, Except.bind, Pure.pure, Except.pure]
  · exact step_numEnd_nl st f l hm hin hf

/-- at a white-space byte a value that is done behaves like the complete one -/
theorem done_step_ws (st : St) (f : Fast) (tgt : St) (h : DoneV st f tgt) (b : UInt8) (hb : isWsB b = true) :
    ∃ s2 f2, CoreEq s2 tgt ∧ f2.nlSkipping = false ∧ ∀ l, step refTables {} st f b l = step refTables {} s2 f2 b l := by
  obtain ⟨hf, ⟨h, _⟩ | ⟨hm, ht, hi, hin, hc⟩ | ⟨hm, hin, hc⟩⟩ := h
  · exact ⟨st, f, h, hf, fun _ => rfl⟩
  · have hfacts : expected .token b ≠ .tokenOk ∧ b ≠ 40 := by
      rcases isWsB_cases b hb with rfl | rfl | rfl | rfl | rfl <;> exact ⟨by decide +kernel, by decide⟩
    exact ⟨_, fT f, hc, rfl, fun l => step_tokenEnd st f b l hm hf hi ht hin hfacts.1 hfacts.2⟩
  · exact ⟨_, f, hc, hf, fun l => step_numEnd_ws st f b l hm hin hb hf⟩

/-- **white space after a value that is done**: the value is completed, the white space skipped -/
theorem done_ws (st : St) (f : Fast) (tgt : St) (h : DoneV st f tgt) (hm : tgt.mode = .value) (b : UInt8) (r : Bytes)
    (hb : isWsB b = true) (p : Pos) :
    ∃ s2 f2 p2, runBytes refTables {} st f p (b :: r) = runBytes refTables {} s2 f2 p2 (skipWs (b :: r)) ∧
      CoreEq s2 tgt ∧ FOK f2 := by
  obtain ⟨s2, f2, hc2, hf2, hstep⟩ := done_step_ws st f tgt h b hb
  have hm2 : s2.mode = .value := by rw [hc2.1, hm]
  obtain ⟨f3, p3, hrun, hf3⟩ := skipWs_run r s2 (fS f2) (p.next (decide (b = 10))) hm2 (FOK_fS' f2)
  refine ⟨s2, f3, p3, ?_, hc2, hf3⟩
  rw [runBytes_step s2 f2 hstep (fun l => step_ws s2 f2 b l hm2 hf2 hb)]
  simp only [skipWs, hb, ↓reduceIte]
  exact hrun

/-- what follows a value: white space (the value is completed, the state is complete), or nothing — then the state
stays as it is (complete after a container, possibly pending after a scalar) -/
theorem after_value (st : St) (f : Fast) (tgt : St) (h : DoneV st f tgt) (hm : tgt.mode = .value) (r : Bytes) (p : Pos)
    (hcomp : headWs r = false → (CoreEq st tgt ∧ FOK f) ∨ True) :
    ∃ s2 f2 p2, runBytes refTables {} st f p r = runBytes refTables {} s2 f2 p2 (skipWs r) ∧ DoneV s2 f2 tgt ∧
      (headWs r = true → CoreEq s2 tgt ∧ FOK f2) ∧ (headWs r = false → s2 = st ∧ f2 = f) := by
  cases r with
  | nil => exact ⟨st, f, p, rfl, h, fun h => by simp [headWs] at h, fun _ => ⟨rfl, rfl⟩⟩
  | cons b r' =>
    by_cases hb : isWsB b = true
    · obtain ⟨s2, f2, p2, hrun, hc, hf2⟩ := done_ws st f tgt h hm b r' hb p
      exact ⟨s2, f2, p2, hrun, ⟨hf2.1, Or.inl ⟨hc, hf2.2⟩⟩, fun _ => ⟨hc, hf2⟩, fun h => by simp [headWs, hb] at h⟩
    · refine ⟨st, f, p, ?_, h, fun h => by simp [headWs, hb] at h, fun _ => ⟨rfl, rfl⟩⟩
      simp [skipWs, hb]

/-! ## the three claims for a layout -/

def LV (o : WOpts) (v : JV) : Prop :=
  ∀ (t r : Bytes) (st : St) (f : Fast) (p : Pos), layVal o v t = some r → st.mode = .value → st.plus = false → Inner st →
    FOK f →
    ∃ st' f' p', runBytes refTables {} st f p t = runBytes refTables {} st' f' p' r ∧
      DoneV st' f' (st.pushed (nvVal o v)) ∧ (needSep v = false → CoreEq st' (st.pushed (nvVal o v)) ∧ FOK f')

def LE (o : WOpts) (xs : List JV) : Prop :=
  ∀ (t r : Bytes) (st : St) (f : Fast) (p : Pos) (acc : List JV) (i : Nat) (outer : List (Option Nat))
    (below : List Item) (tgt : St),
    layElems o xs t = some r → DoneV st f tgt → (xs ≠ [] → CoreEq st tgt ∧ FOK f) →
    tgt.mode = .value → tgt.plus = false → tgt.starts = some i :: outer →
    tgt.stack = (acc.reverse.map Item.val) ++ Item.arrMark :: below → i = below.length →
    ValPos ({ tgt with starts := outer, stack := below } : St) →
    ∃ st' f' p', runBytes refTables {} st f p t = runBytes refTables {} st' f' p' r ∧
      CoreEq st' (({ tgt with starts := outer, stack := below } : St).pushed (.arr (acc ++ nvElems o xs))) ∧ FOK f'

def LM (o : WOpts) (kvs : List (Bytes × JV)) : Prop :=
  ∀ (t r : Bytes) (st : St) (f : Fast) (p : Pos) (acc : List (Bytes × JV)) (outer : List (Option Nat))
    (below : List Item) (tgt : St),
    layMembers o kvs t = some r → DoneV st f tgt → (allOmitted o kvs = false → CoreEq st tgt ∧ FOK f) →
    tgt.mode = .value → tgt.plus = false → tgt.starts = none :: outer → tgt.stack = .obj acc :: below →
    ValPos ({ tgt with starts := outer, stack := below } : St) →
    ∃ st' f' p', runBytes refTables {} st f p t = runBytes refTables {} st' f' p' r ∧
      CoreEq st' (({ tgt with starts := outer, stack := below } : St).pushed (.obj (nvMembers o kvs acc))) ∧ FOK f'

section claims
variable (o : WOpts)

theorem LE_nil : LE o [] := by
  intro t r st f p acc i outer below tgt h hdone _ tm tp ts tk hi hv
  cases t with
  | nil => simp [layElems] at h
  | cons b t' =>
    simp only [layElems] at h
    split at h
    · rename_i hb; subst hb
      cases h
      obtain ⟨s2, f2, hc2, hf2, hstep⟩ := done_step st f _ hdone 93 (Or.inr (Or.inl rfl))
      obtain ⟨c1, c2, c3, c4, c5⟩ := hc2
      subst hi
      have hsp : splitStack s2.stack below.length = some (acc, .arrMark, below) := by
        rw [c3, tk]; exact splitStack_arr acc below
      have hv2 : ValPos ({ s2 with starts := outer, stack := below } : St) := hv.congr rfl rfl
      have hh := fun l => step_closeArr s2 f2 l (by rw [c1, tm]) hf2 below.length outer (by rw [c2, ts]) acc .arrMark below hsp hv2
      refine ⟨(({ s2 with starts := outer, stack := below } : St).pushed (.arr acc)), fS f2, p.next false, ?_, ?_, FOK_fS' f2⟩
      · exact runBytes_step s2 f2 hstep hh
      · simp only [nvElems, List.append_nil]
        exact pushed_coreV _ _ _ hv2 rfl rfl c4 c5
    · cases h

theorem LE_cons (x : JV) (xs : List JV) (hV : LV o x) (hE : LE o xs) : LE o (x :: xs) := by
  intro t r st f p acc i outer below tgt h hdone hcomp tm tp ts tk hi hv
  obtain ⟨hc, hf⟩ := hcomp (by simp)
  obtain ⟨c1, c2, c3, c4, c5⟩ := hc
  simp only [layElems] at h
  cases hlv : layVal o x t with
  | none => rw [hlv] at h; cases h
  | some r1 =>
    rw [hlv] at h
    simp only at h
    have hs2 : st.starts = some i :: outer := by rw [c2, ts]
    have hin : Inner st := Or.inl ⟨i, outer, hs2⟩
    obtain ⟨st1, f1, p1, hrun1, hdone1, hcomp1⟩ := hV t r1 st f p hlv (by rw [c1, tm]) (by rw [c5, tp]) hin hf
    obtain ⟨pm, pst, psk, pdc, ppl⟩ := pushed_arr st (nvVal o x) i outer hs2
    have hk' : (st.pushed (nvVal o x)).stack = ((acc ++ [nvVal o x]).reverse.map Item.val) ++ Item.arrMark :: below := by
      rw [psk, c3, tk]; simp
    have hv2 : ValPos ({ st.pushed (nvVal o x) with starts := outer, stack := below } : St) := hv.congr rfl rfl
    -- the condition of the layout and the rest of the elements
    have hrest : layElems o xs (skipWs r1) = some r ∧ (needSep x = true → headWs r1 = false → xs = []) := by
      by_cases hcnd : (needSep x && !headWs r1 && !xs.isEmpty) = true
      · rw [if_pos hcnd] at h; cases h
      · rw [if_neg hcnd] at h
        refine ⟨h, fun h1 h2 => ?_⟩
        simp only [h1, h2, Bool.not_false, Bool.true_and, Bool.not_eq_true', List.isEmpty_eq_false_iff, ne_eq,
          Decidable.not_not, Bool.and_true, Bool.not_eq_true] at hcnd
        cases xs with
        | nil => rfl
        | cons _ _ => simp at hcnd
    obtain ⟨hrest1, hrest2⟩ := hrest
    obtain ⟨s2, f2, p2, hrun2, hdone2, hws, hnows⟩ := after_value st1 f1 _ hdone1 pm r1 p1 (fun _ => Or.inr trivial)
    have hcomp2 : xs ≠ [] → CoreEq s2 (st.pushed (nvVal o x)) ∧ FOK f2 := by
      intro hne
      cases hh : headWs r1 with
      | true => exact hws hh
      | false =>
        obtain ⟨e1, e2⟩ := hnows hh
        subst e1; subst e2
        cases hn : needSep x with
        | true => exact absurd (hrest2 hn hh) hne
        | false => exact hcomp1 hn
    obtain ⟨st3, f3, p3, hrun3, hc3, hf3⟩ := hE (skipWs r1) r s2 f2 p2 (acc ++ [nvVal o x]) i outer below (st.pushed (nvVal o x))
      hrest1 hdone2 hcomp2 pm (by rw [ppl, c5, tp]) pst hk' hi hv2
    refine ⟨st3, f3, p3, by rw [hrun1, hrun2, hrun3], hc3.trans' ?_, hf3⟩
    have e : acc ++ [nvVal o x] ++ nvElems o xs = acc ++ nvElems o (x :: xs) := by simp [nvElems]
    rw [e]
    exact pushed_coreV _ _ _ hv2 rfl rfl (by show (st.pushed (nvVal o x)).docs = tgt.docs; rw [pdc, c4])
      (by show (st.pushed (nvVal o x)).plus = tgt.plus; rw [ppl, c5])

theorem LM_nil : LM o [] := by
  intro t r st f p acc outer below tgt h hdone _ tm tp ts tk hv
  cases t with
  | nil => simp [layMembers] at h
  | cons b t' =>
    simp only [layMembers] at h
    split at h
    · rename_i hb; subst hb
      cases h
      obtain ⟨s2, f2, hc2, hf2, hstep⟩ := done_step st f _ hdone 125 (Or.inr (Or.inr rfl))
      obtain ⟨c1, c2, c3, c4, c5⟩ := hc2
      have hv2 : ValPos ({ s2 with starts := outer, stack := below } : St) := hv.congr rfl rfl
      have hh := fun l => step_closeObj s2 f2 l (by rw [c1, tm]) hf2 outer (by rw [c2, ts]) acc below (by rw [c3, tk]) hv2
      refine ⟨(({ s2 with starts := outer, stack := below } : St).pushed (.obj acc)), fS f2, p.next false, ?_, ?_, FOK_fS' f2⟩
      · exact runBytes_step s2 f2 hstep hh
      · simp only [nvMembers]
        exact pushed_coreV _ _ _ hv2 rfl rfl c4 c5
    · cases h

theorem LM_cons (k : Bytes) (v : JV) (kvs : List (Bytes × JV)) (hM : LM o kvs)
    (hV : omitted o v = false → LV o v ∧ ¬ C10.leadingSign k o.html) : LM o ((k, v) :: kvs) := by
  intro t r st f p acc outer below tgt h hdone hcomp tm tp ts tk hv
  cases hom : omitted o v with
  | true =>
    have e1 : layMembers o ((k, v) :: kvs) t = layMembers o kvs t := by simp [layMembers, hom]
    have e2 : nvMembers o ((k, v) :: kvs) acc = nvMembers o kvs acc := by simp [nvMembers, hom]
    have e3 : allOmitted o ((k, v) :: kvs) = allOmitted o kvs := by simp [allOmitted, hom]
    rw [e1] at h; rw [e2]; rw [e3] at hcomp
    exact hM t r st f p acc outer below tgt h hdone hcomp tm tp ts tk hv
  | false =>
    obtain ⟨hVv, hkey⟩ := hV hom
    obtain ⟨hc, hf⟩ := hcomp (by simp [allOmitted, hom])
    obtain ⟨a1, a2, a3, a4, a5⟩ := hc
    have e2 : nvMembers o ((k, v) :: kvs) acc = nvMembers o kvs (kvInsert (sanitize k) (nvVal o v) acc) := by
      simp [nvMembers, hom]
    rw [e2]
    simp only [layMembers, hom, Bool.false_eq_true, ↓reduceIte] at h
    cases hsp : stripPrefix (senString k o.html) t with
    | none => rw [hsp] at h; cases h
    | some r1 =>
      rw [hsp] at h
      simp only at h
      have ht := stripPrefix_some _ _ _ hsp
      cases r1 with
      | nil => cases h
      | cons c r2 =>
        simp only at h
        by_cases hc58 : c = 58
        · subst hc58
          simp only [↓reduceIte] at h
          cases hlv : layVal o v (skipWs r2) with
          | none => rw [hlv] at h; cases h
          | some r3 =>
            rw [hlv] at h
            simp only at h
            -- the member name and its colon
            obtain ⟨sB, fB, pB, hrunB, bm, bs, bk, bd, bp, hfB⟩ := key_run o.html k st f p r2 (by rw [a1, tm]) (by rw [a5, tp]) outer
              (by rw [a2, ts]) acc below (by rw [a3, tk]) hf hkey
            -- white space after the colon
            obtain ⟨fB2, pB2, hrunB2, hfB2⟩ := skipWs_run r2 sB fB pB bm hfB
            -- the value
            have hinB : Inner sB := Or.inr ⟨outer, sanitize k, acc, below, bs, bk⟩
            obtain ⟨sC, fC, pC, hrunC, hdoneC, hcompC⟩ := hVv (skipWs r2) r3 sB fB2 pB2 hlv bm bp hinB hfB2
            obtain ⟨qm, qs, qk, qd, qp⟩ := pushed_objVal sB (nvVal o v) outer (sanitize k) acc below bs bk
            have hvB : ValPos ({ sB.pushed (nvVal o v) with starts := outer, stack := below } : St) := hv.congr rfl rfl
            have hrest : layMembers o kvs (skipWs r3) = some r ∧ (needSep v = true → headWs r3 = false → allOmitted o kvs = true) := by
              by_cases hcnd : (needSep v && !headWs r3 && !allOmitted o kvs) = true
              · rw [if_pos hcnd] at h; cases h
              · rw [if_neg hcnd] at h
                refine ⟨h, fun h1 h2 => ?_⟩
                simp only [h1, h2, Bool.not_false, Bool.true_and, Bool.not_eq_true', Bool.and_true, Bool.not_eq_true,
                  Bool.not_eq_false'] at hcnd
                simpa using hcnd
            obtain ⟨hrest1, hrest2⟩ := hrest
            obtain ⟨sD, fD, pD, hrunD, hdoneD, hws, hnows⟩ := after_value sC fC _ hdoneC qm r3 pC (fun _ => Or.inr trivial)
            have hcompD : allOmitted o kvs = false → CoreEq sD (sB.pushed (nvVal o v)) ∧ FOK fD := by
              intro hne
              cases hh : headWs r3 with
              | true => exact hws hh
              | false =>
                obtain ⟨e1, e2⟩ := hnows hh
                subst e1; subst e2
                cases hn : needSep v with
                | true => rw [hrest2 hn hh] at hne; cases hne
                | false => exact hcompC hn
            obtain ⟨sE, fE, pE, hrunE, hcE, hfE⟩ := hM (skipWs r3) r sD fD pD (kvInsert (sanitize k) (nvVal o v) acc) outer below
              (sB.pushed (nvVal o v)) hrest1 hdoneD hcompD qm (by rw [qp, bp]) qs qk hvB
            refine ⟨sE, fE, pE, ?_, hcE.trans' ?_, hfE⟩
            · rw [ht, hrunB, hrunB2, hrunC, hrunD, hrunE]
            · exact pushed_coreV _ _ _ hvB rfl rfl (by show (sB.pushed (nvVal o v)).docs = tgt.docs; rw [qd, bd, a4])
                (by show (sB.pushed (nvVal o v)).plus = tgt.plus; rw [qp, bp, tp])
        · simp only [hc58, ↓reduceIte] at h
          cases h

theorem LV_arr (xs : List JV) (hE : LE o xs) : LV o (.arr xs) := by
  intro t r st f p h hm hp hin hf
  cases t with
  | nil => simp [layVal] at h
  | cons b t' =>
    simp only [layVal] at h
    split at h
    · rename_i hb; subst hb
      have hne : st.starts ≠ [] := by
        rcases hin with ⟨j, oo, h1⟩ | ⟨oo, k, kvs, r, h1, _⟩ <;> rw [h1] <;> simp
      have hh := fun l => step_openArr st f l hm hf.1 (Or.inl hne)
      let s1 : St := { st with mode := .value, starts := some st.stack.length :: st.starts, stack := .arrMark :: st.stack }
      have hv : ValPos ({ s1 with starts := st.starts, stack := st.stack } : St) := hin.valPos.congr rfl rfl
      obtain ⟨f2, p2, hrun2, hf2⟩ := skipWs_run t' s1 (fS f) (p.next false) rfl (FOK_fS' f)
      obtain ⟨st', f', p', hrun, hc, hf'⟩ := hE (skipWs t') r s1 f2 p2 [] st.stack.length st.starts st.stack s1 h
        ⟨hf2.1, Or.inl ⟨CoreEq.rfl' s1, hf2.2⟩⟩ (fun _ => ⟨CoreEq.rfl' s1, hf2⟩) rfl hp rfl (by simp [s1]) rfl hv
      have hcore : CoreEq st' (st.pushed (nvVal o (.arr xs))) := by
        refine hc.trans' ?_
        simp only [List.nil_append, nvVal]
        exact pushed_coreV _ _ _ hv rfl rfl rfl rfl
      refine ⟨st', f', p', ?_, ⟨hf'.1, Or.inl ⟨hcore, hf'.2⟩⟩, fun _ => ⟨hcore, hf'⟩⟩
      rw [runBytes_cons_ok {} hh, hrun2]
      exact hrun
    · cases h

theorem LV_obj (kvs : List (Bytes × JV)) (hM : LM o kvs) : LV o (.obj kvs) := by
  intro t r st f p h hm hp hin hf
  cases t with
  | nil => simp [layVal] at h
  | cons b t' =>
    simp only [layVal] at h
    split at h
    · rename_i hb; subst hb
      have hne : st.starts ≠ [] := by
        rcases hin with ⟨j, oo, h1⟩ | ⟨oo, k, kvs', r, h1, _⟩ <;> rw [h1] <;> simp
      have hh := fun l => step_openObj st f l hm hf.1 (Or.inl hne)
      let s1 : St := { st with mode := .value, starts := none :: st.starts, stack := .obj [] :: st.stack }
      have hv : ValPos ({ s1 with starts := st.starts, stack := st.stack } : St) := hin.valPos.congr rfl rfl
      obtain ⟨f2, p2, hrun2, hf2⟩ := skipWs_run t' s1 (fS f) (p.next false) rfl (FOK_fS' f)
      obtain ⟨st', f', p', hrun, hc, hf'⟩ := hM (skipWs t') r s1 f2 p2 [] st.starts st.stack s1 h
        ⟨hf2.1, Or.inl ⟨CoreEq.rfl' s1, hf2.2⟩⟩ (fun _ => ⟨CoreEq.rfl' s1, hf2⟩) rfl hp rfl rfl hv
      have hcore : CoreEq st' (st.pushed (nvVal o (.obj kvs))) := by
        refine hc.trans' ?_
        simp only [nvVal]
        exact pushed_coreV _ _ _ hv rfl rfl rfl rfl
      refine ⟨st', f', p', ?_, ⟨hf'.1, Or.inl ⟨hcore, hf'.2⟩⟩, fun _ => ⟨hcore, hf'⟩⟩
      rw [runBytes_cons_ok {} hh, hrun2]
      exact hrun
    · cases h

/-- a scalar is laid out as the tight writer writes it -/
theorem layVal_scalar (v : JV) (hs : needSep v = true) (t : Bytes) : layVal o v t = stripPrefix (tightVal o v) t := by
  cases v with
  | arr xs => simp [needSep] at hs
  | obj kvs => simp [needSep] at hs
  | bool b => cases b <;> simp [layVal, tightVal]
  | null => simp [layVal, tightVal]
  | int i => simp [layVal, tightVal]
  | flt x => simp [layVal, tightVal]
  | big x => simp [layVal, tightVal]
  | num x => simp [layVal, tightVal]
  | str s => simp [layVal, tightVal]

theorem LV_scalar (v : JV) (hadm : admVal o v) (hs : needSep v = true) : LV o v := by
  intro t r st f p h hm hp hin hf
  rw [layVal_scalar o v hs] at h
  have ht := stripPrefix_some _ _ _ h
  rw [ht]
  exact V_scalar o v hadm hs st f p r hm hp hin hf

/-- the three claims for layouts, by induction on the size of the tree -/
theorem claimsL_all : ∀ n : Nat,
    (∀ v, jsz v ≤ n → admVal o v → LV o v) ∧
    (∀ xs, jszE xs ≤ n → admElems o xs → LE o xs) ∧
    (∀ kvs, jszM kvs ≤ n → admMembers o kvs → LM o kvs) := by
  intro n
  induction n with
  | zero =>
    refine ⟨fun v hv => ?_, fun xs hx _ => ?_, fun kvs hk _ => ?_⟩
    · have := jsz_pos v; omega
    · cases xs with
      | nil => exact LE_nil o
      | cons x r => simp [jszE] at hx
    · cases kvs with
      | nil => exact LM_nil o
      | cons kv r => obtain ⟨k, v⟩ := kv; simp [jszM] at hk
  | succ n ih =>
    obtain ⟨ihV, ihE, ihM⟩ := ih
    refine ⟨fun v hv hadm => ?_, fun xs hx hadm => ?_, fun kvs hk hadm => ?_⟩
    · cases v with
      | arr xs => exact LV_arr o xs (ihE xs (by simp [jsz] at hv; omega) hadm)
      | obj kvs => exact LV_obj o kvs (ihM kvs (by simp [jsz] at hv; omega) hadm)
      | null => exact LV_scalar o _ hadm rfl
      | bool b => exact LV_scalar o _ hadm rfl
      | str s => exact LV_scalar o _ hadm rfl
      | int i => exact LV_scalar o _ hadm rfl
      | flt t => exact LV_scalar o _ hadm rfl
      | big t => exact absurd hadm (by simp [admVal])
      | num t => exact absurd hadm (by simp [admVal])
    · cases xs with
      | nil => exact LE_nil o
      | cons x r =>
        obtain ⟨hx1, hx2⟩ : admVal o x ∧ admElems o r := hadm
        have hsz : 1 + jsz x + jszE r ≤ n + 1 := hx
        exact LE_cons o x r (ihV x (by omega) hx1) (ihE r (by omega) hx2)
    · cases kvs with
      | nil => exact LM_nil o
      | cons kv r =>
        obtain ⟨k, v⟩ := kv
        obtain ⟨hk1, hk2⟩ : (omitted o v = true ∨ (¬ C10.leadingSign k o.html ∧ admVal o v)) ∧ admMembers o r := hadm
        have hsz : 1 + jsz v + jszM r ≤ n + 1 := hk
        refine LM_cons o k v r (ihM r (by omega) hk2) (fun hom => ?_)
        rcases hk1 with h | ⟨h1, h2⟩
        · rw [hom] at h; cases h
        · exact ⟨ihV v (by omega) h2, h1⟩

end claims

/-! ## whole documents -/

/-- **C10 for every white-space layout**: a text that is a layout (`isLayout`) of an array or object `v` of the class
`admVal` is read back by `sen.Parser.Parse` as the one document `nvVal o v` — whatever rule chose the white space -/
theorem C10_anylayout_partial (o : WOpts) (v : JV) (t : Bytes) (hc : (∃ xs, v = .arr xs) ∨ (∃ kvs, v = .obj kvs))
    (hadm : admVal o v) (hl : isLayout o v t = true) : C10.parsesTo t (nvVal o v) := by
  obtain ⟨hV, hE, hM⟩ := claimsL_all o (jsz v)
  have hlv : layVal o v t = some [] := by
    unfold isLayout at hl
    split at hl
    · rename_i h; exact h
    · cases hl
  have hf0 : FOK ({} : Fast) := ⟨rfl, rfl⟩
  rcases hc with ⟨xs, rfl⟩ | ⟨kvs, rfl⟩
  · cases t with
    | nil => simp [layVal] at hlv
    | cons b t' =>
      simp only [layVal] at hlv
      split at hlv
      · rename_i hb; subst hb
        apply C10.parsesTo_of_run _ _ 91 t' rfl (by decide)
        rw [runBytes_cons_ok {} C10.open_arr]
        let s1 : St := { mode := .value, starts := [some 0], stack := [.arrMark] }
        have hv0 : ValPos ({ s1 with starts := [], stack := [] } : St) := Or.inl ⟨rfl, rfl⟩
        obtain ⟨f2, p2, hrun2, hf2⟩ := skipWs_run t' s1 {} (({} : Pos).next false) rfl hf0
        obtain ⟨st', f', p', hrun, hcore, _⟩ := hE xs (by simp [jsz]) hadm (skipWs t') [] s1 f2 p2 [] 0 [] [] s1 hlv
          ⟨hf2.1, Or.inl ⟨CoreEq.rfl' s1, hf2.2⟩⟩ (fun _ => ⟨CoreEq.rfl' s1, hf2⟩) rfl rfl rfl rfl rfl hv0
        rw [hrun2, hrun]
        obtain ⟨c1, c2, c3, c4, c5⟩ := hcore
        exact ⟨st', f', p', rfl, by rw [c1]; rfl, by rw [c2]; rfl, by rw [c4]; simp [St.pushed, nvVal, s1]⟩
      · cases hlv
  · cases t with
    | nil => simp [layVal] at hlv
    | cons b t' =>
      simp only [layVal] at hlv
      split at hlv
      · rename_i hb; subst hb
        apply C10.parsesTo_of_run _ _ 123 t' rfl (by decide)
        rw [runBytes_cons_ok {} C10.open_obj]
        let s1 : St := { mode := .value, starts := [none], stack := [.obj []] }
        have hv1 : ValPos ({ s1 with starts := [], stack := [] } : St) := Or.inl ⟨rfl, rfl⟩
        obtain ⟨f2, p2, hrun2, hf2⟩ := skipWs_run t' s1 {} (({} : Pos).next false) rfl hf0
        obtain ⟨st', f', p', hrun, hcore, _⟩ := hM kvs (by simp [jsz]) hadm (skipWs t') [] s1 f2 p2 [] [] [] s1 hlv
          ⟨hf2.1, Or.inl ⟨CoreEq.rfl' s1, hf2.2⟩⟩ (fun _ => ⟨CoreEq.rfl' s1, hf2⟩) rfl rfl rfl rfl hv1
        rw [hrun2, hrun]
        obtain ⟨c1, c2, c3, c4, c5⟩ := hcore
        exact ⟨st', f', p', rfl, by rw [c1]; rfl, by rw [c2]; rfl, by rw [c4]; simp [St.pushed, nvVal, s1]⟩
      · cases hlv

/-- plain trees come back as themselves under every layout -/
theorem C10_anylayout_valid (o : WOpts) (v : JV) (t : Bytes) (hc : (∃ xs, v = .arr xs) ∨ (∃ kvs, v = .obj kvs))
    (hadm : admVal o v) (hplain : plainVal o v) (hl : isLayout o v t = true) : C10.parsesTo t v := by
  have h := C10_anylayout_partial o v t hc hadm hl
  rwa [nvVal_plain o v hplain] at h

/-- non-vacuity: three layouts `pretty.SEN` produces for `[1 {k: true n: [x y]} []]` (flat; one member per line
with aligned values; mixed), and the tight and the indented text of `sen.Writer` are layouts too -/
example : let v : JV := .arr [.int 1, .obj [([107], .bool true), ([110, 110], .arr [.str [120], .str [121]])], .arr []]
    isLayout {} v "[1 {k: true nn: [x y]} []]".toUTF8.toList = true ∧
    isLayout {} v "[\n  1\n  {\n    k:  true\n    nn: [x y]\n  }\n  []\n]".toUTF8.toList = true ∧
    isLayout {} v "[1 {k: true, nn: [\n x\r\n\ty]}[]]".toUTF8.toList = true ∧
    isLayout {} v (tightVal {} v) = true ∧ isLayout {} v (indentVal {} { indent := 3 } 0 v) = true ∧
    -- not layouts: a scalar glued to the next element, a missing member, another order
    isLayout {} v "[1{k: true nn: [x y]} []]".toUTF8.toList = false ∧
    isLayout {} v "[1 {k: true} []]".toUTF8.toList = false := by
  decide +kernel

example : C10.parsesTo "[1 {k: true, nn: [\n x\r\n\ty]}[]]".toUTF8.toList
    (nvVal {} (.arr [.int 1, .obj [([107], .bool true), ([110, 110], .arr [.str [120], .str [121]])], .arr []])) := by
  apply C10_anylayout_partial {} _ _ (Or.inl ⟨_, rfl⟩)
  · simp only [admVal, admElems, admMembers, omitted, C10.reservedWord, C10.leadingSign]
    decide +kernel
  · decide +kernel

end OjgVerif.Sen
