import OjgVerif.Props.C10Top
import OjgVerif.Sen.Layout
/-! # C10 for ANY white-space layout of the writer's tokens (pretty.SEN, and every other layout)

`C10_anylayout_partial`: whenever a text `t` is a layout of the array or object `v` in the sense of `Sen.isLayout`
(Sen/Layout.lean: the writer's tokens in order, any white space — blank, tab, newline, carriage return, comma — after
`[`, `{`, `:` and after every element or member, at least one between a scalar and what follows it), `sen.Parser.Parse`
of `t` is the one document `nvVal o v`, for every tree of the class `admVal` of `C10_tree_partial`.

The tight and the indented `sen.Writer` are such layouts (`tight_isLayout`, `indent_isLayout`, `senWrite_isLayout`: proved
for every tree of the class, so the relation is wide enough for both modelled writers; they also have their own direct
theorems);
`pretty.SEN` / `pretty.WriteSEN` choose white space by width, depth and alignment rules that are NOT modelled: the
correspondence run asks, for every text they wrote, whether it is a layout of the tree that was written (driver op
`laycheck` = `Sen.isLayout`), and this theorem turns each positive answer into "that text parses back to
`nvVal o v`". So for `pretty.SEN` the layout algorithm is replaced by a CHECKED relation per case, not by a model. -/
set_option linter.unusedSimpArgs false
set_option linter.unusedVariables false
set_option linter.unusedSectionVars false
namespace OjgVerif.Sen
open OjgVerif
open OjgVerif.Writer (sanitize)
open OjgVerif.Json (natOf fmtNat Parts render Lead)

/-! ## text facts -/

theorem stripPrefix_some : ∀ (pre t r : Bytes), stripPrefix pre t = some r → t = pre ++ r := by
  intro pre
  induction pre with
  | nil => intro t r h; simp [stripPrefix] at h; simp [h]
  | cons a p ih =>
    intro t r h
    cases t with
    | nil => simp [stripPrefix] at h
    | cons b t' =>
      simp only [stripPrefix] at h
      split at h
      · rename_i hab; subst hab
        rw [ih t' r h]; rfl
      · cases h

theorem skipWs_of_not_head (t : Bytes) (h : headWs t = false) : skipWs t = t := by
  cases t with
  | nil => rfl
  | cons b r => simp only [headWs] at h; simp [skipWs, h]

/-! ## white space in value mode, after a value that is done -/

theorem isWsB_cases (b : UInt8) (h : isWsB b = true) : b = 32 ∨ b = 9 ∨ b = 13 ∨ b = 44 ∨ b = 10 := by
  simp only [isWsB, Bool.or_eq_true, decide_eq_true_eq] at h
  rcases h with (((h | h) | h) | h) | h
  · exact Or.inl h
  · exact Or.inr (Or.inl h)
  · exact Or.inr (Or.inr (Or.inl h))
  · exact Or.inr (Or.inr (Or.inr (Or.inl h)))
  · exact Or.inr (Or.inr (Or.inr (Or.inr h)))

/-- a byte `valueMap` skips -/
theorem step_ws (st : St) (f : Fast) (b : UInt8) (l : Bool) (hm : st.mode = .value) (hf : f.nlSkipping = false)
    (hb : isWsB b = true) : step refTables {} st f b l = .ok (st, fS f, decide (b = 10)) := by
  rcases isWsB_cases b hb with rfl | rfl | rfl | rfl | rfl <;>
    simp [step, stepCore, stepAct, stepActP, nextFast, refTables, expected, isSep, isBlank, hm, hf, fS]

/-- **white space is skipped in value mode** -/
theorem skipWs_run (t : Bytes) : ∀ (st : St) (f : Fast) (p : Pos), st.mode = .value → FOK f →
    ∃ f' p', runBytes refTables {} st f p t = runBytes refTables {} st f' p' (skipWs t) ∧ FOK f' := by
  induction t with
  | nil => intro st f p _ hf; exact ⟨f, p, rfl, hf⟩
  | cons b r ih =>
    intro st f p hm hf
    by_cases hb : isWsB b = true
    · obtain ⟨f', p', h, hf'⟩ := ih st (fS f) (p.next (decide (b = 10))) hm (FOK_fS' f)
      refine ⟨f', p', ?_, hf'⟩
      rw [runBytes_cons_ok {} (fun l => step_ws st f b l hm hf.1 hb)]
      simp only [skipWs, hb, ↓reduceIte]
      exact h
    · refine ⟨f, p, ?_, hf⟩
      simp [skipWs, hb]

/-- a pending number is completed by any white-space byte -/
theorem step_numEnd_ws (st : St) (f : Fast) (b : UInt8) (l : Bool) (hm : NumMode st.mode) (hin : Inner st)
    (hb : isWsB b = true) (hf : f.nlSkipping = false) :
    step refTables {} st f b l = step refTables {} (st.pushed st.num.asNum.toJV) f b l := by
  rcases isWsB_cases b hb with rfl | rfl | rfl | rfl | rfl
  · exact step_numEnd st f 32 l hm hin (Or.inl rfl) hf
  · rcases hin with ⟨j, o, h1⟩ | ⟨o, k, kvs, r, h1, h2⟩
    · rcases hm with hm | hm | hm | hm <;>
        simp [step, stepCore, stepAct, stepActP, nextFast, refTables, expected, expectedNumEnd, expectedFin, isSep, isBlank,
          isDigit, isDigit19, isE, St.flushP, St.flushCloseP, St.add, St.addIgnore, St.pushed, deliver, hm, h1, hf,
          Functor.map, Except.map, Bind.bind, Except.bind, Pure.pure, Except.pure]
    · rcases hm with hm | hm | hm | hm <;>
        simp [step, stepCore, stepAct, stepActP, nextFast, refTables, expected, expectedNumEnd, expectedFin, isSep, isBlank,
          isDigit, isDigit19, isE, St.flushP, St.flushCloseP, St.add, St.addIgnore, St.setMember, topIsKey, St.pushed, deliver,
          hm, h1, h2, hf, Functor.map, Except.map, Bind.bind, Except.bind, Pure.pure, Except.pure]
  · rcases hin with ⟨j, o, h1⟩ | ⟨o, k, kvs, r, h1, h2⟩
    · rcases hm with hm | hm | hm | hm <;>
        simp [step, stepCore, stepAct, stepActP, nextFast, refTables, expected, expectedNumEnd, expectedFin, isSep, isBlank,
          isDigit, isDigit19, isE, St.flushP, St.flushCloseP, St.add, St.addIgnore, St.pushed, deliver, hm, h1, hf,
          Functor.map, Except.map, Bind.bind, Except.bind, Pure.pure, Except.pure]
    · rcases hm with hm | hm | hm | hm <;>
        simp [step, stepCore, stepAct, stepActP, nextFast, refTables, expected, expectedNumEnd, expectedFin, isSep, isBlank,
          isDigit, isDigit19, isE, St.flushP, St.flushCloseP, St.add, St.addIgnore, St.setMember, topIsKey, St.pushed, deliver,
          hm, h1, h2, hf, Functor.map, Except.map, Bind.bind, Except.bind, Pure.pure, Except.pure]
  · rcases hin with ⟨j, o, h1⟩ | ⟨o, k, kvs, r, h1, h2⟩
    · rcases hm with hm | hm | hm | hm <;>
        simp [step, stepCore, stepAct, stepActP, nextFast, refTables, expected, expectedNumEnd, expectedFin, isSep, isBlank,
          isDigit, isDigit19, isE, St.flushP, St.flushCloseP, St.add, St.addIgnore, St.pushed, deliver, hm, h1, hf,
          Functor.map, Except.map, Bind.bind, Except.bind, Pure.pure, Except.pure]
    · rcases hm with hm | hm | hm | hm <;>
        simp [step, stepCore, stepAct, stepActP, nextFast, refTables, expected, expectedNumEnd, expectedFin, isSep, isBlank,
          isDigit, isDigit19, isE, St.flushP, St.flushCloseP, St.add, St.addIgnore, St.setMember, topIsKey, St.pushed, deliver,
          hm, h1, h2, hf, Functor.map, Except.map, Bind.bind, Except.bind, Pure.pure, Except.pure]
  · exact step_numEnd_nl st f l hm hin hf

/-- at a white-space byte a value that is done behaves like the complete one -/
theorem done_step_ws (st : St) (f : Fast) (tgt : St) (h : DoneV st f tgt) (b : UInt8) (hb : isWsB b = true) :
    ∃ s2 f2, CoreEq s2 tgt ∧ f2.nlSkipping = false ∧ ∀ l, step refTables {} st f b l = step refTables {} s2 f2 b l := by
  obtain ⟨hf, ⟨h, _⟩ | ⟨hm, ht, hi, hin, hc⟩ | ⟨hm, hin, hc⟩⟩ := h
  · exact ⟨st, f, h, hf, fun _ => rfl⟩
  · have hfacts : expected .token b ≠ .tokenOk ∧ b ≠ 40 := by
      rcases isWsB_cases b hb with rfl | rfl | rfl | rfl | rfl <;> exact ⟨by decide +kernel, by decide⟩
    exact ⟨_, fT f, hc, rfl, fun l => step_tokenEnd st f b l hm hf hi ht hin hfacts.1 hfacts.2⟩
  · exact ⟨_, f, hc, hf, fun l => step_numEnd_ws st f b l hm hin hb hf⟩

/-- **white space after a value that is done**: the value is completed, the white space skipped -/
theorem done_ws (st : St) (f : Fast) (tgt : St) (h : DoneV st f tgt) (hm : tgt.mode = .value) (b : UInt8) (r : Bytes)
    (hb : isWsB b = true) (p : Pos) :
    ∃ s2 f2 p2, runBytes refTables {} st f p (b :: r) = runBytes refTables {} s2 f2 p2 (skipWs (b :: r)) ∧
      CoreEq s2 tgt ∧ FOK f2 := by
  obtain ⟨s2, f2, hc2, hf2, hstep⟩ := done_step_ws st f tgt h b hb
  have hm2 : s2.mode = .value := by rw [hc2.1, hm]
  obtain ⟨f3, p3, hrun, hf3⟩ := skipWs_run r s2 (fS f2) (p.next (decide (b = 10))) hm2 (FOK_fS' f2)
  refine ⟨s2, f3, p3, ?_, hc2, hf3⟩
  rw [runBytes_step s2 f2 hstep (fun l => step_ws s2 f2 b l hm2 hf2 hb)]
  simp only [skipWs, hb, ↓reduceIte]
  exact hrun

/-- what follows a value: white space (the value is completed, the state is complete), or nothing — then the state
stays as it is (complete after a container, possibly pending after a scalar) -/
theorem after_value (st : St) (f : Fast) (tgt : St) (h : DoneV st f tgt) (hm : tgt.mode = .value) (r : Bytes) (p : Pos)
    (hcomp : headWs r = false → (CoreEq st tgt ∧ FOK f) ∨ True) :
    ∃ s2 f2 p2, runBytes refTables {} st f p r = runBytes refTables {} s2 f2 p2 (skipWs r) ∧ DoneV s2 f2 tgt ∧
      (headWs r = true → CoreEq s2 tgt ∧ FOK f2) ∧ (headWs r = false → s2 = st ∧ f2 = f) := by
  cases r with
  | nil => exact ⟨st, f, p, rfl, h, fun h => by simp [headWs] at h, fun _ => ⟨rfl, rfl⟩⟩
  | cons b r' =>
    by_cases hb : isWsB b = true
    · obtain ⟨s2, f2, p2, hrun, hc, hf2⟩ := done_ws st f tgt h hm b r' hb p
      exact ⟨s2, f2, p2, hrun, ⟨hf2.1, Or.inl ⟨hc, hf2.2⟩⟩, fun _ => ⟨hc, hf2⟩, fun h => by simp [headWs, hb] at h⟩
    · refine ⟨st, f, p, ?_, h, fun h => by simp [headWs, hb] at h, fun _ => ⟨rfl, rfl⟩⟩
      simp [skipWs, hb]

/-! ## the three claims for a layout -/

def LV (o : WOpts) (v : JV) : Prop :=
  ∀ (t r : Bytes) (st : St) (f : Fast) (p : Pos), layVal o v t = some r → st.mode = .value → st.plus = false → Inner st →
    FOK f →
    ∃ st' f' p', runBytes refTables {} st f p t = runBytes refTables {} st' f' p' r ∧
      DoneV st' f' (st.pushed (nvVal o v)) ∧ (needSep v = false → CoreEq st' (st.pushed (nvVal o v)) ∧ FOK f')

def LE (o : WOpts) (xs : List JV) : Prop :=
  ∀ (t r : Bytes) (st : St) (f : Fast) (p : Pos) (acc : List JV) (i : Nat) (outer : List (Option Nat))
    (below : List Item) (tgt : St),
    layElems o xs t = some r → DoneV st f tgt → (xs ≠ [] → CoreEq st tgt ∧ FOK f) →
    tgt.mode = .value → tgt.plus = false → tgt.starts = some i :: outer →
    tgt.stack = (acc.reverse.map Item.val) ++ Item.arrMark :: below → i = below.length →
    ValPos ({ tgt with starts := outer, stack := below } : St) →
    ∃ st' f' p', runBytes refTables {} st f p t = runBytes refTables {} st' f' p' r ∧
      CoreEq st' (({ tgt with starts := outer, stack := below } : St).pushed (.arr (acc ++ nvElems o xs))) ∧ FOK f'

def LM (o : WOpts) (kvs : List (Bytes × JV)) : Prop :=
  ∀ (t r : Bytes) (st : St) (f : Fast) (p : Pos) (acc : List (Bytes × JV)) (outer : List (Option Nat))
    (below : List Item) (tgt : St),
    layMembers o kvs t = some r → DoneV st f tgt → (allOmitted o kvs = false → CoreEq st tgt ∧ FOK f) →
    tgt.mode = .value → tgt.plus = false → tgt.starts = none :: outer → tgt.stack = .obj acc :: below →
    ValPos ({ tgt with starts := outer, stack := below } : St) →
    ∃ st' f' p', runBytes refTables {} st f p t = runBytes refTables {} st' f' p' r ∧
      CoreEq st' (({ tgt with starts := outer, stack := below } : St).pushed (.obj (nvMembers o kvs acc))) ∧ FOK f'

section claims
variable (o : WOpts)

theorem LE_nil : LE o [] := by
  intro t r st f p acc i outer below tgt h hdone _ tm tp ts tk hi hv
  cases t with
  | nil => simp [layElems] at h
  | cons b t' =>
    simp only [layElems] at h
    split at h
    · rename_i hb; subst hb
      cases h
      obtain ⟨s2, f2, hc2, hf2, hstep⟩ := done_step st f _ hdone 93 (Or.inr (Or.inl rfl))
      obtain ⟨c1, c2, c3, c4, c5⟩ := hc2
      subst hi
      have hsp : splitStack s2.stack below.length = some (acc, .arrMark, below) := by
        rw [c3, tk]; exact splitStack_arr acc below
      have hv2 : ValPos ({ s2 with starts := outer, stack := below } : St) := hv.congr rfl rfl
      have hh := fun l => step_closeArr s2 f2 l (by rw [c1, tm]) hf2 below.length outer (by rw [c2, ts]) acc .arrMark below hsp hv2
      refine ⟨(({ s2 with starts := outer, stack := below } : St).pushed (.arr acc)), fS f2, p.next false, ?_, ?_, FOK_fS' f2⟩
      · exact runBytes_step s2 f2 hstep hh
      · simp only [nvElems, List.append_nil]
        exact pushed_coreV _ _ _ hv2 rfl rfl c4 c5
    · cases h

theorem LE_cons (x : JV) (xs : List JV) (hV : LV o x) (hE : LE o xs) : LE o (x :: xs) := by
  intro t r st f p acc i outer below tgt h hdone hcomp tm tp ts tk hi hv
  obtain ⟨hc, hf⟩ := hcomp (by simp)
  obtain ⟨c1, c2, c3, c4, c5⟩ := hc
  simp only [layElems] at h
  cases hlv : layVal o x t with
  | none => rw [hlv] at h; cases h
  | some r1 =>
    rw [hlv] at h
    simp only at h
    have hs2 : st.starts = some i :: outer := by rw [c2, ts]
    have hin : Inner st := Or.inl ⟨i, outer, hs2⟩
    obtain ⟨st1, f1, p1, hrun1, hdone1, hcomp1⟩ := hV t r1 st f p hlv (by rw [c1, tm]) (by rw [c5, tp]) hin hf
    obtain ⟨pm, pst, psk, pdc, ppl⟩ := pushed_arr st (nvVal o x) i outer hs2
    have hk' : (st.pushed (nvVal o x)).stack = ((acc ++ [nvVal o x]).reverse.map Item.val) ++ Item.arrMark :: below := by
      rw [psk, c3, tk]; simp
    have hv2 : ValPos ({ st.pushed (nvVal o x) with starts := outer, stack := below } : St) := hv.congr rfl rfl
    -- the condition of the layout and the rest of the elements
    have hrest : layElems o xs (skipWs r1) = some r ∧ (needSep x = true → headWs r1 = false → xs = []) := by
      by_cases hcnd : (needSep x && !headWs r1 && !xs.isEmpty) = true
      · rw [if_pos hcnd] at h; cases h
      · rw [if_neg hcnd] at h
        refine ⟨h, fun h1 h2 => ?_⟩
        simp only [h1, h2, Bool.not_false, Bool.true_and, Bool.not_eq_true', List.isEmpty_eq_false_iff, ne_eq,
          Decidable.not_not, Bool.and_true, Bool.not_eq_true] at hcnd
        cases xs with
        | nil => rfl
        | cons _ _ => simp at hcnd
    obtain ⟨hrest1, hrest2⟩ := hrest
    obtain ⟨s2, f2, p2, hrun2, hdone2, hws, hnows⟩ := after_value st1 f1 _ hdone1 pm r1 p1 (fun _ => Or.inr trivial)
    have hcomp2 : xs ≠ [] → CoreEq s2 (st.pushed (nvVal o x)) ∧ FOK f2 := by
      intro hne
      cases hh : headWs r1 with
      | true => exact hws hh
      | false =>
        obtain ⟨e1, e2⟩ := hnows hh
        subst e1; subst e2
        cases hn : needSep x with
        | true => exact absurd (hrest2 hn hh) hne
        | false => exact hcomp1 hn
    obtain ⟨st3, f3, p3, hrun3, hc3, hf3⟩ := hE (skipWs r1) r s2 f2 p2 (acc ++ [nvVal o x]) i outer below (st.pushed (nvVal o x))
      hrest1 hdone2 hcomp2 pm (by rw [ppl, c5, tp]) pst hk' hi hv2
    refine ⟨st3, f3, p3, by rw [hrun1, hrun2, hrun3], hc3.trans' ?_, hf3⟩
    have e : acc ++ [nvVal o x] ++ nvElems o xs = acc ++ nvElems o (x :: xs) := by simp [nvElems]
    rw [e]
    exact pushed_coreV _ _ _ hv2 rfl rfl (by show (st.pushed (nvVal o x)).docs = tgt.docs; rw [pdc, c4])
      (by show (st.pushed (nvVal o x)).plus = tgt.plus; rw [ppl, c5])

theorem LM_nil : LM o [] := by
  intro t r st f p acc outer below tgt h hdone _ tm tp ts tk hv
  cases t with
  | nil => simp [layMembers] at h
  | cons b t' =>
    simp only [layMembers] at h
    split at h
    · rename_i hb; subst hb
      cases h
      obtain ⟨s2, f2, hc2, hf2, hstep⟩ := done_step st f _ hdone 125 (Or.inr (Or.inr rfl))
      obtain ⟨c1, c2, c3, c4, c5⟩ := hc2
      have hv2 : ValPos ({ s2 with starts := outer, stack := below } : St) := hv.congr rfl rfl
      have hh := fun l => step_closeObj s2 f2 l (by rw [c1, tm]) hf2 outer (by rw [c2, ts]) acc below (by rw [c3, tk]) hv2
      refine ⟨(({ s2 with starts := outer, stack := below } : St).pushed (.obj acc)), fS f2, p.next false, ?_, ?_, FOK_fS' f2⟩
      · exact runBytes_step s2 f2 hstep hh
      · simp only [nvMembers]
        exact pushed_coreV _ _ _ hv2 rfl rfl c4 c5
    · cases h

theorem LM_cons (k : Bytes) (v : JV) (kvs : List (Bytes × JV)) (hM : LM o kvs)
    (hV : omitted o v = false → LV o v ∧ ¬ C10.leadingSign k o.html) : LM o ((k, v) :: kvs) := by
  intro t r st f p acc outer below tgt h hdone hcomp tm tp ts tk hv
  cases hom : omitted o v with
  | true =>
    have e1 : layMembers o ((k, v) :: kvs) t = layMembers o kvs t := by simp [layMembers, hom]
    have e2 : nvMembers o ((k, v) :: kvs) acc = nvMembers o kvs acc := by simp [nvMembers, hom]
    have e3 : allOmitted o ((k, v) :: kvs) = allOmitted o kvs := by simp [allOmitted, hom]
    rw [e1] at h; rw [e2]; rw [e3] at hcomp
    exact hM t r st f p acc outer below tgt h hdone hcomp tm tp ts tk hv
  | false =>
    obtain ⟨hVv, hkey⟩ := hV hom
    obtain ⟨hc, hf⟩ := hcomp (by simp [allOmitted, hom])
    obtain ⟨a1, a2, a3, a4, a5⟩ := hc
    have e2 : nvMembers o ((k, v) :: kvs) acc = nvMembers o kvs (kvInsert (sanitize k) (nvVal o v) acc) := by
      simp [nvMembers, hom]
    rw [e2]
    simp only [layMembers, hom, Bool.false_eq_true, ↓reduceIte] at h
    cases hsp : stripPrefix (senString k o.html) t with
    | none => rw [hsp] at h; cases h
    | some r1 =>
      rw [hsp] at h
      simp only at h
      have ht := stripPrefix_some _ _ _ hsp
      cases r1 with
      | nil => cases h
      | cons c r2 =>
        simp only at h
        by_cases hc58 : c = 58
        · subst hc58
          simp only [↓reduceIte] at h
          cases hlv : layVal o v (skipWs r2) with
          | none => rw [hlv] at h; cases h
          | some r3 =>
            rw [hlv] at h
            simp only at h
            -- the member name and its colon
            obtain ⟨sB, fB, pB, hrunB, bm, bs, bk, bd, bp, hfB⟩ := key_run o.html k st f p r2 (by rw [a1, tm]) (by rw [a5, tp]) outer
              (by rw [a2, ts]) acc below (by rw [a3, tk]) hf hkey
            -- white space after the colon
            obtain ⟨fB2, pB2, hrunB2, hfB2⟩ := skipWs_run r2 sB fB pB bm hfB
            -- the value
            have hinB : Inner sB := Or.inr ⟨outer, sanitize k, acc, below, bs, bk⟩
            obtain ⟨sC, fC, pC, hrunC, hdoneC, hcompC⟩ := hVv (skipWs r2) r3 sB fB2 pB2 hlv bm bp hinB hfB2
            obtain ⟨qm, qs, qk, qd, qp⟩ := pushed_objVal sB (nvVal o v) outer (sanitize k) acc below bs bk
            have hvB : ValPos ({ sB.pushed (nvVal o v) with starts := outer, stack := below } : St) := hv.congr rfl rfl
            have hrest : layMembers o kvs (skipWs r3) = some r ∧ (needSep v = true → headWs r3 = false → allOmitted o kvs = true) := by
              by_cases hcnd : (needSep v && !headWs r3 && !allOmitted o kvs) = true
              · rw [if_pos hcnd] at h; cases h
              · rw [if_neg hcnd] at h
                refine ⟨h, fun h1 h2 => ?_⟩
                simp only [h1, h2, Bool.not_false, Bool.true_and, Bool.not_eq_true', Bool.and_true, Bool.not_eq_true,
                  Bool.not_eq_false'] at hcnd
                simpa using hcnd
            obtain ⟨hrest1, hrest2⟩ := hrest
            obtain ⟨sD, fD, pD, hrunD, hdoneD, hws, hnows⟩ := after_value sC fC _ hdoneC qm r3 pC (fun _ => Or.inr trivial)
            have hcompD : allOmitted o kvs = false → CoreEq sD (sB.pushed (nvVal o v)) ∧ FOK fD := by
              intro hne
              cases hh : headWs r3 with
              | true => exact hws hh
              | false =>
                obtain ⟨e1, e2⟩ := hnows hh
                subst e1; subst e2
                cases hn : needSep v with
                | true => rw [hrest2 hn hh] at hne; cases hne
                | false => exact hcompC hn
            obtain ⟨sE, fE, pE, hrunE, hcE, hfE⟩ := hM (skipWs r3) r sD fD pD (kvInsert (sanitize k) (nvVal o v) acc) outer below
              (sB.pushed (nvVal o v)) hrest1 hdoneD hcompD qm (by rw [qp, bp]) qs qk hvB
            refine ⟨sE, fE, pE, ?_, hcE.trans' ?_, hfE⟩
            · rw [ht, hrunB, hrunB2, hrunC, hrunD, hrunE]
            · exact pushed_coreV _ _ _ hvB rfl rfl (by show (sB.pushed (nvVal o v)).docs = tgt.docs; rw [qd, bd, a4])
                (by show (sB.pushed (nvVal o v)).plus = tgt.plus; rw [qp, bp, tp])
        · simp only [hc58, ↓reduceIte] at h
          cases h

theorem LV_arr (xs : List JV) (hE : LE o xs) : LV o (.arr xs) := by
  intro t r st f p h hm hp hin hf
  cases t with
  | nil => simp [layVal] at h
  | cons b t' =>
    simp only [layVal] at h
    split at h
    · rename_i hb; subst hb
      have hne : st.starts ≠ [] := by
        rcases hin with ⟨j, oo, h1⟩ | ⟨oo, k, kvs, r, h1, _⟩ <;> rw [h1] <;> simp
      have hh := fun l => step_openArr st f l hm hf.1 (Or.inl hne)
      let s1 : St := { st with mode := .value, starts := some st.stack.length :: st.starts, stack := .arrMark :: st.stack }
      have hv : ValPos ({ s1 with starts := st.starts, stack := st.stack } : St) := hin.valPos.congr rfl rfl
      obtain ⟨f2, p2, hrun2, hf2⟩ := skipWs_run t' s1 (fS f) (p.next false) rfl (FOK_fS' f)
      obtain ⟨st', f', p', hrun, hc, hf'⟩ := hE (skipWs t') r s1 f2 p2 [] st.stack.length st.starts st.stack s1 h
        ⟨hf2.1, Or.inl ⟨CoreEq.rfl' s1, hf2.2⟩⟩ (fun _ => ⟨CoreEq.rfl' s1, hf2⟩) rfl hp rfl (by simp [s1]) rfl hv
      have hcore : CoreEq st' (st.pushed (nvVal o (.arr xs))) := by
        refine hc.trans' ?_
        simp only [List.nil_append, nvVal]
        exact pushed_coreV _ _ _ hv rfl rfl rfl rfl
      refine ⟨st', f', p', ?_, ⟨hf'.1, Or.inl ⟨hcore, hf'.2⟩⟩, fun _ => ⟨hcore, hf'⟩⟩
      rw [runBytes_cons_ok {} hh, hrun2]
      exact hrun
    · cases h

theorem LV_obj (kvs : List (Bytes × JV)) (hM : LM o kvs) : LV o (.obj kvs) := by
  intro t r st f p h hm hp hin hf
  cases t with
  | nil => simp [layVal] at h
  | cons b t' =>
    simp only [layVal] at h
    split at h
    · rename_i hb; subst hb
      have hne : st.starts ≠ [] := by
        rcases hin with ⟨j, oo, h1⟩ | ⟨oo, k, kvs', r, h1, _⟩ <;> rw [h1] <;> simp
      have hh := fun l => step_openObj st f l hm hf.1 (Or.inl hne)
      let s1 : St := { st with mode := .value, starts := none :: st.starts, stack := .obj [] :: st.stack }
      have hv : ValPos ({ s1 with starts := st.starts, stack := st.stack } : St) := hin.valPos.congr rfl rfl
      obtain ⟨f2, p2, hrun2, hf2⟩ := skipWs_run t' s1 (fS f) (p.next false) rfl (FOK_fS' f)
      obtain ⟨st', f', p', hrun, hc, hf'⟩ := hM (skipWs t') r s1 f2 p2 [] st.starts st.stack s1 h
        ⟨hf2.1, Or.inl ⟨CoreEq.rfl' s1, hf2.2⟩⟩ (fun _ => ⟨CoreEq.rfl' s1, hf2⟩) rfl hp rfl rfl hv
      have hcore : CoreEq st' (st.pushed (nvVal o (.obj kvs))) := by
        refine hc.trans' ?_
        simp only [nvVal]
        exact pushed_coreV _ _ _ hv rfl rfl rfl rfl
      refine ⟨st', f', p', ?_, ⟨hf'.1, Or.inl ⟨hcore, hf'.2⟩⟩, fun _ => ⟨hcore, hf'⟩⟩
      rw [runBytes_cons_ok {} hh, hrun2]
      exact hrun
    · cases h

/-- a scalar is laid out as the tight writer writes it -/
theorem layVal_scalar (v : JV) (hs : needSep v = true) (t : Bytes) : layVal o v t = stripPrefix (tightVal o v) t := by
  cases v with
  | arr xs => simp [needSep] at hs
  | obj kvs => simp [needSep] at hs
  | bool b => cases b <;> simp [layVal, tightVal]
  | null => simp [layVal, tightVal]
  | int i => simp [layVal, tightVal]
  | flt x => simp [layVal, tightVal]
  | big x => simp [layVal, tightVal]
  | num x => simp [layVal, tightVal]
  | str s => simp [layVal, tightVal]

theorem LV_scalar (v : JV) (hadm : admVal o v) (hs : needSep v = true) : LV o v := by
  intro t r st f p h hm hp hin hf
  rw [layVal_scalar o v hs] at h
  have ht := stripPrefix_some _ _ _ h
  rw [ht]
  exact V_scalar o v hadm hs st f p r hm hp hin hf

/-- the three claims for layouts, by induction on the size of the tree -/
theorem claimsL_all : ∀ n : Nat,
    (∀ v, jsz v ≤ n → admVal o v → LV o v) ∧
    (∀ xs, jszE xs ≤ n → admElems o xs → LE o xs) ∧
    (∀ kvs, jszM kvs ≤ n → admMembers o kvs → LM o kvs) := by
  intro n
  induction n with
  | zero =>
    refine ⟨fun v hv => ?_, fun xs hx _ => ?_, fun kvs hk _ => ?_⟩
    · have := jsz_pos v; omega
    · cases xs with
      | nil => exact LE_nil o
      | cons x r => simp [jszE] at hx
    · cases kvs with
      | nil => exact LM_nil o
      | cons kv r => obtain ⟨k, v⟩ := kv; simp [jszM] at hk
  | succ n ih =>
    obtain ⟨ihV, ihE, ihM⟩ := ih
    refine ⟨fun v hv hadm => ?_, fun xs hx hadm => ?_, fun kvs hk hadm => ?_⟩
    · cases v with
      | arr xs => exact LV_arr o xs (ihE xs (by simp [jsz] at hv; omega) hadm)
      | obj kvs => exact LV_obj o kvs (ihM kvs (by simp [jsz] at hv; omega) hadm)
      | null => exact LV_scalar o _ hadm rfl
      | bool b => exact LV_scalar o _ hadm rfl
      | str s => exact LV_scalar o _ hadm rfl
      | int i => exact LV_scalar o _ hadm rfl
      | flt t => exact LV_scalar o _ hadm rfl
      | big t => exact absurd hadm (by simp [admVal])
      | num t => exact absurd hadm (by simp [admVal])
    · cases xs with
      | nil => exact LE_nil o
      | cons x r =>
        obtain ⟨hx1, hx2⟩ : admVal o x ∧ admElems o r := hadm
        have hsz : 1 + jsz x + jszE r ≤ n + 1 := hx
        exact LE_cons o x r (ihV x (by omega) hx1) (ihE r (by omega) hx2)
    · cases kvs with
      | nil => exact LM_nil o
      | cons kv r =>
        obtain ⟨k, v⟩ := kv
        obtain ⟨hk1, hk2⟩ : (omitted o v = true ∨ (¬ C10.leadingSign k o.html ∧ admVal o v)) ∧ admMembers o r := hadm
        have hsz : 1 + jsz v + jszM r ≤ n + 1 := hk
        refine LM_cons o k v r (ihM r (by omega) hk2) (fun hom => ?_)
        rcases hk1 with h | ⟨h1, h2⟩
        · rw [hom] at h; cases h
        · exact ⟨ihV v (by omega) h2, h1⟩

end claims

/-! ## whole documents -/

/-- **C10 for every white-space layout**: a text that is a layout (`isLayout`) of an array or object `v` of the class
`admVal` is read back by `sen.Parser.Parse` as the one document `nvVal o v` — whatever rule chose the white space -/
theorem C10_anylayout_partial (o : WOpts) (v : JV) (t : Bytes) (hc : (∃ xs, v = .arr xs) ∨ (∃ kvs, v = .obj kvs))
    (hadm : admVal o v) (hl : isLayout o v t = true) : C10.parsesTo t (nvVal o v) := by
  obtain ⟨hV, hE, hM⟩ := claimsL_all o (jsz v)
  have hlv : layVal o v t = some [] := by
    unfold isLayout at hl
    split at hl
    · rename_i h; exact h
    · cases hl
  have hf0 : FOK ({} : Fast) := ⟨rfl, rfl⟩
  rcases hc with ⟨xs, rfl⟩ | ⟨kvs, rfl⟩
  · cases t with
    | nil => simp [layVal] at hlv
    | cons b t' =>
      simp only [layVal] at hlv
      split at hlv
      · rename_i hb; subst hb
        apply C10.parsesTo_of_run _ _ 91 t' rfl (by decide)
        rw [runBytes_cons_ok {} C10.open_arr]
        let s1 : St := { mode := .value, starts := [some 0], stack := [.arrMark] }
        have hv0 : ValPos ({ s1 with starts := [], stack := [] } : St) := Or.inl ⟨rfl, rfl⟩
        obtain ⟨f2, p2, hrun2, hf2⟩ := skipWs_run t' s1 {} (({} : Pos).next false) rfl hf0
        obtain ⟨st', f', p', hrun, hcore, _⟩ := hE xs (by simp [jsz]) hadm (skipWs t') [] s1 f2 p2 [] 0 [] [] s1 hlv
          ⟨hf2.1, Or.inl ⟨CoreEq.rfl' s1, hf2.2⟩⟩ (fun _ => ⟨CoreEq.rfl' s1, hf2⟩) rfl rfl rfl rfl rfl hv0
        rw [hrun2, hrun]
        obtain ⟨c1, c2, c3, c4, c5⟩ := hcore
        exact ⟨st', f', p', rfl, by rw [c1]; rfl, by rw [c2]; rfl, by rw [c4]; simp [St.pushed, nvVal, s1]⟩
      · cases hlv
  · cases t with
    | nil => simp [layVal] at hlv
    | cons b t' =>
      simp only [layVal] at hlv
      split at hlv
      · rename_i hb; subst hb
        apply C10.parsesTo_of_run _ _ 123 t' rfl (by decide)
        rw [runBytes_cons_ok {} C10.open_obj]
        let s1 : St := { mode := .value, starts := [none], stack := [.obj []] }
        have hv1 : ValPos ({ s1 with starts := [], stack := [] } : St) := Or.inl ⟨rfl, rfl⟩
        obtain ⟨f2, p2, hrun2, hf2⟩ := skipWs_run t' s1 {} (({} : Pos).next false) rfl hf0
        obtain ⟨st', f', p', hrun, hcore, _⟩ := hM kvs (by simp [jsz]) hadm (skipWs t') [] s1 f2 p2 [] [] [] s1 hlv
          ⟨hf2.1, Or.inl ⟨CoreEq.rfl' s1, hf2.2⟩⟩ (fun _ => ⟨CoreEq.rfl' s1, hf2⟩) rfl rfl rfl rfl hv1
        rw [hrun2, hrun]
        obtain ⟨c1, c2, c3, c4, c5⟩ := hcore
        exact ⟨st', f', p', rfl, by rw [c1]; rfl, by rw [c2]; rfl, by rw [c4]; simp [St.pushed, nvVal, s1]⟩
      · cases hlv

/-- plain trees come back as themselves under every layout -/
theorem C10_anylayout_valid (o : WOpts) (v : JV) (t : Bytes) (hc : (∃ xs, v = .arr xs) ∨ (∃ kvs, v = .obj kvs))
    (hadm : admVal o v) (hplain : plainVal o v) (hl : isLayout o v t = true) : C10.parsesTo t v := by
  have h := C10_anylayout_partial o v t hc hadm hl
  rwa [nvVal_plain o v hplain] at h

/-- non-vacuity: three layouts `pretty.SEN` produces for `[1 {k: true n: [x y]} []]` (flat; one member per line
with aligned values; mixed), and the tight and the indented text of `sen.Writer` are layouts too -/
example : let v : JV := .arr [.int 1, .obj [([107], .bool true), ([110, 110], .arr [.str [120], .str [121]])], .arr []]
    isLayout {} v "[1 {k: true nn: [x y]} []]".toUTF8.toList = true ∧
    isLayout {} v "[\n  1\n  {\n    k:  true\n    nn: [x y]\n  }\n  []\n]".toUTF8.toList = true ∧
    isLayout {} v "[1 {k: true, nn: [\n x\r\n\ty]}[]]".toUTF8.toList = true ∧
    isLayout {} v (tightVal {} v) = true ∧ isLayout {} v (indentVal {} { indent := 3 } 0 v) = true ∧
    -- not layouts: a scalar glued to the next element, a missing member, another order
    isLayout {} v "[1{k: true nn: [x y]} []]".toUTF8.toList = false ∧
    isLayout {} v "[1 {k: true} []]".toUTF8.toList = false := by
  decide +kernel

example : C10.parsesTo "[1 {k: true, nn: [\n x\r\n\ty]}[]]".toUTF8.toList
    (nvVal {} (.arr [.int 1, .obj [([107], .bool true), ([110, 110], .arr [.str [120], .str [121]])], .arr []])) := by
  apply C10_anylayout_partial {} _ _ (Or.inl ⟨_, rfl⟩)
  · simp only [admVal, admElems, admMembers, omitted, C10.reservedWord, C10.leadingSign]
    decide +kernel
  · decide +kernel

/-! ## the texts of the modelled writers are layouts -/

theorem stripPrefix_append : ∀ (p r : Bytes), stripPrefix p (p ++ r) = some r := by
  intro p
  induction p with
  | nil => intro r; cases r <;> rfl
  | cons a p ih => intro r; simp [stripPrefix, ih]

/-- the first byte is not white space -/
def HeadNW (t : Bytes) : Prop := ∃ b r, t = b :: r ∧ isWsB b = false

theorem HeadNW.append {t : Bytes} (h : HeadNW t) (r : Bytes) : HeadNW (t ++ r) := by
  obtain ⟨b, r', rfl, hb⟩ := h
  exact ⟨b, r' ++ r, rfl, hb⟩

theorem skipWs_headNW {t : Bytes} (h : HeadNW t) : skipWs t = t ∧ headWs t = false := by
  obtain ⟨b, r, rfl, hb⟩ := h
  simp [skipWs, headWs, hb]

theorem ws_class (b : UInt8) (h : isWsB b = true) : senClass b ≠ cO ∧ senClass b ≠ c8 ∧ senClass b ≠ cH := by
  rcases isWsB_cases b h with rfl | rfl | rfl | rfl | rfl <;> decide +kernel

/-- what `AppendSENString` writes never begins with white space -/
theorem senString_head (s : Bytes) (html : Bool) : HeadNW (senString s html) := by
  by_cases hq : s = [] ∨ senQuoted s html = true
  · rw [C10.quoted_form s html hq]
    exact ⟨34, _, rfl, by decide⟩
  · have hne : s ≠ [] := fun h => hq (Or.inl h)
    have hqf : senQuoted s html = false := by
      cases h : senQuoted s html with
      | false => rfl
      | true => exact absurd (Or.inr h) hq
    obtain ⟨hss, _, _, b, t, hbt, hc⟩ := C10.bare_facts s html hne hqf
    rw [hss, hbt]
    refine ⟨b, t, rfl, ?_⟩
    cases hw : isWsB b with
    | false => rfl
    | true =>
      obtain ⟨h1, h2, h3⟩ := ws_class b hw
      rcases hc with h | h | h
      · exact absurd h h1
      · exact absurd h h2
      · exact absurd h h3

theorem fmtInt_head (i : Int) : HeadNW (fmtInt i) := by
  obtain ⟨d, ds, he, hds, h0, h19⟩ := Writer.fmtNat_shape i.natAbs
  rw [fmtNat_eq] at he
  by_cases hneg : i < 0
  · exact ⟨45, d :: ds, by simp [fmtInt, hneg, he], by decide⟩
  · refine ⟨d, ds, by simp [fmtInt, hneg, he], ?_⟩
    by_cases hz : i.natAbs = 0
    · rw [(h0 hz).1]; decide
    · have := h19 (by omega)
      cases hw : isWsB d with
      | false => rfl
      | true => rcases isWsB_cases d hw with rfl | rfl | rfl | rfl | rfl <;> simp [Json.Spec.isDigit19] at this

theorem numAdm_head (t : Bytes) (h : NumAdm t) : HeadNW t := by
  obtain ⟨q, hw, hl, hb, rfl⟩ := h
  obtain ⟨s, ip, fo, eo⟩ := q
  simp only at hl
  cases s with
  | true => exact ⟨45, ip ++ (Json.fracTxt fo ++ Json.expTxt eo), by simp [render, Json.sgnTxt], by decide⟩
  | false =>
    rcases hl with rfl | ⟨d, ds, rfl, hd⟩
    · exact ⟨48, Json.fracTxt fo ++ Json.expTxt eo, by simp [render, Json.sgnTxt], by decide⟩
    · refine ⟨d, ds ++ (Json.fracTxt fo ++ Json.expTxt eo), by simp [render, Json.sgnTxt], ?_⟩
      cases hw : isWsB d with
      | false => rfl
      | true => rcases isWsB_cases d hw with rfl | rfl | rfl | rfl | rfl <;> simp [Json.Spec.isDigit19] at hd

/-- no value of the class begins with white space (tight text) -/
theorem tightVal_head (o : WOpts) (v : JV) (hadm : admVal o v) : HeadNW (tightVal o v) := by
  cases v with
  | null => exact ⟨110, _, rfl, by decide⟩
  | bool b => cases b <;> exact ⟨_, _, rfl, by decide⟩
  | int i => exact fmtInt_head i
  | flt t => exact numAdm_head t hadm
  | big t => exact absurd hadm (by simp [admVal])
  | num t => exact absurd hadm (by simp [admVal])
  | str s => exact senString_head s o.html
  | arr xs => exact ⟨91, tightElems o xs, by simp [tightVal], by decide⟩
  | obj kvs => exact ⟨123, tightMembers o kvs true, by simp [tightVal], by decide⟩

theorem tightElems_head (o : WOpts) (xs : List JV) (hadm : admElems o xs) : HeadNW (tightElems o xs) := by
  cases xs with
  | nil => exact ⟨93, [], by simp [tightElems], by decide⟩
  | cons x r =>
    obtain ⟨h1, _⟩ : admVal o x ∧ admElems o r := hadm
    cases r with
    | nil => simpa [tightElems] using (tightVal_head o x h1).append [93]
    | cons y r' =>
      have : tightElems o (x :: y :: r') = tightVal o x ++ ((if needSep x then [32] else []) ++ tightElems o (y :: r')) := by
        simp [tightElems]
      rw [this]
      exact (tightVal_head o x h1).append _

/-- the members that follow a written member begin with a blank -/
theorem tightMembers_follow (o : WOpts) : ∀ (kvs : List (Bytes × JV)), allOmitted o kvs = false →
    ∃ T, tightMembers o kvs false = 32 :: T := by
  intro kvs
  induction kvs with
  | nil => intro h; simp [allOmitted] at h
  | cons kv r ih =>
    obtain ⟨k, v⟩ := kv
    intro h
    cases hom : omitted o v with
    | true =>
      simp only [allOmitted, hom, Bool.true_and] at h
      obtain ⟨T, hT⟩ := ih h
      exact ⟨T, by simp [tightMembers, hom, hT]⟩
    | false => exact ⟨senString k o.html ++ 58 :: (tightVal o v ++ tightMembers o r false), by simp [tightMembers, hom]⟩

theorem tightMembers_allOmitted (o : WOpts) : ∀ (kvs : List (Bytes × JV)) (first : Bool), allOmitted o kvs = true →
    tightMembers o kvs first = [125] := by
  intro kvs
  induction kvs with
  | nil => intro first _; simp [tightMembers]
  | cons kv r ih =>
    obtain ⟨k, v⟩ := kv
    intro first h
    simp only [allOmitted, Bool.and_eq_true] at h
    simp [tightMembers, h.1, ih first h.2]

def TV (o : WOpts) (v : JV) : Prop := ∀ rest, layVal o v (tightVal o v ++ rest) = some rest
def TE (o : WOpts) (xs : List JV) : Prop := ∀ rest, layElems o xs (tightElems o xs ++ rest) = some rest
def TM (o : WOpts) (kvs : List (Bytes × JV)) : Prop :=
  ∀ first rest, layMembers o kvs (skipWs (tightMembers o kvs first ++ rest)) = some rest

section tight
variable (o : WOpts)

theorem TV_scalar (v : JV) (hs : needSep v = true) : TV o v := by
  intro rest
  rw [layVal_scalar o v hs, stripPrefix_append]

theorem TE_nil : TE o [] := by
  intro rest
  simp [tightElems, layElems]

theorem TE_cons (x : JV) (r : List JV) (hx : admVal o x) (hr : admElems o r) (hV : TV o x) (hE : TE o r) : TE o (x :: r) := by
  intro rest
  cases r with
  | nil =>
    have e : tightElems o [x] ++ rest = tightVal o x ++ (93 :: rest) := by simp [tightElems]
    rw [e]
    simp only [layElems, hV (93 :: rest), List.isEmpty_nil, Bool.not_true, Bool.and_false, Bool.false_eq_true, ↓reduceIte]
    simp [skipWs, isWsB]
  | cons y r' =>
    have e : tightElems o (x :: y :: r') ++ rest =
        tightVal o x ++ ((if needSep x then [32] else []) ++ (tightElems o (y :: r') ++ rest)) := by
      simp [tightElems, List.append_assoc]
    have hh := (tightElems_head o (y :: r') hr).append rest
    obtain ⟨hsk, hhw⟩ := skipWs_headNW hh
    rw [e, layElems, hV]
    simp only
    cases hn : needSep x with
    | true =>
      have h1 : headWs ([32] ++ (tightElems o (y :: r') ++ rest)) = true := rfl
      have h2 : skipWs ([32] ++ (tightElems o (y :: r') ++ rest)) = skipWs (tightElems o (y :: r') ++ rest) := by
        simp [skipWs, isWsB]
      simp only [↓reduceIte, h1, h2, hsk, Bool.not_true, Bool.and_false, Bool.false_and, Bool.false_eq_true]
      exact hE rest
    | false =>
      simp only [Bool.false_eq_true, ↓reduceIte, List.nil_append, Bool.false_and, hsk]
      exact hE rest

theorem TM_nil : TM o [] := by
  intro first rest
  simp [tightMembers, layMembers, skipWs, isWsB]

theorem TM_cons (k : Bytes) (v : JV) (r : List (Bytes × JV)) (hv : omitted o v = false → admVal o v ∧ TV o v)
    (hM : TM o r) : TM o ((k, v) :: r) := by
  intro first rest
  cases hom : omitted o v with
  | true =>
    have e1 : tightMembers o ((k, v) :: r) first = tightMembers o r first := by simp [tightMembers, hom]
    rw [e1]
    simp only [layMembers, hom, ↓reduceIte]
    exact hM first rest
  | false =>
    obtain ⟨hadm, hV⟩ := hv hom
    have e1 : tightMembers o ((k, v) :: r) first ++ rest =
        (if first then [] else [32]) ++ (senString k o.html ++ 58 :: (tightVal o v ++ (tightMembers o r false ++ rest))) := by
      simp [tightMembers, hom, List.append_assoc]
    have hk := (senString_head k o.html).append (58 :: (tightVal o v ++ (tightMembers o r false ++ rest)))
    obtain ⟨hsk, _⟩ := skipWs_headNW hk
    have e2 : skipWs (tightMembers o ((k, v) :: r) first ++ rest) =
        senString k o.html ++ 58 :: (tightVal o v ++ (tightMembers o r false ++ rest)) := by
      rw [e1]
      cases first with
      | true => simpa using hsk
      | false => simp only [Bool.false_eq_true, ↓reduceIte, List.cons_append, List.nil_append, skipWs, isWsB,
                   decide_true, Bool.true_or, Bool.or_true]; exact hsk
    rw [e2]
    simp only [layMembers, hom, Bool.false_eq_true, ↓reduceIte, stripPrefix_append]
    have hvh := (tightVal_head o v hadm).append (tightMembers o r false ++ rest)
    rw [(skipWs_headNW hvh).1, hV]
    simp only
    -- what follows the value
    cases hall : allOmitted o r with
    | true =>
      simp only [Bool.not_true, Bool.and_false, Bool.false_eq_true, ↓reduceIte]
      exact hM false rest
    | false =>
      obtain ⟨T, hT⟩ := tightMembers_follow o r hall
      have : headWs (tightMembers o r false ++ rest) = true := by rw [hT]; simp [headWs, isWsB]
      simp only [this, Bool.not_true, Bool.and_false, Bool.false_and, Bool.false_eq_true, ↓reduceIte]
      exact hM false rest

theorem TV_arr (xs : List JV) (hadm : admElems o xs) (hE : TE o xs) : TV o (.arr xs) := by
  intro rest
  have hh := (tightElems_head o xs hadm).append rest
  have e : tightVal o (.arr xs) ++ rest = 91 :: (tightElems o xs ++ rest) := by simp [tightVal]
  rw [e]
  simp only [layVal, ↓reduceIte, (skipWs_headNW hh).1]
  exact hE rest

theorem TV_obj (kvs : List (Bytes × JV)) (hM : TM o kvs) : TV o (.obj kvs) := by
  intro rest
  have e : tightVal o (.obj kvs) ++ rest = 123 :: (tightMembers o kvs true ++ rest) := by simp [tightVal]
  rw [e]
  simp only [layVal, ↓reduceIte]
  exact hM true rest

theorem claimsT_all : ∀ n : Nat,
    (∀ v, jsz v ≤ n → admVal o v → TV o v) ∧
    (∀ xs, jszE xs ≤ n → admElems o xs → TE o xs) ∧
    (∀ kvs, jszM kvs ≤ n → admMembers o kvs → TM o kvs) := by
  intro n
  induction n with
  | zero =>
    refine ⟨fun v hv => ?_, fun xs hx _ => ?_, fun kvs hk _ => ?_⟩
    · have := jsz_pos v; omega
    · cases xs with
      | nil => exact TE_nil o
      | cons x r => simp [jszE] at hx
    · cases kvs with
      | nil => exact TM_nil o
      | cons kv r => obtain ⟨k, v⟩ := kv; simp [jszM] at hk
  | succ n ih =>
    obtain ⟨ihV, ihE, ihM⟩ := ih
    refine ⟨fun v hv hadm => ?_, fun xs hx hadm => ?_, fun kvs hk hadm => ?_⟩
    · cases v with
      | arr xs => exact TV_arr o xs hadm (ihE xs (by simp [jsz] at hv; omega) hadm)
      | obj kvs => exact TV_obj o kvs (ihM kvs (by simp [jsz] at hv; omega) hadm)
      | null => exact TV_scalar o _ rfl
      | bool b => exact TV_scalar o _ rfl
      | str s => exact TV_scalar o _ rfl
      | int i => exact TV_scalar o _ rfl
      | flt t => exact TV_scalar o _ rfl
      | big t => exact TV_scalar o _ rfl
      | num t => exact TV_scalar o _ rfl
    · cases xs with
      | nil => exact TE_nil o
      | cons x r =>
        obtain ⟨hx1, hx2⟩ : admVal o x ∧ admElems o r := hadm
        have hsz : 1 + jsz x + jszE r ≤ n + 1 := hx
        exact TE_cons o x r hx1 hx2 (ihV x (by omega) hx1) (ihE r (by omega) hx2)
    · cases kvs with
      | nil => exact TM_nil o
      | cons kv r =>
        obtain ⟨k, v⟩ := kv
        obtain ⟨hk1, hk2⟩ : (omitted o v = true ∨ (¬ C10.leadingSign k o.html ∧ admVal o v)) ∧ admMembers o r := hadm
        have hsz : 1 + jsz v + jszM r ≤ n + 1 := hk
        refine TM_cons o k v r (fun hom => ?_) (ihM r (by omega) hk2)
        rcases hk1 with h | ⟨_, h2⟩
        · rw [hom] at h; cases h
        · exact ⟨h2, ihV v (by omega) h2⟩

end tight

/-- **the tight writer's text is a layout of the tree** -/
theorem tight_isLayout (o : WOpts) (v : JV) (hadm : admVal o v) : isLayout o v (tightVal o v) = true := by
  have h := (claimsT_all o (jsz v)).1 v (Nat.le_refl _) hadm []
  rw [List.append_nil] at h
  simp [isLayout, h]

/-! ### the indented writer -/

theorem skipWs_sep (io : IOpts) (d : Nat) (T : Bytes) :
    skipWs (indentSep io d ++ T) = skipWs T ∧ headWs (indentSep io d ++ T) = true := by
  obtain ⟨t, hs, ht⟩ := indentSep_shape io d
  rw [hs]
  refine ⟨?_, by simp [headWs, isWsB]⟩
  have : ∀ (t : Bytes), (∀ x ∈ t, x = 32 ∨ x = 9) → skipWs (t ++ T) = skipWs T := by
    intro t
    induction t with
    | nil => intro _; rfl
    | cons b r ih =>
      intro h
      have hb : isWsB b = true := by rcases h b List.mem_cons_self with rfl | rfl <;> decide
      simp only [List.cons_append, skipWs, hb, ↓reduceIte]
      exact ih (fun x hx => h x (List.mem_cons_of_mem _ hx))
  simp only [List.cons_append, skipWs, isWsB, decide_true, Bool.or_true, ↓reduceIte]
  exact this t ht

theorem indentVal_head (o : WOpts) (io : IOpts) (d : Nat) (v : JV) (hadm : admVal o v) : HeadNW (indentVal o io d v) := by
  cases v with
  | arr xs =>
    cases xs with
    | nil => exact ⟨91, [93], by simp [indentVal], by decide⟩
    | cons x r => exact ⟨91, indentElems o io d (x :: r), by simp [indentVal], by decide⟩
  | obj kvs => exact ⟨123, indentMembers o io d kvs, by simp [indentVal], by decide⟩
  | null => rw [indentVal_scalar o io d _ rfl]; exact tightVal_head o _ hadm
  | bool b => rw [indentVal_scalar o io d _ rfl]; exact tightVal_head o _ hadm
  | int i => rw [indentVal_scalar o io d _ rfl]; exact tightVal_head o _ hadm
  | flt t => rw [indentVal_scalar o io d _ rfl]; exact tightVal_head o _ hadm
  | big t => rw [indentVal_scalar o io d _ rfl]; exact tightVal_head o _ hadm
  | num t => rw [indentVal_scalar o io d _ rfl]; exact tightVal_head o _ hadm
  | str s => rw [indentVal_scalar o io d _ rfl]; exact tightVal_head o _ hadm

theorem indentElems_ws (o : WOpts) (io : IOpts) (d : Nat) (xs : List JV) (T : Bytes) :
    headWs (indentElems o io d xs ++ T) = true := by
  cases xs with
  | nil => simpa [indentElems, List.append_assoc] using (skipWs_sep io d (93 :: T)).2
  | cons x r => simpa [indentElems, List.append_assoc] using (skipWs_sep io (d + 1) _).2

theorem indentMembers_ws (o : WOpts) (io : IOpts) (d : Nat) : ∀ (kvs : List (Bytes × JV)) (T : Bytes),
    headWs (indentMembers o io d kvs ++ T) = true := by
  intro kvs
  induction kvs with
  | nil => intro T; simpa [indentMembers, List.append_assoc] using (skipWs_sep io d (125 :: T)).2
  | cons kv r ih =>
    obtain ⟨k, v⟩ := kv
    intro T
    cases hom : omitted o v with
    | true => simpa [indentMembers, hom] using ih T
    | false => simpa [indentMembers, hom, List.append_assoc] using (skipWs_sep io (d + 1) _).2

def IV (o : WOpts) (io : IOpts) (v : JV) : Prop := ∀ d rest, layVal o v (indentVal o io d v ++ rest) = some rest
def IE (o : WOpts) (io : IOpts) (xs : List JV) : Prop :=
  ∀ d rest, layElems o xs (skipWs (indentElems o io d xs ++ rest)) = some rest
def IM (o : WOpts) (io : IOpts) (kvs : List (Bytes × JV)) : Prop :=
  ∀ d rest, layMembers o kvs (skipWs (indentMembers o io d kvs ++ rest)) = some rest

section indented
variable (o : WOpts) (io : IOpts)

theorem IV_scalar (v : JV) (hs : needSep v = true) : IV o io v := by
  intro d rest
  rw [indentVal_scalar o io d v hs, layVal_scalar o v hs, stripPrefix_append]

theorem IE_nil : IE o io [] := by
  intro d rest
  have e : indentElems o io d [] ++ rest = indentSep io d ++ (93 :: rest) := by simp [indentElems]
  rw [e, (skipWs_sep io d _).1]
  simp [skipWs, isWsB, layElems]

theorem IE_cons (x : JV) (r : List JV) (hx : admVal o x) (hV : IV o io x) (hE : IE o io r) : IE o io (x :: r) := by
  intro d rest
  have e : indentElems o io d (x :: r) ++ rest =
      indentSep io (d + 1) ++ (indentVal o io (d + 1) x ++ (indentElems o io d r ++ rest)) := by
    simp [indentElems, List.append_assoc]
  have hh := (indentVal_head o io (d + 1) x hx).append (indentElems o io d r ++ rest)
  rw [e, (skipWs_sep io (d + 1) _).1, (skipWs_headNW hh).1, layElems, hV]
  simp only [indentElems_ws, Bool.not_true, Bool.and_false, Bool.false_and, Bool.false_eq_true, ↓reduceIte]
  exact hE d rest

theorem IM_nil : IM o io [] := by
  intro d rest
  have e : indentMembers o io d [] ++ rest = indentSep io d ++ (125 :: rest) := by simp [indentMembers]
  rw [e, (skipWs_sep io d _).1]
  simp [skipWs, isWsB, layMembers]

theorem IM_cons (k : Bytes) (v : JV) (r : List (Bytes × JV)) (hv : omitted o v = false → admVal o v ∧ IV o io v)
    (hM : IM o io r) : IM o io ((k, v) :: r) := by
  intro d rest
  cases hom : omitted o v with
  | true =>
    have e1 : indentMembers o io d ((k, v) :: r) = indentMembers o io d r := by simp [indentMembers, hom]
    rw [e1]
    simp only [layMembers, hom, ↓reduceIte]
    exact hM d rest
  | false =>
    obtain ⟨hadm, hV⟩ := hv hom
    have e1 : indentMembers o io d ((k, v) :: r) ++ rest =
        indentSep io (d + 1) ++ (senString k o.html ++ 58 :: (32 :: (indentVal o io (d + 1) v ++ (indentMembers o io d r ++ rest)))) := by
      simp [indentMembers, hom, List.append_assoc]
    have hk := (senString_head k o.html).append (58 :: (32 :: (indentVal o io (d + 1) v ++ (indentMembers o io d r ++ rest))))
    have hvh := (indentVal_head o io (d + 1) v hadm).append (indentMembers o io d r ++ rest)
    have h32 : skipWs (32 :: (indentVal o io (d + 1) v ++ (indentMembers o io d r ++ rest))) =
        indentVal o io (d + 1) v ++ (indentMembers o io d r ++ rest) := by
      simp only [skipWs, isWsB, decide_true, Bool.true_or, Bool.or_true, ↓reduceIte]
      exact (skipWs_headNW hvh).1
    rw [e1, (skipWs_sep io (d + 1) _).1, (skipWs_headNW hk).1]
    simp only [layMembers, hom, Bool.false_eq_true, ↓reduceIte, stripPrefix_append, h32]
    rw [hV]
    simp only [indentMembers_ws, Bool.not_true, Bool.and_false, Bool.false_and, Bool.false_eq_true, ↓reduceIte]
    exact hM d rest

theorem IV_arr (xs : List JV) (hE : IE o io xs) : IV o io (.arr xs) := by
  intro d rest
  cases xs with
  | nil => simp [indentVal, layVal, layElems, skipWs, isWsB]
  | cons x r =>
    have e : indentVal o io d (.arr (x :: r)) ++ rest = 91 :: (indentElems o io d (x :: r) ++ rest) := by simp [indentVal]
    rw [e]
    simp only [layVal, ↓reduceIte]
    exact hE d rest

theorem IV_obj (kvs : List (Bytes × JV)) (hM : IM o io kvs) : IV o io (.obj kvs) := by
  intro d rest
  have e : indentVal o io d (.obj kvs) ++ rest = 123 :: (indentMembers o io d kvs ++ rest) := by simp [indentVal]
  rw [e]
  simp only [layVal, ↓reduceIte]
  exact hM d rest

theorem claimsIL_all : ∀ n : Nat,
    (∀ v, jsz v ≤ n → admVal o v → IV o io v) ∧
    (∀ xs, jszE xs ≤ n → admElems o xs → IE o io xs) ∧
    (∀ kvs, jszM kvs ≤ n → admMembers o kvs → IM o io kvs) := by
  intro n
  induction n with
  | zero =>
    refine ⟨fun v hv => ?_, fun xs hx _ => ?_, fun kvs hk _ => ?_⟩
    · have := jsz_pos v; omega
    · cases xs with
      | nil => exact IE_nil o io
      | cons x r => simp [jszE] at hx
    · cases kvs with
      | nil => exact IM_nil o io
      | cons kv r => obtain ⟨k, v⟩ := kv; simp [jszM] at hk
  | succ n ih =>
    obtain ⟨ihV, ihE, ihM⟩ := ih
    refine ⟨fun v hv hadm => ?_, fun xs hx hadm => ?_, fun kvs hk hadm => ?_⟩
    · cases v with
      | arr xs => exact IV_arr o io xs (ihE xs (by simp [jsz] at hv; omega) hadm)
      | obj kvs => exact IV_obj o io kvs (ihM kvs (by simp [jsz] at hv; omega) hadm)
      | null => exact IV_scalar o io _ rfl
      | bool b => exact IV_scalar o io _ rfl
      | str s => exact IV_scalar o io _ rfl
      | int i => exact IV_scalar o io _ rfl
      | flt t => exact IV_scalar o io _ rfl
      | big t => exact IV_scalar o io _ rfl
      | num t => exact IV_scalar o io _ rfl
    · cases xs with
      | nil => exact IE_nil o io
      | cons x r =>
        obtain ⟨hx1, hx2⟩ : admVal o x ∧ admElems o r := hadm
        have hsz : 1 + jsz x + jszE r ≤ n + 1 := hx
        exact IE_cons o io x r hx1 (ihV x (by omega) hx1) (ihE r (by omega) hx2)
    · cases kvs with
      | nil => exact IM_nil o io
      | cons kv r =>
        obtain ⟨k, v⟩ := kv
        obtain ⟨hk1, hk2⟩ : (omitted o v = true ∨ (¬ C10.leadingSign k o.html ∧ admVal o v)) ∧ admMembers o r := hadm
        have hsz : 1 + jsz v + jszM r ≤ n + 1 := hk
        refine IM_cons o io k v r (fun hom => ?_) (ihM r (by omega) hk2)
        rcases hk1 with h | ⟨_, h2⟩
        · rw [hom] at h; cases h
        · exact ⟨h2, ihV v (by omega) h2⟩

end indented

/-- **the indented writer's text is a layout of the tree** -/
theorem indent_isLayout (o : WOpts) (io : IOpts) (d : Nat) (v : JV) (hadm : admVal o v) :
    isLayout o v (indentVal o io d v) = true := by
  have h := (claimsIL_all o io (jsz v)).1 v (Nat.le_refl _) hadm d []
  rw [List.append_nil] at h
  simp [isLayout, h]

/-- **every text of `sen.Writer` is a layout of the tree written** (so `C10_layout_partial` is also an instance of
`C10_anylayout_partial`, and the relation `isLayout` is wide enough for both modelled writers) -/
theorem senWrite_isLayout (o : WOpts) (io : IOpts) (v : JV) (hadm : admVal o v) : isLayout o v (senWrite o io v) = true := by
  unfold senWrite
  split
  · exact indent_isLayout o io 0 v hadm
  · exact tight_isLayout o v hadm

/-- a layout of a scalar is the scalar's text itself: with `C10_top_partial` the any-layout theorem also covers a scalar
as the whole document (pretty.SEN of a scalar) -/
theorem C10_anylayout_top (o : WOpts) (v : JV) (t : Bytes) (hs : needSep v = true) (hadm : admVal o v)
    (hef : ∀ s, v = .str s → ¬ topLevelEF s o.html) (hl : isLayout o v t = true) : C10.parsesTo t (nvVal o v) := by
  have hlv : layVal o v t = some [] := by
    unfold isLayout at hl
    split at hl
    · rename_i h; exact h
    · cases hl
  rw [layVal_scalar o v hs] at hlv
  have ht := stripPrefix_some _ _ _ hlv
  rw [List.append_nil] at ht
  have h := C10_top_partial o {} v hs hadm hef
  have e : senWrite o {} v = tightVal o v := by simp [senWrite, usesIndented]
  rw [e] at h
  rw [ht]; exact h

end OjgVerif.Sen
