import OjgVerif.Props.C01
import OjgVerif.Json.FastSlow
/-! # C02 for the parsers (oj.Parse, gen.Parser: pinned integer fast loop on)

`Props/C02Tree.lean` and `Props/C02Value.lean` state C02 for the byte-at-a-time machine. The parsers
run the same machine with the integer fast loop switched on. This file bounds what the loop can
change: on every input on which no digit reaches the loop while the accumulator equals `BigLimit`
exactly — the condition under which known finding C02-int19 shows (19-digit integers
9223372036854775800 … 807) — the parsers return exactly what the byte-at-a-time machine returns:
the same documents with the same values, or the same error. (That acceptance, document count and
error position are the same even when the condition fails is `C01.outcome_independent_of_fastInt`.) -/
namespace OjgVerif.C02
open OjgVerif OjgVerif.Json

theorem oj_parser_eq_bytewise (bs : Bytes) (h : NoHitRun {} bs) :
    (match runBytes ojTables cfgFast {} bs with
      | .error e => Except.error e
      | .ok s => finish ojTables s) =
    (match runBytes ojTables cfg1 {} bs with
      | .error e => Except.error e
      | .ok s => finish ojTables s) := by
  rw [Json.runBytes_eq_ref C01.ojTables_ok, Json.runBytes_eq_ref C01.ojTables_ok]
  have hfin : ∀ (cfg : Cfg) (s : St), runBytes refTables cfg {} bs = .ok s →
      finish ojTables s = finish refTables s := by
    intro cfg s hs
    exact Json.finish_eq_ref C01.ojTables_ok s ((runBytes_wf cfg bs {} WF.init).2 s hs).ctl
  have key := exec_fast_eq_slow bs h
  cases h1 : runBytes refTables cfgFast {} bs with
  | error e =>
    rw [h1] at key
    cases h2 : runBytes refTables cfg1 {} bs with
    | error e' => rw [h2] at key; exact key
    | ok t => rw [h2] at key; simp only at key ⊢; rw [hfin cfg1 t h2]; exact key
  | ok s1 =>
    rw [h1] at key
    simp only at key ⊢
    rw [hfin cfgFast s1 h1]
    cases h2 : runBytes refTables cfg1 {} bs with
    | error e' => rw [h2] at key; exact key
    | ok t => rw [h2] at key; simp only at key ⊢; rw [hfin cfg1 t h2]; exact key

/-- non-vacuity: ordinary documents meet the hypothesis, also with 19-digit integers outside the
pinned range and with long fractions -/
example : NoHitRun {} "[123,-4.5e3,9223372036854775799,1234567890123456789012]".toUTF8.toList :=
  noHitRun_of_B _ _ (by decide +kernel)

/-- … and the known finding's literals do not -/
example : noHitRunB {} "9223372036854775807".toUTF8.toList = false := by decide +kernel

end OjgVerif.C02
