import OjgVerif.Writer.LemmasParse
import OjgVerif.Writer.LemmasPretty
import OjgVerif.Gen.WriterDispatch
import OjgVerif.Writer.StrLoop
/-! # C04 — JSON writers emit valid JSON that denotes the data written

Re-checked on every run against the regenerated constants (`Gen.Root.jMap`, `Gen.Root.hex`,
`Gen.Oj.spaces`, `Gen.Oj.tabs`). The judge is `OjgVerif.Json.Spec` (RFC 8259); the model is
`OjgVerif.Writer.OjModel` (tied to the Go code by the correspondence run, byte for byte and chunk
for chunk); what the text has to denote is `OjgVerif.Writer.norm` (`Writer/JsonSpec.lean`).

Proved here for the `oj` writers (tight and indented, Sort on and off, OmitNil/OmitEmpty,
HTML-safe on and off, with and without an `io.Writer`), and for `pretty` whenever no alignment TABLE
is used (`C04_pretty_align_partial`, in particular Align off: `C04_pretty_noalign`; since fix aa799cb its omission rule is the documented
one). The full statement for `pretty` is false because of Align (`C04_pretty_full_false`: known
finding C04-pretty-align-comma); with Align the model is tied by correspondence and judged by the oracle only. -/
namespace OjgVerif.C04
open OjgVerif OjgVerif.Json OjgVerif.Writer OjgVerif.Writer.Pretty

/-! ## the escaping table -/

/-- every cell of the regenerated `jMap` is one the string reader undoes: a byte marked "copy" is a
printable ASCII byte other than `"` and `\`, `\u00XX` is only used below 0x80, the decoder is only
asked about bytes ≥ 0x80, and a two-character escape `\c` is one RFC 8259 reads back as the byte -/
theorem jMap_safe : TableSafe Gen.Root.jMap :=
  tableSafe_of_check _ (by decide +kernel) (by decide +kernel)

/-- the indentation constants are a newline followed by blanks / tabs: white space only -/
theorem spaces_ws : (Gen.Oj.spaces.toList.all Spec.isWs) = true := by decide +kernel
theorem tabs_ws : (Gen.Oj.tabs.toList.all Spec.isWs) = true := by decide +kernel

theorem layout_wf (o : Opts) : (Writer.layoutOf o).WF := by
  unfold Writer.layoutOf
  split
  · exact indentL_wf o spaces_ws tabs_ws
  · exact tightL_wf

/-! ## strings -/

/-- the escaped text of ANY byte string, between quotes, is an RFC 8259 string that reads back as
the string with every byte that is not part of a well-formed UTF-8 sequence replaced by U+FFFD;
whatever follows the closing quote is left untouched -/
theorem C04_string_body (s rest : Bytes) (html : Bool) :
    Spec.pChars ((escLoop Gen.Root.jMap html 0 true s).length + 1)
      (escLoop Gen.Root.jMap html 0 true s ++ 34 :: rest) = some (sanitize s, rest) :=
  esc_parse _ jMap_safe html true s rest _ (Nat.lt_succ_self _)

/-- `AppendJSONString` writes, for every byte string and both settings of the HTML-safe flag, one
JSON text whose value is the sanitised string -/
theorem C04_string (s : Bytes) (html : Bool) :
    Spec.parseDoc (appendJSONString [] s html) = .one (.str (sanitize s)) := by
  have h := pValue_str jMap_safe (jsonString s html).length s [] html
  simp only [List.append_nil] at h
  have hj : jsonString s html = 34 :: (escLoop Gen.Root.jMap html 0 true s ++ [34]) := rfl
  simp only [appendJSONString, List.nil_append]
  rw [hj] at h ⊢
  exact parseDoc_of_pValue 34 _ _ (by decide) (by decide) h

/-- THE LOOP AS WRITTEN: the transcription of the Go loop of `AppendJSONString` with its `start` /
`skip` indices (`Writer/StrLoop.lean`: a buffer, runs copied by `append(buf, s[start:i]...)` before
every escape and `s[start:]` after the loop, `continue` while `i < skip`) gives, for every buffer,
byte string and HTML-safe setting, byte for byte the text of the per-byte model -/
theorem C04_string_loop (buf s : Bytes) (html : Bool) :
    appendJSONStringReal buf s html = appendJSONString buf s html :=
  appendJSONStringReal_eq buf s html

/-- the loop `Writer/StrLoop.lean` transcribes, statement by statement (`loopStep`: `head` and the
cases; `realLoop`: `range`; `appendJSONStringRealT` / `finishLoop`: `pre` and `post`) -/
def appendJSONStringLoopTranscribed : List (String × List String) := [
  ("pre", ["buf = append(buf, '\"')", "start := 0", "skip := 0"]),
  ("range", ["i, b := range []byte(s)"]),
  ("head", ["if i < skip", "continue", "end", "c := jMap[b]"]),
  ("switch", ["c"]),
  ("'o'", ["continue"]),
  ("'.'", ["if start < i", "buf = append(buf, s[start:i]...)", "end", "buf = append(buf, `\\u00`...)", "buf = append(buf, hex[(b>>4)&0x0f])", "buf = append(buf, hex[b&0x0f])", "start = i + 1"]),
  ("'h'", ["if htmlSafe", "if start < i", "buf = append(buf, s[start:i]...)", "end", "buf = append(buf, `\\u00`...)", "buf = append(buf, hex[(b>>4)&0x0f])", "buf = append(buf, hex[b&0x0f])", "start = i + 1", "end"]),
  ("'8'", ["r, cnt := utf8.DecodeRuneInString(s[i:])", "switch r"]),
  ("'8'/'\\u2028'", ["if start < i", "buf = append(buf, s[start:i]...)", "end", "buf = append(buf, `\\u2028`...)", "start = i + cnt", "skip = start"]),
  ("'8'/'\\u2029'", ["if start < i", "buf = append(buf, s[start:i]...)", "end", "buf = append(buf, `\\u2029`...)", "start = i + cnt", "skip = start"]),
  ("'8'/utf8.RuneError", ["if start < i", "buf = append(buf, s[start:i]...)", "end", "buf = append(buf, `\\ufffd`...)", "start = i + cnt", "skip = start"]),
  ("'8'/default", ["skip = i + cnt"]),
  ("default", ["if start < i", "buf = append(buf, s[start:i]...)", "end", "buf = append(buf, '\\\\')", "buf = append(buf, c)", "start = i + 1"]),
  ("post", ["if start < len(s)", "buf = append(buf, s[start:]...)", "end", "return append(buf, '\"')"])
]

/-- … and it is the loop of the CURRENT source: the statements of `ojg.AppendJSONString` read from
string.go on this run (Gen/WriterDispatch.lean) are, place by place, the ones transcribed — any edit of
the loop (an index expression, a `start` / `skip` assignment, a case added or dropped) breaks this
obligation by name until `StrLoop.lean` is transcribed again -/
theorem C04_string_loop_shape :
    Gen.WriterDispatch.appendJSONStringLoop = appendJSONStringLoopTranscribed := by decide +kernel

/-- … and so the loop as written emits one JSON text whose value is the sanitised string -/
theorem C04_string_real (s : Bytes) (html : Bool) :
    Spec.parseDoc (appendJSONStringReal [] s html) = .one (.str (sanitize s)) := by
  rw [C04_string_loop]; exact C04_string s html

/-- `"a\u2028\xffb<"`: an ordinary byte, a dropped 3-byte sequence, an ill-formed byte, a run, an HTML byte -/
example : appendJSONStringReal [1] [97, 0xE2, 0x80, 0xA8, 0xFF, 98, 60] true
    = [1, 34, 97, 92, 117, 50, 48, 50, 56, 92, 117, 102, 102, 102, 100, 98, 92, 117, 48, 48, 51, 99, 34] := by
  decide +kernel

/-! ## integers -/

/-- integer round trip: the literal printed for `i` is an RFC 8259 number whose value is `i` -/
theorem C04_int (i : Int) : isNumLit (fmtInt i) ∧ intVal (fmtInt i) = i :=
  ⟨isNumLit_fmtInt i, intVal_fmtInt i⟩

/-! ## streaming -/

/-- for every tree, every option combination, every iteration order and EVERY WriteLimit, the
chunks handed to the `io.Writer` are, joined, byte for byte the text of the in-memory call: the
comma overwrite always hits a byte appended after the last flush -/
theorem C04_stream (o : Opts) (ord : Kvs → Kvs) (limit : Nat) (v : JV) :
    (ojWriteTo o ord limit v).flatten = ojWrite o ord v := by
  rw [ojWriteTo_flatten, ojWrite_eq_text]

/-! ## Sort -/

/-- with Sort the text is the same whatever order the run-time iterates the maps in -/
theorem C04_sort (o : Opts) (h : o.sort = true) (ord₁ ord₂ : Kvs → Kvs) (h₁ : IsOrder ord₁) (h₂ : IsOrder ord₂)
    (v : JV) (hv : distinctKeys v) : ojWrite o ord₁ v = ojWrite o ord₂ v := by
  rw [ojWrite_eq_text, ojWrite_eq_text]
  exact text_sort_indep o h ord₁ ord₂ h₁ h₂ _ _ v 0 hv

/-- … and the members of every object are visited (hence written, `C04_oj`) in strictly ascending
byte-wise order of the input keys, each exactly once -/
theorem C04_sort_ascending (ord : Kvs → Kvs) (h : IsOrder ord) (kvs : Kvs)
    (hnd : (kvs.map fun kv => kv.1).Nodup) :
    Ascending (order true ord kvs) ∧ (order true ord kvs).Perm kvs := by
  refine ⟨?_, order_perm true ord h kvs⟩
  simp only [order, ↓reduceIte]
  exact sortKvs_ascending _ (((h kvs).map _).nodup_iff.mpr hnd)

/-! ## the whole tree -/

/-- for every tree of nil, bool, int, float (given as a number literal), string, array and object
values whose objects keep distinct keys after sanitising, every option combination and every
iteration order: the text of `oj.JSON` / `oj.Marshal` is ONE valid JSON document, and its RFC 8259
reading is the input tree with strings and keys sanitised, numbers as their literals, members in
the order written, minus exactly the members OmitNil / OmitEmpty name -/
theorem C04_oj (o : Opts) (ord : Kvs → Kvs) (hord : IsOrder ord) (v : JV) (hv : okW v) :
    Spec.parseDoc (ojWrite o ord v) = .one (norm o ord v) := by
  rw [ojWrite_eq_text]
  obtain ⟨b, t, hb, hsb⟩ := text_head o ord (Writer.layoutOf o) (depth v) v 0 hv
  have hlen := depth_le_text o ord hord (Writer.layoutOf o) (depth v + 1) v 0 (Nat.lt_succ_self _)
  have hp := parse_text jMap_safe o ord hord (Writer.layoutOf o) (layout_wf o) (depth v + 1) v 0
    ((text o ord (Writer.layoutOf o) (depth v + 1) v 0).length + 1) [] hv (Nat.lt_succ_self _) (by omega) rfl
  simp only [List.append_nil] at hp
  rw [hb] at hp ⊢
  exact parseDoc_of_pValue b t _ (startByte_ne_bom b hsb) (startByte_facts b hsb).1 hp

/-- the same for the text streamed through `oj.Write` with any WriteLimit -/
theorem C04_oj_stream (o : Opts) (ord : Kvs → Kvs) (hord : IsOrder ord) (limit : Nat) (v : JV) (hv : okW v) :
    Spec.parseDoc (ojWriteTo o ord limit v).flatten = .one (norm o ord v) := by
  rw [C04_stream]; exact C04_oj o ord hord v hv

/-! ## pretty -/

/-- the indentation constant of `pretty` is white space only -/
theorem pretty_spaces_ws : (Gen.Pretty.spaces.toList.all Spec.isWs) = true := by decide +kernel

/-- … and so are the separators `fill` uses for flat containers, read from the source (the second
is the fallback past the indentation limit) -/
theorem pretty_seps_ws : SepWs := ⟨pretty_spaces_ws, by decide +kernel, by decide +kernel⟩


/-- C04 for `pretty.JSON` as the property states it: for every configuration the text is one JSON
document denoting the tree minus exactly the members OmitNil / OmitEmpty name -/
def C04_pretty_full : Prop :=
  ∀ (p : POpts) (ord : Kvs → Kvs) (v : JV), IsOrder ord → okW v →
    Spec.parseDoc (prettyWrite p ord v) = .one (norm (ojOptsOf p) ord v)

/-- `[{"a":1,"b":2,"c":3},{"a":1}]`: the second row lacks the last column -/
def alignWitness : JV :=
  .arr [.obj [([97], .int 1), ([98], .int 2), ([99], .int 3)], .obj [([97], .int 1)]]

/-- with Align the model writes `[ {"a": 1, "b": 2, "c": 3}, {"a": 1,               }]` — not JSON -/
theorem align_witness_rejected :
    Spec.accepts (prettyWrite { width := 80, maxDepth := 3, align := true } id alignWitness) = false := by
  decide +kernel

/-- `pretty` does not have the property (known finding C04-pretty-align-comma) -/
theorem C04_pretty_full_false : ¬ C04_pretty_full := by
  intro h
  have hok : okW alignWitness := by
    simp only [alignWitness, okW, okKvs, okList, and_true]
    exact ⟨by decide, by decide⟩
  have := accepts_of_one _ _ (h { width := 80, maxDepth := 3, align := true } id alignWitness
    (fun _ => List.Perm.refl _) hok)
  rw [align_witness_rejected] at this
  cases this

/-- `[[{"a":1}],[[[5]]]]`: the first column holds a map in one row and an array in the other; the
witness of the former finding C04-pretty-align-mixed (fixed in 2c87bea: such a table is not used)
is now written as valid JSON -/
example : Spec.accepts (prettyWrite { width := 80, maxDepth := 9, align := true } id
    (.arr [.arr [.obj [([97], .int 1)]], .arr [.arr [.arr [.int 5]]]])) = true := by decide +kernel

/-- the omission rule and the key encoding of a `pretty` configuration, as the tree predicates see them -/
def dropOf (p : POpts) : JV → Bool := omits (ojOptsOf p)
def encOf (p : POpts) : Bytes → Bytes := fun k => jsonString k (!p.htmlUnsafe)

/-- the partial theorem for `pretty.JSON` WITH alignment tables (full statement: `C04_pretty_full`,
false). For every Width, MaxDepth, HTML-safe setting, OmitNil/OmitEmpty and iteration order the text
is ONE valid JSON document whose reading is the tree (members in ascending key order) minus exactly
the members OmitNil / OmitEmpty name, whenever Align is off or every alignment table of the tree
(`tablesAO`, a predicate on the tree: every array with two or more members, all arrays or all
objects) is
* a table of arrays that contain no object at any depth, or
* a table of flat objects (members are scalars) in which NO ROW LACKS ITS LAST COLUMN
  (`rowsComplete`: every row shows no key, or shows the greatest encoded key shown by any row) and the
  encoded keys of a row are ordered like its keys (`keysEncOrdered`; aligned rows follow the order of
  the ENCODED keys, so without it the reading would list the members in another order).
This covers `checkAlign`, `genTables`, `updateArrayTable`/`alignArray` and `updateMapTable`/`alignMap`
for such tables: columns matched by position resp. by key, sorted, exactly the keys of the rows,
every padding within the `spaces` constant because the table fits the width, one comma between any
two members of a row. The known finding C04-pretty-align-comma is exactly the complement of
`rowsComplete` (`align_witness_incomplete`: the witness of `C04_pretty_full_false` violates it; with
it the text is valid, so a `, }` can only come from a row that lacks its last column). Not covered:
tables whose object rows hold containers, and object cells inside tables of arrays. -/
theorem C04_pretty_align_table_partial (p : POpts) (ord : Kvs → Kvs) (hord : IsOrder ord) (v : JV) (hv : okW v)
    (hnt : p.align = true → tablesAO (dropOf p) (encOf p) v) :
    Spec.parseDoc (prettyWrite p ord v) = .one (norm (ojOptsOf p) ord v) := by
  rw [prettyWrite_eq_ptext p ord hord v hnt]
  obtain ⟨b, t, hb, hsb⟩ := ptext_head (pwOf p ord v) ord (depth v) v 0 false hv
  have hp := parse_ptext jMap_safe pretty_seps_ws (pwOf p ord v) ord hord (depth v + 1) v 0 false
    ((ptext (pwOf p ord v) ord (depth v + 1) v 0 false).length + 1) [] hv hnt
    (by rw [pwOf_fuel]; omega) (Nat.lt_succ_self _) (Nat.lt_succ_self _) rfl
  simp only [List.append_nil, pwOf_o] at hp
  rw [hb] at hp ⊢
  exact parseDoc_of_pValue b t _ (startByte_ne_bom b hsb) (startByte_facts b hsb).1 hp

/-- the rows `{"a":1,"b":2,"c":3}`, `{"a":1}` of the witness of `C04_pretty_full_false` are not complete:
the second row lacks the last column `"c"` -/
theorem align_witness_incomplete :
    ¬ rowsComplete (dropOf { align := true }) (encOf { align := true })
      [.obj [([97], .int 1), ([98], .int 2), ([99], .int 3)], .obj [([97], .int 1)]] := by
  unfold rowsComplete
  decide +kernel

/-- in particular when every table of the tree is a table of arrays -/
theorem C04_pretty_align_arrays_partial (p : POpts) (ord : Kvs → Kvs) (hord : IsOrder ord) (v : JV) (hv : okW v)
    (hnt : p.align = true → tablesArr v) :
    Spec.parseDoc (prettyWrite p ord v) = .one (norm (ojOptsOf p) ord v) :=
  C04_pretty_align_table_partial p ord hord v hv
    (fun h => tablesAO_of_tablesArr _ _ (depth v + 1) v (Nat.lt_succ_self _) (hnt h))

/-- in particular when no array of the tree is a table at all (`noTable`; keys of maps are still padded) -/
theorem C04_pretty_align_partial (p : POpts) (ord : Kvs → Kvs) (hord : IsOrder ord) (v : JV) (hv : okW v)
    (hnt : p.align = true → noTable v) :
    Spec.parseDoc (prettyWrite p ord v) = .one (norm (ojOptsOf p) ord v) :=
  C04_pretty_align_arrays_partial p ord hord v hv
    (fun h => tablesArr_of_noTable (depth v + 1) v (Nat.lt_succ_self _) (hnt h))

/-- in particular, excluding exactly `Align`, `pretty.JSON` has the property for EVERY tree -/
theorem C04_pretty_noalign (p : POpts) (ha : p.align = false) (ord : Kvs → Kvs) (hord : IsOrder ord)
    (v : JV) (hv : okW v) :
    Spec.parseDoc (prettyWrite p ord v) = .one (norm (ojOptsOf p) ord v) :=
  C04_pretty_align_table_partial p ord hord v hv (by simp [ha])

/-- `{"t":[[1,"a",[2.5]],[100,"long"],[]],"k":{"x":null}}` is a tree whose only table is a table of arrays … -/
example : tablesArr (.obj [([116], .arr [.arr [.int 1, .str [97], .arr [.flt [50, 46, 53]]],
    .arr [.int 100, .str [108, 111, 110, 103]], .arr []]), ([107], .obj [([120], .null)])]) := by
  simp only [tablesArr, tablesArrK, tablesArrL, arrOnlyL, arrOnly, and_true]
  decide

/-- … and with Align its rows are written in columns:
```
{
  "k": {"x": null},
  "t": [
    [  1, "a"   , [2.5]],
    [100, "long"],
    []
  ]
}
``` -/
example : prettyWrite { align := true } id (.obj [([116], .arr [.arr [.int 1, .str [97], .arr [.flt [50, 46, 53]]],
    .arr [.int 100, .str [108, 111, 110, 103]], .arr []]), ([107], .obj [([120], .null)])]) =
    [123, 10, 32, 32, 34, 107, 34, 58, 32, 123, 34, 120, 34, 58, 32, 110, 117, 108, 108, 125, 44, 10, 32, 32, 34, 116, 34,
     58, 32, 91, 10, 32, 32, 32, 32, 91, 32, 32, 49, 44, 32, 34, 97, 34, 32, 32, 32, 44, 32, 91, 50, 46, 53, 93, 93, 44,
     10, 32, 32, 32, 32, 91, 49, 48, 48, 44, 32, 34, 108, 111, 110, 103, 34, 93, 44, 10, 32, 32, 32, 32, 91, 93, 10, 32,
     32, 93, 10, 125] := by decide +kernel

/-- `[{"x":1,"z":"p"},{"y":2.5,"z":null},{}]`: a table of flat objects in which no row lacks the last
column `"z"` (the third row shows no key) … -/
example : tablesAO (dropOf { align := true }) (encOf { align := true })
    (.arr [.obj [([120], .int 1), ([122], .str [112])], .obj [([121], .flt [50, 46, 53]), ([122], .null)], .obj []]) := by
  simp only [tablesAO, tablesAOL, tablesAOK, and_true]
  intro _
  refine ⟨fun h => absurd h (by decide), fun _ => ⟨?_, ?_⟩⟩
  · intro x hx
    simp only [List.mem_cons, List.not_mem_nil, or_false] at hx
    rcases hx with rfl | rfl | rfl <;> exact ⟨by decide, by unfold keysEncOrdered; decide +kernel⟩
  · unfold rowsComplete
    decide +kernel

/-- … and with Align it is written in columns, the empty row as blanks:
```
[ {"x": 1,           "z": "p" }, {        "y": 2.5, "z": null}, {                           }]
``` -/
example : prettyWrite { align := true } id
    (.arr [.obj [([120], .int 1), ([122], .str [112])], .obj [([121], .flt [50, 46, 53]), ([122], .null)], .obj []]) =
    [91, 32, 123, 34, 120, 34, 58, 32, 49, 44, 32, 32, 32, 32, 32, 32, 32, 32, 32, 32, 32, 34, 122, 34, 58, 32, 34, 112, 34,
     32, 125, 44, 32, 123, 32, 32, 32, 32, 32, 32, 32, 32, 34, 121, 34, 58, 32, 50, 46, 53, 44, 32, 34, 122, 34, 58, 32,
     110, 117, 108, 108, 125, 44, 32, 123, 32, 32, 32, 32, 32, 32, 32, 32, 32, 32, 32, 32, 32, 32, 32, 32, 32, 32, 32, 32,
     32, 32, 32, 32, 32, 32, 32, 125, 93] := by decide +kernel

/-- `{"longer key":1,"k":[1,"a",{"x":null}],"m":[[1,2]]}` is a tree without tables … -/
example : noTable (.obj [([108, 111, 110, 103, 101, 114, 32, 107, 101, 121], .int 1),
    ([107], .arr [.int 1, .str [97], .obj [([120], .null)]]), ([109], .arr [.arr [.int 1, .int 2]])]) := by
  simp only [noTable, noTableKvs, noTableList, and_true]
  decide

/-- … and with Align its keys are padded to a common column:
```
{
  "k":          [1, "a", {"x": null}],
  "longer key": 1
}
``` -/
example : prettyWrite { align := true } id (.obj [([108, 111, 110, 103, 101, 114, 32, 107, 101, 121], .int 1),
    ([107], .arr [.int 1, .str [97], .obj [([120], .null)]])]) =
    [123, 10, 32, 32, 34, 107, 34, 58, 32, 32, 32, 32, 32, 32, 32, 32, 32, 32, 91, 49, 44, 32, 34, 97, 34, 44, 32,
     123, 34, 120, 34, 58, 32, 110, 117, 108, 108, 125, 93, 44, 10, 32, 32, 34, 108, 111, 110, 103, 101, 114, 32,
     107, 101, 121, 34, 58, 32, 49, 10, 125] := by decide +kernel

/-- `{"a":[],"b":{"c":null},"d":null}` under OmitNil alone: the witness of the former finding
C04-pretty-omit (fixed in aa799cb) now keeps `"a"` and `"b"` -/
example : prettyWrite { omitNil := true } id
    (.obj [([97], .arr []), ([98], .obj [([99], .null)]), ([100], .null)]) =
    [123, 34, 97, 34, 58, 32, 91, 93, 44, 32, 34, 98, 34, 58, 32, 123, 125, 125] := by decide +kernel

/-- streaming: under the same condition the chunks `pretty.WriteJSON` hands over are, joined, the
in-memory text, for every WriteLimit -/
theorem C04_pretty_stream (p : POpts) (ord : Kvs → Kvs) (hord : IsOrder ord) (limit : Nat) (v : JV)
    (hnt : p.align = true → tablesAO (dropOf p) (encOf p) v) :
    (prettyWriteTo p ord limit v).flatten = prettyWrite p ord v := by
  rw [prettyWriteTo_flatten p ord hord limit v hnt, prettyWrite_eq_ptext p ord hord v hnt]

/-! ## the hypotheses are not vacuous -/

/-- iterating a map front to back or back to front are legitimate orders -/
example : IsOrder id := fun _ => List.Perm.refl _
example : IsOrder List.reverse := fun l => List.reverse_perm l

/-- `{"b":[1.5e+21,-0,""],"a\xff":null,"a":{}}` is a tree the theorems speak about -/
example : okW (.obj [([98], .arr [.flt [49, 46, 53, 101, 43, 50, 49], .flt [45, 48], .str []]),
    ([97, 255], .null), ([97], .obj [])]) := by
  simp only [okW, okKvs, okList, and_true]
  exact ⟨by decide, by decide, by decide⟩

example : distinctKeys (.obj [([98], .int 1), ([97, 255], .null), ([97, 254], .obj [])]) := by
  simp only [distinctKeys, distinctKeysKvs, and_true]
  decide

/-- two keys that collide after sanitising are outside `okW` (the text would have a duplicate member) -/
example : ¬ okW (.obj [([255], .int 1), ([254], .int 2)]) := by
  simp only [okW, okKvs, and_true]
  decide

/-! ## unsigned integers -/

/-- unsigned round trip (uint8 … uint64, uint): the literal printed for an unsigned value `n`
(any `n`, in particular `2^63 ≤ n < 2^64`) is an RFC 8259 number WITHOUT a minus sign whose value
is `n` — the instance of `C04_int` at the non-negative integers, plus the sign -/
theorem C04_uint (n : Nat) :
    isNumLit (fmtInt (n : Int)) ∧ intVal (fmtInt (n : Int)) = (n : Int) ∧ (fmtInt (n : Int)).head? ≠ some 45 := by
  refine ⟨isNumLit_fmtInt _, intVal_fmtInt _, ?_⟩
  obtain ⟨d, ds, he, hd⟩ := fmtNat_head_ne_minus n
  have hf : fmtInt (n : Int) = fmtNat n := by
    unfold fmtInt
    rw [if_neg (by omega)]
    simp
  rw [hf, he]
  simpa using hd

example : (2:Nat)^63 < 2^64 ∧ fmtInt ((2^64 - 1 : Nat) : Int) = "18446744073709551615".toUTF8.toList := by decide +kernel

/-! ## dispatch: every leaf kind of the model has its arm in the source -/

/-- the calls of the arm of Go type `ty` in a generated arm table -/
def armOf (tbl : List (String × List String)) (ty : String) : Option (List String) :=
  (tbl.find? fun e => e.1 == ty).map (·.2)

/-- the Go types the harness builds for a leaf / container kind of the model (simple and gen flavour) -/
def goTypesOf : JV → List String
  | .null => ["nil"]
  | .bool _ => ["bool", "gen.Bool"]
  | .int _ => ["int", "int8", "int16", "int32", "int64", "uint", "uint8", "uint16", "uint32", "uint64", "gen.Int"]
  | .flt _ => ["float64", "gen.Float"]
  | .str _ => ["string", "gen.String"]
  | .arr _ => ["[]any", "gen.Array"]
  | .obj _ => ["map[string]any", "gen.Object"]
  | .big _ => []
  | .num _ => []

/-- what the arm of (*pretty.Writer).build for a Go type has to call for the model
(`Writer/Pretty.lean`, `build`) to be a transcription of it: signed integers and unsigned ones of at
most 32 bits widen into `int64` (exact) and go through `buildInt` (= `fmtInt`), `uint` and `uint64`
go through `buildUint` unconverted, a `float64` / `gen.Float` through the 64-bit float builder -/
def prettyCallOf (ty : String) : List String :=
  if ty == "nil" then ["w.buildNull()"]
  else if ty == "bool" then ["w.buildBool(td)"]
  else if ty == "gen.Bool" then ["w.buildBool(bool(td))"]
  else if ty == "int64" then ["w.buildInt(td)"]
  else if ty == "uint64" then ["w.buildUint(td)"]
  else if ty == "uint" then ["w.buildUint(uint64(td))"]
  else if ty == "float64" then ["w.buildFloat64(td)"]
  else if ty == "gen.Float" then ["w.buildFloat64(float64(td))"]
  else if ty == "string" then ["w.buildStringNode(td)"]
  else if ty == "gen.String" then ["w.buildStringNode(string(td))"]
  else if ty == "[]any" then ["w.buildArrayNode(td)"]
  else if ty == "gen.Array" then ["w.buildGenArrayNode(td)"]
  else if ty == "map[string]any" then ["w.buildMapNode(td)"]
  else if ty == "gen.Object" then ["w.buildGenMapNode(td)"]
  else ["w.buildInt(int64(td))"]

/-- every leaf and container kind of the model has, for every Go type the harness builds for it, its
arm in the type switch of (*pretty.Writer).build of the CURRENT source calling exactly the expected
builder (a leaf kind routed through another builder — `gen.Float` through `buildFloat32`, `uint64`
through `buildInt(int64(…))` — breaks this obligation by name) -/
theorem C04_dispatch_pretty (v : JV) :
    ∀ ty ∈ goTypesOf v, armOf Gen.WriterDispatch.prettyBuild ty = some (prettyCallOf ty) := by
  cases v <;> simp only [goTypesOf] <;> decide +kernel

/-- tripwire for fix cb0e5e8: neither the `uint` nor the `uint64` arm of build converts to `int64`
and calls `buildInt` (which wrote every value of 2^63 or more as a negative number) -/
theorem C04_pretty_uint_tripwire : Gen.WriterDispatch.prettyUintViaInt64 = false := by decide

/-- does the generated entry `name` list the call `call`? -/
def hasCall (tbl : List (String × List String)) (name call : String) : Bool :=
  match armOf tbl name with
  | some l => l.contains call
  | none => false

/-- the leaf builders format the way the model does: `buildInt` by `strconv.FormatInt(v, 10)` and
`buildUint` by `strconv.FormatUint(v, 10)` (`fmtInt`), `buildFloat64` by the shortest 64-bit 'g'
form (the `.flt` literal), `buildStringNode` by `ojg.AppendJSONString` with `!w.HTMLUnsafe`
(`jsonString`), `buildNull` / `buildBool` from the constants -/
theorem C04_pretty_builders :
    hasCall Gen.WriterDispatch.prettyBuilders "buildInt" "[]byte(strconv.FormatInt(v, 10))" = true ∧
    hasCall Gen.WriterDispatch.prettyBuilders "buildUint" "[]byte(strconv.FormatUint(v, 10))" = true ∧
    hasCall Gen.WriterDispatch.prettyBuilders "buildFloat64" "[]byte(strconv.FormatFloat(v, 'g', -1, 64))" = true ∧
    hasCall Gen.WriterDispatch.prettyBuilders "buildStringNode" "ojg.AppendJSONString(w.buf, v, !w.HTMLUnsafe)" = true ∧
    hasCall Gen.WriterDispatch.prettyBuilders "buildNull" "[]byte(nullStr)" = true ∧
    hasCall Gen.WriterDispatch.prettyBuilders "buildBool" "[]byte(trueStr)" = true ∧
    hasCall Gen.WriterDispatch.prettyBuilders "buildBool" "[]byte(falseStr)" = true := by
  decide +kernel

/-- the arm of (*oj.Writer).appendJSON a Go type reaches: the gen types have no arm of their own and
reach the writer through `alt.Simplifier` (Simplify gives the simple value of the same kind) -/
def ojArmTypeOf (ty : String) : String := if ty.startsWith "gen." then "alt.Simplifier" else ty

/-- what that arm has to call for the model (`Writer/OjModel.lean`) to be a transcription of it:
signed integers through `strconv.AppendInt` of the value widened to `int64`, unsigned ones through
`strconv.AppendUint` of the value widened to `uint64` (both exact: `fmtInt`), `float64` through the
shortest 64-bit 'g' form, strings through `appendString` with `!wr.HTMLUnsafe`, containers through
the configured `appendArray` / `appendObject` (tight, indented, sorted) -/
def ojCallOf (ty : String) : List String :=
  if ty.startsWith "gen." then ["wr.appendJSON(td.Simplify(), depth)"]
  else if ty == "nil" then ["append(wr.buf, \"null\"...)"]
  else if ty == "bool" then ["append(wr.buf, \"true\"...)", "append(wr.buf, \"false\"...)"]
  else if ty == "int64" then ["strconv.AppendInt(wr.buf, td, 10)"]
  else if ty == "uint64" then ["strconv.AppendUint(wr.buf, td, 10)"]
  else if ty.startsWith "uint" then ["strconv.AppendUint(wr.buf, uint64(td), 10)"]
  else if ty.startsWith "int" then ["strconv.AppendInt(wr.buf, int64(td), 10)"]
  else if ty == "float64" then
    ["len(wr.FloatFormat)", "fmt.Appendf(wr.buf, wr.FloatFormat, td)", "strconv.AppendFloat(wr.buf, td, 'g', -1, 64)"]
  else if ty == "string" then ["wr.appendString(wr.buf, td, !wr.HTMLUnsafe)"]
  else if ty == "[]any" then ["append(wr.buf, \"null\"...)", "wr.appendArray(wr, td, depth)"]
  else if ty == "map[string]any" then ["wr.appendObject(wr, td, depth)"]
  else []

/-- every leaf and container kind of the model has, for every Go type the harness builds for it, its
arm in the type switch of (*oj.Writer).appendJSON of the CURRENT source calling exactly the expected
functions; a gen type has no concrete arm (none shadows the `alt.Simplifier` arm) -/
theorem C04_dispatch_oj (v : JV) :
    ∀ ty ∈ goTypesOf v, armOf Gen.WriterDispatch.ojAppendJSON (ojArmTypeOf ty) = some (ojCallOf ty) ∧
      (ty.startsWith "gen." = true → armOf Gen.WriterDispatch.ojAppendJSON ty = none) := by
  cases v <;> simp only [goTypesOf] <;> decide +kernel

/-- the member filter the model applies (`Writer/OjModel.lean`, `skipMember`: a nil member under
OmitNil; an empty string, object or array under OmitEmpty; nothing else) as the arms every object
writer of oj has to have -/
def omitArmsOf (fn : String) : List (String × List String) :=
  [(fn ++ "/nil", ["if wr.OmitNil", "continue", "end"]),
   (fn ++ "/string", ["if wr.OmitEmpty && len(tm) == 0", "continue", "end"]),
   (fn ++ "/map[string]any", ["if wr.OmitEmpty && len(tm) == 0", "continue", "end"]),
   (fn ++ "/[]any", ["if wr.OmitEmpty && len(tm) == 0", "continue", "end"])]

/-- the four object writers of oj (indented and tight, unsorted and sorted) filter members by the
SAME type switch in the current source, and it has exactly the arms of the model's filter — no arm
more (no other kind is ever dropped), none less, none with another condition -/
theorem C04_omit_dispatch :
    Gen.WriterDispatch.ojOmitSwitch =
      omitArmsOf "appendObject" ++ omitArmsOf "appendSortObject" ++ omitArmsOf "tightObject" ++ omitArmsOf "tightSortObject" := by
  decide +kernel

/-- the statements range over something: an integer leaf has eleven Go types, none missing -/
example : (goTypesOf (.int 5)).length = 11 ∧ goTypesOf (.flt []) = ["float64", "gen.Float"] := by decide

end OjgVerif.C04
