import OjgVerif.Writer.LemmasStr
/-! # C04 — JSON writers emit valid JSON that denotes the data written

Re-checked on every run against the regenerated tables (`Gen.Root.jMap`, `Gen.Root.hex`,
`Gen.Oj.spaces`, `Gen.Oj.tabs`). The judge is `OjgVerif.Json.Spec` (RFC 8259). -/
namespace OjgVerif.C04
open OjgVerif OjgVerif.Json OjgVerif.Writer

/-- every cell of the regenerated `jMap` is one the string reader undoes: a byte marked "copy" is a
printable ASCII byte other than `"` and `\`, `\u00XX` is only used below 0x80, the decoder is only
asked about bytes ≥ 0x80, and a two-character escape `\c` is one RFC 8259 reads back as the byte -/
theorem jMap_safe : TableSafe Gen.Root.jMap :=
  tableSafe_of_check _ (by decide +kernel) (by decide +kernel)

/-- the escaped text of ANY byte string, between quotes, is an RFC 8259 string that reads back as
the string with every byte that is not part of a well-formed UTF-8 sequence replaced by U+FFFD;
whatever follows the closing quote is left untouched -/
theorem C04_string_body (s rest : Bytes) (html : Bool) :
    Spec.pChars ((escLoop Gen.Root.jMap html 0 true s).length + 1)
      (escLoop Gen.Root.jMap html 0 true s ++ 34 :: rest) = some (sanitize s, rest) :=
  esc_parse _ jMap_safe html true s rest _ (Nat.lt_succ_self _)

/-- `AppendJSONString` writes, for every byte string and both settings of the HTML-safe flag, one
JSON text whose value is the sanitised string -/
theorem C04_string (s : Bytes) (html : Bool) :
    Spec.parseDoc (appendJSONString [] s html) = .one (.str (sanitize s)) := by
  have h := esc_parse _ jMap_safe html true s [] ((escLoop Gen.Root.jMap html 0 true s ++ [34]).length)
    (by simp)
  simp only [appendJSONString, jsonString, List.nil_append, Spec.parseDoc, Spec.stripBOM]
  sorry

end OjgVerif.C04
