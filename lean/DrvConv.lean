import OjgVerif.Conv.Driver
def main : IO Unit := OjgVerif.driverMain OjgVerif.Conv.handle
