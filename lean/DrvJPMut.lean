import OjgVerif.Common.Driver
import OjgVerif.JPMut.Driver
def main : IO Unit := OjgVerif.driverMain OjgVerif.JPMut.handle
