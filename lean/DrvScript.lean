import OjgVerif.Script.Driver
def main : IO Unit := OjgVerif.driverMain OjgVerif.Script.handle
