import OjgVerif.JPath.Driver
def main : IO Unit := OjgVerif.driverMain OjgVerif.JPath.handle
