import OjgVerif.Reflect.EncOmitDriver
def main : IO Unit := OjgVerif.driverMain OjgVerif.Reflect.handleAll
