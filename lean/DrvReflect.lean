import OjgVerif.Reflect.Driver
def main : IO Unit := OjgVerif.driverMain OjgVerif.Reflect.handle
