import OjgVerif.JPText.Driver
def main : IO Unit := OjgVerif.driverMain OjgVerif.JPText.handle
