import OjgVerif.Json.Driver
def main : IO Unit := OjgVerif.driverMain OjgVerif.Json.handle
