import OjgVerif.Sen.Driver
def main : IO Unit := OjgVerif.driverMain OjgVerif.Sen.handle
