import OjgVerif.Asm.Driver
def main : IO Unit := OjgVerif.driverMain OjgVerif.Asm.handle
