import OjgVerif.Match.Driver
def main : IO Unit := OjgVerif.driverMain OjgVerif.Match.handle
