#!/bin/sh
# usage: trial3.sh <prop> <checks comma list>   (trials m1,m2 of /tmp/mut3_out/<prop> as m7,m8)
P=$1; CH=$2
export VERIF_TRIAL=/tmp/vtrial
for k in 1 2; do
  S=/tmp/mut3_out/$P/m$k
  [ -f $S/patch.diff ] || { echo "$P m$k: no patch"; continue; }
  SUB=$(head -1 $S/demo_test.go | sed 's#.*place in: *##; s#[ `]##g; s#/$##')
  K=$((6+k))
  echo "=== $P-m$K (sub=$SUB) ==="
  python3 /verif/tools/seed_store.py $P $K $S "$SUB" $CH 2>&1 | grep -E "rc=|^\[|does not apply" 
done
