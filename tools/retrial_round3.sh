#!/bin/sh
# re-trial of round-3 first-trial misses from a fresh copy of /verif
export VERIF_TRIAL=/tmp/vtrial
rsync -a --delete --exclude .git /verif/ /tmp/vtrial/
one() { # id checks
  ID=$1; CH=$2; P=${ID%-m*}; K=${ID#*-m}; S=/verif/seeded/$ID
  SUB=$(python3 -c "import json;print(json.load(open('$S/meta.json'))['demo'].get('place_in',''))")
  echo "=== $ID (sub=$SUB) ==="
  python3 /verif/tools/seed_store.py $P $K $S "$SUB" $CH 2>&1 | grep -E "rc=|^\[|does not apply"
}
one C20-m7 C20; one C14-m7 C14; one C11-m7 C11,C05; one C11-m8 C11; one C13-m7 C13; one C13-m8 C13
one C08-m7 C08; one C08-m8 C08; one C16-m8 C16; one C05-m8 C05,C11; one C05-m7 C05; one C12-m7 C12; one C12-m8 C12
one C15-m7 C15; one C06-m8 C06; one C17-m8 C17; one C18-m8 C18,C07
