#!/bin/sh
# usage: tools/try_mutant.sh <name> <patch.diff> <demo file or dir> <demo target dir in repo or ''> <prop> [<prop>...]
# Applies the patch in a scratch worktree of /repo, confirms suite green + demo fails (and passes without),
# runs the given checks against it, prints their VIOLATION/OK lines, removes the worktree.
set -u
NAME=$1; PATCH=$2; DEMO=$3; DEMODIR=$4; shift 4
export GOFLAGS=-mod=mod GOPROXY=off GOSUMDB=off GOTOOLCHAIN=local
WT=/tmp/trial_$NAME
git -C /repo worktree remove --force $WT 2>/dev/null
git -C /repo worktree add -q --detach $WT HEAD || exit 2
run_demo() {
  if [ -d "$DEMO" ]; then (cd $WT && mkdir -p zz_demo && cp -r "$DEMO"/* zz_demo/ && go run ./zz_demo >/dev/null 2>&1); rc=$?; rm -rf $WT/zz_demo; return $rc
  else mkdir -p $WT/$DEMODIR; cp "$DEMO" $WT/$DEMODIR/zz_demo_test.go; (cd $WT/$DEMODIR && go test -vet=off -count=1 -run "^($(grep -o 'func Test[A-Za-z0-9_]*' zz_demo_test.go | sed 's/func //' | paste -sd'|'))\$" . >/dev/null 2>&1); rc=$?; rm -f $WT/$DEMODIR/zz_demo_test.go; return $rc; fi
}
run_demo; echo "demo without patch: rc=$? (expect 0)"
(cd $WT && git apply "$PATCH") || { echo "patch does not apply"; git -C /repo worktree remove --force $WT; exit 2; }
(cd $WT && go build ./... && go test -vet=off -count=1 ./... >/dev/null 2>&1); echo "suite with patch: rc=$? (expect 0)"
run_demo; echo "demo with patch: rc=$? (expect non-zero)"
for P in "$@"; do
  (cd ${VERIF_TRIAL:-/verif} && VERIF_REPO=$WT ./check $P --tier quick 2>/dev/null | grep -E "^(VIOLATION|OK)" | head -3 | sed "s/^/[$P] /")
done
git -C /repo worktree remove --force $WT
