#!/usr/bin/env python3
"""Regenerates the generated blocks of DESIGN.md (between <!-- BEGIN:x --> and <!-- END:x -->):
findings (from known_findings.json), seeded (from seeded/*/meta.json), claims (from registry/*.json)."""
import json, glob, os, re
V = '/verif'
def short(s, n=230):
    s = ' '.join(s.split())
    return s if len(s) <= n else s[:n-1].rstrip() + '…'
def esc(s): return s.replace('|', '\\|')
kf = json.load(open(f'{V}/known_findings.json'))
out = []
out.append('**Fixed** (`fix:` commits in /repo; the suite, unedited, passes after each; a fixed entry suppresses nothing):\n')
out.append('| property | commit | what failed |\n|---|---|---|')
for e in sorted(kf['fixed'], key=lambda e: (e['property'], e.get('commit',''))):
    out.append(f"| {e['property']} | {e.get('commit','')} | {esc(short(e['what']))} |")
out.append('\n**Known** (recorded, not repaired: pinned by the suite, by design, or not small; each is decided by the predicate named in `known_findings.json`, so another violation of the same property is still reported):\n')
out.append('| id | property | what fails |\n|---|---|---|')
for e in sorted(kf['known'], key=lambda e: (e['property'], e['id'])):
    out.append(f"| {e['id']} | {e['property']} | {esc(short(e['what']))} |")
findings = '\n'.join(out)
rows = ['| id | breaks (author\'s words) | suite green / demo fails | checks |', '|---|---|---|---|']
for f in sorted(glob.glob(f'{V}/seeded/*/meta.json')):
    m = json.load(open(f))
    c = m.get('confirmed', {})
    ok = ('yes' if c.get('suite_green_with_patch') else 'NO') + ' / ' + ('yes' if c.get('demo_fails_with_patch') else 'NO')
    chk = m.get('checks', {})
    chks = '; '.join(f'{k}: {v}' for k, v in chk.items()) if isinstance(chk, dict) else str(chk)
    note = m.get('notes', '')
    if note: chks += ' — ' + short(note, 200)
    rows.append(f"| {m['id']} | {esc(short(m.get('breaks','').lstrip('# '), 160))} | {ok} | {esc(chks)} |")
seeded = '\n'.join(rows)
ready = open(f'{V}/registry/_ready.txt').read().split()
rows = ['| property | level | theorems audited | what is proved (registry `what_is_proved`, abridged) |', '|---|---|---|---|']
for p in sorted(ready):
    r = json.load(open(f'{V}/registry/{p}.json'))
    rows.append(f"| {p} | {r.get('level')} | {len(r.get('theorems', []))} | {esc(short(r.get('what_is_proved',''), 600))} |")
claims = '\n'.join(rows)
# round 3: the paragraph each family's builder wrote for this section (notes/reports/round3_<family>.md)
r3 = []
for f in sorted(glob.glob(f'{V}/notes/reports/round3_*.md')):
    fam = os.path.basename(f)[len('round3_'):-3]
    t = open(f).read()
    m = re.search(r'^##[^\n]*Paragraph for DESIGN\.md[^\n]*\n(.*?)(?=^## |\Z)', t, re.S | re.M)
    if not m: continue
    body = '\n'.join(l[2:] if l.startswith('> ') else (l[1:] if l.startswith('>') else l) for l in m.group(1).strip().splitlines())
    r3.append(f'**Family `{fam}`** (full report: `notes/reports/round3_{fam}.md`)\n\n{body}\n')
round3 = '\n'.join(r3)
s = open(f'{V}/DESIGN.md').read()
for name, body in (('findings', findings), ('seeded', seeded), ('claims', claims), ('round3', round3)):
    pat = re.compile(rf'(<!-- BEGIN:{name} -->\n).*?(<!-- END:{name} -->)', re.S)
    if not pat.search(s): print('marker missing:', name); continue
    s = pat.sub(lambda m: m.group(1) + body + '\n' + m.group(2), s)
open(f'{V}/DESIGN.md', 'w').write(s)
print('DESIGN.md blocks regenerated')
