#!/bin/sh
# usage: tools/run_all.sh quick|thorough [props...]  — runs the claimed checks one after the other, prints one line each
TIER=${1:-quick}; shift
PROPS=${*:-$(cat "$(dirname "$0")/../registry/_ready.txt")}
cd "$(dirname "$0")/.."
for p in $PROPS; do
  s=$(date +%s)
  out=$(./check $p --tier $TIER 2>&1); rc=$?
  e=$(date +%s)
  echo "$p rc=$rc $((e-s))s $(echo "$out" | grep -E '^(VIOLATION|OK|ERROR)' | head -3 | cut -c1-160 | tr '\n' ';')"
done
