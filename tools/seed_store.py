#!/usr/bin/env python3
"""usage: seed_store.py <prop> <k> <src dir with patch.diff, demo_test.go|demo/, README.md> <repo subdir> <check>[,<check>...]
Trials the mutant with tools/try_mutant.sh, and stores it under /verif/seeded/<prop>-m<k>/ with meta.json."""
import sys, os, subprocess, json, shutil, re
prop, k, src, sub, checks = sys.argv[1:6]
checks = checks.split(',')
name = f"{prop}-m{k}"
demo = os.path.join(src, 'demo_test.go')
isdir = False
if not os.path.exists(demo):
    for d in ('demo', 'zz_demo'):
        if os.path.isdir(os.path.join(src, d)):
            demo = os.path.join(src, d); isdir = True
out = subprocess.run(['/verif/tools/try_mutant.sh', name, os.path.join(src, 'patch.diff'), demo, sub] + checks,
                     capture_output=True, text=True).stdout
print(out)
def rc(label):
    m = re.search(label + r': rc=(\d+)', out)
    return int(m.group(1)) if m else None
res = {}
for c in checks:
    lines = [l for l in out.splitlines() if l.startswith(f'[{c}] ')]
    if any('VIOLATION' in l for l in lines):
        nf = any('no-failing-input-found' in l for l in lines)
        res[c] = 'VIOLATION' + (' (no-failing-input-found)' if nf else ' with input replay')
    elif lines: res[c] = 'quiet (OK)'
    else: res[c] = 'no result line'
dst = f'/verif/seeded/{name}'
os.makedirs(dst, exist_ok=True)
if os.path.abspath(src) != os.path.abspath(dst): shutil.copy(os.path.join(src, 'patch.diff'), dst)
same = os.path.abspath(src) == os.path.abspath(dst)
if same: pass
elif isdir:
    shutil.rmtree(os.path.join(dst, 'demo'), ignore_errors=True); shutil.copytree(demo, os.path.join(dst, 'demo'))
else:
    shutil.copy(demo, dst)
readme = ''
for r in ('README.md', 'README_author.md'):
    if os.path.exists(os.path.join(src, r)):
        if not same: shutil.copy(os.path.join(src, r), os.path.join(dst, 'README_author.md'))
        readme = open(os.path.join(src, r)).read()
first = next((l.strip() for l in readme.splitlines() if l.strip()), '')
meta = {
 "id": name, "property": prop, "breaks": first,
 "demo": ({"dir": "demo", "run": "copy demo/ to <worktree>/zz_demo and `go run ./zz_demo`"} if isdir else
          {"file": "demo_test.go", "place_in": sub,
           "run": f"cp demo_test.go <worktree>/{sub}/zz_demo_test.go && cd <worktree>/{sub} && go test -vet=off -count=1 -run 'Demo|Mut|Seed' ."}),
 "confirmed": {"how": "tools/try_mutant.sh in a scratch worktree of /repo",
   "demo_passes_without": rc('demo without patch') == 0,
   "suite_green_with_patch": rc('suite with patch') == 0,
   "demo_fails_with_patch": (rc('demo with patch') or 0) != 0},
 "checks": res,
 "author": "fresh sub-agent given only the property text and a scratch worktree",
}
mp = os.path.join(dst, 'meta.json')
if os.path.exists(mp):
    old = json.load(open(mp))
    if old.get('notes'): meta['notes'] = old['notes'] + ' RE-TRIAL: ' + json.dumps(res)
    if old.get('breaks') and not meta['breaks']: meta['breaks'] = old['breaks']
    if old.get('checks') and old['checks'] != res: meta['first_trial'] = old.get('first_trial', old['checks'])
json.dump(meta, open(mp, 'w'), indent=1)
print(json.dumps(meta['confirmed']), json.dumps(res))
