#!/bin/bash
# usage: apply_fix.sh <notes/proposed_fixes/X.md> "<commit message starting with fix:>"
# Extracts the ```diff blocks of a proposed-fix note, applies only non-test hunks to /repo,
# runs the unedited suite, and commits. Leaves /repo untouched when anything fails.
set -e
md=$1; msg=$2
export GOFLAGS=-mod=mod GOPROXY=off GOSUMDB=off GOTOOLCHAIN=local
tmp=$(mktemp /tmp/fix.XXXXXX.diff)
awk '/^```diff/{f=1;next} /^```/{f=0} f' "$md" > "$tmp"
cd /repo
if [ -n "$(git status --short)" ]; then echo "repo dirty"; exit 2; fi
if ! git apply --exclude='*_test.go' "$tmp"; then echo "APPLY FAILED"; rm -f "$tmp"; exit 3; fi
if go build ./... && go test -vet=off -count=1 ./... > /tmp/fix_test.log 2>&1; then
  git commit -qam "$msg"; git log --oneline | head -1
else
  echo "SUITE FAILED"; grep -v "^ok" /tmp/fix_test.log | head -30; git checkout -- .; rm -f "$tmp"; exit 4
fi
rm -f "$tmp"
