// jpath_arms: structural facts for the JSONPath evaluator family (C05, C11), written to Gen/JpathArms.lean.
//
// For every evaluator of jp/ the switches its dispatch consists of, with their arms in source order:
//
//   - the five stack machines (Expr.Get, Expr.FirstFound, Expr.Has, Expr.GetNodes, Expr.FirstNode): the type
//     switch over the fragment (`switch tf := f.(type)`) — one row listing its cases — and, for every fragment
//     case, every switch inside it: the type switches over the container (`prev.(type)`), over a union member
//     (`u.(type)`), over the element to push (`v.(type)`: which kinds are handed on) and the kind switches of the
//     reflect fallback (`switch rt.Kind()`);
//   - the recursive evaluators: for every fragment type its `locate` and `Walk` methods, plus the helpers they
//     share (locateNthChildHas, locateContinueFrag, wildWalk);
//   - the reflect helpers of get.go (reflectGetChild, reflectGetNth, reflectGetWild, reflectGetWildOne,
//     reflectGetSlice) and script.go evalWithRoot (what a filter iterates over).
//
// A row is (evaluator, fragment case / receiver / helper name, switch subject, arms); an arm is the list of the
// types or kinds of one `case` (`default` for the default arm). Everything is printed without blanks.
// `OjgVerif.C11.arms_*` state that every (fragment kind × container kind) arm the Lean model has is an arm of
// the source: a dropped arm breaks a proof. Fails loudly when a function or the fragment switch is missing.
package main

import (
	"bytes"
	"fmt"
	"go/ast"
	"go/parser"
	"go/printer"
	"go/token"
	"os"
	"path/filepath"
	"strings"
)

func init() { registerExtra(extractJpathArms) }

type jpaRow struct {
	ev, frag, subj string
	arms           [][]string
}

func jpaText(fset *token.FileSet, n ast.Node) string {
	var b bytes.Buffer
	_ = printer.Fprint(&b, fset, n)
	return strings.Join(strings.Fields(b.String()), "")
}

func jpaArms(fset *token.FileSet, body *ast.BlockStmt) [][]string {
	var arms [][]string
	for _, st := range body.List {
		cc, ok := st.(*ast.CaseClause)
		if !ok {
			continue
		}
		if cc.List == nil {
			arms = append(arms, []string{"default"})
			continue
		}
		var arm []string
		for _, e := range cc.List {
			arm = append(arm, jpaText(fset, e))
		}
		arms = append(arms, arm)
	}
	return arms
}

// jpaSubject returns the subject of a type switch (`x` of `x.(type)`) printed without blanks.
func jpaSubject(fset *token.FileSet, ts *ast.TypeSwitchStmt) string {
	var x ast.Expr
	switch a := ts.Assign.(type) {
	case *ast.AssignStmt:
		if len(a.Rhs) == 1 {
			x = a.Rhs[0]
		}
	case *ast.ExprStmt:
		x = a.X
	}
	if ta, ok := x.(*ast.TypeAssertExpr); ok {
		return jpaText(fset, ta.X)
	}
	return "?"
}

// jpaSwitches lists every switch inside n (type switches, and expression switches with a tag) in source order.
func jpaSwitches(fset *token.FileSet, n ast.Node, ev, frag string) []jpaRow {
	var rows []jpaRow
	ast.Inspect(n, func(c ast.Node) bool {
		switch t := c.(type) {
		case *ast.TypeSwitchStmt:
			rows = append(rows, jpaRow{ev, frag, jpaSubject(fset, t), jpaArms(fset, t.Body)})
		case *ast.SwitchStmt:
			if t.Tag != nil {
				rows = append(rows, jpaRow{ev, frag, jpaText(fset, t.Tag), jpaArms(fset, t.Body)})
			}
		}
		return true
	})
	return rows
}

func extractJpathArms(repo, out string) ([]string, error) {
	fset := token.NewFileSet()
	files := map[string]*ast.File{}
	load := func(file string) (*ast.File, error) {
		if f, ok := files[file]; ok {
			return f, nil
		}
		path := filepath.Join(repo, "jp", file)
		src, err := os.ReadFile(path)
		if err != nil {
			return nil, err
		}
		f, err := parser.ParseFile(fset, path, src, 0)
		if err != nil {
			return nil, err
		}
		files[file] = f
		return f, nil
	}
	find := func(file, recv, name string) (*ast.FuncDecl, error) {
		f, err := load(file)
		if err != nil {
			return nil, err
		}
		for _, d := range f.Decls {
			fd, ok := d.(*ast.FuncDecl)
			if !ok || fd.Name.Name != name || fd.Body == nil {
				continue
			}
			r := ""
			if fd.Recv != nil && len(fd.Recv.List) == 1 {
				r = strings.TrimPrefix(jpaText(fset, fd.Recv.List[0].Type), "*")
			}
			if r == recv {
				return fd, nil
			}
		}
		return nil, fmt.Errorf("jpath_arms: func (%s) %s not found in jp/%s", recv, name, file)
	}

	var rows []jpaRow
	// the stack machines
	for _, m := range [][2]string{{"get.go", "Get"}, {"get.go", "FirstFound"}, {"has.go", "Has"}, {"node.go", "GetNodes"}, {"node.go", "FirstNode"}} {
		fd, err := find(m[0], "Expr", m[1])
		if err != nil {
			return nil, err
		}
		var fsw *ast.TypeSwitchStmt
		ast.Inspect(fd.Body, func(c ast.Node) bool {
			if ts, ok := c.(*ast.TypeSwitchStmt); ok && fsw == nil && jpaSubject(fset, ts) == "f" {
				fsw = ts
				return false
			}
			return true
		})
		if fsw == nil {
			return nil, fmt.Errorf("jpath_arms: no `switch tf := f.(type)` in Expr.%s", m[1])
		}
		rows = append(rows, jpaRow{m[1], "*", "f", jpaArms(fset, fsw.Body)})
		for _, st := range fsw.Body.List {
			cc, ok := st.(*ast.CaseClause)
			if !ok {
				continue
			}
			name := "default"
			if cc.List != nil {
				var ns []string
				for _, e := range cc.List {
					ns = append(ns, jpaText(fset, e))
				}
				name = strings.Join(ns, ",")
			}
			for _, s := range cc.Body {
				rows = append(rows, jpaSwitches(fset, s, m[1], name)...)
			}
		}
	}
	// the recursive evaluators
	for _, fr := range [][2]string{{"child.go", "Child"}, {"nth.go", "Nth"}, {"wildcard.go", "Wildcard"}, {"descent.go", "Descent"},
		{"union.go", "Union"}, {"slice.go", "Slice"}, {"filter.go", "Filter"}, {"root.go", "Root"}} {
		for _, meth := range []string{"locate", "Walk"} {
			fd, err := find(fr[0], fr[1], meth)
			if err != nil {
				return nil, err
			}
			rows = append(rows, jpaSwitches(fset, fd.Body, meth, fr[1])...)
		}
	}
	for _, h := range [][2]string{{"locate.go", "locateNthChildHas"}, {"locate.go", "locateContinueFrag"}, {"wildcard.go", "wildWalk"},
		{"get.go", "reflectGetChild"}, {"get.go", "reflectGetNth"}, {"get.go", "reflectGetWild"}, {"get.go", "reflectGetWildOne"},
		{"get.go", "reflectGetSlice"}} {
		fd, err := find(h[0], "", h[1])
		if err != nil {
			return nil, err
		}
		rows = append(rows, jpaSwitches(fset, fd.Body, "helper", h[1])...)
	}
	if fd, err := find("script.go", "Script", "evalWithRoot"); err != nil {
		return nil, err
	} else {
		rows = append(rows, jpaSwitches(fset, fd.Body, "helper", "evalWithRoot")...)
	}

	q := func(s string) string { return `"` + strings.ReplaceAll(strings.ReplaceAll(s, `\`, `\\`), `"`, `\"`) + `"` }
	var b strings.Builder
	b.WriteString("/- GENERATED by /verif/tools/extract (jpath_arms.go) from jp/*.go — do not edit; rewritten on every run.\n")
	b.WriteString("   The switches of the JSONPath evaluators with their arms in source order: (evaluator, fragment case /\n   receiver / helper, switch subject, arms); an arm is the list of types or kinds of one `case`. -/\n")
	b.WriteString("namespace OjgVerif.Gen.JpathArms\n\n")
	b.WriteString("structure Sw where\n  ev : String\n  frag : String\n  subj : String\n  arms : List (List String)\n\n")
	b.WriteString("def switches : List Sw := [\n")
	for i, r := range rows {
		var as []string
		for _, a := range r.arms {
			var es []string
			for _, e := range a {
				es = append(es, q(e))
			}
			as = append(as, "["+strings.Join(es, ", ")+"]")
		}
		sep := ","
		if i == len(rows)-1 {
			sep = ""
		}
		fmt.Fprintf(&b, "  ⟨%s, %s, %s, [%s]⟩%s\n", q(r.ev), q(r.frag), q(r.subj), strings.Join(as, ", "), sep)
	}
	b.WriteString("]\n\nend OjgVerif.Gen.JpathArms\n")
	path := filepath.Join(out, "JpathArms.lean")
	changed, err := writeIfChanged(path, b.String())
	if err != nil {
		return nil, err
	}
	if changed {
		return []string{"JpathArms.lean"}, nil
	}
	return nil, nil
}
