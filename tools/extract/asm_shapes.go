package main

// asm_shapes.go — per Eval function of package asm: for which argument counts 0..6 the arity guard at its top
// lets the call through, and in which order it evaluates its arguments (the constant indexes i of the calls
// evalArg(root, at, args[i]) in source order). Written to Gen/AsmShapes.lean; Props/C20.lean proves that the
// records of the model (ScalarFn.arity, swap, wants) and the list functions agree with it.

import (
	"fmt"
	"go/ast"
	"go/parser"
	"go/token"
	"os"
	"path/filepath"
	"sort"
	"strconv"
	"strings"
)

func init() { registerExtra(extractAsmShapes) }

// asmGuardEval evaluates a guard over n = len(args): ints, len(args), comparison and boolean operators.
func asmGuardEval(e ast.Expr, n int) (val int, isBool bool, b bool, err error) {
	switch t := e.(type) {
	case *ast.ParenExpr:
		return asmGuardEval(t.X, n)
	case *ast.BasicLit:
		if t.Kind != token.INT {
			return 0, false, false, fmt.Errorf("literal %s", t.Value)
		}
		v, perr := strconv.Atoi(t.Value)
		return v, false, false, perr
	case *ast.CallExpr:
		if id, ok := t.Fun.(*ast.Ident); ok && id.Name == "len" && len(t.Args) == 1 {
			if a, ok := t.Args[0].(*ast.Ident); ok && a.Name == "args" {
				return n, false, false, nil
			}
		}
		return 0, false, false, fmt.Errorf("call")
	case *ast.BinaryExpr:
		lv, lb, lbv, lerr := asmGuardEval(t.X, n)
		rv, rb, rbv, rerr := asmGuardEval(t.Y, n)
		if lerr != nil {
			return 0, false, false, lerr
		}
		if rerr != nil {
			return 0, false, false, rerr
		}
		switch t.Op {
		case token.LOR:
			if lb && rb {
				return 0, true, lbv || rbv, nil
			}
		case token.LAND:
			if lb && rb {
				return 0, true, lbv && rbv, nil
			}
		case token.NEQ:
			if !lb && !rb {
				return 0, true, lv != rv, nil
			}
		case token.EQL:
			if !lb && !rb {
				return 0, true, lv == rv, nil
			}
		case token.LSS:
			if !lb && !rb {
				return 0, true, lv < rv, nil
			}
		case token.GTR:
			if !lb && !rb {
				return 0, true, lv > rv, nil
			}
		case token.LEQ:
			if !lb && !rb {
				return 0, true, lv <= rv, nil
			}
		case token.GEQ:
			if !lb && !rb {
				return 0, true, lv >= rv, nil
			}
		}
		return 0, false, false, fmt.Errorf("operator %s", t.Op)
	}
	return 0, false, false, fmt.Errorf("expression %T", e)
}

func extractAsmShapes(repo, out string) ([]string, error) {
	dir := filepath.Join(repo, "asm")
	ents, err := os.ReadDir(dir)
	if err != nil {
		return nil, fmt.Errorf("asm shapes: %v", err)
	}
	fset := token.NewFileSet()
	type shape struct {
		name   string
		counts []int
		guard  bool
		order  []int
	}
	var shapes []shape
	appendReturn := ""
	for _, e := range ents {
		if e.IsDir() || !strings.HasSuffix(e.Name(), ".go") || strings.HasSuffix(e.Name(), "_test.go") {
			continue
		}
		f, err := parser.ParseFile(fset, filepath.Join(dir, e.Name()), nil, 0)
		if err != nil {
			return nil, fmt.Errorf("asm shapes: %v", err)
		}
		for _, d := range f.Decls {
			fd, ok := d.(*ast.FuncDecl)
			if !ok || fd.Recv != nil || fd.Body == nil || fd.Type.Params == nil {
				continue
			}
			// the Eval signature: (root map[string]any, at any, args ...any)
			var names []string
			variadic := false
			for _, p := range fd.Type.Params.List {
				for _, n := range p.Names {
					names = append(names, n.Name)
				}
				if _, ok := p.Type.(*ast.Ellipsis); ok {
					variadic = true
				}
			}
			if len(names) != 3 || names[0] != "root" || names[1] != "at" || names[2] != "args" || !variadic {
				continue
			}
			if fd.Name.Name == "appendEval" {
				ast.Inspect(fd.Body, func(n ast.Node) bool {
					if rs, ok := n.(*ast.ReturnStmt); ok && len(rs.Results) == 1 {
						appendReturn = asmExprText(fset, rs.Results[0])
					}
					return true
				})
			}
			sh := shape{name: fd.Name.Name}
			// the guard: the first statement, when it is `if <cond over len(args)> { panic(…) }`
			if len(fd.Body.List) > 0 {
				if is, ok := fd.Body.List[0].(*ast.IfStmt); ok && is.Init == nil && is.Else == nil && len(is.Body.List) == 1 {
					if es, ok := is.Body.List[0].(*ast.ExprStmt); ok {
						if ce, ok := es.X.(*ast.CallExpr); ok {
							if id, ok := ce.Fun.(*ast.Ident); ok && id.Name == "panic" {
								good := true
								var cs []int
								for n := 0; n <= 6; n++ {
									_, isB, b, gerr := asmGuardEval(is.Cond, n)
									if gerr != nil || !isB {
										good = false
										break
									}
									if !b {
										cs = append(cs, n)
									}
								}
								if good {
									sh.guard = true
									sh.counts = cs
								}
							}
						}
					}
				}
			}
			if !sh.guard {
				sh.counts = []int{0, 1, 2, 3, 4, 5, 6}
			}
			ast.Inspect(fd.Body, func(n ast.Node) bool {
				ce, ok := n.(*ast.CallExpr)
				if !ok || len(ce.Args) != 3 {
					return true
				}
				id, ok := ce.Fun.(*ast.Ident)
				if !ok || id.Name != "evalArg" {
					return true
				}
				if ix, ok := ce.Args[2].(*ast.IndexExpr); ok {
					if a, ok := ix.X.(*ast.Ident); ok && a.Name == "args" {
						if bl, ok := ix.Index.(*ast.BasicLit); ok && bl.Kind == token.INT {
							v, _ := strconv.Atoi(bl.Value)
							sh.order = append(sh.order, v)
							return true
						}
					}
				}
				sh.order = append(sh.order, -1) // an argument that is not args[<constant>] (a loop variable, …)
				return true
			})
			shapes = append(shapes, sh)
		}
	}
	if len(shapes) == 0 {
		return nil, fmt.Errorf("asm shapes: no Eval function found in %s", dir)
	}
	sort.Slice(shapes, func(i, j int) bool { return shapes[i].name < shapes[j].name })
	nat := func(xs []int) string {
		var p []string
		for _, x := range xs {
			if x < 0 {
				p = append(p, "99")
			} else {
				p = append(p, strconv.Itoa(x))
			}
		}
		return "[" + strings.Join(p, ", ") + "]"
	}
	var b strings.Builder
	b.WriteString("/- GENERATED by /verif/tools/extract (asm_shapes.go) from asm/*.go — do not edit; rewritten on every run. -/\n")
	b.WriteString("namespace OjgVerif.Gen.AsmShapes\n\n")
	b.WriteString("/-- per Eval function (root, at, args ...any): has an arity guard `if <cond over len(args)> { panic }` as its first\nstatement, the argument counts 0..6 the guard lets through (all when there is none), and the constant indexes i of\nthe calls evalArg(root, at, args[i]) in source order (99: an argument that is not args[<constant>]) -/\n")
	b.WriteString("def evalShapes : List (String × Bool × List Nat × List Nat) := [\n")
	for i, sh := range shapes {
		sep := ","
		if i == len(shapes)-1 {
			sep = ""
		}
		fmt.Fprintf(&b, "  (%s, %v, %s, %s)%s\n", asmLeanStr(sh.name), sh.guard, nat(sh.counts), nat(sh.order), sep)
	}
	b.WriteString("]\n\n/-- what appendEval returns (the expression of its last return statement) -/\n")
	fmt.Fprintf(&b, "def appendReturn : String := %s\n", asmLeanStr(appendReturn))
	b.WriteString("\nend OjgVerif.Gen.AsmShapes\n")
	ch, err := writeIfChanged(filepath.Join(out, "AsmShapes.lean"), b.String())
	if err != nil {
		return nil, err
	}
	if ch {
		return []string{"AsmShapes.lean"}, nil
	}
	return nil, nil
}
