// Extra extraction for the match family (C17), written to Gen/MatchFacts.lean.
//
// Regression tripwires over the patched (or to-be-patched) lines of jp/match.go and
// jp/matchhandler.go: one syntactic fact per deviation flag of the model (lean/OjgVerif/Match/
// Model.lean, `Dev`). They do NOT show that the Go code is the model — that tie is the
// correspondence run — they only make the proof module fail to build when one of these lines changes
// without `Dev.cur` being changed with it (theorem OjgVerif.C17.dev_cur_matches_source).
//
//   - descentBeforeLenCheck: in the `for … range target` loop of PathMatch a statement
//     `if _, ok := f.(Descent); ok { … for { … } … }` (an endless loop: the used-up path is tried too)
//     stands BEFORE the statement `if len(path) == 0 { return false }` (repair ba8abfd). false: the
//     descent is a `case Descent:` of the type switch after that check.
//   - sliceCaseCalls: the functions and methods called in the `case Slice:` clause of PathMatch's type
//     switch (none: every index matches; the proposed fix calls couldSelect).
//   - checkRestLocateMax: the literal second argument of the `.Locate(…)` call in
//     MatchHandler.checkRest (1: one location; 0: all); checkRestCallsFirst: checkRest calls `.First(`
//     on the Rest expression (the value is looked up separately from the located path).
//
// It fails loudly on source shapes it cannot read.
package main

import (
	"fmt"
	"go/ast"
	"go/parser"
	"go/token"
	"path/filepath"
	"sort"
	"strconv"
	"strings"
)

func init() { registerExtra(extractMatch) }

func mtFunc(repo, file, recv, name string) (*ast.FuncDecl, error) {
	fset := token.NewFileSet()
	f, err := parser.ParseFile(fset, filepath.Join(repo, "jp", file), nil, 0)
	if err != nil {
		return nil, fmt.Errorf("match: %v", err)
	}
	for _, d := range f.Decls {
		fd, ok := d.(*ast.FuncDecl)
		if !ok || fd.Name.Name != name || fd.Body == nil {
			continue
		}
		r := ""
		if fd.Recv != nil && len(fd.Recv.List) == 1 {
			switch t := fd.Recv.List[0].Type.(type) {
			case *ast.StarExpr:
				if id, ok := t.X.(*ast.Ident); ok {
					r = id.Name
				}
			case *ast.Ident:
				r = t.Name
			}
		}
		if r == recv {
			return fd, nil
		}
	}
	return nil, fmt.Errorf("match: jp/%s has no function %s.%s", file, recv, name)
}

func mtIsIdent(e ast.Expr, name string) bool {
	id, ok := e.(*ast.Ident)
	return ok && id.Name == name
}

// mtAssertsDescent: `_, ok := f.(Descent)`
func mtAssertsDescent(s ast.Stmt) bool {
	as, ok := s.(*ast.AssignStmt)
	if !ok || len(as.Rhs) != 1 {
		return false
	}
	ta, ok := as.Rhs[0].(*ast.TypeAssertExpr)
	return ok && ta.Type != nil && mtIsIdent(ta.Type, "Descent")
}

// mtIsLenPathZero: `len(path) == 0`
func mtIsLenPathZero(e ast.Expr) bool {
	be, ok := e.(*ast.BinaryExpr)
	if !ok || be.Op != token.EQL {
		return false
	}
	c, ok := be.X.(*ast.CallExpr)
	if !ok || !mtIsIdent(c.Fun, "len") || len(c.Args) != 1 || !mtIsIdent(c.Args[0], "path") {
		return false
	}
	bl, ok := be.Y.(*ast.BasicLit)
	return ok && bl.Value == "0"
}

func mtCalls(n ast.Node) []string {
	set := map[string]bool{}
	ast.Inspect(n, func(x ast.Node) bool {
		if c, ok := x.(*ast.CallExpr); ok {
			switch f := c.Fun.(type) {
			case *ast.Ident:
				set[f.Name] = true
			case *ast.SelectorExpr:
				set[f.Sel.Name] = true
			}
		}
		return true
	})
	var out []string
	for k := range set {
		out = append(out, k)
	}
	sort.Strings(out)
	return out
}

func extractMatch(repo, out string) ([]string, error) {
	pm, err := mtFunc(repo, "match.go", "", "PathMatch")
	if err != nil {
		return nil, err
	}
	// the loop over the target
	var loop *ast.RangeStmt
	for _, s := range pm.Body.List {
		if rs, ok := s.(*ast.RangeStmt); ok && mtIsIdent(rs.X, "target") {
			if loop != nil {
				return nil, fmt.Errorf("match: PathMatch has two loops over target")
			}
			loop = rs
		}
	}
	if loop == nil {
		return nil, fmt.Errorf("match: PathMatch has no `for … range target` loop")
	}
	descentAt, lenAt, switchAt := -1, -1, -1
	descentEndless := false
	var sw *ast.TypeSwitchStmt
	for i, s := range loop.Body.List {
		switch t := s.(type) {
		case *ast.IfStmt:
			if t.Init != nil && mtAssertsDescent(t.Init) {
				if descentAt >= 0 {
					return nil, fmt.Errorf("match: two descent tests in PathMatch's loop")
				}
				descentAt = i
				ast.Inspect(t.Body, func(x ast.Node) bool {
					if f, ok := x.(*ast.ForStmt); ok && f.Cond == nil && f.Init == nil && f.Post == nil {
						descentEndless = true
					}
					return true
				})
			} else if t.Init == nil && mtIsLenPathZero(t.Cond) && lenAt < 0 {
				lenAt = i
			}
		case *ast.TypeSwitchStmt:
			if as, ok := t.Assign.(*ast.AssignStmt); ok && len(as.Rhs) == 1 {
				if ta, ok := as.Rhs[0].(*ast.TypeAssertExpr); ok && mtIsIdent(ta.X, "f") {
					switchAt = i
					sw = t
				}
			}
		}
	}
	if lenAt < 0 || sw == nil {
		return nil, fmt.Errorf("match: PathMatch's loop has no `if len(path) == 0` test or no type switch on f")
	}
	if lenAt > switchAt {
		return nil, fmt.Errorf("match: the `len(path) == 0` test of PathMatch comes after the type switch")
	}
	var sliceClause, descentClause *ast.CaseClause
	for _, c := range sw.Body.List {
		cc := c.(*ast.CaseClause)
		for _, e := range cc.List {
			if mtIsIdent(e, "Slice") {
				sliceClause = cc
			}
			if mtIsIdent(e, "Descent") {
				descentClause = cc
			}
		}
	}
	if sliceClause == nil {
		return nil, fmt.Errorf("match: PathMatch's type switch has no `case Slice`")
	}
	descentFirst := false
	switch {
	case descentAt >= 0 && descentClause == nil:
		if descentAt > lenAt || !descentEndless {
			return nil, fmt.Errorf("match: the descent test of PathMatch is not in front of the length test or has no endless loop")
		}
		descentFirst = true
	case descentAt < 0 && descentClause != nil:
		descentFirst = false
	default:
		return nil, fmt.Errorf("match: PathMatch handles Descent neither only in front of the loop's length test nor only in the type switch")
	}
	var sliceCalls []string
	for _, s := range sliceClause.Body {
		sliceCalls = append(sliceCalls, mtCalls(s)...)
	}

	cr, err := mtFunc(repo, "matchhandler.go", "MatchHandler", "checkRest")
	if err != nil {
		return nil, err
	}
	locateMax := int64(-1)
	nLocate := 0
	callsFirst := false
	ast.Inspect(cr.Body, func(x ast.Node) bool {
		c, ok := x.(*ast.CallExpr)
		if !ok {
			return true
		}
		sel, ok := c.Fun.(*ast.SelectorExpr)
		if !ok {
			return true
		}
		switch sel.Sel.Name {
		case "Locate":
			nLocate++
			if len(c.Args) == 2 {
				if bl, ok := c.Args[1].(*ast.BasicLit); ok {
					if v, err := strconv.ParseInt(bl.Value, 0, 64); err == nil {
						locateMax = v
					}
				}
			}
		case "First":
			if inner, ok := sel.X.(*ast.SelectorExpr); ok && inner.Sel.Name == "Rest" {
				callsFirst = true
			}
		}
		return true
	})
	if nLocate != 1 || locateMax < 0 {
		return nil, fmt.Errorf("match: MatchHandler.checkRest does not hold exactly one `.Locate(v, <literal>)` call")
	}

	var sb strings.Builder
	sb.WriteString("/-! GENERATED by tools/extract (match.go) from jp/match.go, jp/matchhandler.go — do not edit.\n")
	sb.WriteString("Regression tripwires over the patched lines behind the `Dev` flags of Match/Model.lean (see\ntools/extract/match.go for what each one reads). -/\n")
	sb.WriteString("namespace OjgVerif.Gen.MatchFacts\n\n")
	fmt.Fprintf(&sb, "def descentBeforeLenCheck : Bool := %v\n", descentFirst)
	sb.WriteString("def sliceCaseCalls : List String := [")
	for i, c := range sliceCalls {
		if i > 0 {
			sb.WriteString(", ")
		}
		sb.WriteString(strconv.Quote(c))
	}
	sb.WriteString("]\n")
	fmt.Fprintf(&sb, "def checkRestLocateMax : Int := %d\n", locateMax)
	fmt.Fprintf(&sb, "def checkRestCallsFirst : Bool := %v\n", callsFirst)
	sb.WriteString("\nend OjgVerif.Gen.MatchFacts\n")
	path := filepath.Join(out, "MatchFacts.lean")
	changed, err := writeIfChanged(path, sb.String())
	if err != nil {
		return nil, err
	}
	if changed {
		return []string{"MatchFacts.lean"}, nil
	}
	return nil, nil
}
