// Extra extraction for the match family (C17), written to Gen/MatchFacts.lean.
//
// Regression tripwires over the patched (or to-be-patched) lines of jp/match.go and
// jp/matchhandler.go: one syntactic fact per deviation flag of the model (lean/OjgVerif/Match/
// Model.lean, `Dev`). They do NOT show that the Go code is the model — that tie is the
// correspondence run — they only make the proof module fail to build when one of these lines changes
// without `Dev.cur` being changed with it (theorem OjgVerif.C17.dev_cur_matches_source).
//
//   - descentBeforeLenCheck: in the `for … range target` loop of PathMatch a statement
//     `if _, ok := f.(Descent); ok { … for { … } … }` (an endless loop: the used-up path is tried too)
//     stands BEFORE the statement `if len(path) == 0 { return false }` (repair ba8abfd). false: the
//     descent is a `case Descent:` of the type switch after that check.
//   - sliceCaseCalls: the functions and methods called in the `case Slice:` clause of PathMatch's type
//     switch (none: every index matches; the proposed fix calls couldSelect).
//   - checkRestLocateMax: the literal second argument of the `.Locate(…)` call in
//     MatchHandler.checkRest (1: one location; 0: all); checkRestCallsFirst: checkRest calls `.First(`
//     on the Rest expression (the value is looked up separately from the located path).
//
// Handler methods (goal: a dropped push/pop of h.Stack / h.Path, a dropped incNth()/OnData call, a
// changed start fragment breaks a Lean proof, theorem OjgVerif.Match.handler_methods_match_source in
// lean/OjgVerif/Match/HandlerFacts.lean): a statement-level rendering of the event methods of
// jp.MatchHandler and of the helpers they call. For every method there is `sig_<name> : String` (the
// declaration without its body) and `body_<name> : List String`: one entry per statement in source
// order, two spaces of indentation per nesting level; simple statements are printed as Go text (one
// line, go/printer), `if`/`else if`/`else`, `switch`, `case`, `for` are printed as a header entry
// (with the init statement and the condition) followed by their bodies one level deeper.
// `tokenMethods` collects the eleven TokenHandler methods, `helperMethods` the helpers, and
// `declaredMethods` lists every method declared on MatchHandler in source order. Again a syntactic
// tripwire, not a semantic tie.
//
// It fails loudly on source shapes it cannot read.
package main

import (
	"bytes"
	"fmt"
	"go/ast"
	"go/parser"
	"go/printer"
	"go/token"
	"path/filepath"
	"regexp"
	"sort"
	"strconv"
	"strings"
)

func init() { registerExtra(extractMatch) }

func mtFunc(repo, file, recv, name string) (*ast.FuncDecl, error) {
	fset := token.NewFileSet()
	f, err := parser.ParseFile(fset, filepath.Join(repo, "jp", file), nil, 0)
	if err != nil {
		return nil, fmt.Errorf("match: %v", err)
	}
	for _, d := range f.Decls {
		fd, ok := d.(*ast.FuncDecl)
		if !ok || fd.Name.Name != name || fd.Body == nil {
			continue
		}
		r := ""
		if fd.Recv != nil && len(fd.Recv.List) == 1 {
			switch t := fd.Recv.List[0].Type.(type) {
			case *ast.StarExpr:
				if id, ok := t.X.(*ast.Ident); ok {
					r = id.Name
				}
			case *ast.Ident:
				r = t.Name
			}
		}
		if r == recv {
			return fd, nil
		}
	}
	return nil, fmt.Errorf("match: jp/%s has no function %s.%s", file, recv, name)
}

func mtIsIdent(e ast.Expr, name string) bool {
	id, ok := e.(*ast.Ident)
	return ok && id.Name == name
}

// mtAssertsDescent: `_, ok := f.(Descent)`
func mtAssertsDescent(s ast.Stmt) bool {
	as, ok := s.(*ast.AssignStmt)
	if !ok || len(as.Rhs) != 1 {
		return false
	}
	ta, ok := as.Rhs[0].(*ast.TypeAssertExpr)
	return ok && ta.Type != nil && mtIsIdent(ta.Type, "Descent")
}

// mtIsLenPathZero: `len(path) == 0`
func mtIsLenPathZero(e ast.Expr) bool {
	be, ok := e.(*ast.BinaryExpr)
	if !ok || be.Op != token.EQL {
		return false
	}
	c, ok := be.X.(*ast.CallExpr)
	if !ok || !mtIsIdent(c.Fun, "len") || len(c.Args) != 1 || !mtIsIdent(c.Args[0], "path") {
		return false
	}
	bl, ok := be.Y.(*ast.BasicLit)
	return ok && bl.Value == "0"
}

func mtCalls(n ast.Node) []string {
	set := map[string]bool{}
	ast.Inspect(n, func(x ast.Node) bool {
		if c, ok := x.(*ast.CallExpr); ok {
			switch f := c.Fun.(type) {
			case *ast.Ident:
				set[f.Name] = true
			case *ast.SelectorExpr:
				set[f.Sel.Name] = true
			}
		}
		return true
	})
	var out []string
	for k := range set {
		out = append(out, k)
	}
	sort.Strings(out)
	return out
}

func extractMatch(repo, out string) ([]string, error) {
	pm, err := mtFunc(repo, "match.go", "", "PathMatch")
	if err != nil {
		return nil, err
	}
	// the loop over the target
	var loop *ast.RangeStmt
	for _, s := range pm.Body.List {
		if rs, ok := s.(*ast.RangeStmt); ok && mtIsIdent(rs.X, "target") {
			if loop != nil {
				return nil, fmt.Errorf("match: PathMatch has two loops over target")
			}
			loop = rs
		}
	}
	if loop == nil {
		return nil, fmt.Errorf("match: PathMatch has no `for … range target` loop")
	}
	descentAt, lenAt, switchAt := -1, -1, -1
	descentEndless := false
	var sw *ast.TypeSwitchStmt
	for i, s := range loop.Body.List {
		switch t := s.(type) {
		case *ast.IfStmt:
			if t.Init != nil && mtAssertsDescent(t.Init) {
				if descentAt >= 0 {
					return nil, fmt.Errorf("match: two descent tests in PathMatch's loop")
				}
				descentAt = i
				ast.Inspect(t.Body, func(x ast.Node) bool {
					if f, ok := x.(*ast.ForStmt); ok && f.Cond == nil && f.Init == nil && f.Post == nil {
						descentEndless = true
					}
					return true
				})
			} else if t.Init == nil && mtIsLenPathZero(t.Cond) && lenAt < 0 {
				lenAt = i
			}
		case *ast.TypeSwitchStmt:
			if as, ok := t.Assign.(*ast.AssignStmt); ok && len(as.Rhs) == 1 {
				if ta, ok := as.Rhs[0].(*ast.TypeAssertExpr); ok && mtIsIdent(ta.X, "f") {
					switchAt = i
					sw = t
				}
			}
		}
	}
	if lenAt < 0 || sw == nil {
		return nil, fmt.Errorf("match: PathMatch's loop has no `if len(path) == 0` test or no type switch on f")
	}
	if lenAt > switchAt {
		return nil, fmt.Errorf("match: the `len(path) == 0` test of PathMatch comes after the type switch")
	}
	var sliceClause, descentClause *ast.CaseClause
	for _, c := range sw.Body.List {
		cc := c.(*ast.CaseClause)
		for _, e := range cc.List {
			if mtIsIdent(e, "Slice") {
				sliceClause = cc
			}
			if mtIsIdent(e, "Descent") {
				descentClause = cc
			}
		}
	}
	if sliceClause == nil {
		return nil, fmt.Errorf("match: PathMatch's type switch has no `case Slice`")
	}
	descentFirst := false
	switch {
	case descentAt >= 0 && descentClause == nil:
		if descentAt > lenAt || !descentEndless {
			return nil, fmt.Errorf("match: the descent test of PathMatch is not in front of the length test or has no endless loop")
		}
		descentFirst = true
	case descentAt < 0 && descentClause != nil:
		descentFirst = false
	default:
		return nil, fmt.Errorf("match: PathMatch handles Descent neither only in front of the loop's length test nor only in the type switch")
	}
	var sliceCalls []string
	for _, s := range sliceClause.Body {
		sliceCalls = append(sliceCalls, mtCalls(s)...)
	}

	cr, err := mtFunc(repo, "matchhandler.go", "MatchHandler", "checkRest")
	if err != nil {
		return nil, err
	}
	locateMax := int64(-1)
	nLocate := 0
	callsFirst := false
	ast.Inspect(cr.Body, func(x ast.Node) bool {
		c, ok := x.(*ast.CallExpr)
		if !ok {
			return true
		}
		sel, ok := c.Fun.(*ast.SelectorExpr)
		if !ok {
			return true
		}
		switch sel.Sel.Name {
		case "Locate":
			nLocate++
			if len(c.Args) == 2 {
				if bl, ok := c.Args[1].(*ast.BasicLit); ok {
					if v, err := strconv.ParseInt(bl.Value, 0, 64); err == nil {
						locateMax = v
					}
				}
			}
		case "First":
			if inner, ok := sel.X.(*ast.SelectorExpr); ok && inner.Sel.Name == "Rest" {
				callsFirst = true
			}
		}
		return true
	})
	if nLocate != 1 || locateMax < 0 {
		return nil, fmt.Errorf("match: MatchHandler.checkRest does not hold exactly one `.Locate(v, <literal>)` call")
	}

	var sb strings.Builder
	sb.WriteString("/-! GENERATED by tools/extract (match.go) from jp/match.go, jp/matchhandler.go — do not edit.\n")
	sb.WriteString("Regression tripwires over the patched lines behind the `Dev` flags of Match/Model.lean (see\ntools/extract/match.go for what each one reads). -/\n")
	sb.WriteString("namespace OjgVerif.Gen.MatchFacts\n\n")
	fmt.Fprintf(&sb, "def descentBeforeLenCheck : Bool := %v\n", descentFirst)
	sb.WriteString("def sliceCaseCalls : List String := [")
	for i, c := range sliceCalls {
		if i > 0 {
			sb.WriteString(", ")
		}
		sb.WriteString(strconv.Quote(c))
	}
	sb.WriteString("]\n")
	fmt.Fprintf(&sb, "def checkRestLocateMax : Int := %d\n", locateMax)
	fmt.Fprintf(&sb, "def checkRestCallsFirst : Bool := %v\n", callsFirst)
	hm, err := mhHandlerFacts(repo)
	if err != nil {
		return nil, err
	}
	sb.WriteString(hm)
	// the condition of the BOM top-up loop of (*Tokenizer).Load (known finding
	// C17-empty-first-read-bom, flag emptyFirstReadNoBom of lean/OjgVerif/Match/Tokenizer.lean)
	for _, pkg := range []string{"oj", "sen"} {
		cond, err := mtLoadTopUpCond(repo, pkg)
		if err != nil {
			return nil, err
		}
		q, err := mhLeanString(cond)
		if err != nil {
			return nil, err
		}
		fmt.Fprintf(&sb, "\n/-- condition of the byte-order-mark top-up loop of (*%s.Tokenizer).Load -/\ndef %sLoadTopUpCond : String := %s\n", pkg, pkg, q)
	}
	sb.WriteString("\nend OjgVerif.Gen.MatchFacts\n")
	path := filepath.Join(out, "MatchFacts.lean")
	changed, err := writeIfChanged(path, sb.String())
	if err != nil {
		return nil, err
	}
	if changed {
		return []string{"MatchFacts.lean"}, nil
	}
	return nil, nil
}

// mtLoadTopUpCond: the condition of the one `for` loop of (*Tokenizer).Load in <pkg>/tokenizer.go that
// mentions 0xEF (the loop that reads on until a byte order mark can be seen whole), as Go source.
func mtLoadTopUpCond(repo, pkg string) (string, error) {
	fset := token.NewFileSet()
	f, err := parser.ParseFile(fset, filepath.Join(repo, pkg, "tokenizer.go"), nil, 0)
	if err != nil {
		return "", fmt.Errorf("match: %v", err)
	}
	found := ""
	n := 0
	for _, d := range f.Decls {
		fd, ok := d.(*ast.FuncDecl)
		if !ok || fd.Name.Name != "Load" || fd.Body == nil || mhRecvName(fd) != "Tokenizer" {
			continue
		}
		var perr error
		ast.Inspect(fd.Body, func(x ast.Node) bool {
			fs, ok := x.(*ast.ForStmt)
			if !ok || fs.Cond == nil {
				return true
			}
			var buf bytes.Buffer
			cfg := printer.Config{Mode: printer.RawFormat, Tabwidth: 8}
			if err := cfg.Fprint(&buf, fset, fs.Cond); err != nil {
				perr = err
				return false
			}
			txt := strings.TrimSpace(mhNewline.ReplaceAllString(buf.String(), " "))
			if strings.Contains(txt, "0xEF") {
				found = txt
				n++
			}
			return true
		})
		if perr != nil {
			return "", fmt.Errorf("match: cannot print a loop condition of %s/tokenizer.go: %v", pkg, perr)
		}
	}
	if n != 1 {
		return "", fmt.Errorf("match: (*Tokenizer).Load of %s/tokenizer.go has %d loops with a 0xEF test, expected 1", pkg, n)
	}
	return found, nil
}

// ---- statement-level rendering of the MatchHandler methods ----

// the TokenHandler methods (oj.TokenHandler / sen.TokenHandler) in the order of the interface
var mhTokenMethods = []string{"Null", "Bool", "Int", "Float", "Number", "String",
	"ObjectStart", "ObjectEnd", "Key", "ArrayStart", "ArrayEnd"}

// the helpers the token methods call (and the handler's own pathMatch); checkRest is read by the
// facts above. NewMatchHandler is a plain function (receiver "").
var mhHelperMethods = []string{"AddValue", "objArrayStart", "objArrayEnd", "incNth", "pathMatch"}

var mhNewline = regexp.MustCompile(`[ ]*[\t\n][ \t\n]*`)

type mhWalker struct {
	fset  *token.FileSet
	lines []string
}

// mhText prints a node as Go source on one line.
func (w *mhWalker) text(n ast.Node) (string, error) {
	var buf bytes.Buffer
	cfg := printer.Config{Mode: printer.RawFormat, Tabwidth: 8}
	if err := cfg.Fprint(&buf, w.fset, n); err != nil {
		return "", fmt.Errorf("match: cannot print a node of jp/matchhandler.go: %v", err)
	}
	return strings.TrimSpace(mhNewline.ReplaceAllString(buf.String(), " ")), nil
}

func (w *mhWalker) emit(depth int, s string) {
	w.lines = append(w.lines, strings.Repeat("  ", depth)+s)
}

func (w *mhWalker) block(list []ast.Stmt, depth int) error {
	for _, s := range list {
		if err := w.stmt(s, depth); err != nil {
			return err
		}
	}
	return nil
}

// header: "<kw> <init>; <rest>" / "<kw> <rest>" / "<kw>"
func (w *mhWalker) header(kw string, init ast.Stmt, rest ast.Node) (string, error) {
	h := kw
	if init != nil {
		t, err := w.text(init)
		if err != nil {
			return "", err
		}
		h += " " + t + ";"
	}
	if rest != nil {
		t, err := w.text(rest)
		if err != nil {
			return "", err
		}
		h += " " + t
	}
	return h, nil
}

func (w *mhWalker) ifStmt(t *ast.IfStmt, depth int, kw string) error {
	if t.Cond == nil {
		return fmt.Errorf("match: an if statement without a condition in jp/matchhandler.go")
	}
	h, err := w.header(kw, t.Init, t.Cond)
	if err != nil {
		return err
	}
	w.emit(depth, h)
	if err := w.block(t.Body.List, depth+1); err != nil {
		return err
	}
	switch e := t.Else.(type) {
	case nil:
	case *ast.IfStmt:
		return w.ifStmt(e, depth, "else if")
	case *ast.BlockStmt:
		w.emit(depth, "else")
		return w.block(e.List, depth+1)
	default:
		return fmt.Errorf("match: unreadable else branch (%T) in jp/matchhandler.go", t.Else)
	}
	return nil
}

func (w *mhWalker) clauses(body *ast.BlockStmt, depth int) error {
	for _, c := range body.List {
		cc, ok := c.(*ast.CaseClause)
		if !ok {
			return fmt.Errorf("match: unreadable switch clause (%T) in jp/matchhandler.go", c)
		}
		if cc.List == nil {
			w.emit(depth, "default")
		} else {
			var es []string
			for _, e := range cc.List {
				t, err := w.text(e)
				if err != nil {
					return err
				}
				es = append(es, t)
			}
			w.emit(depth, "case "+strings.Join(es, ", "))
		}
		if err := w.block(cc.Body, depth+1); err != nil {
			return err
		}
	}
	return nil
}

func (w *mhWalker) stmt(s ast.Stmt, depth int) error {
	switch t := s.(type) {
	case *ast.ExprStmt, *ast.AssignStmt, *ast.IncDecStmt, *ast.ReturnStmt, *ast.BranchStmt, *ast.DeclStmt:
		txt, err := w.text(t)
		if err != nil {
			return err
		}
		w.emit(depth, txt)
	case *ast.IfStmt:
		return w.ifStmt(t, depth, "if")
	case *ast.TypeSwitchStmt:
		h, err := w.header("switch", t.Init, t.Assign)
		if err != nil {
			return err
		}
		w.emit(depth, h)
		return w.clauses(t.Body, depth+1)
	case *ast.SwitchStmt:
		var tag ast.Node
		if t.Tag != nil {
			tag = t.Tag
		}
		h, err := w.header("switch", t.Init, tag)
		if err != nil {
			return err
		}
		w.emit(depth, h)
		return w.clauses(t.Body, depth+1)
	case *ast.ForStmt:
		h := "for"
		if t.Init != nil || t.Post != nil {
			parts := []string{"", "", ""}
			for i, n := range []ast.Node{t.Init, t.Cond, t.Post} {
				// a nil statement inside the interface is not a nil interface
				if (i == 0 && t.Init == nil) || (i == 1 && t.Cond == nil) || (i == 2 && t.Post == nil) {
					continue
				}
				x, err := w.text(n)
				if err != nil {
					return err
				}
				parts[i] = x
			}
			h = "for " + parts[0] + "; " + parts[1] + "; " + parts[2]
		} else if t.Cond != nil {
			x, err := w.text(t.Cond)
			if err != nil {
				return err
			}
			h = "for " + x
		}
		w.emit(depth, h)
		return w.block(t.Body.List, depth+1)
	case *ast.RangeStmt:
		h := "for "
		if t.Key != nil {
			k, err := w.text(t.Key)
			if err != nil {
				return err
			}
			h += k
			if t.Value != nil {
				v, err := w.text(t.Value)
				if err != nil {
					return err
				}
				h += ", " + v
			}
			h += " " + t.Tok.String() + " "
		}
		x, err := w.text(t.X)
		if err != nil {
			return err
		}
		w.emit(depth, h+"range "+x)
		return w.block(t.Body.List, depth+1)
	case *ast.BlockStmt:
		w.emit(depth, "block")
		return w.block(t.List, depth+1)
	default:
		return fmt.Errorf("match: statement kind %T in jp/matchhandler.go is not rendered", s)
	}
	return nil
}

// mhLeanString: a Lean string literal; only printable ASCII is let through.
func mhLeanString(s string) (string, error) {
	var sb strings.Builder
	sb.WriteByte('"')
	for _, r := range s {
		switch {
		case r == '"' || r == '\\':
			sb.WriteByte('\\')
			sb.WriteRune(r)
		case r >= 0x20 && r < 0x7f:
			sb.WriteRune(r)
		default:
			return "", fmt.Errorf("match: character %q in the rendering of jp/matchhandler.go (%q)", r, s)
		}
	}
	sb.WriteByte('"')
	return sb.String(), nil
}

func mhRecvName(fd *ast.FuncDecl) string {
	if fd.Recv == nil || len(fd.Recv.List) != 1 {
		return ""
	}
	switch t := fd.Recv.List[0].Type.(type) {
	case *ast.StarExpr:
		if id, ok := t.X.(*ast.Ident); ok {
			return id.Name
		}
	case *ast.Ident:
		return t.Name
	}
	return "?"
}

type mhMethod struct {
	name, sig string
	body      []string
}

// mhHandlerFacts renders the methods of MatchHandler as Lean definitions (see the file comment).
func mhHandlerFacts(repo string) (string, error) {
	fset := token.NewFileSet()
	f, err := parser.ParseFile(fset, filepath.Join(repo, "jp", "matchhandler.go"), nil, 0)
	if err != nil {
		return "", fmt.Errorf("match: %v", err)
	}
	decls := map[string]*ast.FuncDecl{} // "<recv>.<name>"
	var declared []string
	for _, d := range f.Decls {
		fd, ok := d.(*ast.FuncDecl)
		if !ok {
			continue
		}
		r := mhRecvName(fd)
		key := r + "." + fd.Name.Name
		if _, dup := decls[key]; dup {
			return "", fmt.Errorf("match: jp/matchhandler.go declares %s twice", key)
		}
		decls[key] = fd
		if r == "MatchHandler" {
			declared = append(declared, fd.Name.Name)
		}
	}
	render := func(recv, name string) (mhMethod, error) {
		fd := decls[recv+"."+name]
		if fd == nil || fd.Body == nil {
			return mhMethod{}, fmt.Errorf("match: jp/matchhandler.go has no function %s.%s with a body", recv, name)
		}
		w := &mhWalker{fset: fset}
		sig, err := w.text(&ast.FuncDecl{Recv: fd.Recv, Name: fd.Name, Type: fd.Type})
		if err != nil {
			return mhMethod{}, err
		}
		if err := w.block(fd.Body.List, 0); err != nil {
			return mhMethod{}, fmt.Errorf("%v (in %s)", err, name)
		}
		return mhMethod{name, sig, w.lines}, nil
	}
	var tokens, helpers []mhMethod
	for _, n := range mhTokenMethods {
		m, err := render("MatchHandler", n)
		if err != nil {
			return "", err
		}
		// shape: one statement, a call of a method on the receiver or an assignment
		if len(m.body) != 1 {
			return "", fmt.Errorf("match: MatchHandler.%s is not a single statement", n)
		}
		tokens = append(tokens, m)
	}
	for _, n := range mhHelperMethods {
		m, err := render("MatchHandler", n)
		if err != nil {
			return "", err
		}
		helpers = append(helpers, m)
	}
	nm, err := render("", "NewMatchHandler")
	if err != nil {
		return "", err
	}
	helpers = append(helpers, nm)

	var sb strings.Builder
	var ferr error
	q := func(s string) string {
		t, err := mhLeanString(s)
		if err != nil && ferr == nil {
			ferr = err
		}
		return t
	}
	sb.WriteString("\n/-! Statement-level rendering of the methods of `jp.MatchHandler` (jp/matchhandler.go): `sig_<m>` the\n")
	sb.WriteString("declaration, `body_<m>` one entry per statement in source order, two spaces per nesting level, `if` /\n")
	sb.WriteString("`else if` / `else` / `switch` / `case` / `for` headers as entries of their own. Compared with the\n")
	sb.WriteString("model in Match/HandlerFacts.lean. -/\n\n")
	sb.WriteString("def declaredMethods : List String := [")
	for i, n := range declared {
		if i > 0 {
			sb.WriteString(", ")
		}
		sb.WriteString(q(n))
	}
	sb.WriteString("]\n\n")
	one := func(m mhMethod) {
		fmt.Fprintf(&sb, "def sig_%s : String := %s\n", m.name, q(m.sig))
		fmt.Fprintf(&sb, "def body_%s : List String := [", m.name)
		for i, l := range m.body {
			if i > 0 {
				sb.WriteString(",")
			}
			sb.WriteString("\n  " + q(l))
		}
		sb.WriteString("]\n\n")
	}
	group := func(name string, ms []mhMethod) {
		fmt.Fprintf(&sb, "def %s : List (String × String × List String) := [", name)
		for i, m := range ms {
			if i > 0 {
				sb.WriteString(",")
			}
			fmt.Fprintf(&sb, "\n  (%s, sig_%s, body_%s)", q(m.name), m.name, m.name)
		}
		sb.WriteString("]\n")
	}
	for _, m := range tokens {
		one(m)
	}
	for _, m := range helpers {
		one(m)
	}
	group("tokenMethods", tokens)
	sb.WriteString("\n")
	group("helperMethods", helpers)
	if ferr != nil {
		return "", ferr
	}
	return sb.String(), nil
}
