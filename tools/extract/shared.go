// Shared-state inventory for C08, written to Gen/SharedState.lean.
//
// Every package-level `var` of the packages oj, gen, sen, jp, alt, asm, pretty and the root package,
// with a syntactic shape (map, slice, pointer, pool, mutex, struct, func, array, basic, other — read
// from the declared type or the initialiser; no type checker) and the functions that WRITE it at
// run time, i.e. outside `init` functions and package-level initialisers:
//
//	x = …, x.f = …, x[i] = …, x.f[i] = …, x op= …, x++      (assignment through the variable)
//	delete(x, …), copy(x, …), clear(x)
//	&x, &x.f                                                     (its address leaves: "addr:<func>")
//	x.M(…) for any method M                                       ("call:<func>.<M>", the method may write)
//
// append(x, …) only writes when assigned back, which the first rule sees. Identifiers are resolved
// with go/parser's object resolution: a name that a function declares locally (parameter, :=, var)
// is not the package variable. It fails loudly on a declaration it cannot read.
package main

import (
	"fmt"
	"go/ast"
	"go/parser"
	"go/token"
	"os"
	"path/filepath"
	"sort"
	"strings"
)

func init() { registerExtra(extractShared) }

type shVar struct {
	pkg, name, shape string
	exported         bool
	writers          []string
}

func shShapeOfType(t ast.Expr) string {
	switch x := t.(type) {
	case *ast.MapType:
		return "map"
	case *ast.ArrayType:
		if x.Len == nil {
			return "slice"
		}
		return "array"
	case *ast.StarExpr:
		return "pointer"
	case *ast.FuncType:
		return "func"
	case *ast.ChanType:
		return "chan"
	case *ast.InterfaceType:
		return "interface"
	case *ast.StructType:
		return "struct"
	case *ast.SelectorExpr:
		if id, ok := x.X.(*ast.Ident); ok && id.Name == "sync" {
			switch x.Sel.Name {
			case "Pool":
				return "pool"
			case "Mutex", "RWMutex":
				return "mutex"
			}
		}
		return "struct" // a named type of another package: assume it may hold references
	case *ast.Ident:
		switch x.Name {
		case "string", "bool", "int", "int8", "int16", "int32", "int64", "uint", "uint8", "uint16", "uint32", "uint64",
			"byte", "rune", "float32", "float64", "uintptr", "error":
			if x.Name == "error" {
				return "interface"
			}
			return "basic"
		}
		return "struct" // a named type of this package
	}
	return "other"
}

func shShapeOfValue(v ast.Expr) string {
	switch x := v.(type) {
	case *ast.ParenExpr:
		return shShapeOfValue(x.X)
	case *ast.BasicLit:
		return "basic"
	case *ast.CompositeLit:
		if x.Type != nil {
			return shShapeOfType(x.Type)
		}
		return "other"
	case *ast.UnaryExpr:
		if x.Op == token.AND {
			return "pointer"
		}
		return shShapeOfValue(x.X)
	case *ast.FuncLit:
		return "func"
	case *ast.CallExpr:
		if id, ok := x.Fun.(*ast.Ident); ok {
			switch id.Name {
			case "make", "new":
				if len(x.Args) > 0 {
					if id.Name == "new" {
						return "pointer"
					}
					return shShapeOfType(x.Args[0])
				}
			case "string", "int", "byte", "float64", "int64", "len":
				return "basic"
			}
			// a conversion T(x) or a constructor call
			return "other"
		}
		// conversions such as NumConvMethod(0), []byte("…"), or constructor calls pkg.F(…)
		if _, ok := x.Fun.(*ast.ArrayType); ok {
			return "slice"
		}
		return "other"
	case *ast.BinaryExpr:
		return shShapeOfValue(x.X)
	case *ast.Ident:
		switch x.Name {
		case "true", "false":
			return "basic"
		case "nil":
			return "other"
		}
		return "other" // another variable or constant
	case *ast.SelectorExpr:
		return "other" // pkg.Var
	}
	return "other"
}

func extractShared(repo, out string) ([]string, error) {
	dirs := []struct{ dir, pkg string }{{"oj", "oj"}, {"gen", "gen"}, {"sen", "sen"}, {"jp", "jp"}, {"alt", "alt"},
		{"asm", "asm"}, {"pretty", "pretty"}, {".", "ojg"}}
	var vars []*shVar
	global := map[string]*shVar{} // "pkg.Name" of exported variables, for references from other packages
	type pkgState struct {
		pkg    string
		files  []*ast.File
		byName map[string]*shVar
		specOf map[string]*ast.ValueSpec
	}
	var states []*pkgState
	for _, d := range dirs {
		fset := token.NewFileSet()
		ents, err := os.ReadDir(filepath.Join(repo, d.dir))
		if err != nil {
			return nil, fmt.Errorf("shared: %v", err)
		}
		var files []*ast.File
		for _, e := range ents {
			n := e.Name()
			if e.IsDir() || !strings.HasSuffix(n, ".go") || strings.HasSuffix(n, "_test.go") {
				continue
			}
			f, err := parser.ParseFile(fset, filepath.Join(repo, d.dir, n), nil, 0)
			if err != nil {
				return nil, fmt.Errorf("shared: %v", err)
			}
			if f.Name.Name == "main" {
				continue
			}
			files = append(files, f)
		}
		byName := map[string]*shVar{}
		specOf := map[string]*ast.ValueSpec{}
		for _, f := range files {
			for _, dc := range f.Decls {
				gd, ok := dc.(*ast.GenDecl)
				if !ok || gd.Tok != token.VAR {
					continue
				}
				for _, sp := range gd.Specs {
					vs, ok := sp.(*ast.ValueSpec)
					if !ok {
						return nil, fmt.Errorf("shared: var spec not understood in %s", d.dir)
					}
					for i, nm := range vs.Names {
						if nm.Name == "_" {
							continue
						}
						shape := "other"
						switch {
						case vs.Type != nil:
							shape = shShapeOfType(vs.Type)
						case i < len(vs.Values):
							shape = shShapeOfValue(vs.Values[i])
						case len(vs.Values) == 1:
							shape = "other" // a, b = f()
						default:
							return nil, fmt.Errorf("shared: declaration of %s.%s has neither type nor value", d.pkg, nm.Name)
						}
						v := &shVar{pkg: d.pkg, name: nm.Name, shape: shape, exported: ast.IsExported(nm.Name)}
						byName[nm.Name] = v
						specOf[nm.Name] = vs
						vars = append(vars, v)
						if v.exported {
							global[d.pkg+"."+nm.Name] = v
						}
					}
				}
			}
		}
		states = append(states, &pkgState{pkg: d.pkg, files: files, byName: byName, specOf: specOf})
	}
	for _, st := range states {
		files, byName, specOf := st.files, st.byName, st.specOf
		thisPkg := st.pkg
		var imports map[string]string // local name -> package name, per file (set before each file is scanned)
		// the variable an identifier refers to (nil if it is local or not a package variable)
		ref := func(id *ast.Ident) *shVar {
			v := byName[id.Name]
			if v == nil {
				return nil
			}
			if id.Obj == nil {
				return v // not resolved in this file: declared at package level in another file
			}
			if id.Obj.Kind == ast.Var && id.Obj.Decl == ast.Node(specOf[id.Name]) {
				return v
			}
			return nil
		}
		// the package variable at the root of x, x.f, x[i], x.f[i].g …
		var root func(x ast.Expr) *shVar
		root = func(x ast.Expr) *shVar {
			switch t := x.(type) {
			case *ast.Ident:
				return ref(t)
			case *ast.SelectorExpr:
				if id, ok := t.X.(*ast.Ident); ok && id.Obj == nil && byName[id.Name] == nil {
					if pk := imports[id.Name]; pk != "" {
						return global[pk+"."+t.Sel.Name] // a variable of another package of the module (or nil)
					}
				}
				return root(t.X)
			case *ast.IndexExpr:
				return root(t.X)
			case *ast.SliceExpr:
				return root(t.X)
			case *ast.ParenExpr:
				return root(t.X)
			case *ast.StarExpr:
				return root(t.X)
			}
			return nil
		}
		add := func(v *shVar, w string) {
			if v.pkg != thisPkg { // written from another package: say which
				if k := strings.IndexByte(w, ':'); k >= 0 && (strings.HasPrefix(w, "addr:") || strings.HasPrefix(w, "call:")) {
					w = w[:k+1] + thisPkg + "/" + w[k+1:]
				} else {
					w = thisPkg + "/" + w
				}
			}
			for _, x := range v.writers {
				if x == w {
					return
				}
			}
			v.writers = append(v.writers, w)
		}
		for _, f := range files {
			imports = map[string]string{}
			for _, im := range f.Imports {
				path := strings.Trim(im.Path.Value, "\"")
				if !strings.HasPrefix(path, "github.com/ohler55/ojg") {
					continue
				}
				name := path[strings.LastIndexByte(path, '/')+1:]
				local := name
				if im.Name != nil {
					local = im.Name.Name
				}
				imports[local] = name
			}
			for _, dc := range f.Decls {
				fd, ok := dc.(*ast.FuncDecl)
				if !ok || fd.Body == nil {
					continue
				}
				if fd.Recv == nil && fd.Name.Name == "init" {
					continue // runs before any goroutine of the program
				}
				fn := fd.Name.Name

				if fd.Recv != nil && len(fd.Recv.List) > 0 {
					t := fd.Recv.List[0].Type
					if s, ok := t.(*ast.StarExpr); ok {
						t = s.X
					}
					if id, ok := t.(*ast.Ident); ok {
						fn = id.Name + "." + fn
					}
				}
				ast.Inspect(fd.Body, func(n ast.Node) bool {
					switch t := n.(type) {
					case *ast.AssignStmt:
						if t.Tok == token.DEFINE {
							return true
						}
						for _, l := range t.Lhs {
							if v := root(l); v != nil {
								add(v, fn)
							}
						}
					case *ast.IncDecStmt:
						if v := root(t.X); v != nil {
							add(v, fn)
						}
					case *ast.UnaryExpr:
						if t.Op == token.AND {
							if v := root(t.X); v != nil {
								add(v, "addr:"+fn)
							}
						}
					case *ast.CallExpr:
						if id, ok := t.Fun.(*ast.Ident); ok && (id.Name == "delete" || id.Name == "copy" || id.Name == "clear") && len(t.Args) > 0 {
							if v := root(t.Args[0]); v != nil {
								add(v, fn)
							}
						}
						if se, ok := t.Fun.(*ast.SelectorExpr); ok {
							if v := root(se.X); v != nil {
								// a method call on the variable (or on something reached through it); a field of
								// function type called through the variable reads it only, but we cannot tell
								add(v, "call:"+fn+"."+se.Sel.Name)
							}
						}
					}
					return true
				})
			}
		}
	}
	sort.SliceStable(vars, func(i, j int) bool {
		if vars[i].pkg != vars[j].pkg {
			return vars[i].pkg < vars[j].pkg
		}
		return vars[i].name < vars[j].name
	})
	var b strings.Builder
	b.WriteString("/-! generated by tools/extract/shared.go from the Go source — do not edit.\n")
	b.WriteString("Every package-level `var` of oj, gen, sen, jp, alt, asm, pretty and the root package: syntactic shape and\n")
	b.WriteString("the functions that write it outside `init` (\"addr:f\": its address is taken in f; \"call:f.M\": method M is called on it in f). -/\n")
	b.WriteString("namespace OjgVerif.Gen.SharedState\n\n")
	b.WriteString("/-- a write: kind (\"assign\" | \"addr\" | \"call\"), the function it is in, the method called (for \"call\") -/\n")
	b.WriteString("structure PkgVar where\n  pkg : String\n  name : String\n  shape : String\n  exported : Bool\n  writers : List (String × String × String)\n  deriving DecidableEq, Repr\n\n")
	b.WriteString("def vars : List PkgVar := [\n")
	for i, v := range vars {
		sort.Strings(v.writers)
		sep := ","
		if i == len(vars)-1 {
			sep = ""
		}
		ws := make([]string, len(v.writers))
		for k, w := range v.writers {
			kind, fn, m := "assign", w, ""
			if strings.HasPrefix(w, "addr:") {
				kind, fn = "addr", w[5:]
			} else if strings.HasPrefix(w, "call:") {
				kind = "call"
				rest := w[5:]
				dot := strings.LastIndexByte(rest, '.')
				fn, m = rest[:dot], rest[dot+1:]
			}
			ws[k] = fmt.Sprintf("(%q, %q, %q)", kind, fn, m)
		}
		fmt.Fprintf(&b, "  { pkg := %q, name := %q, shape := %q, exported := %v, writers := [%s] }%s\n",
			v.pkg, v.name, v.shape, v.exported, strings.Join(ws, ", "), sep)
	}
	b.WriteString("]\n\nend OjgVerif.Gen.SharedState\n")
	if len(vars) < 20 {
		return nil, fmt.Errorf("shared: only %d package-level variables found", len(vars))
	}
	ch, err := writeIfChanged(filepath.Join(out, "SharedState.lean"), b.String())
	if err != nil {
		return nil, err
	}
	if ch {
		return []string{"SharedState"}, nil
	}
	return nil, nil
}
