// Extra extraction for the script family (C12): the operator table of jp/script.go, the parser's
// name map, the case labels of evalStack's operator switch, the Equation builder functions and the
// unary/binary split of Equation.buildScript, written as Lean data into Gen/Script.lean.
//
// It fails loudly on source shapes it cannot read.
package main

import (
	"fmt"
	"go/ast"
	"go/parser"
	"go/printer"
	"go/token"
	"path/filepath"
	"strconv"
	"strings"
)

func init() { registerExtra(extractScript) }

type scrOpRow struct {
	ident, name                string
	code, prec, cnt            int64
	getLeft, getRight, hasCode bool
}

func scrLitInt(x ast.Expr) (int64, bool) {
	bl, ok := x.(*ast.BasicLit)
	if !ok {
		return 0, false
	}
	switch bl.Kind {
	case token.INT:
		n, err := strconv.ParseInt(bl.Value, 0, 64)
		return n, err == nil
	case token.CHAR:
		r, _, _, err := strconv.UnquoteChar(bl.Value[1:len(bl.Value)-1], '\'')
		return int64(r), err == nil
	}
	return 0, false
}

// scrSelName reads `X.field` and returns X when the field matches.
func scrSelName(x ast.Expr, field string) (string, bool) {
	se, ok := x.(*ast.SelectorExpr)
	if !ok || se.Sel.Name != field {
		return "", false
	}
	id, ok := se.X.(*ast.Ident)
	if !ok {
		return "", false
	}
	return id.Name, true
}

func scrNodeText(fset *token.FileSet, n ast.Node) string {
	var sb strings.Builder
	if err := printer.Fprint(&sb, fset, n); err != nil {
		return ""
	}
	return sb.String()
}

func scrLeanStr(s string) string { return strconv.Quote(s) }

func scrLeanStrList(xs []string) string {
	q := make([]string, len(xs))
	for i, x := range xs {
		q[i] = scrLeanStr(x)
	}
	return "[" + strings.Join(q, ", ") + "]"
}

func extractScript(repo, out string) ([]string, error) {
	fset := token.NewFileSet()
	sf, err := parser.ParseFile(fset, filepath.Join(repo, "jp", "script.go"), nil, 0)
	if err != nil {
		return nil, fmt.Errorf("script extractor: %v", err)
	}
	ef, err := parser.ParseFile(fset, filepath.Join(repo, "jp", "equation.go"), nil, 0)
	if err != nil {
		return nil, fmt.Errorf("script extractor: %v", err)
	}
	consts := map[string]int64{}
	var ops []scrOpRow
	var opMap [][2]string
	sawOpMap := false
	for _, d := range sf.Decls {
		gd, ok := d.(*ast.GenDecl)
		if !ok {
			continue
		}
		for _, sp := range gd.Specs {
			vs, ok := sp.(*ast.ValueSpec)
			if !ok || len(vs.Names) != 1 || len(vs.Values) != 1 {
				continue
			}
			name := vs.Names[0].Name
			if gd.Tok == token.CONST {
				if n, ok := scrLitInt(vs.Values[0]); ok {
					consts[name] = n
				}
				continue
			}
			// name = &op{...}
			if ue, ok := vs.Values[0].(*ast.UnaryExpr); ok && ue.Op == token.AND {
				cl, ok := ue.X.(*ast.CompositeLit)
				if !ok {
					continue
				}
				if id, ok := cl.Type.(*ast.Ident); !ok || id.Name != "op" {
					continue
				}
				row := scrOpRow{ident: name}
				for _, el := range cl.Elts {
					kv, ok := el.(*ast.KeyValueExpr)
					if !ok {
						return nil, fmt.Errorf("script extractor: op literal %s is not keyed", name)
					}
					key := kv.Key.(*ast.Ident).Name
					switch key {
					case "name":
						bl, ok := kv.Value.(*ast.BasicLit)
						if !ok || bl.Kind != token.STRING {
							return nil, fmt.Errorf("script extractor: op %s: name is not a string literal", name)
						}
						row.name, _ = strconv.Unquote(bl.Value)
					case "prec", "cnt", "code":
						n, ok := scrLitInt(kv.Value)
						if !ok {
							if id, isID := kv.Value.(*ast.Ident); isID {
								n, ok = consts[id.Name]
							}
						}
						if !ok {
							return nil, fmt.Errorf("script extractor: op %s: %s is not a literal", name, key)
						}
						switch key {
						case "prec":
							row.prec = n
						case "cnt":
							row.cnt = n
						case "code":
							row.code = n
							row.hasCode = true
						}
					case "getLeft", "getRight":
						id, ok := kv.Value.(*ast.Ident)
						if !ok || (id.Name != "true" && id.Name != "false") {
							return nil, fmt.Errorf("script extractor: op %s: %s is not a boolean literal", name, key)
						}
						if key == "getLeft" {
							row.getLeft = id.Name == "true"
						} else {
							row.getRight = id.Name == "true"
						}
					default:
						return nil, fmt.Errorf("script extractor: op %s: unexpected field %s", name, key)
					}
				}
				if !row.hasCode {
					return nil, fmt.Errorf("script extractor: op %s has no code", name)
				}
				ops = append(ops, row)
				continue
			}
			if name == "opMap" {
				cl, ok := vs.Values[0].(*ast.CompositeLit)
				if !ok {
					return nil, fmt.Errorf("script extractor: opMap is not a composite literal")
				}
				sawOpMap = true
				for _, el := range cl.Elts {
					kv, ok := el.(*ast.KeyValueExpr)
					if !ok {
						return nil, fmt.Errorf("script extractor: opMap entry is not keyed")
					}
					k, ok1 := scrSelName(kv.Key, "name")
					v, ok2 := kv.Value.(*ast.Ident)
					if !ok1 || !ok2 {
						return nil, fmt.Errorf("script extractor: opMap entry is not of the form x.name: y")
					}
					opMap = append(opMap, [2]string{k, v.Name})
				}
			}
		}
	}
	if len(ops) == 0 || !sawOpMap {
		return nil, fmt.Errorf("script extractor: no op table / opMap found in jp/script.go")
	}
	// evalStack: the `switch o.code` clauses
	var evalCases [][]string
	evalDefault := false
	found := false
	for _, d := range sf.Decls {
		fd, ok := d.(*ast.FuncDecl)
		if !ok || fd.Name.Name != "evalStack" || fd.Recv != nil {
			continue
		}
		ast.Inspect(fd.Body, func(n ast.Node) bool {
			sw, ok := n.(*ast.SwitchStmt)
			if !ok || found {
				return true
			}
			if x, ok := scrSelName(sw.Tag, "code"); !ok || x != "o" {
				return true
			}
			found = true
			for _, st := range sw.Body.List {
				cc := st.(*ast.CaseClause)
				if cc.List == nil {
					evalDefault = true
					continue
				}
				var labels []string
				for _, e := range cc.List {
					x, ok := scrSelName(e, "code")
					if !ok {
						err = fmt.Errorf("script extractor: evalStack case label is not of the form x.code")
						return false
					}
					labels = append(labels, x)
				}
				evalCases = append(evalCases, labels)
			}
			return false
		})
	}
	if err != nil {
		return nil, err
	}
	if !found {
		return nil, fmt.Errorf("script extractor: `switch o.code` not found in evalStack")
	}
	// evalStack: how do the six comparison clauses compare an int64 with a float64? Per clause the number
	// of cmpIntFloat(…) calls (exact comparison) and of float64(…) conversions (rounding comparison).
	hasCmpIntFloat := false
	cmpIntFloatSrc := ""
	for _, d := range sf.Decls {
		if fd, ok := d.(*ast.FuncDecl); ok && fd.Recv == nil && fd.Name.Name == "cmpIntFloat" {
			hasCmpIntFloat = true
			cmpIntFloatSrc = scrNodeText(fset, &ast.FuncDecl{Name: fd.Name, Type: fd.Type, Body: fd.Body})
		}
	}
	type cmpSite struct {
		label      string
		exact, f64 int
	}
	var cmpSites []cmpSite
	for _, d := range sf.Decls {
		fd, ok := d.(*ast.FuncDecl)
		if !ok || fd.Name.Name != "evalStack" || fd.Recv != nil {
			continue
		}
		ast.Inspect(fd.Body, func(n ast.Node) bool {
			cc, ok := n.(*ast.CaseClause)
			if !ok || len(cc.List) != 1 {
				return true
			}
			x, ok := scrSelName(cc.List[0], "code")
			if !ok {
				return true
			}
			switch x {
			case "eq", "neq", "lt", "gt", "lte", "gte":
			default:
				return true
			}
			site := cmpSite{label: x}
			for _, st := range cc.Body {
				ast.Inspect(st, func(m ast.Node) bool {
					if ce, ok := m.(*ast.CallExpr); ok {
						if id, ok := ce.Fun.(*ast.Ident); ok {
							switch id.Name {
							case "cmpIntFloat":
								site.exact++
							case "float64":
								site.f64++
							}
						}
					}
					return true
				})
			}
			cmpSites = append(cmpSites, site)
			return false
		})
	}
	if len(cmpSites) != 6 {
		return nil, fmt.Errorf("script extractor: expected the six comparison clauses in evalStack, found %d", len(cmpSites))
	}
	// evalStack: how do `==`, `!=` and `in` compare two interface values (0a3fd2c), and does the float64
	// branch of `!=` leave the result alone when the right operand is not an int64 (21415f8)?
	sameValueGuard := false
	for _, d := range sf.Decls {
		fd, ok := d.(*ast.FuncDecl)
		if !ok || fd.Recv != nil || fd.Name.Name != "sameValue" || len(fd.Body.List) != 2 {
			continue
		}
		is, ok1 := fd.Body.List[0].(*ast.IfStmt)
		rs, ok2 := fd.Body.List[1].(*ast.ReturnStmt)
		if ok1 && ok2 && is.Init != nil && scrNodeText(fset, is.Init) == "lt := reflect.TypeOf(left)" &&
			scrNodeText(fset, is.Cond) == "lt != nil && !lt.Comparable()" && len(is.Body.List) == 1 &&
			scrNodeText(fset, is.Body.List[0]) == "return false" && is.Else == nil &&
			scrNodeText(fset, rs) == "return left == right" {
			sameValueGuard = true
		}
		// the shape after the proposed fix C12_iface_field_panic (struct/array kinds go through sameHolder)
		if ok1 && ok2 && is.Init != nil && scrNodeText(fset, is.Init) == "lt := reflect.TypeOf(left)" &&
			scrNodeText(fset, is.Cond) == "lt != nil" && len(is.Body.List) == 2 && is.Else == nil &&
			strings.Join(strings.Fields(scrNodeText(fset, is.Body.List[0])), " ") == "if !lt.Comparable() { return false }" &&
			strings.Contains(scrNodeText(fset, is.Body.List[1]), "return sameHolder(left, right)") &&
			scrNodeText(fset, rs) == "return left == right" {
			sameValueGuard = true
		}
	}
	// round 3: the SHAPE of sameValue's comparability test. The model (`Script.comparable`, `Script.sameValue`)
	// has a reflect test on the left operand's TYPE; a list of types instead (C12-m7) leaves every type outside
	// the list to the raw ==. Facts: the guard `!lt.Comparable()` with `lt := reflect.TypeOf(left)` whose first
	// statement is `return false`; the number of type switches / type assertions in sameValue (and in its
	// helper sameHolder, present after the proposed fix C12_iface_field_panic); the number of raw `left == right`.
	svReflectGuard, svFound := false, false
	svTypeTests, svRawEq := 0, 0
	svHolderRecover := false
	for _, d := range sf.Decls {
		fd, ok := d.(*ast.FuncDecl)
		if !ok || fd.Recv != nil || (fd.Name.Name != "sameValue" && fd.Name.Name != "sameHolder") {
			continue
		}
		if fd.Name.Name == "sameValue" {
			svFound = true
		}
		typeOfLeft := false
		ast.Inspect(fd.Body, func(n ast.Node) bool {
			switch t := n.(type) {
			case *ast.TypeSwitchStmt, *ast.TypeAssertExpr:
				svTypeTests++
			case *ast.AssignStmt:
				if scrNodeText(fset, t) == "lt := reflect.TypeOf(left)" {
					typeOfLeft = true
				}
			case *ast.IfStmt:
				if t.Init != nil && scrNodeText(fset, t.Init) == "lt := reflect.TypeOf(left)" {
					typeOfLeft = true
				}
				if scrNodeText(fset, t.Cond) == "!lt.Comparable()" || scrNodeText(fset, t.Cond) == "lt != nil && !lt.Comparable()" {
					if len(t.Body.List) >= 1 && scrNodeText(fset, t.Body.List[0]) == "return false" && typeOfLeft && fd.Name.Name == "sameValue" {
						svReflectGuard = true
					}
				}
			case *ast.BinaryExpr:
				if t.Op == token.EQL && scrNodeText(fset, t) == "left == right" {
					svRawEq++
				}
			case *ast.CallExpr:
				if id, ok := t.Fun.(*ast.Ident); ok && id.Name == "recover" && fd.Name.Name == "sameHolder" {
					svHolderRecover = true
				}
			}
			return true
		})
	}
	if !svFound {
		return nil, fmt.Errorf("script extractor: function sameValue not found in jp/script.go")
	}
	type eqSite struct {
		label     string
		safe, raw int
	}
	var eqSites []eqSite
	neqFloatGuarded := false
	for _, d := range sf.Decls {
		fd, ok := d.(*ast.FuncDecl)
		if !ok || fd.Name.Name != "evalStack" || fd.Recv != nil {
			continue
		}
		ast.Inspect(fd.Body, func(n ast.Node) bool {
			cc, ok := n.(*ast.CaseClause)
			if !ok || len(cc.List) != 1 {
				return true
			}
			x, ok := scrSelName(cc.List[0], "code")
			if !ok || (x != "eq" && x != "neq" && x != "in") {
				return true
			}
			site := eqSite{label: x}
			operand := func(e ast.Expr) bool {
				id, ok := e.(*ast.Ident)
				return ok && (id.Name == "left" || id.Name == "right" || id.Name == "ev")
			}
			for _, st := range cc.Body {
				ast.Inspect(st, func(m ast.Node) bool {
					switch t := m.(type) {
					case *ast.CallExpr:
						if id, ok := t.Fun.(*ast.Ident); ok && id.Name == "sameValue" {
							site.safe++
						}
					case *ast.BinaryExpr:
						if (t.Op == token.EQL || t.Op == token.NEQ) && operand(t.X) && operand(t.Y) {
							site.raw++
						}
					case *ast.CaseClause:
						// the `case float64:` of the type switch on the left operand of `!=`
						if x == "neq" && len(t.List) == 1 && scrNodeText(fset, t.List[0]) == "float64" && len(t.Body) == 1 {
							if is, ok := t.Body[0].(*ast.IfStmt); ok && is.Init != nil && is.Else == nil &&
								scrNodeText(fset, is.Init) == "tr, ok := right.(int64)" && scrNodeText(fset, is.Cond) == "ok" {
								neqFloatGuarded = true
							}
						}
					}
					return true
				})
			}
			eqSites = append(eqSites, site)
			return false
		})
	}
	if len(eqSites) != 3 {
		return nil, fmt.Errorf("script extractor: expected the clauses eq, neq and in in evalStack, found %d", len(eqSites))
	}
	// evalWithRoot: is a template that is exactly one path evaluated as an existence test?
	//   if len(s.template) == 1 { _, bare = s.template[0].(Expr) }   and   if bare { match = sstack[0] != Nothing }
	// round 3: which Go types the Normalize switch of evalWithRoot and the function normalize convert, and to what
	// (`case int8: sstack[i] = int64(x)` / `case int8: v = int64(tv)`): the constructors of `Script.Core`.
	var normSwitch, normFn [][2]string
	readNormCases := func(body *ast.BlockStmt, lhs string) (out [][2]string) {
		for _, cs := range body.List {
			cc, ok := cs.(*ast.CaseClause)
			if !ok || len(cc.List) != 1 || len(cc.Body) != 1 {
				continue
			}
			as, ok := cc.Body[0].(*ast.AssignStmt)
			if !ok || len(as.Lhs) != 1 || len(as.Rhs) != 1 || scrNodeText(fset, as.Lhs[0]) != lhs {
				continue
			}
			call, ok := as.Rhs[0].(*ast.CallExpr)
			if !ok || len(call.Args) != 1 {
				continue
			}
			if _, isIdent := call.Args[0].(*ast.Ident); !isIdent {
				continue
			}
			out = append(out, [2]string{scrNodeText(fset, cc.List[0]), scrNodeText(fset, call.Fun)})
		}
		return
	}
	for _, d := range sf.Decls {
		fd, ok := d.(*ast.FuncDecl)
		if !ok {
			continue
		}
		if fd.Recv != nil && fd.Name.Name == "evalWithRoot" {
			ast.Inspect(fd.Body, func(n ast.Node) bool {
				ls, ok := n.(*ast.LabeledStmt)
				if !ok || ls.Label.Name != "Normalize" {
					return true
				}
				if ts, ok := ls.Stmt.(*ast.TypeSwitchStmt); ok {
					normSwitch = readNormCases(ts.Body, "sstack[i]")
				}
				return true
			})
		}
		if fd.Recv == nil && fd.Name.Name == "normalize" {
			ast.Inspect(fd.Body, func(n ast.Node) bool {
				if ts, ok := n.(*ast.TypeSwitchStmt); ok {
					normFn = readNormCases(ts.Body, "v")
				}
				return true
			})
		}
	}
	if len(normSwitch) == 0 || len(normFn) == 0 {
		return nil, fmt.Errorf("script extractor: the Normalize switch of evalWithRoot (%d conversions) or func normalize (%d) not found", len(normSwitch), len(normFn))
	}
	// round 3: the ORDER of the tests that decide the per-element verdict (the statement after `var match bool`):
	// (condition, what the branch does) with `existence` = `match = sstack[0] != Nothing`, `expand` = the
	// expandStack loop, `eval` = evalStack(sstack) directly. The model's matchElem tests bare first (C12-m8
	// tested multi first: a bare multi-valued path then needs a `true` among its values).
	var verdictBranches [][2]string
	branchKind := func(b []ast.Stmt) string {
		var sb strings.Builder
		for _, st := range b {
			sb.WriteString(scrNodeText(fset, st))
			sb.WriteByte('\n')
		}
		src := sb.String()
		switch {
		case strings.Contains(src, "match = sstack[0] != Nothing"):
			return "existence"
		case strings.Contains(src, "expandStack("):
			return "expand"
		case strings.Contains(src, "evalStack(sstack)"):
			return "eval"
		}
		return "other"
	}
	bareAssign, bareUse, sawEvalWithRoot := false, false, false
	for _, d := range sf.Decls {
		fd, ok := d.(*ast.FuncDecl)
		if !ok || fd.Name.Name != "evalWithRoot" || fd.Recv == nil {
			continue
		}
		sawEvalWithRoot = true
		ast.Inspect(fd.Body, func(n ast.Node) bool {
			is, ok := n.(*ast.IfStmt)
			if !ok {
				return true
			}
			src := scrNodeText(fset, is.Cond)
			if src == "len(s.template) == 1" && len(is.Body.List) == 1 && scrNodeText(fset, is.Body.List[0]) == "_, bare = s.template[0].(Expr)" {
				bareAssign = true
			}
			if src == "bare" && len(is.Body.List) == 1 && scrNodeText(fset, is.Body.List[0]) == "match = sstack[0] != Nothing" {
				bareUse = true
			}
			return true
		})
		ast.Inspect(fd.Body, func(n ast.Node) bool {
			blk, ok := n.(*ast.BlockStmt)
			if !ok {
				return true
			}
			for i, st := range blk.List {
				if scrNodeText(fset, st) != "var match bool" || i+1 >= len(blk.List) {
					continue
				}
				switch t := blk.List[i+1].(type) {
				case *ast.IfStmt:
					var cur ast.Stmt = t
					for cur != nil {
						switch c := cur.(type) {
						case *ast.IfStmt:
							verdictBranches = append(verdictBranches, [2]string{scrNodeText(fset, c.Cond), branchKind(c.Body.List)})
							cur = c.Else
						case *ast.BlockStmt:
							verdictBranches = append(verdictBranches, [2]string{"else", branchKind(c.List)})
							cur = nil
						default:
							cur = nil
						}
					}
				case *ast.SwitchStmt:
					if t.Tag == nil {
						for _, cs := range t.Body.List {
							cc := cs.(*ast.CaseClause)
							cond := "else"
							if len(cc.List) > 0 {
								var parts []string
								for _, e := range cc.List {
									parts = append(parts, scrNodeText(fset, e))
								}
								cond = strings.Join(parts, ", ")
							}
							verdictBranches = append(verdictBranches, [2]string{cond, branchKind(cc.Body)})
						}
					}
				}
			}
			return true
		})
		for _, vb := range verdictBranches {
			if vb[0] == "bare" && vb[1] == "existence" {
				bareUse = true // also when the chain is written as a switch
			}
		}
	}
	if sawEvalWithRoot && len(verdictBranches) == 0 {
		return nil, fmt.Errorf("script extractor: no if/switch after `var match bool` in evalWithRoot")
	}
	if !sawEvalWithRoot {
		return nil, fmt.Errorf("script extractor: method evalWithRoot not found in jp/script.go")
	}
	if bareAssign != bareUse {
		return nil, fmt.Errorf("script extractor: the bare-path test of evalWithRoot is only half there (assignment %v, use %v)", bareAssign, bareUse)
	}
	// equation.go: builders and buildScript
	var builders [][2]string
	var buildCases [][]string
	foundBuild := false
	for _, d := range ef.Decls {
		fd, ok := d.(*ast.FuncDecl)
		if !ok {
			continue
		}
		if fd.Recv == nil && fd.Type.Results != nil && len(fd.Type.Results.List) == 1 && len(fd.Body.List) == 1 {
			// func Name(...) *Equation { return &Equation{o: x, ...} }
			rs, ok := fd.Body.List[0].(*ast.ReturnStmt)
			if ok && len(rs.Results) == 1 {
				if ue, ok := rs.Results[0].(*ast.UnaryExpr); ok && ue.Op == token.AND {
					if cl, ok := ue.X.(*ast.CompositeLit); ok {
						if id, ok := cl.Type.(*ast.Ident); ok && id.Name == "Equation" {
							for _, el := range cl.Elts {
								if kv, ok := el.(*ast.KeyValueExpr); ok && kv.Key.(*ast.Ident).Name == "o" {
									if v, ok := kv.Value.(*ast.Ident); ok {
										builders = append(builders, [2]string{fd.Name.Name, v.Name})
									}
								}
							}
						}
					}
				}
			}
		}
		if fd.Recv != nil && fd.Name.Name == "buildScript" {
			ast.Inspect(fd.Body, func(n ast.Node) bool {
				sw, ok := n.(*ast.SwitchStmt)
				if !ok || foundBuild {
					return true
				}
				foundBuild = true
				for _, st := range sw.Body.List {
					cc := st.(*ast.CaseClause)
					if cc.List == nil {
						continue
					}
					var labels []string
					for _, e := range cc.List {
						x, ok := scrSelName(e, "code")
						if !ok {
							err = fmt.Errorf("script extractor: buildScript case label is not of the form x.code")
							return false
						}
						labels = append(labels, x)
					}
					buildCases = append(buildCases, labels)
				}
				return false
			})
		}
	}
	if err != nil {
		return nil, err
	}
	if !foundBuild || len(builders) == 0 {
		return nil, fmt.Errorf("script extractor: buildScript switch / builder functions not found in jp/equation.go")
	}
	var b strings.Builder
	b.WriteString("/- GENERATED by /verif/tools/extract (script.go) from jp/script.go and jp/equation.go — do not edit; rewritten on every run. -/\n")
	b.WriteString("namespace OjgVerif.Gen.Script\n\n")
	b.WriteString("structure OpRow where\n  ident : String\n  name : String\n  code : Nat\n  prec : Nat\n  cnt : Nat\n  getLeft : Bool\n  getRight : Bool\n  deriving DecidableEq, Repr\n\n")
	b.WriteString("/-- the `&op{…}` variables of jp/script.go in source order -/\ndef ops : List OpRow := [\n")
	for i, r := range ops {
		sep := ","
		if i == len(ops)-1 {
			sep = ""
		}
		fmt.Fprintf(&b, "  ⟨%s, %s, %d, %d, %d, %v, %v⟩%s\n", scrLeanStr(r.ident), scrLeanStr(r.name), r.code, r.prec, r.cnt, r.getLeft, r.getRight, sep)
	}
	b.WriteString("]\n\n/-- `opMap`: (variable whose `.name` is the key, variable that is the value) -/\ndef opMap : List (String × String) := [")
	for i, e := range opMap {
		if i > 0 {
			b.WriteString(", ")
		}
		fmt.Fprintf(&b, "(%s, %s)", scrLeanStr(e[0]), scrLeanStr(e[1]))
	}
	b.WriteString("]\n\n/-- the clauses of `switch o.code` in evalStack: the variables named in each `case x.code, …` -/\ndef evalCases : List (List String) := [")
	for i, c := range evalCases {
		if i > 0 {
			b.WriteString(", ")
		}
		b.WriteString(scrLeanStrList(c))
	}
	fmt.Fprintf(&b, "]\n\ndef evalHasDefault : Bool := %v\n\n", evalDefault)
	fmt.Fprintf(&b, "/-- `sameValue` is `if lt := reflect.TypeOf(left); lt != nil && !lt.Comparable() { return false }; return left == right` -/\ndef sameValueGuard : Bool := %v\n\n", sameValueGuard)
	b.WriteString("/-- the clauses of evalStack that compare two operands as interface values: (label, calls of sameValue, raw ==/!= between the operands left/right/ev) -/\ndef ifaceEqSites : List (String × Nat × Nat) := [")
	for i, c := range eqSites {
		if i > 0 {
			b.WriteString(", ")
		}
		fmt.Fprintf(&b, "(%s, %d, %d)", scrLeanStr(c.label), c.safe, c.raw)
	}
	b.WriteString("]\n\n")
	fmt.Fprintf(&b, "/-- the `case float64:` of `!=` is `if tr, ok := right.(int64); ok { … }` (the result stays true for any other right operand) -/\ndef neqFloatGuarded : Bool := %v\n\n", neqFloatGuarded)
	fmt.Fprintf(&b, "/-- a function `cmpIntFloat` is declared in jp/script.go -/\ndef hasCmpIntFloat : Bool := %v\n\n", hasCmpIntFloat)
	fmt.Fprintf(&b, "/-- the declaration of `cmpIntFloat` as go/printer writes it (comments dropped) -/\ndef cmpIntFloatSrc : String := %s\n\n", scrLeanStr(cmpIntFloatSrc))
	b.WriteString("/-- the comparison clauses of evalStack: (label, calls of cmpIntFloat, conversions float64(…)) -/\ndef cmpSites : List (String × Nat × Nat) := [")
	for i, c := range cmpSites {
		if i > 0 {
			b.WriteString(", ")
		}
		fmt.Fprintf(&b, "(%s, %d, %d)", scrLeanStr(c.label), c.exact, c.f64)
	}
	b.WriteString("]\n\n")
	fmt.Fprintf(&b, "/-- evalWithRoot has `if len(s.template) == 1 { _, bare = s.template[0].(Expr) }` and `if bare { match = sstack[0] != Nothing }` -/\ndef bareExistence : Bool := %v\n\n", bareAssign && bareUse)
	b.WriteString("/-- the tests deciding the per-element verdict in evalWithRoot, in source order: (condition, branch kind) -/\ndef verdictBranches : List (String × String) := [")
	for i, vb := range verdictBranches {
		if i > 0 {
			b.WriteString(", ")
		}
		fmt.Fprintf(&b, "(%s, %s)", scrLeanStr(vb[0]), scrLeanStr(vb[1]))
	}
	b.WriteString("]\n\n")
	for _, nl := range []struct {
		name, doc string
		rows      [][2]string
	}{{"normSwitch", "the converting cases of the `Normalize:` type switch in evalWithRoot: (case type, conversion)", normSwitch},
		{"normFn", "the converting cases of func normalize: (case type, conversion)", normFn}} {
		fmt.Fprintf(&b, "/-- %s -/\ndef %s : List (String × String) := [", nl.doc, nl.name)
		for i, r := range nl.rows {
			if i > 0 {
				b.WriteString(", ")
			}
			fmt.Fprintf(&b, "(%s, %s)", scrLeanStr(r[0]), scrLeanStr(r[1]))
		}
		b.WriteString("]\n\n")
	}
	fmt.Fprintf(&b, "/-- sameValue tests `!lt.Comparable()` on `lt := reflect.TypeOf(left)` and then returns false -/\ndef svReflectGuard : Bool := %v\n\n", svReflectGuard)
	fmt.Fprintf(&b, "/-- type switches and type assertions inside sameValue (and sameHolder) -/\ndef svTypeTests : Nat := %d\n\n", svTypeTests)
	fmt.Fprintf(&b, "/-- raw `left == right` comparisons inside sameValue (and sameHolder) -/\ndef svRawEq : Nat := %d\n\n", svRawEq)
	fmt.Fprintf(&b, "/-- a helper sameHolder with a deferred recover exists (proposed fix C12_iface_field_panic applied) -/\ndef svHolderRecover : Bool := %v\n\n", svHolderRecover)
	b.WriteString("/-- exported builder functions of jp/equation.go and the operator variable they install -/\ndef builders : List (String × String) := [")
	for i, e := range builders {
		if i > 0 {
			b.WriteString(", ")
		}
		fmt.Fprintf(&b, "(%s, %s)", scrLeanStr(e[0]), scrLeanStr(e[1]))
	}
	b.WriteString("]\n\n/-- the non-default clauses of the switch in Equation.buildScript -/\ndef buildCases : List (List String) := [")
	for i, c := range buildCases {
		if i > 0 {
			b.WriteString(", ")
		}
		b.WriteString(scrLeanStrList(c))
	}
	b.WriteString("]\n\nend OjgVerif.Gen.Script\n")
	ch, err := writeIfChanged(filepath.Join(out, "Script.lean"), b.String())
	if err != nil {
		return nil, err
	}
	if ch {
		return []string{"Script"}, nil
	}
	return nil, nil
}
