// jpath: extra extraction for the JSONPath evaluator family (C05, C11), written to Gen/JpathFacts.lean.
//
// One Bool per deviation flag of `OjgVerif.JPath.Cfg`, read off jp/*.go as it is now (go/ast, no type
// checker; function bodies printed without blanks and searched for the line a repair put in or took out).
// true = the deviation is in the source. `OjgVerif.C11.pinned_is_source` states that `Cfg.pinned`, the model
// of the current code, has exactly these flags: undoing a repair (or repairing one of the two deviations the
// suite pins) changes a fact and breaks that theorem.
//
//	innerEmptySlice    Get/FirstFound/Has/GetNodes/FirstNode: some `end = start ± (…)/step*step` is not directly
//	                   preceded by its empty-range guard `if end <= start { continue }` / `if start <= end { continue }`
//	descentSiblings    one of the five does not reset the marker with `di &^ descentFlag` in the second pass
//	locNegEnd          startEndStep has `end = size + end + 1`
//	locStartClamp      startEndStep has `start = size - 1`
//	locEmptyArray      startEndStep lacks `if size == 0 {`
//	locateRoot         Root.locate does not return `[]Expr{loc}`
//	walkDescentNoSelf  Descent.Walk does not apply `rest[0].Walk(rest[1:], path, nodes, cb)` to the node
//	nodesUnionNil      GetNodes appends `v` outside the bounds test of a union index
//	nodesFilterRev     GetNodes copies filter matches bottom up (`for i := before; i < len(stack); i++`)
//	firstNodeLast      FirstNode returns `stack[before]` for a filter
//	nodesFilterNull    evalWithRoot does not push a nil Node (`ok || v == nil` missing)
//	typedMapWild       reflectGetWild / reflectGetWildOne / Wildcard.locate / Descent.locate lack a reflect.Map case
//	typedObjFilter     evalWithRoot or Filter.Walk lacks a reflect.Struct case
//	firstTypedSlice    FirstFound or Has calls `reflectGetNth(tv, start)` for a slice fragment
//	firstTypedWildOne  FirstFound or Has does not range over `reflectGetWild(tv)` under a wildcard
//	hasTypedMap        Has has a kind list `reflect.Ptr, reflect.Slice, reflect.Struct, reflect.Array:` without Map
//	hasTypedDescent    Has does not call `reflectGetWild(tv)` in its descent
//	walkTypedArray     Slice.Walk or Filter.Walk does not accept reflect.Array
//	nestedFilterRoot   evalWithRoot does not evaluate a path operand through `x.nestedRoot(root).Get(dv)` (then Get's argument becomes the root of nested filters)
//	locFilterRootNil   Filter.locate calls `f.evalWithRoot([]any{}, data, nil)`
//	walkFilterRootSelf Filter.Walk tests with `f.Match(v)` (Match passes the element as the root)
//	exprNotWritten     (no flag; expected true) none of Get, FirstFound, Has, GetNodes, FirstNode, Locate, Walk, Filter.withRoot,
//	                   Expr.rootedFilters, Expr.nestedRoot assigns through its receiver (`x[i] = …`, `f.root = …`), withRoot returns
//	                   a new `&Filter{…}` and rootedFilters works on `make(Expr, len(x))` + `copy(rx, x)`: the caller's parsed
//	                   Expr is not changed by an evaluation (seeded C11-m7: rooting the caller's filter in place)
//	descentMarkerMissing (no flag; expected false) in the descent case of Get, FirstFound or Has a member reached through the reflect
//	                   fallback is pushed without its own `fi|descentChildFlag` marker (repaired 172dffb: FirstFound and Has did
//	                   not descend into a typed container held in a plain one)
//	filterPointerBlind (no flag; expected false) evalWithRoot or Filter.Walk does not follow a pointer before switching on the
//	                   reflect kind (repaired 46bed20)
//	filterRootIsArgument (no flag; expected true) Get, FirstFound, Has, GetNodes and FirstNode hand their own argument to a filter as its root
//
// Fails loudly when a function it looks for is missing.
package main

import (
	"bytes"
	"fmt"
	"go/ast"
	"go/parser"
	"go/printer"
	"go/token"
	"os"
	"path/filepath"
	"strings"
)

func init() { registerExtra(extractJpath) }

type jpfSrc struct {
	repo  string
	files map[string]*ast.File
	fsets map[string]*token.FileSet
}

// body returns the body of a function (recv "" = plain function) of jp/<file> printed without blanks.
func (s *jpfSrc) body(file, recv, name string) (string, error) {
	f, ok := s.files[file]
	if !ok {
		path := filepath.Join(s.repo, "jp", file)
		src, err := os.ReadFile(path)
		if err != nil {
			return "", err
		}
		fset := token.NewFileSet()
		f, err = parser.ParseFile(fset, path, src, 0)
		if err != nil {
			return "", err
		}
		s.files[file], s.fsets[file] = f, fset
	}
	for _, d := range f.Decls {
		fd, ok := d.(*ast.FuncDecl)
		if !ok || fd.Name.Name != name || fd.Body == nil {
			continue
		}
		r := ""
		if fd.Recv != nil && len(fd.Recv.List) == 1 {
			var b bytes.Buffer
			_ = printer.Fprint(&b, s.fsets[file], fd.Recv.List[0].Type)
			r = strings.TrimPrefix(b.String(), "*")
		}
		if r != recv {
			continue
		}
		var b bytes.Buffer
		if err := printer.Fprint(&b, s.fsets[file], fd.Body); err != nil {
			return "", err
		}
		return strings.Join(strings.Fields(b.String()), ""), nil
	}
	return "", fmt.Errorf("jpath: func (%s) %s not found in jp/%s", recv, name, file)
}


// writesReceiver reports whether the function assigns through its receiver (an index, selector or dereference
// whose base identifier is the receiver's name; rebinding the receiver variable itself does not count).
func (s *jpfSrc) writesReceiver(file, recv, name string) (bool, error) {
	if _, err := s.body(file, recv, name); err != nil {
		return false, err
	}
	for _, d := range s.files[file].Decls {
		fd, ok := d.(*ast.FuncDecl)
		if !ok || fd.Name.Name != name || fd.Body == nil || fd.Recv == nil || len(fd.Recv.List) != 1 || len(fd.Recv.List[0].Names) != 1 {
			continue
		}
		var b bytes.Buffer
		_ = printer.Fprint(&b, s.fsets[file], fd.Recv.List[0].Type)
		if strings.TrimPrefix(b.String(), "*") != recv {
			continue
		}
		rn := fd.Recv.List[0].Names[0].Name
		writes := false
		base := func(e ast.Expr) (string, bool) {
			through := false
			for {
				switch t := e.(type) {
				case *ast.IndexExpr:
					e, through = t.X, true
				case *ast.SelectorExpr:
					e, through = t.X, true
				case *ast.StarExpr:
					e, through = t.X, true
				case *ast.ParenExpr:
					e = t.X
				case *ast.Ident:
					return t.Name, through
				default:
					return "", false
				}
			}
		}
		ast.Inspect(fd.Body, func(n ast.Node) bool {
			switch t := n.(type) {
			case *ast.AssignStmt:
				for _, l := range t.Lhs {
					if id, through := base(l); through && id == rn {
						writes = true
					}
				}
			case *ast.IncDecStmt:
				if id, through := base(t.X); through && id == rn {
					writes = true
				}
			}
			return true
		})
		return writes, nil
	}
	return false, fmt.Errorf("jpath: func (%s) %s with a named receiver not found in jp/%s", recv, name, file)
}

func extractJpath(repo, out string) ([]string, error) {
	s := &jpfSrc{repo: repo, files: map[string]*ast.File{}, fsets: map[string]*token.FileSet{}}
	type fn struct{ file, recv, name string }
	machines := []fn{{"get.go", "Expr", "Get"}, {"get.go", "Expr", "FirstFound"}, {"has.go", "Expr", "Has"},
		{"node.go", "Expr", "GetNodes"}, {"node.go", "Expr", "FirstNode"}}
	bodies := map[string]string{}
	get := func(f fn) (string, error) {
		k := f.file + ":" + f.recv + "." + f.name
		if b, ok := bodies[k]; ok {
			return b, nil
		}
		b, err := s.body(f.file, f.recv, f.name)
		if err == nil {
			bodies[k] = b
		}
		return b, err
	}
	var firstErr error
	has := func(f fn, sub string) bool {
		b, err := get(f)
		if err != nil && firstErr == nil {
			firstErr = err
		}
		return strings.Contains(b, sub)
	}
	count := func(f fn, sub string) int {
		b, err := get(f)
		if err != nil && firstErr == nil {
			firstErr = err
		}
		return strings.Count(b, sub)
	}
	facts := map[string]bool{}

	const up, dn = "end=start+(end-start-1)/step*step", "end=start-(start-end-1)/step*step"
	inner, sib := false, false
	slices := 0
	for _, m := range machines {
		slices += count(m, up) + count(m, dn)
		if count(m, up) != count(m, "ifend<=start{continue}"+up) || count(m, dn) != count(m, "ifstart<=end{continue}"+dn) {
			inner = true
		}
		if !has(m, "stack[len(stack)-1]=di&^descentFlag") {
			sib = true
		}
	}
	if slices == 0 && firstErr == nil {
		firstErr = fmt.Errorf("jpath: no inner slice arithmetic found in get.go/has.go/node.go")
	}
	facts["innerEmptySlice"], facts["descentSiblings"] = inner, sib

	ses := fn{"slice.go", "Slice", "startEndStep"}
	facts["locNegEnd"] = has(ses, "end=size+end+1")
	facts["locStartClamp"] = has(ses, "start=size-1")
	facts["locEmptyArray"] = !has(ses, "ifsize==0{")
	facts["locateRoot"] = !has(fn{"root.go", "Root", "locate"}, "locs=[]Expr{loc}")
	facts["walkDescentNoSelf"] = !has(fn{"descent.go", "Descent", "Walk"}, "rest[0].Walk(rest[1:],path,nodes,cb)")

	nodes, fnode := fn{"node.go", "Expr", "GetNodes"}, fn{"node.go", "Expr", "FirstNode"}
	facts["nodesUnionNil"] = has(nodes, "if0<=i&&i<len(tv){v=tv[i]}results=append(results,v)")
	facts["nodesFilterRev"] = has(nodes, "fori:=before;i<len(stack);i++{results=append(results,stack[i])}")
	facts["firstNodeLast"] = has(fnode, "result:=stack[before]")
	ewr := fn{"script.go", "Script", "evalWithRoot"}
	facts["nodesFilterNull"] = !has(ewr, "ifn,ok:=v.(gen.Node);ok||v==nil{")

	const mapCase, structCase = "casereflect.Map:", "casereflect.Struct:"
	facts["typedMapWild"] = !(has(fn{"get.go", "", "reflectGetWild"}, mapCase) && has(fn{"get.go", "", "reflectGetWildOne"}, mapCase) &&
		has(fn{"wildcard.go", "Wildcard", "locate"}, mapCase) && has(fn{"descent.go", "Descent", "locate"}, mapCase))
	fwalk := fn{"filter.go", "Filter", "Walk"}
	facts["typedObjFilter"] = !(has(ewr, structCase) && has(ewr, mapCase) && has(fwalk, structCase))
	first, hasF := fn{"get.go", "Expr", "FirstFound"}, fn{"has.go", "Expr", "Has"}
	facts["firstTypedSlice"] = has(first, "reflectGetNth(tv,start)") || has(hasF, "reflectGetNth(tv,start)")
	facts["firstTypedWildOne"] = !(has(first, "for_,v:=rangereflectGetWild(tv){") && has(hasF, "for_,v:=rangereflectGetWild(tv){"))
	facts["hasTypedMap"] = has(hasF, "casereflect.Ptr,reflect.Slice,reflect.Struct,reflect.Array:")
	facts["hasTypedDescent"] = !has(hasF, "got:=reflectGetWild(tv)")
	facts["walkTypedArray"] = !(has(fn{"slice.go", "Slice", "Walk"}, "rv.Kind()==reflect.Array") && has(fwalk, "casereflect.Slice,reflect.Array:"))
	facts["nestedFilterRoot"] = !has(ewr, "x.nestedRoot(root).Get(dv)")
	facts["locFilterRootNil"] = has(fn{"filter.go", "Filter", "locate"}, "f.evalWithRoot([]any{},data,nil)")
	facts["walkFilterRootSelf"] = has(fwalk, "f.Match(v)")
	// (Get and FirstFound ask the filter first: a filter of a script's path operand carries the document, 22c4424)
	rootOr := fn{"filter.go", "Filter", "rootOr"}
	facts["filterRootIsArgument"] = has(fn{"get.go", "Expr", "Get"}, "tf.evalWithRoot(stack,prev,tf.rootOr(data))") && has(first, "tf.evalWithRoot(stack,prev,tf.rootOr(data))") &&
		has(rootOr, "iff.rooted{returnf.root}") && has(rootOr, "returndata") &&
		has(hasF, "tf.evalWithRoot(stack,prev,data)") && has(fn{"node.go", "Expr", "GetNodes"}, "tf.evalWithRoot(stack,prev,n)") &&
		has(fn{"node.go", "Expr", "FirstNode"}, "tf.evalWithRoot(stack,prev,n)")
	notWritten := has(fn{"filter.go", "Filter", "withRoot"}, "return&Filter{") &&
		has(fn{"filter.go", "Expr", "rootedFilters"}, "rx:=make(Expr,len(x))copy(rx,x)")
	for _, f := range []fn{{"get.go", "Expr", "Get"}, {"get.go", "Expr", "FirstFound"}, {"has.go", "Expr", "Has"}, {"node.go", "Expr", "GetNodes"},
		{"node.go", "Expr", "FirstNode"}, {"locate.go", "Expr", "Locate"}, {"walk.go", "Expr", "Walk"}, {"filter.go", "Filter", "withRoot"},
		{"filter.go", "Expr", "rootedFilters"}, {"filter.go", "Expr", "nestedRoot"}} {
		w, err := s.writesReceiver(f.file, f.recv, f.name)
		if err != nil && firstErr == nil {
			firstErr = err
		}
		if w {
			notWritten = false
		}
	}
	facts["exprNotWritten"] = notWritten
	// the descent case of the three machines: from `caseDescent:` to the next fragment case
	markerMissing := false
	for _, m := range []fn{{"get.go", "Expr", "Get"}, {"get.go", "Expr", "FirstFound"}, {"has.go", "Expr", "Has"}} {
		b, err := get(m)
		if err != nil {
			continue
		}
		i := strings.Index(b, "caseDescent:")
		j := strings.Index(b, "caseRoot:")
		if i < 0 || j < i {
			if firstErr == nil {
				firstErr = fmt.Errorf("jpath: no descent case found in %s", m.name)
			}
			continue
		}
		seg := b[i:j]
		const bare = "casereflect.Ptr,reflect.Slice,reflect.Struct,reflect.Array,reflect.Map:stack=append(stack,v)}"
		const marked = "casereflect.Ptr,reflect.Slice,reflect.Struct,reflect.Array,reflect.Map:stack=append(stack,v)stack=append(stack,fi|descentChildFlag)}"
		if strings.Contains(seg, bare) || !strings.Contains(seg, marked) {
			markerMissing = true
		}
	}
	facts["descentMarkerMissing"] = markerMissing
	const deref = "ifrv.Kind()==reflect.Ptr{rv=rv.Elem()}"
	facts["filterPointerBlind"] = !(has(ewr, deref) && has(fwalk, deref))
	if firstErr != nil {
		return nil, firstErr
	}

	order := []string{"innerEmptySlice", "descentSiblings", "locNegEnd", "locStartClamp", "locEmptyArray", "locateRoot",
		"walkDescentNoSelf", "nodesUnionNil", "nodesFilterRev", "firstNodeLast", "nodesFilterNull", "typedMapWild",
		"typedObjFilter", "firstTypedSlice", "firstTypedWildOne", "hasTypedMap", "hasTypedDescent", "walkTypedArray",
		"nestedFilterRoot", "locFilterRootNil", "walkFilterRootSelf", "filterRootIsArgument", "exprNotWritten", "descentMarkerMissing", "filterPointerBlind"}
	var b strings.Builder
	b.WriteString("/- GENERATED by /verif/tools/extract (jpath.go) from jp/*.go — do not edit; rewritten on every run.\n")
	b.WriteString("   One Bool per deviation flag of OjgVerif.JPath.Cfg: true = the deviation is in the source\n   (filterRootIsArgument is not a flag: true = the five Get-like entry points hand their argument to filters as the root;\n   exprNotWritten is not a flag: true = no evaluator writes through the Expr or Filter it is given). -/\n")
	b.WriteString("namespace OjgVerif.Gen.JpathFacts\n\n")
	for _, k := range order {
		fmt.Fprintf(&b, "def %s : Bool := %v\n", k, facts[k])
	}
	b.WriteString("\nend OjgVerif.Gen.JpathFacts\n")
	path := filepath.Join(out, "JpathFacts.lean")
	changed, err := writeIfChanged(path, b.String())
	if err != nil {
		return nil, err
	}
	if changed {
		return []string{"JpathFacts.lean"}, nil
	}
	return nil, nil
}
