// Extra extraction for the reflect family (C15): facts about the struct field plans that are not
// constants, written as Lean data into Gen/Reflect.lean:
//
//   - whether sen/sinfo.go is a copy of oj/sinfo.go (package clause and comments aside);
//   - the wiring of Writer.calcFieldsIndex (oj/writer.go, sen/writer.go) and sinfo.getFields
//     (alt/sinfo.go): which option sets which mask, in source order, `else` branches marked;
//   - the comparison operator with which buildFields hands (maskNested&u) to the three builders
//     (oj/sen: `!=`, alt: `==`: alt's builders take the flag inverted);
//   - the names in every 8-entry append/value function table (`intAppendFuncs`, `boolValFuncs`, …) in
//     index order: entry i must be the variant for str (bit 0), omit (bit 1), embedded (bit 2).
//   - the source facts the deviation flags of `Dev.current` stand for (so that applying or reverting a
//     fix in /repo without flipping the flag breaks a theorem): whether the `omitempty` case of
//     buildTagFields assigns to a parameter (leak), the pointer tests of oj's tightSlice/tightMap,
//     whether alt's reflectMap calls isNil, the guards of registerComposer and recomp on
//     `c.rtype`, whether getTypeStruct selects structEmptyMap, which flag newFinfo hands to it and
//     what the builders pass for that flag; the nil tests of recomp/setValue, indexType's look through an
//     embedded pointer, the skipNilEmbedded wrappers of the builders.
//
// It fails loudly on source shapes it cannot read.
package main

import (
	"bytes"
	"fmt"
	"go/ast"
	"go/format"
	"go/parser"
	"go/token"
	"path/filepath"
	"sort"
	"strings"
)

func init() { registerExtra(extractReflect) }

func rflFuncDecl(f *ast.File, recv, name string) *ast.FuncDecl {
	for _, d := range f.Decls {
		fd, ok := d.(*ast.FuncDecl)
		if !ok || fd.Name.Name != name {
			continue
		}
		if recv == "" && fd.Recv == nil {
			return fd
		}
		if recv != "" && fd.Recv != nil && len(fd.Recv.List) == 1 {
			t := fd.Recv.List[0].Type
			if se, ok := t.(*ast.StarExpr); ok {
				t = se.X
			}
			if id, ok := t.(*ast.Ident); ok && id.Name == recv {
				return fd
			}
		}
	}
	return nil
}

func rflExprText(fset *token.FileSet, x ast.Node) string {
	var b bytes.Buffer
	_ = format.Node(&b, fset, x)
	return strings.Join(strings.Fields(b.String()), " ")
}

// rflWiring reads a body made of `x = 0` / `var x byte` followed by if statements of the shape
// `if COND { x |= MASK } [else if COND { x |= MASK }]` and returns "COND->MASK" / "else COND->MASK".
func rflWiring(fset *token.FileSet, fd *ast.FuncDecl, where string) ([]string, error) {
	var out []string
	var walkIf func(is *ast.IfStmt, isElse bool) error
	walkIf = func(is *ast.IfStmt, isElse bool) error {
		if is.Init != nil || len(is.Body.List) != 1 {
			return fmt.Errorf("reflect extractor: %s: unexpected if shape", where)
		}
		as, ok := is.Body.List[0].(*ast.AssignStmt)
		if !ok || as.Tok != token.OR_ASSIGN || len(as.Rhs) != 1 {
			return fmt.Errorf("reflect extractor: %s: if body is not `x |= mask`", where)
		}
		pre := ""
		if isElse {
			pre = "else "
		}
		out = append(out, pre+rflExprText(fset, is.Cond)+"->"+rflExprText(fset, as.Rhs[0]))
		switch e := is.Else.(type) {
		case nil:
		case *ast.IfStmt:
			return walkIf(e, true)
		default:
			return fmt.Errorf("reflect extractor: %s: unexpected else", where)
		}
		return nil
	}
	for _, st := range fd.Body.List {
		switch s := st.(type) {
		case *ast.IfStmt:
			if err := walkIf(s, false); err != nil {
				return nil, err
			}
		case *ast.AssignStmt, *ast.DeclStmt, *ast.ReturnStmt:
		default:
			return nil, fmt.Errorf("reflect extractor: %s: unexpected statement %T", where, st)
		}
	}
	if len(out) == 0 {
		return nil, fmt.Errorf("reflect extractor: %s: no wiring found", where)
	}
	return out, nil
}

// rflNestedOps returns, for each builder call in buildFields, the operator comparing (maskNested&u)
// with 0.
func rflNestedOps(fset *token.FileSet, fd *ast.FuncDecl, where string) ([]string, error) {
	var out []string
	ast.Inspect(fd.Body, func(n ast.Node) bool {
		ce, ok := n.(*ast.CallExpr)
		if !ok {
			return true
		}
		id, ok := ce.Fun.(*ast.Ident)
		if !ok || !strings.HasPrefix(id.Name, "build") || !strings.HasSuffix(id.Name, "Fields") || len(ce.Args) < 2 {
			return true
		}
		be, ok := ce.Args[1].(*ast.BinaryExpr)
		if !ok {
			out = append(out, id.Name+":?")
			return true
		}
		out = append(out, id.Name+":"+rflExprText(fset, be.X)+" "+be.Op.String()+" "+rflExprText(fset, be.Y))
		return true
	})
	if len(out) != 3 {
		return nil, fmt.Errorf("reflect extractor: %s: expected three builder calls, found %d", where, len(out))
	}
	return out, nil
}

// rflTables collects every package-level `var xFuncs = [8]T{a, b, …}`.
func rflTables(repo, pkg, suffix string) (map[string][]string, error) {
	fset := token.NewFileSet()
	files, err := filepath.Glob(filepath.Join(repo, pkg, "f*.go"))
	if err != nil || len(files) == 0 {
		return nil, fmt.Errorf("reflect extractor: no %s/f*.go files", pkg)
	}
	out := map[string][]string{}
	for _, fn := range files {
		if strings.HasSuffix(fn, "_test.go") {
			continue
		}
		f, err := parser.ParseFile(fset, fn, nil, 0)
		if err != nil {
			return nil, fmt.Errorf("reflect extractor: %v", err)
		}
		for _, d := range f.Decls {
			gd, ok := d.(*ast.GenDecl)
			if !ok || gd.Tok != token.VAR {
				continue
			}
			for _, sp := range gd.Specs {
				vs := sp.(*ast.ValueSpec)
				if len(vs.Names) != 1 || len(vs.Values) != 1 || !strings.HasSuffix(vs.Names[0].Name, suffix) {
					continue
				}
				cl, ok := vs.Values[0].(*ast.CompositeLit)
				if !ok {
					return nil, fmt.Errorf("reflect extractor: %s.%s is not a composite literal", pkg, vs.Names[0].Name)
				}
				var names []string
				for _, el := range cl.Elts {
					id, ok := el.(*ast.Ident)
					if !ok {
						return nil, fmt.Errorf("reflect extractor: %s.%s has a non-identifier entry", pkg, vs.Names[0].Name)
					}
					names = append(names, id.Name)
				}
				out[vs.Names[0].Name] = names
			}
		}
	}
	if len(out) == 0 {
		return nil, fmt.Errorf("reflect extractor: no %s tables in %s", suffix, pkg)
	}
	return out, nil
}

func rflLeanList(xs []string) string {
	q := make([]string, len(xs))
	for i, x := range xs {
		q[i] = fmt.Sprintf("%q", x)
	}
	return "[" + strings.Join(q, ", ") + "]"
}

// rflNormalized is the source without comments and package clause, gofmt'ed.
func rflNormalized(path string) (string, error) {
	fset := token.NewFileSet()
	f, err := parser.ParseFile(fset, path, nil, 0) // comments dropped
	if err != nil {
		return "", err
	}
	f.Name = ast.NewIdent("p")
	var b bytes.Buffer
	if err := format.Node(&b, fset, f); err != nil {
		return "", err
	}
	return b.String(), nil
}

func rflParse(repo, pkg, file string) (*token.FileSet, *ast.File, error) {
	fset := token.NewFileSet()
	f, err := parser.ParseFile(fset, filepath.Join(repo, pkg, file), nil, 0)
	if err != nil {
		return nil, nil, fmt.Errorf("reflect extractor: %v", err)
	}
	return fset, f, nil
}

// rflTagOmitAssignsParam: in buildTagFields the statement under `case "omitempty":` assigns true to an
// identifier; is that identifier one of the function's parameters?
func rflTagOmitAssignsParam(repo, pkg string) (bool, error) {
	_, f, err := rflParse(repo, pkg, "sinfo.go")
	if err != nil {
		return false, err
	}
	fd := rflFuncDecl(f, "", "buildTagFields")
	if fd == nil {
		return false, fmt.Errorf("reflect extractor: %s/sinfo.go: buildTagFields not found", pkg)
	}
	params := map[string]bool{}
	for _, fl := range fd.Type.Params.List {
		for _, n := range fl.Names {
			params[n.Name] = true
		}
	}
	found, isParam := 0, false
	ast.Inspect(fd.Body, func(n ast.Node) bool {
		cc, ok := n.(*ast.CaseClause)
		if !ok || len(cc.List) != 1 {
			return true
		}
		bl, ok := cc.List[0].(*ast.BasicLit)
		if !ok || bl.Value != `"omitempty"` || len(cc.Body) != 1 {
			return true
		}
		as, ok := cc.Body[0].(*ast.AssignStmt)
		if !ok || len(as.Lhs) != 1 {
			return true
		}
		id, ok := as.Lhs[0].(*ast.Ident)
		if !ok {
			return true
		}
		found++
		isParam = params[id.Name]
		return true
	})
	if found != 1 {
		return false, fmt.Errorf("reflect extractor: %s.buildTagFields: expected one `case \"omitempty\": x = true`, found %d", pkg, found)
	}
	return isParam, nil
}

// rflIfWithCond returns the text of the first if statement of fd whose condition contains want
// (condition only when condOnly, else the whole statement).
func rflIfWithCond(fset *token.FileSet, fd *ast.FuncDecl, want string, condOnly bool) (string, bool) {
	res, ok := "", false
	ast.Inspect(fd.Body, func(n ast.Node) bool {
		if ok {
			return false
		}
		is, isIf := n.(*ast.IfStmt)
		if !isIf {
			return true
		}
		c := rflExprText(fset, is.Cond)
		if is.Init != nil {
			c = rflExprText(fset, is.Init) + "; " + c
		}
		if strings.Contains(c, want) {
			ok = true
			if condOnly {
				res = c
			} else {
				res = rflExprText(fset, is)
			}
			return false
		}
		return true
	})
	return res, ok
}

func rflAllIfConds(fset *token.FileSet, fd *ast.FuncDecl, want string) []string {
	var out []string
	ast.Inspect(fd.Body, func(n ast.Node) bool {
		is, isIf := n.(*ast.IfStmt)
		if !isIf {
			return true
		}
		c := rflExprText(fset, is.Cond)
		if is.Init != nil {
			c = rflExprText(fset, is.Init) + "; " + c
		}
		if strings.Contains(c, want) {
			out = append(out, c)
		}
		return true
	})
	return out
}

func rflContainsIdent(n ast.Node, name string) bool {
	has := false
	ast.Inspect(n, func(x ast.Node) bool {
		if id, ok := x.(*ast.Ident); ok && id.Name == name {
			has = true
		}
		return !has
	})
	return has
}

func rflSourceFacts(repo string, b *strings.Builder) error {
	for _, pkg := range []string{"oj", "sen"} {
		v, err := rflTagOmitAssignsParam(repo, pkg)
		if err != nil {
			return err
		}
		fmt.Fprintf(b, "/-- %s/sinfo.go buildTagFields: `case \"omitempty\":` assigns to a PARAMETER of the function (the leak) -/\ndef %sTagOmitAssignsParam : Bool := %v\n\n", pkg, pkg, v)
		fset, f, err := rflParse(repo, pkg, "sinfo.go")
		if err != nil {
			return err
		}
		_ = fset
		gts := rflFuncDecl(f, "", "getTypeStruct")
		if gts == nil {
			return fmt.Errorf("reflect extractor: %s/sinfo.go: getTypeStruct not found", pkg)
		}
		fmt.Fprintf(b, "/-- %s/sinfo.go getTypeStruct looks the plan up in structEmptyMap when its flag is set -/\ndef %sGetTypeStructSelectsMap : Bool := %v\n\n", pkg, pkg, rflContainsIdent(gts.Body, "structEmptyMap"))
		fs2, ff, err := rflParse(repo, pkg, "finfo.go")
		if err != nil {
			return err
		}
		nf := rflFuncDecl(ff, "", "newFinfo")
		if nf == nil {
			return fmt.Errorf("reflect extractor: %s/finfo.go: newFinfo not found", pkg)
		}
		var flags []string
		ast.Inspect(nf.Body, func(n ast.Node) bool {
			ce, ok := n.(*ast.CallExpr)
			if !ok {
				return true
			}
			if id, ok := ce.Fun.(*ast.Ident); ok && id.Name == "getTypeStruct" && len(ce.Args) == 3 {
				flags = append(flags, rflExprText(fs2, ce.Args[2]))
			}
			return true
		})
		if len(flags) == 0 {
			return fmt.Errorf("reflect extractor: %s.newFinfo: no getTypeStruct call", pkg)
		}
		fmt.Fprintf(b, "/-- %s/finfo.go newFinfo: the flag handed to getTypeStruct for the nested struct type, per call -/\ndef %sNewFinfoNestFlags : List String := %s\n\n", pkg, pkg, rflLeanList(flags))
		// what the builders of sinfo.go pass for newFinfo's parameter `nestOmit` (none before /repo 9b6b623)
		nestIdx := -1
		pi := 0
		for _, fl := range nf.Type.Params.List {
			for _, n := range fl.Names {
				if n.Name == "nestOmit" {
					nestIdx = pi
				}
				pi++
			}
		}
		var nestArgs []string
		if nestIdx >= 0 {
			fs3, fsi, err := rflParse(repo, pkg, "sinfo.go")
			if err != nil {
				return err
			}
			bad := false
			ast.Inspect(fsi, func(n ast.Node) bool {
				ce, ok := n.(*ast.CallExpr)
				if !ok {
					return true
				}
				if id, ok := ce.Fun.(*ast.Ident); ok && id.Name == "newFinfo" {
					if len(ce.Args) != pi {
						bad = true
						return true
					}
					nestArgs = append(nestArgs, rflExprText(fs3, ce.Args[nestIdx]))
				}
				return true
			})
			if bad || len(nestArgs) == 0 {
				return fmt.Errorf("reflect extractor: %s/sinfo.go: newFinfo calls do not match its signature", pkg)
			}
		}
		fmt.Fprintf(b, "/-- %s/sinfo.go: what each builder passes for newFinfo's parameter `nestOmit` (the flag nested plans are built with); empty when newFinfo has no such parameter -/\ndef %sNewFinfoNestArgs : List String := %s\n\n", pkg, pkg, rflLeanList(nestArgs))
	}
	// oj tight writers
	fset, f, err := rflParse(repo, "oj", "tight.go")
	if err != nil {
		return err
	}
	ts := rflFuncDecl(f, "Writer", "tightSlice")
	tm := rflFuncDecl(f, "Writer", "tightMap")
	if ts == nil || tm == nil {
		return fmt.Errorf("reflect extractor: oj/tight.go: tightSlice/tightMap not found")
	}
	c1, ok := rflIfWithCond(fset, ts, "rm.Kind() == reflect.Ptr", true)
	if !ok {
		return fmt.Errorf("reflect extractor: oj.tightSlice: pointer test not found")
	}
	c2, ok := rflIfWithCond(fset, tm, "rm.Kind() == reflect.Ptr", false)
	if !ok {
		return fmt.Errorf("reflect extractor: oj.tightMap: pointer test not found")
	}
	fmt.Fprintf(b, "/-- oj/tight.go tightSlice: the condition under which a pointer element is dereferenced -/\ndef ojTightSlicePtrCond : String := %q\n\n", c1)
	fmt.Fprintf(b, "/-- oj/tight.go tightMap: the statement that dereferences a pointer value -/\ndef ojTightMapPtrStmt : String := %q\n\n", c2)
	// alt
	_, fa, err := rflParse(repo, "alt", "decompose.go")
	if err != nil {
		return err
	}
	rm := rflFuncDecl(fa, "", "reflectMap")
	if rm == nil {
		return fmt.Errorf("reflect extractor: alt/decompose.go: reflectMap not found")
	}
	fmt.Fprintf(b, "/-- alt/decompose.go reflectMap tests map values with isNil (which is true for nil slices and maps too) -/\ndef altReflectMapUsesIsNil : Bool := %v\n\n", rflContainsIdent(rm.Body, "isNil"))
	fsr, fr, err := rflParse(repo, "alt", "recomposer.go")
	if err != nil {
		return err
	}
	rc := rflFuncDecl(fr, "Recomposer", "registerComposer")
	rp := rflFuncDecl(fr, "Recomposer", "recomp")
	if rc == nil || rp == nil {
		return fmt.Errorf("reflect extractor: alt/recomposer.go: registerComposer/recomp not found")
	}
	g1, ok := rflIfWithCond(fsr, rc, "c == nil", true)
	if !ok {
		return fmt.Errorf("reflect extractor: alt.registerComposer: `c == nil` test not found")
	}
	g2 := rflAllIfConds(fsr, rp, "r.composers[rv.Type().Name()]")
	if len(g2) == 0 {
		return fmt.Errorf("reflect extractor: alt.recomp: lookup by rv.Type().Name() not found")
	}
	// does the field walk unwrap `ft = ft.Elem()` inside a loop (a720b7c) or once?
	inLoop, once := false, false
	ast.Inspect(rc.Body, func(n ast.Node) bool {
		switch st := n.(type) {
		case *ast.ForStmt:
			if st.Cond == nil && st.Init == nil && st.Post == nil {
				ast.Inspect(st.Body, func(m ast.Node) bool {
					if as, ok := m.(*ast.AssignStmt); ok && rflExprText(fsr, as) == "ft = ft.Elem()" {
						inLoop = true
					}
					return true
				})
			}
		case *ast.AssignStmt:
			if rflExprText(fsr, st) == "ft = ft.Elem()" {
				once = true
			}
		}
		return true
	})
	if !once {
		return fmt.Errorf("reflect extractor: alt.registerComposer: `ft = ft.Elem()` not found")
	}
	fmt.Fprintf(b, "/-- alt/recomposer.go registerComposer: the field walk unwraps containers in a loop, down to the element type -/\ndef altRegisterWalkUnwrapsAll : Bool := %v\n\n", inLoop)
	// 041b92d: the loop remembers the NAMED container types it went through and stops at one met a
	// second time (type Tree map[string]Tree): inside the labelled loop, before `ft = ft.Elem()`, an
	// `if ft.Name() != ""` that ranges over the list, leaves the loop on a hit and appends otherwise
	seenGuard := false
	ast.Inspect(rc.Body, func(n ast.Node) bool {
		ls, ok := n.(*ast.LabeledStmt)
		if !ok {
			return true
		}
		fs, ok := ls.Stmt.(*ast.ForStmt)
		if !ok || fs.Cond != nil || fs.Init != nil || fs.Post != nil {
			return true
		}
		label := ls.Label.Name
		var elemPos, guardPos token.Pos
		guardOK := false
		ast.Inspect(fs.Body, func(m ast.Node) bool {
			switch st := m.(type) {
			case *ast.AssignStmt:
				if rflExprText(fsr, st) == "ft = ft.Elem()" && elemPos == 0 {
					elemPos = st.Pos()
				}
			case *ast.IfStmt:
				if rflExprText(fsr, st.Cond) != `ft.Name() != ""` {
					return true
				}
				leaves, appends := false, false
				var listName string
				ast.Inspect(st.Body, func(k ast.Node) bool {
					switch x := k.(type) {
					case *ast.RangeStmt:
						listName = rflExprText(fsr, x.X)
						val := ""
						if x.Value != nil {
							val = rflExprText(fsr, x.Value)
						}
						ast.Inspect(x.Body, func(q ast.Node) bool {
							if is, ok := q.(*ast.IfStmt); ok {
								c := rflExprText(fsr, is.Cond)
								if val != "" && (c == val+" == ft" || c == "ft == "+val) {
									for _, bs := range is.Body.List {
										if br, ok := bs.(*ast.BranchStmt); ok && br.Tok == token.BREAK && br.Label != nil && br.Label.Name == label {
											leaves = true
										}
									}
								}
							}
							return true
						})
					case *ast.AssignStmt:
						if listName != "" && rflExprText(fsr, x) == listName+" = append("+listName+", ft)" {
							appends = true
						}
					}
					return true
				})
				if leaves && appends {
					guardOK, guardPos = true, st.Pos()
				}
			}
			return true
		})
		if guardOK && elemPos != 0 && guardPos < elemPos {
			seenGuard = true
		}
		return true
	})
	fmt.Fprintf(b, "/-- alt/recomposer.go registerComposer: the unwrap loop of the field walk stops at a NAMED container type it meets a second time (041b92d; before, `type Tree map[string]Tree` as a field type made it spin for ever) -/\ndef altRegisterWalkSeenGuard : Bool := %v\n\n", seenGuard)
	// the order in which recomp's struct case looks a member up for an index entry: every `vm[…]` inside
	// the loop over the field index, in source order, and where `name[0] |= 0x20` stands among them
	var lookups []string
	foundLoop := false
	ast.Inspect(rp.Body, func(n ast.Node) bool {
		rs, ok := n.(*ast.RangeStmt)
		if !ok || rflExprText(fsr, rs.X) != "im" {
			return true
		}
		foundLoop = true
		ast.Inspect(rs.Body, func(m ast.Node) bool {
			switch x := m.(type) {
			case *ast.IndexExpr:
				if t := rflExprText(fsr, x.X); t == "vm" || t == "im" {
					lookups = append(lookups, rflExprText(fsr, x))
				}
			case *ast.IfStmt:
				// the guard of the fallback closure (1029e85): which names are not offered
				if c := rflExprText(fsr, x.Cond); strings.Contains(c, "claimed") {
					lookups = append(lookups, "if:"+c)
				}
			case *ast.AssignStmt:
				if t := rflExprText(fsr, x); t == "name[0] |= 0x20" {
					lookups = append(lookups, t)
				}
			case *ast.CallExpr:
				// a helper that is handed the member map does the lookups somewhere else: name it
				for _, a := range x.Args {
					if rflExprText(fsr, a) == "vm" {
						lookups = append(lookups, "call:"+rflExprText(fsr, x.Fun))
					}
				}
				// the fallback spellings go through the closure `other`: which name, in source order
				if f := rflExprText(fsr, x.Fun); f == "other" && len(x.Args) == 1 {
					lookups = append(lookups, "other("+rflExprText(fsr, x.Args[0])+")")
				}
			}
			return true
		})
		return false
	})
	if !foundLoop {
		return fmt.Errorf("reflect extractor: alt.recomp: the loop over the field index `im` not found")
	}
	fmt.Fprintf(b, "/-- alt/recomposer.go recomp, struct case: the member lookups for one index entry, in source order (`vm[k]` is the index key, i.e. the json tag name) -/\ndef altRecompMemberLookups : List String := [")
	for i, l := range lookups {
		if i > 0 {
			b.WriteString(", ")
		}
		fmt.Fprintf(b, "%q", l)
	}
	b.WriteString("]\n\n")
	// value-level repairs 4344ad7, f1da31f, b19f06c
	sv := rflFuncDecl(fr, "Recomposer", "setValue")
	if sv == nil {
		return fmt.Errorf("reflect extractor: alt/recomposer.go: setValue not found")
	}
	has := func(fd *ast.FuncDecl, cond string) int {
		n := 0
		for _, c := range rflAllIfConds(fsr, fd, cond) {
			if c == cond {
				n++
			}
		}
		return n
	}
	nilPtr := has(rp, "va[i] == nil") == 1 && has(rp, "m == nil") == 1 && has(sv, "v == nil") == 1
	nilIface := has(rp, "v = r.recompAny(v); v != nil") == 1 && has(sv, "v = r.recompAny(v); v != nil") == 1 &&
		has(rp, "x := r.recompAny(m); x != nil") == 1
	fmt.Fprintf(b, "/-- alt/recomposer.go: a nil datum leaves a pointer element of a slice/map and a pointer slot of setValue nil (4344ad7) -/\ndef altNilPtrElemKept : Bool := %v\n\n", nilPtr)
	fmt.Fprintf(b, "/-- alt/recomposer.go: a nil datum for an interface slot is tested before Set / kept as a map member (f1da31f) -/\ndef altNilIfaceKept : Bool := %v\n\n", nilIface)
	fsc, fc, err := rflParse(repo, "alt", "composer.go")
	if err != nil {
		return err
	}
	it := rflFuncDecl(fc, "", "indexType")
	if it == nil {
		return fmt.Errorf("reflect extractor: alt/composer.go: indexType not found")
	}
	// the loop over the fields may live in a helper indexType hands the embedded types on to
	guardsCycles := false
	if ie := rflFuncDecl(fc, "", "indexEmbedded"); ie != nil {
		it = ie
		// it remembers the types it is inside of and compares them with the type it is given
		guardsCycles = ie.Type.Params.NumFields() == 2 && strings.Contains(rflExprText(fsc, ie.Body), "== rt")
	}
	embOK := false
	for _, c := range rflAllIfConds(fsc, it, "f.Anonymous") {
		if c == "f.Anonymous && et.Kind() == reflect.Struct" {
			embOK = true
		}
	}
	alloc := rflFuncDecl(fr, "", "fieldByIndexAlloc") != nil && rflContainsIdent(rp.Body, "fieldByIndexAlloc") && !strings.Contains(rflExprText(fsr, rp.Body), "rv.FieldByIndex(sf.Index)")
	fmt.Fprintf(b, "/-- alt: indexType looks through an embedded pointer and flattens structs only; recomp fetches a field through fieldByIndexAlloc when there is a datum (b19f06c) -/\ndef altEmbeddedPtrIndexed : Bool := %v\n\n", embOK && alloc)
	// C15: the flattened entries of an embedded pointer skip a nil pointer on the way (272431d)
	for _, pkg := range []string{"oj", "sen", "alt"} {
		fsx, fx, err := rflParse(repo, pkg, "sinfo.go")
		if err != nil {
			return err
		}
		n := 0
		ast.Inspect(fx, func(x ast.Node) bool {
			if ce, ok := x.(*ast.CallExpr); ok {
				if id, ok := ce.Fun.(*ast.Ident); ok && id.Name == "skipNilEmbedded" {
					n++
				}
			}
			return true
		})
		fmt.Fprintf(b, "/-- %s/sinfo.go: how many builders wrap the index access of a flattened embedded pointer in skipNilEmbedded (272431d: all three) -/\ndef %sSkipNilEmbeddedCalls : Nat := %d\n\n", pkg, pkg, n)
		// C15-self-embedding (1c47510): a builder returns at once for a type it is already inside of,
		// notes the type, and hands the list on in both recursive calls
		guarded := 0
		for _, bn := range []string{"buildTagFields", "buildExactFields", "buildLowFields"} {
			fd := rflFuncDecl(fx, "", bn)
			if fd == nil || fd.Body == nil || len(fd.Body.List) < 2 {
				continue
			}
			first, isIf := fd.Body.List[0].(*ast.IfStmt)
			if !isIf || rflExprText(fsx, first.Cond) != "embeddedIn(rt, outer)" || len(first.Body.List) != 1 {
				continue
			}
			if _, isRet := first.Body.List[0].(*ast.ReturnStmt); !isRet {
				continue
			}
			if rflExprText(fsx, fd.Body.List[1]) != "outer = append(outer, rt)" {
				continue
			}
			rec, handed := 0, 0
			ast.Inspect(fd.Body, func(x ast.Node) bool {
				if ce, ok := x.(*ast.CallExpr); ok {
					if id, ok := ce.Fun.(*ast.Ident); ok && id.Name == bn {
						rec++
						if n := len(ce.Args); n > 0 && ce.Ellipsis.IsValid() && rflExprText(fsx, ce.Args[n-1]) == "outer" {
							handed++
						}
					}
				}
				return true
			})
			if rec == 2 && handed == 2 {
				guarded++
			}
		}
		fmt.Fprintf(b, "/-- %s/sinfo.go: how many of buildTagFields / buildExactFields / buildLowFields do not enter a type they are already inside of (1c47510: all three) -/\ndef %sBuildersGuardCycles : Nat := %d\n\n", pkg, pkg, guarded)
	}
	// C06rec: the entry points recover; indexType and self-embedding types; the any-composer registration
	recovers := func(fd *ast.FuncDecl) bool {
		if fd == nil || fd.Body == nil {
			return false
		}
		for _, st := range fd.Body.List {
			if ds, ok := st.(*ast.DeferStmt); ok {
				if fl, ok := ds.Call.Fun.(*ast.FuncLit); ok && rflContainsIdent(fl.Body, "recover") {
					return true
				}
			}
		}
		return false
	}
	_, fa, err = rflParse(repo, "alt", "alt.go")
	if err != nil {
		return err
	}
	fmt.Fprintf(b, "/-- alt/recomposer.go: (*Recomposer).Recompose defers a recover that turns a panic into its error result -/\ndef altRecomposeRecovers : Bool := %v\n\n", recovers(rflFuncDecl(fr, "Recomposer", "Recompose")))
	fmt.Fprintf(b, "/-- alt/alt.go: NewRecomposer defers a recover that turns a panic into its error result -/\ndef altNewRecomposerRecovers : Bool := %v\n\n", recovers(rflFuncDecl(fa, "", "NewRecomposer")))
	fmt.Fprintf(b, "/-- alt/composer.go: the field index builder remembers the embedded types it is inside of (a type that embeds itself ends the recursion) -/\ndef altIndexTypeGuardsCycles : Bool := %v\n\n", guardsCycles)
	ga := ""
	if ra := rflFuncDecl(fr, "Recomposer", "registerAnyComposer"); ra != nil {
		ga, _ = rflIfWithCond(fsr, ra, "c == nil", true)
	}
	fmt.Fprintf(b, "/-- alt/recomposer.go registerAnyComposer: when a new composer is built -/\ndef altRegisterAnyNewCond : String := %q\n\n", ga)
	fmt.Fprintf(b, "/-- alt/recomposer.go registerComposer: when a new composer is built -/\ndef altRegisterNewCond : String := %q\n\n", g1)
	fmt.Fprintf(b, "/-- alt/recomposer.go recomp: the lookups of a composer by bare type name -/\ndef altRecompLookups : List String := %s\n\n", rflLeanList(g2))
	return nil
}

func extractReflect(repo, out string) ([]string, error) {
	var b strings.Builder
	b.WriteString("/- GENERATED by /verif/tools/extract (reflect.go) from oj, sen, alt — do not edit; rewritten on every run. -/\n")
	b.WriteString("namespace OjgVerif.Gen.Reflect\n\n")
	// copy check
	a, err := rflNormalized(filepath.Join(repo, "oj", "sinfo.go"))
	if err != nil {
		return nil, fmt.Errorf("reflect extractor: %v", err)
	}
	s, err := rflNormalized(filepath.Join(repo, "sen", "sinfo.go"))
	if err != nil {
		return nil, fmt.Errorf("reflect extractor: %v", err)
	}
	fmt.Fprintf(&b, "/-- sen/sinfo.go equals oj/sinfo.go (package clause and comments aside) -/\ndef senSinfoIsCopy : Bool := %v\n\n", a == s)
	// wiring
	for _, w := range []struct{ pkg, file, recv, fn, name string }{
		{"oj", "writer.go", "Writer", "calcFieldsIndex", "ojCalcFieldsIndex"},
		{"sen", "writer.go", "Writer", "calcFieldsIndex", "senCalcFieldsIndex"},
		{"alt", "sinfo.go", "sinfo", "getFields", "altGetFields"},
	} {
		fset := token.NewFileSet()
		f, err := parser.ParseFile(fset, filepath.Join(repo, w.pkg, w.file), nil, 0)
		if err != nil {
			return nil, fmt.Errorf("reflect extractor: %v", err)
		}
		fd := rflFuncDecl(f, w.recv, w.fn)
		if fd == nil {
			return nil, fmt.Errorf("reflect extractor: %s/%s: func %s not found", w.pkg, w.file, w.fn)
		}
		ws, err := rflWiring(fset, fd, w.pkg+"."+w.fn)
		if err != nil {
			return nil, err
		}
		fmt.Fprintf(&b, "/-- %s/%s %s: option -> mask, in source order -/\ndef %s : List String := %s\n\n", w.pkg, w.file, w.fn, w.name, rflLeanList(ws))
	}
	for _, w := range []struct{ pkg, name string }{{"oj", "ojBuildFieldsNested"}, {"sen", "senBuildFieldsNested"}, {"alt", "altBuildFieldsNested"}} {
		fset := token.NewFileSet()
		f, err := parser.ParseFile(fset, filepath.Join(repo, w.pkg, "sinfo.go"), nil, 0)
		if err != nil {
			return nil, fmt.Errorf("reflect extractor: %v", err)
		}
		fd := rflFuncDecl(f, "", "buildFields")
		if fd == nil {
			return nil, fmt.Errorf("reflect extractor: %s/sinfo.go: func buildFields not found", w.pkg)
		}
		ops, err := rflNestedOps(fset, fd, w.pkg+".buildFields")
		if err != nil {
			return nil, err
		}
		fmt.Fprintf(&b, "/-- %s/sinfo.go buildFields: the flag each builder receives for maskNested -/\ndef %s : List String := %s\n\n", w.pkg, w.name, rflLeanList(ops))
	}
	// function tables
	for _, w := range []struct{ pkg, suffix, name string }{{"oj", "AppendFuncs", "ojAppendTables"}, {"sen", "AppendFuncs", "senAppendTables"}, {"alt", "ValFuncs", "altValTables"}} {
		tabs, err := rflTables(repo, w.pkg, w.suffix)
		if err != nil {
			return nil, err
		}
		var keys []string
		for k := range tabs {
			keys = append(keys, k)
		}
		sort.Strings(keys)
		fmt.Fprintf(&b, "/-- the 8-entry function tables of %s: (table, entries in index order) -/\ndef %s : List (String × List String) := [\n", w.pkg, w.name)
		for i, k := range keys {
			sep := ","
			if i == len(keys)-1 {
				sep = ""
			}
			fmt.Fprintf(&b, "  (%q, %s)%s\n", k, rflLeanList(tabs[k]), sep)
		}
		b.WriteString("]\n\n")
	}
	if err := rflSourceFacts(repo, &b); err != nil {
		return nil, err
	}
	b.WriteString("end OjgVerif.Gen.Reflect\n")
	ch, err := writeIfChanged(filepath.Join(out, "Reflect.lean"), b.String())
	if err != nil {
		return nil, err
	}
	if ch {
		return []string{"Reflect"}, nil
	}
	return nil, nil
}
