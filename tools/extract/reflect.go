// Extra extraction for the reflect family (C15): facts about the struct field plans that are not
// constants, written as Lean data into Gen/Reflect.lean:
//
//   - whether sen/sinfo.go is a copy of oj/sinfo.go (package clause and comments aside);
//   - the wiring of Writer.calcFieldsIndex (oj/writer.go, sen/writer.go) and sinfo.getFields
//     (alt/sinfo.go): which option sets which mask, in source order, `else` branches marked;
//   - the comparison operator with which buildFields hands (maskNested&u) to the three builders
//     (oj/sen: `!=`, alt: `==`: alt's builders take the flag inverted);
//   - the names in every 8-entry append/value function table (`intAppendFuncs`, `boolValFuncs`, …) in
//     index order: entry i must be the variant for str (bit 0), omit (bit 1), embedded (bit 2).
//
// It fails loudly on source shapes it cannot read.
package main

import (
	"bytes"
	"fmt"
	"go/ast"
	"go/format"
	"go/parser"
	"go/token"
	"path/filepath"
	"sort"
	"strings"
)

func init() { registerExtra(extractReflect) }

func rflFuncDecl(f *ast.File, recv, name string) *ast.FuncDecl {
	for _, d := range f.Decls {
		fd, ok := d.(*ast.FuncDecl)
		if !ok || fd.Name.Name != name {
			continue
		}
		if recv == "" && fd.Recv == nil {
			return fd
		}
		if recv != "" && fd.Recv != nil && len(fd.Recv.List) == 1 {
			t := fd.Recv.List[0].Type
			if se, ok := t.(*ast.StarExpr); ok {
				t = se.X
			}
			if id, ok := t.(*ast.Ident); ok && id.Name == recv {
				return fd
			}
		}
	}
	return nil
}

func rflExprText(fset *token.FileSet, x ast.Node) string {
	var b bytes.Buffer
	_ = format.Node(&b, fset, x)
	return strings.Join(strings.Fields(b.String()), " ")
}

// rflWiring reads a body made of `x = 0` / `var x byte` followed by if statements of the shape
// `if COND { x |= MASK } [else if COND { x |= MASK }]` and returns "COND->MASK" / "else COND->MASK".
func rflWiring(fset *token.FileSet, fd *ast.FuncDecl, where string) ([]string, error) {
	var out []string
	var walkIf func(is *ast.IfStmt, isElse bool) error
	walkIf = func(is *ast.IfStmt, isElse bool) error {
		if is.Init != nil || len(is.Body.List) != 1 {
			return fmt.Errorf("reflect extractor: %s: unexpected if shape", where)
		}
		as, ok := is.Body.List[0].(*ast.AssignStmt)
		if !ok || as.Tok != token.OR_ASSIGN || len(as.Rhs) != 1 {
			return fmt.Errorf("reflect extractor: %s: if body is not `x |= mask`", where)
		}
		pre := ""
		if isElse {
			pre = "else "
		}
		out = append(out, pre+rflExprText(fset, is.Cond)+"->"+rflExprText(fset, as.Rhs[0]))
		switch e := is.Else.(type) {
		case nil:
		case *ast.IfStmt:
			return walkIf(e, true)
		default:
			return fmt.Errorf("reflect extractor: %s: unexpected else", where)
		}
		return nil
	}
	for _, st := range fd.Body.List {
		switch s := st.(type) {
		case *ast.IfStmt:
			if err := walkIf(s, false); err != nil {
				return nil, err
			}
		case *ast.AssignStmt, *ast.DeclStmt, *ast.ReturnStmt:
		default:
			return nil, fmt.Errorf("reflect extractor: %s: unexpected statement %T", where, st)
		}
	}
	if len(out) == 0 {
		return nil, fmt.Errorf("reflect extractor: %s: no wiring found", where)
	}
	return out, nil
}

// rflNestedOps returns, for each builder call in buildFields, the operator comparing (maskNested&u)
// with 0.
func rflNestedOps(fset *token.FileSet, fd *ast.FuncDecl, where string) ([]string, error) {
	var out []string
	ast.Inspect(fd.Body, func(n ast.Node) bool {
		ce, ok := n.(*ast.CallExpr)
		if !ok {
			return true
		}
		id, ok := ce.Fun.(*ast.Ident)
		if !ok || !strings.HasPrefix(id.Name, "build") || !strings.HasSuffix(id.Name, "Fields") || len(ce.Args) < 2 {
			return true
		}
		be, ok := ce.Args[1].(*ast.BinaryExpr)
		if !ok {
			out = append(out, id.Name+":?")
			return true
		}
		out = append(out, id.Name+":"+rflExprText(fset, be.X)+" "+be.Op.String()+" "+rflExprText(fset, be.Y))
		return true
	})
	if len(out) != 3 {
		return nil, fmt.Errorf("reflect extractor: %s: expected three builder calls, found %d", where, len(out))
	}
	return out, nil
}

// rflTables collects every package-level `var xFuncs = [8]T{a, b, …}`.
func rflTables(repo, pkg, suffix string) (map[string][]string, error) {
	fset := token.NewFileSet()
	files, err := filepath.Glob(filepath.Join(repo, pkg, "f*.go"))
	if err != nil || len(files) == 0 {
		return nil, fmt.Errorf("reflect extractor: no %s/f*.go files", pkg)
	}
	out := map[string][]string{}
	for _, fn := range files {
		if strings.HasSuffix(fn, "_test.go") {
			continue
		}
		f, err := parser.ParseFile(fset, fn, nil, 0)
		if err != nil {
			return nil, fmt.Errorf("reflect extractor: %v", err)
		}
		for _, d := range f.Decls {
			gd, ok := d.(*ast.GenDecl)
			if !ok || gd.Tok != token.VAR {
				continue
			}
			for _, sp := range gd.Specs {
				vs := sp.(*ast.ValueSpec)
				if len(vs.Names) != 1 || len(vs.Values) != 1 || !strings.HasSuffix(vs.Names[0].Name, suffix) {
					continue
				}
				cl, ok := vs.Values[0].(*ast.CompositeLit)
				if !ok {
					return nil, fmt.Errorf("reflect extractor: %s.%s is not a composite literal", pkg, vs.Names[0].Name)
				}
				var names []string
				for _, el := range cl.Elts {
					id, ok := el.(*ast.Ident)
					if !ok {
						return nil, fmt.Errorf("reflect extractor: %s.%s has a non-identifier entry", pkg, vs.Names[0].Name)
					}
					names = append(names, id.Name)
				}
				out[vs.Names[0].Name] = names
			}
		}
	}
	if len(out) == 0 {
		return nil, fmt.Errorf("reflect extractor: no %s tables in %s", suffix, pkg)
	}
	return out, nil
}

func rflLeanList(xs []string) string {
	q := make([]string, len(xs))
	for i, x := range xs {
		q[i] = fmt.Sprintf("%q", x)
	}
	return "[" + strings.Join(q, ", ") + "]"
}

// rflNormalized is the source without comments and package clause, gofmt'ed.
func rflNormalized(path string) (string, error) {
	fset := token.NewFileSet()
	f, err := parser.ParseFile(fset, path, nil, 0) // comments dropped
	if err != nil {
		return "", err
	}
	f.Name = ast.NewIdent("p")
	var b bytes.Buffer
	if err := format.Node(&b, fset, f); err != nil {
		return "", err
	}
	return b.String(), nil
}

func extractReflect(repo, out string) ([]string, error) {
	var b strings.Builder
	b.WriteString("/- GENERATED by /verif/tools/extract (reflect.go) from oj, sen, alt — do not edit; rewritten on every run. -/\n")
	b.WriteString("namespace OjgVerif.Gen.Reflect\n\n")
	// copy check
	a, err := rflNormalized(filepath.Join(repo, "oj", "sinfo.go"))
	if err != nil {
		return nil, fmt.Errorf("reflect extractor: %v", err)
	}
	s, err := rflNormalized(filepath.Join(repo, "sen", "sinfo.go"))
	if err != nil {
		return nil, fmt.Errorf("reflect extractor: %v", err)
	}
	fmt.Fprintf(&b, "/-- sen/sinfo.go equals oj/sinfo.go (package clause and comments aside) -/\ndef senSinfoIsCopy : Bool := %v\n\n", a == s)
	// wiring
	for _, w := range []struct{ pkg, file, recv, fn, name string }{
		{"oj", "writer.go", "Writer", "calcFieldsIndex", "ojCalcFieldsIndex"},
		{"sen", "writer.go", "Writer", "calcFieldsIndex", "senCalcFieldsIndex"},
		{"alt", "sinfo.go", "sinfo", "getFields", "altGetFields"},
	} {
		fset := token.NewFileSet()
		f, err := parser.ParseFile(fset, filepath.Join(repo, w.pkg, w.file), nil, 0)
		if err != nil {
			return nil, fmt.Errorf("reflect extractor: %v", err)
		}
		fd := rflFuncDecl(f, w.recv, w.fn)
		if fd == nil {
			return nil, fmt.Errorf("reflect extractor: %s/%s: func %s not found", w.pkg, w.file, w.fn)
		}
		ws, err := rflWiring(fset, fd, w.pkg+"."+w.fn)
		if err != nil {
			return nil, err
		}
		fmt.Fprintf(&b, "/-- %s/%s %s: option -> mask, in source order -/\ndef %s : List String := %s\n\n", w.pkg, w.file, w.fn, w.name, rflLeanList(ws))
	}
	for _, w := range []struct{ pkg, name string }{{"oj", "ojBuildFieldsNested"}, {"sen", "senBuildFieldsNested"}, {"alt", "altBuildFieldsNested"}} {
		fset := token.NewFileSet()
		f, err := parser.ParseFile(fset, filepath.Join(repo, w.pkg, "sinfo.go"), nil, 0)
		if err != nil {
			return nil, fmt.Errorf("reflect extractor: %v", err)
		}
		fd := rflFuncDecl(f, "", "buildFields")
		if fd == nil {
			return nil, fmt.Errorf("reflect extractor: %s/sinfo.go: func buildFields not found", w.pkg)
		}
		ops, err := rflNestedOps(fset, fd, w.pkg+".buildFields")
		if err != nil {
			return nil, err
		}
		fmt.Fprintf(&b, "/-- %s/sinfo.go buildFields: the flag each builder receives for maskNested -/\ndef %s : List String := %s\n\n", w.pkg, w.name, rflLeanList(ops))
	}
	// function tables
	for _, w := range []struct{ pkg, suffix, name string }{{"oj", "AppendFuncs", "ojAppendTables"}, {"sen", "AppendFuncs", "senAppendTables"}, {"alt", "ValFuncs", "altValTables"}} {
		tabs, err := rflTables(repo, w.pkg, w.suffix)
		if err != nil {
			return nil, err
		}
		var keys []string
		for k := range tabs {
			keys = append(keys, k)
		}
		sort.Strings(keys)
		fmt.Fprintf(&b, "/-- the 8-entry function tables of %s: (table, entries in index order) -/\ndef %s : List (String × List String) := [\n", w.pkg, w.name)
		for i, k := range keys {
			sep := ","
			if i == len(keys)-1 {
				sep = ""
			}
			fmt.Fprintf(&b, "  (%q, %s)%s\n", k, rflLeanList(tabs[k]), sep)
		}
		b.WriteString("]\n\n")
	}
	b.WriteString("end OjgVerif.Gen.Reflect\n")
	ch, err := writeIfChanged(filepath.Join(out, "Reflect.lean"), b.String())
	if err != nil {
		return nil, err
	}
	if ch {
		return []string{"Reflect"}, nil
	}
	return nil, nil
}
