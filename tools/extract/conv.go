// conv: extra extraction for the conversion family (C18).
//
// Writes lean/OjgVerif/Gen/Conv.lean with the facts of the Go source the heap model of
// alt.Generify / alt.GenAlter reads instead of hard-wiring them:
//
//   - altDefaultOmitNil / altDefaultOmitEmpty: the value of alt.DefaultOptions.OmitNil/.OmitEmpty
//     after package initialisation: the field in the `DefaultOptions = Options{…}` literal of
//     options.go (absent = false), copied by `DefaultOptions = ojg.DefaultOptions` in alt/alt.go and
//     overwritten by `DefaultOptions.<Field> = true|false` statements of alt's init();
//
//   - for Generify and GenAlter (alt/generifier.go), for the `[]any` and the `map[string]any` clause
//     of the type switch: whether the recursive call hands its options on (`F(m, opt)`) or not
//     (`F(m)`: the callee then uses alt.DefaultOptions);
//
//   - whether the type switch of Generify / GenAlter has a `json.Number` clause `n = gen.Big(tv)`.
//
//   - ojWriterViaSimplify / senWriterViaSimplify: the type switch of oj.Writer.appendJSON /
//     sen.Writer.appendSEN names no type of package gen before its `case alt.Simplifier:` clause and
//     that clause is `wr.appendJSON(td.Simplify(), depth)` (resp. appendSEN): a generic node is written
//     by writing its Simplify() result.
//
//   - containerArms: for every conversion function and each of its two container arms (the `[]any` /
//     `map[string]any` clause of the type switch of Generify, GenAlter, decompose, alter; the bodies of
//     the methods Simplify, Alter, Dup of gen.Array and gen.Object) two syntactic facts: does the arm
//     BUILD a container (a call of `make` or a composite literal of a slice/map type), and does it
//     WRITE INTO ITS ARGUMENT (a cast through unsafe.Pointer, or an assignment `v[i] = …` whose base
//     is the switch variable / the receiver). Props/C18.lean proves that this classification equals
//     the model's `Kind.inPlace` table.
//
//   - elemStores: for the member loop of Simplify and Dup of gen.Array / gen.Object, every store of a
//     member into the container being built, as (guard, kind): kind nil / rec (`m.<Method>()`) /
//     shared (the member itself) / other; guard "" (only the `m == nil` test), the clause of a type
//     switch on the member, or another condition. Props/C18.lean (copy_elements_match_source) proves
//     that every loop stores, for every member kind alike, nil or the recursive call — the model's
//     copy discipline (a fresh cell for every container).
//
//   - omitTable: every clause of the type switch of alt.condMapSet and of the switch in the map
//     clause of alt.alter as (member type, condition under which the member is left out), and the
//     conditional store of the map clauses of Generify / GenAlter. Props/C18Omit.lean
//     (omit_tables_match_source) proves that they equal the rows of the model's condOmit / omits.
//
// These facts are regression tripwires over the lines the model (and the two C18 fixes) depend on,
// not a translation of the functions: the tie of the model as a whole is the correspondence run.
//
// Fails loudly on a source shape it cannot read.
package main

import (
	"fmt"
	"go/ast"
	"go/parser"
	"go/token"
	"path/filepath"
	"strings"
)

func init() { registerExtra(extractConv) }

func convBoolIdent(x ast.Expr) (bool, error) {
	id, ok := x.(*ast.Ident)
	if !ok || (id.Name != "true" && id.Name != "false") {
		return false, fmt.Errorf("not a true/false literal")
	}
	return id.Name == "true", nil
}

// convRootDefault reads field from the DefaultOptions literal of options.go.
func convRootDefault(fset *token.FileSet, f *ast.File, field string) (bool, error) {
	for _, d := range f.Decls {
		gd, ok := d.(*ast.GenDecl)
		if !ok || gd.Tok != token.VAR {
			continue
		}
		for _, s := range gd.Specs {
			vs := s.(*ast.ValueSpec)
			for i, n := range vs.Names {
				if n.Name != "DefaultOptions" || i >= len(vs.Values) {
					continue
				}
				cl, ok := vs.Values[i].(*ast.CompositeLit)
				if !ok {
					return false, fmt.Errorf("options.go: DefaultOptions is not a composite literal")
				}
				val := false
				for _, e := range cl.Elts {
					kv, ok := e.(*ast.KeyValueExpr)
					if !ok {
						return false, fmt.Errorf("options.go: DefaultOptions literal has a positional element")
					}
					if id, ok := kv.Key.(*ast.Ident); ok && id.Name == field {
						b, err := convBoolIdent(kv.Value)
						if err != nil {
							return false, fmt.Errorf("options.go: DefaultOptions.%s: %v", field, err)
						}
						val = b
					}
				}
				return val, nil
			}
		}
	}
	return false, fmt.Errorf("options.go: var DefaultOptions not found")
}

// convAltInit applies the `DefaultOptions.<field> = b` statements of alt's init().
func convAltInit(f *ast.File, field string, val bool) (bool, error) {
	copied := false
	for _, d := range f.Decls {
		switch td := d.(type) {
		case *ast.GenDecl:
			if td.Tok != token.VAR {
				continue
			}
			for _, s := range td.Specs {
				vs := s.(*ast.ValueSpec)
				for i, n := range vs.Names {
					if n.Name == "DefaultOptions" && i < len(vs.Values) {
						se, ok := vs.Values[i].(*ast.SelectorExpr)
						if !ok || se.Sel.Name != "DefaultOptions" {
							return false, fmt.Errorf("alt/alt.go: DefaultOptions is not initialised from ojg.DefaultOptions")
						}
						copied = true
					}
				}
			}
		case *ast.FuncDecl:
			if td.Name.Name != "init" || td.Recv != nil || td.Body == nil {
				continue
			}
			var err error
			ast.Inspect(td.Body, func(n ast.Node) bool {
				as, ok := n.(*ast.AssignStmt)
				if !ok || len(as.Lhs) != 1 || len(as.Rhs) != 1 {
					return true
				}
				se, ok := as.Lhs[0].(*ast.SelectorExpr)
				if !ok || se.Sel.Name != field {
					return true
				}
				if id, ok := se.X.(*ast.Ident); !ok || id.Name != "DefaultOptions" {
					return true
				}
				b, e := convBoolIdent(as.Rhs[0])
				if e != nil {
					err = fmt.Errorf("alt/alt.go init: DefaultOptions.%s: %v", field, e)
					return false
				}
				val = b
				return true
			})
			if err != nil {
				return false, err
			}
		}
	}
	if !copied {
		return false, fmt.Errorf("alt/alt.go: var DefaultOptions not found")
	}
	return val, nil
}

func convTypeText(x ast.Expr) string {
	switch t := x.(type) {
	case *ast.Ident:
		return t.Name
	case *ast.SelectorExpr:
		return convTypeText(t.X) + "." + t.Sel.Name
	case *ast.ArrayType:
		if t.Len == nil {
			return "[]" + convTypeText(t.Elt)
		}
	case *ast.MapType:
		return "map[" + convTypeText(t.Key) + "]" + convTypeText(t.Value)
	case *ast.InterfaceType:
		if t.Methods == nil || len(t.Methods.List) == 0 {
			return "any"
		}
	}
	return "?"
}

type convSwitchFacts struct {
	arrPasses, mapPasses, bigCase bool
}

// convSwitch reads the type switch of function name in alt/generifier.go.
func convSwitch(f *ast.File, name string) (convSwitchFacts, error) {
	var res convSwitchFacts
	var fd *ast.FuncDecl
	for _, d := range f.Decls {
		if x, ok := d.(*ast.FuncDecl); ok && x.Recv == nil && x.Name.Name == name {
			fd = x
		}
	}
	if fd == nil || fd.Body == nil {
		return res, fmt.Errorf("alt/generifier.go: func %s not found", name)
	}
	var ts *ast.TypeSwitchStmt
	ast.Inspect(fd.Body, func(n ast.Node) bool {
		if x, ok := n.(*ast.TypeSwitchStmt); ok && ts == nil {
			ts = x
			return false
		}
		return true
	})
	if ts == nil {
		return res, fmt.Errorf("alt/generifier.go: %s has no type switch", name)
	}
	// the recursive call of the clause: F(m) or F(m, opt)
	passes := func(cc *ast.CaseClause, what string) (bool, error) {
		var calls []*ast.CallExpr
		for _, st := range cc.Body {
			ast.Inspect(st, func(n ast.Node) bool {
				if c, ok := n.(*ast.CallExpr); ok {
					if id, ok := c.Fun.(*ast.Ident); ok && (id.Name == "Generify" || id.Name == "GenAlter") {
						calls = append(calls, c)
					}
				}
				return true
			})
		}
		if len(calls) != 1 {
			return false, fmt.Errorf("alt/generifier.go: %s, %s clause: %d recursive calls, want 1", name, what, len(calls))
		}
		c := calls[0]
		if id := c.Fun.(*ast.Ident); id.Name != name {
			return false, fmt.Errorf("alt/generifier.go: %s, %s clause: recursion goes to %s", name, what, id.Name)
		}
		switch len(c.Args) {
		case 1:
			return false, nil
		case 2:
			if id, ok := c.Args[1].(*ast.Ident); ok && id.Name == "opt" {
				return true, nil
			}
		}
		return false, fmt.Errorf("alt/generifier.go: %s, %s clause: unexpected arguments of the recursive call", name, what)
	}
	seenArr, seenMap := false, false
	for _, st := range ts.Body.List {
		cc := st.(*ast.CaseClause)
		for _, tx := range cc.List {
			switch convTypeText(tx) {
			case "[]any":
				b, err := passes(cc, "[]any")
				if err != nil {
					return res, err
				}
				res.arrPasses, seenArr = b, true
			case "map[string]any":
				b, err := passes(cc, "map[string]any")
				if err != nil {
					return res, err
				}
				res.mapPasses, seenMap = b, true
			case "json.Number":
				ok := false
				if len(cc.List) == 1 && len(cc.Body) == 1 {
					if as, k := cc.Body[0].(*ast.AssignStmt); k && len(as.Lhs) == 1 && len(as.Rhs) == 1 {
						if l, k := as.Lhs[0].(*ast.Ident); k && l.Name == "n" {
							if c, k := as.Rhs[0].(*ast.CallExpr); k && convTypeText(c.Fun) == "gen.Big" && len(c.Args) == 1 {
								if a, k := c.Args[0].(*ast.Ident); k && a.Name == "tv" {
									ok = true
								}
							}
						}
					}
				}
				if !ok {
					return res, fmt.Errorf("alt/generifier.go: %s: json.Number clause is not `n = gen.Big(tv)`", name)
				}
				res.bigCase = true
			}
		}
	}
	if !seenArr || !seenMap {
		return res, fmt.Errorf("alt/generifier.go: %s: []any or map[string]any clause not found", name)
	}
	return res, nil
}

// convWriterViaSimplify reads the type switch of method fn in file f.
func convWriterViaSimplify(f *ast.File, rel, fn string) (bool, error) {
	var fd *ast.FuncDecl
	for _, d := range f.Decls {
		if x, ok := d.(*ast.FuncDecl); ok && x.Recv != nil && x.Name.Name == fn {
			fd = x
		}
	}
	if fd == nil || fd.Body == nil {
		return false, fmt.Errorf("%s: method %s not found", rel, fn)
	}
	var ts *ast.TypeSwitchStmt
	ast.Inspect(fd.Body, func(n ast.Node) bool {
		if x, ok := n.(*ast.TypeSwitchStmt); ok && ts == nil {
			ts = x
			return false
		}
		return true
	})
	if ts == nil {
		return false, fmt.Errorf("%s: %s has no type switch", rel, fn)
	}
	for _, st := range ts.Body.List {
		cc := st.(*ast.CaseClause)
		for _, tx := range cc.List {
			name := convTypeText(tx)
			if strings.HasPrefix(name, "gen.") {
				return false, nil // a generic type has its own clause before the Simplifier clause
			}
			if name != "alt.Simplifier" {
				continue
			}
			if len(cc.List) != 1 || len(cc.Body) != 1 {
				return false, nil
			}
			es, ok := cc.Body[0].(*ast.ExprStmt)
			if !ok {
				return false, nil
			}
			call, ok := es.X.(*ast.CallExpr)
			if !ok || convTypeText(call.Fun) != "wr."+fn || len(call.Args) != 2 {
				return false, nil
			}
			inner, ok := call.Args[0].(*ast.CallExpr)
			if !ok || convTypeText(inner.Fun) != "td.Simplify" || len(inner.Args) != 0 {
				return false, nil
			}
			return true, nil
		}
	}
	return false, nil
}

// convArmFacts classifies a list of statements: builds = a `make` call or a slice/map composite
// literal occurs; writes = an unsafe.Pointer cast occurs or an element of `base` is assigned.
func convArmFacts(stmts []ast.Stmt, base string) (builds, writes bool) {
	for _, st := range stmts {
		ast.Inspect(st, func(n ast.Node) bool {
			switch x := n.(type) {
			case *ast.CallExpr:
				if id, ok := x.Fun.(*ast.Ident); ok && id.Name == "make" {
					builds = true
				}
			case *ast.CompositeLit:
				switch convTypeText(x.Type) {
				case "gen.Object", "Object", "gen.Array", "Array", "map[string]any", "[]any":
					builds = true
				}
			case *ast.SelectorExpr:
				if convTypeText(x) == "unsafe.Pointer" {
					writes = true
				}
			case *ast.AssignStmt:
				for _, l := range x.Lhs {
					if ix, ok := l.(*ast.IndexExpr); ok {
						if id, ok := ix.X.(*ast.Ident); ok && id.Name == base {
							writes = true
						}
					}
				}
			}
			return true
		})
	}
	return
}

type convArm struct {
	fn, arm        string
	builds, writes bool
}

// convSwitchArms reads the `[]any` and `map[string]any` clauses of the type switch of function fn.
func convSwitchArms(f *ast.File, rel, fn string) ([]convArm, error) {
	var fd *ast.FuncDecl
	for _, d := range f.Decls {
		if x, ok := d.(*ast.FuncDecl); ok && x.Recv == nil && x.Name.Name == fn {
			fd = x
		}
	}
	if fd == nil || fd.Body == nil {
		return nil, fmt.Errorf("%s: func %s not found", rel, fn)
	}
	var ts *ast.TypeSwitchStmt
	ast.Inspect(fd.Body, func(n ast.Node) bool {
		if x, ok := n.(*ast.TypeSwitchStmt); ok && ts == nil {
			ts = x
			return false
		}
		return true
	})
	if ts == nil {
		return nil, fmt.Errorf("%s: %s has no type switch", rel, fn)
	}
	as, ok := ts.Assign.(*ast.AssignStmt)
	if !ok || len(as.Lhs) != 1 {
		return nil, fmt.Errorf("%s: %s: the type switch binds no variable", rel, fn)
	}
	base := as.Lhs[0].(*ast.Ident).Name
	var out []convArm
	for _, want := range []string{"[]any", "map[string]any"} {
		found := false
		for _, st := range ts.Body.List {
			cc := st.(*ast.CaseClause)
			for _, tx := range cc.List {
				if convTypeText(tx) == want {
					if len(cc.List) != 1 {
						return nil, fmt.Errorf("%s: %s: the %s clause lists other types too", rel, fn, want)
					}
					b, w := convArmFacts(cc.Body, base)
					out = append(out, convArm{fn, want, b, w})
					found = true
				}
			}
		}
		if !found {
			return nil, fmt.Errorf("%s: %s: no %s clause", rel, fn, want)
		}
	}
	return out, nil
}

// convMethodArm reads the body of method `(n recv) name()`.
func convMethodArm(f *ast.File, rel, recv, name string) (convArm, error) {
	for _, d := range f.Decls {
		x, ok := d.(*ast.FuncDecl)
		if !ok || x.Recv == nil || x.Name.Name != name || x.Body == nil || len(x.Recv.List) != 1 {
			continue
		}
		if convTypeText(x.Recv.List[0].Type) != recv || len(x.Recv.List[0].Names) != 1 {
			continue
		}
		b, w := convArmFacts(x.Body.List, x.Recv.List[0].Names[0].Name)
		return convArm{recv + "." + name, recv, b, w}, nil
	}
	return convArm{}, fmt.Errorf("%s: method %s.%s not found", rel, recv, name)
}

// convElemStore is one store of a member into the container that a copying method of gen.Array /
// gen.Object builds (see elemStores in the generated file).
type convElemStore struct{ fn, guard, kind string }

// convElemStores reads the `for _, m := range <receiver>` loop of method `(n recv) name()` and
// classifies every store into a container other than the receiver (`a[i] = X`, `o[k] = X`,
// `a = append(a, X)`): kind "nil" (nil literal, or the member itself under `m == nil`), "rec"
// (`m.name()`, dynamic dispatch on the member or on a type-switch binding of it), "shared" (the member
// itself, unconverted), "other"; guard "" (unconditional apart from the `m == nil` test), the
// `|`-joined types or "default" of the enclosing clause of a type switch on the member, or "cond".
func convElemStores(f *ast.File, rel, recv, name string) ([]convElemStore, error) {
	fn := recv + "." + name
	for _, d := range f.Decls {
		x, ok := d.(*ast.FuncDecl)
		if !ok || x.Recv == nil || x.Name.Name != name || x.Body == nil || len(x.Recv.List) != 1 {
			continue
		}
		if convTypeText(x.Recv.List[0].Type) != recv || len(x.Recv.List[0].Names) != 1 {
			continue
		}
		base := x.Recv.List[0].Names[0].Name
		var loop *ast.RangeStmt
		ast.Inspect(x.Body, func(n ast.Node) bool {
			if r, ok := n.(*ast.RangeStmt); ok && loop == nil {
				if id, ok := r.X.(*ast.Ident); ok && id.Name == base {
					loop = r
					return false
				}
			}
			return true
		})
		if loop == nil {
			return nil, fmt.Errorf("%s: %s has no range loop over its receiver", rel, fn)
		}
		mv, ok := loop.Value.(*ast.Ident)
		if !ok {
			return nil, fmt.Errorf("%s: %s: the range loop binds no member variable", rel, fn)
		}
		alias := map[string]bool{mv.Name: true}
		var out []convElemStore
		isMember := func(e ast.Expr) bool {
			id, ok := e.(*ast.Ident)
			return ok && alias[id.Name]
		}
		classify := func(e ast.Expr, nilCtx bool) string {
			if id, ok := e.(*ast.Ident); ok && id.Name == "nil" {
				return "nil"
			}
			if isMember(e) {
				if nilCtx {
					return "nil"
				}
				return "shared"
			}
			if c, ok := e.(*ast.CallExpr); ok && len(c.Args) == 0 {
				if sel, ok := c.Fun.(*ast.SelectorExpr); ok && sel.Sel.Name == name && isMember(sel.X) {
					return "rec"
				}
			}
			return "other"
		}
		var walk func(stmts []ast.Stmt, guard string, nilCtx bool)
		walk = func(stmts []ast.Stmt, guard string, nilCtx bool) {
			for _, st := range stmts {
				switch s := st.(type) {
				case *ast.BlockStmt:
					walk(s.List, guard, nilCtx)
				case *ast.IfStmt:
					thenNil, elseNil, g := nilCtx, nilCtx, guard
					if be, ok := s.Cond.(*ast.BinaryExpr); ok && s.Init == nil && isMember(be.X) && convTypeText(be.Y) == "nil" && be.Op == token.EQL {
						thenNil, elseNil = true, false
					} else if ok && s.Init == nil && isMember(be.X) && convTypeText(be.Y) == "nil" && be.Op == token.NEQ {
						thenNil, elseNil = false, true
					} else {
						g = "cond"
					}
					walk(s.Body.List, g, thenNil)
					if s.Else != nil {
						walk([]ast.Stmt{s.Else}, g, elseNil)
					}
				case *ast.TypeSwitchStmt:
					var subject ast.Expr
					switch a := s.Assign.(type) {
					case *ast.AssignStmt:
						if len(a.Lhs) == 1 && len(a.Rhs) == 1 {
							if ta, ok := a.Rhs[0].(*ast.TypeAssertExpr); ok {
								subject = ta.X
								if isMember(subject) {
									alias[a.Lhs[0].(*ast.Ident).Name] = true
								}
							}
						}
					case *ast.ExprStmt:
						if ta, ok := a.X.(*ast.TypeAssertExpr); ok {
							subject = ta.X
						}
					}
					for _, c := range s.Body.List {
						cc := c.(*ast.CaseClause)
						g := "cond"
						if subject != nil && isMember(subject) {
							g = "default"
							if cc.List != nil {
								var ts []string
								for _, tx := range cc.List {
									ts = append(ts, convTypeText(tx))
								}
								g = strings.Join(ts, "|")
							}
						}
						walk(cc.Body, g, false)
					}
				case *ast.AssignStmt:
					for i, l := range s.Lhs {
						if i >= len(s.Rhs) {
							break
						}
						if ix, ok := l.(*ast.IndexExpr); ok {
							if id, ok := ix.X.(*ast.Ident); ok && id.Name != base {
								out = append(out, convElemStore{fn, guard, classify(s.Rhs[i], nilCtx)})
							}
							continue
						}
						if c, ok := s.Rhs[i].(*ast.CallExpr); ok {
							if id, ok := c.Fun.(*ast.Ident); ok && id.Name == "append" && len(c.Args) >= 2 {
								for _, a := range c.Args[1:] {
									out = append(out, convElemStore{fn, guard, classify(a, nilCtx)})
								}
							}
						}
					}
				default:
					found := false
					ast.Inspect(st, func(n ast.Node) bool {
						if _, ok := n.(*ast.AssignStmt); ok {
							found = true
						}
						return true
					})
					if found {
						out = append(out, convElemStore{fn, "cond", "other"})
					}
				}
			}
		}
		walk(loop.Body.List, "", false)
		return out, nil
	}
	return nil, fmt.Errorf("%s: method %s not found", rel, fn)
}

// convCondText renders a condition with the identifier `bind` written as x.
func convCondText(e ast.Expr, bind string) string {
	switch x := e.(type) {
	case *ast.Ident:
		if x.Name == bind {
			return "x"
		}
		return x.Name
	case *ast.BasicLit:
		return x.Value
	case *ast.ParenExpr:
		return "(" + convCondText(x.X, bind) + ")"
	case *ast.SelectorExpr:
		return convCondText(x.X, bind) + "." + x.Sel.Name
	case *ast.UnaryExpr:
		return x.Op.String() + convCondText(x.X, bind)
	case *ast.BinaryExpr:
		return convCondText(x.X, bind) + " " + x.Op.String() + " " + convCondText(x.Y, bind)
	case *ast.CallExpr:
		var as []string
		for _, a := range x.Args {
			as = append(as, convCondText(a, bind))
		}
		return convCondText(x.Fun, bind) + "(" + strings.Join(as, ", ") + ")"
	}
	return "?"
}

type convOmitRow struct{ fn, typ, cond string }

// convOmitSwitch reads a type switch `switch x := value.(type)` whose clauses are each one
// `if <cond> { [delete(...);] return|continue }`: (types of the clause, condition under which the
// member is left out).
func convOmitSwitch(fn string, ts *ast.TypeSwitchStmt) ([]convOmitRow, error) {
	bind := ""
	if as, ok := ts.Assign.(*ast.AssignStmt); ok && len(as.Lhs) == 1 {
		bind = as.Lhs[0].(*ast.Ident).Name
	}
	var out []convOmitRow
	for _, st := range ts.Body.List {
		cc := st.(*ast.CaseClause)
		var tys []string
		for _, tx := range cc.List {
			tys = append(tys, convTypeText(tx))
		}
		typ := strings.Join(tys, "|")
		if cc.List == nil {
			typ = "default"
		}
		if len(cc.Body) != 1 {
			return nil, fmt.Errorf("alt/decompose.go: %s: clause %s is not a single if statement", fn, typ)
		}
		is, ok := cc.Body[0].(*ast.IfStmt)
		if !ok || is.Init != nil || is.Else != nil || len(is.Body.List) == 0 {
			return nil, fmt.Errorf("alt/decompose.go: %s: clause %s is not a single if statement", fn, typ)
		}
		switch last := is.Body.List[len(is.Body.List)-1].(type) {
		case *ast.ReturnStmt:
		case *ast.BranchStmt:
			if last.Tok != token.CONTINUE {
				return nil, fmt.Errorf("alt/decompose.go: %s: clause %s does not skip the store", fn, typ)
			}
		default:
			return nil, fmt.Errorf("alt/decompose.go: %s: clause %s does not skip the store", fn, typ)
		}
		out = append(out, convOmitRow{fn, typ, convCondText(is.Cond, bind)})
	}
	return out, nil
}

// convOmitTables: the switch of condMapSet, the identical switch in the map clause of alter, and the
// keep conditions of the map clauses of Generify / GenAlter (`if <cond> { o[k] = g }`).
func convOmitTables(decF, genF *ast.File) ([]convOmitRow, error) {
	var out []convOmitRow
	find := func(f *ast.File, name string) *ast.FuncDecl {
		for _, d := range f.Decls {
			if x, ok := d.(*ast.FuncDecl); ok && x.Recv == nil && x.Name.Name == name && x.Body != nil {
				return x
			}
		}
		return nil
	}
	firstSwitch := func(n ast.Node) *ast.TypeSwitchStmt {
		var ts *ast.TypeSwitchStmt
		ast.Inspect(n, func(n ast.Node) bool {
			if x, ok := n.(*ast.TypeSwitchStmt); ok && ts == nil {
				ts = x
				return false
			}
			return ts == nil
		})
		return ts
	}
	mapClause := func(fd *ast.FuncDecl) *ast.CaseClause {
		ts := firstSwitch(fd.Body)
		if ts == nil {
			return nil
		}
		for _, st := range ts.Body.List {
			cc := st.(*ast.CaseClause)
			if len(cc.List) == 1 && convTypeText(cc.List[0]) == "map[string]any" {
				return cc
			}
		}
		return nil
	}
	cms := find(decF, "condMapSet")
	if cms == nil || firstSwitch(cms.Body) == nil {
		return nil, fmt.Errorf("alt/decompose.go: condMapSet with a type switch not found")
	}
	rows, err := convOmitSwitch("condMapSet", firstSwitch(cms.Body))
	if err != nil {
		return nil, err
	}
	out = append(out, rows...)
	al := find(decF, "alter")
	if al == nil || mapClause(al) == nil {
		return nil, fmt.Errorf("alt/decompose.go: alter with a map[string]any clause not found")
	}
	var inner *ast.TypeSwitchStmt
	for _, st := range mapClause(al).Body {
		if ts := firstSwitch(st); ts != nil {
			inner = ts
			break
		}
	}
	if inner == nil {
		return nil, fmt.Errorf("alt/decompose.go: alter: no type switch on the converted member")
	}
	if rows, err = convOmitSwitch("alter", inner); err != nil {
		return nil, err
	}
	out = append(out, rows...)
	for _, fn := range []string{"Generify", "GenAlter"} {
		fd := find(genF, fn)
		if fd == nil || mapClause(fd) == nil {
			return nil, fmt.Errorf("alt/generifier.go: %s with a map[string]any clause not found", fn)
		}
		n := 0
		for _, st := range mapClause(fd).Body {
			ast.Inspect(st, func(nd ast.Node) bool {
				is, ok := nd.(*ast.IfStmt)
				if !ok || len(is.Body.List) != 1 {
					return true
				}
				as, ok := is.Body.List[0].(*ast.AssignStmt)
				if !ok || len(as.Lhs) != 1 || len(as.Rhs) != 1 {
					return true
				}
				if _, ok := as.Lhs[0].(*ast.IndexExpr); !ok {
					return true
				}
				g, ok := as.Rhs[0].(*ast.Ident)
				if !ok {
					return true
				}
				out = append(out, convOmitRow{fn, "keep", convCondText(is.Cond, g.Name)})
				n++
				return true
			})
		}
		if n != 1 {
			return nil, fmt.Errorf("alt/generifier.go: %s: expected one conditional store `if c { o[k] = g }` in the map clause, found %d", fn, n)
		}
	}
	return out, nil
}

func extractConv(repo, out string) ([]string, error) {
	fset := token.NewFileSet()
	parse := func(rel string) (*ast.File, error) {
		return parser.ParseFile(fset, filepath.Join(repo, rel), nil, 0)
	}
	rootF, err := parse("options.go")
	if err != nil {
		return nil, err
	}
	altF, err := parse("alt/alt.go")
	if err != nil {
		return nil, err
	}
	genF, err := parse("alt/generifier.go")
	if err != nil {
		return nil, err
	}
	var b strings.Builder
	b.WriteString("/- GENERATED by /verif/tools/extract (conv.go) from options.go, alt/alt.go, alt/generifier.go — do not edit; rewritten on every run. -/\n")
	b.WriteString("namespace OjgVerif.Gen.Conv\n\n")
	for _, field := range []string{"OmitNil", "OmitEmpty"} {
		v, err := convRootDefault(fset, rootF, field)
		if err != nil {
			return nil, err
		}
		if v, err = convAltInit(altF, field, v); err != nil {
			return nil, err
		}
		fmt.Fprintf(&b, "/-- alt.DefaultOptions.%s after package initialisation -/\ndef altDefault%s : Bool := %v\n\n", field, field, v)
	}
	for _, fn := range []string{"Generify", "GenAlter"} {
		sf, err := convSwitch(genF, fn)
		if err != nil {
			return nil, err
		}
		lower := strings.ToLower(fn[:1]) + fn[1:]
		fmt.Fprintf(&b, "/-- alt.%s, `[]any` clause: the recursive call passes `opt` on -/\ndef %sArrPassesOpt : Bool := %v\n\n", fn, lower, sf.arrPasses)
		fmt.Fprintf(&b, "/-- alt.%s, `map[string]any` clause: the recursive call passes `opt` on -/\ndef %sMapPassesOpt : Bool := %v\n\n", fn, lower, sf.mapPasses)
		fmt.Fprintf(&b, "/-- alt.%s has a `case json.Number: n = gen.Big(tv)` clause -/\ndef %sBigCase : Bool := %v\n\n", fn, lower, sf.bigCase)
	}
	for _, w := range []struct{ rel, fn, name string }{
		{"oj/writer.go", "appendJSON", "ojWriterViaSimplify"},
		{"sen/writer.go", "appendSEN", "senWriterViaSimplify"},
	} {
		wf, err := parse(w.rel)
		if err != nil {
			return nil, err
		}
		v, err := convWriterViaSimplify(wf, w.rel, w.fn)
		if err != nil {
			return nil, err
		}
		fmt.Fprintf(&b, "/-- %s, %s: a generic node is written as its Simplify() result -/\ndef %s : Bool := %v\n\n", w.rel, w.fn, w.name, v)
	}
	var arms []convArm
	decF, err := parse("alt/decompose.go")
	if err != nil {
		return nil, err
	}
	for _, x := range []struct {
		f   *ast.File
		rel string
		fn  string
	}{{genF, "alt/generifier.go", "Generify"}, {genF, "alt/generifier.go", "GenAlter"},
		{decF, "alt/decompose.go", "decompose"}, {decF, "alt/decompose.go", "alter"}} {
		as, err := convSwitchArms(x.f, x.rel, x.fn)
		if err != nil {
			return nil, err
		}
		arms = append(arms, as...)
	}
	for _, x := range []struct{ rel, recv string }{{"gen/array.go", "Array"}, {"gen/object.go", "Object"}} {
		mf, err := parse(x.rel)
		if err != nil {
			return nil, err
		}
		for _, m := range []string{"Simplify", "Alter", "Dup"} {
			a, err := convMethodArm(mf, x.rel, x.recv, m)
			if err != nil {
				return nil, err
			}
			arms = append(arms, a)
		}
	}
	b.WriteString("/-- (function, container arm, builds a container: `make` / composite literal, writes into its\nargument: unsafe.Pointer cast / `v[i] = …` on the switch variable or receiver) -/\n")
	b.WriteString("def containerArms : List (String × String × Bool × Bool) := [\n")
	for i, a := range arms {
		sep := ","
		if i == len(arms)-1 {
			sep = ""
		}
		fmt.Fprintf(&b, "  (%q, %q, %v, %v)%s\n", a.fn, a.arm, a.builds, a.writes, sep)
	}
	b.WriteString("]\n\n")
	var stores []convElemStore
	for _, x := range []struct{ rel, recv string }{{"gen/array.go", "Array"}, {"gen/object.go", "Object"}} {
		mf, err := parse(x.rel)
		if err != nil {
			return nil, err
		}
		for _, m := range []string{"Simplify", "Dup"} {
			ss, err := convElemStores(mf, x.rel, x.recv, m)
			if err != nil {
				return nil, err
			}
			stores = append(stores, ss...)
		}
	}
	b.WriteString("/-- (method, guard, kind) for every store of a member into the container that a copying method of\ngen.Array / gen.Object builds in its `for _, m := range n` loop. guard: \"\" = unconditional apart from the\n`m == nil` test, the types (or \"default\") of the enclosing clause of a type switch on the member, \"cond\" =\nunder some other condition. kind: \"nil\" = nil for a nil member, \"rec\" = `m.<Method>()` (dynamic dispatch on\nthe member), \"shared\" = the member itself, unconverted, \"other\". -/\n")
	b.WriteString("def elemStores : List (String × String × String) := [\n")
	for i, a := range stores {
		sep := ","
		if i == len(stores)-1 {
			sep = ""
		}
		fmt.Fprintf(&b, "  (%q, %q, %q)%s\n", a.fn, a.guard, a.kind, sep)
	}
	b.WriteString("]\n\n")
	orows, err := convOmitTables(decF, genF)
	if err != nil {
		return nil, err
	}
	b.WriteString("/-- (function, type of the converted member `x`, condition under which the member is LEFT OUT) for the\nswitch of alt.condMapSet and the switch in the map clause of alt.alter; for Generify / GenAlter\n(function, \"keep\", condition under which the converted member `x` is STORED). -/\n")
	b.WriteString("def omitTable : List (String × String × String) := [\n")
	for i, a := range orows {
		sep := ","
		if i == len(orows)-1 {
			sep = ""
		}
		fmt.Fprintf(&b, "  (%q, %q, %q)%s\n", a.fn, a.typ, a.cond, sep)
	}
	b.WriteString("]\n\n")
	b.WriteString("end OjgVerif.Gen.Conv\n")
	ch, err := writeIfChanged(filepath.Join(out, "Conv.lean"), b.String())
	if err != nil {
		return nil, err
	}
	if ch {
		return []string{"Conv"}, nil
	}
	return nil, nil
}
