// jptext: extra extraction for the JSONPath text family (C14).
//
// Reads jp/script.go and writes lean/OjgVerif/Gen/JpOps.lean:
//   - one `Op` record per package-level `x = &op{prec: …, code: …, name: …, cnt: …, getLeft: …}`
//   - `opMap`: the literal `opMap = map[string]*op{ a.name: a, … }` as (key bytes, Op) pairs
//   - `all`: every op in source order
//
// Fails loudly on anything it cannot read (a field that is not a literal, a map key that is not
// `<op>.name` or a string literal, an unknown field of the composite literal).
package main

import (
	"bytes"
	"fmt"
	"go/ast"
	"go/parser"
	"go/printer"
	"go/token"
	"os"
	"path/filepath"
	"strconv"
	"strings"
)

type jpOp struct {
	goName  string
	name    string
	code    int
	prec    int
	cnt     int
	getLeft bool
}

func init() {
	registerExtra(extractJpOps)
}

func litInt(x ast.Expr) (int, error) {
	bl, ok := x.(*ast.BasicLit)
	if !ok {
		return 0, fmt.Errorf("not a literal")
	}
	switch bl.Kind {
	case token.INT:
		n, err := strconv.ParseInt(bl.Value, 0, 64)
		return int(n), err
	case token.CHAR:
		s, err := strconv.Unquote(bl.Value)
		if err != nil {
			return 0, err
		}
		r := []rune(s)
		if len(r) != 1 || r[0] > 255 {
			return 0, fmt.Errorf("char literal %s is not one byte", bl.Value)
		}
		return int(r[0]), nil
	}
	return 0, fmt.Errorf("not an integer or char literal")
}

func leanBytes(s string) string {
	var b strings.Builder
	b.WriteByte('[')
	for i, c := range []byte(s) {
		if i > 0 {
			b.WriteByte(',')
		}
		fmt.Fprintf(&b, "%d", c)
	}
	b.WriteByte(']')
	return b.String()
}

func extractJpOps(repo, out string) ([]string, error) {
	path := filepath.Join(repo, "jp", "script.go")
	src, err := os.ReadFile(path)
	if err != nil {
		return nil, err
	}
	fset := token.NewFileSet()
	f, err := parser.ParseFile(fset, path, src, 0)
	if err != nil {
		return nil, err
	}
	var ops []jpOp
	byName := map[string]int{}
	type mapEnt struct{ key, op string }
	var opMap []mapEnt
	sawMap := false
	for _, d := range f.Decls {
		gd, ok := d.(*ast.GenDecl)
		if !ok || gd.Tok != token.VAR {
			continue
		}
		for _, sp := range gd.Specs {
			vs := sp.(*ast.ValueSpec)
			for i, id := range vs.Names {
				if i >= len(vs.Values) {
					continue
				}
				v := vs.Values[i]
				if ue, ok := v.(*ast.UnaryExpr); ok && ue.Op == token.AND {
					cl, ok := ue.X.(*ast.CompositeLit)
					if !ok {
						continue
					}
					if tid, ok := cl.Type.(*ast.Ident); !ok || tid.Name != "op" {
						continue
					}
					o := jpOp{goName: id.Name}
					seen := map[string]bool{}
					for _, el := range cl.Elts {
						kv, ok := el.(*ast.KeyValueExpr)
						if !ok {
							return nil, fmt.Errorf("jp/script.go: op %s: positional field", id.Name)
						}
						k := kv.Key.(*ast.Ident).Name
						seen[k] = true
						switch k {
						case "prec":
							if o.prec, err = litInt(kv.Value); err != nil {
								return nil, fmt.Errorf("jp/script.go: op %s.prec: %v", id.Name, err)
							}
						case "code":
							if o.code, err = litInt(kv.Value); err != nil {
								return nil, fmt.Errorf("jp/script.go: op %s.code: %v", id.Name, err)
							}
						case "cnt":
							if o.cnt, err = litInt(kv.Value); err != nil {
								return nil, fmt.Errorf("jp/script.go: op %s.cnt: %v", id.Name, err)
							}
						case "name":
							bl, ok := kv.Value.(*ast.BasicLit)
							if !ok || bl.Kind != token.STRING {
								return nil, fmt.Errorf("jp/script.go: op %s.name is not a string literal", id.Name)
							}
							if o.name, err = strconv.Unquote(bl.Value); err != nil {
								return nil, err
							}
						case "getLeft":
							bid, ok := kv.Value.(*ast.Ident)
							if !ok || (bid.Name != "true" && bid.Name != "false") {
								return nil, fmt.Errorf("jp/script.go: op %s.getLeft is not a bool literal", id.Name)
							}
							o.getLeft = bid.Name == "true"
						default:
							return nil, fmt.Errorf("jp/script.go: op %s: field %s is not understood", id.Name, k)
						}
					}
					for _, need := range []string{"prec", "code", "name", "cnt"} {
						if !seen[need] {
							return nil, fmt.Errorf("jp/script.go: op %s: field %s missing", id.Name, need)
						}
					}
					if o.prec < 0 || o.prec > 255 || o.code < 0 || o.code > 255 || o.cnt < 0 || o.cnt > 255 {
						return nil, fmt.Errorf("jp/script.go: op %s: field out of byte range", id.Name)
					}
					byName[o.goName] = len(ops)
					ops = append(ops, o)
				}
				if id.Name == "opMap" {
					cl, ok := v.(*ast.CompositeLit)
					if !ok {
						return nil, fmt.Errorf("jp/script.go: opMap is not a composite literal")
					}
					sawMap = true
					for _, el := range cl.Elts {
						kv, ok := el.(*ast.KeyValueExpr)
						if !ok {
							return nil, fmt.Errorf("jp/script.go: opMap element is not key: value")
						}
						vid, ok := kv.Value.(*ast.Ident)
						if !ok {
							return nil, fmt.Errorf("jp/script.go: opMap value is not an identifier")
						}
						switch k := kv.Key.(type) {
						case *ast.SelectorExpr:
							kid, ok := k.X.(*ast.Ident)
							if !ok || k.Sel.Name != "name" {
								return nil, fmt.Errorf("jp/script.go: opMap key is not <op>.name")
							}
							opMap = append(opMap, mapEnt{"@" + kid.Name, vid.Name})
						case *ast.BasicLit:
							s, err := strconv.Unquote(k.Value)
							if err != nil || k.Kind != token.STRING {
								return nil, fmt.Errorf("jp/script.go: opMap key %s is not a string", k.Value)
							}
							opMap = append(opMap, mapEnt{s, vid.Name})
						default:
							return nil, fmt.Errorf("jp/script.go: opMap key is not understood")
						}
					}
				}
			}
		}
	}
	if len(ops) == 0 || !sawMap {
		return nil, fmt.Errorf("jp/script.go: no op table or no opMap found")
	}
	var b strings.Builder
	b.WriteString("/- GENERATED by /verif/tools/extract (jptext.go) from jp/script.go — do not edit; rewritten on every run. -/\n")
	b.WriteString("namespace OjgVerif.Gen.JpOps\n\n")
	b.WriteString("/-- one `&op{…}` of jp/script.go -/\nstructure Op where\n  name : List UInt8\n  code : UInt8\n  prec : Nat\n  cnt : Nat\n  getLeft : Bool\nderiving DecidableEq, Repr, Inhabited\n\n")
	for _, o := range ops {
		fmt.Fprintf(&b, "/-- %s: name %q code %q -/\ndef %s : Op := { name := %s, code := %d, prec := %d, cnt := %d, getLeft := %v }\n\n",
			o.goName, o.name, string(rune(o.code)), "op_"+o.goName, leanBytes(o.name), o.code, o.prec, o.cnt, o.getLeft)
	}
	b.WriteString("/-- every op, in source order, with its Go variable name -/\ndef all : List (String × Op) := [")
	for i, o := range ops {
		if i > 0 {
			b.WriteString(", ")
		}
		fmt.Fprintf(&b, "(%q, %s)", o.goName, "op_"+o.goName)
	}
	b.WriteString("]\n\n")
	b.WriteString("/-- the `opMap` literal: key bytes and the op the key maps to -/\ndef opMap : List (List UInt8 × Op) := [")
	for i, e := range opMap {
		key := e.key
		if strings.HasPrefix(key, "@") {
			idx, ok := byName[key[1:]]
			if !ok {
				return nil, fmt.Errorf("jp/script.go: opMap key %s.name: unknown op", key[1:])
			}
			key = ops[idx].name
		}
		if _, ok := byName[e.op]; !ok {
			return nil, fmt.Errorf("jp/script.go: opMap value %s: unknown op", e.op)
		}
		if i > 0 {
			b.WriteString(",\n  ")
		}
		fmt.Fprintf(&b, "(%s, %s)", leanBytes(key), "op_"+e.op)
	}
	b.WriteString("]\n\nend OjgVerif.Gen.JpOps\n")
	ch, err := writeIfChanged(filepath.Join(out, "JpOps.lean"), b.String())
	if err != nil {
		return nil, err
	}
	if ch {
		return []string{"JpOps"}, nil
	}
	return nil, nil
}

// ---- facts about jp/parse.go for the sub-check C06jp ----------------------------------------------------------------
//
// Gen/JpFacts.lean: for each of the five places where the parser used to index or slice its buffer without
// looking at its length (fixed in a3a42a0), is the bounds check there? Read from the syntax tree, not from
// the text: the condition of an if statement (and what it guards), the argument of bytes.Index.

func init() {
	registerExtra(extractJpFacts)
}

func exprText(fset *token.FileSet, src []byte, n ast.Node) string {
	return strings.Join(strings.Fields(string(src[fset.Position(n.Pos()).Offset:fset.Position(n.End()).Offset])), " ")
}

func extractJpFacts(repo, out string) ([]string, error) {
	path := filepath.Join(repo, "jp", "parse.go")
	src, err := os.ReadFile(path)
	if err != nil {
		return nil, err
	}
	fset := token.NewFileSet()
	f, err := parser.ParseFile(fset, path, src, 0)
	if err != nil {
		return nil, err
	}
	funcs := map[string]*ast.FuncDecl{}
	for _, d := range f.Decls {
		if fd, ok := d.(*ast.FuncDecl); ok && fd.Recv != nil && fd.Body != nil {
			funcs[fd.Name.Name] = fd
		}
	}
	for _, need := range []string{"readStr", "readRegex", "readEscStr", "readOpArgs", "readProc"} {
		if funcs[need] == nil {
			return nil, fmt.Errorf("jp/parse.go: method %s not found", need)
		}
	}
	// an if statement with this condition whose body raises (p.raise(…)) or jumps to the failure label
	guarded := func(fd *ast.FuncDecl, cond string, prefix bool) bool {
		found := false
		ast.Inspect(fd.Body, func(n ast.Node) bool {
			is, ok := n.(*ast.IfStmt)
			if !ok {
				return true
			}
			c := exprText(fset, src, is.Cond)
			if c == cond || (prefix && strings.HasPrefix(c, cond)) {
				b := exprText(fset, src, is.Body)
				if strings.Contains(b, "p.raise(") || strings.Contains(b, "goto fail") {
					found = true
				}
			}
			return true
		})
		return found
	}
	// readEscStr: the check is the first statement of the `case '\\':` clause
	escGuard := false
	ast.Inspect(funcs["readEscStr"].Body, func(n ast.Node) bool {
		cc, ok := n.(*ast.CaseClause)
		if !ok || len(cc.List) != 1 || exprText(fset, src, cc.List[0]) != `'\\'` || len(cc.Body) == 0 {
			return true
		}
		if is, ok := cc.Body[0].(*ast.IfStmt); ok && exprText(fset, src, is.Cond) == "len(p.buf) <= p.pos" &&
			strings.Contains(exprText(fset, src, is.Body), "goto fail") {
			escGuard = true
		}
		return true
	})
	// readOpArgs: the first statement tests the length before it looks at the byte
	opGuard := false
	if b := funcs["readOpArgs"].Body.List; len(b) > 0 {
		if is, ok := b[0].(*ast.IfStmt); ok && strings.HasPrefix(exprText(fset, src, is.Cond), "len(p.buf) <= p.pos ||") &&
			strings.Contains(exprText(fset, src, is.Body), "p.raise(") {
			opGuard = true
		}
	}
	// readProc: bytes.Index searches from the current position on
	procFrom := false
	ast.Inspect(funcs["readProc"].Body, func(n ast.Node) bool {
		if ce, ok := n.(*ast.CallExpr); ok && exprText(fset, src, ce.Fun) == "bytes.Index" && len(ce.Args) == 2 {
			procFrom = exprText(fset, src, ce.Args[0]) == "p.buf[p.pos:]"
		}
		return true
	})
	var b strings.Builder
	b.WriteString("/- GENERATED by /verif/tools/extract (jptext.go) from jp/parse.go — do not edit; rewritten on every run. -/\n")
	b.WriteString("namespace OjgVerif.Gen.JpFacts\n\n")
	fmt.Fprintf(&b, "/-- readStr: `if p.pos == start { p.raise(…) }` before `p.buf[start : p.pos-1]` -/\ndef readStrGuard : Bool := %v\n\n", guarded(funcs["readStr"], "p.pos == start", false))
	fmt.Fprintf(&b, "/-- readRegex: `if p.pos == start { p.raise(…) }` before the source is sliced out -/\ndef readRegexGuard : Bool := %v\n\n", guarded(funcs["readRegex"], "p.pos == start", false))
	fmt.Fprintf(&b, "/-- readEscStr: `if len(p.buf) <= p.pos { goto fail }` first in `case '\\\\':` -/\ndef readEscStrGuard : Bool := %v\n\n", escGuard)
	fmt.Fprintf(&b, "/-- readOpArgs: `len(p.buf) <= p.pos ||` in front of `p.buf[p.pos] != '('` -/\ndef readOpArgsGuard : Bool := %v\n\n", opGuard)
	fmt.Fprintf(&b, "/-- readProc: `bytes.Index(p.buf[p.pos:], …)` -/\ndef readProcFromPos : Bool := %v\n\n", procFrom)
	b.WriteString("end OjgVerif.Gen.JpFacts\n")
	ch, err := writeIfChanged(filepath.Join(out, "JpFacts.lean"), b.String())
	if err != nil {
		return nil, err
	}
	if ch {
		return []string{"JpFacts"}, nil
	}
	return nil, nil
}

// ---- the parenthesisation and precedence RULES (C14) ------------------------------------------------------------------
//
// Gen/JpParens.lean: read from the syntax trees of jp/script.go and jp/equation.go, not from constants written here:
//   - Script.appendValue: the condition (and both arms) under which a *precBuf operand is parenthesised
//   - Script.appendOp: the first statement, the switch tag, every clause (labels, resolved op codes, statements), and
//     the condition under which the right operand of the infix default keeps its parentheses
//   - Script.Append / Script.String / Filter.String (jp/filter.go): the statements
//   - Equation.Append: the clause list that switches `parens` off, every clause of the main switch, the `parens`
//     argument of the left and right operand in the infix default; Equation.infix; Equation.String
//   - precedentCorrect: every if condition in source order, the precedence comparisons, the call-form clause, the rotation
//   - reduceGroups: every statement, the precedence comparison; MustParseEquation: the statements
//   - Expr.Append (jp/expr.go): the statements, the fragment loop (Bracket flag, second dot of a descent); the Append
//     methods of Descent, Bracket, Wildcard, Child
// Statement text is go/printer output (comments dropped), whitespace-normalised. Fails loudly when a function, a
// switch, a clause or an expected statement shape is not found.

func init() {
	registerExtra(extractJpParens)
}

func jpxText(fset *token.FileSet, n any) string {
	var buf bytes.Buffer
	if err := printer.Fprint(&buf, fset, n); err != nil {
		return "<unprintable: " + err.Error() + ">"
	}
	return strings.Join(strings.Fields(buf.String()), " ")
}

// jpxParams renders a parameter list as `a, b T, c U`.
func jpxParams(fset *token.FileSet, fl *ast.FieldList) string {
	if fl == nil {
		return ""
	}
	var parts []string
	for _, f := range fl.List {
		var names []string
		for _, n := range f.Names {
			names = append(names, n.Name)
		}
		parts = append(parts, strings.TrimSpace(strings.Join(names, ", ")+" "+jpxText(fset, f.Type)))
	}
	return strings.Join(parts, ", ")
}

func jpxStr(s string) string {
	var b strings.Builder
	b.WriteByte('"')
	for _, r := range s {
		switch {
		case r == '\\':
			b.WriteString("\\\\")
		case r == '"':
			b.WriteString("\\\"")
		case r >= 0x20 && r < 0x7f:
			b.WriteRune(r)
		default:
			fmt.Fprintf(&b, "\\u{%x}", r)
		}
	}
	b.WriteByte('"')
	return b.String()
}

func jpxStrList(xs []string) string {
	q := make([]string, len(xs))
	for i, x := range xs {
		q[i] = jpxStr(x)
	}
	return "[" + strings.Join(q, ", ") + "]"
}

type jpxCmp struct{ lhs, op, rhs string }

var jpxCmpOps = map[string]string{"<": ".lt", "<=": ".le", "==": ".eq", "!=": ".ne", ">": ".gt", ">=": ".ge"}

func (c jpxCmp) lean() string {
	return fmt.Sprintf("⟨%s, %s, %s⟩", jpxStr(c.lhs), jpxCmpOps[c.op], jpxStr(c.rhs))
}

func jpxCmpList(cs []jpxCmp) string {
	q := make([]string, len(cs))
	for i, c := range cs {
		q[i] = c.lean()
	}
	return "[" + strings.Join(q, ", ") + "]"
}

// jpxPrecCmps lists, in source order, every comparison below n one of whose operands is a precedence
// (an identifier `prec` or a selector `….prec`).
func jpxPrecCmps(fset *token.FileSet, n ast.Node) []jpxCmp {
	isPrec := func(x ast.Expr) bool {
		switch t := x.(type) {
		case *ast.Ident:
			return t.Name == "prec"
		case *ast.SelectorExpr:
			return t.Sel.Name == "prec"
		}
		return false
	}
	var out []jpxCmp
	ast.Inspect(n, func(m ast.Node) bool {
		be, ok := m.(*ast.BinaryExpr)
		if !ok {
			return true
		}
		switch be.Op {
		case token.LSS, token.LEQ, token.GTR, token.GEQ, token.EQL, token.NEQ:
			if isPrec(be.X) || isPrec(be.Y) {
				out = append(out, jpxCmp{jpxText(fset, be.X), be.Op.String(), jpxText(fset, be.Y)})
			}
		}
		return true
	})
	return out
}

type jpxClause struct {
	labels []string
	codes  []string // Lean terms of type UInt8
	body   []string
	node   *ast.CaseClause
}

type jpxFile struct {
	rel   string
	fset  *token.FileSet
	funcs map[string]*ast.FuncDecl // "Recv.Name" or "Name"
}

func jpxParse(repo, rel string) (*jpxFile, *ast.File, error) {
	path := filepath.Join(repo, filepath.FromSlash(rel))
	src, err := os.ReadFile(path)
	if err != nil {
		return nil, nil, err
	}
	fset := token.NewFileSet()
	f, err := parser.ParseFile(fset, path, src, 0)
	if err != nil {
		return nil, nil, err
	}
	jf := &jpxFile{rel: rel, fset: fset, funcs: map[string]*ast.FuncDecl{}}
	for _, d := range f.Decls {
		fd, ok := d.(*ast.FuncDecl)
		if !ok || fd.Body == nil {
			continue
		}
		name := fd.Name.Name
		if fd.Recv != nil && len(fd.Recv.List) == 1 {
			t := fd.Recv.List[0].Type
			if st, ok := t.(*ast.StarExpr); ok {
				t = st.X
			}
			if id, ok := t.(*ast.Ident); ok {
				name = id.Name + "." + name
			}
		}
		jf.funcs[name] = fd
	}
	return jf, f, nil
}

func (jf *jpxFile) fn(name string) (*ast.FuncDecl, error) {
	fd := jf.funcs[name]
	if fd == nil {
		return nil, fmt.Errorf("%s: function %s not found", jf.rel, name)
	}
	return fd, nil
}

func (jf *jpxFile) stmts(list []ast.Stmt) []string {
	out := make([]string, len(list))
	for i, s := range list {
		out[i] = jpxText(jf.fset, s)
	}
	return out
}

// switches returns the expression switches directly in the statement list (not nested in other statements).
func jpxSwitches(list []ast.Stmt) []*ast.SwitchStmt {
	var out []*ast.SwitchStmt
	for _, s := range list {
		if sw, ok := s.(*ast.SwitchStmt); ok {
			out = append(out, sw)
		}
	}
	return out
}

// clauses reads the clauses of a switch over op codes; every label must be `<op>.code`, `userOpCode` or a char literal.
func (jf *jpxFile) clauses(where string, sw *ast.SwitchStmt, opVars map[string]bool) ([]jpxClause, error) {
	var out []jpxClause
	for _, s := range sw.Body.List {
		cc, ok := s.(*ast.CaseClause)
		if !ok {
			return nil, fmt.Errorf("%s: %s: switch body holds something that is not a clause", jf.rel, where)
		}
		c := jpxClause{body: jf.stmts(cc.Body), node: cc}
		for _, l := range cc.List {
			c.labels = append(c.labels, jpxText(jf.fset, l))
			switch t := l.(type) {
			case *ast.SelectorExpr:
				id, ok := t.X.(*ast.Ident)
				if !ok || t.Sel.Name != "code" || !opVars[id.Name] {
					return nil, fmt.Errorf("%s: %s: case label %s is not <op>.code of a known op", jf.rel, where, jpxText(jf.fset, l))
				}
				c.codes = append(c.codes, "JpOps.op_"+id.Name+".code")
			case *ast.Ident:
				if t.Name != "userOpCode" {
					return nil, fmt.Errorf("%s: %s: case label %s is not understood", jf.rel, where, t.Name)
				}
				c.codes = append(c.codes, "Jp.userOpCode")
			case *ast.BasicLit:
				n, err := litInt(t)
				if err != nil || n < 0 || n > 255 {
					return nil, fmt.Errorf("%s: %s: case label %s is not a byte", jf.rel, where, t.Value)
				}
				c.codes = append(c.codes, strconv.Itoa(n))
			default:
				return nil, fmt.Errorf("%s: %s: case label %s is not understood", jf.rel, where, jpxText(jf.fset, l))
			}
		}
		out = append(out, c)
	}
	if len(out) == 0 {
		return nil, fmt.Errorf("%s: %s: switch without clauses", jf.rel, where)
	}
	return out, nil
}

func jpxClauseList(cs []jpxClause) string {
	var b strings.Builder
	b.WriteString("[")
	for i, c := range cs {
		if i > 0 {
			b.WriteString(",")
		}
		fmt.Fprintf(&b, "\n  { labels := %s,\n    codes := [%s],\n    body := %s }", jpxStrList(c.labels), strings.Join(c.codes, ", "), jpxStrList(c.body))
	}
	b.WriteString("]")
	return b.String()
}

func jpxDefault(where string, cs []jpxClause) (*jpxClause, error) {
	for i := range cs {
		if len(cs[i].labels) == 0 {
			return &cs[i], nil
		}
	}
	return nil, fmt.Errorf("%s: no default clause", where)
}

// jpxCallsTo lists, in source order, the calls below n whose function text ends in suffix.
func jpxCallsTo(fset *token.FileSet, n ast.Node, suffix string) []*ast.CallExpr {
	var out []*ast.CallExpr
	ast.Inspect(n, func(m ast.Node) bool {
		if ce, ok := m.(*ast.CallExpr); ok && strings.HasSuffix(jpxText(fset, ce.Fun), suffix) {
			out = append(out, ce)
		}
		return true
	})
	return out
}

func jpxIfConds(fset *token.FileSet, n ast.Node) []string {
	var out []string
	ast.Inspect(n, func(m ast.Node) bool {
		if is, ok := m.(*ast.IfStmt); ok {
			c := jpxText(fset, is.Cond)
			if is.Init != nil {
				c = jpxText(fset, is.Init) + "; " + c
			}
			out = append(out, c)
		}
		return true
	})
	return out
}

func extractJpParens(repo, out string) ([]string, error) {
	sf, sfile, err := jpxParse(repo, "jp/script.go")
	if err != nil {
		return nil, err
	}
	ef, _, err := jpxParse(repo, "jp/equation.go")
	if err != nil {
		return nil, err
	}
	ff, _, err := jpxParse(repo, "jp/filter.go")
	if err != nil {
		return nil, err
	}
	// the package-level `x = &op{…}` variables
	opVars := map[string]bool{}
	for _, d := range sfile.Decls {
		gd, ok := d.(*ast.GenDecl)
		if !ok || gd.Tok != token.VAR {
			continue
		}
		for _, sp := range gd.Specs {
			vs := sp.(*ast.ValueSpec)
			for i, id := range vs.Names {
				if i >= len(vs.Values) {
					continue
				}
				if ue, ok := vs.Values[i].(*ast.UnaryExpr); ok && ue.Op == token.AND {
					if cl, ok := ue.X.(*ast.CompositeLit); ok {
						if tid, ok := cl.Type.(*ast.Ident); ok && tid.Name == "op" {
							opVars[id.Name] = true
						}
					}
				}
			}
		}
	}
	if len(opVars) == 0 {
		return nil, fmt.Errorf("jp/script.go: no op variables found")
	}

	var b strings.Builder
	b.WriteString("import OjgVerif.Gen.Jp\nimport OjgVerif.Gen.JpOps\n")
	b.WriteString("/- GENERATED by /verif/tools/extract (jptext.go) from jp/script.go, jp/equation.go, jp/filter.go — do not edit; rewritten on every run. -/\n")
	b.WriteString("namespace OjgVerif.Gen.JpParens\nopen OjgVerif.Gen\n\n")
	b.WriteString("/-- the comparison tokens of Go -/\ninductive CmpOp where\n  | lt | le | eq | ne | gt | ge\nderiving DecidableEq, Repr, Inhabited\n\n/-- a comparison read from a condition: left operand (source text), operator token, right operand (source text) -/\nstructure Cmp where\n  lhs : String\n  op : CmpOp\n  rhs : String\nderiving DecidableEq, Repr, Inhabited\n\n")
	b.WriteString("/-- one clause of a `switch` over op codes: the labels as written (none for `default`), the codes they denote, and the\nstatements of the body (go/printer text, whitespace-normalised, comments dropped) -/\nstructure Clause where\n  labels : List String\n  codes : List UInt8\n  body : List String\nderiving DecidableEq, Repr, Inhabited\n\n")
	def := func(doc, name, typ, val string) {
		fmt.Fprintf(&b, "/-- %s -/\ndef %s : %s := %s\n\n", doc, name, typ, val)
	}

	// ---- Script.appendValue: the *precBuf clause of the type switch
	{
		fd, err := sf.fn("Script.appendValue")
		if err != nil {
			return nil, err
		}
		if fd.Type.Params == nil || jpxParams(sf.fset, fd.Type.Params) != "buf []byte, v any, prec byte" {
			return nil, fmt.Errorf("jp/script.go: Script.appendValue: parameters are not (buf []byte, v any, prec byte)")
		}
		var cl *ast.CaseClause
		ast.Inspect(fd.Body, func(n ast.Node) bool {
			ts, ok := n.(*ast.TypeSwitchStmt)
			if !ok {
				return true
			}
			for _, s := range ts.Body.List {
				if cc, ok := s.(*ast.CaseClause); ok && len(cc.List) == 1 && jpxText(sf.fset, cc.List[0]) == "*precBuf" {
					cl = cc
				}
			}
			return true
		})
		if cl == nil {
			return nil, fmt.Errorf("jp/script.go: Script.appendValue: no `case *precBuf:` clause")
		}
		if len(cl.Body) != 1 {
			return nil, fmt.Errorf("jp/script.go: Script.appendValue: the *precBuf clause is not a single statement")
		}
		is, ok := cl.Body[0].(*ast.IfStmt)
		if !ok || is.Init != nil {
			return nil, fmt.Errorf("jp/script.go: Script.appendValue: the *precBuf clause is not a plain if statement")
		}
		cm := jpxPrecCmps(sf.fset, is.Cond)
		if len(cm) != 1 || jpxText(sf.fset, is.Cond) != cm[0].lhs+" "+cm[0].op+" "+cm[0].rhs {
			return nil, fmt.Errorf("jp/script.go: Script.appendValue: the *precBuf condition %q is not one precedence comparison", jpxText(sf.fset, is.Cond))
		}
		eb, ok := is.Else.(*ast.BlockStmt)
		if !ok {
			return nil, fmt.Errorf("jp/script.go: Script.appendValue: the *precBuf if has no else block")
		}
		def("`Script.appendValue`, `case *precBuf:` — the condition under which the operand is parenthesised", "appendValueParenCond", "Cmp", cm[0].lean())
		def("… the statements when it holds", "appendValueParenThen", "List String", jpxStrList(sf.stmts(is.Body.List)))
		def("… and when it does not", "appendValueParenElse", "List String", jpxStrList(sf.stmts(eb.List)))
	}

	// ---- Script.appendOp
	{
		fd, err := sf.fn("Script.appendOp")
		if err != nil {
			return nil, err
		}
		if len(fd.Body.List) != 3 {
			return nil, fmt.Errorf("jp/script.go: Script.appendOp: body is not `pb = …; switch …; return`")
		}
		sw, ok := fd.Body.List[1].(*ast.SwitchStmt)
		if !ok || sw.Tag == nil || sw.Init != nil {
			return nil, fmt.Errorf("jp/script.go: Script.appendOp: second statement is not a switch with a tag")
		}
		cs, err := sf.clauses("Script.appendOp", sw, opVars)
		if err != nil {
			return nil, err
		}
		dc, err := jpxDefault("jp/script.go: Script.appendOp", cs)
		if err != nil {
			return nil, err
		}
		var rif *ast.IfStmt
		for _, s := range dc.node.Body {
			if is, ok := s.(*ast.IfStmt); ok {
				if rif != nil {
					return nil, fmt.Errorf("jp/script.go: Script.appendOp: two if statements in the default clause")
				}
				rif = is
			}
		}
		if rif == nil || rif.Init == nil {
			return nil, fmt.Errorf("jp/script.go: Script.appendOp: no `if rb, ok := …; …` in the default clause")
		}
		cm := jpxPrecCmps(sf.fset, rif.Cond)
		if len(cm) != 1 {
			return nil, fmt.Errorf("jp/script.go: Script.appendOp: the right-operand condition %q does not hold exactly one precedence comparison", jpxText(sf.fset, rif.Cond))
		}
		eb, ok := rif.Else.(*ast.BlockStmt)
		if !ok {
			return nil, fmt.Errorf("jp/script.go: Script.appendOp: the right-operand if has no else block")
		}
		def("`Script.appendOp`: first statement (the precedence of the produced buffer)", "appendOpInit", "String", jpxStr(jpxText(sf.fset, fd.Body.List[0])))
		def("`Script.appendOp`: the switch tag", "appendOpSwitchTag", "String", jpxStr(jpxText(sf.fset, sw.Tag)))
		def("`Script.appendOp`: the clauses in source order", "appendOpClauses", "List Clause", jpxClauseList(cs))
		def("`Script.appendOp`: last statement", "appendOpLast", "String", jpxStr(jpxText(sf.fset, fd.Body.List[2])))
		def("`Script.appendOp`, default clause: init of the if about the right operand", "appendOpRightInit", "String", jpxStr(jpxText(sf.fset, rif.Init)))
		def("… its condition", "appendOpRightCond", "String", jpxStr(jpxText(sf.fset, rif.Cond)))
		def("… the precedence comparison in it", "appendOpRightCmp", "Cmp", cm[0].lean())
		def("… the statements when it holds (parentheses kept)", "appendOpRightThen", "List String", jpxStrList(sf.stmts(rif.Body.List)))
		def("… and when it does not", "appendOpRightElse", "List String", jpxStrList(sf.stmts(eb.List)))
	}

	// ---- Script.Append, Script.String, Filter.String / Filter.Append
	for _, it := range []struct {
		jf         *jpxFile
		fn, leanID string
	}{{sf, "Script.Append", "scriptAppendBody"}, {sf, "Script.String", "scriptStringBody"}, {ff, "Filter.String", "filterStringBody"}, {ff, "Filter.Append", "filterAppendBody"}} {
		fd, err := it.jf.fn(it.fn)
		if err != nil {
			return nil, err
		}
		def("`"+it.fn+"` ("+it.jf.rel+"): the statements", it.leanID, "List String", jpxStrList(it.jf.stmts(fd.Body.List)))
	}

	// ---- Equation.Append
	{
		fd, err := ef.fn("Equation.Append")
		if err != nil {
			return nil, err
		}
		if jpxParams(ef.fset, fd.Type.Params) != "buf []byte, parens bool" {
			return nil, fmt.Errorf("jp/equation.go: Equation.Append: parameters are not (buf []byte, parens bool)")
		}
		var sws []*ast.SwitchStmt
		ast.Inspect(fd.Body, func(n ast.Node) bool {
			if sw, ok := n.(*ast.SwitchStmt); ok {
				sws = append(sws, sw)
			}
			return true
		})
		if len(sws) != 2 {
			return nil, fmt.Errorf("jp/equation.go: Equation.Append: %d switch statements, expected 2", len(sws))
		}
		for i, sw := range sws {
			if sw.Tag == nil || jpxText(ef.fset, sw.Tag) != "e.o.code" {
				return nil, fmt.Errorf("jp/equation.go: Equation.Append: switch %d is not over e.o.code", i+1)
			}
		}
		np, err := ef.clauses("Equation.Append (parens off)", sws[0], opVars)
		if err != nil {
			return nil, err
		}
		cs, err := ef.clauses("Equation.Append", sws[1], opVars)
		if err != nil {
			return nil, err
		}
		dc, err := jpxDefault("jp/equation.go: Equation.Append", cs)
		if err != nil {
			return nil, err
		}
		var args []ast.Expr
		for _, s := range dc.node.Body {
			for _, ce := range jpxCallsTo(ef.fset, s, ".Append") {
				if len(ce.Args) != 2 {
					return nil, fmt.Errorf("jp/equation.go: Equation.Append: an Append call in the default clause without 2 arguments")
				}
				args = append(args, ce.Fun, ce.Args[1])
			}
		}
		if len(args) != 4 || jpxText(ef.fset, args[0]) != "e.left.Append" || jpxText(ef.fset, args[2]) != "e.right.Append" {
			return nil, fmt.Errorf("jp/equation.go: Equation.Append: the default clause is not e.left.Append(…) then e.right.Append(…)")
		}
		lc, rc := jpxPrecCmps(ef.fset, args[1]), jpxPrecCmps(ef.fset, args[3])
		if len(lc) != 1 || len(rc) != 1 {
			return nil, fmt.Errorf("jp/equation.go: Equation.Append: the parens argument of an operand does not hold exactly one precedence comparison")
		}
		def("`Equation.Append`: all statements of the body", "eqAppendBody", "List String", jpxStrList(ef.stmts(fd.Body.List)))
		def("`Equation.Append`: the first switch (the forms for which `parens` is switched off)", "eqAppendNoParens", "List Clause", jpxClauseList(np))
		def("`Equation.Append`: the clauses of the main switch", "eqAppendClauses", "List Clause", jpxClauseList(cs))
		def("`Equation.Append`, infix default: the `parens` argument for the left operand", "eqAppendLeftParens", "String", jpxStr(jpxText(ef.fset, args[1])))
		def("… the precedence comparison in it", "eqAppendLeftCmp", "Cmp", lc[0].lean())
		def("`Equation.Append`, infix default: the `parens` argument for the right operand", "eqAppendRightParens", "String", jpxStr(jpxText(ef.fset, args[3])))
		def("… the precedence comparison in it", "eqAppendRightCmp", "Cmp", rc[0].lean())
	}

	// ---- Equation.infix, Equation.String, MustParseEquation
	{
		fd, err := ef.fn("Equation.infix")
		if err != nil {
			return nil, err
		}
		sws := jpxSwitches(fd.Body.List)
		if len(sws) != 1 || sws[0].Tag == nil || jpxText(ef.fset, sws[0].Tag) != "e.o.code" {
			return nil, fmt.Errorf("jp/equation.go: Equation.infix: not exactly one switch over e.o.code")
		}
		cs, err := ef.clauses("Equation.infix", sws[0], opVars)
		if err != nil {
			return nil, err
		}
		def("`Equation.infix`: all statements", "eqInfixBody", "List String", jpxStrList(ef.stmts(fd.Body.List)))
		def("`Equation.infix`: the clauses of its switch", "eqInfixClauses", "List Clause", jpxClauseList(cs))
		for _, it := range []struct{ fn, leanID string }{{"Equation.String", "eqStringBody"}, {"MustParseEquation", "mustParseEquationBody"}} {
			fd, err := ef.fn(it.fn)
			if err != nil {
				return nil, err
			}
			def("`"+it.fn+"`: the statements", it.leanID, "List String", jpxStrList(ef.stmts(fd.Body.List)))
		}
	}

	// ---- precedentCorrect
	{
		fd, err := ef.fn("precedentCorrect")
		if err != nil {
			return nil, err
		}
		sws := jpxSwitches(fd.Body.List)
		if len(sws) != 1 || sws[0].Tag == nil || jpxText(ef.fset, sws[0].Tag) != "e.o.code" {
			return nil, fmt.Errorf("jp/equation.go: precedentCorrect: not exactly one switch over e.o.code")
		}
		cs, err := ef.clauses("precedentCorrect", sws[0], opVars)
		if err != nil {
			return nil, err
		}
		cm := jpxPrecCmps(ef.fset, fd.Body)
		if len(cm) == 0 {
			return nil, fmt.Errorf("jp/equation.go: precedentCorrect: no precedence comparison")
		}
		// the rotation: the if whose condition is exactly the first precedence comparison
		var rot *ast.IfStmt
		for _, s := range fd.Body.List {
			if is, ok := s.(*ast.IfStmt); ok && is.Init == nil && jpxText(ef.fset, is.Cond) == cm[0].lhs+" "+cm[0].op+" "+cm[0].rhs {
				rot = is
				break
			}
		}
		if rot == nil {
			return nil, fmt.Errorf("jp/equation.go: precedentCorrect: no top-level if on the first precedence comparison")
		}
		def("`precedentCorrect`: all statements", "precCorrectBody", "List String", jpxStrList(ef.stmts(fd.Body.List)))
		def("`precedentCorrect`: every if condition, in source order", "precCorrectConds", "List String", jpxStrList(jpxIfConds(ef.fset, fd.Body)))
		def("`precedentCorrect`: every precedence comparison, in source order", "precCorrectCmps", "List Cmp", jpxCmpList(cm))
		def("`precedentCorrect`: the clauses of the switch (call forms are corrected in place)", "precCorrectClauses", "List Clause", jpxClauseList(cs))
		def("`precedentCorrect`: the rotation done when the first comparison holds", "precCorrectRotate", "List String", jpxStrList(ef.stmts(rot.Body.List)))
	}

	// ---- reduceGroups
	{
		fd, err := ef.fn("reduceGroups")
		if err != nil {
			return nil, err
		}
		cm := jpxPrecCmps(ef.fset, fd.Body)
		if len(cm) != 1 {
			return nil, fmt.Errorf("jp/equation.go: reduceGroups: %d precedence comparisons, expected 1", len(cm))
		}
		def("`reduceGroups`: all statements", "reduceGroupsBody", "List String", jpxStrList(ef.stmts(fd.Body.List)))
		def("`reduceGroups`: every if condition, in source order", "reduceGroupsConds", "List String", jpxStrList(jpxIfConds(ef.fset, fd.Body)))
		def("`reduceGroups`: the precedence comparison", "reduceGroupsCmp", "Cmp", cm[0].lean())
	}

	// ---- Expr.Append (jp/expr.go) and the Append methods of Descent, Bracket, Wildcard, Child
	{
		xf, _, err := jpxParse(repo, "jp/expr.go")
		if err != nil {
			return nil, err
		}
		fd, err := xf.fn("Expr.Append")
		if err != nil {
			return nil, err
		}
		if jpxParams(xf.fset, fd.Type.Params) != "buf []byte, brackets ...bool" {
			return nil, fmt.Errorf("jp/expr.go: Expr.Append: parameters are not (buf []byte, brackets ...bool)")
		}
		var loop *ast.RangeStmt
		for _, s := range fd.Body.List {
			if rs, ok := s.(*ast.RangeStmt); ok {
				if loop != nil {
					return nil, fmt.Errorf("jp/expr.go: Expr.Append: two range loops")
				}
				loop = rs
			}
		}
		if loop == nil {
			return nil, fmt.Errorf("jp/expr.go: Expr.Append: no range loop over the fragments")
		}
		head := "for " + jpxText(xf.fset, loop.Key)
		if loop.Value != nil {
			head += ", " + jpxText(xf.fset, loop.Value)
		}
		head += " " + loop.Tok.String() + " range " + jpxText(xf.fset, loop.X)
		def("`Expr.Append` (jp/expr.go): the statements of the body (the loop as one statement)", "exprAppendBody", "List String", jpxStrList(xf.stmts(fd.Body.List)))
		def("`Expr.Append`: the head of the fragment loop", "exprAppendLoopHead", "String", jpxStr(head))
		def("`Expr.Append`: the statements of the fragment loop", "exprAppendLoop", "List String", jpxStrList(xf.stmts(loop.Body.List)))
		for _, it := range []struct{ rel, fn, leanID string }{
			{"jp/descent.go", "Descent.Append", "descentAppendBody"}, {"jp/bracket.go", "Bracket.Append", "bracketAppendBody"},
			{"jp/wildcard.go", "Wildcard.Append", "wildcardAppendBody"}, {"jp/child.go", "Child.Append", "childAppendBody"}} {
			jf, _, err := jpxParse(repo, it.rel)
			if err != nil {
				return nil, err
			}
			fd, err := jf.fn(it.fn)
			if err != nil {
				return nil, err
			}
			if jpxParams(jf.fset, fd.Type.Params) != "buf []byte, bracket, first bool" {
				return nil, fmt.Errorf("%s: %s: parameters are not (buf []byte, bracket, first bool)", it.rel, it.fn)
			}
			def("`"+it.fn+"` ("+it.rel+"): the statements", it.leanID, "List String", jpxStrList(jf.stmts(fd.Body.List)))
		}
	}

	b.WriteString("end OjgVerif.Gen.JpParens\n")
	ch, err := writeIfChanged(filepath.Join(out, "JpParens.lean"), b.String())
	if err != nil {
		return nil, err
	}
	if ch {
		return []string{"JpParens"}, nil
	}
	return nil, nil
}
