// jptext: extra extraction for the JSONPath text family (C14).
//
// Reads jp/script.go and writes lean/OjgVerif/Gen/JpOps.lean:
//   - one `Op` record per package-level `x = &op{prec: …, code: …, name: …, cnt: …, getLeft: …}`
//   - `opMap`: the literal `opMap = map[string]*op{ a.name: a, … }` as (key bytes, Op) pairs
//   - `all`: every op in source order
//
// Fails loudly on anything it cannot read (a field that is not a literal, a map key that is not
// `<op>.name` or a string literal, an unknown field of the composite literal).
package main

import (
	"fmt"
	"go/ast"
	"go/parser"
	"go/token"
	"os"
	"path/filepath"
	"strconv"
	"strings"
)

type jpOp struct {
	goName  string
	name    string
	code    int
	prec    int
	cnt     int
	getLeft bool
}

func init() {
	registerExtra(extractJpOps)
}

func litInt(x ast.Expr) (int, error) {
	bl, ok := x.(*ast.BasicLit)
	if !ok {
		return 0, fmt.Errorf("not a literal")
	}
	switch bl.Kind {
	case token.INT:
		n, err := strconv.ParseInt(bl.Value, 0, 64)
		return int(n), err
	case token.CHAR:
		s, err := strconv.Unquote(bl.Value)
		if err != nil {
			return 0, err
		}
		r := []rune(s)
		if len(r) != 1 || r[0] > 255 {
			return 0, fmt.Errorf("char literal %s is not one byte", bl.Value)
		}
		return int(r[0]), nil
	}
	return 0, fmt.Errorf("not an integer or char literal")
}

func leanBytes(s string) string {
	var b strings.Builder
	b.WriteByte('[')
	for i, c := range []byte(s) {
		if i > 0 {
			b.WriteByte(',')
		}
		fmt.Fprintf(&b, "%d", c)
	}
	b.WriteByte(']')
	return b.String()
}

func extractJpOps(repo, out string) ([]string, error) {
	path := filepath.Join(repo, "jp", "script.go")
	src, err := os.ReadFile(path)
	if err != nil {
		return nil, err
	}
	fset := token.NewFileSet()
	f, err := parser.ParseFile(fset, path, src, 0)
	if err != nil {
		return nil, err
	}
	var ops []jpOp
	byName := map[string]int{}
	type mapEnt struct{ key, op string }
	var opMap []mapEnt
	sawMap := false
	for _, d := range f.Decls {
		gd, ok := d.(*ast.GenDecl)
		if !ok || gd.Tok != token.VAR {
			continue
		}
		for _, sp := range gd.Specs {
			vs := sp.(*ast.ValueSpec)
			for i, id := range vs.Names {
				if i >= len(vs.Values) {
					continue
				}
				v := vs.Values[i]
				if ue, ok := v.(*ast.UnaryExpr); ok && ue.Op == token.AND {
					cl, ok := ue.X.(*ast.CompositeLit)
					if !ok {
						continue
					}
					if tid, ok := cl.Type.(*ast.Ident); !ok || tid.Name != "op" {
						continue
					}
					o := jpOp{goName: id.Name}
					seen := map[string]bool{}
					for _, el := range cl.Elts {
						kv, ok := el.(*ast.KeyValueExpr)
						if !ok {
							return nil, fmt.Errorf("jp/script.go: op %s: positional field", id.Name)
						}
						k := kv.Key.(*ast.Ident).Name
						seen[k] = true
						switch k {
						case "prec":
							if o.prec, err = litInt(kv.Value); err != nil {
								return nil, fmt.Errorf("jp/script.go: op %s.prec: %v", id.Name, err)
							}
						case "code":
							if o.code, err = litInt(kv.Value); err != nil {
								return nil, fmt.Errorf("jp/script.go: op %s.code: %v", id.Name, err)
							}
						case "cnt":
							if o.cnt, err = litInt(kv.Value); err != nil {
								return nil, fmt.Errorf("jp/script.go: op %s.cnt: %v", id.Name, err)
							}
						case "name":
							bl, ok := kv.Value.(*ast.BasicLit)
							if !ok || bl.Kind != token.STRING {
								return nil, fmt.Errorf("jp/script.go: op %s.name is not a string literal", id.Name)
							}
							if o.name, err = strconv.Unquote(bl.Value); err != nil {
								return nil, err
							}
						case "getLeft":
							bid, ok := kv.Value.(*ast.Ident)
							if !ok || (bid.Name != "true" && bid.Name != "false") {
								return nil, fmt.Errorf("jp/script.go: op %s.getLeft is not a bool literal", id.Name)
							}
							o.getLeft = bid.Name == "true"
						default:
							return nil, fmt.Errorf("jp/script.go: op %s: field %s is not understood", id.Name, k)
						}
					}
					for _, need := range []string{"prec", "code", "name", "cnt"} {
						if !seen[need] {
							return nil, fmt.Errorf("jp/script.go: op %s: field %s missing", id.Name, need)
						}
					}
					if o.prec < 0 || o.prec > 255 || o.code < 0 || o.code > 255 || o.cnt < 0 || o.cnt > 255 {
						return nil, fmt.Errorf("jp/script.go: op %s: field out of byte range", id.Name)
					}
					byName[o.goName] = len(ops)
					ops = append(ops, o)
				}
				if id.Name == "opMap" {
					cl, ok := v.(*ast.CompositeLit)
					if !ok {
						return nil, fmt.Errorf("jp/script.go: opMap is not a composite literal")
					}
					sawMap = true
					for _, el := range cl.Elts {
						kv, ok := el.(*ast.KeyValueExpr)
						if !ok {
							return nil, fmt.Errorf("jp/script.go: opMap element is not key: value")
						}
						vid, ok := kv.Value.(*ast.Ident)
						if !ok {
							return nil, fmt.Errorf("jp/script.go: opMap value is not an identifier")
						}
						switch k := kv.Key.(type) {
						case *ast.SelectorExpr:
							kid, ok := k.X.(*ast.Ident)
							if !ok || k.Sel.Name != "name" {
								return nil, fmt.Errorf("jp/script.go: opMap key is not <op>.name")
							}
							opMap = append(opMap, mapEnt{"@" + kid.Name, vid.Name})
						case *ast.BasicLit:
							s, err := strconv.Unquote(k.Value)
							if err != nil || k.Kind != token.STRING {
								return nil, fmt.Errorf("jp/script.go: opMap key %s is not a string", k.Value)
							}
							opMap = append(opMap, mapEnt{s, vid.Name})
						default:
							return nil, fmt.Errorf("jp/script.go: opMap key is not understood")
						}
					}
				}
			}
		}
	}
	if len(ops) == 0 || !sawMap {
		return nil, fmt.Errorf("jp/script.go: no op table or no opMap found")
	}
	var b strings.Builder
	b.WriteString("/- GENERATED by /verif/tools/extract (jptext.go) from jp/script.go — do not edit; rewritten on every run. -/\n")
	b.WriteString("namespace OjgVerif.Gen.JpOps\n\n")
	b.WriteString("/-- one `&op{…}` of jp/script.go -/\nstructure Op where\n  name : List UInt8\n  code : UInt8\n  prec : Nat\n  cnt : Nat\n  getLeft : Bool\nderiving DecidableEq, Repr, Inhabited\n\n")
	for _, o := range ops {
		fmt.Fprintf(&b, "/-- %s: name %q code %q -/\ndef %s : Op := { name := %s, code := %d, prec := %d, cnt := %d, getLeft := %v }\n\n",
			o.goName, o.name, string(rune(o.code)), "op_"+o.goName, leanBytes(o.name), o.code, o.prec, o.cnt, o.getLeft)
	}
	b.WriteString("/-- every op, in source order, with its Go variable name -/\ndef all : List (String × Op) := [")
	for i, o := range ops {
		if i > 0 {
			b.WriteString(", ")
		}
		fmt.Fprintf(&b, "(%q, %s)", o.goName, "op_"+o.goName)
	}
	b.WriteString("]\n\n")
	b.WriteString("/-- the `opMap` literal: key bytes and the op the key maps to -/\ndef opMap : List (List UInt8 × Op) := [")
	for i, e := range opMap {
		key := e.key
		if strings.HasPrefix(key, "@") {
			idx, ok := byName[key[1:]]
			if !ok {
				return nil, fmt.Errorf("jp/script.go: opMap key %s.name: unknown op", key[1:])
			}
			key = ops[idx].name
		}
		if _, ok := byName[e.op]; !ok {
			return nil, fmt.Errorf("jp/script.go: opMap value %s: unknown op", e.op)
		}
		if i > 0 {
			b.WriteString(",\n  ")
		}
		fmt.Fprintf(&b, "(%s, %s)", leanBytes(key), "op_"+e.op)
	}
	b.WriteString("]\n\nend OjgVerif.Gen.JpOps\n")
	ch, err := writeIfChanged(filepath.Join(out, "JpOps.lean"), b.String())
	if err != nil {
		return nil, err
	}
	if ch {
		return []string{"JpOps"}, nil
	}
	return nil, nil
}

// ---- facts about jp/parse.go for the sub-check C06jp ----------------------------------------------------------------
//
// Gen/JpFacts.lean: for each of the five places where the parser used to index or slice its buffer without
// looking at its length (fixed in a3a42a0), is the bounds check there? Read from the syntax tree, not from
// the text: the condition of an if statement (and what it guards), the argument of bytes.Index.

func init() {
	registerExtra(extractJpFacts)
}

func exprText(fset *token.FileSet, src []byte, n ast.Node) string {
	return strings.Join(strings.Fields(string(src[fset.Position(n.Pos()).Offset:fset.Position(n.End()).Offset])), " ")
}

func extractJpFacts(repo, out string) ([]string, error) {
	path := filepath.Join(repo, "jp", "parse.go")
	src, err := os.ReadFile(path)
	if err != nil {
		return nil, err
	}
	fset := token.NewFileSet()
	f, err := parser.ParseFile(fset, path, src, 0)
	if err != nil {
		return nil, err
	}
	funcs := map[string]*ast.FuncDecl{}
	for _, d := range f.Decls {
		if fd, ok := d.(*ast.FuncDecl); ok && fd.Recv != nil && fd.Body != nil {
			funcs[fd.Name.Name] = fd
		}
	}
	for _, need := range []string{"readStr", "readRegex", "readEscStr", "readOpArgs", "readProc"} {
		if funcs[need] == nil {
			return nil, fmt.Errorf("jp/parse.go: method %s not found", need)
		}
	}
	// an if statement with this condition whose body raises (p.raise(…)) or jumps to the failure label
	guarded := func(fd *ast.FuncDecl, cond string, prefix bool) bool {
		found := false
		ast.Inspect(fd.Body, func(n ast.Node) bool {
			is, ok := n.(*ast.IfStmt)
			if !ok {
				return true
			}
			c := exprText(fset, src, is.Cond)
			if c == cond || (prefix && strings.HasPrefix(c, cond)) {
				b := exprText(fset, src, is.Body)
				if strings.Contains(b, "p.raise(") || strings.Contains(b, "goto fail") {
					found = true
				}
			}
			return true
		})
		return found
	}
	// readEscStr: the check is the first statement of the `case '\\':` clause
	escGuard := false
	ast.Inspect(funcs["readEscStr"].Body, func(n ast.Node) bool {
		cc, ok := n.(*ast.CaseClause)
		if !ok || len(cc.List) != 1 || exprText(fset, src, cc.List[0]) != `'\\'` || len(cc.Body) == 0 {
			return true
		}
		if is, ok := cc.Body[0].(*ast.IfStmt); ok && exprText(fset, src, is.Cond) == "len(p.buf) <= p.pos" &&
			strings.Contains(exprText(fset, src, is.Body), "goto fail") {
			escGuard = true
		}
		return true
	})
	// readOpArgs: the first statement tests the length before it looks at the byte
	opGuard := false
	if b := funcs["readOpArgs"].Body.List; len(b) > 0 {
		if is, ok := b[0].(*ast.IfStmt); ok && strings.HasPrefix(exprText(fset, src, is.Cond), "len(p.buf) <= p.pos ||") &&
			strings.Contains(exprText(fset, src, is.Body), "p.raise(") {
			opGuard = true
		}
	}
	// readProc: bytes.Index searches from the current position on
	procFrom := false
	ast.Inspect(funcs["readProc"].Body, func(n ast.Node) bool {
		if ce, ok := n.(*ast.CallExpr); ok && exprText(fset, src, ce.Fun) == "bytes.Index" && len(ce.Args) == 2 {
			procFrom = exprText(fset, src, ce.Args[0]) == "p.buf[p.pos:]"
		}
		return true
	})
	var b strings.Builder
	b.WriteString("/- GENERATED by /verif/tools/extract (jptext.go) from jp/parse.go — do not edit; rewritten on every run. -/\n")
	b.WriteString("namespace OjgVerif.Gen.JpFacts\n\n")
	fmt.Fprintf(&b, "/-- readStr: `if p.pos == start { p.raise(…) }` before `p.buf[start : p.pos-1]` -/\ndef readStrGuard : Bool := %v\n\n", guarded(funcs["readStr"], "p.pos == start", false))
	fmt.Fprintf(&b, "/-- readRegex: `if p.pos == start { p.raise(…) }` before the source is sliced out -/\ndef readRegexGuard : Bool := %v\n\n", guarded(funcs["readRegex"], "p.pos == start", false))
	fmt.Fprintf(&b, "/-- readEscStr: `if len(p.buf) <= p.pos { goto fail }` first in `case '\\\\':` -/\ndef readEscStrGuard : Bool := %v\n\n", escGuard)
	fmt.Fprintf(&b, "/-- readOpArgs: `len(p.buf) <= p.pos ||` in front of `p.buf[p.pos] != '('` -/\ndef readOpArgsGuard : Bool := %v\n\n", opGuard)
	fmt.Fprintf(&b, "/-- readProc: `bytes.Index(p.buf[p.pos:], …)` -/\ndef readProcFromPos : Bool := %v\n\n", procFrom)
	b.WriteString("end OjgVerif.Gen.JpFacts\n")
	ch, err := writeIfChanged(filepath.Join(out, "JpFacts.lean"), b.String())
	if err != nil {
		return nil, err
	}
	if ch {
		return []string{"JpFacts"}, nil
	}
	return nil, nil
}
