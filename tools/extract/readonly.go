// Read-only facts for C08, written to Gen/ReadOnly.lean: values that goroutines share and that are NOT
// package-level variables must not be written by the calls that use them.
//
//   - jpReceiverWrites: package jp, every method reachable (call graph by name) from the exported methods
//     of Expr, Script, Filter and the fragment types: assignments THROUGH the receiver —
//     `r.f = …`, `r.f[i] = …`, `r[i] = …`, `*r = …`, `r.f op= …`, `r.f++`, copy(r.f, …), and
//     `append(r.f, …)` / `append(r, …)` whose result is not assigned back to a plain local (append may
//     write the shared backing array) — with the exception of an assignment to the receiver variable
//     itself (`r = …`, a local) and, for a VALUE receiver of struct type, to its fields (`r.f = …`
//     changes the copy). Functions whose receiver type belongs to the path/script PARSERS are private
//     to a parse call and left out.
//   - optionsPointerWrites: root package, alt, oj, sen, pretty: assignments through a `*Options` /
//     `*ojg.Options` value the caller handed in — a parameter of that type, the receiver of a method of
//     Options, an element of a variadic `...*Options` parameter, or a local assigned from one of those
//     (or from `&DefaultOptions`).
//
// It fails loudly on source it cannot read.
package main

import (
	"bytes"
	"fmt"
	"go/ast"
	"go/parser"
	"go/printer"
	"go/token"
	"os"
	"path/filepath"
	"sort"
	"strings"
)

func init() { registerExtra(extractReadOnly) }

func roLoad(repo, dir string) (*token.FileSet, []*ast.File, error) {
	fset := token.NewFileSet()
	ents, err := os.ReadDir(filepath.Join(repo, dir))
	if err != nil {
		return nil, nil, fmt.Errorf("readonly: %v", err)
	}
	var files []*ast.File
	for _, e := range ents {
		n := e.Name()
		if e.IsDir() || !strings.HasSuffix(n, ".go") || strings.HasSuffix(n, "_test.go") {
			continue
		}
		f, err := parser.ParseFile(fset, filepath.Join(repo, dir, n), nil, 0)
		if err != nil {
			return nil, nil, fmt.Errorf("readonly: %v", err)
		}
		if f.Name.Name == "main" {
			continue
		}
		files = append(files, f)
	}
	return fset, files, nil
}

func roSrc(fset *token.FileSet, n ast.Node) string {
	var b bytes.Buffer
	_ = printer.Fprint(&b, fset, n)
	return strings.Join(strings.Fields(b.String()), " ")
}

// roRootIdent returns the identifier at the root of x.f[i].g … and the number of steps below it.
func roRootIdent(x ast.Expr) (*ast.Ident, int) {
	steps := 0
	for {
		switch t := x.(type) {
		case *ast.Ident:
			return t, steps
		case *ast.SelectorExpr:
			x = t.X
		case *ast.IndexExpr:
			x = t.X
		case *ast.SliceExpr:
			x = t.X
		case *ast.StarExpr:
			x = t.X
		case *ast.ParenExpr:
			x = t.X
			continue
		default:
			return nil, 0
		}
		steps++
	}
}

type roFunc struct {
	key      string // Recv.name or name
	decl     *ast.FuncDecl
	recvName string
	recvType string
	recvPtr  bool
}

func roFuncs(files []*ast.File) []*roFunc {
	var out []*roFunc
	for _, f := range files {
		for _, d := range f.Decls {
			fd, ok := d.(*ast.FuncDecl)
			if !ok || fd.Body == nil {
				continue
			}
			rf := &roFunc{key: fd.Name.Name, decl: fd}
			if fd.Recv != nil && len(fd.Recv.List) > 0 {
				t := fd.Recv.List[0].Type
				if s, ok := t.(*ast.StarExpr); ok {
					t = s.X
					rf.recvPtr = true
				}
				if id, ok := t.(*ast.Ident); ok {
					rf.recvType = id.Name
				}
				if len(fd.Recv.List[0].Names) > 0 {
					rf.recvName = fd.Recv.List[0].Names[0].Name
				}
				rf.key = rf.recvType + "." + fd.Name.Name
			}
			out = append(out, rf)
		}
	}
	return out
}

// roWritesThrough lists the writes in body through the identifier `name` (declared as obj).
// fieldIsCopy: `name.f = …` only changes a copy (value receiver of struct type).
func roWritesThrough(fset *token.FileSet, body *ast.BlockStmt, name string, obj *ast.Object, fieldIsCopy bool) []string {
	var out []string
	is := func(id *ast.Ident) bool { return id != nil && id.Name == name && id.Obj == obj }
	lhs := func(x ast.Expr) {
		id, steps := roRootIdent(x)
		if !is(id) || steps == 0 {
			return // the variable itself: a local
		}
		if fieldIsCopy && steps == 1 {
			if _, ok := x.(*ast.SelectorExpr); ok {
				return
			}
		}
		out = append(out, roSrc(fset, x))
	}
	// appends assigned to a plain local are noted separately: they write the shared backing array only
	// when it has spare capacity, which a value built by the parsers may have
	ast.Inspect(body, func(n ast.Node) bool {
		switch t := n.(type) {
		case *ast.AssignStmt:
			if t.Tok != token.DEFINE {
				for _, l := range t.Lhs {
					lhs(l)
				}
			}
		case *ast.IncDecStmt:
			lhs(t.X)
		case *ast.CallExpr:
			if id, ok := t.Fun.(*ast.Ident); ok && len(t.Args) > 0 {
				switch id.Name {
				case "copy", "clear", "delete":
					if r, steps := roRootIdent(t.Args[0]); is(r) && (steps > 0 || id.Name != "delete") {
						if !(fieldIsCopy && false) {
							out = append(out, id.Name+"("+roSrc(fset, t.Args[0])+", …)")
						}
					}
				case "append":
					if r, steps := roRootIdent(t.Args[0]); is(r) && steps > 0 {
						out = append(out, "append("+roSrc(fset, t.Args[0])+", …)")
					}
				}
			}
		}
		return true
	})
	return out
}

func extractReadOnly(repo, out string) ([]string, error) {
	// ---- jp: evaluation does not write through its receiver ----------------------------------------
	fset, files, err := roLoad(repo, "jp")
	if err != nil {
		return nil, err
	}
	funcs := roFuncs(files)
	byName := map[string][]*roFunc{}
	typeSeen := map[string]bool{}
	for _, f := range funcs {
		byName[f.decl.Name.Name] = append(byName[f.decl.Name.Name], f)
		typeSeen[f.recvType] = true
	}
	for _, t := range []string{"Expr", "Script", "Filter"} {
		if !typeSeen[t] {
			return nil, fmt.Errorf("readonly: no method of jp.%s found", t)
		}
	}
	// receiver types that belong to a parse call (private to it)
	private := map[string]bool{"parser": true, "Equation": true, "Form": true, "MatchHandler": true} // MatchHandler: the token handler a Match call creates for itself
	// entry points: the exported methods of every receiver type that is not private, and the exported
	// functions that take part in evaluation (Walk, …) are reached from them
	reach := map[*roFunc]bool{}
	var work []*roFunc
	for _, f := range funcs {
		if f.recvType != "" && !private[f.recvType] && ast.IsExported(f.decl.Name.Name) {
			reach[f] = true
			work = append(work, f)
		}
	}
	for len(work) > 0 {
		f := work[len(work)-1]
		work = work[:len(work)-1]
		ast.Inspect(f.decl.Body, func(n ast.Node) bool {
			ce, ok := n.(*ast.CallExpr)
			if !ok {
				return true
			}
			name := ""
			switch t := ce.Fun.(type) {
			case *ast.Ident:
				name = t.Name
			case *ast.SelectorExpr:
				name = t.Sel.Name
			}
			for _, g := range byName[name] {
				if !reach[g] && !private[g.recvType] {
					reach[g] = true
					work = append(work, g)
				}
			}
			return true
		})
	}
	type w struct{ fn, lhs string }
	var jpWrites []w
	nReach := 0
	for _, f := range funcs {
		if !reach[f] || f.recvName == "" || f.recvName == "_" {
			continue
		}
		nReach++
		// the receiver's object
		var obj *ast.Object
		if n := f.decl.Recv.List[0].Names[0]; n != nil {
			obj = n.Obj
		}
		// a value receiver whose type is a struct: field assignments change the copy. Expr, Union … are
		// slices (an element assignment writes shared memory; there is no field assignment on them).
		fieldIsCopy := !f.recvPtr
		for _, x := range roWritesThrough(fset, f.decl.Body, f.recvName, obj, fieldIsCopy) {
			jpWrites = append(jpWrites, w{"jp." + f.key, x})
		}
	}
	if nReach < 40 {
		return nil, fmt.Errorf("readonly: only %d methods of package jp reached from the exported methods", nReach)
	}
	// ---- *Options handed in by the caller is not written -----------------------------------------
	type ow struct{ pkg, fn, lhs string }
	var optWrites []ow
	nOptFuncs := 0
	for _, d := range []struct{ dir, pkg string }{{".", "ojg"}, {"alt", "alt"}, {"oj", "oj"}, {"sen", "sen"}, {"pretty", "pretty"}, {"gen", "gen"}, {"jp", "jp"}, {"asm", "asm"}} {
		fs, fl, err := roLoad(repo, d.dir)
		if err != nil {
			return nil, err
		}
		isOptPtr := func(t ast.Expr) (ptr, variadic bool) {
			if el, ok := t.(*ast.Ellipsis); ok {
				p, _ := isOptPtrType(el.Elt)
				return p, true
			}
			return isOptPtrType(t)
		}
		for _, f := range roFuncs(fl) {
			// the identifiers that hold a caller's *Options
			holders := map[*ast.Object]string{}
			variadics := map[*ast.Object]bool{}
			addParams := func(fl *ast.FieldList) {
				if fl == nil {
					return
				}
				for _, fld := range fl.List {
					ptr, variadic := isOptPtr(fld.Type)
					if !ptr {
						continue
					}
					for _, n := range fld.Names {
						if n.Obj == nil {
							continue
						}
						if variadic {
							variadics[n.Obj] = true
						} else {
							holders[n.Obj] = n.Name
						}
					}
				}
			}
			addParams(f.decl.Type.Params)
			if f.recvType == "Options" && f.recvPtr && d.pkg == "ojg" && f.decl.Recv.List[0].Names != nil {
				n := f.decl.Recv.List[0].Names[0]
				holders[n.Obj] = n.Name
			}
			// locals assigned from a holder, from an element of a variadic, or from &DefaultOptions
			from := func(x ast.Expr) bool {
				switch t := x.(type) {
				case *ast.Ident:
					_, ok := holders[t.Obj]
					return ok && t.Obj != nil
				case *ast.IndexExpr:
					if id, ok := t.X.(*ast.Ident); ok && id.Obj != nil && variadics[id.Obj] {
						return true
					}
				case *ast.UnaryExpr:
					if t.Op == token.AND {
						s := roSrc(fs, t.X)
						return s == "DefaultOptions" || s == "ojg.DefaultOptions" || s == "GoOptions" || s == "ojg.GoOptions"
					}
				}
				return false
			}
			for changed := true; changed; {
				changed = false
				ast.Inspect(f.decl.Body, func(n ast.Node) bool {
					as, ok := n.(*ast.AssignStmt)
					if !ok || len(as.Lhs) != len(as.Rhs) {
						return true
					}
					for i, l := range as.Lhs {
						id, ok := l.(*ast.Ident)
						if !ok || id.Obj == nil {
							continue
						}
						if _, has := holders[id.Obj]; !has && from(as.Rhs[i]) {
							holders[id.Obj] = id.Name
							changed = true
						}
					}
					return true
				})
			}
			if len(holders) == 0 {
				continue
			}
			nOptFuncs++
			for obj, name := range holders {
				for _, x := range roWritesThrough(fs, f.decl.Body, name, obj, false) {
					optWrites = append(optWrites, ow{d.pkg, f.key, x})
				}
			}
		}
	}
	if nOptFuncs < 10 {
		return nil, fmt.Errorf("readonly: only %d functions handling a caller's *Options found", nOptFuncs)
	}
	sort.Slice(jpWrites, func(i, j int) bool { return jpWrites[i].fn+jpWrites[i].lhs < jpWrites[j].fn+jpWrites[j].lhs })
	sort.Slice(optWrites, func(i, j int) bool {
		return optWrites[i].pkg+optWrites[i].fn+optWrites[i].lhs < optWrites[j].pkg+optWrites[j].fn+optWrites[j].lhs
	})
	var b strings.Builder
	b.WriteString("/-! generated by tools/extract/readonly.go from the Go source — do not edit. -/\n")
	b.WriteString("namespace OjgVerif.Gen.ReadOnly\n\n")
	fmt.Fprintf(&b, "/-- methods of package jp reached from the exported methods of Expr, Script, Filter and the fragment types -/\ndef jpReached : Nat := %d\n\n", nReach)
	b.WriteString("/-- writes through the receiver in those methods: (method, what is written) -/\n")
	b.WriteString("def jpReceiverWrites : List (String × String) := [")
	for i, x := range jpWrites {
		if i > 0 {
			b.WriteString(", ")
		}
		fmt.Fprintf(&b, "(%q, %q)", x.fn, x.lhs)
	}
	b.WriteString("]\n\n")
	fmt.Fprintf(&b, "/-- functions that hold a caller's *Options (parameter, receiver of a method of Options, element of a variadic, alias) -/\ndef optionsHolders : Nat := %d\n\n", nOptFuncs)
	b.WriteString("/-- writes through such a pointer: (package, function, what is written) -/\n")
	b.WriteString("def optionsPointerWrites : List (String × String × String) := [")
	for i, x := range optWrites {
		if i > 0 {
			b.WriteString(", ")
		}
		fmt.Fprintf(&b, "(%q, %q, %q)", x.pkg, x.fn, x.lhs)
	}
	b.WriteString("]\n\nend OjgVerif.Gen.ReadOnly\n")
	ch, err := writeIfChanged(filepath.Join(out, "ReadOnly.lean"), b.String())
	if err != nil {
		return nil, err
	}
	if ch {
		return []string{"ReadOnly"}, nil
	}
	return nil, nil
}

// isOptPtrType: *Options, *ojg.Options
func isOptPtrType(t ast.Expr) (bool, bool) {
	st, ok := t.(*ast.StarExpr)
	if !ok {
		return false, false
	}
	switch x := st.X.(type) {
	case *ast.Ident:
		return x.Name == "Options", false
	case *ast.SelectorExpr:
		return x.Sel.Name == "Options", false
	}
	return false, false
}
