package main

// jsonfast.go: the FAST PATHS of (*oj.Parser).parseBuffer, (*gen.Parser).parseBuffer, (*oj.Validator).validateBuffer
// and (*oj.Tokenizer).tokenizeBuffer as facts.
//
// lean/OjgVerif/Json/BufModel.lean transcribes one call of parseBuffer on one buffer including the inner
// loops (whitespace skip behind a newline, string scan, literal look-ahead, integer loop, fraction loop).
// This extractor writes Gen/JsonFast.lean with
//   - <pkg>Loop: the header of the buffer loop and the statement in front of the switch;
//   - <pkg>Fast: for each case clause that has a fast path (skipNewline, keyQuote, valQuote, valDigit,
//     valNull, valTrue, valFalse, numDot, numNewline) the printed statements of the clause, one line per
//     printed line (comments dropped, gofmt layout), so every loop guard, bound, slice expression,
//     `off` adjustment and next-mode assignment is there;
//   - <pkg>Lits: for the three literal look-aheads the numbers read off the condition
//     `off+N <= len(buf) && string(buf[off:off+M]) == "lit"` and the `off += K` behind it;
//   - <pkg>RangeLoops: for every `for i, b = range buf[off+1:]` in the function the table and the code
//     of its first break test (`spaceMap[b] != skipChar`).
// lean/OjgVerif/Json/BufFacts.lean compares them with what the model was transcribed from
// (`*_fast_is_source`), and derives the model's constants from them (`lits_are_source`, `loops_are_source`).
// Anything the extractor cannot read is an error (the check then fails loudly).

import (
	"fmt"
	"go/ast"
	"go/parser"
	"go/token"
	"path/filepath"
	"strconv"
	"strings"
)

func init() { registerExtra(extractJsonFast) }

var jfFastLabels = []string{"skipNewline", "keyQuote", "valQuote", "valDigit", "valNull", "valTrue", "valFalse", "numDot", "numNewline"}

type jfLit struct {
	label          string
	text           string
	guardN, sliceN int
	offInc         int
}

func jfIntLit(x ast.Expr) (int, bool) {
	bl, ok := x.(*ast.BasicLit)
	if !ok || bl.Kind != token.INT {
		return 0, false
	}
	n, err := strconv.Atoi(bl.Value)
	return n, err == nil
}

// off+N
func jfOffPlus(x ast.Expr) (int, bool) {
	be, ok := x.(*ast.BinaryExpr)
	if !ok || be.Op != token.ADD {
		return 0, false
	}
	if id, ok := be.X.(*ast.Ident); !ok || id.Name != "off" {
		return 0, false
	}
	return jfIntLit(be.Y)
}

func jfIsLenBuf(x ast.Expr) bool {
	ce, ok := x.(*ast.CallExpr)
	if !ok || len(ce.Args) != 1 {
		return false
	}
	f, ok := ce.Fun.(*ast.Ident)
	a, ok2 := ce.Args[0].(*ast.Ident)
	return ok && ok2 && f.Name == "len" && a.Name == "buf"
}

// the literal look-ahead of one case clause
func jfLitOf(cc *ast.CaseClause, label string) (jfLit, error) {
	bad := func(why string) (jfLit, error) {
		return jfLit{}, fmt.Errorf("jsonfast: case %s: %s", label, why)
	}
	if len(cc.Body) != 1 {
		return bad("expected a single if statement")
	}
	is, ok := cc.Body[0].(*ast.IfStmt)
	if !ok || is.Init != nil {
		return bad("expected a plain if statement")
	}
	and, ok := is.Cond.(*ast.BinaryExpr)
	if !ok || and.Op != token.LAND {
		return bad("condition is not a conjunction")
	}
	le, ok := and.X.(*ast.BinaryExpr)
	if !ok || le.Op != token.LEQ || !jfIsLenBuf(le.Y) {
		return bad("left conjunct is not `off+N <= len(buf)`")
	}
	n, ok := jfOffPlus(le.X)
	if !ok {
		return bad("left conjunct is not `off+N <= len(buf)`")
	}
	eq, ok := and.Y.(*ast.BinaryExpr)
	if !ok || eq.Op != token.EQL {
		return bad("right conjunct is not `string(buf[off:off+M]) == \"lit\"`")
	}
	bl, ok := eq.Y.(*ast.BasicLit)
	if !ok || bl.Kind != token.STRING {
		return bad("right conjunct does not compare with a string literal")
	}
	text, err := strconv.Unquote(bl.Value)
	if err != nil {
		return bad("string literal unreadable")
	}
	conv, ok := eq.X.(*ast.CallExpr)
	if !ok || len(conv.Args) != 1 {
		return bad("right conjunct is not a conversion of a slice")
	}
	if f, ok := conv.Fun.(*ast.Ident); !ok || f.Name != "string" {
		return bad("right conjunct is not a string(...) conversion")
	}
	sl, ok := conv.Args[0].(*ast.SliceExpr)
	if !ok || sl.Slice3 || sl.Low == nil || sl.High == nil {
		return bad("conversion argument is not buf[off:off+M]")
	}
	if id, ok := sl.X.(*ast.Ident); !ok || id.Name != "buf" {
		return bad("slice is not of buf")
	}
	if id, ok := sl.Low.(*ast.Ident); !ok || id.Name != "off" {
		return bad("slice does not start at off")
	}
	m, ok := jfOffPlus(sl.High)
	if !ok {
		return bad("slice does not end at off+M")
	}
	// first statement of the then-branch: off += K
	if len(is.Body.List) == 0 {
		return bad("empty then-branch")
	}
	as, ok := is.Body.List[0].(*ast.AssignStmt)
	if !ok || as.Tok != token.ADD_ASSIGN || len(as.Lhs) != 1 || len(as.Rhs) != 1 {
		return bad("then-branch does not start with `off += K`")
	}
	if id, ok := as.Lhs[0].(*ast.Ident); !ok || id.Name != "off" {
		return bad("then-branch does not start with `off += K`")
	}
	k, ok := jfIntLit(as.Rhs[0])
	if !ok {
		return bad("then-branch does not start with `off += K`")
	}
	return jfLit{label, text, n, m, k}, nil
}

// every `for i, b = range buf[off+1:]` of the function: table and code of the first statement `if T[b] != code { break }`
func jfRangeLoops(body *ast.BlockStmt) ([][2]string, error) {
	var out [][2]string
	var err error
	ast.Inspect(body, func(n ast.Node) bool {
		rs, ok := n.(*ast.RangeStmt)
		if !ok || err != nil {
			return err == nil
		}
		sl, ok := rs.X.(*ast.SliceExpr)
		if !ok {
			return true // a loop over something else than a slice of the buffer (the map reset of openObject)
		}
		if id, ok := sl.X.(*ast.Ident); !ok || id.Name != "buf" {
			return true
		}
		k, ok1 := rs.Key.(*ast.Ident)
		v, ok2 := rs.Value.(*ast.Ident)
		if !ok1 || !ok2 || k.Name != "i" || v.Name != "b" || rs.Tok != token.ASSIGN {
			err = fmt.Errorf("jsonfast: a range loop over the buffer is not `for i, b = range …`")
			return false
		}
		if sl.High != nil || sl.Slice3 {
			err = fmt.Errorf("jsonfast: a range loop is not over buf[off+1:]")
			return false
		}
		if n, ok := jfOffPlus(sl.Low); !ok || n != 1 {
			err = fmt.Errorf("jsonfast: a range loop is not over buf[off+1:]")
			return false
		}
		if len(rs.Body.List) == 0 {
			err = fmt.Errorf("jsonfast: empty range loop")
			return false
		}
		is, ok := rs.Body.List[0].(*ast.IfStmt)
		if !ok || len(is.Body.List) != 1 {
			err = fmt.Errorf("jsonfast: range loop does not start with a break test")
			return false
		}
		if br, ok := is.Body.List[0].(*ast.BranchStmt); !ok || br.Tok != token.BREAK {
			err = fmt.Errorf("jsonfast: range loop does not start with a break test")
			return false
		}
		ne, ok := is.Cond.(*ast.BinaryExpr)
		if !ok || ne.Op != token.NEQ {
			err = fmt.Errorf("jsonfast: break test is not `T[b] != code`")
			return false
		}
		ie, ok := ne.X.(*ast.IndexExpr)
		if !ok {
			err = fmt.Errorf("jsonfast: break test is not `T[b] != code`")
			return false
		}
		tb, ok1 := ie.X.(*ast.Ident)
		ix, ok2 := ie.Index.(*ast.Ident)
		cd, ok3 := ne.Y.(*ast.Ident)
		if !ok1 || !ok2 || !ok3 || ix.Name != "b" {
			err = fmt.Errorf("jsonfast: break test is not `T[b] != code`")
			return false
		}
		out = append(out, [2]string{tb.Name, cd.Name})
		return true
	})
	return out, err
}

func jfLeanPairs(ps [][2]string) string {
	q := make([]string, len(ps))
	for i, p := range ps {
		q[i] = fmt.Sprintf("(%q, %q)", p[0], p[1])
	}
	return "[" + strings.Join(q, ", ") + "]"
}

func jfLeanBytes(s string) string {
	q := make([]string, len(s))
	for i := 0; i < len(s); i++ {
		q[i] = strconv.Itoa(int(s[i]))
	}
	return "[" + strings.Join(q, ", ") + "]"
}

func extractJsonFast(repo, out string) ([]string, error) {
	fset := token.NewFileSet()
	var b strings.Builder
	b.WriteString("/- GENERATED by /verif/tools/extract (jsonfast.go) from oj/parser.go, gen/parser.go, oj/validator.go, oj/tokenizer.go — do not edit; rewritten on every run. -/\n")
	b.WriteString("namespace OjgVerif.Gen.JsonFast\n\n")
	b.WriteString("/-- a literal look-ahead `off+guardN <= len(buf) && string(buf[off:off+sliceN]) == text`, then `off += offInc` -/\n")
	b.WriteString("structure Lit where\n  label : String\n  text : List UInt8\n  guardN : Nat\n  sliceN : Nat\n  offInc : Nat\n  deriving DecidableEq, Repr\n\n")
	for _, r := range []struct{ lean, dir, file, typ, fn string }{
		{"ojParser", "oj", "parser.go", "Parser", "parseBuffer"},
		{"genParser", "gen", "parser.go", "Parser", "parseBuffer"},
		{"ojValidator", "oj", "validator.go", "Validator", "validateBuffer"},
		{"ojTokenizer", "oj", "tokenizer.go", "Tokenizer", "tokenizeBuffer"},
	} {
		f, err := parser.ParseFile(fset, filepath.Join(repo, r.dir, r.file), nil, 0)
		if err != nil {
			return nil, err
		}
		sw, _, err := senSwitch(f, r.typ, r.fn)
		if err != nil {
			return nil, err
		}
		fd := senFuncDecl(f, r.typ, r.fn)
		// the loop around the switch
		var loop *ast.ForStmt
		ast.Inspect(fd.Body, func(n ast.Node) bool {
			if fs, ok := n.(*ast.ForStmt); ok && loop == nil {
				for _, st := range fs.Body.List {
					if st == ast.Stmt(sw) {
						loop = fs
					}
				}
			}
			return loop == nil
		})
		if loop == nil || loop.Init == nil || loop.Cond == nil || loop.Post == nil || len(loop.Body.List) < 2 {
			return nil, fmt.Errorf("jsonfast: %s: buffer loop not found", r.dir)
		}
		var loopLines []string
		for _, n := range []ast.Node{loop.Init, loop.Cond, loop.Post, loop.Body.List[0]} {
			ls, err := senPrintLines(fset, n)
			if err != nil {
				return nil, err
			}
			loopLines = append(loopLines, strings.Join(ls, " "))
		}
		if loop.Body.List[1] != ast.Stmt(sw) {
			return nil, fmt.Errorf("jsonfast: %s: the switch is not the second statement of the buffer loop", r.dir)
		}
		fmt.Fprintf(&b, "/-- `for <init>; <cond>; <post> { <first statement>; switch … }` of (*%s.%s).%s -/\ndef %sLoop : List String := %s\n\n", r.dir, r.typ, r.fn, r.lean, senLeanList(loopLines))
		fmt.Fprintf(&b, "/-- the case clauses of (*%s.%s).%s that have a fast path in one of the front-ends: label and printed statements -/\ndef %sFast : List (String × List String) := [\n", r.dir, r.typ, r.fn, r.lean)
		var lits []jfLit
		for i, lb := range jfFastLabels {
			cc := senCaseClause(sw, lb)
			if cc == nil {
				return nil, fmt.Errorf("jsonfast: %s: case %s not found", r.dir, lb)
			}
			var lines []string
			for _, st := range cc.Body {
				ls, err := senPrintLines(fset, st)
				if err != nil {
					return nil, err
				}
				lines = append(lines, ls...)
			}
			sep := ","
			if i == len(jfFastLabels)-1 {
				sep = ""
			}
			fmt.Fprintf(&b, "  (%q, %s)%s\n", lb, senLeanList(lines), sep)
			if lb == "valNull" || lb == "valTrue" || lb == "valFalse" {
				l, err := jfLitOf(cc, lb)
				if err != nil {
					return nil, err
				}
				lits = append(lits, l)
			}
		}
		b.WriteString("]\n\n")
		fmt.Fprintf(&b, "def %sLits : List Lit := [\n", r.lean)
		for i, l := range lits {
			sep := ","
			if i == len(lits)-1 {
				sep = ""
			}
			fmt.Fprintf(&b, "  ⟨%q, %s, %d, %d, %d⟩%s\n", l.label, jfLeanBytes(l.text), l.guardN, l.sliceN, l.offInc, sep)
		}
		b.WriteString("]\n\n")
		rl, err := jfRangeLoops(fd.Body)
		if err != nil {
			return nil, err
		}
		fmt.Fprintf(&b, "/-- every `for i, b = range buf[off+1:]` of the function, in source order: table and code of its break test `T[b] != code` -/\ndef %sRangeLoops : List (String × String) := %s\n\n", r.lean, jfLeanPairs(rl))
	}
	b.WriteString("end OjgVerif.Gen.JsonFast\n")
	ch, err := writeIfChanged(filepath.Join(out, "JsonFast.lean"), b.String())
	if err != nil {
		return nil, err
	}
	if ch {
		return []string{"JsonFast"}, nil
	}
	return nil, nil
}
