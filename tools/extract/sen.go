// sen: extra extraction for the SEN family (C10, C03sen, C06sen, C07sen).
//
// Reads sen/parser.go and sen/tokenizer.go and writes lean/OjgVerif/Gen/SenFacts.lean:
//
//   - parseResets / parseReaderResets (sen.Parser.Parse / ParseReader) and tokParseResets /
//     tokLoadResets (sen.Tokenizer.Parse / Load): the receiver fields that are assigned on EVERY path
//     from the function entry to the first call of parseBuffer / tokenizeBuffer — top-level
//     `p.f = …` statements and fields assigned in both branches of a top-level if/else. (Fields that
//     are only re-sliced, like `p.stack = p.stack[:0]`, count: the statement gives them a fixed value.)
//   - parserCases / tokenizerCases: the case labels of `switch p.mode[b]` / `switch t.mode[b]` in
//     parseBuffer / tokenizeBuffer, in source order.
//   - facts that pin the repaired code (undoing a fix changes the value, and a theorem of
//     Props/C03sen.lean / C06sen.lean compares it):
//     parserSpaceMapIndexed / tokenizerSpaceMapIndexed: number of `spaceMap[…]` index expressions in
//     parseBuffer / tokenizeBuffer (the whitespace skip after a newline must use the current mode);
//     addStringUnchecked: number of one-valued type assertions `x.(T)` in (*Parser).addString;
//     parserCloseObjectMsgs / tokenizerCloseObjectMsgs: string literals passed to newError in
//     `case closeObject`; tokenizerStrQuoteFields: receiver fields named in `case strQuote` of the
//     tokenizer; tokenizerContinueCases: cases of the tokenizer switch whose last statement is `continue`.
//   - the length tests of the byte-order-mark handling, which the model's BOM rule is instantiated with
//     (Sen.senTables.bomP / bomT): parserReaderBomLoop / tokLoadBomLoop = the literals N of `cnt < N` in
//     ParseReader / Load (the loop "a BOM has to be seen whole"); parserReaderBomDetect / tokLoadBomDetect /
//     parserParseBomDetect / tokParseBomDetect = the literals K of `K < len(buf)` in ParseReader / Load /
//     Parse.
//
// Fails loudly on a source shape it cannot read.
package main

import (
	"bytes"
	"fmt"
	"go/ast"
	"go/parser"
	"go/printer"
	"go/token"
	"path/filepath"
	"sort"
	"strings"
)

func init() { registerExtra(extractSenFacts); registerExtra(extractSenWriterFacts) }

// senSelPath renders `p.a.b` as "a.b" when the root identifier is the receiver.
func senSelPath(x ast.Expr, recv string) (string, bool) {
	var parts []string
	for {
		switch t := x.(type) {
		case *ast.SelectorExpr:
			parts = append([]string{t.Sel.Name}, parts...)
			x = t.X
		case *ast.Ident:
			if t.Name == recv && len(parts) > 0 {
				return strings.Join(parts, "."), true
			}
			return "", false
		default:
			return "", false
		}
	}
}

func senCallsTo(n ast.Node, name string) bool {
	found := false
	ast.Inspect(n, func(x ast.Node) bool {
		if ce, ok := x.(*ast.CallExpr); ok {
			if se, ok := ce.Fun.(*ast.SelectorExpr); ok && se.Sel.Name == name {
				found = true
			}
		}
		return !found
	})
	return found
}

// senAssignedAlways: receiver fields assigned by every execution of the statement list (stops at the
// first statement that calls `stop`).
func senAssignedAlways(stmts []ast.Stmt, recv, stop string) (map[string]bool, bool) {
	set := map[string]bool{}
	for _, st := range stmts {
		if senCallsTo(st, stop) {
			return set, true
		}
		switch t := st.(type) {
		case *ast.AssignStmt:
			for _, l := range t.Lhs {
				if f, ok := senSelPath(l, recv); ok {
					set[f] = true
				}
			}
		case *ast.IfStmt:
			if t.Else == nil {
				continue
			}
			eb, ok := t.Else.(*ast.BlockStmt)
			if !ok {
				continue
			}
			a, _ := senAssignedAlways(t.Body.List, recv, stop)
			b, _ := senAssignedAlways(eb.List, recv, stop)
			for f := range a {
				if b[f] {
					set[f] = true
				}
			}
		}
	}
	return set, false
}

func senFuncDecl(f *ast.File, recvType, name string) *ast.FuncDecl {
	for _, d := range f.Decls {
		fd, ok := d.(*ast.FuncDecl)
		if !ok || fd.Name.Name != name || fd.Recv == nil || len(fd.Recv.List) != 1 {
			continue
		}
		if se, ok := fd.Recv.List[0].Type.(*ast.StarExpr); ok {
			if id, ok := se.X.(*ast.Ident); ok && id.Name == recvType {
				return fd
			}
		}
	}
	return nil
}

func senResets(f *ast.File, recvType, fn, stop string) ([]string, error) {
	fd := senFuncDecl(f, recvType, fn)
	if fd == nil || fd.Body == nil || len(fd.Recv.List[0].Names) != 1 {
		return nil, fmt.Errorf("sen: func (*%s).%s not found", recvType, fn)
	}
	recv := fd.Recv.List[0].Names[0].Name
	set, reached := senAssignedAlways(fd.Body.List, recv, stop)
	if !reached {
		return nil, fmt.Errorf("sen: (*%s).%s has no top-level statement that calls %s", recvType, fn, stop)
	}
	var out []string
	for k := range set {
		out = append(out, k)
	}
	sort.Strings(out)
	return out, nil
}

func senSwitchCases(f *ast.File, recvType, fn string) ([]string, error) {
	fd := senFuncDecl(f, recvType, fn)
	if fd == nil || fd.Body == nil {
		return nil, fmt.Errorf("sen: func (*%s).%s not found", recvType, fn)
	}
	var cases []string
	var err error
	found := false
	ast.Inspect(fd.Body, func(x ast.Node) bool {
		sw, ok := x.(*ast.SwitchStmt)
		if !ok || found {
			return true
		}
		// switch <recv>.mode[b]
		ie, ok := sw.Tag.(*ast.IndexExpr)
		if !ok {
			return true
		}
		se, ok := ie.X.(*ast.SelectorExpr)
		if !ok || se.Sel.Name != "mode" {
			return true
		}
		if id, ok := ie.Index.(*ast.Ident); !ok || id.Name != "b" {
			return true
		}
		found = true
		for _, c := range sw.Body.List {
			cc := c.(*ast.CaseClause)
			for _, e := range cc.List {
				id, ok := e.(*ast.Ident)
				if !ok {
					err = fmt.Errorf("sen: %s: a case label of the mode switch is not an identifier", fn)
					return false
				}
				cases = append(cases, id.Name)
			}
		}
		return false
	})
	if err != nil {
		return nil, err
	}
	if !found {
		return nil, fmt.Errorf("sen: %s: `switch x.mode[b]` not found", fn)
	}
	return cases, nil
}

// senSwitch returns the `switch x.mode[b]` statement of the function.
func senSwitch(f *ast.File, recvType, fn string) (*ast.SwitchStmt, string, error) {
	fd := senFuncDecl(f, recvType, fn)
	if fd == nil || fd.Body == nil || len(fd.Recv.List[0].Names) != 1 {
		return nil, "", fmt.Errorf("sen: func (*%s).%s not found", recvType, fn)
	}
	var res *ast.SwitchStmt
	ast.Inspect(fd.Body, func(x ast.Node) bool {
		sw, ok := x.(*ast.SwitchStmt)
		if !ok || res != nil {
			return res == nil
		}
		ie, ok := sw.Tag.(*ast.IndexExpr)
		if !ok {
			return true
		}
		se, ok := ie.X.(*ast.SelectorExpr)
		if !ok || se.Sel.Name != "mode" {
			return true
		}
		if id, ok := ie.Index.(*ast.Ident); !ok || id.Name != "b" {
			return true
		}
		res = sw
		return false
	})
	if res == nil {
		return nil, "", fmt.Errorf("sen: %s: `switch x.mode[b]` not found", fn)
	}
	return res, fd.Recv.List[0].Names[0].Name, nil
}

func senCaseClause(sw *ast.SwitchStmt, label string) *ast.CaseClause {
	for _, c := range sw.Body.List {
		cc := c.(*ast.CaseClause)
		for _, e := range cc.List {
			if id, ok := e.(*ast.Ident); ok && id.Name == label {
				return cc
			}
		}
	}
	return nil
}

// senIndexCount counts index expressions `name[…]` in the function body.
func senIndexCount(f *ast.File, recvType, fn, name string) (int, error) {
	fd := senFuncDecl(f, recvType, fn)
	if fd == nil || fd.Body == nil {
		return 0, fmt.Errorf("sen: func (*%s).%s not found", recvType, fn)
	}
	n := 0
	ast.Inspect(fd.Body, func(x ast.Node) bool {
		if ie, ok := x.(*ast.IndexExpr); ok {
			if id, ok := ie.X.(*ast.Ident); ok && id.Name == name {
				n++
			}
		}
		return true
	})
	return n, nil
}

// senUncheckedAsserts counts type assertions whose failure panics: every `x.(T)` that is not the
// single right-hand side of a two-valued assignment or definition.
func senUncheckedAsserts(f *ast.File, recvType, fn string) (int, error) {
	fd := senFuncDecl(f, recvType, fn)
	if fd == nil || fd.Body == nil {
		return 0, fmt.Errorf("sen: func (*%s).%s not found", recvType, fn)
	}
	checked := map[*ast.TypeAssertExpr]bool{}
	total := 0
	ast.Inspect(fd.Body, func(x ast.Node) bool {
		switch t := x.(type) {
		case *ast.AssignStmt:
			if len(t.Lhs) == 2 && len(t.Rhs) == 1 {
				if ta, ok := t.Rhs[0].(*ast.TypeAssertExpr); ok {
					checked[ta] = true
				}
			}
		case *ast.TypeAssertExpr:
			if t.Type != nil {
				total++
			}
		}
		return true
	})
	return total - len(checked), nil
}

// senErrorMsgs: the string literals given as format to newError in the statements.
func senErrorMsgs(cc *ast.CaseClause) []string {
	var out []string
	for _, st := range cc.Body {
		ast.Inspect(st, func(x ast.Node) bool {
			ce, ok := x.(*ast.CallExpr)
			if !ok {
				return true
			}
			se, ok := ce.Fun.(*ast.SelectorExpr)
			if !ok || se.Sel.Name != "newError" {
				return true
			}
			for _, a := range ce.Args {
				if bl, ok := a.(*ast.BasicLit); ok && bl.Kind == token.STRING {
					out = append(out, strings.Trim(bl.Value, "\"`"))
				}
			}
			return true
		})
	}
	return out
}

func senFieldsNamed(cc *ast.CaseClause, recv string) []string {
	set := map[string]bool{}
	for _, st := range cc.Body {
		ast.Inspect(st, func(x ast.Node) bool {
			if se, ok := x.(*ast.SelectorExpr); ok {
				if id, ok := se.X.(*ast.Ident); ok && id.Name == recv {
					set[se.Sel.Name] = true
				}
			}
			return true
		})
	}
	var out []string
	for k := range set {
		out = append(out, k)
	}
	sort.Strings(out)
	return out
}

func senContinueCases(sw *ast.SwitchStmt) []string {
	var out []string
	for _, c := range sw.Body.List {
		cc := c.(*ast.CaseClause)
		if len(cc.Body) == 0 {
			continue
		}
		bs, ok := cc.Body[len(cc.Body)-1].(*ast.BranchStmt)
		if !ok || bs.Tok != token.CONTINUE || bs.Label != nil {
			continue
		}
		for _, e := range cc.List {
			if id, ok := e.(*ast.Ident); ok {
				out = append(out, id.Name)
			}
		}
	}
	return out
}

// senLenBounds: the integer literals K of `K < len(buf)` and N of `cnt < N` in the function body.
func senLenBounds(f *ast.File, recvType, fn string) (detect, loop []int, err error) {
	fd := senFuncDecl(f, recvType, fn)
	if fd == nil || fd.Body == nil {
		return nil, nil, fmt.Errorf("sen: func (*%s).%s not found", recvType, fn)
	}
	lit := func(e ast.Expr) (int, bool) {
		bl, ok := e.(*ast.BasicLit)
		if !ok || bl.Kind != token.INT {
			return 0, false
		}
		var n int
		if _, err := fmt.Sscanf(bl.Value, "%d", &n); err != nil {
			return 0, false
		}
		return n, true
	}
	isLenBuf := func(e ast.Expr) bool {
		ce, ok := e.(*ast.CallExpr)
		if !ok || len(ce.Args) != 1 {
			return false
		}
		id, ok := ce.Fun.(*ast.Ident)
		if !ok || id.Name != "len" {
			return false
		}
		a, ok := ce.Args[0].(*ast.Ident)
		return ok && a.Name == "buf"
	}
	ast.Inspect(fd.Body, func(x ast.Node) bool {
		be, ok := x.(*ast.BinaryExpr)
		if !ok || be.Op != token.LSS {
			return true
		}
		if n, ok := lit(be.X); ok && isLenBuf(be.Y) {
			detect = append(detect, n)
		}
		if id, ok := be.X.(*ast.Ident); ok && id.Name == "cnt" {
			if n, ok := lit(be.Y); ok {
				loop = append(loop, n)
			}
		}
		return true
	})
	return detect, loop, nil
}

func senLeanNats(xs []int) string {
	q := make([]string, len(xs))
	for i, x := range xs {
		q[i] = fmt.Sprint(x)
	}
	return "[" + strings.Join(q, ", ") + "]"
}

func senLeanList(xs []string) string {
	q := make([]string, len(xs))
	for i, x := range xs {
		q[i] = fmt.Sprintf("%q", x)
	}
	return "[" + strings.Join(q, ", ") + "]"
}

func extractSenFacts(repo, out string) ([]string, error) {
	fset := token.NewFileSet()
	pf, err := parser.ParseFile(fset, filepath.Join(repo, "sen", "parser.go"), nil, 0)
	if err != nil {
		return nil, err
	}
	tf, err := parser.ParseFile(fset, filepath.Join(repo, "sen", "tokenizer.go"), nil, 0)
	if err != nil {
		return nil, err
	}
	var b strings.Builder
	b.WriteString("/- GENERATED by /verif/tools/extract (sen.go) from sen/parser.go, sen/tokenizer.go — do not edit; rewritten on every run. -/\n")
	b.WriteString("namespace OjgVerif.Gen.SenFacts\n\n")
	for _, r := range []struct {
		lean, typ, fn, stop string
		f                   *ast.File
	}{
		{"parseResets", "Parser", "Parse", "parseBuffer", pf},
		{"parseReaderResets", "Parser", "ParseReader", "parseBuffer", pf},
		{"tokParseResets", "Tokenizer", "Parse", "tokenizeBuffer", tf},
		{"tokLoadResets", "Tokenizer", "Load", "tokenizeBuffer", tf},
	} {
		xs, err := senResets(r.f, r.typ, r.fn, r.stop)
		if err != nil {
			return nil, err
		}
		fmt.Fprintf(&b, "/-- receiver fields assigned on every path of (*%s).%s before %s runs -/\ndef %s : List String := %s\n\n", r.typ, r.fn, r.stop, r.lean, senLeanList(xs))
	}
	pc, err := senSwitchCases(pf, "Parser", "parseBuffer")
	if err != nil {
		return nil, err
	}
	tc, err := senSwitchCases(tf, "Tokenizer", "tokenizeBuffer")
	if err != nil {
		return nil, err
	}
	fmt.Fprintf(&b, "/-- case labels of `switch p.mode[b]` in sen.Parser.parseBuffer -/\ndef parserCases : List String := %s\n\n", senLeanList(pc))
	fmt.Fprintf(&b, "/-- case labels of `switch t.mode[b]` in sen.Tokenizer.tokenizeBuffer -/\ndef tokenizerCases : List String := %s\n\n", senLeanList(tc))
	psw, _, err := senSwitch(pf, "Parser", "parseBuffer")
	if err != nil {
		return nil, err
	}
	tsw, trecv, err := senSwitch(tf, "Tokenizer", "tokenizeBuffer")
	if err != nil {
		return nil, err
	}
	pn, err := senIndexCount(pf, "Parser", "parseBuffer", "spaceMap")
	if err != nil {
		return nil, err
	}
	tn, err := senIndexCount(tf, "Tokenizer", "tokenizeBuffer", "spaceMap")
	if err != nil {
		return nil, err
	}
	fmt.Fprintf(&b, "/-- `spaceMap[…]` index expressions in parseBuffer (the whitespace skip after a newline) -/\ndef parserSpaceMapIndexed : Nat := %d\n\n", pn)
	fmt.Fprintf(&b, "/-- `spaceMap[…]` index expressions in tokenizeBuffer -/\ndef tokenizerSpaceMapIndexed : Nat := %d\n\n", tn)
	ua, err := senUncheckedAsserts(pf, "Parser", "addString")
	if err != nil {
		return nil, err
	}
	fmt.Fprintf(&b, "/-- one-valued (panicking) type assertions in (*Parser).addString -/\ndef addStringUnchecked : Nat := %d\n\n", ua)
	pco, tco, tsq := senCaseClause(psw, "closeObject"), senCaseClause(tsw, "closeObject"), senCaseClause(tsw, "strQuote")
	if pco == nil || tco == nil || tsq == nil {
		return nil, fmt.Errorf("sen: case closeObject / strQuote not found")
	}
	fmt.Fprintf(&b, "/-- messages of the newError calls in `case closeObject` of parseBuffer -/\ndef parserCloseObjectMsgs : List String := %s\n\n", senLeanList(senErrorMsgs(pco)))
	fmt.Fprintf(&b, "/-- messages of the newError calls in `case closeObject` of tokenizeBuffer -/\ndef tokenizerCloseObjectMsgs : List String := %s\n\n", senLeanList(senErrorMsgs(tco)))
	fmt.Fprintf(&b, "/-- receiver fields named in `case strQuote` of tokenizeBuffer -/\ndef tokenizerStrQuoteFields : List String := %s\n\n", senLeanList(senFieldsNamed(tsq, trecv)))
	fmt.Fprintf(&b, "/-- cases of the tokenizer switch whose last statement is `continue` -/\ndef tokenizerContinueCases : List String := %s\n\n", senLeanList(senContinueCases(tsw)))
	for _, r := range []struct {
		detect, loop, typ, fn string
		f                     *ast.File
	}{
		{"parserParseBomDetect", "", "Parser", "Parse", pf},
		{"parserReaderBomDetect", "parserReaderBomLoop", "Parser", "ParseReader", pf},
		{"tokParseBomDetect", "", "Tokenizer", "Parse", tf},
		{"tokLoadBomDetect", "tokLoadBomLoop", "Tokenizer", "Load", tf},
	} {
		det, loop, err := senLenBounds(r.f, r.typ, r.fn)
		if err != nil {
			return nil, err
		}
		fmt.Fprintf(&b, "/-- the literals K of `K < len(buf)` in (*%s).%s (the BOM test) -/\ndef %s : List Nat := %s\n\n", r.typ, r.fn, r.detect, senLeanNats(det))
		if r.loop != "" {
			fmt.Fprintf(&b, "/-- the literals N of `cnt < N` in (*%s).%s (the loop that tops the first read up) -/\ndef %s : List Nat := %s\n\n", r.typ, r.fn, r.loop, senLeanNats(loop))
		}
	}
	b.WriteString("end OjgVerif.Gen.SenFacts\n")
	ch, err := writeIfChanged(filepath.Join(out, "SenFacts.lean"), b.String())
	if err != nil {
		return nil, err
	}
	if ch {
		return []string{"SenFacts"}, nil
	}
	return nil, nil
}


// ---- sen/writer.go: which append functions the options select, and what the indented ones write ----
//
// Writes lean/OjgVerif/Gen/SenWriterFacts.lean:
//
//   - mustSENDispatch / mustWriteDispatch: the statement `if wr.Color { … } else { … }` of (*Writer).MustSEN /
//     MustWrite (it installs appendArray / appendObject / appendDefault according to Tab, Indent, Sort and calls
//     appendSEN), printed by go/printer, one trimmed line per entry, comments dropped;
//   - appendArraySrc / appendObjectSrc / appendSortObjectSrc: the bodies of the three indented append functions,
//     printed the same way (the computation of `is` / `cs` with the clamps against len(spaces) / len(tabs), the
//     brackets, the member filter for OmitNil / OmitEmpty, the `": "` after a member name, the order of the appends);
//   - tightArraySrc / tightObjectSrc / tightSortObjectSrc: the bodies of the three tight append functions (sen/tight.go);
//   - appendSENCases: the case labels (types) of the type switch of (*Writer).appendSEN up to `[]any`, with
//     the printed first statement of each (how a scalar is written).
//
// Props/C10Facts.lean compares them with the text the model `Sen.indentVal` / `Sen.senWrite` was written against.
func senPrintLines(fset *token.FileSet, n ast.Node) ([]string, error) {
	var buf bytes.Buffer
	cfg := printer.Config{Mode: printer.RawFormat, Tabwidth: 1}
	if err := cfg.Fprint(&buf, fset, n); err != nil {
		return nil, err
	}
	var out []string
	for _, ln := range strings.Split(buf.String(), "\n") {
		ln = strings.TrimSpace(ln)
		if ln == "" || strings.HasPrefix(ln, "//") {
			continue
		}
		out = append(out, ln)
	}
	return out, nil
}

func senPlainFunc(f *ast.File, name string) *ast.FuncDecl {
	for _, d := range f.Decls {
		if fd, ok := d.(*ast.FuncDecl); ok && fd.Recv == nil && fd.Name.Name == name {
			return fd
		}
	}
	return nil
}

func extractSenWriterFacts(repo, out string) ([]string, error) {
	fset := token.NewFileSet()
	// comments are not parsed: they do not appear in the printed statements
	wf, err := parser.ParseFile(fset, filepath.Join(repo, "sen", "writer.go"), nil, 0)
	if err != nil {
		return nil, err
	}
	var b strings.Builder
	b.WriteString("/- GENERATED by /verif/tools/extract (sen.go) from sen/writer.go — do not edit; rewritten on every run. -/\n")
	b.WriteString("namespace OjgVerif.Gen.SenWriterFacts\n\n")
	for _, r := range []struct{ lean, fn string }{{"mustSENDispatch", "MustSEN"}, {"mustWriteDispatch", "MustWrite"}} {
		fd := senFuncDecl(wf, "Writer", r.fn)
		if fd == nil || fd.Body == nil {
			return nil, fmt.Errorf("sen: func (*Writer).%s not found", r.fn)
		}
		var pick *ast.IfStmt
		for _, st := range fd.Body.List {
			if is, ok := st.(*ast.IfStmt); ok {
				if se, ok := is.Cond.(*ast.SelectorExpr); ok && se.Sel.Name == "Color" {
					pick = is
				}
			}
		}
		if pick == nil {
			return nil, fmt.Errorf("sen: (*Writer).%s has no top-level `if wr.Color`", r.fn)
		}
		lines, err := senPrintLines(fset, pick)
		if err != nil {
			return nil, err
		}
		fmt.Fprintf(&b, "/-- the `if wr.Color { … } else { … }` statement of (*Writer).%s -/\ndef %s : List String := %s\n\n", r.fn, r.lean, senLeanList(lines))
	}
	for _, r := range []struct{ lean, fn string }{{"appendArraySrc", "appendArray"}, {"appendObjectSrc", "appendObject"}, {"appendSortObjectSrc", "appendSortObject"}} {
		fd := senPlainFunc(wf, r.fn)
		if fd == nil || fd.Body == nil {
			return nil, fmt.Errorf("sen: func %s not found", r.fn)
		}
		lines, err := senPrintLines(fset, fd.Body)
		if err != nil {
			return nil, err
		}
		fmt.Fprintf(&b, "/-- body of func %s (sen/writer.go) -/\ndef %s : List String := %s\n\n", r.fn, r.lean, senLeanList(lines))
	}
	// the tight functions (sen/tight.go)
	tfile, err := parser.ParseFile(fset, filepath.Join(repo, "sen", "tight.go"), nil, 0)
	if err != nil {
		return nil, err
	}
	for _, r := range []struct{ lean, fn string }{{"tightArraySrc", "tightArray"}, {"tightObjectSrc", "tightObject"}, {"tightSortObjectSrc", "tightSortObject"}} {
		fd := senPlainFunc(tfile, r.fn)
		if fd == nil || fd.Body == nil {
			return nil, fmt.Errorf("sen: func %s not found in sen/tight.go", r.fn)
		}
		lines, err := senPrintLines(fset, fd.Body)
		if err != nil {
			return nil, err
		}
		fmt.Fprintf(&b, "/-- body of func %s (sen/tight.go) -/\ndef %s : List String := %s\n\n", r.fn, r.lean, senLeanList(lines))
	}
	// the scalar cases of appendSEN
	fd := senFuncDecl(wf, "Writer", "appendSEN")
	if fd == nil || fd.Body == nil {
		return nil, fmt.Errorf("sen: func (*Writer).appendSEN not found")
	}
	var ts *ast.TypeSwitchStmt
	for _, st := range fd.Body.List {
		if t, ok := st.(*ast.TypeSwitchStmt); ok {
			ts = t
		}
	}
	if ts == nil {
		return nil, fmt.Errorf("sen: (*Writer).appendSEN has no type switch")
	}
	var cases []string
	done := false
	for _, c := range ts.Body.List {
		cc := c.(*ast.CaseClause)
		var labels []string
		for _, e := range cc.List {
			ls, err := senPrintLines(fset, e)
			if err != nil {
				return nil, err
			}
			labels = append(labels, strings.Join(ls, " "))
		}
		lab := strings.Join(labels, ",")
		first := ""
		if len(cc.Body) > 0 {
			ls, err := senPrintLines(fset, cc.Body[0])
			if err != nil {
				return nil, err
			}
			first = strings.Join(ls, " ")
		}
		cases = append(cases, lab+" => "+first)
		if lab == "map[string]any" {
			done = true
			break
		}
	}
	if !done {
		return nil, fmt.Errorf("sen: (*Writer).appendSEN: case map[string]any not found")
	}
	fmt.Fprintf(&b, "/-- the cases of the type switch of (*Writer).appendSEN up to `map[string]any`: label => first statement -/\ndef appendSENCases : List String := %s\n\n", senLeanList(cases))
	b.WriteString("end OjgVerif.Gen.SenWriterFacts\n")
	path := filepath.Join(out, "SenWriterFacts.lean")
	changed, err := writeIfChanged(path, b.String())
	if err != nil {
		return nil, err
	}
	if changed {
		return []string{"SenWriterFacts"}, nil
	}
	return nil, nil
}
