// jpmut_arms: the type-switch skeleton of the path mutators (C13), written to Gen/JpMutArms.lean.
//
// Read off jp/set.go (Expr.set), jp/modify.go (Expr.modify) and the remove/removeOne methods of child.go, nth.go,
// wildcard.go, union.go, slice.go, filter.go with go/ast (no type checker):
//
//   - <fn>FragArms: the case lists of `switch tf := f.(type)` — which fragment kinds the stack machine handles;
//   - <fn>ContArms: for every `switch tv := prev.(type)` the fragment arm it sits in (a Union arm is split by the member
//     kind: `Union/string`, `Union/int64`) and its case lists — which container types each fragment kind handles
//     (`default` included when present);
//   - <fn>ValueLists: the distinct case lists of every `switch v.(type)` (the followable-type tests before a push) with
//     the number of clauses that carry them — a type dropped from ONE such list (`gen.Array` missing from a followable
//     list) changes a count and adds an entry;
//   - removeArms: for each remove/removeOne method the case lists of its `switch tv := value.(type)`;
//   - nthRemoveAllocates: both list arms of Nth.remove call `make` and none appends onto `tv[:i]` (repair 0367e03).
//
// `OjgVerif.C13.arms_are_source` compares them with the tables the model was written against.
// Fails loudly when a function or switch it looks for is missing.
package main

import (
	"fmt"
	"go/ast"
	"path/filepath"
	"sort"
	"strings"
)

func init() { registerExtra(extractJpMutArms) }

type armEntry struct {
	where  string
	labels []string
}

func (j *jmFile) caseLabel(cc *ast.CaseClause) string {
	if cc.List == nil {
		return "default"
	}
	var parts []string
	for _, e := range cc.List {
		parts = append(parts, j.txt(e))
	}
	return strings.Join(parts, ",")
}

// is `ts` the statement `switch <lhs> := <x>.(type)` (lhs may be empty: `switch <x>.(type)`)
func (j *jmFile) isTypeSwitchOn(ts *ast.TypeSwitchStmt, lhs, x string) bool {
	switch a := ts.Assign.(type) {
	case *ast.AssignStmt:
		if lhs == "" || len(a.Lhs) != 1 || len(a.Rhs) != 1 || j.txt(a.Lhs[0]) != lhs {
			return false
		}
		ta, ok := a.Rhs[0].(*ast.TypeAssertExpr)
		return ok && ta.Type == nil && j.txt(ta.X) == x
	case *ast.ExprStmt:
		if lhs != "" {
			return false
		}
		ta, ok := a.X.(*ast.TypeAssertExpr)
		return ok && ta.Type == nil && j.txt(ta.X) == x
	}
	return false
}

func (j *jmFile) clauses(ts *ast.TypeSwitchStmt) (out []*ast.CaseClause) {
	for _, s := range ts.Body.List {
		if cc, ok := s.(*ast.CaseClause); ok {
			out = append(out, cc)
		}
	}
	return
}

// the skeleton of one stack machine (Expr.set / Expr.modify)
func (j *jmFile) machineArms(fd *ast.FuncDecl) (frags []string, conts []armEntry, values map[string]int, err error) {
	var main *ast.TypeSwitchStmt
	ast.Inspect(fd.Body, func(n ast.Node) bool {
		if main != nil {
			return false
		}
		if ts, ok := n.(*ast.TypeSwitchStmt); ok && j.isTypeSwitchOn(ts, "tf", "f") {
			main = ts
			return false
		}
		return true
	})
	if main == nil {
		return nil, nil, nil, fmt.Errorf("jpmut_arms: %s has no `switch tf := f.(type)`", fd.Name.Name)
	}
	values = map[string]int{}
	for _, cc := range j.clauses(main) {
		frag := j.caseLabel(cc)
		frags = append(frags, frag)
		// walk the arm, remembering the member kind of an enclosing `switch tu := u.(type)` clause
		var walk func(n ast.Node, where string)
		walk = func(n ast.Node, where string) {
			ast.Inspect(n, func(m ast.Node) bool {
				ts, ok := m.(*ast.TypeSwitchStmt)
				if !ok {
					return true
				}
				switch {
				case j.isTypeSwitchOn(ts, "tu", "u"):
					for _, uc := range j.clauses(ts) {
						for _, s := range uc.Body {
							walk(s, where+"/"+j.caseLabel(uc))
						}
					}
					return false
				case j.isTypeSwitchOn(ts, "tv", "prev"):
					e := armEntry{where: where}
					for _, pc := range j.clauses(ts) {
						e.labels = append(e.labels, j.caseLabel(pc))
					}
					conts = append(conts, e)
					return true
				case j.isTypeSwitchOn(ts, "", "v"):
					for _, vc := range j.clauses(ts) {
						values[j.caseLabel(vc)]++
					}
					return true
				}
				return true
			})
		}
		for _, s := range cc.Body {
			walk(s, frag)
		}
	}
	if len(frags) == 0 || len(conts) == 0 {
		return nil, nil, nil, fmt.Errorf("jpmut_arms: %s: empty skeleton", fd.Name.Name)
	}
	return
}

func leanStr(s string) string { return fmt.Sprintf("%q", s) }

func leanStrList(l []string) string {
	var parts []string
	for _, s := range l {
		parts = append(parts, leanStr(s))
	}
	return "[" + strings.Join(parts, ", ") + "]"
}

func leanArms(l []armEntry) string {
	var parts []string
	for _, e := range l {
		parts = append(parts, "("+leanStr(e.where)+", "+leanStrList(e.labels)+")")
	}
	return "[\n    " + strings.Join(parts, ",\n    ") + "]"
}

func leanCounts(m map[string]int) string {
	var keys []string
	for k := range m {
		keys = append(keys, k)
	}
	sort.Strings(keys)
	var parts []string
	for _, k := range keys {
		parts = append(parts, fmt.Sprintf("(%s, %d)", leanStr(k), m[k]))
	}
	return "[\n    " + strings.Join(parts, ",\n    ") + "]"
}

func extractJpMutArms(repo, out string) ([]string, error) {
	var b strings.Builder
	b.WriteString("/-! GENERATED by tools/extract (jpmut_arms.go) from jp/set.go, modify.go, child.go, nth.go, wildcard.go, union.go, slice.go, filter.go — do not edit.\n")
	b.WriteString("The type-switch skeleton of the path mutators (see tools/extract/jpmut_arms.go). -/\n")
	b.WriteString("namespace OjgVerif.Gen.JpMutArms\n\n")
	for _, m := range []struct{ file, fn, name string }{{"set.go", "set", "set"}, {"modify.go", "modify", "modify"}} {
		jf, err := jmLoad(repo, m.file)
		if err != nil {
			return nil, err
		}
		fd, err := jf.fn("Expr", m.fn)
		if err != nil {
			return nil, err
		}
		frags, conts, values, err := jf.machineArms(fd)
		if err != nil {
			return nil, err
		}
		fmt.Fprintf(&b, "def %sFragArms : List String := %s\n\n", m.name, leanStrList(frags))
		fmt.Fprintf(&b, "def %sContArms : List (String × List String) := %s\n\n", m.name, leanArms(conts))
		fmt.Fprintf(&b, "def %sValueLists : List (String × Nat) := %s\n\n", m.name, leanCounts(values))
	}
	var rem []armEntry
	for _, m := range []struct{ file, recv string }{
		{"child.go", "Child"}, {"nth.go", "Nth"}, {"wildcard.go", "Wildcard"}, {"union.go", "Union"}, {"slice.go", "Slice"}, {"filter.go", "Filter"}} {
		jf, err := jmLoad(repo, m.file)
		if err != nil {
			return nil, err
		}
		for _, name := range []string{"remove", "removeOne"} {
			fd, err := jf.fn(m.recv, name)
			if err != nil {
				if name == "removeOne" && (m.recv == "Child" || m.recv == "Nth") {
					continue // Child and Nth have no removeOne
				}
				return nil, err
			}
			var sw *ast.TypeSwitchStmt
			ast.Inspect(fd.Body, func(n ast.Node) bool {
				if sw != nil {
					return false
				}
				if ts, ok := n.(*ast.TypeSwitchStmt); ok && jf.isTypeSwitchOn(ts, "tv", "value") {
					sw = ts
					return false
				}
				return true
			})
			if sw == nil {
				return nil, fmt.Errorf("jpmut_arms: %s.%s has no `switch tv := value.(type)`", m.recv, name)
			}
			e := armEntry{where: m.recv + "." + name}
			for _, cc := range jf.clauses(sw) {
				e.labels = append(e.labels, jf.caseLabel(cc))
			}
			rem = append(rem, e)
		}
	}
	fmt.Fprintf(&b, "def removeArms : List (String × List String) := %s\n\n", leanArms(rem))
	// Nth.remove builds a new list (0367e03): both list arms call make and neither appends onto `tv[:i]`
	{
		jf, err := jmLoad(repo, "nth.go")
		if err != nil {
			return nil, err
		}
		fd, err := jf.fn("Nth", "remove")
		if err != nil {
			return nil, err
		}
		ok := true
		for _, want := range []string{"[]any", "gen.Array"} {
			cc := jf.clause(fd.Body, want)
			if cc == nil {
				return nil, fmt.Errorf("jpmut_arms: Nth.remove has no `case %s`", want)
			}
			makes, inPlace := 0, 0
			for _, st := range cc.Body {
				ast.Inspect(st, func(n ast.Node) bool {
					if call, isCall := n.(*ast.CallExpr); isCall {
						switch jf.txt(call.Fun) {
						case "make":
							makes++
						case "append":
							if len(call.Args) > 0 && strings.HasPrefix(jf.txt(call.Args[0]), "tv[") {
								inPlace++
							}
						}
					}
					return true
				})
			}
			if makes == 0 || inPlace != 0 {
				ok = false
			}
		}
		fmt.Fprintf(&b, "/-- Nth.remove collects the survivors in a new list (both list arms `make`, none appends onto `tv[:i]`) -/\ndef nthRemoveAllocates : Bool := %v\n\n", ok)
	}
	b.WriteString("end OjgVerif.Gen.JpMutArms\n")
	ch, err := writeIfChanged(filepath.Join(out, "JpMutArms.lean"), b.String())
	if err != nil {
		return nil, err
	}
	if ch {
		return []string{"JpMutArms.lean"}, nil
	}
	return nil, nil
}
